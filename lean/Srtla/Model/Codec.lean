import Srtla.Gen.Constants
/-!
# Wire codec model (crates/srtla-protocol: types.rs, parsers.rs, builders.rs)

Decoders are written in the `Chk` monad: every Rust slice index `buf[i]` is a
checked read `rd b i` that yields `panic` when out of bounds, and the length
guards are the ones extracted from the source (`Gen.Lit.*`).  Totality theorems
(`Props/C15.lean`) show `panic` is unreachable.  The `…S` ("spec") versions are
the pattern-matching forms used by the rest of the model; `Lemmas/Codec.lean`
proves they agree with the checked forms.
-/
namespace Srtla.Codec
open Srtla.Gen

abbrev Bytes := List UInt8

/-- Outcome of code that may index out of bounds (Rust: panic). -/
inductive Chk (α : Type) where
  | ok : α → Chk α
  | panic : Chk α
deriving Repr, DecidableEq

@[inline] def Chk.bind {α β : Type} (x : Chk α) (f : α → Chk β) : Chk β :=
  match x with
  | .ok a => f a
  | .panic => .panic

instance : Monad Chk where
  pure := Chk.ok
  bind := Chk.bind

def Chk.isOk {α : Type} : Chk α → Bool
  | .ok _ => true
  | .panic => false

/-- Checked byte read: Rust `buf[i]`. -/
def rd (b : Bytes) (i : Nat) : Chk UInt8 :=
  match b[i]? with
  | some x => .ok x
  | none => .panic

def be16 (a b : UInt8) : Nat := a.toNat * 256 + b.toNat
def be32 (a b c d : UInt8) : Nat :=
  a.toNat * 16777216 + b.toNat * 65536 + c.toNat * 256 + d.toNat

def rd16 (b : Bytes) (i : Nat) : Chk Nat := do
  let x ← rd b i
  let y ← rd b (i + 1)
  pure (be16 x y)

def rd32 (b : Bytes) (i : Nat) : Chk Nat := do
  let x ← rd b i
  let y ← rd b (i + 1)
  let z ← rd b (i + 2)
  let w ← rd b (i + 3)
  pure (be32 x y z w)

/-- `u32 as i32` / `i32::from_be_bytes`. -/
def u32ToI32 (n : Nat) : Int := if n < 2147483648 then (n : Int) else (n : Int) - 4294967296
/-- `i32 as u32` / `i32::to_be_bytes`. -/
def i32ToU32 (x : Int) : Nat := (x % 4294967296).toNat

/-! ## types.rs -/

def getPacketType (b : Bytes) : Chk (Option Nat) :=
  if b.length < Lit.PKT_TYPE_MIN_LEN then .ok none
  else do
    let t ← rd16 b 0
    pure (some t)

def getSrtSequenceNumber (b : Bytes) : Chk (Option Nat) :=
  if b.length < Lit.SRT_SEQ_MIN_LEN then .ok none
  else do
    let sn ← rd32 b 0
    pure (if sn < 2147483648 then some sn else none)

def isSrtDataRetransmit (b : Bytes) : Chk Bool :=
  if b.length ≥ Lit.RETRANSMIT_MIN_LEN then do
    let b0 ← rd b 0
    if b0.toNat / 128 % 2 == 0 then do
      let b4 ← rd b 4
      pure (b4.toNat / 4 % 2 != 0)
    else pure false
  else .ok false

def isSrtlaReg1 (b : Bytes) : Chk Bool := do
  if b.length == Proto.SRTLA_TYPE_REG1_LEN then
    let t ← getPacketType b
    pure (t == some Proto.SRTLA_TYPE_REG1)
  else pure false

def isSrtlaReg2 (b : Bytes) : Chk Bool := do
  if b.length == Proto.SRTLA_TYPE_REG2_LEN then
    let t ← getPacketType b
    pure (t == some Proto.SRTLA_TYPE_REG2)
  else pure false

def isSrtlaReg3 (b : Bytes) : Chk Bool := do
  if b.length == Proto.SRTLA_TYPE_REG3_LEN then
    let t ← getPacketType b
    pure (t == some Proto.SRTLA_TYPE_REG3)
  else pure false

def isSrtlaKeepalive (b : Bytes) : Chk Bool := do
  let t ← getPacketType b
  pure (t == some Proto.SRTLA_TYPE_KEEPALIVE)

def isSrtAck (b : Bytes) : Chk Bool := do
  let t ← getPacketType b
  pure (t == some Proto.SRT_TYPE_ACK)

/-! ## parsers.rs -/

/-- The `for i in 0..8 { ts = (ts << 8) | buf[2+i] }` loop. -/
def tsLoop (b : Bytes) : Nat → Nat → Nat → Chk Nat
  | 0, _, ts => .ok ts
  | n + 1, i, ts => do
    let x ← rd b (2 + i)
    tsLoop b n (i + 1) (ts * 256 % 18446744073709551616 + x.toNat)

def extractKeepaliveTimestamp (b : Bytes) : Chk (Option Nat) :=
  if b.length < Lit.KEEPALIVE_TS_MIN_LEN then .ok none
  else do
    let t ← getPacketType b
    match t with
    | none => pure none
    | some t =>
      if t != Proto.SRTLA_TYPE_KEEPALIVE then pure none
      else do
        let ts ← tsLoop b 8 0 0
        pure (some ts)

structure ConnInfo where
  connId : Nat      -- u32
  window : Int      -- i32
  inFlight : Int    -- i32
  rttMs : Nat       -- u32
  nakCount : Nat    -- u32
  bitrate : Nat     -- u32
deriving Repr, DecidableEq

def extractKeepaliveConnInfo (b : Bytes) : Chk (Option ConnInfo) :=
  if b.length < Proto.SRTLA_KEEPALIVE_EXT_LEN then .ok none
  else do
    let t ← getPacketType b
    match t with
    | none => pure none
    | some t =>
      if t != Proto.SRTLA_TYPE_KEEPALIVE then pure none
      else do
        let magic ← rd16 b 10
        if magic != Proto.SRTLA_KEEPALIVE_MAGIC then pure none
        else do
          let ver ← rd16 b 12
          if ver != Proto.SRTLA_KEEPALIVE_EXT_VERSION then pure none
          else do
            let cid ← rd32 b 14
            let w ← rd32 b 18
            let inf ← rd32 b 22
            let rtt ← rd32 b 26
            let nak ← rd32 b 30
            let br ← rd32 b 34
            pure (some { connId := cid, window := u32ToI32 w, inFlight := u32ToI32 inf,
                         rttMs := rtt, nakCount := nak, bitrate := br })

def parseSrtAck (b : Bytes) : Chk (Option Nat) :=
  if b.length < Lit.SRT_ACK_MIN_LEN then .ok none
  else do
    let t ← getPacketType b
    match t with
    | none => pure none
    | some t =>
      if t != Proto.SRT_TYPE_ACK then pure none
      else do
        let a ← rd32 b Lit.SRT_ACK_OFFSET
        pure (some a)

/-- `while seq <= end && out.len() < 1000 { out.push(seq); seq = seq.wrapping_add(1) }`.
Fuel: every iteration grows `out`, whose length is bounded by the guard. -/
def expandLoop : Nat → Nat → Nat → List Nat → List Nat
  | 0, _, _, out => out
  | f + 1, seq, e, out =>
    if seq ≤ e ∧ out.length < Lit.SRT_NAK_MAX_EXPAND then
      expandLoop f ((seq + 1) % 4294967296) e (out ++ [seq])
    else out

/-- The `while i + 3 < buf.len()` loop of `parse_srt_nak`. Fuel: `i` grows by ≥ 4. -/
def nakLoop (b : Bytes) : Nat → Nat → List Nat → Chk (List Nat)
  | 0, _, out => .ok out
  | f + 1, i, out =>
    if i + 3 < b.length then do
      let w ← rd32 b i
      let i := i + 4
      if w ≥ 2147483648 then
        let id := w - 2147483648
        if i + 3 ≥ b.length then .ok out
        else do
          let e ← rd32 b i
          nakLoop b f (i + 4) (expandLoop Lit.SRT_NAK_MAX_EXPAND id e out)
      else nakLoop b f i (out ++ [w])
    else .ok out

def parseSrtNak (b : Bytes) : Chk (List Nat) :=
  if b.length < Lit.SRT_NAK_MIN_LEN then .ok []
  else do
    let t ← getPacketType b
    if t != some Proto.SRT_TYPE_NAK then pure []
    else nakLoop b b.length Lit.SRT_NAK_FIRST_OFFSET []

def ackLoop (b : Bytes) : Nat → Nat → List Nat → Chk (List Nat)
  | 0, _, out => .ok out
  | f + 1, i, out =>
    if i + 3 < b.length then do
      let w ← rd32 b i
      ackLoop b f (i + 4) (out ++ [w])
    else .ok out

def parseSrtlaAck (b : Bytes) : Chk (List Nat) :=
  if b.length < Lit.SRTLA_ACK_MIN_LEN then .ok []
  else do
    let t ← getPacketType b
    if t != some Proto.SRTLA_TYPE_ACK then pure []
    else ackLoop b b.length Lit.SRTLA_ACK_FIRST_OFFSET []

/-! ## builders.rs -/

def toBE16 (n : Nat) : Bytes := [UInt8.ofNat (n / 256 % 256), UInt8.ofNat (n % 256)]
def toBE32 (n : Nat) : Bytes :=
  [UInt8.ofNat (n / 16777216 % 256), UInt8.ofNat (n / 65536 % 256),
   UInt8.ofNat (n / 256 % 256), UInt8.ofNat (n % 256)]
def toBE64 (n : Nat) : Bytes := toBE32 (n / 4294967296 % 4294967296) ++ toBE32 (n % 4294967296)

/-- `id` must have `SRTLA_ID_LEN` bytes (Rust: `&[u8; 256]`). -/
def createReg1 (id : Bytes) : Bytes := toBE16 Proto.SRTLA_TYPE_REG1 ++ id
def createReg2 (id : Bytes) : Bytes := toBE16 Proto.SRTLA_TYPE_REG2 ++ id

def createKeepalive (now : Nat) : Bytes := toBE16 Proto.SRTLA_TYPE_KEEPALIVE ++ toBE64 now

def createKeepaliveExt (info : ConnInfo) (now : Nat) : Bytes :=
  toBE16 Proto.SRTLA_TYPE_KEEPALIVE ++ toBE64 now ++
  toBE16 Proto.SRTLA_KEEPALIVE_MAGIC ++ toBE16 Proto.SRTLA_KEEPALIVE_EXT_VERSION ++
  toBE32 info.connId ++ toBE32 (i32ToU32 info.window) ++ toBE32 (i32ToU32 info.inFlight) ++
  toBE32 info.rttMs ++ toBE32 info.nakCount ++ toBE32 info.bitrate

def createAck (acks : List Nat) : Bytes :=
  toBE16 Proto.SRTLA_TYPE_ACK ++ [0, 0] ++ (acks.map toBE32).flatten

/-! ## Spec ("S") forms used by the rest of the model -/

def getPacketTypeS : Bytes → Option Nat
  | a :: b :: _ => some (be16 a b)
  | _ => none

def getSrtSequenceNumberS : Bytes → Option Nat
  | a :: b :: c :: d :: _ =>
    let sn := be32 a b c d
    if sn < 2147483648 then some sn else none
  | _ => none

def isSrtDataRetransmitS : Bytes → Bool
  | b0 :: _ :: _ :: _ :: b4 :: _ :: _ :: _ :: _ =>
    b0.toNat / 128 % 2 == 0 && b4.toNat / 4 % 2 != 0
  | _ => false

def unChk {α : Type} (d : α) : Chk α → α
  | .ok a => a
  | .panic => d

end Srtla.Codec
