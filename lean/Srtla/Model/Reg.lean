import Srtla.Gen.Constants
import Srtla.Model.Codec
/-!
# Registration manager model (C07)

`crates/srtla-core/src/registration/{mod,probing}.rs` (`SrtlaRegistrationManager`) and the parts of
the shell that drive it: `src/sender/uplink_recv.rs` (`process_uplink_packet`, registration arm) and
`src/sender/housekeeping.rs` (`handle_housekeeping`: clear timed-out pending → probing completion →
per-link reconnect branch → `update_active_connections` → driver sends), `src/sender/mod.rs`
(`start_probing` is called exactly once, right after `SrtlaRegistrationManager::new()`).

Time is `Nat` ms.  `now + 4000` cannot overflow a `u64` for any clock value the process can see, so
the additions are unbounded.  Emitted packets are byte strings built with the codec model
(`Codec.createReg1/createReg2`), received packets are byte strings classified with
`Codec.getPacketTypeS` (proved equal to the checked decoder in `Lemmas/Codec.lean`).
-/
namespace Srtla.Reg
open Srtla.Gen

abbrev Bytes := List UInt8

/-- `ProbingState` (probing.rs). -/
inductive Probing where
  | notStarted | probing | waiting | complete
deriving DecidableEq, Repr

/-- `ProbeResult` (probing.rs). -/
structure ProbeResult where
  connIdx : Nat
  sentMs : Nat
  rtt : Option Nat
deriving DecidableEq, Repr

/-- `SrtlaRegistrationManager`. -/
structure Reg where
  id : Bytes
  pending : Option Nat := none
  pendingTimeoutAt : Nat := 0
  active : Nat := 0
  hasConnected : Bool := false
  broadcastPending : Bool := false
  target : Option Nat := none
  nextSendAt : Nat := 0
  probing : Probing := .notStarted
  probeId : Bytes
  probeResults : List ProbeResult := []
deriving Repr

/-- `SrtlaRegistrationManager::new()`; the two random ids are parameters. -/
def Reg.new (id probeId : Bytes) : Reg := { id := id, probeId := probeId }

/-- `RegistrationEvent`. -/
inductive RegEvent where
  | regNgp | reg2 | reg3 | regErr
deriving DecidableEq, Repr

/-- The 4 s REG2 wait: `REG2_TIMEOUT * 1000`. -/
def reg2WaitMs : Nat := Proto.REG2_TIMEOUT * 1000
/-- `REG3_TIMEOUT * 1000` (written to the shared deadline on REG2 acceptance, pending is none then). -/
def reg3WaitMs : Nat := Proto.REG3_TIMEOUT * 1000

/-! ## mod.rs -/

/-- `build_reg1_for`. -/
def buildReg1For (r : Reg) (idx now : Nat) : Reg × Bytes :=
  ({ r with
      pending := some idx
      target := some idx
      pendingTimeoutAt := now + reg2WaitMs
      nextSendAt := now + Lit.REG1_RETRY_MS },
   Codec.createReg1 r.id)

/-- `build_reg2` (stateless). -/
def buildReg2 (r : Reg) : Bytes := Codec.createReg2 r.id

/-- `handle_probe_response`'s `find(..)` + `rtt_ms.is_none()` update. -/
def markProbe (idx now : Nat) : List ProbeResult → List ProbeResult
  | [] => []
  | p :: ps =>
    if p.connIdx = idx then
      (if p.rtt.isNone then { p with rtt := some (now - p.sentMs) } else p) :: ps
    else p :: markProbe idx now ps

/-- `handle_probe_response`. -/
def handleProbeResponse (r : Reg) (idx now : Nat) : Reg :=
  if r.probing ≠ .waiting then r
  else { r with probeResults := markProbe idx now r.probeResults }

/-- `handle_reg_ngp`. -/
def handleRegNgp (r : Reg) (idx now : Nat) : Reg :=
  if r.probing = .waiting then handleProbeResponse r idx now
  else if r.active = 0 ∧ r.pending = none then
    { r with target := some idx, nextSendAt := now }
  else r

/-- `handle_reg2`. -/
def handleReg2 (r : Reg) (idx : Nat) (buf : Bytes) (now : Nat) : Reg :=
  if buf.length < 2 + Proto.SRTLA_ID_LEN then r
  else if r.pending = some idx then
    { r with
        id := (buf.drop 2).take Proto.SRTLA_ID_LEN
        pending := none
        pendingTimeoutAt := now + reg3WaitMs
        broadcastPending := true
        target := none
        nextSendAt := 0 }
  else r

/-- `handle_reg3`. -/
def handleReg3 (r : Reg) : Reg := { r with hasConnected := true }

/-- `handle_reg_err` (clears the attempt whichever uplink the REG_ERR came from). -/
def handleRegErr (r : Reg) (now : Nat) : Reg :=
  { r with
      pending := none
      pendingTimeoutAt := 0
      target := none
      nextSendAt := now + reg2WaitMs }

/-- `process_registration_packet`. -/
def processRegistrationPacket (r : Reg) (idx : Nat) (buf : Bytes) (now : Nat) : Reg × Option RegEvent :=
  match Codec.getPacketTypeS buf with
  | none => (r, none)
  | some t =>
    if t = Proto.SRTLA_TYPE_REG_NGP then (handleRegNgp r idx now, some .regNgp)
    else if t = Proto.SRTLA_TYPE_REG2 then (handleReg2 r idx buf now, some .reg2)
    else if t = Proto.SRTLA_TYPE_REG3 then (handleReg3 r, some .reg3)
    else if t = Proto.SRTLA_TYPE_REG_ERR then (handleRegErr r now, some .regErr)
    else (r, none)

/-- `RegDriverSends`. -/
structure DriverSends where
  reg1 : Option (Nat × Bytes) := none
  broadcastReg2 : Option Bytes := none
deriving Repr

/-- First half of `reg_driver_pending_sends`: the REG1 decision. -/
def driverReg1 (r : Reg) (now : Nat) : Reg × Option (Nat × Bytes) :=
  if r.active = 0 then
    match r.target with
    | some idx =>
      if r.pending = none ∧ now ≥ r.nextSendAt then
        ({ r with
            pending := some idx
            pendingTimeoutAt := now + reg2WaitMs
            nextSendAt := now + reg2WaitMs },
         some (idx, Codec.createReg1 r.id))
      else (r, none)
    | none => (r, none)
  else (r, none)

/-- Second half of `reg_driver_pending_sends`: the one-shot REG2 broadcast. -/
def driverBroadcast (r : Reg) : Reg × Option Bytes :=
  if r.broadcastPending then
    ({ r with broadcastPending := false }, some (Codec.createReg2 r.id))
  else (r, none)

/-- `reg_driver_pending_sends` (`connection_count` is only logged). -/
def regDriverPendingSends (r : Reg) (now : Nat) : Reg × DriverSends :=
  let (r1, s1) := driverReg1 r now
  let (r2, s2) := driverBroadcast r1
  (r2, { reg1 := s1, broadcastReg2 := s2 })

/-- `reg1_if_ngp_immediate`. -/
def reg1IfNgpImmediate (r : Reg) (idx now : Nat) : Reg × Option Bytes :=
  if r.active = 0 ∧ r.pending = none ∧ r.target = some idx ∧ now ≥ r.nextSendAt then
    let (r', p) := buildReg1For r idx now
    (r', some p)
  else (r, none)

/-- `update_active_connections`: the count of `connected` links. -/
def updateActiveConnections (r : Reg) (connected : List Bool) : Reg :=
  { r with active := connected.count true }

/-- `clear_pending_if_timed_out`. -/
def clearPendingIfTimedOut (r : Reg) (now : Nat) : Reg × Option Nat :=
  match r.pending with
  | some idx =>
    if r.pendingTimeoutAt ≠ 0 ∧ now ≥ r.pendingTimeoutAt then
      ({ r with pending := none, pendingTimeoutAt := 0, target := none, nextSendAt := now }, some idx)
    else (r, none)
  | none => (r, none)

/-! ## probing.rs -/

/-- `is_probing`. -/
def isProbing (r : Reg) : Bool :=
  r.probing = .probing ∨ r.probing = .waiting

/-- `start_probing` over `n` connections; returns the probe REG2 packets `(idx, packet)`. -/
def startProbing (r : Reg) (n now : Nat) : Reg × List (Nat × Bytes) :=
  if r.probing ≠ .notStarted ∨ r.active > 0 then (r, [])
  else
    let idxs := List.range n
    let results := idxs.map fun i => ({ connIdx := i, sentMs := now, rtt := none } : ProbeResult)
    let probes := idxs.map fun i => (i, Codec.createReg2 r.probeId)
    if results.isEmpty then
      ({ r with probing := .complete, probeResults := results }, probes)
    else
      ({ r with probing := .waiting, probeResults := results,
                pendingTimeoutAt := now + Lit.PROBE_TIMEOUT_MS }, probes)

/-- `filter(rtt.is_some()).min_by_key(rtt)`: first element with the least rtt. -/
def bestProbe : List ProbeResult → Option (Nat × Nat)
  | [] => none
  | p :: ps =>
    match p.rtt, bestProbe ps with
    | none, b => b
    | some r, none => some (p.connIdx, r)
    | some r, some (j, rj) => if rj < r then some (j, rj) else some (p.connIdx, r)

/-- `check_probing_complete` with the ambient clock as parameter. -/
def checkProbingComplete (r : Reg) (now : Nat) : Reg × Bool :=
  if r.probing ≠ .waiting then (r, false)
  else
    let allResponded := r.probeResults.all fun p => p.rtt.isSome
    let timedOut := now ≥ r.pendingTimeoutAt
    if allResponded ∨ timedOut then
      let tgt := match bestProbe r.probeResults with
        | some (i, _) => i
        | none => 0
      ({ r with target := some tgt, nextSendAt := now, probing := .complete, pendingTimeoutAt := 0 }, true)
    else (r, false)

/-! ## The shell around the manager: per-link `connected` flags and the event arms -/

/-- Which code path produced a packet. -/
inductive SendKind where
  | reg1Imm    -- uplink_recv.rs: immediate REG1 answering a REG_NGP
  | reg1Drv    -- housekeeping.rs: registration driver REG1
  | reg1Hk     -- housekeeping.rs: reconnect branch, REG1 re-send to the pending uplink
  | reg2Hk     -- housekeeping.rs: reconnect branch, REG2 re-send
  | bcast      -- housekeeping.rs: REG2 broadcast to every uplink
  | probe      -- mod.rs start-up: RTT probe REG2 carrying the probe id
deriving DecidableEq, Repr

/-- One packet handed to the shell for transmission (`target` is ignored for `bcast`). -/
structure Send where
  kind : SendKind
  target : Nat
  pkt : Bytes
deriving DecidableEq, Repr

def Send.isReg1 (s : Send) : Bool :=
  s.kind = .reg1Imm ∨ s.kind = .reg1Drv ∨ s.kind = .reg1Hk

/-- The manager plus the `connected` flag of every uplink (`SrtlaConnection::connected`). -/
structure Sys where
  reg : Reg
  connected : List Bool
deriving Repr

/-- Atomic events of the shell, as far as registration is concerned. -/
inductive Ev where
  /-- `process_uplink_packet` for a datagram received on uplink `idx`. -/
  | pkt (idx now : Nat) (buf : Bytes)
  /-- housekeeping step 1: `clear_pending_if_timed_out(now)`. -/
  | clearTimeout (now : Nat)
  /-- housekeeping step 2: `if is_probing() { check_probing_complete() }`. -/
  | probeCheck (now : Nat)
  /-- housekeeping step 3, taken for a timed-out link that may retry: reconnect (clears
  `connected`) then REG1-if-pending-is-me / defer / REG2. -/
  | reconnect (idx now : Nat)
  /-- a link is torn down without the reconnect branch (`mark_for_recovery` after a send error). -/
  | drop (idx : Nat)
  /-- housekeeping step 4: `update_active_connections`. -/
  | updateActive
  /-- housekeeping step 5: `reg_driver_pending_sends`. -/
  | driver (now : Nat)
deriving Repr

/-- Registration arm of `process_uplink_packet` (uplink_recv.rs). -/
def stepPkt (s : Sys) (idx now : Nat) (buf : Bytes) : Sys × List Send :=
  match processRegistrationPacket s.reg idx buf now with
  | (r, some .regNgp) =>
    match reg1IfNgpImmediate r idx now with
    | (r', some p) => ({ s with reg := r' }, [{ kind := .reg1Imm, target := idx, pkt := p }])
    | (r', none) => ({ s with reg := r' }, [])
  | (r, some .reg3) => ({ reg := r, connected := s.connected.set idx true }, [])
  | (r, some .regErr) => ({ reg := r, connected := s.connected.set idx false }, [])
  | (r, some .reg2) => ({ s with reg := r }, [])
  | (r, none) => ({ s with reg := r }, [])

/-- Reconnect branch of `handle_housekeeping` for link `idx`. -/
def stepReconnect (s : Sys) (idx now : Nat) : Sys × List Send :=
  let conn := s.connected.set idx false
  match s.reg.pending with
  | some p =>
    if p = idx then
      let (r, pk) := buildReg1For s.reg idx now
      ({ reg := r, connected := conn }, [{ kind := .reg1Hk, target := idx, pkt := pk }])
    else ({ s with connected := conn }, [])
  | none => ({ s with connected := conn }, [{ kind := .reg2Hk, target := idx, pkt := buildReg2 s.reg }])

def stepDriver (s : Sys) (now : Nat) : Sys × List Send :=
  let (r, d) := regDriverPendingSends s.reg now
  ({ s with reg := r },
   (match d.reg1 with
    | some (i, p) => [({ kind := .reg1Drv, target := i, pkt := p } : Send)]
    | none => []) ++
   (match d.broadcastReg2 with
    | some p => [({ kind := .bcast, target := 0, pkt := p } : Send)]
    | none => []))

def Sys.step (s : Sys) : Ev → Sys × List Send
  | .pkt idx now buf => stepPkt s idx now buf
  | .clearTimeout now => ({ s with reg := (clearPendingIfTimedOut s.reg now).1 }, [])
  | .probeCheck now =>
    if isProbing s.reg then ({ s with reg := (checkProbingComplete s.reg now).1 }, []) else (s, [])
  | .reconnect idx now => stepReconnect s idx now
  | .drop idx => ({ s with connected := s.connected.set idx false }, [])
  | .updateActive => ({ s with reg := updateActiveConnections s.reg s.connected }, [])
  | .driver now => stepDriver s now

/-- Run a list of events, concatenating the emitted packets. -/
def Sys.run (s : Sys) : List Ev → Sys × List Send
  | [] => (s, [])
  | e :: es =>
    let (s1, o1) := s.step e
    let (s2, o2) := Sys.run s1 es
    (s2, o1 ++ o2)

/-- One `handle_housekeeping` pass as a list of atomic events; `rcs` are the links that take the
reconnect branch this pass, in index order. -/
def tickEvs (now : Nat) (rcs : List Nat) : List Ev :=
  [.clearTimeout now, .probeCheck now] ++ rcs.map (fun i => Ev.reconnect i now) ++ [.updateActive, .driver now]

/-- Start-up: `n` uplinks, none connected, fresh manager. -/
def Sys.init (id probeId : Bytes) (n : Nat) : Sys :=
  { reg := Reg.new id probeId, connected := List.replicate n false }

/-- Start-up followed by the single `start_probing` call of `src/sender/mod.rs`. -/
def Sys.initProbing (id probeId : Bytes) (n now : Nat) : Sys × List Send :=
  let s := Sys.init id probeId n
  let (r, ps) := startProbing s.reg n now
  ({ s with reg := r }, ps.map fun (i, p) => ({ kind := .probe, target := i, pkt := p } : Send))

end Srtla.Reg
