import Srtla.Gen.Constants
/-!
# Connection core model: congestion window, packet log, sequence tracker, ACK/NAK fan-out

Rust: `crates/srtla-core/src/connection/{mod.rs, ack_nak.rs, congestion/*}`,
`src/sender/sequence.rs`, `src/sender/packet_handler.rs` (`attribute_nak`,
`process_connection_events`).

Integers: windows / sequence numbers are `Int` (Rust `i32`), times `Nat` ms
(`saturating_sub` = `Nat` subtraction), `0` = "never" sentinels kept as sentinels.
Float-valued state (RTT filter, quality cache, bitrate) is not part of this record; the
places where the code feeds it are recorded as outputs (`rttSample`).
-/
namespace Srtla.Conn
open Srtla.Gen

def I32_MIN : Int := -2147483648
def I32_MAX : Int := 2147483647

/-- `i32::saturating_add`. -/
def satAddI32 (a b : Int) : Int := max I32_MIN (min I32_MAX (a + b))
/-- `i32::saturating_mul`. -/
def satMulI32 (a b : Int) : Int := max I32_MIN (min I32_MAX (a * b))
/-- `u32 as i32`. -/
def toI32 (n : Nat) : Int :=
  let m := n % 4294967296
  if m < 2147483648 then (m : Int) else (m : Int) - 4294967296

def WINDOW_FLOOR : Int := (Proto.WINDOW_MIN : Int) * Proto.WINDOW_MULT
def WINDOW_CEIL : Int := (Proto.WINDOW_MAX : Int) * Proto.WINDOW_MULT
def WINDOW_INIT : Int := (Proto.WINDOW_DEF : Int) * Proto.WINDOW_MULT
def W_MULT : Int := Proto.WINDOW_MULT
def W_INCR : Int := Proto.WINDOW_INCR
def W_DECR : Int := Proto.WINDOW_DECR
def FR_ENTER : Int := Lit.FAST_RECOVERY_ENTER_WINDOW
def FR_LEAVE : Int := CongEnh.FAST_RECOVERY_DISABLE_WINDOW

/-! ## CongestionControl (congestion/mod.rs, classic.rs, enhanced.rs) -/

structure Cong where
  nakCount : Int := 0
  lastNakMs : Nat := 0
  lastIncrMs : Nat := 0
  consecAcks : Int := 0
  fastRecovery : Bool := false
  fastRecoveryStartMs : Nat := 0
  nakBurstCount : Int := 0
  nakBurstStartMs : Nat := 0
deriving Repr, DecidableEq

/-- `CongestionControl::handle_nak`: returns the new state and window. -/
def Cong.handleNak (c : Cong) (w : Int) (now : Nat) : Cong × Int :=
  let nakCount := satAddI32 c.nakCount 1
  let since := now - c.lastNakMs
  let (burst, burstStart) :=
    if c.lastNakMs > 0 ∧ since < Cong.NAK_BURST_WINDOW_MS then
      if c.nakBurstCount == 0 then ((2 : Int), c.lastNakMs)
      else (satAddI32 c.nakBurstCount 1, c.nakBurstStartMs)
    else ((0 : Int), 0)
  let w' := max (w - W_DECR) WINDOW_FLOOR
  let enter := decide (w' ≤ FR_ENTER) && !c.fastRecovery
  ({ c with
      nakCount := nakCount, nakBurstCount := burst, nakBurstStartMs := burstStart,
      lastNakMs := now, consecAcks := 0,
      fastRecovery := c.fastRecovery || enter,
      fastRecoveryStartMs := if enter then now else c.fastRecoveryStartMs }, w')

/-- `classic::handle_srtla_ack_specific`. -/
def ackClassic (w inFlight : Int) : Int :=
  if satMulI32 inFlight W_MULT > w then min (w + W_INCR - 1) WINDOW_CEIL else w

/-- `enhanced::handle_srtla_ack`. -/
def Cong.ackEnhanced (c : Cong) (w inFlight : Int) : Cong × Int :=
  let w' := ackClassic w inFlight
  ({ c with fastRecovery := c.fastRecovery && !decide (w' ≥ FR_LEAVE) }, w')

/-- Time since the last NAK; `none` = never NAKed (Rust: `u64::MAX`). -/
def Cong.sinceNak (c : Cong) (now : Nat) : Option Nat :=
  if c.lastNakMs > 0 then some (now - c.lastNakMs) else none

def optGe (o : Option Nat) (k : Nat) : Bool := match o with | none => true | some s => decide (s ≥ k)
def optGt (o : Option Nat) (k : Nat) : Bool := match o with | none => true | some s => decide (s > k)

/-- The burst counter is cleared once the last NAK is a full burst window old. -/
def Cong.clearBurst (c : Cong) (now : Nat) : Cong :=
  if optGe (c.sinceNak now) CongEnh.NAK_BURST_WINDOW_MS && decide (c.nakBurstCount > 0) then
    { c with nakBurstCount := 0, nakBurstStartMs := 0 } else c

/-- Whether this tick may add to the window (both waits elapsed). -/
def Cong.mayIncr (c : Cong) (now : Nat) : Bool :=
  let minWait := if c.fastRecovery then CongEnh.FAST_MIN_WAIT_MS else CongEnh.NORMAL_MIN_WAIT_MS
  let incrWait := if c.fastRecovery then CongEnh.FAST_INCREMENT_WAIT_MS else CongEnh.NORMAL_INCREMENT_WAIT_MS
  optGt (c.sinceNak now) minWait && decide (now - c.lastIncrMs > incrWait)

/-- The amount added by one recovery step. `(base as f64 * 0.5) as i32` truncates toward zero;
`base ≥ 0`, so this is `base / 2`. -/
def recoverIncr (fast : Bool) (since : Option Nat) (velHigh : Bool) : Int :=
  let bonus : Int := if fast then 2 else 1
  let base : Int :=
    if optGt since Lit.RECOVERY_TIER3_MS then W_INCR * 2 * bonus
    else if optGt since Lit.RECOVERY_TIER2_MS then W_INCR * bonus
    else if optGt since Lit.RECOVERY_TIER1_MS then W_INCR * bonus / 2
    else W_INCR * bonus / 4
  if velHigh then base / 2 else base

/-- `enhanced::perform_window_recovery`; `velHigh` = (`rtt_velocity > 2.0`). -/
def Cong.recover (c : Cong) (w : Int) (connected velHigh : Bool) (now : Nat) : Cong × Int :=
  if !connected || decide (w ≥ WINDOW_CEIL) then (c, w) else
  let c1 := c.clearBurst now
  if c1.mayIncr now then
    let w' := min (w + recoverIncr c1.fastRecovery (c1.sinceNak now) velHigh) WINDOW_CEIL
    ({ c1 with lastIncrMs := now, fastRecovery := c1.fastRecovery && !decide (w' ≥ FR_LEAVE) }, w')
  else (c1, w)

/-! ## SrtlaConnection (integer part) -/

inductive Phase where
  | registering
  | warming (probes : Nat) (enteredMs : Nat)
  | live
  | degraded
deriving Repr, DecidableEq

structure Conn where
  connId : Nat
  connected : Bool := false
  window : Int := WINDOW_INIT
  inFlight : Int := 0
  /-- `packet_log`: (sequence, send time); no duplicate keys (invariant, proved). -/
  log : List (Int × Nat) := []
  highestAcked : Int := I32_MIN
  lastReceived : Option Nat := none
  lastSent : Option Nat := none
  /-- `last_ack_or_rtt_sample_ms` (0 = no proof yet). -/
  proofMs : Nat := 0
  /-- `rtt.last_rtt_measurement_ms`: stamped whenever an RTT sample is fed to the filter. -/
  lastRttMeasMs : Nat := 0
  cong : Cong := {}
  phase : Phase := .registering
deriving Repr, DecidableEq

def Conn.keys (c : Conn) : List Int := c.log.map Prod.fst

def logInsert (log : List (Int × Nat)) (seq : Int) (t : Nat) : List (Int × Nat) :=
  if log.any (·.1 == seq) then log.map (fun e => if e.1 == seq then (seq, t) else e)
  else log ++ [(seq, t)]

def logErase (log : List (Int × Nat)) (seq : Int) : List (Int × Nat) :=
  log.filter (·.1 != seq)

def logFind (log : List (Int × Nat)) (seq : Int) : Option Nat :=
  (log.find? (·.1 == seq)).map Prod.snd

/-- `register_packet` (with the high-water reset of the `fix:` commit). -/
def Conn.register (c : Conn) (seq : Int) (t : Nat) : Conn :=
  let hi := if seq ≤ c.highestAcked then I32_MIN else c.highestAcked
  let log := logInsert c.log seq t
  { c with highestAcked := hi, log := log, inFlight := log.length }

/-- `handle_srt_ack`. Second component: the RTT sample fed to the tracker, if any. -/
def Conn.srtAck (c : Conn) (ack : Int) (now : Nat) : Conn × Option Nat :=
  if ack ≤ c.highestAcked then (c, none) else
  let sent := logFind c.log ack
  let old := c.highestAcked
  let range := (ack - old).natAbs
  let log :=
    if range ≤ Lit.ACK_FAST_PATH_RANGE ∧ old ≠ I32_MIN then
      c.log.filter (fun e => !(decide (old < e.1) && decide (e.1 ≤ ack)))
    else c.log.filter (fun e => decide (e.1 > ack))
  let sample : Option Nat :=
    match sent with
    | none => none
    | some s =>
      let rtt := now - s
      if rtt > 0 ∧ rtt ≤ Lit.ACK_RTT_MAX_MS then some rtt else none
  ({ c with highestAcked := ack, log := log, inFlight := log.length,
            lastRttMeasMs := if sample.isSome then now else c.lastRttMeasMs }, sample)

/-- `handle_nak`. -/
def Conn.nak (c : Conn) (seq : Int) (now : Nat) : Conn × Bool :=
  if c.log.any (·.1 == seq) then
    let log := logErase c.log seq
    let (cg, w) := c.cong.handleNak c.window now
    ({ c with log := log, inFlight := log.length, cong := cg, window := w }, true)
  else (c, false)

/-- `handle_srtla_ack_specific`. -/
def Conn.srtlaAck (c : Conn) (seq : Int) (classic : Bool) (now : Nat) : Conn × Bool :=
  if c.log.any (·.1 == seq) then
    let log := logErase c.log seq
    let inf : Int := log.length
    if classic then
      ({ c with log := log, inFlight := inf, proofMs := now, window := ackClassic c.window inf }, true)
    else
      let (cg, w) := c.cong.ackEnhanced c.window inf
      ({ c with log := log, inFlight := inf, proofMs := now, cong := cg, window := w }, true)
  else (c, false)

/-- `handle_srtla_ack_global`. -/
def Conn.ackGlobal (c : Conn) : Conn :=
  if c.connected && c.lastReceived.isSome then { c with window := min (c.window + 1) WINDOW_CEIL } else c

/-- `get_score` with `queued` packets waiting in the batch queue. -/
def Conn.score (c : Conn) (queued : Int) : Int :=
  if !c.connected then -1
  else c.window / max (satAddI32 (satAddI32 c.inFlight queued) 1) 1

/-- The packet-state part of `reset_core_state` (used by `mark_for_recovery` and `reset_for_reconnect`). -/
def Conn.resetCore (c : Conn) : Conn :=
  { c with connected := false, window := WINDOW_INIT, inFlight := 0, log := [],
           highestAcked := I32_MIN, phase := .registering, proofMs := 0 }

/-- `mark_for_recovery`: congestion counters are kept. -/
def Conn.markForRecovery (c : Conn) : Conn :=
  { c.resetCore with lastReceived := none }

/-- `reset_for_reconnect`: congestion counters are reset too. -/
def Conn.resetForReconnect (c : Conn) : Conn :=
  { c.resetCore with lastReceived := none, cong := {}, lastRttMeasMs := 0 }

/-- `clear_pre_registration_state` (REG3): window is NOT touched. -/
def Conn.clearPreRegistration (c : Conn) (now : Nat) : Conn :=
  { c with log := [], inFlight := 0, highestAcked := I32_MIN, cong := {},
           phase := .warming 0 now }

/-! ## SequenceTracker (src/sender/sequence.rs): a ring of 16384 slots -/

structure TrkEntry where
  connId : Nat := 0
  ts : Nat := 0
  seq : Nat := 0
deriving Repr, DecidableEq

/-- The ring as a total function slot → entry. -/
structure Tracker where
  ent : Nat → TrkEntry

def Tracker.empty : Tracker := ⟨fun _ => {}⟩

def slotOf (seq : Nat) : Nat := seq % Seq.SEQ_TRACKING_SIZE

def Tracker.insert (t : Tracker) (seq connId ts : Nat) : Tracker :=
  ⟨fun i => if i = slotOf seq then { connId := connId, ts := ts, seq := seq } else t.ent i⟩

def Tracker.get (t : Tracker) (seq now : Nat) : Option Nat :=
  let e := t.ent (slotOf seq)
  if e.connId ≠ 0 ∧ e.seq = seq ∧ ¬ (now - e.ts > Seq.SEQUENCE_TRACKING_MAX_AGE_MS) then some e.connId else none

def Tracker.removeConnection (t : Tracker) (connId : Nat) : Tracker :=
  ⟨fun i => if (t.ent i).connId = connId then {} else t.ent i⟩

/-! ## Fan-out over all links (packet_handler.rs) -/

abbrev Links := List Conn

/-- Apply `f` to the link at `i` (out of range: unchanged). -/
def updateAt (ls : Links) (i : Nat) (f : Conn → Conn) : Links :=
  ls.mapIdx (fun j c => if j = i then f c else c)

/-- Cumulative SRT ACK: every link. -/
def evSrtAck (ls : Links) (ack : Int) (now : Nat) : Links :=
  ls.map (fun c => (c.srtAck ack now).1)

/-- First link other than `skip` (index) that holds `seq` handles the SRTLA ACK. -/
def srtlaAckOthers : Links → Nat → Nat → Int → Bool → Nat → Links
  | [], _, _, _, _, _ => []
  | c :: rest, j, skip, seq, classic, now =>
    if j = skip then c :: srtlaAckOthers rest (j + 1) skip seq classic now
    else
      let (c', found) := c.srtlaAck seq classic now
      if found then c' :: rest else c :: srtlaAckOthers rest (j + 1) skip seq classic now

/-- One SRTLA-ACKed number arriving on link `idx`: arrival link first, else the first other
holder; then the global +1 on every link. -/
def evSrtlaAck (ls : Links) (idx : Nat) (seq : Int) (classic : Bool) (now : Nat) : Links :=
  let ls1 :=
    match ls[idx]? with
    | none => ls
    | some c =>
      let (c', found) := c.srtlaAck seq classic now
      if found then updateAt ls idx (fun _ => c') else srtlaAckOthers ls 0 idx seq classic now
  ls1.map Conn.ackGlobal

/-- Fallback scan of `attribute_nak`: first link whose log holds the number. -/
def nakScan : Links → Int → Nat → Links × Option Nat
  | [], _, _ => ([], none)
  | c :: rest, seq, now =>
    let (c', found) := c.nak seq now
    if found then (c' :: rest, some 0)
    else
      let (rest', r) := nakScan rest seq now
      (c :: rest', r.map (· + 1))

/-- `attribute_nak`: returns the new links and the index charged, if any. -/
def attributeNak (ls : Links) (trk : Tracker) (nak : Nat) (now : Nat) : Links × Option Nat :=
  let seq := toI32 nak
  match trk.get nak now with
  | some cid =>
    match ls.findIdx? (·.connId == cid) with
    | some pos =>
      match ls[pos]? with
      | some c =>
        let (c', found) := c.nak seq now
        if found then (updateAt ls pos (fun _ => c'), some pos) else (ls, none)
      | none => (ls, none)
    | none => nakScan ls seq now
  | none => nakScan ls seq now

end Srtla.Conn
