import Srtla.Gen.Constants
import Srtla.Model.Scalar
import Srtla.Model.Conn
/-!
# Selection state, liveness predicates and the stall guard (latch + silence pull)

Rust: `crates/srtla-core/src/connection/mod.rs` (576-830), `selection/mod.rs` (`apply_stall_gate`),
`config_snapshot.rs`.  The selectors are in `Model/Select.lean`.

`SLink F` holds everything a selection pass reads or writes of one `SrtlaConnection`; `F` is the
scalar type (`Float` in the driver, an ordered field in proofs).  The smoothed RTT enters the
stall guard only through `srtt > 0` and `srtt as u64`, which are separate fields so that the
guard's theorems do not depend on the scalar at all.
-/
namespace Srtla.Select
open Srtla.Gen Srtla.Conn Srtla

structure SLink (F : Type) where
  connId : Nat := 0
  connected : Bool := true
  phase : Phase := .live
  window : Int := 20000
  inFlight : Int := 0
  queued : Int := 0
  lastReceived : Option Nat := none
  lastSent : Option Nat := none
  /-- `last_ack_or_rtt_sample_ms` (0 = never). -/
  proofMs : Nat := 0
  established : Nat := 0
  graceDeadline : Nat := 0
  connTimeoutMs : Nat := 5000
  -- stall guard private state
  stallGated : Bool := false
  latchedSince : Nat := 0
  recoverySince : Nat := 0
  gateEvents : Nat := 0
  probeCounter : Nat := 0
  silencePulled : Bool := false
  pullMark : Option Nat := none
  silencePulls : Nat := 0
  -- admission gates stamped by housekeeping
  weak : Bool := false
  lossDegraded : Bool := false
  ccTarget : Nat := 0
  -- RTT filter outputs
  /-- `get_smooth_rtt_ms() > 0.0`. -/
  srttPos : Bool := false
  /-- `get_smooth_rtt_ms() as u64`. -/
  srttTrunc : Nat := 0
  srtt : F
  rttMin : F
  bitrate : F
  -- quality cache + its inputs
  qualMult : F
  qualAt : Nat := 0
  nakCount : Int := 0
  lastNakMs : Nat := 0
  nakBurst : Int := 0

structure Cfg where
  classic : Bool := false
  quality : Bool := true
  stallDeselect : Bool := true
  stallMinInFlight : Int := 32
  stallCeilingMs : Nat := 3000
  connTimeoutMs : Nat := 5000

variable {F : Type}

/-! ## Liveness predicates -/

/-- `is_timed_out`. -/
def isTimedOut (c : SLink F) (now : Nat) : Bool :=
  if !c.connected then
    if c.established == 0 && decide (now < c.graceDeadline) then false
    else true
  else match c.lastReceived with
    | some lr => decide (now - lr ≥ c.connTimeoutMs)
    | none => false

def schedulable (c : SLink F) : Bool := c.phase != .registering

/-- `get_score`. -/
def score (c : SLink F) : Int :=
  if !c.connected then -1
  else c.window / max (satAddI32 (satAddI32 c.inFlight c.queued) 1) 1

/-! ## Stall guard (integer logic) -/

/-- `effective_stall_stale_ms`. -/
def effStale (c : SLink F) (ceiling : Nat) : Nat :=
  if !c.srttPos then ceiling
  else min (max (c.srttTrunc * Cfg.STALL_STALE_RTT_MULT) Cfg.STALL_STALE_FLOOR_MS) ceiling

/-- `is_stalled`. -/
def isStalled (c : SLink F) (now : Nat) (minInf : Int) (ceiling : Nat) : Bool :=
  c.connected && decide (c.inFlight ≥ minInf) && decide (c.proofMs ≠ 0) &&
    decide (now - c.proofMs ≥ effStale c ceiling)

/-- `silence_pull_window_ms`. -/
def pullWindow (c : SLink F) (ceiling : Nat) : Nat :=
  let base := if !c.srttPos then Cfg.SILENCE_PULL_FLOOR_MS
              else max (c.srttTrunc * Cfg.SILENCE_PULL_RTT_MULT) Cfg.SILENCE_PULL_FLOOR_MS
  min base (effStale c ceiling)

/-- `is_briefly_silent`. -/
def brieflySilent (c : SLink F) (now : Nat) (minInf : Int) (ceiling : Nat) : Bool :=
  if !c.connected || decide (c.inFlight < minInf) then false
  else match c.lastReceived with
    | none => false
    | some lr => decide (now - lr ≥ pullWindow c ceiling)

/-- `update_silence_pull` (with the heard-mark of the `fix:` commit). -/
def updateSilencePull (c : SLink F) (now : Nat) (minInf : Int) (ceiling : Nat) : SLink F :=
  if brieflySilent c now minInf ceiling then
    if !c.silencePulled then
      { c with silencePulls := c.silencePulls + 1, pullMark := c.lastReceived, silencePulled := true }
    else c
  else if !c.silencePulled then c
  else
    let window := pullWindow c ceiling
    let spoke := c.lastReceived != c.pullMark &&
      (match c.lastReceived with | some lr => decide (now - lr < window) | none => false)
    if spoke || !c.connected then { c with silencePulled := false } else c

/-- `update_stall_latch`. -/
def updateStallLatch (c : SLink F) (now : Nat) (minInf : Int) (ceiling : Nat) : SLink F :=
  let stale := effStale c ceiling
  let proofFullyStale := decide (c.proofMs ≠ 0) && decide (now - c.proofMs ≥ stale)
  if isStalled c now minInf ceiling || (c.silencePulled && proofFullyStale) then
    if c.latchedSince == 0 then
      { c with latchedSince := now, gateEvents := c.gateEvents + 1, recoverySince := 0 }
    else { c with recoverySince := 0 }
  else if c.latchedSince == 0 then c
  else
    let proofFresh := decide (c.proofMs ≠ 0) && decide (now - c.proofMs < stale)
    if !proofFresh then { c with recoverySince := 0 }
    else
      let rs := if c.recoverySince == 0 then now else c.recoverySince
      let dwell := stale * Cfg.STALL_REJOIN_DWELL_MULT
      if now - rs ≥ dwell then { c with latchedSince := 0, recoverySince := 0 }
      else { c with recoverySince := rs }

def latched (c : SLink F) : Bool := c.latchedSince != 0

/-- `apply_stall_gate`. -/
def applyStallGate (ls : List (SLink F)) (now : Nat) (cfg : Cfg) : List (SLink F) :=
  let ls0 := ls.map fun c => { c with connTimeoutMs := cfg.connTimeoutMs }
  if !cfg.stallDeselect then
    ls0.map fun c => { c with stallGated := false, silencePulled := false, latchedSince := 0, recoverySince := 0 }
  else
    let ls1 := ls0.map fun c =>
      updateStallLatch (updateSilencePull c now cfg.stallMinInFlight cfg.stallCeilingMs)
        now cfg.stallMinInFlight cfg.stallCeilingMs
    let anyHealthy := ls1.any fun c =>
      c.connected && !isTimedOut c now && schedulable c && !latched c && !c.silencePulled
    ls1.map fun c => { c with stallGated := anyHealthy && (latched c || c.silencePulled) }

end Srtla.Select
