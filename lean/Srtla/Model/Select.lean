import Srtla.Gen.Constants
import Srtla.Model.Scalar
import Srtla.Model.Conn
import Srtla.Model.Stall
/-!
# Selectors: classic, enhanced (quality multiplier, CC soft cap, in-flight cap, hysteresis),
`select_connection_idx`, best-quality override filter.

Rust: `crates/srtla-core/src/selection/{mod,classic,enhanced,quality}.rs`, `priority.rs`.
-/
namespace Srtla.Select
open Srtla.Gen Srtla.Conn Srtla

variable {F : Type}

/-! ## Classic selector -/

def classicGo : List (SLink F) → Nat → Nat → Option Nat → Int → Option Nat
  | [], _, _, best, _ => best
  | c :: rest, i, now, best, bestScore =>
    if isTimedOut c now || !schedulable c || c.stallGated then classicGo rest (i + 1) now best bestScore
    else
      let s := score c
      if s > bestScore then classicGo rest (i + 1) now (some i) s
      else classicGo rest (i + 1) now best bestScore

def classicSelect (ls : List (SLink F)) (now : Nat) : Option Nat := classicGo ls 0 now none (-1)

/-! ## Enhanced selector (scalar code) -/

section scalar
variable [Scalar F]
open Scalar

def phaseWeight : Phase → F
  | .registering => lit 0.0 0 1
  | .warming _ _ => lit Lit.WARMING_WEIGHT_f Lit.WARMING_WEIGHT_num Lit.WARMING_WEIGHT_den
  | .live => lit 1.0 1 1
  | .degraded => lit 1.0 1 1

/-- `in_flight_cap_packets`. -/
def inFlightCap (target : Nat) (rttMin : F) : Option Int :=
  if target == 0 then none else
  let one : F := lit 1.0 1 1
  let rtt := if isFinite rttMin && gt rttMin (lit 0.0 0 1) then rttMin else one
  let bdp := mul (div (mul (ofNat target) (div rtt (lit 1000.0 1000 1))) (lit 8.0 8 1))
                 (lit Enhanced.IN_FLIGHT_CAP_BDP_MULT_f Enhanced.IN_FLIGHT_CAP_BDP_MULT_num Enhanced.IN_FLIGHT_CAP_BDP_MULT_den)
  let cap := fmax (floor (div bdp (ofNat LinkCc.ASSUMED_SRT_PAYLOAD_BYTES))) one
  some (toNatSat (fmin cap (lit 2147483647.0 2147483647 1)) : Nat)

def capExceeded (c : SLink F) : Bool :=
  match inFlightCap c.ccTarget c.rttMin with
  | some cap => decide (c.inFlight > cap)
  | none => false

/-- `cc_soft_cap_multiplier`. -/
def softCapMult (c : SLink F) : F :=
  if c.ccTarget == 0 then lit 1.0 1 1
  else if le c.bitrate (lit 0.0 0 1) then lit 1.0 1 1
  else
    let capF : F := ofNat c.ccTarget
    let headroom := fmax (sub capF c.bitrate) (lit 0.0 0 1)
    clamp (div headroom capF)
      (lit Enhanced.CC_SOFT_CAP_FLOOR_f Enhanced.CC_SOFT_CAP_FLOOR_num Enhanced.CC_SOFT_CAP_FLOOR_den)
      (lit 1.0 1 1)

/-- `calculate_rtt_bonus`. -/
def rttBonus (c : SLink F) : F :=
  if le c.srtt (lit 0.0 0 1) then lit 1.0 1 1
  else
    let f := fmin (div (lit Quality.RTT_BONUS_THRESHOLD_MS_f Quality.RTT_BONUS_THRESHOLD_MS_num Quality.RTT_BONUS_THRESHOLD_MS_den)
                       (fmax c.srtt (lit Quality.MIN_RTT_MS_f Quality.MIN_RTT_MS_num Quality.MIN_RTT_MS_den)))
                  (lit Quality.MAX_RTT_BONUS_f Quality.MAX_RTT_BONUS_num Quality.MAX_RTT_BONUS_den)
    fmax f (lit 1.0 1 1)

/-- `calculate_quality_multiplier`. -/
def qualityMult (c : SLink F) (now : Nat) : F :=
  let perfect : F := lit Quality.PERFECT_CONNECTION_BONUS_f Quality.PERFECT_CONNECTION_BONUS_num Quality.PERFECT_CONNECTION_BONUS_den
  let age := now - c.established
  if age < Quality.STARTUP_GRACE_PERIOD_MS then
    if c.nakCount == 0 then perfect
    else lit Quality.STARTUP_NAK_PENALTY_f Quality.STARTUP_NAK_PENALTY_num Quality.STARTUP_NAK_PENALTY_den
  else
    let q : F :=
      if c.lastNakMs == 0 then
        (if c.nakCount == 0 then perfect else lit 1.0 1 1)
      else
        let nakAge := now - c.lastNakMs
        let decay := exp (div (neg (ofNat nakAge))
          (lit Quality.HALF_LIFE_MS_f Quality.HALF_LIFE_MS_num Quality.HALF_LIFE_MS_den))
        let penalty := mul (lit Quality.MAX_PENALTY_f Quality.MAX_PENALTY_num Quality.MAX_PENALTY_den) decay
        let mult := sub (lit 1.0 1 1) penalty
        if decide (c.nakBurst ≥ Quality.NAK_BURST_THRESHOLD) && decide (nakAge < Quality.NAK_BURST_MAX_AGE_MS) then
          mul mult (lit Quality.NAK_BURST_PENALTY_f Quality.NAK_BURST_PENALTY_num Quality.NAK_BURST_PENALTY_den)
        else mult
    mul q (rttBonus c)

/-- `get_cached_quality_multiplier`. -/
def cachedQuality (c : SLink F) (now : Nat) : SLink F × F :=
  if now - c.qualAt ≥ Conn.QUALITY_CACHE_INTERVAL_MS then
    let q := qualityMult c now
    ({ c with qualMult := q, qualAt := now }, q)
  else (c, c.qualMult)

def anyUnconstrained (ls : List (SLink F)) (now : Nat) : Bool :=
  ls.any fun c =>
    c.connected && !isTimedOut c now && schedulable c && !c.weak && !c.lossDegraded && !c.stallGated &&
      !capExceeded c

/-- The score the enhanced loop gives a link it does not skip; also returns the link with a
possibly refreshed quality cache. -/
def enhScore (c : SLink F) (now : Nat) (quality anyUnc : Bool) : SLink F × F :=
  let gate : F := if anyUnc && (c.weak || c.lossDegraded)
    then lit Enhanced.GATED_LINK_PENALTY_f Enhanced.GATED_LINK_PENALTY_num Enhanced.GATED_LINK_PENALTY_den
    else lit 1.0 1 1
  let base := mul (ofInt (score c)) (phaseWeight c.phase)
  let cap := softCapMult c
  if !quality then (c, mul (mul base cap) gate)
  else
    let (c', q) := cachedQuality c now
    (c', mul (mul (mul base q) cap) gate)

/-- Whether the enhanced loop skips the link. -/
def enhSkip (c : SLink F) (now : Nat) (anyUnc : Bool) : Bool :=
  isTimedOut c now || !schedulable c || c.stallGated || !c.connected || (anyUnc && capExceeded c)

structure EnhAcc (F : Type) where
  out : List (SLink F)          -- processed links, reversed
  best : Option Nat
  bestScore : F
  current : Option F

def enhGo (now : Nat) (quality anyUnc : Bool) (last : Option Nat) :
    List (SLink F) → Nat → EnhAcc F → EnhAcc F
  | [], _, acc => acc
  | c :: rest, i, acc =>
    if enhSkip c now anyUnc then enhGo now quality anyUnc last rest (i + 1) { acc with out := c :: acc.out }
    else
      let (c', s) := enhScore c now quality anyUnc
      let current := if some i == last then some s else acc.current
      let (best, bestScore) := if gt s acc.bestScore then (some i, s) else (acc.best, acc.bestScore)
      enhGo now quality anyUnc last rest (i + 1)
        { out := c' :: acc.out, best := best, bestScore := bestScore, current := current }

/-- `enhanced::select_connection`. -/
def enhancedSelect (ls : List (SLink F)) (last : Option Nat) (now : Nat) (quality : Bool) :
    List (SLink F) × Option Nat :=
  let anyUnc := anyUnconstrained ls now
  let acc := enhGo now quality anyUnc last ls 0
    { out := [], best := none, bestScore := lit (-1.0) (-1) 1, current := none }
  let ls' := acc.out.reverse
  let res :=
    match last with
    | none => acc.best
    | some l =>
      if acc.best != some l then
        match acc.current with
        | some cur =>
          if lt acc.bestScore (mul cur (lit Enhanced.SWITCH_THRESHOLD_f Enhanced.SWITCH_THRESHOLD_num Enhanced.SWITCH_THRESHOLD_den))
          then some l else acc.best
        | none => acc.best
      else acc.best
  (ls', res)

/-- `select_connection_idx`. -/
def selectIdx (ls : List (SLink F)) (last : Option Nat) (now : Nat) (cfg : Cfg) :
    List (SLink F) × Option Nat :=
  let ls1 := applyStallGate ls now cfg
  if cfg.classic then (ls1, classicSelect ls1 now)
  else enhancedSelect ls1 last now (cfg.quality && !cfg.classic)

def bestQualityGo (now : Nat) : List (SLink F) → Nat → Option Nat → F → Option Nat
  | [], _, best, _ => best
  | c :: rest, i, best, bq =>
    if !c.connected || !schedulable c || isTimedOut c now || c.stallGated then bestQualityGo now rest (i + 1) best bq
    else if gt c.qualMult bq then bestQualityGo now rest (i + 1) (some i) c.qualMult
    else bestQualityGo now rest (i + 1) best bq

/-- `priority::select_best_quality_eligible_idx`. -/
def bestQualityEligible (ls : List (SLink F)) (now : Nat) : Option Nat :=
  bestQualityGo now ls 0 none negInf

end scalar

end Srtla.Select
