import Srtla.Gen.Constants
import Srtla.Model.Scalar
import Srtla.Model.Codec
import Srtla.Model.Conn
import Srtla.Model.Stall
import Srtla.Model.Select
import Srtla.Model.Rtt
import Srtla.Model.Link
import Srtla.Model.Reg
/-!
# The sender shell as a step function

Rust: `src/sender/{packet_handler.rs, uplink_recv.rs, housekeeping.rs}` — the arms of the event
loop in `src/sender/mod.rs`, and `src/sender/connections.rs` (`apply_connection_changes`, event `reload`).  One `Ev` = one arm invocation with the clock value it read; the
outcomes of the two fallible external calls that are modelled are injected deterministically (also in
the harness): `send_all_datagrams` on a batch fails for the conn ids in `failNext` (after the first `k` datagrams
of the batch went out, for the failures injected with `Ev.failAfter cid k`: `failAfter`), the socket
re-creation of `reconnect_uplink` (uplink binder) fails for the conn ids in `failBind`.  Everything put on an uplink socket
and everything relayed to the SRT client is returned in `Out`, in order.
-/
namespace Srtla.Sys
open Srtla Srtla.Gen Srtla.Conn Srtla.Select Srtla.Rtt Srtla.Link Scalar

abbrev Bytes := List UInt8

structure Sys (F : Type) where
  links : List (FLink F)
  reg : Reg.Reg
  trk : Tracker := Tracker.empty
  lastSelected : Option Nat := none
  clientKnown : Bool := false
  cfg : Select.Cfg := {}
  critDeadline : Nat := 0
  allFailedAt : Option Nat := none
  /-- conn ids whose next `send_all_datagrams` fails (send-failure injection). -/
  failNext : List Nat := []
  /-- for the PARTIAL ones among the pending send failures: (conn id, number of datagrams of the batch that go out
  before `send_all_datagrams` returns the error), oldest first.  `failNext` holds the conn id of EVERY pending
  injected failure, partial or not (one entry each: it alone decides whether a send fails); of the entries
  `(c, _)` of this list only the LAST `failNext.count c` are live (`failPrefix` reads from the end; the arms of the
  loop never write this field, the two injection events drop the dead entries: `pruneAfter`). -/
  failAfter : List (Nat × Nat) := []
  /-- conn ids whose next socket re-creation in `reconnect_uplink` fails (the uplink binder refuses:
  bind-failure injection); consumed by the next reconnect attempt of that link. -/
  failBind : List Nat := []
  /-- keys of the shell-owned I/O map (`ConnIoMap`, keyed by conn id).  Only `apply_connection_changes`
  (`Ev.reload`) and start-up change the key set; the arms of the loop look a link's I/O half up by its conn
  id and are modelled for links that have one (`Props/SysReload.lean`: `IoOk` — the key set is exactly the
  conn ids of the links — is preserved by every event, `IoOk_step`, and along every run whose reloads draw new
  conn ids, `IoOk_run`, hypotheses `Inv` and `FreshRun`). -/
  io : List Nat := []

/-- Observable effects of one event. -/
structure Out where
  /-- datagrams put on uplink sockets: (conn id, bytes), in order -/
  wire : List (Nat × Bytes) := []
  /-- datagrams relayed to the SRT client, in order -/
  client : List Bytes := []
  /-- housekeeping returned `Err` (all links failed for longer than the global timeout) -/
  hkErr : Bool := false

def Out.append (a b : Out) : Out :=
  { wire := a.wire ++ b.wire, client := a.client ++ b.client, hkErr := a.hkErr || b.hkErr }

variable {F : Type} [Scalar F]

def setAt (ls : List (FLink F)) (i : Nat) (l : FLink F) : List (FLink F) :=
  ls.mapIdx fun j x => if j = i then l else x

/-! ## packet_handler.rs -/

/-- How many datagrams of its batch a FAILING send on conn id `cid` puts on the wire before the error, when `cid`
still occurs `c ≥ 1` times in `failNext`.  With `ks` the prefix lengths of the partial injections pending for `cid`
(oldest first): the plain injections (`fail_next`, nothing goes out) are consulted first - `c > ks.length`: `0` -,
then the partial ones oldest first - the one consumed at multiplicity `c` is entry `ks.length - c`.
(`src/net/mod.rs`: `verif_fail::take` before `verif_fail::take_after`, which removes the first match.) -/
def failPrefix (fa : List (Nat × Nat)) (cid c : Nat) : Nat :=
  let ks := (fa.filter fun e => e.1 == cid).map (·.2)
  if c ≤ ks.length then ks.getD (ks.length - c) 0 else 0

/-- Drop the entries of `failAfter` whose failure has been consumed: `(c, k)` stays iff fewer than
`fn.count c` entries of the same conn id follow it. -/
def pruneAfter (fn : List Nat) : List (Nat × Nat) → List (Nat × Nat)
  | [] => []
  | e :: rest =>
    if (rest.filter fun x => x.1 == e.1).length < fn.count e.1 then e :: pruneAfter fn rest
    else pruneAfter fn rest

/-- `send_connection_batch`: (link, wire datagrams, ok, remaining fail set).  `send_all_datagrams` returns `Err` as
soon as one `sendmmsg` call fails: the datagrams accepted before the failing call ARE on the wire - a prefix of the
batch (`failPrefix`: none for `Ev.failNext`, the first `min k len` for `Ev.failAfter cid k`) -, the rest are not, and
the caller sees a failed send of the whole batch (`ok = false`).  `fa` (`Sys.failAfter`) is only read. -/
def sendConnectionBatch (fa : List (Nat × Nat)) (l : FLink F) (now : Nat) (failNext : List Nat) :
    FLink F × List (Nat × Bytes) × Bool × List Nat :=
  let (l1, batch) := l.takeBatch now
  if batch.isEmpty then (l1, [], true, failNext)
  else if failNext.contains l.core.connId then
    (l1, (batch.take (failPrefix fa l.core.connId (failNext.count l.core.connId))).map fun it => (l.core.connId, it.1),
      false, failNext.erase l.core.connId)
  else (l1, batch.map fun it => (l.core.connId, it.1), true, failNext)

/-- `select_pre_registration_connection`. -/
def selectPreRegistration (ls : List (FLink F)) (last : Option Nat) (now : Nat) : Option Nat :=
  let reuse := match last with
    | some i => match ls[i]? with
      | some c => c.core.connected && !c.isTimedOut now
      | none => false
    | none => false
  if reuse then last else ls.findIdx? fun c => !c.isTimedOut now

/-- `forward_via_connection`. -/
def forwardVia (s : Sys F) (sel : Nat) (pkt : Bytes) (seq : Option Nat) (now : Nat) : Sys F × Out :=
  match s.links[sel]? with
  | none => (s, {})
  | some l =>
    let (l1, needsFlush) := l.queueDataPacket pkt seq now
    let trk := match seq with
      | some sq => s.trk.insert sq l.core.connId now
      | none => s.trk
    let s1 := { s with lastSelected := some sel, trk := trk }
    if needsFlush then
      let (l2, wire, ok, fn) := sendConnectionBatch s.failAfter l1 now s.failNext
      let l3 := if ok then l2 else l2.markForRecovery
      ({ s1 with links := setAt s.links sel l3, failNext := fn }, { wire := wire })
    else ({ s1 with links := setAt s.links sel l1 }, {})

/-- `send_stall_probes`: a 1-in-N duplicate on every stall-gated connected link other than `sel`. -/
def stallProbesGo (fa : List (Nat × Nat)) (pkt : Bytes) (seq : Option Nat) (now sel : Nat) :
    List (FLink F) → Nat → List Nat → List (FLink F) × List (Nat × Bytes) × List Nat
  | [], _, fn => ([], [], fn)
  | l :: rest, i, fn =>
    if i = sel || !l.stallGated || !l.core.connected then
      let (r, w, fn') := stallProbesGo fa pkt seq now sel rest (i + 1) fn
      (l :: r, w, fn')
    else
      let (l1, due) := l.stallProbeDue
      if !due then
        let (r, w, fn') := stallProbesGo fa pkt seq now sel rest (i + 1) fn
        (l1 :: r, w, fn')
      else
        let (l2, needsFlush) := l1.queueDataPacket pkt seq now
        if needsFlush then
          let (l3, wire, ok, fn1) := sendConnectionBatch fa l2 now fn
          let l4 := if ok then l3 else l3.markForRecovery
          let (r, w, fn') := stallProbesGo fa pkt seq now sel rest (i + 1) fn1
          (l4 :: r, wire ++ w, fn')
        else
          let (r, w, fn') := stallProbesGo fa pkt seq now sel rest (i + 1) fn
          (l2 :: r, w, fn')

/-- Run the scheduler on the links (`select_connection_idx`) and write the guard/cache fields back. -/
def runSelect (s : Sys F) (now : Nat) : Sys F × Option Nat :=
  let (sl, r) := selectIdx (s.links.map FLink.toSLink) s.lastSelected now s.cfg
  ({ s with links := (s.links.zip sl).map fun p => p.1.absorb p.2 }, r)

/-- `handle_srt_packet` for a datagram of `n > 0` bytes from the local SRT endpoint. -/
def handleSrtPacket (s : Sys F) (pkt : Bytes) (now : Nat) : Sys F × Out :=
  if pkt.isEmpty then (s, {}) else
  let seq := Codec.getSrtSequenceNumberS pkt
  if !s.reg.hasConnected then
    match selectPreRegistration s.links s.lastSelected now with
    | some i =>
      let (s1, o) := forwardVia s i pkt seq now
      ({ s1 with clientKnown := true }, o)
    | none => ({ s with clientKnown := true }, {})
  else
    let (s1, sel0) := runSelect s now
    let critical := decide (s.critDeadline > now)
    let sel :=
      if seq.isSome && !s.cfg.classic && (critical || Codec.isSrtDataRetransmitS pkt) then
        match bestQualityEligible (s1.links.map FLink.toSLink) now with
        | some b => if sel0 != some b then some b else sel0
        | none => sel0
      else sel0
    match sel with
    | some i =>
      let (s2, o) := forwardVia s1 i pkt seq now
      if seq.isSome then
        let (ls, w, fn) := stallProbesGo s2.failAfter pkt seq now i s2.links 0 s2.failNext
        ({ s2 with links := ls, failNext := fn, clientKnown := true }, { o with wire := o.wire ++ w })
      else ({ s2 with clientKnown := true }, o)
    | none => ({ s1 with clientKnown := true }, {})

/-- `flush_all_batches`. A failed periodic flush only warns: the drained batch is lost. -/
def flushGo (fa : List (Nat × Nat)) (now : Nat) : List (FLink F) → List Nat → List (FLink F) × List (Nat × Bytes) × List Nat
  | [], fn => ([], [], fn)
  | l :: rest, fn =>
    if l.needsBatchFlush now || !l.queue.isEmpty then
      let (l1, wire, _, fn1) := sendConnectionBatch fa l now fn
      let (r, w, fn') := flushGo fa now rest fn1
      (l1 :: r, wire ++ w, fn')
    else
      let (r, w, fn') := flushGo fa now rest fn
      (l :: r, w, fn')

def flushAllBatches (s : Sys F) (now : Nat) : Sys F × Out :=
  if !(s.links.any fun l => !l.queue.isEmpty || l.needsBatchFlush now) then (s, {})
  else
    let (ls, w, fn) := flushGo s.failAfter now s.links s.failNext
    ({ s with links := ls, failNext := fn }, { wire := w })

/-! ## uplink_recv.rs + process_connection_events -/

/-- What `process_uplink_packet` accumulated (`SrtlaIncoming`). -/
structure Incoming where
  forward : List Bytes := []
  acks : List Nat := []
  naks : List Nat := []
  sacks : List Nat := []
  reg1Send : Option Bytes := none
  /-- the ACK fast path already sent this datagram to the client -/
  direct : List Bytes := []

/-- `process_uplink_packet` on link `idx`. -/
def processUplinkPacket (l : FLink F) (idx : Nat) (reg : Reg.Reg) (clientKnown : Bool)
    (data : Bytes) (now : Nat) : FLink F × Reg.Reg × Incoming :=
  match Codec.getPacketTypeS data with
  | none => (l, reg, {})
  | some pt =>
    let (reg1, ev) := Reg.processRegistrationPacket reg idx data now
    match ev with
    | some .regNgp =>
      let (reg2, p) := Reg.reg1IfNgpImmediate reg1 idx now
      (l, reg2, { reg1Send := p })
    | some .reg3 =>
      let l1 := l.clearPreRegistration now
      let l2 := { l1 with core := { l1.core with connected := true, lastReceived := some now },
                          established := if l1.established == 0 then now else l1.established,
                          failCount := 0 }
      (l2, reg1, {})
    | some .regErr => (l.markForRecovery, reg1, {})
    | some .reg2 => (l, reg1, {})
    | none =>
      let l1 := { l with core := { l.core with lastReceived := some now } }
      if pt = Proto.SRT_TYPE_ACK then
        let acks := match Codec.unChk none (Codec.parseSrtAck data) with
          | some a => [a]
          | none => []
        (l1, reg1, { acks := acks, forward := [data], direct := if clientKnown then [data] else [] })
      else if pt = Proto.SRT_TYPE_NAK then
        (l1, reg1, { naks := Codec.unChk [] (Codec.parseSrtNak data), forward := [data] })
      else if pt = Proto.SRTLA_TYPE_ACK then
        (l1, reg1, { sacks := Codec.unChk [] (Codec.parseSrtlaAck data) })
      else if pt = Proto.SRTLA_TYPE_KEEPALIVE then
        let (l2, sample) := l1.handleKeepaliveResponse data now
        match sample with
        | some _ =>
          let l3 := l2.recordRttProbe
          ({ l3 with core := { l3.core with proofMs := now } }, reg1, {})
        | none => (l2, reg1, {})
      else (l1, reg1, { forward := [data] })

/-- Apply `f` to the `Conn` core of every link (the ACK/NAK fan-out works on cores). -/
def cores (ls : List (FLink F)) : Links := ls.map (·.core)
def withCores (ls : List (FLink F)) (cs : Links) : List (FLink F) :=
  (ls.zip cs).map fun p => { p.1 with core := p.2 }

/-- `process_connection_events`. -/
def processConnectionEvents (s : Sys F) (idx : Nat) (inc : Incoming) (now : Nat) : Sys F × Out :=
  let ls1 := inc.acks.foldl (fun ls a => ls.map fun l => l.srtAck (toI32 a) now) s.links
  let cs2 := inc.sacks.foldl (fun cs a => evSrtlaAck cs idx (toI32 a) s.cfg.classic now) (cores ls1)
  let cs3 := inc.naks.foldl (fun cs n => (attributeNak cs s.trk n now).1) cs2
  ({ s with links := withCores ls1 cs3 }, { client := if s.clientKnown then inc.forward else [] })

/-- `handle_uplink_packet`. -/
def handleUplinkPacket (s : Sys F) (connId : Nat) (data : Bytes) (now : Nat) : Sys F × Out :=
  if data.isEmpty then (s, {}) else
  match s.links.findIdx? (·.core.connId == connId) with
  | none => (s, {})
  | some idx =>
    match s.links[idx]? with
    | none => (s, {})
    | some l =>
      let (l1, reg1, inc) := processUplinkPacket l idx s.reg s.clientKnown data now
      let (l2, wire) := match inc.reg1Send with
        | some p => ({ l1 with core := { l1.core with lastSent := some now } }, [(connId, p)])
        | none => (l1, [])
      let s1 := { s with links := setAt s.links idx l2, reg := reg1 }
      let (s2, o) := processConnectionEvents s1 idx inc now
      (s2, { wire := wire, client := inc.direct ++ o.client })

/-! ## housekeeping.rs -/

/-- Per-link pass of `handle_housekeeping`. Returns links, registration state, wire output.
`fb` = conn ids whose socket re-creation fails (`Sys.failBind`); an entry is consumed by the reconnect
attempt it fails (the list left over after the whole pass is `hkBindLeft`).  A failed re-creation
(`reconnect_uplink` returns `Err` before it replaces `io.socket` or touches the connection) falls back
to `mark_for_recovery`: no `reset_for_reconnect`, no `mark_reconnect_success` (the failure counter
`record_attempt` just incremented stays), no `reset_startup_grace`.  The REG1 / REG2 re-send that
follows goes out all the same — on the OLD socket, which is still in the I/O map.
(The sibling arm "link has no I/O entry" leaves the same connection record but sends nothing; the I/O
map is kept in step with the connection list by `apply_connection_changes` — `Props/SysReload.lean`: `IoOk_run`,
from a state whose key set is the links' conn ids, along every run whose reloads draw new conn ids, every link
has its I/O half — so that arm is not modelled.) -/
def hkLinksGo (classic : Bool) (now : Nat) :
    List (FLink F) → Nat → Reg.Reg → List Nat → List (FLink F) × Reg.Reg × List (Nat × Bytes)
  | [], _, reg, _ => ([], reg, [])
  | l :: rest, i, reg, fb =>
    if l.isTimedOut now then
      if l.shouldAttemptReconnect now then
        let l1 := l.recordAttempt now
        let fails := fb.contains l.core.connId
        let fb1 := if fails then fb.erase l.core.connId else fb
        -- `reconnect_uplink`: socket re-creation, then the pure reset; `mark_for_recovery` if it fails
        let l3 := if fails then l1.markForRecovery
          else
            let l2 := l1.resetForReconnect now
            { l2 with failCount := 0, graceDeadline := now + Conn.STARTUP_GRACE_MS }
        match reg.pending with
        | some p =>
          if p = i then
            let (reg1, pkt) := Reg.buildReg1For reg i now
            let l4 := { l3 with core := { l3.core with lastSent := some now } }
            let (r, reg2, w) := hkLinksGo classic now rest (i + 1) reg1 fb1
            (l4 :: r, reg2, (l.core.connId, pkt) :: w)
          else
            let (r, reg2, w) := hkLinksGo classic now rest (i + 1) reg fb1
            (l3 :: r, reg2, w)
        | none =>
          let pkt := Reg.buildReg2 reg
          let l4 := { l3 with core := { l3.core with lastSent := some now } }
          let (r, reg2, w) := hkLinksGo classic now rest (i + 1) reg fb1
          (l4 :: r, reg2, (l.core.connId, pkt) :: w)
      else
        let (r, reg2, w) := hkLinksGo classic now rest (i + 1) reg fb
        (l :: r, reg2, w)
    else
      let (l1, w1) := if l.needsKeepalive now then
          let (x, p) := l.keepalivePacket now; (x, [(l.core.connId, p)])
        else (l, [])
      let (l2, w2) := if l1.needsRttMeasurement now then
          let (x, p) := l1.keepalivePacket now; (x, [(l.core.connId, p)])
        else (l1, [])
      let l3 := if !classic then l2.performWindowRecovery now else l2
      let l4 := { l3 with bitrate := l3.bitrate.calculate now }
      let l5 := (l4.updatePhase now).recomputeBatchRegime
      let (r, reg2, w) := hkLinksGo classic now rest (i + 1) reg fb
      (l5 :: r, reg2, w1 ++ w2 ++ w)

/-- The bind-failure injections still pending after the per-link pass: every reconnect attempt of a
link whose conn id is in the list consumes one entry (the same threading as inside `hkLinksGo`). -/
def hkBindLeft (now : Nat) : List (FLink F) → List Nat → List Nat
  | [], fb => fb
  | l :: rest, fb =>
    if l.isTimedOut now && l.shouldAttemptReconnect now && fb.contains l.core.connId then
      hkBindLeft now rest (fb.erase l.core.connId)
    else hkBindLeft now rest fb

/-- `handle_housekeeping`. -/
def handleHousekeeping (s : Sys F) (now : Nat) : Sys F × Out :=
  let classic := s.cfg.classic
  let (reg0, _) := Reg.clearPendingIfTimedOut s.reg now
  -- probing completion resets the chosen link's grace window
  let (reg1, ls0) :=
    if Reg.isProbing reg0 then
      let (r, _) := Reg.checkProbingComplete reg0 now
      if !Reg.isProbing r then
        match r.target with
        | some idx =>
          (r, s.links.mapIdx fun j l => if j = idx then { l with graceDeadline := now + Conn.STARTUP_GRACE_MS } else l)
        | none => (r, s.links)
      else (r, s.links)
    else (reg0, s.links)
  let (ls1, reg2, w1) := hkLinksGo classic now ls0 0 reg1 s.failBind
  let reg3 := Reg.updateActiveConnections reg2 (ls1.map (·.core.connected))
  let (reg4, sends) := Reg.regDriverPendingSends reg3 now
  let (ls2, w2) := match sends.reg1 with
    | some (idx, pkt) =>
      match ls1[idx]? with
      | some l => (setAt ls1 idx { l with core := { l.core with lastSent := some now } }, [(l.core.connId, pkt)])
      | none => (ls1, [])
    | none => (ls1, [])
  let (ls3, w3) := match sends.broadcastReg2 with
    | some pkt => (ls2.map fun (l : FLink F) => { l with core := { l.core with lastSent := some now } },
                   ls2.map fun (l : FLink F) => (l.core.connId, pkt))
    | none => (ls2, [])
  let active := (ls3.filter fun (l : FLink F) => !l.isTimedOut now).length
  let (afa, err) :=
    if active == 0 then
      let fa := match s.allFailedAt with | some t => t | none => now
      (some fa, decide (now - fa > Hk.GLOBAL_TIMEOUT_MS))
    else (none, false)
  ({ s with links := ls3, reg := reg4, allFailedAt := afa, failBind := hkBindLeft now ls0 s.failBind },
   { wire := w1 ++ w2 ++ w3, hkErr := err })

/-! ## connections.rs: `apply_connection_changes` (the tail of the housekeeping arm after a SIGHUP) -/

/-- `create_connections_from_ips`: one `connect_uplink` attempt per address, in order.  Outcome `k` of `outs`
belongs to attempt `k`: `some id` = the attempt succeeded and drew the random conn id `id`
(`rand::rng().next_u64()`), `none` (or no outcome) = it failed (resolve / socket / bind / connect error): the
address is simply not added.  Every new link is `SrtlaConnection::new_registering(id, label, ip, now_ms())`,
the constructor of start-up.  Closed form (`Lemmas/ReloadExact.lean`: `createConnections_eq`): the addresses
zipped with the outcomes, `filterMap` over the successes. -/
def createConnections (now : Nat) : List Nat → List (Option Nat) → List (FLink F)
  | [], _ => []
  | a :: rest, outs =>
    match outs.head?.join with
    | some id => FLink.newUplink id a now :: createConnections now rest outs.tail
    | none => createConnections now rest outs.tail

/-- `.filter(|ip| seen.insert(*ip))`: first occurrences, order kept (`Lemmas/ReloadExact.lean`: `mem_dedupSeen`,
`dedupSeen_nodup`, `dedupSeen_sublist`, `dedupSeen_firstOcc`, and `dedupSeen_unique`: these four facts determine
the function). -/
def dedupSeen (seen : List Nat) : List Nat → List Nat
  | [] => []
  | x :: xs => if seen.contains x then dedupSeen seen xs else x :: dedupSeen (x :: seen) xs

/-- `new_ips_needed`: the de-duplicated desired addresses no CURRENT link (before the removal) carries
(`Lemmas/ReloadExact.lean`: `mem_neededAddrs_iff`, `neededAddrs_nodup`, `neededAddrs_firstOcc`,
`neededAddrs_unique`). -/
def neededAddrs (ls : List (FLink F)) (newAddrs : List Nat) : List Nat :=
  (dedupSeen [] newAddrs).filter fun a => !(ls.map (·.addr)).contains a

/-- `connections.retain(|c| desired_labels.contains(&c.label))`. -/
def retained (ls : List (FLink F)) (newAddrs : List Nat) : List (FLink F) :=
  ls.filter fun l => newAddrs.contains l.addr

/-- `removed_conn_ids`. -/
def removedIds (ls : List (FLink F)) (newAddrs : List Nat) : List Nat :=
  (ls.filter fun l => !newAddrs.contains l.addr).map (·.core.connId)

/-- `conn_io.insert(conn.conn_id, io)` on the key list (a `HashMap`: an existing key is overwritten). -/
def ioInsert (io : List Nat) (k : Nat) : List Nat := if io.contains k then io else io ++ [k]

/-- `apply_connection_changes(connections, conn_io, new_ips, host, port, last_selected_idx, seq_tracker,
binder)`.  Retained links keep their whole record and their relative order; new links are appended;
`last_selected_idx` is forgotten, the tracker entries of the removed conn ids are reset and their I/O halves
dropped iff at least one link was removed.  NOTHING else is touched: not the registration manager (its
index-keyed state `pending` / `target` / probe results is NOT remapped when the vector shifts), not
`all_failed_at`, not the client address, not the configuration. -/
def applyConnectionChanges (s : Sys F) (now : Nat) (newAddrs : List Nat) (outs : List (Option Nat)) : Sys F :=
  let kept := retained s.links newAddrs
  let removed := removedIds s.links newAddrs
  let changed := kept.length != s.links.length
  let added := createConnections now (neededAddrs s.links newAddrs) outs
  { s with
    links := kept ++ added
    lastSelected := if changed then none else s.lastSelected
    trk := if changed then removed.foldl Tracker.removeConnection s.trk else s.trk
    io := (added.map (·.core.connId)).foldl ioInsert
            (if changed then s.io.filter (fun k => !removed.contains k) else s.io) }

/-! ## Events -/

/-- The four verdict fields of the link at index `idx` are overwritten, nothing else (no link: nothing). -/
def stampLink (ls : List (FLink F)) (idx : Nat) (weak ld ccb : Bool) (cct : Nat) : List (FLink F) :=
  ls.mapIdx fun j l =>
    if j = idx then { l with weak := weak, lossDegraded := ld, ccBackingOff := ccb, ccTarget := cct } else l

inductive Ev where
  | client (now : Nat) (pkt : Bytes)
  | uplink (now : Nat) (connId : Nat) (data : Bytes)
  | flush (now : Nat)
  | hk (now : Nat)
  | setCfg (cfg : Select.Cfg)
  | crit (deadline : Nat)
  | failNext (connId : Nat)
  /-- the next `send_all_datagrams` on the link with this conn id puts the first `min k len` datagrams of its batch
  on the wire and THEN fails (`verif_fail::fail_after(fd, k)`); `failNext cid` is the case "nothing went out" and
  is consulted first when both are pending. -/
  | failAfter (connId : Nat) (k : Nat)
  /-- the next socket re-creation of the link with this conn id fails (binder error) -/
  | failBind (connId : Nat)
  /-- the stamping loop of the housekeeping arm (`src/sender/mod.rs`, after `handle_housekeeping`): the
  verdicts of the weak-link classifier and the per-link CC controller for the link at index `idx` are
  written onto the connection (`conn.weak`, `conn.loss_degraded`, `conn.cc_backing_off`,
  `conn.cc_target_bps`).  The verdicts are INPUTS of the event: the components that compute them are
  modelled separately (`Model/Classifier.lean`, `Model/LinkCc.lean`). -/
  | stamp (idx : Nat) (weak lossDegraded ccBackingOff : Bool) (ccTargetBps : Nat)
  /-- `srtla_core::selection::sync_conn_timeout(conns, &ConfigSnapshot)`: every link's copy of the connection
  timeout is set to the configured value.  The housekeeping arm of the event loop (and the pre-loop pass)
  calls it right before `handle_housekeeping`: the real arm is the two-event sequence
  `[.syncTimeout, .hk now]`.  (`apply_stall_gate` performs the same write in every selection pass.) -/
  | syncTimeout
  /-- the tail of the housekeeping arm when a SIGHUP queued a new address list (`pending_changes.take()` in
  `src/sender/mod.rs`, after the stamping loop and the stats publish): `apply_connection_changes` with the
  desired addresses `newAddrs`.  `now` is the clock `connect_uplink` reads for the new links; `outs` are the
  outcomes of the `connect_uplink` attempts, one per needed address in order (`createConnections`): inputs of
  the event, because the conn ids are random and socket creation is the operating system's.  Theorems that
  need the new ids to differ from the present ones take that as an explicit hypothesis. -/
  | reload (now : Nat) (newAddrs : List Nat) (outs : List (Option Nat))

/-- Is the event a reload (the only event that changes the link SET)? -/
def Ev.isReload : Ev → Bool
  | .reload _ _ _ => true
  | _ => false

def step (s : Sys F) : Ev → Sys F × Out
  | .client now pkt => handleSrtPacket s pkt now
  | .uplink now cid data => handleUplinkPacket s cid data now
  | .flush now => flushAllBatches s now
  | .hk now => handleHousekeeping s now
  | .setCfg cfg => ({ s with cfg := cfg }, {})
  | .crit d => ({ s with critDeadline := max s.critDeadline d }, {})
  | .failNext cid =>
    ({ s with failNext := cid :: s.failNext, failAfter := pruneAfter s.failNext s.failAfter }, {})
  | .failAfter cid k =>
    ({ s with failNext := cid :: s.failNext, failAfter := pruneAfter s.failNext s.failAfter ++ [(cid, k)] }, {})
  | .failBind cid => ({ s with failBind := cid :: s.failBind }, {})
  | .stamp idx weak ld ccb cct => ({ s with links := stampLink s.links idx weak ld ccb cct }, {})
  | .syncTimeout =>
    ({ s with links := s.links.map fun l => { l with connTimeoutMs := s.cfg.connTimeoutMs } }, {})
  | .reload now newAddrs outs => (applyConnectionChanges s now newAddrs outs, {})

end Srtla.Sys
