import Srtla.Gen.Constants
/-!
# Weak-link classifier model (crates/srtla-core/src/selection/classifier.rs)

`WeakLinkFilter::classify(&mut self, conns: &[SrtlaConnection]) -> ClassificationResult`,
called once per housekeeping tick from `src/sender/mod.rs`.

What the model reads from a connection is exactly what the Rust code reads:
`conn_id`, `connected`, `bitrate.current_bitrate_bps` (f64, any bit pattern),
`get_smooth_rtt_ms()` (= `kalman.value().max(0.0)`; `kalman` = `none` models a filter that is
not initialised, value 0.0) and `queue_building_suspected()` (reproduced from the public
`RttTracker` fields it reads: `rtt_min_fast_ms`, `rtt_min_slow_ms`, `rtt_masd_ms`, `rtt_min_ms`,
`kalman_rtt.is_initialized()`).

Structure:
* **float front end** (`fmax`, `totalBps`, `pickTier`, `sharePermille`, `queueBuilding`, …): Lean
  `Float`, executed bit-for-bit like Rust `f64` in the compiled driver.  Lean's logic knows nothing
  about `Float` arithmetic, so the theorems treat these functions as *uninterpreted* functions of the
  tick input (they hold for whatever values they return).
* **decision skeleton** (`linkStep`): integers/booleans only — streaks, hysteresis, probation.
  All property theorems are about this part, composed with the front end, for all tick histories.

The four Rust hash maps (`prev_weak`, `delay_weak_streak`, `weak_streak`, `probation_ticks`) are
only ever read through `get(id).unwrap_or(false / 0 / 0 / 0)`, so they are modelled as ONE
association list `id ↦ Mem` whose missing fields read as the defaults (a key that is only in
`probation_ticks` is a row `{probation := p}`), with "last insertion wins" lookup.
INPUT RESTRICTION: the `conn_id`s of one slice are pairwise distinct (the sender draws them as
random u64s and keys its I/O map by them).  With duplicate ids the four maps would no longer move in lockstep; the
driver refuses such ticks (`bad-op`) and the history theorems assume `uniqueIds`.
-/
namespace Srtla.Classifier
open Srtla.Gen

/-! ## Rust float helpers (Rust semantics, not Lean's `max`) -/

/-- Rust `f64::max`: a NaN operand is ignored. (For `-0.0` vs `0.0` Rust leaves the sign
unspecified; no caller below can observe it.) -/
def fmax (a b : Float) : Float :=
  if a.isNaN then b else if b.isNaN then a else if a < b then b else a

/-- Rust `f64::clamp(lo, hi)` (NaN stays NaN). -/
def fclamp (x lo hi : Float) : Float :=
  let x := if x < lo then lo else x
  if x > hi then hi else x

/-- Rust `x as u64` (truncating, saturating, NaN → 0). -/
def f2u64 (x : Float) : Nat := x.toUInt64.toNat

/-- Rust `x as u32` (truncating, saturating, NaN → 0). -/
def f2u32 (x : Float) : Nat := min x.toUInt64.toNat 4294967295

/-! ## Types -/

inductive Reason where
  | Healthy | HighRtt | QueueBuilding | NoTraffic | LowShare | Bypassed
deriving Repr, DecidableEq, Inhabited

def Reason.name : Reason → String
  | .Healthy => "Healthy" | .HighRtt => "HighRtt" | .QueueBuilding => "QueueBuilding"
  | .NoTraffic => "NoTraffic" | .LowShare => "LowShare" | .Bypassed => "Bypassed"

/-- What `classify` reads from one `SrtlaConnection`. -/
structure LinkIn where
  id : Nat
  connected : Bool
  bps : Float                 -- bitrate.current_bitrate_bps
  kalman : Option Float       -- rtt.kalman_rtt: none = not initialised, some x = value() is x
  minFast : Float             -- rtt.rtt_min_fast_ms
  minSlow : Float             -- rtt.rtt_min_slow_ms
  masd : Float                -- rtt.rtt_masd_ms
  rttMin : Float              -- rtt.rtt_min_ms

abbrev Tick := List LinkIn

/-- Per-link memory (one row of the four hash maps). `{}` is what a missing key reads as. -/
structure Mem where
  prevWeak : Bool := false
  delayStreak : Nat := 0
  weakStreak : Nat := 0
  probation : Nat := 0
deriving Repr, DecidableEq, Inhabited

abbrev State := List (Nat × Mem)

structure LinkOut where
  id : Nat
  weak : Bool
  reason : Reason
  share : Nat
  threshold : Nat
  /-- Rust would have panicked (`delay_signal.unwrap()` on `None`). Proved unreachable. -/
  panicked : Bool := false
deriving Repr, DecidableEq, Inhabited

structure Result where
  selectedDelay : Nat
  estimatedMaxDelay : Nat
  perLink : List LinkOut
deriving Repr

/-! ## Float front end -/

/-- `conn.get_smooth_rtt_ms() as u32`. -/
def rttMs (l : LinkIn) : Nat := f2u32 (fmax (l.kalman.getD 0.0) 0.0)

/-- `conn.bitrate.current_bitrate_bps.max(0.0)`. -/
def bpsOf (l : LinkIn) : Float := fmax l.bps 0.0

/-- `RttTracker::queue_building_suspected`. -/
def queueBuilding (l : LinkIn) : Bool :=
  match l.kalman with
  | none => false
  | some _ =>
    if !l.rttMin.isFinite then false
    else
      let trip := fmax (Rtt.GRAD_TRIP_SIGMA_f * l.masd) (Rtt.GRAD_TRIP_FLOOR_FRACTION_f * l.rttMin)
      decide (fmax (l.minFast - l.minSlow) 0.0 > trip)

def connectedCount (t : Tick) : Nat := (t.filter (·.connected)).length

/-- First pass: `total_bps` (left-to-right f64 sum over connected links, from 0.0). -/
def totalBps (t : Tick) : Float :=
  t.foldl (fun acc l => if l.connected then acc + bpsOf l else acc) 0.0

def longestRtt (t : Tick) : Nat :=
  t.foldl (fun acc l => if l.connected && decide (rttMs l > acc) then rttMs l else acc) 0

/-- The bypass test: `total_bps < MIN_TOTAL_BPS_FOR_CLASSIFICATION || connected_count == 0`. -/
def bypass (t : Tick) : Bool :=
  decide (totalBps t < Classifier.MIN_TOTAL_BPS_FOR_CLASSIFICATION_f) || connectedCount t == 0

/-- `derive_max_delay_budget`: `(rtt as f64 * 3.0) as u32` clamped to 500..5000. -/
def deriveMaxDelayBudget (longest : Nat) : Nat :=
  let raw := f2u32 (Float.ofNat longest * Classifier.RTT_TO_DELAY_BUDGET_MULT_f)
  if raw < Classifier.MIN_BUDGET_MS then Classifier.MIN_BUDGET_MS
  else if raw > Classifier.MAX_BUDGET_MS then Classifier.MAX_BUDGET_MS else raw

-- tier percentages 40/50/60 of 100 are bare literals in the source (tied by the differential runs)
def targetBest (est : Nat) : Nat := min (est * 40 / 100) Classifier.TARGET_BEST_SAFE_CAP_MS
def targetSafe (est : Nat) : Nat := min (est * 50 / 100) Classifier.TARGET_BEST_SAFE_CAP_MS
def targetMax (est : Nat) : Nat := min (est * 60 / 100) Classifier.TARGET_MAX_CAP_MS

/-- Second pass: throughput of connected links whose RTT fits under `lim`. -/
def bucket (t : Tick) (lim : Nat) : Float :=
  t.foldl (fun acc l => if l.connected && decide (rttMs l ≤ lim) then acc + bpsOf l else acc) 0.0

def pickTier (total best safe mx : Float) (bd sd md : Nat) : Nat :=
  let bestPm := f2u64 ((best * 1000.0) / total)
  let safePm := f2u64 ((safe * 1000.0) / total)
  let maxPm := f2u64 ((mx * 1000.0) / total)
  if bestPm > Classifier.SHARE_85_PERMILLE then bd
  else if safePm > Classifier.SHARE_85_PERMILLE then sd
  else if maxPm > Classifier.SHARE_85_PERMILLE then
    if bestPm > Classifier.SHARE_50_PERMILLE then bd
    else if safePm > Classifier.SHARE_50_PERMILLE then sd
    else if maxPm > Classifier.SHARE_50_PERMILLE then md
    else if bestPm > Classifier.SHARE_25_PERMILLE then bd
    else if safePm > Classifier.SHARE_25_PERMILLE then sd
    else md
  else md

def estimatedMaxDelay (t : Tick) : Nat := deriveMaxDelayBudget (longestRtt t)

def selectedDelay (t : Tick) : Nat :=
  let est := estimatedMaxDelay t
  let tb := targetBest est
  let ts := targetSafe est
  let tm := targetMax est
  pickTier (totalBps t) (bucket t tb) (bucket t ts) (bucket t tm) tb ts tm

/-- `share_permille` of one link in this tick. -/
def sharePermille (t : Tick) (l : LinkIn) : Nat :=
  let total := totalBps t
  if total > 0.0 then f2u32 (fclamp ((bpsOf l * 1000.0) / total) 0.0 1000.0) else 0

/-- The delay signal of one link in this tick (`None` = no signal). -/
def delaySignal (t : Tick) (l : LinkIn) : Option Reason :=
  if rttMs l > selectedDelay t then some .HighRtt
  else if queueBuilding l then some .QueueBuilding
  else none

/-- `ENTER_FAIR_SHARE_NUMERATOR / n_connected` (n ≥ 1 whenever it is evaluated: the bypass branch
returns first when `connected_count == 0`, so the Rust division cannot panic). -/
def enterThr (t : Tick) : Nat := Classifier.ENTER_FAIR_SHARE_NUMERATOR / connectedCount t
def leaveThr (t : Tick) : Nat := Classifier.LEAVE_FAIR_SHARE_NUMERATOR / connectedCount t

/-! ## Decision skeleton (integers and booleans only) -/

/-- The per-link, per-tick derived inputs of the decision skeleton. -/
structure Sig where
  delay : Option Reason
  bpsZero : Bool     -- `bps == 0.0`
  share : Nat
deriving Repr

def sigOf (t : Tick) (l : LinkIn) : Sig :=
  { delay := delaySignal t l, bpsZero := bpsOf l == 0.0, share := sharePermille t l }

/-- u32 `saturating_add(1)`. -/
def satInc (x : Nat) : Nat := if x ≥ 4294967295 then 4294967295 else x + 1

/-- Verdict part of one link step. -/
structure Verdict where
  weak : Bool
  reason : Reason
  threshold : Nat
  panicked : Bool := false
deriving Repr, DecidableEq

/-- New value of `delay_weak_streak[id]`. -/
def delayStreakOf (m : Mem) (sg : Sig) : Nat :=
  if sg.delay.isSome then satInc m.delayStreak else 0

/-- `(weak, reason)` before the probation re-test; third component = Rust would have panicked
(`delay_signal.unwrap()` on `None`). -/
def preVerdict (enter leave : Nat) (m : Mem) (sg : Sig) : Bool × Reason × Bool :=
  let wasWeak := m.prevWeak
  let delayWeak := decide (delayStreakOf m sg ≥ Classifier.WEAK_SUSTAIN_TICKS)
  if delayWeak then
    match sg.delay with
    | some r => (true, r, false)
    | none => (true, .Healthy, true)          -- `delay_signal.unwrap()` on None
  else if sg.bpsZero then (true, .NoTraffic, false)
  else if wasWeak && decide (sg.share < leave) then (true, .LowShare, false)
  else if !wasWeak && decide (sg.share < enter) then (true, .LowShare, false)
  else (false, .Healthy, false)

/-- `weak && matches!(reason, LowShare | NoTraffic)`. -/
def shareWeakOf (pre : Bool × Reason × Bool) : Bool :=
  pre.1 && (pre.2.1 == .LowShare || pre.2.1 == .NoTraffic)

/-- Third pass, body of the loop for one CONNECTED link: old memory row + signals ↦ new row + verdict. -/
def linkStep (enter leave : Nat) (m : Mem) (sg : Sig) : Mem × Verdict :=
  let threshold := if m.prevWeak then leave else enter
  let delayStreak := delayStreakOf m sg
  let pre := preVerdict enter leave m sg
  let weak0 := pre.1
  let reason0 := pre.2.1
  let shareWeak := shareWeakOf pre
  if m.probation > 0 then
    ({ prevWeak := false, delayStreak := delayStreak, weakStreak := 0, probation := m.probation - 1 },
     { weak := false, reason := .Healthy, threshold := threshold, panicked := pre.2.2 })
  else if shareWeak then
    let streak := satInc m.weakStreak
    if streak ≥ Classifier.PROBATION_INTERVAL_TICKS then
      ({ prevWeak := weak0, delayStreak := delayStreak, weakStreak := 0,
         probation := Classifier.PROBATION_WINDOW_TICKS },
       { weak := weak0, reason := reason0, threshold := threshold, panicked := pre.2.2 })
    else
      ({ prevWeak := weak0, delayStreak := delayStreak, weakStreak := streak, probation := m.probation },
       { weak := weak0, reason := reason0, threshold := threshold, panicked := pre.2.2 })
  else
    ({ prevWeak := weak0, delayStreak := delayStreak, weakStreak := 0, probation := m.probation },
     { weak := weak0, reason := reason0, threshold := threshold, panicked := pre.2.2 })

/-! ## State lookup -/

/-- Last inserted row for `id` (`HashMap::insert` overwrites, so the last insertion wins). -/
def lookupLast (id : Nat) : State → Option Mem
  | [] => none
  | (k, m) :: rest =>
    match lookupLast id rest with
    | some m' => some m'
    | none => if k = id then some m else none

/-- `map.get(&id).copied().unwrap_or(default)` on all four maps. -/
def memOf (s : State) (id : Nat) : Mem := (lookupLast id s).getD {}

/-! ## classify -/

/-- The step of one connected link `l` in tick `t` from state `s`. -/
def stepOf (s : State) (t : Tick) (l : LinkIn) : Mem × Verdict :=
  linkStep (enterThr t) (leaveThr t) (memOf s l.id) (sigOf t l)

/-- The `LinkClassification` pushed for link `l` in tick `t` from state `s`. -/
def verdictOf (s : State) (t : Tick) (l : LinkIn) : LinkOut :=
  if bypass t then
    { id := l.id, weak := false, reason := .Bypassed, share := 0, threshold := 0 }
  else if !l.connected then
    { id := l.id, weak := false, reason := .Healthy, share := 0, threshold := 0 }
  else
    let v := (stepOf s t l).2
    { id := l.id, weak := v.weak, reason := v.reason, share := sharePermille t l,
      threshold := v.threshold, panicked := v.panicked }

/-- A row that only carries a probation counter (the other three maps have no entry for the id). -/
def probRow (p : Nat) : Mem := { probation := p }

/-- The rows inserted into the `next_*` maps by a classified tick `t`, in order: a connected link
inserts into all four maps; a DISCONNECTED link whose probation counter is `> 1` carries
`counter - 1` over into `next_probation` only (the disconnected tick is a not-weak verdict and
consumes one probation tick); links not in the slice get nothing. -/
def nextRows (s : State) (t : Tick) : State :=
  t.filterMap fun l =>
    if l.connected then some (l.id, (stepOf s t l).1)
    else if (memOf s l.id).probation > 1 then some (l.id, probRow ((memOf s l.id).probation - 1))
    else none

/-- Bypass branch: `prev_weak`, `delay_weak_streak`, `weak_streak` are cleared;
`probation_ticks.retain(|_, t| { *t = t.saturating_sub(1); *t > 0 })` — for EVERY key, whether or
not the link is in the slice. -/
def bypassRows (s : State) : State :=
  s.filterMap fun r =>
    let p := (memOf s r.1).probation
    if p - 1 > 0 then some (r.1, probRow (p - 1)) else none

/-- The filter's state after the tick. -/
def nextState (s : State) (t : Tick) : State :=
  if bypass t then bypassRows s else nextRows s t

def classify (s : State) (t : Tick) : State × Result :=
  (nextState s t,
   { selectedDelay := if bypass t then 0 else selectedDelay t,
     estimatedMaxDelay := if bypass t then 0 else estimatedMaxDelay t,
     perLink := t.map (verdictOf s t) })

/-- `WeakLinkFilter::new()`. -/
def State.init : State := []

/-! ## Histories (for the property theorems): an infinite tick sequence `Nat → Tick`.
Every finite history is a prefix of one; the result at tick `k` depends only on ticks `0..k`. -/

def stateAt (h : Nat → Tick) : Nat → State
  | 0 => State.init
  | k + 1 => nextState (stateAt h k) (h k)

/-- The verdict the filter gives to link `l` at tick `k` of history `h`. -/
def verdictAt (h : Nat → Tick) (k : Nat) (l : LinkIn) : LinkOut :=
  verdictOf (stateAt h k) (h k) l

end Srtla.Classifier
