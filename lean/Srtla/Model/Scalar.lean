/-!
# Scalar class: float code written once, run at `Float`, proved over an ordered field

The `Float` instance is used by the compiled drivers (bit-exact with Rust `f64`: same literals,
same libm `exp`, Rust-semantics `fmax`/`fmin`/`clamp`, saturating casts).  The proof side builds an
instance from any linearly ordered field (see `Lemmas/ScalarField.lean`).
-/
namespace Srtla

class Scalar (F : Type) where
  /-- A decimal literal: the IEEE value at `Float`, the exact rational `num/den` in a field. -/
  lit : Float → Int → Nat → F
  ofNat : Nat → F            -- `u64 as f64`
  ofInt : Int → F            -- `i32 as f64`
  add : F → F → F
  sub : F → F → F
  mul : F → F → F
  div : F → F → F
  neg : F → F
  lt : F → F → Bool          -- `<`  (false on NaN)
  le : F → F → Bool          -- `<=` (false on NaN)
  /-- Rust `f64::max`: the non-NaN operand if one is NaN. -/
  fmax : F → F → F
  /-- Rust `f64::min`. -/
  fmin : F → F → F
  exp : F → F
  floor : F → F
  /-- `as u64`: saturating, NaN → 0. -/
  toNatSat : F → Nat
  isFinite : F → Bool
  negInf : F

namespace Scalar
variable {F : Type} [Scalar F]

/-- Rust `f64::clamp(lo, hi)` for `lo ≤ hi` (NaN stays NaN at `Float`). -/
def clamp (x lo hi : F) : F := if lt x lo then lo else if lt hi x then hi else x

def gt (a b : F) : Bool := lt b a
def ge (a b : F) : Bool := le b a

end Scalar

/-- Rust `f64::max` on Lean floats. -/
def rustFmax (a b : Float) : Float :=
  if a.isNaN then b else if b.isNaN then a else if a < b then b else a

/-- Rust `f64::min` on Lean floats. -/
def rustFmin (a b : Float) : Float :=
  if a.isNaN then b else if b.isNaN then a else if b < a then b else a

instance : Scalar Float where
  lit f _ _ := f
  ofNat n := Float.ofNat n
  ofInt i := Float.ofInt i
  add := (· + ·)
  sub := (· - ·)
  mul := (· * ·)
  div := (· / ·)
  neg x := -x
  lt a b := decide (a < b)
  le a b := decide (a ≤ b)
  fmax := rustFmax
  fmin := rustFmin
  exp := Float.exp
  floor := Float.floor
  toNatSat x := x.toUInt64.toNat
  isFinite x := x.isFinite
  negInf := -(1.0 / 0.0)

end Srtla
