import Srtla.Gen.Constants
/-!
# Model of the runtime control protocol (`src/control.rs`, `src/config.rs`) — component `control`, C18

Entry-point glue (both listeners, `spawn_stdin_listener` and `control_socket::handle`): bytes up to
`\n` → `String::from_utf8_lossy` → `trim` → `dispatch` / `dispatch_async`; a line that is not valid
UTF-8 is therefore just another string (with U+FFFD in it).  The glue is std code, total on every
byte string, and is exercised for real by the harness (socket and stdin sessions), not modelled.

Boundary: the model starts *after* `serde_json::from_str::<Request>(line.trim())`.  A line is
`blank` (empty after `trim`), `unparsable` (any deserialisation failure, including valid JSON of
the wrong shape) or a decoded `Request { jsonrpc, method, params : Value, id : Option<Value> }`.
`Json` mirrors `serde_json::Value` with default features (`Number` = PosInt u64 | NegInt i64 |
Float f64, objects are key-sorted maps with unique keys).

Two entry points are modelled separately, as in the source: `dispatchInner` (`dispatch`,
stdin) and `dispatchAsync` (`dispatch_async`, Unix socket, optional `SubscriptionContext`); both
call `handleMethod` (`handle_method`).  `DynamicConfig` is modelled twice: sequentially
(`Config`, one value per atomic) for the protocol, and as independent relaxed atomic cells with
their whole modification order (`Conc`) for the interleaving invariant.
-/
namespace Srtla.Control
open Srtla.Gen

/-! ## JSON values -/

/-- `serde_json::Number` without `arbitrary_precision`: `PosInt(u64)`, `NegInt(i64)` (always
negative), `Float(f64)` (kept as its bit pattern; the dispatcher never looks inside). -/
inductive Num where
  | pos (n : Nat)
  | neg (i : Int)
  | flt (bits : Nat)

inductive Json where
  | null
  | bool (b : Bool)
  | num (n : Num)
  | str (s : String)
  | arr (l : List Json)
  | obj (l : List (String × Json))

/-- `Value::get(&str)`: object lookup, `None` on every other shape. -/
def Json.get (j : Json) (key : String) : Option Json :=
  match j with
  | .obj l => (l.find? (fun kv => kv.1 = key)).map (·.2)
  | _ => none

/-- `Value::as_str`. -/
def Json.asStr : Json → Option String
  | .str s => some s
  | _ => none

/-- `Value::as_bool`. -/
def Json.asBool : Json → Option Bool
  | .bool b => some b
  | _ => none

/-- `Value::as_u64`: only `PosInt`; negative integers and every float (even `1.0`) give `None`. -/
def Json.asU64 : Json → Option Nat
  | .num (.pos n) => some n
  | _ => none

/-- `json!(x)` for an `i32`/`i64`: `NegInt` when negative, else `PosInt`. -/
def Json.ofInt (i : Int) : Json :=
  if i < 0 then .num (.neg i) else .num (.pos i.toNat)

def Json.ofNat (n : Nat) : Json := .num (.pos n)

/-! ## `SchedulingMode`, `DynamicConfig` (sequential view), `ConfigSnapshot` -/

inductive Mode where
  | classic
  | enhanced
  deriving DecidableEq, Repr

def Mode.asU8 : Mode → Nat
  | .classic => 0
  | .enhanced => 1

/-- `SchedulingMode::from_u8`: `0 => Classic, _ => Enhanced`. -/
def Mode.fromU8 : Nat → Mode
  | 0 => .classic
  | _ => .enhanced

/-- `Display for SchedulingMode`. -/
def Mode.toStr : Mode → String
  | .classic => "classic"
  | .enhanced => "enhanced"

/-- The values held by the atomics of `DynamicConfig` (one control task, program order). -/
structure Config where
  mode : Nat
  quality : Bool
  stall : Bool
  minInFlight : Int
  ackStale : Nat
  timeout : Nat
  deriving DecidableEq, Repr

structure Snapshot where
  mode : Mode
  quality : Bool
  stall : Bool
  minInFlight : Int
  ackStale : Nat
  timeout : Nat
  deriving DecidableEq, Repr

/-- `Ord::clamp` (`assert!(min <= max)` is discharged by `C18_clamp_bounds_ordered`). -/
def clampU64 (v lo hi : Nat) : Nat :=
  if v < lo then lo else if v > hi then hi else v

/-- `DynamicConfig::new`. -/
def Config.new : Config :=
  { mode := Mode.enhanced.asU8, quality := true, stall := true,
    minInFlight := Cfg.STALL_MIN_IN_FLIGHT_PACKETS, ackStale := Cfg.STALL_ACK_STALE_MS,
    timeout := Cfg.CONN_TIMEOUT_MS }

/-- `DynamicConfig::from_cli` (the timeout is clamped, nothing else is). -/
def Config.fromCli (mode : Mode) (noQuality noStall : Bool) (minInFlight : Int)
    (ackStale timeout : Nat) : Config :=
  { mode := mode.asU8, quality := !noQuality, stall := !noStall, minInFlight := minInFlight,
    ackStale := ackStale,
    timeout := clampU64 timeout Cfg.CONN_TIMEOUT_MS_MIN Cfg.CONN_TIMEOUT_MS_MAX }

/-- `DynamicConfig::snapshot` (six loads; sequentially they all see the current values). -/
def Config.snapshot (c : Config) : Snapshot :=
  { mode := Mode.fromU8 c.mode, quality := c.quality, stall := c.stall,
    minInFlight := c.minInFlight, ackStale := c.ackStale, timeout := c.timeout }

def Config.setMode (c : Config) (m : Mode) : Config := { c with mode := m.asU8 }
def Config.setQuality (c : Config) (b : Bool) : Config := { c with quality := b }
def Config.setStall (c : Config) (b : Bool) : Config := { c with stall := b }

/-- `set_conn_timeout_ms`: clamp, store, return the applied value. -/
def Config.setConnTimeout (c : Config) (ms : Nat) : Config × Nat :=
  let applied := clampU64 ms Cfg.CONN_TIMEOUT_MS_MIN Cfg.CONN_TIMEOUT_MS_MAX
  ({ c with timeout := applied }, applied)

/-! ## Requests, responses -/

structure Request where
  jsonrpc : String
  method : String
  params : Json
  id : Option Json

/-- What `line.trim()` + `serde_json::from_str::<Request>` made of the raw line. -/
inductive Line where
  | blank
  | unparsable
  | request (r : Request)

/-- `ErrorObject`; `data` is only recorded as present/absent (it carries serde's error text). -/
structure ErrObj where
  code : Int
  message : String
  hasData : Bool

def ErrObj.new (code : Int) (message : String) : ErrObj :=
  { code := code, message := message, hasData := false }

/-- `Response` as serialised: `jsonrpc` (the `&'static str` member, always written), `result` /
`error` are skipped when `None`, `id` always present. -/
structure Response where
  jsonrpc : String
  result : Option Json
  error : Option ErrObj
  id : Json

/-- `Response::ok`: `jsonrpc: JSONRPC_VERSION`. -/
def Response.ok (id : Json) (result : Json) : Response :=
  { jsonrpc := Control.JSONRPC_VERSION, result := some result, error := none, id := id }

/-- `Response::err`: `jsonrpc: JSONRPC_VERSION`. -/
def Response.err (id : Json) (e : ErrObj) : Response :=
  { jsonrpc := Control.JSONRPC_VERSION, result := none, error := some e, id := id }

/-- What the dispatcher is handed besides the config. -/
structure Env where
  /-- `stats: Option<&SharedStats>`: the value `SharedStats::to_json()` re-parses to. -/
  stats : Option Json
  /-- `critical_window: Option<&CriticalWindow>`: (windows_received, malformed_datagrams). -/
  cw : Option (Nat × Nat)

/-! ## `handle_method` -/

/-- `parse_mode`. -/
def parseMode (s : String) : Except ErrObj Mode :=
  if s = "classic" then .ok .classic
  else if s = "enhanced" then .ok .enhanced
  else .error (ErrObj.new Control.INVALID_PARAMS ("unknown mode '" ++ s ++ "': use classic or enhanced"))

def statusJson (snap : Snapshot) (cw : Option (Nat × Nat)) : Json :=
  let wm := cw.getD (0, 0)
  -- keys in serde_json's (sorted) map order
  .obj [("conn_timeout_ms", Json.ofNat snap.timeout),
        ("critical_malformed_datagrams", Json.ofNat wm.2),
        ("critical_windows_received", Json.ofNat wm.1),
        ("mode", .str snap.mode.toStr),
        ("quality_enabled", .bool snap.quality),
        ("stall_ack_stale_ms", Json.ofNat snap.ackStale),
        ("stall_deselect", .bool snap.stall),
        ("stall_min_in_flight", Json.ofInt snap.minInFlight)]

def handleMethod (env : Env) (c : Config) (method : String) (params : Json) :
    Config × Except ErrObj Json :=
  if method = "set_mode" then
    match (params.get "mode").bind Json.asStr with
    | none => (c, .error (ErrObj.new Control.INVALID_PARAMS "expected params.mode: string"))
    | some s =>
      match parseMode s with
      | .error e => (c, .error e)
      | .ok m => (c.setMode m, .ok (.obj [("mode", .str m.toStr)]))
  else if method = "set_quality" then
    match (params.get "enabled").bind Json.asBool with
    | none => (c, .error (ErrObj.new Control.INVALID_PARAMS "expected params.enabled: bool"))
    | some b => (c.setQuality b, .ok (.obj [("enabled", .bool b)]))
  else if method = "set_stall_deselect" then
    match (params.get "enabled").bind Json.asBool with
    | none => (c, .error (ErrObj.new Control.INVALID_PARAMS "expected params.enabled: bool"))
    | some b => (c.setStall b, .ok (.obj [("enabled", .bool b)]))
  else if method = "set_conn_timeout" then
    match (params.get "ms").bind Json.asU64 with
    | none => (c, .error (ErrObj.new Control.INVALID_PARAMS "expected params.ms: u64"))
    | some ms =>
      let r := c.setConnTimeout ms
      (r.1, .ok (.obj [("ms", Json.ofNat r.2)]))
  else if method = "get_status" then
    (c, .ok (statusJson c.snapshot env.cw))
  else if method = "get_stats" then
    match env.stats with
    | none => (c, .error (ErrObj.new Control.INTERNAL_ERROR "stats provider not registered"))
    | some j => (c, .ok j)
  else if method = "subscribe" ∨ method = "unsubscribe" then
    (c, .error (ErrObj.new Control.METHOD_NOT_FOUND
      (method ++ " is reserved for a future streaming protocol, not yet implemented")))
  else
    (c, .error (ErrObj.new Control.METHOD_NOT_FOUND ("unknown method: " ++ method)))

/-! ## `dispatch` / `dispatch_inner` (stdin) -/

def parseErrorResponse : Response :=
  Response.err .null { code := Control.PARSE_ERROR, message := "parse error", hasData := true }

def versionError (id : Json) : Response :=
  Response.err id (ErrObj.new Control.INVALID_REQUEST "jsonrpc version must be \"2.0\"")

def finish (id : Option Json) (res : Except ErrObj Json) : Option Response :=
  match id with
  | none => none
  | some id =>
    some (match res with
      | .ok v => Response.ok id v
      | .error e => Response.err id e)

def dispatchInner (env : Env) (c : Config) (l : Line) : Config × Option Response :=
  match l with
  | .blank => (c, none)
  | .unparsable => (c, some parseErrorResponse)
  | .request r =>
    if r.jsonrpc ≠ Control.JSONRPC_VERSION then
      (c, r.id.map versionError)
    else
      let hr := handleMethod env c r.method r.params
      (hr.1, finish r.id hr.2)

/-! ## `dispatch_async` (Unix socket) and the subscription hub -/

/-- `SubscriptionHub`: id counter and `(id, topic)` entries (senders are not modelled). -/
structure Hub where
  nextId : Nat
  entries : List (String × String)

/-- `SubscriptionContext`: the hub plus this connection's `owned_ids`. -/
structure Ctx where
  hub : Hub
  owned : List String

def Ctx.init : Ctx := { hub := { nextId := 0, entries := [] }, owned := [] }

def isKnownTopic (t : String) : Bool := t = "stats" ∨ t = "priority.window"

def handleSubscribe (ctx : Ctx) (params : Json) : Ctx × Except ErrObj Json :=
  match (params.get "topic").bind Json.asStr with
  | none => (ctx, .error (ErrObj.new Control.INVALID_PARAMS "expected params.topic: string"))
  | some topic =>
    if isKnownTopic topic then
      let id := "sub-" ++ toString ctx.hub.nextId
      ({ hub := { nextId := ctx.hub.nextId + 1, entries := ctx.hub.entries ++ [(id, topic)] },
         owned := ctx.owned ++ [id] },
       .ok (.obj [("subscription_id", .str id)]))
    else
      (ctx, .error (ErrObj.new Control.INVALID_PARAMS ("unknown topic: " ++ topic)))

def handleUnsubscribe (ctx : Ctx) (params : Json) : Ctx × Except ErrObj Json :=
  match (params.get "subscription_id").bind Json.asStr with
  | none =>
    (ctx, .error (ErrObj.new Control.INVALID_PARAMS "expected params.subscription_id: string"))
  | some id =>
    let kept := ctx.hub.entries.filter (fun e => e.1 ≠ id)
    let removed := kept.length ≠ ctx.hub.entries.length
    ({ hub := { ctx.hub with entries := kept }, owned := ctx.owned.filter (fun x => x ≠ id) },
     .ok (.obj [("removed", .bool removed)]))

/-- The methods the socket entry point answers itself when it has a `SubscriptionContext`. -/
def isSubscriptionMethod (m : String) : Bool :=
  m = "subscribe" ∨ m = "unsubscribe" ∨ m = "get_subscription_count"

def dispatchAsync (env : Env) (c : Config) (ctx : Option Ctx) (l : Line) :
    Config × Option Ctx × Option Response :=
  match l with
  | .blank => (c, ctx, none)
  | .unparsable => (c, ctx, some parseErrorResponse)
  | .request r =>
    if r.jsonrpc ≠ Control.JSONRPC_VERSION then
      (c, ctx, r.id.map versionError)
    else
      match ctx with
      | some x =>
        if r.method = "subscribe" then
          let h := handleSubscribe x r.params
          (c, some h.1, finish r.id h.2)
        else if r.method = "unsubscribe" then
          let h := handleUnsubscribe x r.params
          (c, some h.1, finish r.id h.2)
        else if r.method = "get_subscription_count" then
          (c, some x, finish r.id (.ok (.obj [("count", Json.ofNat x.hub.entries.length)])))
        else
          let hr := handleMethod env c r.method r.params
          (hr.1, some x, finish r.id hr.2)
      | none =>
        let hr := handleMethod env c r.method r.params
        (hr.1, none, finish r.id hr.2)

/-! ## Sequences of lines (each under its own environment) -/

def runSync (c : Config) : List (Env × Line) → Config × List (Option Response)
  | [] => (c, [])
  | (env, l) :: rest =>
    let r := dispatchInner env c l
    let rr := runSync r.1 rest
    (rr.1, r.2 :: rr.2)

def runAsync (c : Config) (ctx : Option Ctx) :
    List (Env × Line) → Config × Option Ctx × List (Option Response)
  | [] => (c, ctx, [])
  | (env, l) :: rest =>
    let r := dispatchAsync env c ctx l
    let rr := runAsync r.1 r.2.1 rest
    (rr.1, rr.2.1, r.2.2 :: rr.2.2)

/-! ## Concurrent view of `DynamicConfig`

Every field is its own `Arc<Atomic*>` accessed with `Ordering::Relaxed`.  A cell is modelled by
its complete modification order (newest first, never empty).  A store appends to the modification
order of its cell.  A **load may return any entry of that history that is not older than what the
loading task has already seen of that cell** (`Conc.seen`): per task and per cell the model keeps the
position, in the cell's modification order, of the newest entry the task has stored or loaded, and a
load returns an entry at or above it.  This is exactly what C++/Rust relaxed atomics guarantee PER
LOCATION — a total modification order per atomic object plus read-read and write-read coherence
(CoRR / CoWR; CoWW / CoRW hold because stores append) — and nothing more: no ordering between
DIFFERENT cells is assumed (a task may see a new `mode` and a stale `timeout`), and no
happens-before edges between tasks.  It over-approximates sequential consistency (where every load
returns the head).  Not representable in this interleaving semantics: load-buffering executions (a
load observing a store that a later step performs); they cannot affect per-location statements.
(Round 4: before, a load could return ANY entry of the history, so "a successful setter is visible in
the same task's next snapshot" was not even true of the model.)

Tasks are setters (one store each; `set_conn_timeout_ms` clamps locally first and returns the
clamped value) and snapshot readers (six independent loads, in any order, interleaved arbitrarily
with other tasks' steps); `get_status` is `snapshot()` followed by pure formatting.  A task is one
thread of control making API calls one after the other on its clone of `DynamicConfig`; coherence
persists across its calls. -/

structure Cells where
  mode : List Nat
  quality : List Bool
  stall : List Bool
  minInFlight : List Int
  ackStale : List Nat
  timeout : List Nat

def Cells.ofConfig (c : Config) : Cells :=
  { mode := [c.mode], quality := [c.quality], stall := [c.stall],
    minInFlight := [c.minInFlight], ackStale := [c.ackStale], timeout := [c.timeout] }

/-- A snapshot under construction: the fields loaded so far. -/
structure Partial where
  mode : Option Nat := none
  quality : Option Bool := none
  stall : Option Bool := none
  minInFlight : Option Int := none
  ackStale : Option Nat := none
  timeout : Option Nat := none

inductive Field where
  | mode | quality | stall | minInFlight | ackStale | timeout
  deriving DecidableEq

/-- A value of any cell (uniform view of the six differently typed atomics). -/
inductive Val where
  | nat (n : Nat)
  | bool (b : Bool)
  | int (i : Int)
  deriving DecidableEq, Repr

/-- The modification order of cell `f`, newest first, as uniform values. -/
def Cells.view (c : Cells) : Field → List Val
  | .mode => c.mode.map .nat
  | .quality => c.quality.map .bool
  | .stall => c.stall.map .bool
  | .minInFlight => c.minInFlight.map .int
  | .ackStale => c.ackStale.map .nat
  | .timeout => c.timeout.map .nat

/-- Number of entries of the modification order of cell `f`. -/
def Cells.len (c : Cells) (f : Field) : Nat := (c.view f).length

/-- The entry at POSITION `p` of the modification order of cell `f`: 0 is the initial value, positions
count stores in the order they hit the cell (so they never change once assigned). -/
def Cells.at? (c : Cells) (f : Field) (p : Nat) : Option Val := (c.view f).reverse[p]?

/-- The value a snapshot under construction holds for field `f`, if loaded. -/
def Partial.at? (p : Partial) : Field → Option Val
  | .mode => p.mode.map .nat
  | .quality => p.quality.map .bool
  | .stall => p.stall.map .bool
  | .minInFlight => p.minInFlight.map .int
  | .ackStale => p.ackStale.map .nat
  | .timeout => p.timeout.map .nat

/-- API calls a task can make on its clone of `DynamicConfig`. -/
inductive Op where
  | setMode (m : Mode)
  | setQuality (b : Bool)
  | setStall (b : Bool)
  | setTimeout (ms : Nat)
  | snapshot

/-- The cell a setter stores to and the value it stores (`set_conn_timeout_ms` stores the clamp). -/
def Op.target : Op → Option (Field × Val)
  | .setMode m => some (.mode, .nat m.asU8)
  | .setQuality b => some (.quality, .bool b)
  | .setStall b => some (.stall, .bool b)
  | .setTimeout ms => some (.timeout, .nat (clampU64 ms Cfg.CONN_TIMEOUT_MS_MIN Cfg.CONN_TIMEOUT_MS_MAX))
  | .snapshot => none

/-- Per-task control state. -/
inductive Task where
  | idle
  /-- inside a setter, before its single store -/
  | storing (op : Op)
  /-- inside `snapshot()` -/
  | snapping (p : Partial)

/-- Scheduler choices. -/
inductive Act where
  /-- idle task `t` enters an API call -/
  | call (t : Nat) (op : Op)
  /-- task `t` (in a setter) performs its store and returns -/
  | store (t : Nat)
  /-- task `t` (in `snapshot`) loads field `f`, observing entry `k` of that cell's history
  (index into the newest-first list: 0 = the latest store); enabled only if that entry is not older
  than what `t` has already seen of `f` -/
  | load (t : Nat) (f : Field) (k : Nat)
  /-- task `t` has loaded all six fields and returns the `ConfigSnapshot` -/
  | ret (t : Nat)

/-- Values returned to callers (ghost trace). -/
inductive Event where
  | timeoutApplied (t : Nat) (requested applied : Nat)
  | snapshot (t : Nat) (s : Snapshot)

structure Conc where
  cells : Cells
  tasks : Nat → Task
  /-- coherence view: `seen t f` = position (see `Cells.at?`) of the newest entry of cell `f` that
  task `t` has stored or loaded so far; 0 (the initial value) for a task that has not touched `f`. -/
  seen : Nat → Field → Nat

def Conc.init (c : Config) : Conc :=
  { cells := Cells.ofConfig c, tasks := fun _ => .idle, seen := fun _ _ => 0 }

def setTask (tasks : Nat → Task) (t : Nat) (x : Task) : Nat → Task :=
  fun i => if i = t then x else tasks i

def setSeen (seen : Nat → Field → Nat) (t : Nat) (f : Field) (p : Nat) : Nat → Field → Nat :=
  fun i g => if i = t ∧ g = f then p else seen i g

def Partial.complete (p : Partial) : Option Snapshot :=
  match p.mode, p.quality, p.stall, p.minInFlight, p.ackStale, p.timeout with
  | some m, some q, some s, some mi, some a, some t =>
    some { mode := Mode.fromU8 m, quality := q, stall := s, minInFlight := mi, ackStale := a,
           timeout := t }
  | _, _, _, _, _, _ => none

/-- One atomic step; `none` when the action is not enabled. -/
def Conc.step (s : Conc) (a : Act) : Option (Conc × Option Event) :=
  match a with
  | .call t op =>
    match s.tasks t with
    | .idle =>
      match op with
      | .snapshot => some ({ s with tasks := setTask s.tasks t (.snapping {}) }, none)
      | _ => some ({ s with tasks := setTask s.tasks t (.storing op) }, none)
    | _ => none
  | .store t =>
    match s.tasks t with
    | .storing op =>
      let idle := setTask s.tasks t .idle
      -- the new entry gets the next position of its cell's modification order, and the storing
      -- task has now seen it (write-read coherence)
      match op with
      | .setMode m =>
        some ({ cells := { s.cells with mode := m.asU8 :: s.cells.mode }, tasks := idle,
                seen := setSeen s.seen t .mode (s.cells.len .mode) }, none)
      | .setQuality b =>
        some ({ cells := { s.cells with quality := b :: s.cells.quality }, tasks := idle,
                seen := setSeen s.seen t .quality (s.cells.len .quality) }, none)
      | .setStall b =>
        some ({ cells := { s.cells with stall := b :: s.cells.stall }, tasks := idle,
                seen := setSeen s.seen t .stall (s.cells.len .stall) }, none)
      | .setTimeout ms =>
        let applied := clampU64 ms Cfg.CONN_TIMEOUT_MS_MIN Cfg.CONN_TIMEOUT_MS_MAX
        some ({ cells := { s.cells with timeout := applied :: s.cells.timeout }, tasks := idle,
                seen := setSeen s.seen t .timeout (s.cells.len .timeout) },
              some (.timeoutApplied t ms applied))
      | .snapshot => none
    | _ => none
  | .load t f k =>
    match s.tasks t with
    | .snapping p =>
      -- position of the entry at index `k` of the newest-first history
      let pos := s.cells.len f - 1 - k
      -- read-read / write-read coherence: not older than what this task has already seen of `f`
      if s.seen t f ≤ pos then
        let upd (p' : Partial) : Option (Conc × Option Event) :=
          some ({ s with tasks := setTask s.tasks t (.snapping p'),
                         seen := setSeen s.seen t f pos }, none)
        match f with
        | .mode => (s.cells.mode[k]?).bind fun v => upd { p with mode := some v }
        | .quality => (s.cells.quality[k]?).bind fun v => upd { p with quality := some v }
        | .stall => (s.cells.stall[k]?).bind fun v => upd { p with stall := some v }
        | .minInFlight => (s.cells.minInFlight[k]?).bind fun v => upd { p with minInFlight := some v }
        | .ackStale => (s.cells.ackStale[k]?).bind fun v => upd { p with ackStale := some v }
        | .timeout => (s.cells.timeout[k]?).bind fun v => upd { p with timeout := some v }
      else none
    | _ => none
  | .ret t =>
    match s.tasks t with
    | .snapping p =>
      match p.complete with
      | some snap => some ({ s with tasks := setTask s.tasks t .idle }, some (.snapshot t snap))
      | none => none
    | _ => none

/-- Run a schedule; actions that are not enabled are skipped.  Returns the final state and the
trace of returned values. -/
def Conc.run (s : Conc) : List Act → Conc × List Event
  | [] => (s, [])
  | a :: rest =>
    match s.step a with
    | none => s.run rest
    | some (s', ev) =>
      let r := s'.run rest
      (r.1, match ev with | some e => e :: r.2 | none => r.2)

end Srtla.Control
