import Srtla.Gen.Constants
import Srtla.Model.Scalar
/-!
# RTT tracking: 2-state Kalman filter, EWMA, `RttTracker`, `BitrateTracker`

Rust: `crates/srtla-core/src/{kalman.rs, ewma.rs}`, `connection/{rtt.rs, bitrate.rs}`.
Scalar-generic: runs at `Float` in the driver (bit-exact), proved over an ordered field.
-/
namespace Srtla.Rtt
open Srtla Srtla.Gen Scalar

variable {F : Type} [Scalar F]

/-! ## kalman.rs -/

structure Kalman (F : Type) where
  x : F
  v : F
  p0 : F
  p1 : F
  p2 : F
  p3 : F
  initialized : Bool

def zero : F := lit 0.0 0 1
def one : F := lit 1.0 1 1

def Kalman.new : Kalman F :=
  { x := zero, v := zero, p0 := zero, p1 := zero, p2 := zero, p3 := zero, initialized := false }

/-- `KalmanConfig::for_rtt()`. -/
def qValue : F := lit 0.5 1 2
def qVelocity : F := lit 0.1 1 10
def rNoise : F := lit 2.0 2 1

/-- `|s| < 1e-12` (the degenerate-innovation guard). -/
def tiny (s : F) : Bool :=
  let a := if lt s zero then neg s else s
  lt a (lit 1e-12 1 1000000000000)

/-- `KalmanFilter::update`. Non-finite measurements are ignored. -/
def Kalman.update (k : Kalman F) (m : F) : Kalman F :=
  if !isFinite m then k
  else if !k.initialized then
    { x := m, v := zero, p0 := rNoise, p1 := zero, p2 := zero, p3 := rNoise, initialized := true }
  else
    let xPred := add k.x k.v
    let vPred := k.v
    let p00 := add (add (add (add k.p0 k.p2) k.p1) k.p3) qValue
    let p01 := add k.p1 k.p3
    let p10 := add k.p2 k.p3
    let p11 := add k.p3 qVelocity
    let y := sub m xPred
    let s := add p00 rNoise
    if tiny s then k
    else
      let k0 := div p00 s
      let k1 := div p10 s
      { x := add xPred (mul k0 y), v := add vPred (mul k1 y),
        p0 := mul (sub one k0) p00, p1 := mul (sub one k0) p01,
        p2 := sub p10 (mul k1 p00), p3 := sub p11 (mul k1 p01), initialized := true }

/-! ## ewma.rs -/

structure Ewma (F : Type) where
  value : F
  alpha : F
  initialized : Bool

def Ewma.new (alpha : F) : Ewma F := { value := zero, alpha := alpha, initialized := false }

def Ewma.update (e : Ewma F) (m : F) : Ewma F :=
  if !isFinite m then e
  else if !e.initialized then { e with value := m, initialized := true }
  else { e with value := add (mul e.value (sub one e.alpha)) (mul m e.alpha) }

/-! ## rtt.rs -/

structure RttTracker (F : Type) where
  lastKeepaliveSentMs : Nat
  waiting : Bool
  lastRttMeasMs : Nat
  kalman : Kalman F
  jitter : F
  prevRtt : F
  avgDelta : Ewma F
  rttMin : F
  rttMinFast : F
  rttMinSlow : F
  masd : F
  estimated : F
  fastWin : List F
  slowWin : List F
  filter : List F

def RttTracker.new : RttTracker F :=
  { lastKeepaliveSentMs := 0, waiting := false, lastRttMeasMs := 0, kalman := Kalman.new,
    jitter := zero, prevRtt := zero, avgDelta := Ewma.new (lit 0.2 1 5),
    rttMin := lit 200.0 200 1, rttMinFast := lit 200.0 200 1, rttMinSlow := lit 200.0 200 1,
    masd := zero, estimated := zero, fastWin := [], slowWin := [], filter := [] }

/-- `RttTracker::reset`. -/
def RttTracker.reset (_ : RttTracker F) : RttTracker F := RttTracker.new

/-- Push to the back, keep at most `cap` newest. -/
def pushCap (w : List F) (x : F) (cap : Nat) : List F :=
  let w' := w ++ [x]
  w'.drop (w'.length - cap)

/-- `iter().copied().fold(f64::MAX, f64::min)`. -/
def foldMin (w : List F) : F :=
  w.foldl fmin (lit 1.7976931348623157e308 (10 ^ 309) 1)

def fabs (x : F) : F := if lt x zero then neg x else x

/-- `RttTracker::update_estimate`. -/
def RttTracker.updateEstimate (t : RttTracker F) (rttMs now : Nat) : RttTracker F :=
  let cur : F := ofNat rttMs
  let filter := pushCap t.filter cur Rtt.RTT_SAMPLE_FILTER_SIZE
  let filtered := foldMin filter
  if !t.kalman.initialized then
    { t with filter := filter, kalman := t.kalman.update cur, prevRtt := cur, estimated := cur,
             rttMin := filtered, rttMinFast := filtered, rttMinSlow := filtered, masd := zero,
             fastWin := t.fastWin ++ [filtered], slowWin := t.slowWin ++ [filtered],
             lastRttMeasMs := now }
  else
    let kalman := t.kalman.update cur
    let delta := sub cur t.prevRtt
    let avgDelta := t.avgDelta.update delta
    let alpha : F := lit Rtt.RTT_MASD_ALPHA_f Rtt.RTT_MASD_ALPHA_num Rtt.RTT_MASD_ALPHA_den
    let masd := add (mul t.masd (sub one alpha)) (mul (fabs delta) alpha)
    let fastWin := pushCap t.fastWin filtered Rtt.FAST_WINDOW_SAMPLES
    let slowWin := pushCap t.slowWin filtered Rtt.SLOW_WINDOW_SAMPLES
    let fastMin := foldMin fastWin
    let slowMin := foldMin slowWin
    let j0 := mul t.jitter (lit 0.99 99 100)
    let jitter := if gt (fabs delta) j0 then fabs delta else j0
    { t with filter := filter, kalman := kalman, avgDelta := avgDelta, masd := masd, prevRtt := cur,
             fastWin := fastWin, slowWin := slowWin, rttMinFast := fastMin, rttMinSlow := slowMin,
             rttMin := fmin fastMin slowMin, jitter := jitter, estimated := kalman.x,
             lastRttMeasMs := now }

/-- `queue_building_suspected`. -/
def RttTracker.queueBuilding (t : RttTracker F) : Bool :=
  if !t.kalman.initialized || !isFinite t.rttMin then false
  else
    let trip := fmax (mul (lit Rtt.GRAD_TRIP_SIGMA_f Rtt.GRAD_TRIP_SIGMA_num Rtt.GRAD_TRIP_SIGMA_den) t.masd)
                     (mul (lit Rtt.GRAD_TRIP_FLOOR_FRACTION_f Rtt.GRAD_TRIP_FLOOR_FRACTION_num Rtt.GRAD_TRIP_FLOOR_FRACTION_den) t.rttMin)
    gt (fmax (sub t.rttMinFast t.rttMinSlow) zero) trip

/-- `get_smooth_rtt_ms`: the Kalman value clamped at zero (Rust `max`: NaN → 0). -/
def RttTracker.smooth (t : RttTracker F) : F := fmax t.kalman.x zero

/-! ## bitrate.rs -/

structure Bitrate (F : Type) where
  total : Nat
  window : Nat
  lastUpdateMs : Nat
  current : F

def Bitrate.new (now : Nat) : Bitrate F := { total := 0, window := 0, lastUpdateMs := now, current := zero }

def U64_MAX : Nat := 18446744073709551615

def Bitrate.onSend (b : Bitrate F) (n : Nat) : Bitrate F := { b with total := min (b.total + n) U64_MAX }

/-- `BitrateTracker::calculate`. -/
def Bitrate.calculate (b : Bitrate F) (now : Nat) : Bitrate F :=
  let dt := now - b.lastUpdateMs
  if dt ≥ Gen.Bitrate.BITRATE_UPDATE_INTERVAL_MS then
    let bytes := b.total - b.window
    let bits := min (bytes * 8) U64_MAX
    let cur : F := if dt > 0 then div (mul (ofNat bits) (lit 1000.0 1000 1)) (ofNat dt) else b.current
    { b with current := cur, lastUpdateMs := now, window := b.total }
  else b

end Srtla.Rtt
