import Srtla.Gen.Constants
import Srtla.Model.Sys
/-!
# The receive side in front of `handle_uplink_packet`: reader tasks, the packet channel, `drain_packet_queue`

Rust: `src/sender/uplink.rs` (`spawn_reader`, `sync_readers`, `restart_reader_for`, `create_uplink_channel`),
`src/net/batch_recv.rs` (`RecvMmsgBuffer`: `BATCH_RECV_SIZE` messages of `MTU` bytes each),
`src/sender/packet_handler.rs` (`drain_packet_queue`, `MAX_DRAIN_PACKETS`) and the places of
`src/sender/mod.rs` / `src/sender/housekeeping.rs` that call them.

What the code does (read off the source, NOT off the task text):

* one reader task per conn id (`readers : HashMap<ConnectionId, ReaderHandle>`), attached to ONE socket (the `Arc` it
  was spawned with).  Loop body: `socket.recv_batch(&mut buf).await`:
  - `Ok(count > 0)`: the `count ≤ BATCH_RECV_SIZE = 32` oldest datagrams of the socket's receive queue, in order; each is
    cut to its first `MTU = 1500` bytes (per-message buffer of `MTU` bytes, `msg_len.min(MTU)`); a datagram of length 0 is
    SKIPPED (`if data.is_empty() { continue; }`); every other one is sent as `UplinkPacket { conn_id, bytes }` into the
    channel.  No await between the receive and the last send: the batch is atomic w.r.t. the event loop and `abort()`.
  - `Err(e)`: ONE empty packet (`bytes = []`: the sentinel `handle_uplink_packet` drops) is sent, the receive queue is
    untouched, the task sleeps 100 ms and retries (the sleep is timing: not modelled, the next `read` is simply later).
* the channel is `tokio::sync::mpsc::unbounded_channel`: UNBOUNDED, FIFO, many producers, one consumer.  A reader is
  never blocked and nothing is ever dropped for lack of room (`Rx.chan` is a list without capacity).
* `drain_packet_queue`: `while processed < MAX_DRAIN_PACKETS { match try_recv() { Ok(p) => handle_uplink_packet(p).await;
  processed += 1, Err(_) => break } }` — at most 64 packets, channel order, each through the WHOLE uplink arm
  (`Sys.step (.uplink now cid bytes)`; `handle_uplink_packet` reads the clock itself, hence a clock PER PACKET:
  `clk k` is what packet number `k` of the drain reads).  Called after the client arm, the uplink arm, the housekeeping
  arm and the SIGHUP arm, NOT after the batch-flush arm.
* the uplink arm of the `select!`: `packet_rx.recv()` yields the head of the channel, `handle_uplink_packet`, then
  `drain_packet_queue` (`recvArm`: at most 1 + 64 packets).
* `restart_reader_for` (in `handle_housekeeping`, after a SUCCESSFUL `reconnect_uplink`): the old reader is aborted and a
  new one spawned on the NEW socket.  What was still unread in the old socket's receive queue is never read (the socket is
  dropped with the last `Arc`): `Sock.inbox := []`, `Sock.gen + 1`.  What the old reader had already put into the channel
  stays there.  (`abort()` takes effect at the reader's next await point, which is the `recv_batch` it is parked in.)
* `sync_readers` (start-up; end of EVERY housekeeping arm, also right after `apply_connection_changes`): a reader is spawned
  for every link that has an I/O entry and no reader yet (`entry(conn_id).or_insert_with`), and every reader whose conn id
  no link carries is aborted and removed.  Packets of a removed conn id that are already in the channel stay there and are
  handed to `handle_uplink_packet`, which finds no link for them.

Not modelled: a reader task that ENDS (channel closed: only when the loop is gone; a panic) and the `reader_dead`
respawn in `handle_housekeeping`; datagrams addressed to a socket generation that has been closed (the kernel refuses
them); the 100 ms pause after a receive error; a link without an I/O entry gets no reader (modelled: `syncReaders` checks
`Sys.io`) but nothing re-checks it later.
-/
namespace Srtla.Rx
open Srtla Srtla.Sys Srtla.Link

variable {F : Type} [Scalar F]

/-- What `recvmmsg` into a per-message buffer of `MTU` bytes leaves of a datagram: its first `MTU` bytes. -/
def truncate (d : Sys.Bytes) : Sys.Bytes := d.take Gen.Proto.MTU

/-- One uplink socket as the reader task sees it: the conn id the reader stamps on its packets, the socket generation
(how often `restart_reader_for` replaced the socket under this conn id: ghost, read by no function below), and the
kernel receive queue of the CURRENT socket, oldest first, every datagram already cut to `MTU` bytes. -/
structure Sock where
  cid : Nat
  gen : Nat := 0
  inbox : List Sys.Bytes := []
deriving Repr, DecidableEq

/-- The shell plus its receive side. -/
structure Rx (F : Type) where
  sys : Sys F
  /-- the reader map: at most one entry per conn id (kept by `syncReaders`; lookups take the first) -/
  socks : List Sock := []
  /-- the unbounded packet channel, oldest first: (conn id stamped by the reader, bytes) -/
  chan : List (Nat × Sys.Bytes) := []

/-! ## Reader tasks -/

/-- A datagram arrives at the current socket of conn id `cid` (a conn id without a reader has no socket here: nothing). -/
def arrive (socks : List Sock) (cid : Nat) (d : Sys.Bytes) : List Sock :=
  socks.map fun k => if k.cid = cid then { k with inbox := k.inbox ++ [truncate d] } else k

/-- The packets one `Ok(count)` iteration of the reader loop sends: the batch without its empty datagrams. -/
def batchPackets (cid : Nat) (batch : List Sys.Bytes) : List (Nat × Sys.Bytes) :=
  (batch.filter fun d => !d.isEmpty).map fun d => (cid, d)

/-- One `Ok(count)` iteration of conn id `cid`'s reader: up to `BATCH_RECV_SIZE` datagrams leave the receive queue;
returns the new sockets and what is appended to the channel. -/
def readGo (cid : Nat) : List Sock → List Sock × List (Nat × Sys.Bytes)
  | [] => ([], [])
  | k :: rest =>
    if k.cid = cid then
      ({ k with inbox := k.inbox.drop Gen.BatchRecv.BATCH_RECV_SIZE } :: rest,
       batchPackets cid (k.inbox.take Gen.BatchRecv.BATCH_RECV_SIZE))
    else
      let r := readGo cid rest
      (k :: r.1, r.2)

/-- The `Err` iteration of conn id `cid`'s reader: the empty sentinel, if there is such a reader. -/
def errPackets (socks : List Sock) (cid : Nat) : List (Nat × Sys.Bytes) :=
  if socks.any (·.cid = cid) then [(cid, [])] else []

/-! ## `drain_packet_queue` and the uplink arm -/

/-- The `while processed < MAX_DRAIN_PACKETS` loop: `fuel` = packets still allowed, `k` = packets processed so far
(index of the clock reading).  Returns the shell state, what is left in the channel, one `Out` per packet. -/
def drainGo (clk : Nat → Nat) : Nat → Nat → Sys F → List (Nat × Sys.Bytes) → Sys F × List (Nat × Sys.Bytes) × List Out
  | 0, _, s, ch => (s, ch, [])
  | _ + 1, _, s, [] => (s, [], [])
  | fuel + 1, k, s, p :: ch =>
    let r := Sys.step s (.uplink (clk k) p.1 p.2)
    let d := drainGo clk fuel (k + 1) r.1 ch
    (d.1, d.2.1, r.2 :: d.2.2)

/-- `drain_packet_queue`. -/
def drain (r : Rx F) (clk : Nat → Nat) : Rx F × List Out :=
  let d := drainGo clk Gen.Pkt.MAX_DRAIN_PACKETS 0 r.sys r.chan
  ({ r with sys := d.1, chan := d.2.1 }, d.2.2)

/-- The uplink arm of the `select!`: `packet_rx.recv()` (enabled only when the channel is not empty),
`handle_uplink_packet`, `drain_packet_queue`. -/
def recvArm (r : Rx F) (clk : Nat → Nat) : Rx F × List Out :=
  match r.chan with
  | [] => (r, [])
  | p :: ch =>
    let a := Sys.step r.sys (.uplink (clk 0) p.1 p.2)
    let d := drain { r with sys := a.1, chan := ch } fun k => clk (k + 1)
    (d.1, a.2 :: d.2)

/-! ## Reader management by the housekeeping arm -/

/-- The link list `handle_housekeeping`'s per-link pass runs over (after the probing-completion grace reset): the same
prefix as `Sys.handleHousekeeping` (`Props/SysRx.lean`: `hkLinks_tied`). -/
def hkLinks (s : Sys F) (now : Nat) : List (FLink F) :=
  let (reg0, _) := Reg.clearPendingIfTimedOut s.reg now
  if Reg.isProbing reg0 then
    let (r, _) := Reg.checkProbingComplete reg0 now
    if !Reg.isProbing r then
      match r.target with
      | some idx =>
        s.links.mapIdx fun j l => if j = idx then { l with graceDeadline := now + Gen.Conn.STARTUP_GRACE_MS } else l
      | none => s.links
    else s.links
  else s.links

/-- The conn ids whose socket the per-link pass re-creates (`reconnect_uplink` returned `Ok`, so
`restart_reader_for` runs), in link order; `fb` threads the bind-failure injections exactly like `Sys.hkLinksGo` /
`Sys.hkBindLeft`. -/
def reconnGo (now : Nat) : List (FLink F) → List Nat → List Nat
  | [], _ => []
  | l :: rest, fb =>
    if l.isTimedOut now && l.shouldAttemptReconnect now then
      if fb.contains l.core.connId then reconnGo now rest (fb.erase l.core.connId)
      else l.core.connId :: reconnGo now rest fb
    else reconnGo now rest fb

def reconnected (s : Sys F) (now : Nat) : List Nat := reconnGo now (hkLinks s now) s.failBind

/-- `restart_reader_for` for every conn id of `ids`: `readers.remove` + `readers.insert` — the reader of that conn id
(there is one afterwards whether or not there was one before) sits on a NEW socket with an empty receive queue. -/
def restartReaders (socks : List Sock) (ids : List Nat) : List Sock :=
  ids.foldl (fun acc id =>
    if acc.any (·.cid = id) then
      acc.map fun k => if k.cid = id then { k with gen := k.gen + 1, inbox := [] } else k
    else acc ++ [{ cid := id }]) socks

/-- `sync_readers(connections, conn_io, readers, packet_tx)`. -/
def syncReaders (ls : List (FLink F)) (io : List Nat) (socks : List Sock) : List Sock :=
  let spawned := ls.foldl (fun acc l =>
    if io.contains l.core.connId && !acc.any (·.cid = l.core.connId) then acc ++ [{ cid := l.core.connId }] else acc) socks
  spawned.filter fun k => ls.any (·.core.connId = k.cid)

/-! ## Events -/

inductive Ev where
  /-- a datagram arrives at the current socket of uplink `cid` -/
  | arrive (cid : Nat) (data : Sys.Bytes)
  /-- the reader of `cid` runs one loop iteration whose `recv_batch` returned `Ok` -/
  | read (cid : Nat)
  /-- the reader of `cid` runs one loop iteration whose `recv_batch` returned `Err` -/
  | rxErr (cid : Nat)
  /-- `drain_packet_queue` (tail of the client / uplink / housekeeping / SIGHUP arm) -/
  | drain (clk : Nat → Nat)
  /-- the uplink arm: one packet from `packet_rx.recv()`, then `drain_packet_queue` -/
  | recv (clk : Nat → Nat)
  /-- the body of any other arm (`Sys.step`), with what it does to the readers: `.hk` restarts the readers of the
  re-created sockets and ends with `sync_readers`; `.reload` (the tail of the housekeeping arm) is followed by
  `sync_readers`.  An `Sys.Ev.uplink` given here is a packet that did NOT come through the channel (the
  hand-built packets of the correspondence harness): the theorems about the channel exclude it (`NoDirect`). -/
  | shell (e : Sys.Ev)

/-- One event: the new state and the `Out` of every shell event it ran, in order. -/
def step (r : Rx F) : Ev → Rx F × List Out
  | .arrive cid d => ({ r with socks := arrive r.socks cid d }, [])
  | .read cid =>
    let g := readGo cid r.socks
    ({ r with socks := g.1, chan := r.chan ++ g.2 }, [])
  | .rxErr cid => ({ r with chan := r.chan ++ errPackets r.socks cid }, [])
  | .drain clk => drain r clk
  | .recv clk => recvArm r clk
  | .shell e =>
    let a := Sys.step r.sys e
    let socks1 := match e with
      | .hk now => restartReaders r.socks (reconnected r.sys now)
      | _ => r.socks
    let socks2 := match e with
      | .hk _ => syncReaders a.1.links a.1.io socks1
      | .reload _ _ _ => syncReaders a.1.links a.1.io socks1
      | _ => socks1
    ({ r with sys := a.1, socks := socks2 }, [a.2])

def run (r : Rx F) : List Ev → Rx F × List Out
  | [] => (r, [])
  | e :: es => ((run (step r e).1 es).1, (step r e).2 ++ (run (step r e).1 es).2)

/-- Start-up: the channel is created empty and `sync_readers` spawns one reader per link. -/
def init (s : Sys F) : Rx F := { sys := s, socks := syncReaders s.links s.io [], chan := [] }

end Srtla.Rx
