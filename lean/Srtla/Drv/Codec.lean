import Srtla.Model.Codec
import Srtla.Drv.Util
/-! Driver for the `codec` component. Stateless. -/
namespace Srtla.Drv.Codec
open Srtla.Codec Srtla.Drv

def showChk {α : Type} (f : α → String) : Chk α → String
  | .ok a => f a
  | .panic => "PANIC"

def showInfo : Option ConnInfo → String
  | none => "-"
  | some i => s!"{i.connId}/{i.window}/{i.inFlight}/{i.rttMs}/{i.nakCount}/{i.bitrate}"

def decAll (b : Bytes) : String :=
  " ".intercalate [
    "pt=" ++ showChk showOptNat (getPacketType b),
    "seq=" ++ showChk showOptNat (getSrtSequenceNumber b),
    "retx=" ++ showChk showBool (isSrtDataRetransmit b),
    "r1=" ++ showChk showBool (isSrtlaReg1 b),
    "r2=" ++ showChk showBool (isSrtlaReg2 b),
    "r3=" ++ showChk showBool (isSrtlaReg3 b),
    "ka=" ++ showChk showBool (isSrtlaKeepalive b),
    "isack=" ++ showChk showBool (isSrtAck b),
    "kats=" ++ showChk showOptNat (extractKeepaliveTimestamp b),
    "kainfo=" ++ showChk showInfo (extractKeepaliveConnInfo b),
    "ack=" ++ showChk showOptNat (parseSrtAck b),
    "nak=" ++ showChk showList (parseSrtNak b),
    "sack=" ++ showChk showList (parseSrtlaAck b)]

def step (_ : Unit) (toks : List String) : Unit × String :=
  match toks with
  | ["dec", h] =>
    match parseHex h with
    | some b => ((), decAll b)
    | none => ((), "bad-op")
  | ["ka", now] =>
    match now.toNat? with
    | some n => ((), toHex (createKeepalive n))
    | none => ((), "bad-op")
  | ["kaext", cid, w, inf, rtt, nak, br, now] =>
    match cid.toNat?, w.toInt?, inf.toInt?, rtt.toNat?, nak.toNat?, br.toNat?, now.toNat? with
    | some cid, some w, some inf, some rtt, some nak, some br, some now =>
      ((), toHex (createKeepaliveExt
        { connId := cid, window := w, inFlight := inf, rttMs := rtt, nakCount := nak, bitrate := br } now))
    | _, _, _, _, _, _, _ => ((), "bad-op")
  | ["mkack", l] =>
    match parseNatList l with
    | some l => ((), toHex (createAck l))
    | none => ((), "bad-op")
  | ["reg1", h] =>
    match parseHex h with
    | some b => ((), toHex (createReg1 b))
    | none => ((), "bad-op")
  | ["reg2", h] =>
    match parseHex h with
    | some b => ((), toHex (createReg2 b))
    | none => ((), "bad-op")
  | _ => ((), "bad-op")

end Srtla.Drv.Codec
