import Srtla.Model.LinkCc
import Srtla.Drv.Util
/-!
Driver for the `linkcc` component (C16): one stand-alone `LinkCongestionState` driven by
`rtt` / `traffic` / `loss` / `tick`, and one `LinkCcController` driven by `all` (`tick_all`).
Runs the model at `F = Float`; floats travel as IEEE bit patterns in decimal.
-/
namespace Srtla.Drv.LinkCc
open Srtla.LinkCc Srtla.Drv

abbrev DSt := St Float × Ctl Float

def init : DSt := (St.default, [])

def natBelow (s : String) (bound : Nat) : Option Nat :=
  match s.toNat? with
  | some n => if n < bound then some n else none
  | none => none

def u64? (s : String) : Option Nat := natBelow s 18446744073709551616
def u32? (s : String) : Option Nat := natBelow s 4294967296
def i32? (s : String) : Option Int :=
  match s.toInt? with
  | some n => if -2147483648 ≤ n ∧ n ≤ 2147483647 then some n else none
  | none => none
def f64? (s : String) : Option Float := (u64? s).map fun n => Float.ofBits (UInt64.ofNat n)

def bits (x : Float) : String := toString x.toBits.toNat

def showSnap (sep : String) (p : Snapshot Float) : String :=
  sep.intercalate [
    "st=" ++ p.state.str, "cm=" ++ p.climbMode.str, "tgt=" ++ toString p.target,
    "ewma=" ++ bits p.rttEwma, "var=" ++ bits p.rttVar, "min=" ++ bits p.rttMin,
    "lpm=" ++ toString p.lossPermille, "lewma=" ++ bits p.lossEwma,
    "deg=" ++ showBool p.lossDegraded]

/-- `id:rttbits:bytes:nak:bpsbits`.  The harness injects the RTT through a freshly reset Kalman
filter (`reset(); update(x)`: non-finite samples are ignored and leave 0.0, otherwise the value
snaps to `x`) and `get_smooth_rtt_ms()` clamps at 0.0. -/
def parseConn (t : String) : Option (ConnIn Float) :=
  -- optional 6th field: the link's `connected` flag (0|1).  `tick_all` drives every link it is
  -- handed whether or not it is registered (a re-registering link keeps its CC state), so the model
  -- ignores the flag.
  let fs := t.splitOn ":"
  let fs := match fs with
    | [id, r, b, n, bps, c] => if c == "0" || c == "1" then [id, r, b, n, bps] else []
    | _ => fs
  match fs with
  | [id, r, b, n, bps] =>
    match u64? id, f64? r, u64? b, i32? n, f64? bps with
    | some id, some r, some b, some n, some bps =>
      let sm : Float := if r.isFinite then fmax r (zero : Float) else zero
      some { id := id, smoothRtt := sm, bytesTotal := b, nakTotal := n, bitrate := bps }
    | _, _, _, _, _ => none
  | _ => none

def insertSorted (x : Nat) : List Nat → List Nat
  | [] => [x]
  | y :: ys => if x < y then x :: y :: ys else if x == y then y :: ys else y :: insertSorted x ys

def step (d : DSt) (toks : List String) : DSt × String :=
  let (s, m) := d
  match toks with
  | ["rtt", x, now] =>
    match f64? x, u64? now with
    | some x, some now => let s' := recordRtt s x now; ((s', m), showSnap " " (snapshot s'))
    | _, _ => (d, "bad-op")
  | ["traffic", b, n, now] =>
    match u64? b, i32? n, u64? now with
    | some b, some n, some now =>
      let s' := observeTraffic s b n now; ((s', m), showSnap " " (snapshot s'))
    | _, _, _ => (d, "bad-op")
  | ["loss", a, l, now] =>
    match u32? a, u32? l, u64? now with
    | some a, some l, some now =>
      let s' := recordLoss s a l now; ((s', m), showSnap " " (snapshot s'))
    | _, _, _ => (d, "bad-op")
  | ["tick", o, now] =>
    match u64? o, u64? now with
    | some o, some now => let s' := tick s o now; ((s', m), showSnap " " (snapshot s'))
    | _, _ => (d, "bad-op")
  | "all" :: now :: conns =>
    match u64? now, conns.mapM parseConn with
    | some now, some cs =>
      let m' := tickAll m cs now
      let ids := cs.foldl (fun acc c => insertSorted c.id acc) []
      let outs := ids.map fun id =>
        match m'.get id with
        | some st => toString id ++ ":" ++ showSnap "," (snapshot st)
        | none => toString id ++ ":missing"
      ((s, m'), if outs.isEmpty then "-" else " ".intercalate outs)
    | _, _ => (d, "bad-op")
  | "looptrace" :: rest =>
    -- the real event loop end to end on a virtual clock: monitor only, constant reply, no model state
    if looptraceWellFormed rest then (d, "looptrace-ok") else (d, "bad-op")
  | _ => (d, "bad-op")

end Srtla.Drv.LinkCc
