import Srtla.Model.Conn
import Srtla.Drv.Util
/-! Driver for the `conn` component: links + sequence tracker (C02, C05, C06). -/
namespace Srtla.Drv.ConnDrv
open Srtla.Conn Srtla.Drv

structure St where
  links : Links := []
  trk : Tracker := Tracker.empty
  /-- per link: the batch queue (sequence number, queue time), oldest first -/
  queues : List (List (Nat × Nat)) := []

def showPhase : Phase → String
  | .registering => "reg"
  | .warming p e => s!"warm({p},{e})"
  | .live => "live"
  | .degraded => "deg"

def insertSorted (e : Int × Nat) : List (Int × Nat) → List (Int × Nat)
  | [] => [e]
  | x :: xs => if e.1 ≤ x.1 then e :: x :: xs else x :: insertSorted e xs

def sortLog (l : List (Int × Nat)) : List (Int × Nat) := l.foldr insertSorted []

def showConn (c : Conn) (queued : Nat := 0) : String :=
  let log := ",".intercalate ((sortLog c.log).map fun e => s!"{e.1}:{e.2}")
  s!"{c.connId} c={showBool c.connected} w={c.window} inf={c.inFlight} log=[{log}] hi={c.highestAcked} " ++
  s!"lr={showOptNat c.lastReceived} proof={c.proofMs} rttm={c.lastRttMeasMs} nak={c.cong.nakCount} " ++
  s!"lnak={c.cong.lastNakMs} lincr={c.cong.lastIncrMs} fr={showBool c.cong.fastRecovery} " ++
  s!"frs={c.cong.fastRecoveryStartMs} burst={c.cong.nakBurstCount} bstart={c.cong.nakBurstStartMs} " ++
  s!"ph={showPhase c.phase} score={c.score queued} q={queued} ls={showOptNat c.lastSent}"

def showSt (s : St) : String :=
  " | ".intercalate ((s.links.zip s.queues).map fun p => showConn p.1 p.2.length)

def setQ (qs : List (List (Nat × Nat))) (i : Nat) (q : List (Nat × Nat)) : List (List (Nat × Nat)) :=
  qs.mapIdx fun j x => if j = i then q else x

def mkLinks (n : Nat) : Links := (List.range n).map fun i => { connId := i + 1 }

def applyEvt (s : St) (idx : Nat) (classic : Bool) (now : Nat) (acks sacks naks : List Nat) : St :=
  let l1 := acks.foldl (fun ls a => evSrtAck ls (toI32 a) now) s.links
  let l2 := sacks.foldl (fun ls a => evSrtlaAck ls idx (toI32 a) classic now) l1
  let l3 := naks.foldl (fun ls n => (attributeNak ls s.trk n now).1) l2
  { s with links := l3 }

def step (s : St) (toks : List String) : St × String :=
  let bad := (s, "bad-op")
  let ok (s' : St) := (s', showSt s')
  match toks with
  | ["new", n] =>
    match n.toNat? with
    | some n => ok { links := mkLinks n, trk := Tracker.empty, queues := List.replicate n [] }
    | none => bad
  | ["new", n, b] =>
    -- conn ids `b + i + 1` (production ids are random u64s, far above 2^32)
    match n.toNat?, b.toNat? with
    | some n, some b =>
      if b ≤ 18446744073709551615 - 1000 then
        ok { links := (mkLinks n).map fun c => { c with connId := c.connId + b }, trk := Tracker.empty,
             queues := List.replicate n [] }
      else bad
    | _, _ => bad
  | "setc" :: i :: rest =>
    match i.toNat? with
    | some i =>
      let f (c : Conn) : Conn :=
        let c := match kvBool rest "c" with | some b => { c with connected := b } | none => c
        let c := match kvInt rest "w" with | some w => { c with window := w } | none => c
        let c := match kvInt rest "inf" with | some w => { c with inFlight := w } | none => c
        let c := match (kv rest "lr").bind parseOptNat with | some v => { c with lastReceived := v } | none => c
        let c := match kvBool rest "fr" with | some b => { c with cong := { c.cong with fastRecovery := b } } | none => c
        let c := match kvNat rest "lnak" with | some v => { c with cong := { c.cong with lastNakMs := v } } | none => c
        let c := match kvNat rest "lincr" with | some v => { c with cong := { c.cong with lastIncrMs := v } } | none => c
        let c := match kvInt rest "burst" with | some v => { c with cong := { c.cong with nakBurstCount := v } } | none => c
        c
      ok { s with links := updateAt s.links i f }
    | none => bad
  | ["send", i, seq, t] =>
    match i.toNat?, seq.toNat?, t.toNat? with
    | some i, some seq, some t => ok { s with links := updateAt s.links i (·.register (toI32 seq) t) }
    | _, _, _ => bad
  | ["route", i, seq, t] =>
    match i.toNat?, seq.toNat?, t.toNat? with
    | some i, some seq, some t =>
      match s.links[i]? with
      | some c => ok { s with links := updateAt s.links i (·.register (toI32 seq) t), trk := s.trk.insert seq c.connId t }
      | none => bad
    | _, _, _ => bad
  | ["q", i, seq, t] =>
    -- queue_data_packet: nothing is registered until the batch is taken
    match i.toNat?, seq.toNat?, t.toNat? with
    | some i, some seq, some t =>
      match s.queues[i]? with
      | some q => ok { s with queues := setQ s.queues i (q ++ [(seq, t)]) }
      | none => bad
    | _, _, _ => bad
  | ["tb", i, now] =>
    -- take_batch: register every queued packet with its queue-time stamp, in order
    match i.toNat?, now.toNat? with
    | some i, some now =>
      match s.queues[i]? with
      | some q =>
        if q.isEmpty then ok s else
        ok { s with
          links := updateAt s.links i fun c =>
            let c' := q.foldl (fun c e => c.register (toI32 e.1) e.2) c
            { c' with lastSent := some now },
          queues := setQ s.queues i [] }
      | none => bad
    | _, _ => bad
  | ["trk", seq, cid, t] =>
    match seq.toNat?, cid.toNat?, t.toNat? with
    | some seq, some cid, some t => ok { s with trk := s.trk.insert seq cid t }
    | _, _, _ => bad
  | ["evt", idx, classic, now, acks, sacks, naks] =>
    match idx.toNat?, parseBool classic, now.toNat?, parseNatList acks, parseNatList sacks, parseNatList naks with
    | some idx, some classic, some now, some acks, some sacks, some naks =>
      if idx < s.links.length then ok (applyEvt s idx classic now acks sacks naks) else ok s
    | _, _, _, _, _, _ => bad
  | ["reset", i, kind, now] =>
    match i.toNat?, now.toNat? with
    | some i, some now =>
      match kind with
      | "recovery" => ok { s with links := updateAt s.links i Conn.markForRecovery, queues := setQ s.queues i [] }
      | "reconnect" => ok { s with links := updateAt s.links i Conn.resetForReconnect, queues := setQ s.queues i [] }
      | "reg3" => ok { s with links := updateAt s.links i (·.clearPreRegistration now), queues := setQ s.queues i [] }
      | _ => bad
    | _, _ => bad
  | ["recover", i, now, vel] =>
    match i.toNat?, now.toNat?, parseBool vel with
    | some i, some now, some vel =>
      ok { s with links := updateAt s.links i fun c =>
        let (cg, w) := c.cong.recover c.window c.connected vel now
        { c with cong := cg, window := w } }
    | _, _, _ => bad
  | ["remove", i] =>
    match i.toNat? with
    | some i =>
      match s.links[i]? with
      | some c => ok { links := s.links.eraseIdx i, trk := s.trk.removeConnection c.connId,
                       queues := s.queues.eraseIdx i }
      | none => bad
    | none => bad
  | ["get", seq, now] =>
    match seq.toNat?, now.toNat? with
    | some seq, some now => (s, "get=" ++ showOptNat (s.trk.get seq now))
    | _, _ => bad
  | _ => bad

end Srtla.Drv.ConnDrv
