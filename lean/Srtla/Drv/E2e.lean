import Srtla.Drv.Util
/-!
Driver for the `e2e` component: the harness runs the REAL event loop end to end on a virtual clock
(`verif_harness::looptrace`) and judges what the receiver and the SRT client saw with monitors stated from
the property texts. There is no model state: the loop's inputs (socket timing, random connection ids) are
not reproducible bit for bit, so nothing is compared beyond the well-formedness of the op, and the reply is
constant. What the theorems say about the loop's arms is tied to the code by the per-arm components
(`sys`, `reg`, `conn`, ...) and by the pinned glue regions; this component looks at the loop as a whole.

Ops: `looptrace ips=.. reloads=.. admit2=.. pps=.. rtt=.. nak=a:b:c bh=.. sack=.. forget=.. ticks=..` → `looptrace-ok`
-/
namespace Srtla.Drv.E2e
open Srtla.Drv

abbrev St := Unit

def init : St := ()

def step (s : St) (toks : List String) : St × String :=
  match toks with
  | "looptrace" :: rest => if looptraceWellFormed rest then (s, "looptrace-ok") else (s, "bad-op")
  | _ => (s, "bad-op")

end Srtla.Drv.E2e
