/-!
# Driver utilities: line protocol lexing and canonical printing (import-free)
-/
namespace Srtla.Drv

def hexDigit (c : Char) : Option Nat :=
  if '0' ≤ c ∧ c ≤ '9' then some (c.toNat - '0'.toNat)
  else if 'a' ≤ c ∧ c ≤ 'f' then some (c.toNat - 'a'.toNat + 10)
  else if 'A' ≤ c ∧ c ≤ 'F' then some (c.toNat - 'A'.toNat + 10)
  else none

/-- Parse a hex string ("-" = empty) into bytes. -/
def parseHex (s : String) : Option (List UInt8) :=
  if s == "-" then some [] else
  let rec go : List Char → List UInt8 → Option (List UInt8)
    | [], acc => some acc.reverse
    | [_], _ => none
    | a :: b :: rest, acc =>
      match hexDigit a, hexDigit b with
      | some x, some y => go rest (UInt8.ofNat (x * 16 + y) :: acc)
      | _, _ => none
  go s.toList []

def hexChar (n : Nat) : Char :=
  if n < 10 then Char.ofNat ('0'.toNat + n) else Char.ofNat ('a'.toNat + n - 10)

def toHex (b : List UInt8) : String :=
  if b.isEmpty then "-" else
  String.ofList (b.flatMap fun x => [hexChar (x.toNat / 16), hexChar (x.toNat % 16)])

def showOptNat : Option Nat → String
  | none => "-"
  | some n => toString n

def showOptInt : Option Int → String
  | none => "-"
  | some n => toString n

def showBool (b : Bool) : String := if b then "1" else "0"

def showList {α : Type} [ToString α] (l : List α) : String :=
  "[" ++ ",".intercalate (l.map toString) ++ "]"

def parseOptNat (s : String) : Option (Option Nat) :=
  if s == "-" then some none else s.toNat?.map some

def parseBool (s : String) : Option Bool :=
  if s == "1" then some true else if s == "0" then some false else none

/-- "a,b,c" or "-" for empty. -/
def parseNatList (s : String) : Option (List Nat) :=
  if s == "-" then some [] else (s.splitOn ",").mapM String.toNat?

def parseIntList (s : String) : Option (List Int) :=
  if s == "-" then some [] else (s.splitOn ",").mapM String.toInt?

/-- `key=value` lookup in a token list. -/
def kv (toks : List String) (key : String) : Option String :=
  toks.findSome? fun t =>
    match t.splitOn "=" with
    | [k, v] => if k == key then some v else none
    | _ => none

def kvNat (toks : List String) (key : String) : Option Nat := (kv toks key).bind String.toNat?
def kvInt (toks : List String) (key : String) : Option Int := (kv toks key).bind String.toInt?
def kvBool (toks : List String) (key : String) : Option Bool := (kv toks key).bind parseBool

def words (line : String) : List String :=
  (line.trimAscii.toString.splitOn " ").filter (· ≠ "")

/-- Generic line loop: `case N` resets to `init`; every other line is one op. -/
partial def runLoop {σ : Type} (init : σ) (step : σ → List String → σ × String)
    (h : IO.FS.Stream) (out : IO.FS.Stream) (s : σ) : IO Unit := do
  let line ← h.getLine
  if line.isEmpty then
    out.flush
    return ()
  let toks := words line
  match toks with
  | [] => runLoop init step h out s
  | "case" :: rest =>
    out.putStrLn ("case " ++ " ".intercalate rest)
    runLoop init step h out init
  | _ =>
    let (s', o) := step s toks
    out.putStrLn o
    runLoop init step h out s'


/-! Well-formedness of a `looptrace` op (the real event loop end to end; monitor only): exactly what
`verif_harness::looptrace::Scenario::parse` accepts. -/

def ltNum (s : String) : Option Nat :=
  if s.isEmpty || s.length > 9 || !s.toList.all Char.isDigit then none else s.toNat?

def ltList (s : String) : Bool :=
  let parts := s.splitOn "."
  parts.length ≤ 4 && parts.all fun x => match ltNum x with
    | some o => 1 ≤ o && o ≤ 9
    | none => false

def ltTriple (s : String) : Option (Nat × Nat × Nat) :=
  match s.splitOn ":" with
  | [a, b, c] => match ltNum a, ltNum b, ltNum c with
    | some a, some b, some c => some (a, b, c)
    | _, _, _ => none
  | _ => none

def ltVal (tok key : String) : Option String :=
  if tok.startsWith (key ++ "=") then some (tok.drop (key.length + 1)).toString else none

def ltReload (r : String) : Bool :=
  match r.splitOn ":" with
  | tr :: l :: rest =>
    -- Rust's split_once: everything after the first ':' is the list (a second ':' makes the list ill-formed)
    rest.isEmpty && ltList l &&
      (if tr.startsWith "at" then (ltNum (tr.drop 2).toString).isSome
       else if tr.startsWith "run" then (ltNum (tr.drop 3).toString).isSome
       else false)
  | _ => false

def ltBh (s : String) : Bool :=
  match ltTriple s with
  | some (a, _, _) => 1 ≤ a && a ≤ 9
  | none => false

def ltCfg (s : String) : Bool :=
  match ltTriple s with
  | some (_, b, _) => b ≤ 3
  | none => false

def looptraceWellFormed (toks : List String) : Bool :=
  match toks with
  | [t0, t1, t2, t3, t4, t5, t6, t7, t8, t9, t10, t11, t12] =>
    match ltVal t0 "ips", ltVal t1 "reloads", ltVal t2 "admit2", ltVal t3 "pps", ltVal t4 "rtt",
          ltVal t5 "nak", ltVal t6 "bh", ltVal t7 "sack", ltVal t8 "forget", ltVal t9 "cfg", ltVal t10 "quiet",
          ltVal t11 "flood", ltVal t12 "ticks" with
    | some ips, some rl, some ad, some pps, some rtt, some nak, some bh, some sack, some forget, some cfg, some quiet,
      some flood, some ticks =>
      let rls := if rl == "-" then [] else rl.splitOn ","
      let bhs := if bh == "-" then [] else bh.splitOn ","
      let cfgs := if cfg == "-" then [] else cfg.splitOn ","
      ltList ips && rls.all ltReload && rls.length ≤ 4 && (ltNum ad).isSome &&
      (match ltNum pps with | some p => 1 ≤ p && p ≤ 2000 | none => false) &&
      (match ltNum rtt with | some r => r ≤ 2000 | none => false) &&
      (ltTriple nak).isSome &&
      bhs.all ltBh && bhs.length ≤ 4 &&
      (ltNum sack).isSome && (ltNum forget).isSome &&
      cfgs.all ltCfg && cfgs.length ≤ 6 &&
      (match quiet.splitOn ":" with
       | [a, b] => (ltNum a).isSome && (ltNum b).isSome
       | _ => false) &&
      (match flood.splitOn ":" with
       | [a, b] => (ltNum a).isSome && (match ltNum b with | some d => d ≤ 10 | none => false)
       | _ => false) &&
      (match ltNum ticks with | some t => 1 ≤ t && t ≤ 200 | none => false)
    | _, _, _, _, _, _, _, _, _, _, _, _, _ => false
  | _ => false

end Srtla.Drv
