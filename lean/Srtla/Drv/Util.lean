/-!
# Driver utilities: line protocol lexing and canonical printing (import-free)
-/
namespace Srtla.Drv

def hexDigit (c : Char) : Option Nat :=
  if '0' ≤ c ∧ c ≤ '9' then some (c.toNat - '0'.toNat)
  else if 'a' ≤ c ∧ c ≤ 'f' then some (c.toNat - 'a'.toNat + 10)
  else if 'A' ≤ c ∧ c ≤ 'F' then some (c.toNat - 'A'.toNat + 10)
  else none

/-- Parse a hex string ("-" = empty) into bytes. -/
def parseHex (s : String) : Option (List UInt8) :=
  if s == "-" then some [] else
  let rec go : List Char → List UInt8 → Option (List UInt8)
    | [], acc => some acc.reverse
    | [_], _ => none
    | a :: b :: rest, acc =>
      match hexDigit a, hexDigit b with
      | some x, some y => go rest (UInt8.ofNat (x * 16 + y) :: acc)
      | _, _ => none
  go s.toList []

def hexChar (n : Nat) : Char :=
  if n < 10 then Char.ofNat ('0'.toNat + n) else Char.ofNat ('a'.toNat + n - 10)

def toHex (b : List UInt8) : String :=
  if b.isEmpty then "-" else
  String.ofList (b.flatMap fun x => [hexChar (x.toNat / 16), hexChar (x.toNat % 16)])

def showOptNat : Option Nat → String
  | none => "-"
  | some n => toString n

def showOptInt : Option Int → String
  | none => "-"
  | some n => toString n

def showBool (b : Bool) : String := if b then "1" else "0"

def showList {α : Type} [ToString α] (l : List α) : String :=
  "[" ++ ",".intercalate (l.map toString) ++ "]"

def parseOptNat (s : String) : Option (Option Nat) :=
  if s == "-" then some none else s.toNat?.map some

def parseBool (s : String) : Option Bool :=
  if s == "1" then some true else if s == "0" then some false else none

/-- "a,b,c" or "-" for empty. -/
def parseNatList (s : String) : Option (List Nat) :=
  if s == "-" then some [] else (s.splitOn ",").mapM String.toNat?

def parseIntList (s : String) : Option (List Int) :=
  if s == "-" then some [] else (s.splitOn ",").mapM String.toInt?

/-- `key=value` lookup in a token list. -/
def kv (toks : List String) (key : String) : Option String :=
  toks.findSome? fun t =>
    match t.splitOn "=" with
    | [k, v] => if k == key then some v else none
    | _ => none

def kvNat (toks : List String) (key : String) : Option Nat := (kv toks key).bind String.toNat?
def kvInt (toks : List String) (key : String) : Option Int := (kv toks key).bind String.toInt?
def kvBool (toks : List String) (key : String) : Option Bool := (kv toks key).bind parseBool

def words (line : String) : List String :=
  (line.trimAscii.toString.splitOn " ").filter (· ≠ "")

/-- Generic line loop: `case N` resets to `init`; every other line is one op. -/
partial def runLoop {σ : Type} (init : σ) (step : σ → List String → σ × String)
    (h : IO.FS.Stream) (out : IO.FS.Stream) (s : σ) : IO Unit := do
  let line ← h.getLine
  if line.isEmpty then
    out.flush
    return ()
  let toks := words line
  match toks with
  | [] => runLoop init step h out s
  | "case" :: rest =>
    out.putStrLn ("case " ++ " ".intercalate rest)
    runLoop init step h out init
  | _ =>
    let (s', o) := step s toks
    out.putStrLn o
    runLoop init step h out s'

end Srtla.Drv
