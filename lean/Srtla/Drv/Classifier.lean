import Srtla.Model.Classifier
import Srtla.Drv.Util
/-!
Driver for the `classifier` component.

Ops:
* `tick <link>;<link>;…` (or `tick -` for an empty slice); a link is
  `id,connected,bps_bits,kalman,fast_bits,slow_bits,masd_bits,min_bits` where `kalman` is `-`
  (filter not initialised) or the f64 bit pattern of its value; all bit patterns in decimal.
Observation: `sel=<ms> est=<ms> links=[id:weak:Reason:share:threshold:rtt_ms:qb;…]`.
-/
namespace Srtla.Drv.Classifier
open Srtla.Classifier Srtla.Drv

def parseBits (s : String) : Option Float :=
  match s.toNat? with
  | some n => if n < 18446744073709551616 then some (Float.ofBits (UInt64.ofNat n)) else none
  | none => none

def parseLink (s : String) : Option LinkIn :=
  match s.splitOn "," with
  | [id, c, bps, kal, fast, slow, masd, mn] =>
    match id.toNat?, parseBool c, parseBits bps, parseBits fast, parseBits slow, parseBits masd, parseBits mn with
    | some id, some c, some bps, some fast, some slow, some masd, some mn =>
      if id ≥ 18446744073709551616 then none else
      let mk (k : Option Float) : LinkIn :=
        { id := id, connected := c, bps := bps, kalman := k, minFast := fast, minSlow := slow,
          masd := masd, rttMin := mn }
      if kal == "-" then some (mk none)
      else match parseBits kal with
        | some x => if x.isFinite then some (mk (some x)) else none
        | none => none
    | _, _, _, _, _, _, _ => none
  | _ => none

def distinct : List Nat → Bool
  | [] => true
  | x :: xs => !xs.contains x && distinct xs

/-- Duplicate conn_ids in one slice are outside the model's input domain (see Model/Classifier.lean). -/
def parseTick (s : String) : Option Tick :=
  if s == "-" then some [] else
  match (s.splitOn ";").mapM parseLink with
  | some t => if distinct (t.map (·.id)) then some t else none
  | none => none

def showOut (t : Tick) (p : LinkIn × LinkOut) : String :=
  let (l, o) := p
  let _ := t
  if o.panicked then "PANIC" else
  s!"{o.id}:{showBool o.weak}:{o.reason.name}:{o.share}:{o.threshold}:{rttMs l}:{showBool (queueBuilding l)}"

def step (s : State) (toks : List String) : State × String :=
  match toks with
  | ["tick", ls] =>
    match parseTick ls with
    | some t =>
      let (s', r) := classify s t
      if r.perLink.any (·.panicked) then (s', "PANIC") else
      (s', s!"sel={r.selectedDelay} est={r.estimatedMaxDelay} links=[" ++
            ";".intercalate ((t.zip r.perLink).map (showOut t)) ++ "]")
    | none => (s, "bad-op")
  | "looptrace" :: rest =>
    -- the real event loop end to end on a virtual clock: monitor only, constant reply, no model state
    if looptraceWellFormed rest then (s, "looptrace-ok") else (s, "bad-op")
  | _ => (s, "bad-op")

end Srtla.Drv.Classifier
