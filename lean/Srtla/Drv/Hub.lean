import Srtla.Model.Hub
import Srtla.Drv.Util
/-!
Driver for the `hub` component (C20): the atomic-op layer of `Srtla.Model.Hub` behind the line protocol.

Ops (one output line each):
* `conn <cap>`            create push channel number n (n = channels created so far), `cap ≥ 1` → `conn=<n>`
* `sub <conn> <topic>`    `hub.subscribe(topic, conn.push_tx.clone())`                        → `id=sub-<k>`
* `unsub <k>`             `hub.unsubscribe("sub-<k>")`                                         → `removed=<0|1>`
* `unsubraw <string>`      `hub.unsubscribe(string)` (any spelling)                             → `removed=<0|1>`
* `pub <topic> <n>`       `hub.publish(topic, json!(n))`                                       → `ok`
* `recv <conn>`           `push_rx.try_recv()` → `-` | `gone` | `method=<m> sid=sub-<k> data=<n>`
* `close <conn>`          drop `push_rx`                                                       → `ok` | `gone`
* `shut <conn>`           `push_rx.close()`, receiver kept: closed with its backlog still queued → `ok` | `gone`
* `racepub <topic> <n> <k>` publish and `unsubscribe("sub-<k>")` as two concurrent tasks     → `ok removed=<0|1>`
* `racepub <topic> <n> <k> <burn>` the same with a task switch forced inside `publish` (closed victim) → `ok`
* `subn <conn> <topic> <c>` `c` subscribes in a row                                           → `first:id=.. last:id=..`
* `par <nsubs> <rounds>`  publisher thread vs. unsubscribing thread on a private hub (monitor) → `ok`
* `len`                   `hub.len()`                                                          → `len=<n>`
-/
namespace Srtla.Drv.Hub
open Srtla.Hub Srtla.Drv

structure St where
  hub : Hub
  conns : Nat

def init : St := { hub := emptyHub (fun _ => 0), conns := 0 }

def validTopic (t : String) : Bool := t.length > 0 && !t.contains '='

def showObs : Obs → String
  | .id n => s!"id=sub-{n}"
  | .removed b => "removed=" ++ showBool b
  | .published _ => "ok"
  | .len n => s!"len={n}"
  | .msg none => "-"
  | .msg (some m) => s!"method={m.topic}.update sid=sub-{m.sub} data={m.payload}"
  | .rxGone => "gone"
  | .closed => "ok"

def run (s : St) (op : Op) : St × String :=
  let r := apply s.hub op
  ({ s with hub := r.1 }, showObs r.2)

def step (s : St) (toks : List String) : St × String :=
  match toks with
  | ["conn", cap] =>
    match cap.toNat? with
    | some c =>
      if c = 0 then (s, "bad-op")
      else ({ hub := { s.hub with chans := upd s.hub.chans s.conns (freshChan c) }, conns := s.conns + 1 },
            s!"conn={s.conns}")
    | none => (s, "bad-op")
  | ["sub", c, topic] =>
    match c.toNat? with
    | some c => if c < s.conns && validTopic topic then run s (.sub topic c) else (s, "bad-op")
    | none => (s, "bad-op")
  | ["unsub", k] =>
    match k.toNat? with
    | some k => run s (.unsub k)
    | none => (s, "bad-op")
  | ["unsubraw", raw] =>
    -- arbitrary id string: only the canonical spelling `sub-<decimal>` can name an entry
    match (raw.drop 4).toString.toNat? with
    | some k => if raw == s!"sub-{k}" then run s (.unsub k) else (s, "removed=0")
    | none => (s, "removed=0")
  | ["pub", topic, n] =>
    match n.toNat? with
    | some n => if validTopic topic then run s (.pub topic n) else (s, "bad-op")
    | none => (s, "bad-op")
  | ["racepub", topic, n, k] =>
    -- publish and unsubscribe as concurrent tasks (publish first): with an atomic publish this is
    -- `pub` then `unsub`
    match n.toNat?, k.toNat? with
    | some n, some k =>
      if validTopic topic then
        let r1 := run s (.pub topic n)
        let r2 := run r1.1 (.unsub k)
        (r2.1, r1.2 ++ " " ++ r2.2)
      else (s, "bad-op")
    | _, _ => (s, "bad-op")
  | ["racepub", topic, n, k, burn] =>
    -- the same two tasks with a task switch forced inside the real `publish` (the harness does this only for
    -- a victim whose receiver is gone: then every interleaving ends in the state of `pub` then `unsub`);
    -- constant reply, which of the two removed the entry is not reported
    match n.toNat?, k.toNat?, burn.toNat? with
    | some n, some k, some b =>
      if validTopic topic && b ≤ 1000 then
        let r1 := run s (.pub topic n)
        let r2 := run r1.1 (.unsub k)
        (r2.1, "ok")
      else (s, "bad-op")
    | _, _, _ => (s, "bad-op")
  | ["subn", c, topic, count] =>
    match c.toNat?, count.toNat? with
    | some c, some count =>
      if c < s.conns && validTopic topic && count ≠ 0 && count ≤ 1000 then
        let r := (List.range count).foldl
          (fun (acc : St × String × String) i =>
            let r := run acc.1 (.sub topic c)
            (r.1, (if i = 0 then r.2 else acc.2.1), r.2)) (s, "", "")
        (r.1, s!"first:{r.2.1} last:{r.2.2}")
      else (s, "bad-op")
    | _, _ => (s, "bad-op")
  | ["ctlunsub", pre, own] =>
    -- subscribe / unsubscribe through the real control dispatcher on a private hub: monitor only
    match pre.toNat?, own.toNat? with
    | some a, some b => if a > 2000 || b = 0 || b > 64 then (s, "bad-op") else (s, "ok")
    | _, _ => (s, "bad-op")
  | ["subfull", cap] =>
    -- a subscribe through the real control dispatcher on a connection whose push queue is full, then a
    -- publish that must complete: monitor only on a private hub, no state change
    match cap.toNat? with
    | some c => if c = 0 || c > 256 then (s, "bad-op") else (s, "ok")
    | none => (s, "bad-op")
  | ["sockbacklog", kb] =>
    -- a backlogged client of the real control socket on a private hub: monitor only, no state change
    match kb.toNat? with
    | some k => if k = 0 || k > 1024 then (s, "bad-op") else (s, "ok")
    | none => (s, "bad-op")
  | ["par", nsubs, rounds] =>
    -- real-parallelism probe on a private hub: monitor only, no state change
    match nsubs.toNat?, rounds.toNat? with
    | some a, some b => if a = 0 || a > 1024 || b = 0 || b > 100000 then (s, "bad-op") else (s, "ok")
    | _, _ => (s, "bad-op")
  | ["prioburst", rounds] =>
    -- the real priority-sidecar listener publishing into a hub on a multi-thread runtime: monitor only
    match rounds.toNat? with
    | some r => if r = 0 || r > 10000 then (s, "bad-op") else (s, "ok")
    | none => (s, "bad-op")
  | ["recv", c] =>
    match c.toNat? with
    | some c => if c < s.conns then run s (.recv c) else (s, "bad-op")
    | none => (s, "bad-op")
  | ["close", c] =>
    match c.toNat? with
    | some c => if c < s.conns then run s (.close c) else (s, "bad-op")
    | none => (s, "bad-op")
  | ["shut", c] =>
    match c.toNat? with
    | some c => if c < s.conns then run s (.shut c) else (s, "bad-op")
    | none => (s, "bad-op")
  | ["len"] => run s .len
  | _ => (s, "bad-op")

end Srtla.Drv.Hub
