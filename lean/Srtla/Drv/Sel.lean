import Srtla.Model.Select
import Srtla.Drv.Util
/-! Driver for the `sel` component: state injection + selection passes (C03, C04, C11, C12, C13). -/
namespace Srtla.Drv.Sel
open Srtla.Select Srtla.Conn Srtla.Drv Srtla

abbrev L := SLink Float

def fbits (x : Float) : String := toString x.toBits.toNat
def ofBits? (s : String) : Option Float := s.toNat?.map fun n => Float.ofBits (UInt64.ofNat n)

def showPhase : Phase → String
  | .registering => "reg"
  | .warming p e => s!"warm:{p}:{e}"
  | .live => "live"
  | .degraded => "deg"

def parsePhase (s : String) : Option Phase :=
  match s.splitOn ":" with
  | ["reg"] => some .registering
  | ["live"] => some .live
  | ["deg"] => some .degraded
  | ["warm", p, e] => match p.toNat?, e.toNat? with
    | some p, some e => some (.warming p e)
    | _, _ => none
  | _ => none

def showLink (c : L) : String :=
  s!"{c.connId} c={showBool c.connected} ph={showPhase c.phase} w={c.window} inf={c.inFlight} q={c.queued} " ++
  s!"lr={showOptNat c.lastReceived} ls={showOptNat c.lastSent} proof={c.proofMs} est={c.established} grace={c.graceDeadline} " ++
  s!"cto={c.connTimeoutMs} gated={showBool c.stallGated} lat={c.latchedSince} rec={c.recoverySince} " ++
  s!"gev={c.gateEvents} pc={c.probeCounter} pulled={showBool c.silencePulled} mark={showOptNat c.pullMark} " ++
  s!"pulls={c.silencePulls} weak={showBool c.weak} ld={showBool c.lossDegraded} cct={c.ccTarget} " ++
  s!"qm={fbits c.qualMult} qat={c.qualAt} nakc={c.nakCount} lnak={c.lastNakMs} burst={c.nakBurst} " ++
  s!"srtt={fbits c.srtt} rttmin={fbits c.rttMin} br={fbits c.bitrate}"

def showLinks (ls : List L) : String := " | ".intercalate (ls.map showLink)

def mkLink (i now : Nat) : L :=
  { connId := i + 1, lastReceived := some now, established := now, graceDeadline := now,
    srtt := 0.0, rttMin := 200.0, bitrate := 0.0, qualMult := 1.0 }

def setSrtt (c : L) (v : Float) : L :=
  -- real side: kalman.reset(); kalman.update(v) (ignored if non-finite); get_smooth_rtt_ms = value.max(0.0).
  -- `(-0.0f64).max(0.0)` is `+0.0` on the real side (observed), so every non-positive input reads `+0.0`.
  let x := if v.isFinite && v > 0.0 then v else 0.0
  { c with srtt := x, srttPos := decide (x > 0.0), srttTrunc := x.toUInt64.toNat }

def setField (c : L) (k v : String) : Option L :=
  match k with
  | "c" => (parseBool v).map fun b => { c with connected := b }
  | "ph" => (parsePhase v).map fun p => { c with phase := p }
  | "w" => v.toInt?.map fun x => { c with window := x }
  | "inf" => v.toInt?.map fun x => { c with inFlight := x }
  | "q" => v.toInt?.map fun x => { c with queued := x }
  | "lr" => (parseOptNat v).map fun x => { c with lastReceived := x }
  | "ls" => (parseOptNat v).map fun x => { c with lastSent := x }
  | "proof" => v.toNat?.map fun x => { c with proofMs := x }
  | "est" => v.toNat?.map fun x => { c with established := x }
  | "grace" => v.toNat?.map fun x => { c with graceDeadline := x }
  | "cto" => v.toNat?.map fun x => { c with connTimeoutMs := x }
  | "gated" => (parseBool v).map fun b => { c with stallGated := b }
  | "lat" => v.toNat?.map fun x => { c with latchedSince := x }
  | "rec" => v.toNat?.map fun x => { c with recoverySince := x }
  | "gev" => v.toNat?.map fun x => { c with gateEvents := x }
  | "pc" => v.toNat?.map fun x => { c with probeCounter := x }
  | "pulled" => (parseBool v).map fun b => { c with silencePulled := b }
  | "mark" => (parseOptNat v).map fun x => { c with pullMark := x }
  | "pulls" => v.toNat?.map fun x => { c with silencePulls := x }
  | "weak" => (parseBool v).map fun b => { c with weak := b }
  | "ld" => (parseBool v).map fun b => { c with lossDegraded := b }
  | "cct" => v.toNat?.map fun x => { c with ccTarget := x }
  | "srtt" => (ofBits? v).map fun x => setSrtt c x
  | "rttmin" => (ofBits? v).map fun x => { c with rttMin := x }
  | "br" => (ofBits? v).map fun x => { c with bitrate := x }
  | "qm" => (ofBits? v).map fun x => { c with qualMult := x }
  | "qat" => v.toNat?.map fun x => { c with qualAt := x }
  | "nakc" => v.toInt?.map fun x => { c with nakCount := x }
  | "lnak" => v.toNat?.map fun x => { c with lastNakMs := x }
  | "burst" => v.toInt?.map fun x => { c with nakBurst := x }
  | _ => none

def setFields (c : L) : List String → Option L
  | [] => some c
  | t :: rest =>
    match t.splitOn "=" with
    | [k, v] => (setField c k v).bind fun c' => setFields c' rest
    | _ => none

def parseCfg (toks : List String) : Option Cfg := do
  let classic ← kvBool toks "classic"
  let quality ← kvBool toks "quality"
  let stall ← kvBool toks "stall"
  let minif ← kvInt toks "minif"
  let ceil ← kvNat toks "ceil"
  let cto ← kvNat toks "cto"
  pure { classic := classic, quality := quality, stallDeselect := stall, stallMinInFlight := minif,
         stallCeilingMs := ceil, connTimeoutMs := cto }

def showRes (r : Option Nat) : String := "res=" ++ showOptNat r

/-- A link with no stall history at all (the same function as `Lemmas/SelectFrame.eraseStall`,
repeated here because the driver may not import proof files). -/
def eraseHist (c : L) : L :=
  { c with stallGated := false, latchedSince := 0, recoverySince := 0, gateEvents := 0, probeCounter := 0,
           silencePulled := false, pullMark := none, silencePulls := 0 }

/-- `aux` injects fields of the real `SrtlaConnection` that are NOT part of `SLink` (keepalive stamp,
packet log, CC / RTT / reconnect / bitrate bookkeeping, batch regime).  The model only validates the
token and leaves the state alone: a later selection that still agrees with the real code shows that
the real selectors do not read these fields. -/
def auxOk (k v : String) : Bool :=
  let nat := v.toNat?.isSome
  let int := v.toInt?.isSome
  let bool := (parseBool v).isSome
  let opt := (parseOptNat v).isSome
  match k with
  | "ka" => opt
  | "log" => nat
  | "hack" => int
  | "cbo" => bool
  | "fr" => bool
  | "frs" => nat
  | "lwi" => nat
  | "cack" => int
  | "nbs" => nat
  | "jit" => nat
  | "wka" => bool
  | "lks" => nat
  | "lrm" => nat
  | "rmf" => nat
  | "rms" => nat
  | "lra" => nat
  | "rfc" => nat
  | "bst" => nat
  | "bsw" => nat
  | "lru" => nat
  | "regime" => v == "0" || v == "1" || v == "2"
  | _ => false

def auxAllOk : List String → Bool
  | [] => true
  | t :: rest =>
    match t.splitOn "=" with
    | [k, v] => auxOk k v && auxAllOk rest
    | _ => false

def step (ls : List L) (toks : List String) : List L × String :=
  let bad := (ls, "bad-op")
  match toks with
  | ["new", n, now] =>
    match n.toNat?, now.toNat? with
    | some n, some now =>
      let ls' := (List.range n).map fun i => mkLink i now
      (ls', showLinks ls')
    | _, _ => bad
  | "set" :: i :: rest =>
    match i.toNat? with
    | some i =>
      match ls[i]? with
      | some c =>
        match setFields c rest with
        | some c' =>
          let ls' := ls.mapIdx fun j x => if j = i then c' else x
          (ls', showLinks ls')
        | none => bad
      | none => bad
    | none => bad
  | "select" :: last :: now :: rest =>
    match parseOptNat last, now.toNat?, parseCfg rest with
    | some last, some now, some cfg =>
      let (ls', r) := selectIdx ls last now cfg
      (ls', showRes r ++ " | " ++ showLinks ls')
    | _, _, _ => bad
  | "select2" :: last :: now :: rest =>
    match parseOptNat last, now.toNat?, parseCfg rest with
    | some last, some now, some cfg =>
      let (l1, r1) := selectIdx ls last now cfg
      let (l2, r2) := selectIdx l1 last now cfg
      let (l3, r3) := selectIdx l2 (match r1 with | some r => some r | none => last) now cfg
      (l3, showRes r1 ++ " res2=" ++ showOptNat r2 ++ " res3=" ++ showOptNat r3 ++ " | " ++ showLinks l3)
    | _, _, _ => bad
  | "offbase" :: last :: now :: rest =>
    -- C12 "off means baseline": two guard-off decisions on the current links and on a history-free clone
    match parseOptNat last, now.toNat?, parseCfg rest with
    | some last, some now, some cfg =>
      let cfg := { cfg with stallDeselect := false }
      let (l1, r1) := selectIdx ls last now cfg
      let (b1, rb1) := selectIdx (ls.map eraseHist) last now cfg
      let last2 := match r1 with | some r => some r | none => last
      let (l2, r2) := selectIdx l1 last2 now cfg
      let (_, rb2) := selectIdx b1 last2 now cfg
      (l2, showRes r1 ++ " base=" ++ showOptNat rb1 ++ " res2=" ++ showOptNat r2 ++ " base2=" ++ showOptNat rb2 ++
        " | " ++ showLinks l2)
    | _, _, _ => bad
  | "aux" :: i :: rest =>
    match i.toNat? with
    | some i =>
      match ls[i]? with
      | some _ => if auxAllOk rest then (ls, showLinks ls) else bad
      | none => bad
    | none => bad
  | "gate" :: now :: rest =>
    match now.toNat?, parseCfg rest with
    | some now, some cfg =>
      let ls' := applyStallGate ls now cfg
      (ls', showLinks ls')
    | _, _ => bad
  | ["classic", now] =>
    match now.toNat? with
    | some now => (ls, showRes (classicSelect ls now))
    | none => bad
  | ["bestq", now] =>
    match now.toNat? with
    | some now => (ls, showRes (bestQualityEligible ls now))
    | none => bad
  | ["factors", now] =>
    match now.toNat? with
    | some now =>
      (ls, " | ".intercalate (ls.map fun c =>
        s!"to={showBool (isTimedOut c now)} sc={score c} q={fbits (qualityMult c now)} cap={fbits (softCapMult c)} " ++
        s!"capx={showBool (capExceeded c)} capn={showOptInt (inFlightCap c.ccTarget c.rttMin)}"))
    | none => bad
  | _ => bad

end Srtla.Drv.Sel
