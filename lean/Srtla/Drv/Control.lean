import Srtla.Model.Control
import Srtla.Drv.Util
/-!
Driver for the `control` component (C18).

State: three independent configs, one per entry point (`dispatch`, `dispatch_async` without a
`SubscriptionContext`, `dispatch_async` with one), fed the same lines; the shared environment
(`stats` provider, `CriticalWindow` counters); the hub / owned ids of the third entry point.

JSON values travel in a whitespace-free prefix form (tokens joined by `,`):
`n` | `t` | `f` | `u<dec>` (PosInt) | `i<dec>` (NegInt) | `d<f64 bits, dec>` | `s<hex of utf-8>` |
`a<count>,elem…` | `o<count>,k<hex>,value,…` (keys sorted by bytes).
-/
namespace Srtla.Drv.Control
open Srtla.Control Srtla.Drv

/-! ### JSON token form -/

def hexOfString (s : String) : String :=
  String.ofList (s.toUTF8.toList.flatMap fun x => [hexChar (x.toNat / 16), hexChar (x.toNat % 16)])

def stringOfHex (h : String) : Option String :=
  if h.isEmpty then some "" else
  (parseHex h).bind fun bytes => String.fromUTF8? (ByteArray.mk bytes.toArray)

mutual
  def encJson : Json → String
    | .null => "n"
    | .bool true => "t"
    | .bool false => "f"
    | .num (.pos n) => "u" ++ toString n
    | .num (.neg i) => "i" ++ toString i
    | .num (.flt b) => "d" ++ toString b
    | .str s => "s" ++ hexOfString s
    | .arr l => "a" ++ toString l.length ++ encElems l
    | .obj l => "o" ++ toString l.length ++ encFields l
  def encElems : List Json → String
    | [] => ""
    | x :: xs => "," ++ encJson x ++ encElems xs
  def encFields : List (String × Json) → String
    | [] => ""
    | (k, v) :: xs => ",k" ++ hexOfString k ++ "," ++ encJson v ++ encFields xs
end

def isDigits (s : String) : Bool := !s.isEmpty && s.all Char.isDigit

mutual
  def parseVal : Nat → List String → Option (Json × List String)
    | 0, _ => none
    | _, [] => none
    | fuel + 1, tok :: rest =>
      let body := (tok.drop 1).toString
      if tok == "n" then some (.null, rest)
      else if tok == "t" then some (.bool true, rest)
      else if tok == "f" then some (.bool false, rest)
      else if tok.startsWith "u" then
        if isDigits body then body.toNat?.map fun n => (.num (.pos n), rest) else none
      else if tok.startsWith "i" then
        match body.toInt? with
        | some i => if i < 0 then some (.num (.neg i), rest) else none
        | none => none
      else if tok.startsWith "d" then
        if isDigits body then body.toNat?.map fun n => (.num (.flt n), rest) else none
      else if tok.startsWith "s" then
        (stringOfHex body).map fun s => (.str s, rest)
      else if tok.startsWith "a" then
        if isDigits body then
          body.toNat?.bind fun n => (parseElems fuel n rest).map fun r => (.arr r.1, r.2)
        else none
      else if tok.startsWith "o" then
        if isDigits body then
          body.toNat?.bind fun n => (parseFields fuel n rest).map fun r => (.obj r.1, r.2)
        else none
      else none
  def parseElems : Nat → Nat → List String → Option (List Json × List String)
    | 0, _, _ => none
    | _, 0, toks => some ([], toks)
    | fuel + 1, n + 1, toks =>
      (parseVal fuel toks).bind fun r =>
        (parseElems fuel n r.2).map fun rs => (r.1 :: rs.1, rs.2)
  def parseFields : Nat → Nat → List String → Option (List (String × Json) × List String)
    | 0, _, _ => none
    | _, 0, toks => some ([], toks)
    | _, _ + 1, [] => none
    | fuel + 1, n + 1, ktok :: toks =>
      if ktok.startsWith "k" then
        (stringOfHex (ktok.drop 1).toString).bind fun k =>
          (parseVal fuel toks).bind fun r =>
            (parseFields fuel n r.2).map fun rs => ((k, r.1) :: rs.1, rs.2)
      else none
end

/-- Parse one whole token-form value (nothing may be left over). -/
def parseJson (s : String) : Option Json :=
  let toks := s.splitOn ","
  match parseVal (2 * toks.length + 4) toks with
  | some (j, []) => some j
  | _ => none

def parseOptJson (s : String) : Option (Option Json) :=
  if s == "-" then some none else (parseJson s).map some

/-- `s<hex>` string token. -/
def parseStrTok (s : String) : Option String :=
  if s.startsWith "s" then stringOfHex (s.drop 1).toString else none

/-! ### Printing -/

def showResp : Option Response → String
  | none => "-"
  | some r =>
    -- `v<hex>`: the `jsonrpc` member of the response as written on the wire
    let ver := "v" ++ hexOfString r.jsonrpc
    match r.result, r.error with
    | some v, none => "ok/" ++ ver ++ "/" ++ encJson r.id ++ "/" ++ encJson v
    | none, some e =>
      "err/" ++ ver ++ "/" ++ toString e.code ++ "/" ++ encJson r.id ++ "/s" ++ hexOfString e.message ++ "/" ++
        (if e.hasData then "d1" else "d0")
    | _, _ => "MALFORMED"

def showCfg (c : Config) : String :=
  let s := c.snapshot
  s!"{s.mode.toStr}/{showBool s.quality}/{showBool s.stall}/{s.minInFlight}/{s.ackStale}/{s.timeout}"

def showOwned (l : List String) : String :=
  if l.isEmpty then "-" else "+".intercalate l

/-! ### State and step -/

structure DState where
  stats : Option Json := none
  cwPass : Bool := false
  windows : Nat := 0
  malformed : Nat := 0
  cS : Config := Config.new
  cA : Config := Config.new
  cC : Config := Config.new
  ctx : Ctx := Ctx.init

def DState.env (s : DState) : Env :=
  { stats := s.stats, cw := if s.cwPass then some (s.windows, s.malformed) else none }

def parseLine : List String → Option Line
  | ["blank"] => some .blank
  | ["unparsable"] => some .unparsable
  | ["req", v, m, p, i] =>
    match parseStrTok v, parseStrTok m, parseJson p, parseOptJson i with
    | some v, some m, some p, some i => some (.request { jsonrpc := v, method := m, params := p, id := i })
    | _, _, _, _ => none
  | _ => none

def parseMode? (s : String) : Option Mode :=
  if s == "classic" then some .classic else if s == "enhanced" then some .enhanced else none

def doLine (s : DState) (l : Line) : DState × String :=
  let env := s.env
  let rS := dispatchInner env s.cS l
  let rA := dispatchAsync env s.cA none l
  let rC := dispatchAsync env s.cC (some s.ctx) l
  let ctx' := rC.2.1.getD s.ctx
  let s' := { s with cS := rS.1, cA := rA.1, cC := rC.1, ctx := ctx' }
  let same (a b : String) : String := if a == b then "=" else b
  let oS := showResp rS.2
  let kS := showCfg rS.1
  (s', " ".intercalate [
    "S=" ++ oS, "A=" ++ same oS (showResp rA.2.2), "C=" ++ same oS (showResp rC.2.2),
    "cS=" ++ kS, "cA=" ++ same kS (showCfg rA.1), "cC=" ++ same kS (showCfg rC.1),
    "hub=" ++ toString ctx'.hub.entries.length ++ "/" ++ showOwned ctx'.owned])

def step (s : DState) (toks : List String) : DState × String :=
  match toks with
  | "line" :: _raw :: cls =>
    match parseLine cls with
    | some l => doLine s l
    | none => (s, "bad-op")
  | ["cli", mode, noq, nostall, minif, stale, timeout] =>
    match parseMode? mode, parseBool noq, parseBool nostall, minif.toInt?, stale.toNat?, timeout.toNat? with
    | some mode, some noq, some nostall, some minif, some stale, some timeout =>
      let c := Config.fromCli mode noq nostall minif stale timeout
      ({ s with cS := c, cA := c, cC := c }, "cfg=" ++ showCfg c)
    | _, _, _, _, _, _ => (s, "bad-op")
  | ["env", st, cw, _recipe] =>
    match kv [st] "stats", kvBool [cw] "cw" with
    | some st, some cw =>
      match parseOptJson st with
      | some st => ({ s with stats := st, cwPass := cw }, "ok")
      | none => (s, "bad-op")
    | _, _ => (s, "bad-op")
  | ["cw", "extend", d] =>
    match d.toNat? with
    | some _ =>
      let s' := { s with windows := s.windows + 1 }
      (s', s!"cw={s'.windows}/{s'.malformed}")
    | none => (s, "bad-op")
  | ["cw", "malformed"] =>
    let s' := { s with malformed := s.malformed + 1 }
    (s', s!"cw={s'.windows}/{s'.malformed}")
  | ["session"] =>
    -- the harness replays the case's lines through the real socket / stdin listeners; no model state
    (s, "session-ok")
  | ["par", rounds] =>
    -- real threads setting different knobs of one PRIVATE DynamicConfig concurrently (harness monitor
    -- `set-not-visible-concurrent`); the case's configs are not touched: constant reply, no model state
    match rounds.toNat? with
    | some n => if n == 0 || n > 1000000 then (s, "bad-op") else (s, "ok")
    | none => (s, "bad-op")
  | ["race", ms] =>
    -- concurrent setters / snapshot readers on the real code; the case then continues from a
    -- deterministic store of the last value (see harness).  The model applies that last store.
    match parseNatList ms with
    | some l =>
      match l.getLast? with
      | some last =>
        let s' := { s with cS := (s.cS.setConnTimeout last).1, cA := (s.cA.setConnTimeout last).1,
                           cC := (s.cC.setConnTimeout last).1 }
        (s', "race-ok cS=" ++ showCfg s'.cS)
      | none => (s, "bad-op")
    | none => (s, "bad-op")
  | _ => (s, "bad-op")

end Srtla.Drv.Control
