import Srtla.Model.Reg
import Srtla.Drv.Util
/-!
Driver for the `reg` component (C07): the registration manager plus the shell arms that drive it.

Ops (one output line each):
* `init <n> <idseed> [<born>]`   first op of a case: `n` uplinks, srtla id = `idBytes idseed`; with `born` the
                                 harness builds the links as `connect_uplink` does at that time (natural state)
* `nattick <now> <rcs>`          real `handle_housekeeping` on the links' natural state (no forcing); `rcs` must be
                                 the links that then take the reconnect branch
* `bindfail <idx> <0|1>`         harness-only: the uplink's socket binder fails / works (`reconnect_uplink` fails)
* `probe_start <now>`            only directly after `init` (the shell calls `start_probing` once, first)
* `pkt <idx> <now> <type4hex> <len> <seed>`   datagram `take len (type ++ idBytes seed ++ 40×ee)` on uplink idx
* `hkpkt …`                      same arguments as `pkt`, but the harness calls the real `handle_uplink_packet`
                                 (which also transmits the immediate REG1); observation = datagrams per uplink
* `tick <now> <rcs>`             one housekeeping pass; `rcs` = links taking the reconnect branch (`-` none)
* `hktick <now> <rcs>`           the same pass, but the harness calls the real `handle_housekeeping` over loopback
                                 sockets; observation = REG1/REG2 datagrams per uplink (`now ≥ 100000`)
* atomic housekeeping steps: `clear <now>`, `pcheck <now>`, `hkrc <idx> <now>`, `drop <idx>`, `upd`, `drv <now>`
-/
namespace Srtla.Drv.Reg
open Srtla.Reg Srtla.Drv

structure DState where
  inited : Bool := false
  fresh : Bool := false
  n : Nat := 0
  sys : Sys := Sys.init [] [] 0
  /-- per uplink: `connection_established_ms ≠ 0` (set by the first REG3 at a non-zero clock). Link
  state outside the registration model; only used to decide which links the REAL housekeeping pass
  (`hktick`) lets into its reconnect branch. -/
  established : List Bool := []

def DState.start : DState := {}

/-- Deterministic 256-byte id from a seed (same formula in harness/src/bin/reg.rs). -/
def idBytes (seed : Nat) : Bytes :=
  (List.range 256).map fun i => UInt8.ofNat ((seed * 7 + i * 13 + (i / 64) * seed) % 256)

/-- Stand-in for the manager's random probe id: observations print `P` for it on both sides. -/
def probeIdPlaceholder : Bytes := List.replicate 256 0x50

def mkPacket (ty len seed : Nat) : Bytes :=
  (Codec.toBE16 ty ++ idBytes seed ++ List.replicate 40 0xee).take len

def fnv64 (b : Bytes) : UInt64 :=
  b.foldl (fun h x => (h ^^^ x.toUInt64) * 0x100000001b3) 0xcbf29ce484222325

def idTag (b : Bytes) : String := toHex (b.take 4) ++ "/" ++ toString (fnv64 b).toNat

def showKind : SendKind → String
  | .reg1Imm => "reg1imm"
  | .reg1Drv => "reg1drv"
  | .reg1Hk => "reg1hk"
  | .reg2Hk => "reg2hk"
  | .bcast => "bcast"
  | .probe => "probe"

def showSend (probeId : Bytes) (s : Send) : String :=
  let body := s.pkt.drop 2
  let tgt := if s.kind = .bcast then "*" else toString s.target
  showKind s.kind ++ ">" ++ tgt ++ ":" ++ toHex (s.pkt.take 2) ++ ":" ++ toString s.pkt.length ++ ":" ++
    (if body == probeId then "P" else idTag body)

def showSends (probeId : Bytes) (l : List Send) : String :=
  if l.isEmpty then "-" else ",".intercalate (l.map (showSend probeId))

def showProbing : Probing → String
  | .notStarted => "0"
  | .probing => "1"
  | .waiting => "2"
  | .complete => "3"

def showProbe (p : ProbeResult) : String :=
  toString p.connIdx ++ ":" ++ toString p.sentMs ++ ":" ++ showOptNat p.rtt

def showState (s : Sys) : String :=
  let r := s.reg
  " ".intercalate [
    "pend=" ++ showOptNat r.pending,
    "pto=" ++ toString r.pendingTimeoutAt,
    "act=" ++ toString r.active,
    "hc=" ++ showBool r.hasConnected,
    "bp=" ++ showBool r.broadcastPending,
    "tgt=" ++ showOptNat r.target,
    "ns=" ++ toString r.nextSendAt,
    "ps=" ++ showProbing r.probing,
    "pr=[" ++ ",".intercalate (r.probeResults.map showProbe) ++ "]",
    "id=" ++ idTag r.id,
    "conn=[" ++ ",".intercalate (s.connected.map showBool) ++ "]"]

def obs (s : Sys) (out : List Send) : String :=
  "out=" ++ showSends s.reg.probeId out ++ " " ++ showState s

/-- Wire view of one housekeeping pass: what arrives at each uplink's receiver (a broadcast reaches
every uplink), in emission order, without the code path. -/
def showWire (probeId : Bytes) (n : Nat) (out : List Send) : String :=
  "|".intercalate ((List.range n).map fun i =>
    let mine := out.filter fun s => s.kind = .bcast || s.target = i
    toString i ++ ":[" ++ ",".intercalate (mine.map fun s =>
      let body := s.pkt.drop 2
      toHex (s.pkt.take 2) ++ ":" ++ toString s.pkt.length ++ ":" ++
        (if body == probeId then "P" else idTag body)) ++ "]")

/-- Parse a 4-hex-digit packet type. -/
def parseType (t : String) : Option Nat :=
  match parseHex t with
  | some [a, b] => some (a.toNat * 256 + b.toNat)
  | _ => none

def runEvs (d : DState) (evs : List Ev) : DState × String :=
  let (s', out) := d.sys.run evs
  ({ d with sys := s', fresh := false }, obs s' out)

def allLt (n : Nat) (l : List Nat) : Bool := l.all (· < n)

/-- Strictly increasing (the housekeeping loop visits links in index order, each once). -/
def strictlyInc : List Nat → Bool
  | a :: b :: rest => a < b && strictlyInc (b :: rest)
  | _ => true

def doInit (d : DState) (n seed : String) : DState × String :=
  match n.toNat?, seed.toNat? with
  | some n, some seed =>
    if d.inited || n > 8 then (d, "bad-op") else
    let s := Sys.init (idBytes seed) probeIdPlaceholder n
    ({ inited := true, fresh := true, n := n, sys := s, established := List.replicate n false }, obs s [])
  | _, _ => (d, "bad-op")

def step (d : DState) (toks : List String) : DState × String :=
  match toks with
  | ["init", n, seed] => doInit d n seed
  | ["init", n, seed, born] =>
    -- natural link state on the harness side (links created at `born`); nothing changes for the manager
    match born.toNat? with
    | some _ => doInit d n seed
    | none => (d, "bad-op")
  | ["nattick", now, rcs] =>
    -- REAL `handle_housekeeping` on the links' natural state; `rcs` = the links that reconnect
    match now.toNat?, parseNatList rcs with
    | some now, some rcs =>
      if !d.inited || !allLt d.n rcs || !strictlyInc rcs then (d, "bad-op") else
      let (s', out) := d.sys.run (tickEvs now rcs)
      ({ d with sys := s', fresh := false },
        "rx=" ++ showWire s'.reg.probeId d.n out ++ " " ++ showState s')
    | _, _ => (d, "bad-op")
  | ["bindfail", idx, flag] =>
    -- harness-only: make the uplink's socket binder fail / work again (reconnect_uplink then fails)
    match idx.toNat?, parseBool flag with
    | some idx, some _ =>
      if !d.inited || idx ≥ d.n then (d, "bad-op") else ({ d with fresh := false }, obs d.sys [])
    | _, _ => (d, "bad-op")
  | ["probe_start", now] =>
    match now.toNat? with
    | some now =>
      if !(d.inited && d.fresh) then (d, "bad-op") else
      let (s, out) := Sys.initProbing d.sys.reg.id d.sys.reg.probeId d.n now
      ({ d with fresh := false, sys := s }, obs s out)
    | none => (d, "bad-op")
  | ["pkt", idx, now, ty, len, seed] =>
    match idx.toNat?, now.toNat?, parseType ty, len.toNat?, seed.toNat? with
    | some idx, some now, some ty, some len, some seed =>
      if !d.inited || idx ≥ d.n then (d, "bad-op") else
      let buf := mkPacket ty len seed
      -- uplink_recv.rs REG3 arm: `if connection_established_ms == 0 { connection_established_ms = now }`
      let est := if Codec.getPacketTypeS buf == some Gen.Proto.SRTLA_TYPE_REG3 && now != 0
        then d.established.set idx true else d.established
      runEvs { d with established := est } [.pkt idx now buf]
    | _, _, _, _, _ => (d, "bad-op")
  | ["hkpkt", idx, now, ty, len, seed] =>
    -- the harness runs the REAL `handle_uplink_packet` for this op and reports the wire view
    match idx.toNat?, now.toNat?, parseType ty, len.toNat?, seed.toNat? with
    | some idx, some now, some ty, some len, some seed =>
      if !d.inited || idx ≥ d.n then (d, "bad-op") else
      let buf := mkPacket ty len seed
      let est := if Codec.getPacketTypeS buf == some Gen.Proto.SRTLA_TYPE_REG3 && now != 0
        then d.established.set idx true else d.established
      let (s', out) := d.sys.run [.pkt idx now buf]
      ({ d with sys := s', fresh := false, established := est },
        "rx=" ++ showWire s'.reg.probeId d.n out ++ " " ++ showState s')
    | _, _, _, _, _ => (d, "bad-op")
  | ["tick", now, rcs] =>
    match now.toNat?, parseNatList rcs with
    | some now, some rcs =>
      if !d.inited || !allLt d.n rcs || !strictlyInc rcs then (d, "bad-op") else
      runEvs d (tickEvs now rcs)
    | _, _ => (d, "bad-op")
  | ["hktick", now, rcs] =>
    -- the harness runs the REAL `handle_housekeeping` for this op and reports the wire view
    match now.toNat?, parseNatList rcs with
    | some now, some rcs =>
      if !d.inited || now < 100000 || !allLt d.n rcs || !strictlyInc rcs then (d, "bad-op") else
      -- housekeeping.rs: when probing completes in this pass the selected link gets a fresh start-up
      -- grace period, so a never-established link is not timed out and skips its reconnect branch
      let s1 := (d.sys.run [.clearTimeout now, .probeCheck now]).1
      let completed := isProbing d.sys.reg && !isProbing s1.reg
      let rcs' := if completed then
          match s1.reg.target with
          | some t => if d.established.getD t false then rcs else rcs.filter (· != t)
          | none => rcs
        else rcs
      let (s', out) := d.sys.run (tickEvs now rcs')
      ({ d with sys := s', fresh := false },
        "rx=" ++ showWire s'.reg.probeId d.n out ++ " " ++ showState s')
    | _, _ => (d, "bad-op")
  | ["clear", now] =>
    match now.toNat? with
    | some now => if !d.inited then (d, "bad-op") else runEvs d [.clearTimeout now]
    | none => (d, "bad-op")
  | ["pcheck", now] =>
    match now.toNat? with
    | some now => if !d.inited then (d, "bad-op") else runEvs d [.probeCheck now]
    | none => (d, "bad-op")
  | ["hkrc", idx, now] =>
    match idx.toNat?, now.toNat? with
    | some idx, some now =>
      if !d.inited || idx ≥ d.n then (d, "bad-op") else runEvs d [.reconnect idx now]
    | _, _ => (d, "bad-op")
  | ["drop", idx] =>
    match idx.toNat? with
    | some idx => if !d.inited || idx ≥ d.n then (d, "bad-op") else runEvs d [.drop idx]
    | none => (d, "bad-op")
  | ["upd"] => if !d.inited then (d, "bad-op") else runEvs d [.updateActive]
  | ["drv", now] =>
    match now.toNat? with
    | some now => if !d.inited then (d, "bad-op") else runEvs d [.driver now]
    | none => (d, "bad-op")
  | _ => (d, "bad-op")

end Srtla.Drv.Reg
