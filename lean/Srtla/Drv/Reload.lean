import Srtla.Model.Reload
import Srtla.Drv.Util
/-!
Driver for the `reload` component (C19).

Canonical naming shared with `harness/src/bin/reload.rs`: the k-th successfully created uplink of a
case has `conn_id` k (k = 1, 2, …), socket token k (printed `k<k>`) and state token 0 (printed `t0`);
ids `1000000 ≤ id < 2000000` are "ghost" ids that never belong to a link; id 0 is the tracker's
"empty" sentinel. Per-attempt connect outcomes are read from the `conn=<ip>/<0|1>,…` table of the op
(measured on the real code).
-/
namespace Srtla.Drv.Reload
open Srtla.Reload Srtla.Drv

structure DState where
  started : Bool := false
  port : Nat := 0
  sys : Sys := {}
  nextId : Nat := 1
  tracked : List Nat := []

def host : String := "127.0.0.1"

def DState.mk' (d : DState) : Ip → Label := mkLabel host d.port

/-- `ip/1,ip/0` or `-`. -/
def parseTable (s : String) : Option (List (Ip × Bool)) :=
  if s == "-" then some [] else
  (s.splitOn ",").mapM fun e =>
    match e.splitOn "/" with
    | [ip, f] => (parseBool f).map fun b => (ip, b)
    | _ => none

def parseIps (s : String) : Option (List Ip) :=
  if s == "-" then some [] else some (s.splitOn ",")

/-- `b`, `x`, `o/<ip>` separated by commas; `-` = no lines. -/
def parseLines (s : String) : Option (List Line) :=
  if s == "-" then some [] else
  (s.splitOn ",").mapM fun e =>
    match e.splitOn "/" with
    | ["b"] => some Line.blank
    | ["x"] => some Line.bad
    | ["o", ip] => some (Line.ok ip)
    | _ => none

/-- Outcomes for the attempts `ips`, in order, fresh ids from `next`. -/
def mkOuts (table : List (Ip × Bool)) : List Ip → Nat → Option (List (Option ConnOk) × Nat)
  | [], next => some ([], next)
  | ip :: rest, next =>
    match table.lookup ip with
    | none => none
    | some true =>
      (mkOuts table rest (next + 1)).map fun r => (some ⟨next, next, 0⟩ :: r.1, r.2)
    | some false =>
      (mkOuts table rest next).map fun r => (none :: r.1, r.2)

def showAttempts (ips : List Ip) (outs : List (Option ConnOk)) : String :=
  "[" ++ ",".intercalate ((ips.zip outs).map fun (ip, o) => ip ++ "/" ++ showBool o.isSome) ++ "]"

def showLabel (l : Label) : String := l.replace " " "_"

def showLink (l : Link) : String :=
  s!"{l.connId}/{l.ip}/{showLabel l.label}/t{l.state}"

def insertSorted (x : Nat) : List Nat → List Nat
  | [] => [x]
  | y :: ys => if x < y then x :: y :: ys else if x = y then y :: ys else y :: insertSorted x ys

def sortNat (l : List Nat) : List Nat := l.foldl (fun acc x => insertSorted x acc) []

def showIo (io : IoMap) : String :=
  let keys := sortNat io.keys
  "[" ++ ",".intercalate (keys.map fun k =>
    match io.get k with
    | some v => s!"{k}/k{v}"
    | none => s!"{k}/k?") ++ "]"

def showIps : Option (List Ip) → String
  | none => "-"
  | some l => "[" ++ ",".intercalate l ++ "]"

def showState (s : Sys) : String :=
  "links=[" ++ ",".intercalate (s.links.map showLink) ++ "] io=" ++ showIo s.io ++
  " last=" ++ showOptNat s.lastSel ++ " pend=" ++ showIps s.pending

def showTrk (d : DState) (now : Nat) : String :=
  "trk=[" ++ ",".intercalate (d.tracked.map fun q => s!"{q}/{showOptNat (d.sys.tracker.get q now)}") ++ "]"

def showReload : IpReload → String
  | .refuse .notFound => "refuse:notfound"
  | .refuse .empty => "refuse:empty"
  | .refuse (.noValidIps n) => s!"refuse:novalid:{n}"
  | .apply ips fi => "apply:[" ++ ",".intercalate ips ++ "]:first_invalid=" ++ showOptNat fi

def validId (d : DState) (id : Nat) : Bool :=
  id == 0 || id < d.nextId || (1000000 ≤ id && id < 2000000)

/-- Shared by `tick` (pending list) and `apply` (explicit list). -/
def doApply (d : DState) (s0 : Sys) (ips : List Ip) (table : List (Ip × Bool)) (now : Nat) :
    DState × String :=
  let needed := neededIps d.mk' s0 ips
  match mkOuts table needed d.nextId with
  | none => (d, "bad-op")
  | some (outs, next) =>
    let s' := applyChanges d.mk' s0 ips outs
    let d' := { d with sys := s', nextId := next }
    (d', "applied att=" ++ showAttempts needed outs ++ " " ++ showState s' ++ " " ++ showTrk d' now)

def step (d : DState) (toks : List String) : DState × String :=
  match toks with
  | ["host", name] =>
    -- how the harness names the receiver (dotted quad or `localhost`): nothing in the model depends on it
    if name == "127.0.0.1" || name == "localhost" then (d, "ok") else (d, "bad-op")
  | ["evloop", _, _] =>
    -- the harness runs the REAL event loop on loopback (real ips file, real SIGHUPs) and checks the
    -- settled uplink set with a monitor; no model state is involved: constant reply
    (d, "evloop-ok")
  | "start" :: rest =>
    match kvNat rest "port", kvNat rest "now", (kv rest "ips").bind parseIps,
          (kv rest "conn").bind parseTable with
    | some port, some _, some ips, some table =>
      if d.started || rest.length != 4 then (d, "bad-op") else
      let d := { d with started := true, port := port }
      match mkOuts table ips d.nextId with
      | none => (d, "bad-op")
      | some (outs, next) =>
        let s := startup d.mk' ips outs
        ({ d with sys := s, nextId := next }, "st att=" ++ showAttempts ips outs ++ " " ++ showState s)
    | _, _, _, _ => (d, "bad-op")
  | ["analyze", t, l] =>
    match kv [t] "text", (kv [l] "lines").bind parseLines with
    | some _, some lines => (d, showReload (analyzeText lines))
    | _, _ => (d, "bad-op")
  | "sighup" :: rest =>
    if !d.started then (d, "bad-op") else
    let file : Option (Option (List Line)) :=
      match rest with
      | ["kind=missing"] => some none
      | ["kind=dir"] => some none
      | ["kind=raw", t] => (kv [t] "text").map fun _ => none
      | ["kind=text", t, l] =>
        match kv [t] "text", (kv [l] "lines").bind parseLines with
        | some _, some lines => some (some lines)
        | _, _ => none
      | _ => none
    match file with
    | none => (d, "bad-op")
    | some f =>
      let s' := Srtla.Reload.step d.mk' d.sys (.sighup f)
      ({ d with sys := s' }, showReload (analyzeIpReload f) ++ " pend=" ++ showIps s'.pending)
  | ["tick", n, c] =>
    if !d.started then (d, "bad-op") else
    match kvNat [n] "now", (kv [c] "conn").bind parseTable with
    | some now, some table =>
      match d.sys.pending with
      | none => (d, "noop " ++ showState d.sys ++ " " ++ showTrk d now)
      | some ips => doApply d { d.sys with pending := none } ips table now
    | _, _ => (d, "bad-op")
  | ["apply", n, i, c] =>
    if !d.started then (d, "bad-op") else
    match kvNat [n] "now", (kv [i] "ips").bind parseIps, (kv [c] "conn").bind parseTable with
    | some now, some ips, some table => doApply d d.sys ips table now
    | _, _, _ => (d, "bad-op")
  | ["mut", i, t, k, a, b] =>
    if !d.started then (d, "bad-op") else
    match kvNat [i] "i", kvNat [t] "tok", kvNat [k] "k", kvNat [a] "a", kvNat [b] "b" with
    | some idx, some tok, some _, some _, some _ =>
      if idx < d.sys.links.length then
        ({ d with sys := Srtla.Reload.step d.mk' d.sys (.mutate idx tok) }, "ok")
      else (d, "noidx")
    | _, _, _, _, _ => (d, "bad-op")
  | ["resock", i, t, k, n] =>
    if !d.started then (d, "bad-op") else
    match kvNat [i] "i", kvNat [t] "tok", kvNat [k] "sock", kvNat [n] "now" with
    | some idx, some tok, some sock, some _ =>
      match d.sys.links[idx]? with
      | none => (d, "noidx")
      | some l =>
        if (d.sys.io.get l.connId).isNone then (d, "noio") else
        ({ d with sys := Srtla.Reload.step d.mk' d.sys (.resock idx sock tok) }, "ok")
    | _, _, _, _ => (d, "bad-op")
  | ["track", q, i, t] =>
    if !d.started then (d, "bad-op") else
    match kvNat [q] "seq", kvNat [i] "id", kvNat [t] "ts" with
    | some seq, some id, some ts =>
      if !validId d id then (d, "bad-id") else
      ({ d with sys := Srtla.Reload.step d.mk' d.sys (.track seq id ts),
                tracked := insertSorted seq d.tracked }, "ok")
    | _, _, _ => (d, "bad-op")
  | ["get", q, n] =>
    if !d.started then (d, "bad-op") else
    match kvNat [q] "seq", kvNat [n] "now" with
    | some seq, some now => (d, showOptNat (d.sys.tracker.get seq now))
    | _, _ => (d, "bad-op")
  | ["sel", v] =>
    if !d.started then (d, "bad-op") else
    match (kv [v] "v").bind parseOptNat with
    | some v => ({ d with sys := Srtla.Reload.step d.mk' d.sys (.select v) }, "ok")
    | none => (d, "bad-op")
  | ["state"] => (d, showState d.sys)
  | _ => (d, "bad-op")

end Srtla.Drv.Reload
