import Srtla.Model.Sys
import Srtla.Model.Arm
import Srtla.Model.Rx
import Srtla.Model.Stats
import Srtla.Drv.Util
import Srtla.Drv.LinkCc
/-! Driver for the `sys` component: the sender shell, one event per line (C01, C08, C09, C10, C14). -/
namespace Srtla.Drv.SysDrv
open Srtla Srtla.Sys Srtla.Link Srtla.Conn Srtla.Rtt Srtla.Drv

abbrev S := Srtla.Sys.Sys Float
abbrev L := FLink Float

def fbits (x : Float) : String := toString x.toBits.toNat

def showPhase : Phase → String
  | .registering => "reg"
  | .warming p e => s!"warm:{p}:{e}"
  | .live => "live"
  | .degraded => "deg"

def insertSorted (e : Int × Nat) : List (Int × Nat) → List (Int × Nat)
  | [] => [e]
  | x :: xs => if e.1 ≤ x.1 then e :: x :: xs else x :: insertSorted e xs

def sortLog (l : List (Int × Nat)) : List (Int × Nat) := l.foldr insertSorted []

def showRegime : Regime → String
  | .low => "low" | .normal => "normal" | .high => "high"

def showQItem (it : QItem) : String := s!"{showOptNat it.2.1}:{it.2.2}:{it.1.length}"

def showLink (l : L) : String :=
  let c := l.core
  let log := ",".intercalate ((sortLog c.log).map fun e => s!"{e.1}:{e.2}")
  let q := ",".intercalate (l.queue.map showQItem)
  s!"{c.connId}@{l.addr} c={showBool c.connected} ph={showPhase c.phase} w={c.window} inf={c.inFlight} log=[{log}] hi={c.highestAcked} " ++
  s!"lr={showOptNat c.lastReceived} ls={showOptNat c.lastSent} lka={showOptNat l.lastKeepaliveSent} proof={c.proofMs} " ++
  s!"gated={showBool l.stallGated} lat={l.latchedSince} rec={l.recoverySince} gev={l.gateEvents} pc={l.probeCounter} " ++
  s!"pulled={showBool l.silencePulled} mark={showOptNat l.pullMark} pulls={l.silencePulls} cto={l.connTimeoutMs} " ++
  s!"rtt[lks={l.rtt.lastKeepaliveSentMs} wait={showBool l.rtt.waiting} lrm={l.rtt.lastRttMeasMs} kx={fbits l.rtt.kalman.x} " ++
  s!"kv={fbits l.rtt.kalman.v} ki={showBool l.rtt.kalman.initialized} jit={fbits l.rtt.jitter} prev={fbits l.rtt.prevRtt} " ++
  s!"avgd={fbits l.rtt.avgDelta.value} min={fbits l.rtt.rttMin} minf={fbits l.rtt.rttMinFast} mins={fbits l.rtt.rttMinSlow} " ++
  s!"masd={fbits l.rtt.masd} est={fbits l.rtt.estimated}] " ++
  s!"br[tot={l.bitrate.total} win={l.bitrate.window} lu={l.bitrate.lastUpdateMs} cur={fbits l.bitrate.current}] " ++
  s!"rc[la={l.lastAttemptMs} fc={l.failCount} est={l.established} grace={l.graceDeadline}] " ++
  s!"qm={fbits l.qualMult} qat={l.qualAt} q=[{q}] lfl={l.lastFlushMs} regime={showRegime l.regime} " ++
  s!"weak={showBool l.weak} cct={l.ccTarget} ld={showBool l.lossDegraded} " ++
  s!"cg[nak={c.cong.nakCount} lnak={c.cong.lastNakMs} lincr={c.cong.lastIncrMs} fr={showBool c.cong.fastRecovery} " ++
  s!"frs={c.cong.fastRecoveryStartMs} burst={c.cong.nakBurstCount} bstart={c.cong.nakBurstStartMs}]"

def showProbing : Reg.Probing → String
  | .notStarted => "0" | .probing => "1" | .waiting => "2" | .complete => "3"

/-- FNV-1a over the id bytes (ids are 256 random bytes; print a short digest). -/
def fnv (b : List UInt8) : Nat :=
  b.foldl (fun h x => ((h ^^^ x.toNat) * 1099511628211) % 18446744073709551616) 14695981039346656037

def showReg (r : Reg.Reg) : String :=
  let pr := ",".intercalate (r.probeResults.map fun p => s!"{p.connIdx}:{p.sentMs}:{showOptNat p.rtt}")
  s!"reg[id={fnv r.id} pend={showOptNat r.pending} pto={r.pendingTimeoutAt} act={r.active} hc={showBool r.hasConnected} " ++
  s!"bc={showBool r.broadcastPending} tgt={showOptNat r.target} next={r.nextSendAt} pr={showProbing r.probing} res=[{pr}]]"

/-- Wire datagrams are observed per receiver socket: group them by link (in link order), keeping
the order within each link. -/
def groupWire (ids : List Nat) (wire : List (Nat × List UInt8)) : List (Nat × List UInt8) :=
  ids.flatMap fun id => wire.filter fun p => p.1 == id

def showOut (ids : List Nat) (o : Out) : String :=
  let w := ",".intercalate ((groupWire ids o.wire).map fun p => s!"{p.1}:{toHex p.2}")
  let c := ",".intercalate (o.client.map toHex)
  s!"wire=[{w}] client=[{c}] err={showBool o.hkErr}"

def insertNat (e : Nat) : List Nat → List Nat
  | [] => [e]
  | x :: xs => if e ≤ x then e :: x :: xs else x :: insertNat e xs

/-- The key set of the I/O map is printed in increasing order (a `HashMap` has no order). -/
def sortNat (l : List Nat) : List Nat := l.foldr insertNat []

/-- The pending PARTIAL send failures, `cid:k`, oldest first (only the live entries of `Sys.failAfter`). -/
def showFailAfter (s : S) : String :=
  "[" ++ ",".intercalate ((Sys.pruneAfter s.failNext s.failAfter).map fun e => s!"{e.1}:{e.2}") ++ "]"

def showSys (s : S) : String :=
  s!"sys[last={showOptNat s.lastSelected} ck={showBool s.clientKnown} afa={showOptNat s.allFailedAt} fail={showList s.failNext} fb={showList s.failBind} fa={showFailAfter s} io={showList (sortNat s.io)}] " ++
  showReg s.reg ++ " | " ++ " | ".intercalate (s.links.map showLink)

def idFromSeed (seed : Nat) (salt : Nat) : List UInt8 :=
  (List.range 256).map fun i => UInt8.ofNat ((seed * 31 + i * 7 + salt) % 256)

/-- Start-up: `create_connections_from_ips` over `n` addresses (address token `i + 1`, conn id `i + 1`). -/
def initSys (n seed now : Nat) (idBase : Nat := 0) : S :=
  { links := (List.range n).map fun i => FLink.newUplink (idBase + i + 1) (i + 1) now,
    reg := Reg.Reg.new (idFromSeed seed 0) (idFromSeed seed 101),
    io := (List.range n).map (idBase + · + 1) }

/-- The outcomes of the `connect_uplink` attempts of a reload: an address in `fails` is refused (binder
error), every other attempt succeeds and draws the next canonical conn id (`created + 1`, … : the harness
renames the random ids of the real code in creation order). Returns the outcomes and the new counter. -/
def reloadOuts (fails : List Nat) : List Nat → Nat → List (Option Nat) × Nat
  | [], created => ([], created)
  | a :: rest, created =>
    if fails.contains a then
      let r := reloadOuts fails rest created
      (none :: r.1, r.2)
    else
      let r := reloadOuts fails rest (created + 1)
      (some (created + 1) :: r.1, r.2)

def parseCfg (toks : List String) : Option Select.Cfg := do
  let classic ← kvBool toks "classic"
  let quality ← kvBool toks "quality"
  let stall ← kvBool toks "stall"
  let minif ← kvInt toks "minif"
  let ceil ← kvNat toks "ceil"
  let cto ← kvNat toks "cto"
  pure { classic := classic, quality := quality, stallDeselect := stall, stallMinInFlight := minif,
         stallCeilingMs := ceil, connTimeoutMs := cto }

def setLinkField (l : L) (k v : String) : Option L :=
  match k with
  | "weak" => (parseBool v).map fun b => { l with weak := b }
  | "ld" => (parseBool v).map fun b => { l with lossDegraded := b }
  | "cct" => v.toNat?.map fun x => { l with ccTarget := x }
  | "w" => v.toInt?.map fun x => { l with core := { l.core with window := x } }
  | "br" => v.toNat?.map fun x => { l with bitrate := { l.bitrate with current := Float.ofBits (UInt64.ofNat x) } }
  | _ => none

def setLinkFields (l : L) : List String → Option L
  | [] => some l
  | t :: rest =>
    match t.splitOn "=" with
    | [k, v] => (setLinkField l k v).bind fun l' => setLinkFields l' rest
    | _ => none

def empty : S := { links := [], reg := Reg.Reg.new [] [] }

def step (s : S) (toks : List String) : S × String :=
  let bad := (s, "bad-op")
  let fin (r : S × Out) : S × String :=
    (r.1, showOut (r.1.links.map fun (l : L) => l.core.connId) r.2 ++ " | " ++ showSys r.1)
  match toks with
  | ["init", n, seed, now] =>
    match n.toNat?, seed.toNat?, now.toNat? with
    | some n, some seed, some now => let s' := initSys n seed now; (s', showSys s')
    | _, _, _ => bad
  | ["init", n, seed, now, base] =>
    -- production-width conn ids: `base + i + 1` (the real ids are random u64s; small ids hide every narrowing cast)
    match n.toNat?, seed.toNat?, now.toNat?, base.toNat? with
    | some n, some seed, some now, some base =>
      if base + 100000 < 18446744073709551616 then let s' := initSys n seed now base; (s', showSys s') else bad
    | _, _, _, _ => bad
  | ["probe", now] =>
    match now.toNat? with
    | some now =>
      let (r, ps) := Reg.startProbing s.reg s.links.length now
      -- `probe_reg2_packet` arms the grace window of every probed link
      let ls := if ps.isEmpty then s.links else
        s.links.map fun (l : L) => { l with graceDeadline := now + Gen.Conn.STARTUP_GRACE_MS }
      let wire := ps.filterMap fun (i, p) => (s.links[i]?).map fun (l : L) => (l.core.connId, p)
      fin ({ s with reg := r, links := ls }, { wire := wire })
    | none => bad
  | ["client", now, h] =>
    match now.toNat?, parseHex h with
    | some now, some b => fin (Sys.step s (.client now b))
    | _, _ => bad
  | ["uplink", now, cid, h] =>
    match now.toNat?, cid.toNat?, parseHex h with
    | some now, some cid, some b => fin (Sys.step s (.uplink now cid b))
    | _, _, _ => bad
  | ["burst", now, cid, n, h] =>
    -- a backlog of `n` copies in the uplink channel, drained to empty: `n` uplink events in a row
    match now.toNat?, cid.toNat?, n.toNat?, parseHex h with
    | some now, some cid, some n, some b =>
      if n = 0 || n > 1000 then bad else
      let r := (List.range n).foldl
        (fun (acc : S × Out) _ =>
          let r := Sys.step acc.1 (.uplink now cid b)
          (r.1, { wire := acc.2.wire ++ r.2.wire, client := acc.2.client ++ r.2.client,
                  hkErr := acc.2.hkErr || r.2.hkErr }))
        (s, { wire := [] })
      fin r
    | _, _, _, _ => bad
  | ["flush", now] =>
    match now.toNat? with
    | some now => fin (Sys.step s (.flush now))
    | none => bad
  | ["hk", now] =>
    -- the housekeeping arm of the event loop: `sync_conn_timeout`, then `handle_housekeeping`
    match now.toNat? with
    | some now => fin (Sys.step (Sys.step s .syncTimeout).1 (.hk now))
    | none => bad
  | "cfg" :: rest =>
    match parseCfg rest with
    | some cfg => fin (Sys.step s (.setCfg cfg))
    | none => bad
  | ["crit", d] =>
    match d.toNat? with
    | some d => fin (Sys.step s (.crit d))
    | none => bad
  | ["failnext", cid] =>
    match cid.toNat? with
    | some cid =>
      if s.failNext.contains cid || !(s.links.any fun (l : L) => l.core.connId == cid) then bad
      else fin (Sys.step s (.failNext cid))
    | none => bad
  | ["failafter", cid, k] =>
    -- the next batch send of that link puts the first `min k len` datagrams of the batch on the wire, THEN fails
    match cid.toNat?, k.toNat? with
    | some cid, some k =>
      if s.failNext.contains cid || !(s.links.any fun (l : L) => l.core.connId == cid) then bad
      else fin (Sys.step s (.failAfter cid k))
    | _, _ => bad
  | ["failbind", cid] =>
    -- the uplink binder of that link refuses once: its next `reconnect_uplink` fails
    match cid.toNat? with
    | some cid =>
      if s.failBind.contains cid || !(s.links.any fun (l : L) => l.core.connId == cid) then bad
      else fin (Sys.step s (.failBind cid))
    | none => bad
  | "setlink" :: i :: rest =>
    match i.toNat? with
    | some i =>
      match s.links[i]? with
      | some l =>
        match setLinkFields l rest with
        | some l' =>
          -- `w=` / `br=` are harness injections (written directly); `weak=` / `ld=` / `cct=` are the
          -- verdict stamps of the event loop: they go through the shell event `stamp` (keys that are not
          -- given keep the link's current value, `cc_backing_off` is not a `setlink` key)
          let inj : L := { l' with weak := l.weak, lossDegraded := l.lossDegraded, ccTarget := l.ccTarget }
          let s1 : S := { s with links := setAt s.links i inj }
          let stamped := rest.any fun t => t.startsWith "weak=" || t.startsWith "ld=" || t.startsWith "cct="
          let s' := if stamped then
              (Sys.step s1 (.stamp i l'.weak l'.lossDegraded l.ccBackingOff l'.ccTarget)).1
            else s1
          (s', showSys s')
        | none => bad
      | none => bad
    | none => bad
  | ["trk", seq, now] =>
    match seq.toNat?, now.toNat? with
    | some seq, some now => (s, "get=" ++ showOptNat (s.trk.get seq now))
    | _, _ => bad
  | _ => bad

/-- Driver state: the model state plus "the rest of this case is not modelled". The harness op `deadsock`
(a socket that cannot send at all: every control send on it fails) has no counterpart in `Sys.step`,
where only batch sends can fail (`failNext`) and socket re-creation can be refused (`failBind`); from
that op to the end of the case the real code is still run and monitored, and both sides print the
constant line `unmodelled`. -/
structure DS where
  s : S
  unmodelled : Bool := false
  /-- how many uplinks have been created in this case so far (canonical conn ids are 1, 2, … in creation order) -/
  created : Nat := 0
  /-- op `hkarm`: the weak-link filter and the per-link CC controller the event loop owns (`Model/Arm.lean`) -/
  cls : Srtla.Classifier.State := Srtla.Classifier.State.init
  ctl : Srtla.LinkCc.Ctl Float := []
  /-- ops `rxpush` / `rxerr` / `rxrun` (`Model/Rx.lean`): the reader map and the packet channel of the receive side -/
  socks : List Srtla.Rx.Sock := []
  chan : List (Nat × List UInt8) := []

def emptyD : DS := { s := empty }

/-- The extra observation of op `hkarm`: the classification result, the snapshot map (sorted by conn id; a
`HashMap` has no order), the `cc_backing_off` flags (the dump does not print them). -/
def showArm (res : Srtla.Classifier.Result) (ctl : Srtla.LinkCc.Ctl Float) (ls : List L) : String :=
  let cls := ";".intercalate (res.perLink.map fun o =>
    s!"{o.id}:{showBool o.weak}:{o.reason.name}:{o.share}:{o.threshold}")
  let keys := sortNat ((ls.map fun (l : L) => l.core.connId).eraseDups)
  let cc := ";".intercalate (keys.filterMap fun id =>
    (ctl.get id).map fun st => toString id ++ ":" ++ Srtla.Drv.LinkCc.showSnap "," (Srtla.LinkCc.snapshot st))
  let ccb := ",".intercalate (ls.map fun (l : L) => showBool l.ccBackingOff)
  s!" | arm[sel={res.selectedDelay} est={res.estimatedMaxDelay} cls=[{cls}] cc=[{cc}] ccb=[{ccb}]]"

/-- A reported float: IEEE bits; `serde_json` turns a non-finite `f64` into `null`. -/
def sbits (x : Float) : String := if x.isFinite then fbits x else "null"

def showRegimeStats : Regime → String
  | .low => "low_activity" | .normal => "normal" | .high => "high_load"

/-- `weak_reason_str`. -/
def showWeakReason : Option Srtla.Classifier.Reason → String
  | none => "unknown"
  | some .Healthy => "healthy" | some .HighRtt => "high_rtt" | some .QueueBuilding => "queue_building"
  | some .NoTraffic => "no_traffic" | some .LowShare => "low_share" | some .Bypassed => "bypassed"

/-- One `LinkStats` as the harness canonicalises its `serde_json::Value`: keys in increasing order, floats as bits,
`ip` / `label` as the address token. -/
def showLinkStats (e : Srtla.Stats.LinkStatsM Float Float) : String :=
  "{" ++ ",".intercalate [
    s!"base_score={e.baseScore}", s!"batch_regime={showRegimeStats e.batchRegime}",
    s!"bitrate_bytes_per_sec={e.bitrateBytesPerSec}", s!"cc_climb_mode={e.ccClimbMode.str}",
    s!"cc_loss_degraded={showBool e.ccLossDegraded}", s!"cc_loss_ewma={sbits e.ccLossEwma}",
    s!"cc_loss_permille={e.ccLossPermille}", s!"cc_rtt_ewma_ms={sbits e.ccRttEwma}",
    s!"cc_rtt_min_ms={sbits e.ccRttMin}", s!"cc_rtt_var_ms={sbits e.ccRttVar}",
    s!"cc_state={(e.ccState.map (·.str)).getD "unknown"}", s!"cc_target_bps={e.ccTarget}",
    s!"connected={showBool e.connected}", s!"in_flight={e.inFlight}",
    s!"in_flight_cap_active={showBool e.inFlightCapActive}", s!"in_flight_cap_packets={e.inFlightCapPackets}",
    s!"ip={e.addr}", s!"label={e.addr}", s!"nak_count={e.nakCount}",
    s!"quality_multiplier={sbits e.qualityMult}", s!"rtt_min_ms={sbits e.rttMin}", s!"rtt_ms={e.rttMs}",
    s!"rtt_velocity={sbits e.rttVelocity}", s!"silence_pulls={e.silencePulls}",
    s!"stall_gate_events={e.stallGateEvents}", s!"stall_gated={showBool e.stallGated}",
    s!"timed_out={showBool e.timedOut}", s!"weak={showBool e.weak}",
    s!"weak_reason={showWeakReason e.weakReason}", s!"weak_share_permille={e.weakShare}",
    s!"weak_threshold_permille={e.weakThreshold}", s!"window={e.window}"] ++ "}"

/-- The extra observation of op `hkarm` (task B3): the snapshot `SharedStats::update` stored, as the harness
canonicalises the `serde_json::Value` of the real `StatsSnapshot` (`Model/Stats.lean`). -/
def showStats (p : Srtla.Stats.SnapshotM Float Float) : String :=
  " | stats{" ++ ",".intercalate [
    s!"active_links={p.activeLinks}", "links=[" ++ ";".intercalate (p.links.map showLinkStats) ++ "]",
    "mode=" ++ (if p.classic then "classic" else "enhanced"), s!"quality_enabled={showBool p.qualityEnabled}",
    s!"total_in_flight={p.totalInFlight}", s!"total_links={p.totalLinks}", s!"total_window={p.totalWindow}",
    s!"weak_link_estimated_max_delay_ms={p.estMaxDelay}", s!"weak_link_selected_delay_ms={p.selDelay}"] ++ "}"

def stepD (d : DS) (toks : List String) : DS × String :=
  if d.unmodelled then (d, "unmodelled") else
  match toks with
  | ["deadsock", _, _] => ({ d with unmodelled := true }, "unmodelled")
  | ["kapressure", _] =>
    -- the harness runs the real housekeeping pass over a link whose socket is full at the tick; monitors only
    (d, "kapressure-ok")
  | ["shortsend", _, _] =>
    -- the harness runs the real `send_all_datagrams` on a back-pressured socket; monitors only
    (d, "shortsend-ok")
  | ["liveloop", _] =>
    -- the harness runs the REAL event loop against a fake receiver in real time; monitors only
    (d, "liveloop-ok")
  | ["hkarm", now] =>
    -- the housekeeping arm up to and including the stamping loop: `Arm.hkArm` (sync_conn_timeout,
    -- handle_housekeeping, classify, tick_all, stamp) at the views of the real code
    match now.toNat? with
    | some now =>
      let f : Srtla.Arm.Full Float Float := { sys := d.s, cls := d.cls, ctl := d.ctl }
      let r := Srtla.Arm.hkArm Srtla.Arm.viewsF f now
      -- the classification result the arm computed (printed; `hkArm` keeps only the filter state)
      let res := (Srtla.Classifier.classify d.cls
        (Srtla.Arm.clsTick Srtla.Arm.viewsF (Srtla.Arm.afterHk d.s now).1.links)).2
      if res.perLink.any (·.panicked) then (d, "PANIC") else
      ({ d with s := r.1.sys, cls := r.1.cls, ctl := r.1.ctl },
       showOut (r.1.sys.links.map fun (l : L) => l.core.connId) r.2 ++ " | " ++ showSys r.1.sys ++
         showArm res r.1.ctl r.1.sys.links ++ showStats (Srtla.Stats.armSnapshot Srtla.Arm.viewsF f now))
    | none => (d, "bad-op")
  | ["reload", now, addrs, fails] =>
    -- the tail of the housekeeping arm after a SIGHUP: the real `apply_connection_changes`
    match now.toNat?, parseNatList addrs, parseNatList fails with
    | some now, some addrs, some fails =>
      -- address tokens are the last octet of 127.0.1.x on the harness side
      if (addrs ++ fails).any (fun a => a == 0 || a > 254) then (d, "bad-op") else
      let (outs, created) := reloadOuts fails (neededAddrs d.s.links addrs) d.created
      let r := Sys.step d.s (.reload now addrs outs)
      ({ d with s := r.1, created := created },
       showOut (r.1.links.map fun (l : L) => l.core.connId) r.2 ++ " | " ++ showSys r.1)
    | _, _, _ => (d, "bad-op")
  | ["init", n, _, _] =>
    let (s', o) := step d.s toks
    if o == "bad-op" then ({ d with s := s' }, o) else
    -- start-up: a fresh filter and a fresh controller next to the fresh connections
    ({ d with s := s', created := n.toNat?.getD 0, cls := Srtla.Classifier.State.init, ctl := [] }, o)
  | ["init", n, _, _, b] =>
    let (s', o) := step d.s toks
    if o == "bad-op" then ({ d with s := s' }, o) else
    -- canonical ids continue after the start-up ones: `base + n + 1`, ...
    ({ d with s := s', created := b.toNat?.getD 0 + n.toNat?.getD 0, cls := Srtla.Classifier.State.init, ctl := [] }, o)
  | _ => let (s', o) := step d.s toks; ({ d with s := s' }, o)

/-! ## The receive side (`Model/Rx.lean`): ops `rxpush`, `rxerr`, `rxrun`, and the reader management of the arms -/

/-- The packet channel as the harness observes it: per entry `conn id:length:digest`. -/
def showChan (ch : List (Nat × List UInt8)) : String :=
  "chan=[" ++ ",".intercalate (ch.map fun p => s!"{p.1}:{p.2.length}:{fnv p.2}") ++ "]"

/-- `hex` or `N*hex` (N copies, 1 ≤ N ≤ 200). -/
def parseRxSpec (t : String) : Option (List (List UInt8)) :=
  match t.splitOn "*" with
  | [h] => (parseHex h).map fun b => [b]
  | [n, h] =>
    match n.toNat?, parseHex h with
    | some n, some b => if n = 0 || n > 200 then none else some (List.replicate n b)
    | _, _ => none
  | _ => none

def rxOf (d : DS) : Srtla.Rx.Rx Float := { sys := d.s, socks := d.socks, chan := d.chan }

def stepRx (d : DS) (toks : List String) : DS × String :=
  if d.unmodelled then stepD d toks else
  match toks with
  | ["rxpush", cid, specs] =>
    -- datagrams arrive at the CURRENT socket of uplink `cid` (sent to the real socket on the harness side); the reader
    -- of `cid` then runs until the socket is empty (`recvmmsg` batches of at most 32)
    match cid.toNat?, (specs.splitOn ",").mapM parseRxSpec with
    | some cid, some dss =>
      let ds := dss.flatten
      if ds.length > 400 || ds.any (fun b => b.length > 4000) then (d, "bad-op") else
      let r1 := ds.foldl (fun (r : Srtla.Rx.Rx Float) b => (Srtla.Rx.step r (.arrive cid b)).1) (rxOf d)
      let r2 := (List.range (ds.length / 32 + 1)).foldl (fun (r : Srtla.Rx.Rx Float) _ => (Srtla.Rx.step r (.read cid)).1) r1
      ({ d with socks := r2.socks, chan := r2.chan }, showChan r2.chan)
    | _, _ => (d, "bad-op")
  | ["rxerr", cid] =>
    -- the reader of `cid` sees a receive error: the empty sentinel goes into the channel
    match cid.toNat? with
    | some cid =>
      let r := (Srtla.Rx.step (rxOf d) (.rxErr cid)).1
      ({ d with socks := r.socks, chan := r.chan }, showChan r.chan)
    | none => (d, "bad-op")
  | ["rxrun", now] =>
    -- `drain_packet_queue` at clock `now`: at most 64 packets of the channel through the uplink arm
    match now.toNat? with
    | some now =>
      let r := Srtla.Rx.step (rxOf d) (.drain fun _ => now)
      let o : Out := r.2.foldl Out.append {}
      ({ d with s := r.1.sys, socks := r.1.socks, chan := r.1.chan },
       showOut (r.1.sys.links.map fun (l : L) => l.core.connId) o ++ " | " ++ showSys r.1.sys ++ " | " ++ showChan r.1.chan)
    | none => (d, "bad-op")
  | _ =>
    let (d', o) := stepD d toks
    if o == "bad-op" then (d', o) else
    -- what the arms do to the readers: `handle_housekeeping` restarts the reader of every re-created socket and the
    -- arm ends with `sync_readers`; a reload is followed by `sync_readers`; start-up spawns one reader per link
    match toks with
    | ["hk", now] | ["hkarm", now] =>
      match now.toNat? with
      | some now =>
        let ids := Srtla.Rx.reconnected (Sys.step d.s .syncTimeout).1 now
        ({ d' with socks := Srtla.Rx.syncReaders d'.s.links d'.s.io (Srtla.Rx.restartReaders d.socks ids) }, o)
      | none => (d', o)
    | "reload" :: _ => ({ d' with socks := Srtla.Rx.syncReaders d'.s.links d'.s.io d.socks }, o)
    | "init" :: _ => ({ d' with socks := Srtla.Rx.syncReaders d'.s.links d'.s.io [], chan := [] }, o)
    | _ => (d', o)

end Srtla.Drv.SysDrv
