/-!
# Reference algorithm of the original `srtla_send.c` (independent transcription)

This file imports nothing and mentions no definition of the Rust model.  It is the yardstick of
property C10: plain `Int` / `Nat` / `Bool` / `List` functions with the reference's numbers written
literally (`WINDOW_MIN 1`, `WINDOW_DEF 20`, `WINDOW_MAX 60`, `WINDOW_MULT 1000`, `WINDOW_INCR 30`,
`WINDOW_DECR 100`).

```c
conn_t *select_conn() {
  conn_t *min_c = NULL;
  int max_score = -1;
  for (conn_t *c = conns; c != NULL; c = c->next) {
    if (c->last_rcvd + CONN_TIMEOUT < t) continue;          // timed-out links are skipped
    int score = c->window / (c->in_flight_pkts + 1);
    if (score > max_score) { min_c = c; max_score = score; } // strict: first maximum wins
  }
  return min_c;
}
void reg_pkt(conn_t *c, int32_t packet) { ...; c->in_flight_pkts++; }   // counted at send time
void register_nak(int32_t packet)  { ... c->window -= WINDOW_DECR;
                                     if (c->window < WINDOW_MIN*WINDOW_MULT) c->window = WINDOW_MIN*WINDOW_MULT; }
void register_srtla_ack(int32_t ack) {
  ... found on c:  c->in_flight_pkts--;
                   if (c->in_flight_pkts*WINDOW_MULT > c->window) c->window += WINDOW_INCR - 1;
  for (every conn c with c->last_rcvd != 0)                  // connected and heard from
      if (c->window < WINDOW_MAX*WINDOW_MULT) c->window += 1;
}
```
There is no time-based window recovery in the reference: the housekeeping pass only sends
keepalives and re-registers timed-out links.

Division: the score is only ever computed with a positive divisor; for a non-negative window
(the range invariant C06 keeps it in 1000..60000) C's truncating `/` and Lean's `Int` `/` agree.
-/
namespace Srtla.Spec.ClassicRef

/-- What `select_conn` reads of one link.  `inFlight` counts every packet handed to the link and
not yet acknowledged, *including* packets still waiting in a send queue (the reference has no queue:
`reg_pkt` increments `in_flight_pkts` at the moment the packet is routed). -/
structure RefLink where
  /-- the link is skipped by the selector (timed out / not usable) -/
  timedOut : Bool
  window : Int
  inFlight : Int
deriving Repr, DecidableEq

/-- `c->window / (c->in_flight_pkts + 1)`, integer division. -/
def refScore (l : RefLink) : Int := l.window / (l.inFlight + 1)

/-- The loop of `select_conn`: `i` = index of the head, `best` / `bestScore` = `min_c` / `max_score`. -/
def refGo : List RefLink → Nat → Option Nat → Int → Option Nat
  | [], _, best, _ => best
  | l :: rest, i, best, bestScore =>
    if l.timedOut then refGo rest (i + 1) best bestScore
    else if refScore l > bestScore then refGo rest (i + 1) (some i) (refScore l)
    else refGo rest (i + 1) best bestScore

/-- `select_conn`: skip timed-out links, strict `>` keeps the first maximum, initial best score
`-1` (so a link whose score is `≤ -1` is never chosen). -/
def refSelect (ls : List RefLink) : Option Nat := refGo ls 0 none (-1)

/-! ## Window rules -/

/-- Earned SRTLA ACK on the link that sent the packet: `+29` (`WINDOW_INCR - 1`) only if
`in_flight × 1000 > window` (`inFlight` = the count after the acknowledged packet was removed),
capped at 60000. -/
def refAck (w inFlight : Int) : Int :=
  if inFlight * 1000 > w then min (w + 29) 60000 else w

/-- `+1` per SRTLA-acknowledged packet on every connected link that has received anything, capped
at 60000. -/
def refGlobal (w : Int) : Int := min (w + 1) 60000

/-- `-100` per charged NAK, floored at 1000. -/
def refNak (w : Int) : Int := max (w - 100) 1000

/-- The reference applies no time-based recovery: a housekeeping tick leaves the window alone. -/
def refTick (w : Int) : Int := w

/-! ## The window vector of all links

One entry per link: `(window, live)` with `live` = connected and has received something
(`last_rcvd != 0`). -/

abbrev WVec := List (Int × Bool)

/-- Apply a window rule to entry `k` (out of range: nothing changes). -/
def applyAt (f : Int → Int) : WVec → Nat → WVec
  | [], _ => []
  | (w, live) :: rest, 0 => (f w, live) :: rest
  | p :: rest, k + 1 => p :: applyAt f rest k

/-- One SRTLA-acknowledged sequence number: the link `k` that holds it (if any; `n` = its in-flight
count after removal) earns the `+29` rule, then EVERY live link gets `+1`, whether or not anybody
held the number. -/
def refSackEvent (ws : WVec) (earned : Option (Nat × Int)) : WVec :=
  let ws1 := match earned with
    | some (k, n) => applyAt (fun w => refAck w n) ws k
    | none => ws
  ws1.map fun p => if p.2 then (refGlobal p.1, p.2) else p

/-- One NAK charged to link `k`. -/
def refNakEvent (ws : WVec) (k : Nat) : WVec := applyAt refNak ws k

/-! ## The reference as a state machine (round 3)

The rules above, put together as ONE machine over an abstract event alphabet, so that a whole
history can be replayed against it.  Still import-free, still no definition of the Rust model.

State, per link (`RLink`): what `select_conn` and the window rules read —
* `usable`  : `select_conn` does not skip the link (`last_rcvd + CONN_TIMEOUT >= t`); set by the
              environment (`linkState`), never by a rule;
* `live`    : `last_rcvd != 0` — the link gets the global `+1`; environment as well;
* `window`, `inFlight` (`in_flight_pkts`: incremented by `reg_pkt` when a data packet is ROUTED to the
  link, decremented by an earned SRTLA ACK / a charged NAK, recounted by a cumulative ACK);
* `out`     : the outstanding sequence numbers of the link (the live entries of `pkt_log`).

Events (`REv`):
* `route seq?`               — `select_conn`; for a data packet (`seq? = some n`) `reg_pkt` on the chosen link
                               (a control packet is sent but never registered: `if (sn >= 0) reg_pkt(c, sn)`);
                               the machine OUTPUTS the chosen link;
* `srtlaAck seqs onLink`     — one SRTLA ACK datagram that arrived on link `onLink`: per number, in datagram
                               order, `register_srtla_ack`;
* `nak seq remembered`       — `register_nak`;
* `cumAck ack`               — cumulative SRT ACK: every link forgets the numbers at or below `ack`
                               and recounts `in_flight_pkts`; no window moves;
* `tick`                     — housekeeping: nothing (no time-based recovery);
* `linkState i usable live`  — environment: link `i` was heard from / fell silent / timed out;
* `linkReset i`              — environment: link `i` is torn down and starts over (window 20000, nothing
                               outstanding, not usable, not live).

Idealisations of `srtla_send.c` made here, all in the direction of the property texts C02 / C05 / C10
(the C source is not part of the repository and was not consulted for this section; to the transcriber's
knowledge it differs on each of these points; they are stated so that nobody has to guess):
* `pkt_log` is a ring of 256 entries in C; here an unbounded duplicate-free list (C02: "the number of
  distinct sequence numbers … not since been retired"), so `reg_pkt` of a number the link already holds
  changes nothing;
* a cumulative ACK retires the numbers "at or beyond" (C02), i.e. `≤ ack`; a charged NAK frees the
  in-flight slot (C05);
* which holder earns an SRTLA ACK when SEVERAL links hold the number: the arrival link if it holds it,
  otherwise the first holder in list order (C02's wording; C scans in list order only — the two agree
  whenever at most one link holds the number: `C10_sack_holder`);
* which link is charged for a NAK: `remembered = none` is the reference's scan (first holder in list
  order); `remembered = some k` is C05's "the sender still remembers which uplink carried the unique
  copy": only link `k` can be charged, and only if it holds the number.
-/

/-- One link of the reference machine. -/
structure RLink where
  usable : Bool
  live : Bool
  window : Int
  inFlight : Int
  out : List Int
deriving Repr, DecidableEq

abbrev RState := List RLink

/-- What `select_conn` reads of a machine link. -/
def RLink.view (l : RLink) : RefLink :=
  { timedOut := !l.usable, window := l.window, inFlight := l.inFlight }

inductive REv where
  | route (seq : Option Int)
  | srtlaAck (seqs : List Int) (onLink : Nat)
  | nak (seq : Int) (remembered : Option Nat)
  | cumAck (ack : Int)
  | tick
  | linkState (i : Nat) (usable live : Bool)
  | linkReset (i : Nat)
deriving Repr, DecidableEq

/-- Apply `f` to link `k` (out of range: nothing changes). -/
def modifyAt (f : RLink → RLink) : RState → Nat → RState
  | [], _ => []
  | l :: rest, 0 => f l :: rest
  | l :: rest, k + 1 => l :: modifyAt f rest k

/-- `reg_pkt`: the number becomes outstanding on the link and is counted at once. -/
def regPkt (seq : Int) (l : RLink) : RLink :=
  if l.out.contains seq then l else { l with out := l.out ++ [seq], inFlight := l.inFlight + 1 }

/-- First link, in list order, that holds the number. -/
def firstHolder (st : RState) (seq : Int) : Option Nat := st.findIdx? fun l => l.out.contains seq

/-- The link that earns an SRTLA ACK for `seq` arriving on `onLink`: the arrival link if it holds the
number, otherwise the first holder in list order, if any. -/
def holder (st : RState) (onLink : Nat) (seq : Int) : Option Nat :=
  match st[onLink]? with
  | some l => if l.out.contains seq then some onLink else firstHolder st seq
  | none => firstHolder st seq

/-- The earned part of `register_srtla_ack` on the holder: the number is retired, `in_flight_pkts--`,
then `+29` iff `in_flight_pkts × 1000 > window` (the count AFTER the decrement). -/
def earn (seq : Int) (l : RLink) : RLink :=
  { l with out := l.out.filter (· != seq), inFlight := l.inFlight - 1,
           window := refAck l.window (l.inFlight - 1) }

/-- The `+1` every live link gets per SRTLA-acknowledged number. -/
def globalInc (l : RLink) : RLink := if l.live then { l with window := refGlobal l.window } else l

/-- `register_srtla_ack` for ONE number. -/
def rSackOne (st : RState) (onLink : Nat) (seq : Int) : RState :=
  let st1 := match holder st onLink seq with
    | some k => modifyAt (earn seq) st k
    | none => st
  st1.map globalInc

/-- The charge of a NAK on the link that held the number. -/
def charge (seq : Int) (l : RLink) : RLink :=
  { l with out := l.out.filter (· != seq), inFlight := l.inFlight - 1, window := refNak l.window }

/-- The link `register_nak` charges. -/
def nakTarget (st : RState) (seq : Int) (remembered : Option Nat) : Option Nat :=
  match remembered with
  | some k =>
    match st[k]? with
    | some l => if l.out.contains seq then some k else none
    | none => none
  | none => firstHolder st seq

def rNak (st : RState) (seq : Int) (remembered : Option Nat) : RState :=
  match nakTarget st seq remembered with
  | some k => modifyAt (charge seq) st k
  | none => st

/-- Cumulative ACK on one link. -/
def cumAckLink (ack : Int) (l : RLink) : RLink :=
  let out := l.out.filter fun s => decide (s > ack)
  { l with out := out, inFlight := (out.length : Int) }

/-- A torn-down link. -/
def resetLink (l : RLink) : RLink :=
  { l with usable := false, live := false, window := 20000, inFlight := 0, out := [] }

/-- One step of the reference machine: the next state and, for `route`, the chosen link. -/
def rstep (st : RState) : REv → RState × Option Nat
  | .route seq =>
    match refSelect (st.map RLink.view) with
    | some i =>
      (match seq with
        | some sq => modifyAt (regPkt sq) st i
        | none => st, some i)
    | none => (st, none)
  | .srtlaAck seqs onLink => (seqs.foldl (fun s a => rSackOne s onLink a) st, none)
  | .nak seq remembered => (rNak st seq remembered, none)
  | .cumAck ack => (st.map (cumAckLink ack), none)
  | .tick => (st.map fun l => { l with window := refTick l.window }, none)
  | .linkState i usable live => (modifyAt (fun l => { l with usable := usable, live := live }) st i, none)
  | .linkReset i => (modifyAt resetLink st i, none)

/-- Run a list of events (final state only). -/
def rrun (st : RState) (evs : List REv) : RState := evs.foldl (fun s e => (rstep s e).1) st

/-- The window vector of a machine state, in the `WVec` form used above. -/
def rWv (st : RState) : WVec := st.map fun l => (l.window, l.live)

/-- The windows alone. -/
def rWindows (st : RState) : List Int := st.map (·.window)

end Srtla.Spec.ClassicRef
