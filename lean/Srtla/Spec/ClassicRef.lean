/-!
# Reference algorithm of the original `srtla_send.c` (independent transcription)

This file imports nothing and mentions no definition of the Rust model.  It is the yardstick of
property C10: plain `Int` / `Nat` / `Bool` / `List` functions with the reference's numbers written
literally (`WINDOW_MIN 1`, `WINDOW_DEF 20`, `WINDOW_MAX 60`, `WINDOW_MULT 1000`, `WINDOW_INCR 30`,
`WINDOW_DECR 100`).

```c
conn_t *select_conn() {
  conn_t *min_c = NULL;
  int max_score = -1;
  for (conn_t *c = conns; c != NULL; c = c->next) {
    if (c->last_rcvd + CONN_TIMEOUT < t) continue;          // timed-out links are skipped
    int score = c->window / (c->in_flight_pkts + 1);
    if (score > max_score) { min_c = c; max_score = score; } // strict: first maximum wins
  }
  return min_c;
}
void reg_pkt(conn_t *c, int32_t packet) { ...; c->in_flight_pkts++; }   // counted at send time
void register_nak(int32_t packet)  { ... c->window -= WINDOW_DECR;
                                     if (c->window < WINDOW_MIN*WINDOW_MULT) c->window = WINDOW_MIN*WINDOW_MULT; }
void register_srtla_ack(int32_t ack) {
  ... found on c:  c->in_flight_pkts--;
                   if (c->in_flight_pkts*WINDOW_MULT > c->window) c->window += WINDOW_INCR - 1;
  for (every conn c with c->last_rcvd != 0)                  // connected and heard from
      if (c->window < WINDOW_MAX*WINDOW_MULT) c->window += 1;
}
```
There is no time-based window recovery in the reference: the housekeeping pass only sends
keepalives and re-registers timed-out links.

Division: the score is only ever computed with a positive divisor; for a non-negative window
(the range invariant C06 keeps it in 1000..60000) C's truncating `/` and Lean's `Int` `/` agree.
-/
namespace Srtla.Spec.ClassicRef

/-- What `select_conn` reads of one link.  `inFlight` counts every packet handed to the link and
not yet acknowledged, *including* packets still waiting in a send queue (the reference has no queue:
`reg_pkt` increments `in_flight_pkts` at the moment the packet is routed). -/
structure RefLink where
  /-- the link is skipped by the selector (timed out / not usable) -/
  timedOut : Bool
  window : Int
  inFlight : Int
deriving Repr, DecidableEq

/-- `c->window / (c->in_flight_pkts + 1)`, integer division. -/
def refScore (l : RefLink) : Int := l.window / (l.inFlight + 1)

/-- The loop of `select_conn`: `i` = index of the head, `best` / `bestScore` = `min_c` / `max_score`. -/
def refGo : List RefLink → Nat → Option Nat → Int → Option Nat
  | [], _, best, _ => best
  | l :: rest, i, best, bestScore =>
    if l.timedOut then refGo rest (i + 1) best bestScore
    else if refScore l > bestScore then refGo rest (i + 1) (some i) (refScore l)
    else refGo rest (i + 1) best bestScore

/-- `select_conn`: skip timed-out links, strict `>` keeps the first maximum, initial best score
`-1` (so a link whose score is `≤ -1` is never chosen). -/
def refSelect (ls : List RefLink) : Option Nat := refGo ls 0 none (-1)

/-! ## Window rules -/

/-- Earned SRTLA ACK on the link that sent the packet: `+29` (`WINDOW_INCR - 1`) only if
`in_flight × 1000 > window` (`inFlight` = the count after the acknowledged packet was removed),
capped at 60000. -/
def refAck (w inFlight : Int) : Int :=
  if inFlight * 1000 > w then min (w + 29) 60000 else w

/-- `+1` per SRTLA-acknowledged packet on every connected link that has received anything, capped
at 60000. -/
def refGlobal (w : Int) : Int := min (w + 1) 60000

/-- `-100` per charged NAK, floored at 1000. -/
def refNak (w : Int) : Int := max (w - 100) 1000

/-- The reference applies no time-based recovery: a housekeeping tick leaves the window alone. -/
def refTick (w : Int) : Int := w

/-! ## The window vector of all links

One entry per link: `(window, live)` with `live` = connected and has received something
(`last_rcvd != 0`). -/

abbrev WVec := List (Int × Bool)

/-- Apply a window rule to entry `k` (out of range: nothing changes). -/
def applyAt (f : Int → Int) : WVec → Nat → WVec
  | [], _ => []
  | (w, live) :: rest, 0 => (f w, live) :: rest
  | p :: rest, k + 1 => p :: applyAt f rest k

/-- One SRTLA-acknowledged sequence number: the link `k` that holds it (if any; `n` = its in-flight
count after removal) earns the `+29` rule, then EVERY live link gets `+1`, whether or not anybody
held the number. -/
def refSackEvent (ws : WVec) (earned : Option (Nat × Int)) : WVec :=
  let ws1 := match earned with
    | some (k, n) => applyAt (fun w => refAck w n) ws k
    | none => ws
  ws1.map fun p => if p.2 then (refGlobal p.1, p.2) else p

/-- One NAK charged to link `k`. -/
def refNakEvent (ws : WVec) (k : Nat) : WVec := applyAt refNak ws k

end Srtla.Spec.ClassicRef
