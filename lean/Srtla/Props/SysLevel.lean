import Srtla.Lemmas.SysInvAcct
import Srtla.Lemmas.SysInvQual
import Srtla.Lemmas.SysInvStamp
import Srtla.Props.C01
import Srtla.Props.C02
import Srtla.Props.C03
import Srtla.Props.C05
import Srtla.Props.C06
import Srtla.Props.C10
import Srtla.Props.C11
/-!
# Shell-level invariants: the link invariants hold along every run of `Sys.step`

The per-connection theorems of C02 / C05 / C06 take `LogInv` and the window range as HYPOTHESES, the
selection theorems of C01 / C03 / C11 take `InDomain` as a hypothesis.  This file proves them as
INVARIANTS of the validated shell model (`Model/Sys.lean`, `Sys.step : Sys F → Ev → Sys F × Out`,
run bit-for-bit against the real event-loop arms by component `sys`) and then discharges the hypotheses:

* `SysInv s` — every link: `LogInv` (no duplicate logged numbers, every logged number above the
  cumulative-ACK high-water mark, `in_flight_packets = packet_log.len()`), window in `[1000, 60000]`,
  `in_flight ≥ 0`, and every queued sequence number is a 31-bit SRT data number.
  `SysInv_fresh` (links as built by `SrtlaConnection::new_registering`), `SysInv_step` (EVERY event
  constructor: client, uplink, flush, hk, setCfg, crit, failNext, failBind, stamp, syncTimeout, reload), `SysInv_run`;
  exported as
  `C02_inv_sys` and `C06_range_sys`.  Any `Scalar` instance — `Float` included.
* `QualInv s` — the cached quality multiplier of every link is in `[0.35, 1.1·1.03]`: `QualInv_step`,
  `QualInv_run` for the scalar code read in an ordered field under `ExpLaw e` (exact arithmetic; IEEE
  rounding / NaN are not part of these proofs — see `Props/C03.lean`), and the scalar-generic
  provenance statement `C11_quality_provenance_sys` (holds at `Float`): the cache only ever holds the
  constructor's / REG3's `1.0` or a value `calculate_quality_multiplier` returned.
* Corollaries without the domain hypothesis: `C03_in_domain_sys` (+ `_from_init`),
  `C01_no_drop_when_usable_run` (+ `_from_init`), `C03_no_blackout_run`, `C11_leave_only_if_run`,
  `C05_charge_exact_run`, `C10_windows_uplink_run`, `C10_windows_uplink_packet_run`; `Inv_init` (the
  other run invariant of the C01 theorems holds of the initial state).
* `Stamped T l` (§4) — every time stamp stored in a link is `≤ T`: `Stamped_step`, `Stamped_run`,
  `C14_stamps_le_clock_sys` (after any run every stamp is `≤` the largest clock value read so far),
  `C14_stamps_le_now_sys` (the form C14's cadence inequalities need).  Any `Scalar` instance.

How it is proved: `Lemmas/SysInv.lean` walks through `Sys.step` ONCE for an arbitrary per-link
predicate that survives a fixed list of per-link operations (`Closed`, `step_all`);
`Lemmas/SysInvAcct.lean`, `Lemmas/SysInvQual.lean`, `Lemmas/SysInvStamp.lean` show that the three
invariants survive them.
In particular the window range is preserved by `Cong.recover` / `perform_window_recovery`,
`clear_pre_registration_state` (REG3) and the reconnect / recovery resets as they occur in the shell —
the conjuncts the one-step tie `C06_ops_are_conn_ops` does not have.

The classifier / link-CC verdict stamps after housekeeping (`conn.weak`, `conn.loss_degraded`,
`conn.cc_backing_off`, `conn.cc_target_bps`) ARE an event of `Sys.step` (`Ev.stamp`, verdicts as inputs of
the event): every run-level theorem here quantifies over runs with arbitrary verdict stamps between any
two other events.  `stamp_only_touches_verdicts` (§1) is the frame of that event, field by field.

Config reload (`apply_connection_changes`, which removes and adds links) IS an event of `Sys.step` too
(`Ev.reload`): the membership-form invariants here (`SysInv`, `QualInv`, `Stamped`, built on `step_all`) cover it —
a retained link keeps its whole record, an added link is `new_registering`.  Only the statements that follow ONE
link through a run by its INDEX carry `NoReload` / `isReload = false` (see `Lemmas/ReloadBasic.lean`).
-/
set_option linter.unusedSectionVars false

namespace Srtla.Props.SysLevel
open Srtla Srtla.Gen Srtla.Conn Srtla.Select Srtla.Link Srtla.Sys Srtla.SysInv
open Srtla.Spec.ClassicRef Srtla.ClassicRef

abbrev Bytes := List UInt8

/-! ## 1. The accounting invariant (any scalar instance) -/

section generic
variable {F : Type} [Scalar F]

/-- **The shell-level accounting invariant**, with the property's literal numbers. -/
def SysInv (s : Sys F) : Prop :=
  ∀ l ∈ s.links, LogInv l.core ∧ 1000 ≤ l.core.window ∧ l.core.window ≤ 60000 ∧ 0 ≤ l.core.inFlight ∧
    ∀ it ∈ l.queue, ∀ sq, it.2.1 = some sq → sq < 2147483648

theorem sysInv_iff (s : Sys F) : SysInv s ↔ All LinkInv s.links := by
  constructor
  · intro h l hl
    obtain ⟨a, b, c, d, f⟩ := h l hl
    exact ⟨a, b, c, d, f⟩
  · intro h l hl
    obtain ⟨a, b, c, d, f⟩ := h l hl
    exact ⟨a, b, c, d, f⟩

/-- A predicate that survives the per-link operations at every clock holds along every run. -/
theorem run_all {P : FLink F → Prop} (hc : ∀ now arm classic, Closed now arm classic P) (s : Sys F)
    (evs : List Ev) (h : All P s.links) : All P (run s evs).1.links := by
  induction evs generalizing s with
  | nil => exact h
  | cons ev evs ih => exact ih _ (step_all s ev (fun _ _ => hc _ _ _) h)

/-- **Base case**: a state whose links are all freshly constructed (`SrtlaConnection::new_registering`,
the shape of the driver's / harness's initial state) — any registration state, configuration, tracker. -/
theorem SysInv_fresh (s : Sys F) (h : ∀ l ∈ s.links, ∃ id t, l = FLink.newRegistering id t) : SysInv s := by
  rw [sysInv_iff]
  intro l hl
  obtain ⟨id, t, rfl⟩ := h l hl
  exact linkInv_new id t

/-- The driver's `initSys n _ now`: `n` fresh links with conn ids `1..n`. -/
theorem SysInv_init (n now : Nat) (reg : Reg.Reg) :
    SysInv ({ links := (List.range n).map fun i => FLink.newRegistering (i + 1) now, reg := reg } : Sys F) := by
  apply SysInv_fresh
  intro l hl
  obtain ⟨i, -, rfl⟩ := List.mem_map.1 hl
  exact ⟨_, _, rfl⟩

/-- **Step case, every event constructor.** -/
theorem SysInv_step (s : Sys F) (e : Ev) (h : SysInv s) : SysInv (step s e).1 := by
  rw [sysInv_iff] at h ⊢
  exact linkInv_step s e h

/-- **Run form.** -/
theorem SysInv_run (s : Sys F) (evs : List Ev) (h : SysInv s) : SysInv (run s evs).1 := by
  rw [sysInv_iff] at h ⊢
  exact run_all linkInv_closed s evs h

/-- **The frame of a verdict stamp** (`Ev.stamp idx weak ld ccb cct`: the stamping loop of the housekeeping arm
in `src/sender/mod.rs` for the connection at index `idx`, the classifier's / controller's verdicts being
inputs of the event).  The event produces no output; it changes nothing of the shell but the link list —
registration manager, NAK-attribution ring, `last_selected`, client address flag, configuration, critical
window, all-failed stamp and both fault-injection lists are what they were —; the list keeps its length;
every link other than `idx` is untouched; and link `idx` differs from its old record in the FOUR verdict
fields only — every other field (the whole accounting core: window, packet log, in-flight, congestion
state, phase, liveness stamps; keepalive stamp; the guard's private fields; timeout copy; RTT tracker;
bitrate; reconnection state; quality cache; batch queue and regime) is equal.  An index that names no link
changes nothing at all. -/
theorem stamp_only_touches_verdicts (s : Sys F) (idx : Nat) (weak ld ccb : Bool) (cct : Nat) :
    (step s (.stamp idx weak ld ccb cct)).2.wire = [] ∧ (step s (.stamp idx weak ld ccb cct)).2.client = [] ∧
    (step s (.stamp idx weak ld ccb cct)).2.hkErr = false ∧
    (step s (.stamp idx weak ld ccb cct)).1.reg = s.reg ∧ (step s (.stamp idx weak ld ccb cct)).1.trk = s.trk ∧
    (step s (.stamp idx weak ld ccb cct)).1.lastSelected = s.lastSelected ∧
    (step s (.stamp idx weak ld ccb cct)).1.clientKnown = s.clientKnown ∧
    (step s (.stamp idx weak ld ccb cct)).1.cfg = s.cfg ∧
    (step s (.stamp idx weak ld ccb cct)).1.critDeadline = s.critDeadline ∧
    (step s (.stamp idx weak ld ccb cct)).1.allFailedAt = s.allFailedAt ∧
    (step s (.stamp idx weak ld ccb cct)).1.failNext = s.failNext ∧
    (step s (.stamp idx weak ld ccb cct)).1.failBind = s.failBind ∧
    (step s (.stamp idx weak ld ccb cct)).1.links.length = s.links.length ∧
    (s.links.length ≤ idx → (step s (.stamp idx weak ld ccb cct)).1.links = s.links) ∧
    ∀ (j : Nat) (l : FLink F), s.links[j]? = some l →
      ∃ l', (step s (.stamp idx weak ld ccb cct)).1.links[j]? = some l' ∧
        (j ≠ idx → l' = l) ∧
        (j = idx → l'.weak = weak ∧ l'.lossDegraded = ld ∧ l'.ccBackingOff = ccb ∧ l'.ccTarget = cct) ∧
        l'.core = l.core ∧ l'.lastKeepaliveSent = l.lastKeepaliveSent ∧ l'.stallGated = l.stallGated ∧
        l'.latchedSince = l.latchedSince ∧ l'.recoverySince = l.recoverySince ∧ l'.gateEvents = l.gateEvents ∧
        l'.probeCounter = l.probeCounter ∧ l'.silencePulled = l.silencePulled ∧ l'.pullMark = l.pullMark ∧
        l'.silencePulls = l.silencePulls ∧ l'.connTimeoutMs = l.connTimeoutMs ∧ l'.rtt = l.rtt ∧
        l'.bitrate = l.bitrate ∧ l'.lastAttemptMs = l.lastAttemptMs ∧ l'.failCount = l.failCount ∧
        l'.established = l.established ∧ l'.graceDeadline = l.graceDeadline ∧ l'.qualMult = l.qualMult ∧
        l'.qualAt = l.qualAt ∧ l'.queue = l.queue ∧ l'.lastFlushMs = l.lastFlushMs ∧ l'.regime = l.regime := by
  refine ⟨rfl, rfl, rfl, rfl, rfl, rfl, rfl, rfl, rfl, rfl, rfl, rfl, Hk.stampLink_length _ _ _ _ _ _, ?_, ?_⟩
  · intro hlen
    show stampLink s.links idx weak ld ccb cct = s.links
    apply List.ext_getElem?
    intro j
    rw [Hk.stampLink_get]
    cases hj : s.links[j]? with
    | none => rfl
    | some l =>
      have hlt : j < s.links.length := (List.getElem?_eq_some_iff.1 hj).1
      simp only [Option.map_some, Hk.stampOne]
      rw [if_neg (by omega)]
  · intro j l hl
    refine ⟨Hk.stampOne idx weak ld ccb cct j l, ?_, ?_⟩
    · show (stampLink s.links idx weak ld ccb cct)[j]? = _
      rw [Hk.stampLink_get, hl]; rfl
    · unfold Hk.stampOne
      split
      · rename_i hj
        exact ⟨fun h => absurd hj h, fun _ => ⟨rfl, rfl, rfl, rfl⟩, rfl, rfl, rfl, rfl, rfl, rfl, rfl, rfl, rfl,
          rfl, rfl, rfl, rfl, rfl, rfl, rfl, rfl, rfl, rfl, rfl, rfl, rfl⟩
      · rename_i hj
        exact ⟨fun _ => rfl, fun h => absurd h hj, rfl, rfl, rfl, rfl, rfl, rfl, rfl, rfl, rfl,
          rfl, rfl, rfl, rfl, rfl, rfl, rfl, rfl, rfl, rfl, rfl, rfl, rfl⟩

/-- **C02 at shell level**: along every run of the shell from an invariant state — in particular
from the initial state — every link's packet log has no duplicate sequence numbers, every logged
number is above the link's cumulative-ACK high-water mark, and `in_flight_packets` equals the number
of logged packets (so it is never negative).  `LogInv` is the hypothesis of `C02_ack_order_independent`,
`C02_inv_step`, `C05_charge_exact`, `C02_cumack_all_links`. -/
theorem C02_inv_sys (s : Sys F) (evs : List Ev) (h : SysInv s) :
    ∀ l ∈ (run s evs).1.links, LogInv l.core ∧ l.core.keys.Nodup ∧
      (∀ k ∈ l.core.keys, l.core.highestAcked < k) ∧ l.core.inFlight = l.core.keys.length ∧
      0 ≤ l.core.inFlight := by
  intro l hl
  obtain ⟨a, -, -, d, -⟩ := SysInv_run s evs h l hl
  exact ⟨a, a.nodup, a.above, a.count, d⟩

/-- **C06 at shell level**: along every run of the shell from an invariant state — in particular
from the initial state — every link's congestion window is in `[1000, 60000]`, whatever the events
(data, ACK / NAK / SRTLA-ACK fan-out, keepalives, REG3, REG_ERR, failed sends, housekeeping's
`perform_window_recovery` and reconnects, configuration changes). -/
theorem C06_range_sys (s : Sys F) (evs : List Ev) (h : SysInv s) :
    ∀ l ∈ (run s evs).1.links, 1000 ≤ l.core.window ∧ l.core.window ≤ 60000 := by
  intro l hl
  obtain ⟨-, b, c, -, -⟩ := SysInv_run s evs h l hl
  exact ⟨b, c⟩

/-- Both, from the initial state, for every event list. -/
theorem C02_C06_from_init (n now : Nat) (reg : Reg.Reg) (evs : List Ev) :
    ∀ l ∈ (run ({ links := (List.range n).map fun i => FLink.newRegistering (i + 1) now, reg := reg } : Sys F)
        evs).1.links,
      LogInv l.core ∧ 1000 ≤ l.core.window ∧ l.core.window ≤ 60000 ∧ 0 ≤ l.core.inFlight := by
  intro l hl
  obtain ⟨a, b, c, d, -⟩ := SysInv_run _ evs (SysInv_init n now reg) l hl
  exact ⟨a, b, c, d⟩

/-- The other run invariant the C01 theorems assume (`Srtla.Sys.Inv`: pairwise distinct conn ids, no
queue at 32) holds of the initial state too, hence (`Inv.run`) along every run from it. -/
theorem Inv_init (n now : Nat) (reg : Reg.Reg) :
    Inv ({ links := (List.range n).map fun i => FLink.newRegistering (i + 1) now, reg := reg } : Sys F) := by
  constructor
  · have : ids ((List.range n).map fun i => (FLink.newRegistering (i + 1) now : FLink F)) =
        (List.range n).map (· + 1) := by
      unfold ids
      rw [List.map_map]
      rfl
    show (ids ((List.range n).map fun i => (FLink.newRegistering (i + 1) now : FLink F))).Nodup
    rw [this]
    exact List.Nodup.map (fun a b h => by simpa using h) List.nodup_range
  · intro l hl
    obtain ⟨i, -, rfl⟩ := List.mem_map.1 hl
    show (0 : Nat) < 32
    decide

/-- **C05 at shell level**: in every state reached by a run from an invariant state, a NAK of a
number a link holds charges that link exactly: one loss count, the window lowered by 100 and floored
at 1000, that number removed, one in-flight slot freed (`C05_charge_exact` without its `LogInv` and
window hypotheses). -/
theorem C05_charge_exact_run (s : Sys F) (evs : List Ev) (h : SysInv s) (now : Nat) :
    ∀ l ∈ (run s evs).1.links, ∀ sq ∈ l.core.keys,
      (l.core.nak sq now).2 = true ∧
      (l.core.nak sq now).1.cong.nakCount = satAddI32 l.core.cong.nakCount 1 ∧
      (l.core.nak sq now).1.window = max (l.core.window - 100) 1000 ∧
      (l.core.nak sq now).1.window ≤ l.core.window ∧
      (l.core.nak sq now).1.keys = l.core.keys.filter (· != sq) ∧
      (l.core.nak sq now).1.inFlight = l.core.inFlight - 1 := by
  intro l hl sq hsq
  obtain ⟨a, b, -, -, -⟩ := SysInv_run s evs h l hl
  exact C05.C05_charge_exact l.core sq now hsq a b

/-- **C10's uplink window theorems along runs**: the range hypothesis of `C10_windows_uplink` /
`C10_windows_uplink_packet` holds in every reached state. -/
theorem C10_windows_uplink_run (s : Sys F) (evs : List Ev) (h : SysInv s) (idx : Nat) (inc : Incoming) (now : Nat)
    (hclassic : (run s evs).1.cfg.classic = true) :
    ∃ (es : List (Option (Nat × Int))) (ns : List Nat),
      es.length = inc.sacks.length ∧ ns.length ≤ inc.naks.length ∧
      wv (cores (processConnectionEvents (run s evs).1 idx inc now).1.links) =
        ns.foldl refNakEvent (es.foldl refSackEvent (wv (cores (run s evs).1.links))) :=
  C10.C10_windows_uplink (run s evs).1 idx inc now hclassic
    (fun l hl => (C06_range_sys s evs h l hl).2)

/-- The whole uplink arm (`C10_windows_uplink_packet`) in a reached state. -/
theorem C10_windows_uplink_packet_run (s : Sys F) (evs : List Ev) (h : SysInv s) (connId : Nat)
    (data : List UInt8) (now : Nat) (hclassic : (run s evs).1.cfg.classic = true) :
    (handleUplinkPacket (run s evs).1 connId data now).1 = (run s evs).1 ∨
    ∃ (ws0 : WVec) (es : List (Option (Nat × Int))) (ns : List Nat),
      ws0.length = (run s evs).1.links.length ∧
      (∀ (j : Nat) l, (run s evs).1.links[j]? = some l →
        ∃ p, ws0[j]? = some p ∧ (p.1 = l.core.window ∨ (p.1 = 20000 ∧ p.2 = false))) ∧
      wv (cores (handleUplinkPacket (run s evs).1 connId data now).1.links) =
        ns.foldl refNakEvent (es.foldl refSackEvent ws0) :=
  C10.C10_windows_uplink_packet (run s evs).1 connId data now hclassic
    (fun l hl => (C06_range_sys s evs h l hl).2)

/-! ### The quality cache, scalar-generic -/

/-- **Provenance of the quality cache** (any scalar instance, `Float` included): along every run from
a state in which every cached multiplier is `1.0` or a value of `calculate_quality_multiplier` — in
particular from fresh links — every cached multiplier is `1.0` (constructor, REG3) or a value
`calculate_quality_multiplier` returned for some link view at some clock.  Nothing else writes it. -/
theorem C11_quality_provenance_sys (s : Sys F) (evs : List Ev) (h : ∀ l ∈ s.links, QualSrc l.qualMult) :
    ∀ l ∈ (run s evs).1.links,
      l.qualMult = (Rtt.one : F) ∨ ∃ (c : SLink F) (t : Nat), l.qualMult = qualityMult c t :=
  run_all (P := fun l => QualSrc l.qualMult) qualSrc_closed s evs h

end generic

/-! ## 2. The quality cache in its documented range, and the corollaries that discharge `InDomain` -/

section field
variable {K : Type} [Field K] [LinearOrder K] [IsStrictOrderedRing K] [FloorRing K] (e : K → K) (ninf : K)

local notation "𝕊" => fieldScalar K e ninf

/-- Every link's cached quality multiplier is in the documented range `[0.35, 1.1 · 1.03]`. -/
def QualInv (s : Sys K) : Prop := ∀ l ∈ s.links, 0.35 ≤ l.qualMult ∧ l.qualMult ≤ 1.1 * 1.03

/-- Base case: fresh links carry `1.0`. -/
theorem QualInv_fresh (s : Sys K) (h : ∀ l ∈ s.links, ∃ id t, l = @FLink.newRegistering K 𝕊 id t) : QualInv s := by
  intro l hl
  obtain ⟨id, t, rfl⟩ := h l hl
  exact qualRange_new e ninf id t

/-- **Step case, every event constructor** (constructor value `1.0`, REG3's `clear_pre_registration_state`
→ `1.0`, the `get_cached_quality_multiplier` refresh inside the selection pass; nothing else writes it). -/
theorem QualInv_step (he : ExpLaw e) (s : Sys K) (ev : Ev) (h : QualInv s) : QualInv (@step K 𝕊 s ev).1 :=
  @step_all K 𝕊 (fun l => QualRange l.qualMult) s ev (fun _ _ => qualRange_closed e ninf he _ _ _) h

/-- **Run form.** -/
theorem QualInv_run (he : ExpLaw e) (s : Sys K) (evs : List Ev) (h : QualInv s) : QualInv (@run K 𝕊 s evs).1 :=
  @run_all K 𝕊 (fun l => QualRange l.qualMult) (qualRange_closed e ninf he) s evs h

/-- **`InDomain` is an invariant of the shell**: in every state reached from an invariant state (e.g.
the initial one) the selection view of every link is in C03's / C11's domain — window in
`[1000, 60000]`, in-flight and queued counts non-negative, cached quality multiplier in
`[0.35, 1.1·1.03]`. -/
theorem C03_in_domain_sys (he : ExpLaw e) (s : Sys K) (evs : List Ev) (h : SysInv s) (hq : QualInv s) :
    ∀ l ∈ (@run K 𝕊 s evs).1.links,
      C03.InDomain (@FLink.toSLink K 𝕊 l) ∧ C11.InDomain (@FLink.toSLink K 𝕊 l) := by
  intro l hl
  obtain ⟨-, b, c, d, -⟩ := @SysInv_run K 𝕊 s evs h l hl
  obtain ⟨q1, q2⟩ := QualInv_run e ninf he s evs hq l hl
  have hq0 : (0 : Int) ≤ ((l.queue.length : Nat) : Int) := Int.natCast_nonneg _
  exact ⟨⟨b, c, d, hq0, q1, q2⟩, ⟨b, c, d, hq0, q1, q2⟩⟩

/-- From the initial state (`n` fresh links), for every event list. -/
theorem C03_in_domain_from_init (he : ExpLaw e) (n now : Nat) (reg : Reg.Reg) (evs : List Ev) :
    ∀ l ∈ (@run K 𝕊
        { links := (List.range n).map fun i => @FLink.newRegistering K 𝕊 (i + 1) now, reg := reg } evs).1.links,
      C03.InDomain (@FLink.toSLink K 𝕊 l) ∧ C11.InDomain (@FLink.toSLink K 𝕊 l) :=
  C03_in_domain_sys e ninf he _ evs (@SysInv_init K 𝕊 n now reg)
    (QualInv_fresh e ninf _ (by
      intro l hl
      obtain ⟨i, -, rfl⟩ := List.mem_map.1 hl
      exact ⟨_, _, rfl⟩))

/-- **C03 along runs: no blackout, without a domain hypothesis.**  In every state reached from an
invariant state, for every `last`, `now` and configuration: if some link is usable w.r.t. the
configured timeout, `select_connection_idx` on the shell's links returns an index.  Runs include
arbitrary verdict stamps (`Ev.stamp`: any `weak` / `loss_degraded` / `cc_backing_off` / `cc_target_bps` on
any link, between any two other events), so the reached states range over all verdict assignments. -/
theorem C03_no_blackout_run (he : ExpLaw e) (s : Sys K) (evs : List Ev) (h : SysInv s) (hq : QualInv s)
    (last : Option Nat) (now : Nat) (cfg : Select.Cfg)
    (hu : ∃ l ∈ (@run K 𝕊 s evs).1.links, C03.UsableCfg (@FLink.toSLink K 𝕊 l) cfg now) :
    (@selectIdx K 𝕊 ((@run K 𝕊 s evs).1.links.map (@FLink.toSLink K 𝕊)) last now cfg).2 ≠ none := by
  apply C03.C03_no_blackout e ninf he
  · intro c hc
    obtain ⟨l, hl, rfl⟩ := List.mem_map.1 hc
    exact (C03_in_domain_sys e ninf he s evs h hq l hl).1
  · obtain ⟨l, hl, hu⟩ := hu
    exact ⟨_, List.mem_map.2 ⟨l, hl, rfl⟩, hu⟩

/-- **C01 along runs: no drop while a usable link exists, without a domain hypothesis.**  In every
state reached from an invariant state: registered session, some link usable w.r.t. the configured
timeout ⇒ the routing decision for a client datagram is not `none` (then
`C01_no_drop_when_selectable` says where the datagram goes).  Runs include arbitrary verdict stamps
(`Ev.stamp`) between any two other events: whatever the classifier / link-CC controller said. -/
theorem C01_no_drop_when_usable_run (he : ExpLaw e) (s : Sys K) (evs : List Ev) (h : SysInv s) (hq : QualInv s)
    (pkt : Bytes) (now : Nat)
    (hreg : (@run K 𝕊 s evs).1.reg.hasConnected = true)
    (hu : ∃ l ∈ (@run K 𝕊 s evs).1.links,
      C03.UsableCfg (@FLink.toSLink K 𝕊 l) (@run K 𝕊 s evs).1.cfg now) :
    @target K 𝕊 (@run K 𝕊 s evs).1 pkt now ≠ none :=
  C01.C01_no_drop_when_usable e ninf he _ pkt now hreg
    (fun l hl => (C03_in_domain_sys e ninf he s evs h hq l hl).1) hu

/-- The same from the initial state: after ANY events, a registered session with a usable link routes. -/
theorem C01_no_drop_when_usable_from_init (he : ExpLaw e) (n t0 : Nat) (reg : Reg.Reg) (evs : List Ev)
    (pkt : Bytes) (now : Nat)
    (hreg : (@run K 𝕊
      { links := (List.range n).map fun i => @FLink.newRegistering K 𝕊 (i + 1) t0, reg := reg } evs).1.reg.hasConnected = true)
    (hu : ∃ l ∈ (@run K 𝕊
        { links := (List.range n).map fun i => @FLink.newRegistering K 𝕊 (i + 1) t0, reg := reg } evs).1.links,
      C03.UsableCfg (@FLink.toSLink K 𝕊 l)
        (@run K 𝕊 { links := (List.range n).map fun i => @FLink.newRegistering K 𝕊 (i + 1) t0, reg := reg } evs).1.cfg
        now) :
    @target K 𝕊
      (@run K 𝕊 { links := (List.range n).map fun i => @FLink.newRegistering K 𝕊 (i + 1) t0, reg := reg } evs).1
      pkt now ≠ none :=
  C01.C01_no_drop_when_usable e ninf he _ pkt now hreg
    (fun l hl => (C03_in_domain_from_init e ninf he n t0 reg evs l hl).1) hu

/-- **C11 along runs: the scheduler leaves `last` only for a 10 % better link**, without a domain
hypothesis (`C11_leave_only_if_select` on the shell's links in a reached state).  Runs include arbitrary
verdict stamps (`Ev.stamp`) between any two other events, so the scores compared are those under ANY
weak / loss-degraded / CC-target verdicts the stamping loop may have written. -/
theorem C11_leave_only_if_run (he : ExpLaw e) (s : Sys K) (evs : List Ev) (h : SysInv s) (hq : QualInv s)
    (l : Nat) (now : Nat) (cfg : Select.Cfg) (hmode : cfg.classic = false)
    (hne : (@selectIdx K 𝕊 ((@run K 𝕊 s evs).1.links.map (@FLink.toSLink K 𝕊)) (some l) now cfg).2 ≠ some l) :
    (¬ ∃ sc, @C11.ScoredAt K 𝕊
        (applyStallGate ((@run K 𝕊 s evs).1.links.map (@FLink.toSLink K 𝕊)) now cfg) now cfg.quality l sc) ∨
    ∃ (j : Nat) (sj sl : K), j ≠ l ∧
      (@selectIdx K 𝕊 ((@run K 𝕊 s evs).1.links.map (@FLink.toSLink K 𝕊)) (some l) now cfg).2 = some j ∧
      @C11.ScoredAt K 𝕊
        (applyStallGate ((@run K 𝕊 s evs).1.links.map (@FLink.toSLink K 𝕊)) now cfg) now cfg.quality j sj ∧
      @C11.ScoredAt K 𝕊
        (applyStallGate ((@run K 𝕊 s evs).1.links.map (@FLink.toSLink K 𝕊)) now cfg) now cfg.quality l sl ∧
      1.10 * sl ≤ sj := by
  apply C11.C11_leave_only_if_select e ninf he _ l now cfg hmode _ hne
  intro c hc
  obtain ⟨x, hx, rfl⟩ := List.mem_map.1 hc
  exact (C03_in_domain_sys e ninf he s evs h hq x hx).2

end field

/-! ## 3. Non-vacuity: concrete states and runs

Fixed-point toy scalar `fixScalar` (evaluated by the kernel) for the scalar-generic part, `ℚ` with
`exp x := 1/(1-x)` (`ratScalar`) for the ordered-field part. -/

section examples

/-- Link 0: live, window 1050 (just above the floor), two logged packets 5 and 7 above the high-water
mark 4, one data packet (sequence number 9) waiting in the batch queue.  Link 1: fresh. -/
def exLink : FLink Int :=
  { (@FLink.newRegistering Int fixScalar 1 0) with
    core := { connId := 1, connected := true, phase := .live, window := 1050, inFlight := 2,
              log := [(5, 100), (7, 120)], highestAcked := 4, lastReceived := some 4990 },
    established := 1, queue := [([0, 0, 0, 9, 0, 0, 0, 0], some 9, 4000)] }

def exSys : Sys Int :=
  { links := [exLink, @FLink.newRegistering Int fixScalar 2 0],
    reg := { (Srtla.Reg.Reg.new [] []) with hasConnected := true } }

/-- SRT NAK of 5, SRTLA ACK of 7, a data packet with sequence number 9, REG3, REG_ERR. -/
def exNak5 : Bytes := [0x80, 0x03, 0, 0, 0, 0, 0, 5]
def exSack7 : Bytes := [0x91, 0x00, 0, 0, 0, 0, 0, 7]
def exData9 : Bytes := [0, 0, 0, 9, 0, 0, 0, 0, 1, 2, 3, 4, 9, 9, 9, 9, 42]
def exReg3 : Bytes := [0x92, 0x02]
def exRegErr : Bytes := [0x92, 0x10]

/-- The example state satisfies `SysInv` (hypothesis of `SysInv_step`, `SysInv_run`, `C02_inv_sys`,
`C06_range_sys`, `C05_charge_exact_run`, `C10_windows_uplink_run`, `C10_windows_uplink_packet_run`). -/
theorem exSys_inv : SysInv exSys := by
  intro l hl
  simp only [exSys, List.mem_cons, List.not_mem_nil, or_false] at hl
  rcases hl with rfl | rfl
  · refine ⟨⟨by decide, by decide, by decide⟩, by decide, by decide, by decide, ?_⟩
    intro it hit sq hsq
    simp only [exLink, List.mem_singleton] at hit
    subst hit
    cases hsq
    decide
  · exact (@SysInv_fresh Int fixScalar { exSys with links := [@FLink.newRegistering Int fixScalar 2 0] }
      (by intro l hl; exact ⟨2, 0, by simpa using hl⟩)) _ List.mem_cons_self

/-- The initial state of the driver (`n = 2`) is a fresh state. -/
example : SysInv
    ({ links := (List.range 2).map fun i => @FLink.newRegistering Int fixScalar (i + 1) 0,
       reg := Srtla.Reg.Reg.new [] [] } : Sys Int) :=
  @SysInv_init Int fixScalar 2 0 _

/-- What the links look like (window, in-flight, logged numbers, high-water mark, queue length) along a
run: a NAK of 5 takes the window from 1050 to the floor 1000 (not 950); the repeated NAK is a no-op;
the flush drains the queue and logs 9; the SRTLA ACK of 7 retires 7; housekeeping's window recovery
adds to the window; the next data packet is queued again.  Every row satisfies `C02_inv_sys` and
`C06_range_sys`. -/
example :
    ((@run Int fixScalar exSys [.uplink 5000 1 exNak5]).1.links.map fun l =>
        (l.core.window, l.core.inFlight, l.core.keys, l.core.highestAcked, l.queue.length)) =
      [(1000, 1, [7], 4, 1), (20000, 0, [], -2147483648, 0)] := by
  decide +kernel

example :
    ((@run Int fixScalar exSys [.uplink 5000 1 exNak5, .uplink 5001 1 exNak5, .flush 5010]).1.links.map fun l =>
        (l.core.window, l.core.inFlight, l.core.keys, l.core.highestAcked, l.queue.length)) =
      [(1000, 2, [7, 9], 4, 0), (20000, 0, [], -2147483648, 0)] := by
  decide +kernel

example :
    ((@run Int fixScalar exSys [.uplink 5000 1 exNak5, .uplink 5001 1 exNak5, .flush 5010, .uplink 5020 1 exSack7,
        .hk 6000, .client 6001 exData9]).1.links.map fun l =>
        (l.core.window, l.core.inFlight, l.core.keys, l.core.highestAcked, l.queue.length)) =
      [(1016, 1, [9], 4, 1), (20000, 0, [], -2147483648, 0)] := by
  decide +kernel

/-- REG3 on both links, a data packet, REG_ERR on link 0 (`mark_for_recovery`), then housekeeping 14 s
later (reconnects): windows back at 20000, logs and queues empty; the quality cache was refreshed by the
selection pass of the client event (fixed-point 1100 = 1.1) after REG3 had set it to 1.0. -/
example :
    ((@run Int fixScalar exSys [.uplink 5000 1 exReg3, .uplink 5000 2 exReg3, .client 6001 exData9,
        .uplink 6002 1 exRegErr, .hk 20000]).1.links.map fun l =>
        (l.core.window, l.core.inFlight, l.core.keys, l.queue.length, l.qualMult)) =
      [(20000, 0, [], 0, 1100), (20000, 0, [], 0, 1100)] := by
  decide +kernel

/-- Instances of the run theorems on that run. -/
example : ∀ l ∈ (@run Int fixScalar exSys [.uplink 5000 1 exNak5, .uplink 5001 1 exNak5, .flush 5010,
      .uplink 5020 1 exSack7, .hk 6000, .client 6001 exData9]).1.links,
    1000 ≤ l.core.window ∧ l.core.window ≤ 60000 :=
  @C06_range_sys Int fixScalar exSys _ exSys_inv

example : ∀ l ∈ (@run Int fixScalar exSys [.uplink 5000 1 exNak5, .uplink 5001 1 exNak5, .flush 5010,
      .uplink 5020 1 exSack7, .hk 6000, .client 6001 exData9]).1.links,
    LogInv l.core ∧ l.core.keys.Nodup ∧ (∀ k ∈ l.core.keys, l.core.highestAcked < k) ∧
      l.core.inFlight = l.core.keys.length ∧ 0 ≤ l.core.inFlight :=
  @C02_inv_sys Int fixScalar exSys _ exSys_inv

/-- `C05_charge_exact_run`'s hypotheses are met non-trivially: link 0 holds 5. -/
example : exLink ∈ (@run Int fixScalar exSys []).1.links ∧ (5 : Int) ∈ exLink.core.keys :=
  ⟨List.mem_cons_self, by decide⟩

/-- `C10_windows_uplink_run` needs classic mode in the reached state: reachable by a `setCfg` event. -/
example : (@run Int fixScalar exSys [.setCfg { classic := true }]).1.cfg.classic = true := rfl

/-- The provenance hypothesis holds of fresh links (and of `exSys`: both carry `Rtt.one`). -/
example : ∀ l ∈ exSys.links, @QualSrc Int fixScalar l.qualMult := by
  intro l hl
  simp only [exSys, List.mem_cons, List.not_mem_nil, or_false] at hl
  rcases hl with rfl | rfl <;> exact .inl rfl

/-- Over `ℚ`: the same two links.  Link 0 is usable at `now = 5000` (heard at 4990, 5 s timeout). -/
noncomputable def exLinkQ : FLink ℚ :=
  { (@FLink.newRegistering ℚ ratScalar 1 0) with
    core := { connId := 1, connected := true, phase := .live, window := 1050, inFlight := 2,
              log := [(5, 100), (7, 120)], highestAcked := 4, lastReceived := some 4990 },
    established := 1, queue := [([0, 0, 0, 9, 0, 0, 0, 0], some 9, 4000)] }

noncomputable def exSysQ : Sys ℚ :=
  { links := [exLinkQ, @FLink.newRegistering ℚ ratScalar 2 0],
    reg := { (Srtla.Reg.Reg.new [] []) with hasConnected := true } }

theorem exSysQ_inv : SysInv exSysQ := by
  intro l hl
  simp only [exSysQ, List.mem_cons, List.not_mem_nil, or_false] at hl
  rcases hl with rfl | rfl
  · refine ⟨⟨by decide, by decide, by decide⟩, by decide, by decide, by decide, ?_⟩
    intro it hit sq hsq
    simp only [exLinkQ, List.mem_singleton] at hit
    subst hit
    cases hsq
    decide
  · exact (@SysInv_fresh ℚ ratScalar { exSysQ with links := [@FLink.newRegistering ℚ ratScalar 2 0] }
      (by intro l hl; exact ⟨2, 0, by simpa using hl⟩)) _ List.mem_cons_self

theorem exSysQ_qual : QualInv exSysQ := by
  intro l hl
  simp only [exSysQ, List.mem_cons, List.not_mem_nil, or_false] at hl
  rcases hl with rfl | rfl
  · exact qualRange_new _ _ 1 0
  · exact qualRange_new _ _ 2 0

/-- Instances of the corollaries: after ANY events, the domain holds; and on the spot (`evs = []`) the
usability hypotheses of `C01_no_drop_when_usable_run` / `C03_no_blackout_run` are met by link 0. -/
example (evs : List Ev) : ∀ l ∈ (@run ℚ ratScalar exSysQ evs).1.links,
    C03.InDomain (@FLink.toSLink ℚ ratScalar l) ∧ C11.InDomain (@FLink.toSLink ℚ ratScalar l) :=
  C03_in_domain_sys _ _ expLaw_rat exSysQ evs exSysQ_inv exSysQ_qual

example : @target ℚ ratScalar (@run ℚ ratScalar exSysQ []).1 exData9 5000 ≠ none := by
  apply C01_no_drop_when_usable_run _ _ expLaw_rat exSysQ [] exSysQ_inv exSysQ_qual exData9 5000 rfl
  refine ⟨exLinkQ, by simp [Srtla.Sys.run, exSysQ], ?_⟩
  unfold C03.UsableCfg C03.Usable
  decide

example : (@selectIdx ℚ ratScalar ((@run ℚ ratScalar exSysQ []).1.links.map (@FLink.toSLink ℚ ratScalar))
    (some 1) 5000 {}).2 ≠ none := by
  apply C03_no_blackout_run _ _ expLaw_rat exSysQ [] exSysQ_inv exSysQ_qual
  refine ⟨exLinkQ, by simp [Srtla.Sys.run, exSysQ], ?_⟩
  unfold C03.UsableCfg C03.Usable
  decide

/-- … and with verdict stamps in the run: link 0 stamped weak, loss-degraded, backing off with a 1 bit/s
CC target, link 1 stamped weak too — the usable link 0 is still there (its accounting core is untouched,
`stamp_only_touches_verdicts`), so `C03_no_blackout_run` still yields an index. -/
example : (@selectIdx ℚ ratScalar ((@run ℚ ratScalar exSysQ
      [.stamp 0 true true true 1, .stamp 1 true false false 0]).1.links.map (@FLink.toSLink ℚ ratScalar))
    (some 1) 5000 {}).2 ≠ none := by
  apply C03_no_blackout_run _ _ expLaw_rat exSysQ _ exSysQ_inv exSysQ_qual
  refine ⟨{ exLinkQ with weak := true, lossDegraded := true, ccBackingOff := true, ccTarget := 1 }, ?_, ?_⟩
  · simp [Srtla.Sys.run, Srtla.Sys.step, stampLink, exSysQ]
  · unfold C03.UsableCfg C03.Usable
    decide

/-- The frame of a verdict stamp on the toy state: the four verdict fields of link 0 are written (a second
stamp names a link that does not exist: nothing happens); windows, in-flight counts, logs and queues of both
links are what they were; no output. -/
example :
    ((@run Int fixScalar exSys [.stamp 0 true true true 100000, .stamp 5 true false true 7]).1.links.map fun l =>
      (l.weak, l.lossDegraded, l.ccBackingOff, l.ccTarget)) =
      [(true, true, true, 100000), (false, false, false, 0)] ∧
    ((@run Int fixScalar exSys [.stamp 0 true true true 100000, .stamp 5 true false true 7]).1.links.map fun l =>
      (l.core.window, l.core.inFlight, l.core.keys, l.queue.length)) = [(1050, 2, [5, 7], 1), (20000, 0, [], 0)] ∧
    ((@run Int fixScalar exSys [.stamp 0 true true true 100000, .stamp 5 true false true 7]).2.all fun o =>
      o.wire.isEmpty && o.client.isEmpty && !o.hkErr) = true :=
  ⟨by decide +kernel, by decide +kernel, by decide +kernel⟩

/-- `stamp_only_touches_verdicts` instantiated: link 0 of `exSys` after a stamp has the stamped verdicts and
its old accounting core and batch queue; link 1 is the very same record. -/
example :
    (∃ l', (@step Int fixScalar exSys (.stamp 0 true false true 250000)).1.links[0]? = some l' ∧
      l'.weak = true ∧ l'.ccTarget = 250000 ∧ l'.core = exLink.core ∧ l'.queue = exLink.queue) ∧
    (@step Int fixScalar exSys (.stamp 0 true false true 250000)).1.links[1]? =
      some (@FLink.newRegistering Int fixScalar 2 0) := by
  have h := (@stamp_only_touches_verdicts Int fixScalar exSys 0 true false true 250000).2.2.2.2.2.2.2.2.2.2.2.2.2.2
  obtain ⟨l0, h0, -, hv, hcore, hrest⟩ := h 0 exLink rfl
  obtain ⟨l1, h1, hsame, -⟩ := h 1 (@FLink.newRegistering Int fixScalar 2 0) rfl
  refine ⟨⟨l0, h0, (hv rfl).1, (hv rfl).2.2.2, hcore, ?_⟩, by rw [h1, hsame (by decide)]⟩
  exact hrest.2.2.2.2.2.2.2.2.2.2.2.2.2.2.2.2.2.2.1

end examples

/-! ## 4. Stamps never run ahead of the clock (any scalar instance)

`Stamped T l` (Lemmas/SysInvStamp.lean): EVERY time stamp stored in link `l` is `≤ T` — `last_sent`,
`last_received`, `last_ack_or_rtt_sample_ms`, `last_rtt_measurement_ms` (connection and tracker),
`last_keepalive_sent`, the tracker's `last_keepalive_sent_ms`, `last_attempt_ms`, the first-establishment
stamp, the batch `last_flush_time`, `last_quality_calc_ms`, the guard's latch / dwell stamps and
heard-mark, the four congestion-control times, the Warming entry time, the bitrate window start, the send
times in the packet log and the queue times in the batch queue.

Needed wherever the model subtracts a stamp from the clock with truncated `Nat` subtraction
(`saturating_sub` in Rust): under these invariants `now - stamp` is the true age.  (C14's cadence
inequalities are the first user; see AUDIT_TODO C14.) -/

section stamps
variable {F : Type} [Scalar F]

/-- The largest clock value read so far: `T0` before the run, then the maximum with the clock of every
event (`evNow`; the clock-less configuration events count as 0).  Under a monotone clock this is the
clock of the latest clocked event (or `T0`). -/
def clockMax (T0 : Nat) (evs : List Ev) : Nat := evs.foldl (fun T e => max T (evNow e)) T0

/-- `run` is the left fold of `step` (bridge to `KaTrace.runEvs`, which is this fold by definition). -/
theorem run_eq_foldl (s : Sys F) (evs : List Ev) : (run s evs).1 = evs.foldl (fun s e => (step s e).1) s := by
  induction evs generalizing s with
  | nil => rfl
  | cons e evs ih => exact ih _

/-- **Step case**: an event whose clock is `≤ T` keeps every stamp of every link `≤ T`. -/
theorem Stamped_step (T : Nat) (s : Sys F) (e : Ev) (hT : evNow e ≤ T) (h : ∀ l ∈ s.links, Stamped T l) :
    ∀ l ∈ (step s e).1.links, Stamped T l :=
  stamped_step T s e hT h

/-- **Run form, bounded clock**: if every event of the run read a clock `≤ T`, every stamp stays `≤ T`. -/
theorem Stamped_run (T : Nat) (s : Sys F) (evs : List Ev) (hT : ∀ e ∈ evs, evNow e ≤ T)
    (h : ∀ l ∈ s.links, Stamped T l) : ∀ l ∈ (run s evs).1.links, Stamped T l := by
  induction evs generalizing s with
  | nil => exact h
  | cons e evs ih =>
    exact ih _ (fun x hx => hT x (List.mem_cons_of_mem _ hx))
      (stamped_step T s e (hT e List.mem_cons_self) h)

/-- **Run form, no hypothesis on the clock at all**: after any run, every stamp is `≤` the largest clock
value read so far. -/
theorem C14_stamps_le_clock_sys (T0 : Nat) (s : Sys F) (evs : List Ev) (h : ∀ l ∈ s.links, Stamped T0 l) :
    ∀ l ∈ (run s evs).1.links, Stamped (clockMax T0 evs) l := by
  induction evs generalizing s T0 with
  | nil => exact h
  | cons e evs ih =>
    have h1 : ∀ l ∈ s.links, Stamped (max T0 (evNow e)) l := fun l hl => (h l hl).mono (Nat.le_max_left _ _)
    exact ih (max T0 (evNow e)) _ (stamped_step _ s e (Nat.le_max_right _ _) h1)

/-- Base case: links constructed at a clock `≤ T0` (`SrtlaConnection::new_registering`). -/
theorem Stamped_fresh (T0 : Nat) (s : Sys F) (h : ∀ l ∈ s.links, ∃ id t, t ≤ T0 ∧ l = FLink.newRegistering id t) :
    ∀ l ∈ s.links, Stamped T0 l := by
  intro l hl
  obtain ⟨id, t, ht, rfl⟩ := h l hl
  exact stamped_new id t T0 ht

/-- **The form C14 needs (monotone clock).**  Start-up state built at clock `t0`; a run whose events all
read clocks `≤ now` (under a monotone clock: the run up to, and excluding, an event that reads `now`).
Then in the reached state no stamp is ahead of `now`; in particular the cadence clock
`last_keepalive_sent = Some(k)` has `k ≤ now`, so `now - k` in `needs_keepalive` is the true age, and
likewise for the liveness / proof / probe / reconnect stamps. -/
theorem C14_stamps_le_now_sys (n t0 now : Nat) (reg : Reg.Reg) (evs : List Ev) (h0 : t0 ≤ now)
    (hT : ∀ e ∈ evs, evNow e ≤ now) :
    ∀ l ∈ (run ({ links := (List.range n).map fun i => FLink.newRegistering (i + 1) t0, reg := reg } : Sys F)
        evs).1.links,
      (∀ k, l.lastKeepaliveSent = some k → k ≤ now) ∧ (∀ k, l.core.lastSent = some k → k ≤ now) ∧
      (∀ k, l.core.lastReceived = some k → k ≤ now) ∧ l.core.proofMs ≤ now ∧
      l.rtt.lastKeepaliveSentMs ≤ now ∧ l.rtt.lastRttMeasMs ≤ now ∧ l.core.lastRttMeasMs ≤ now ∧
      l.lastAttemptMs ≤ now ∧ l.established ≤ now ∧ l.lastFlushMs ≤ now ∧ l.qualAt ≤ now ∧
      l.latchedSince ≤ now ∧ l.recoverySince ≤ now ∧ l.core.cong.lastNakMs ≤ now ∧
      (∀ it ∈ l.core.log, it.2 ≤ now) ∧ (∀ it ∈ l.queue, it.2.2 ≤ now) := by
  intro l hl
  have := Stamped_run now _ evs hT (Stamped_fresh now _ (by
    intro x hx
    obtain ⟨i, -, rfl⟩ := List.mem_map.1 hx
    exact ⟨_, _, h0, rfl⟩)) l hl
  exact ⟨this.lastKeepaliveSent, this.lastSent, this.lastReceived, this.proofMs, this.kaSentMs, this.rttMeasT,
    this.rttMeas, this.lastAttempt, this.established, this.flush, this.qualAt, this.latched, this.recovery,
    this.cong.lastNak, this.log, this.queue⟩

/-- Non-vacuity: the example state of §3 is `Stamped 5000` (stamps 100, 120, 4000, 4990), … -/
theorem exSys_stamped : ∀ l ∈ exSys.links, Stamped 5000 l := by
  intro l hl
  simp only [exSys, List.mem_cons, List.not_mem_nil, or_false] at hl
  rcases hl with rfl | rfl
  · exact
      { lastSent := OLe_none _
        lastReceived := (OLe_some 4990 5000).2 (by decide)
        proofMs := by decide
        rttMeas := by decide
        log := by decide
        cong := ⟨by decide, by decide, by decide, by decide⟩
        warming := fun p e h => by
          have h' : Phase.live = Phase.warming p e := h
          cases h'
        lastKeepaliveSent := OLe_none _
        kaSentMs := by decide
        rttMeasT := by decide
        lastAttempt := by decide
        established := by decide
        flush := by decide
        qualAt := by decide
        latched := by decide
        recovery := by decide
        pullMark := OLe_none _
        bitrateT := by decide
        queue := fun it hit => by
          simp only [exLink, List.mem_singleton] at hit
          subst hit
          decide }
  · exact @stamped_new Int fixScalar 2 0 5000 (by decide)

/-- … and along a run with clocks up to 6001 the stamps are what the theorem says (≤ 6001): the keepalive
cadence clock and the liveness stamps of link 0 after NAK (5000), flush (5010), SRTLA ACK (5020),
housekeeping (6000), data (6001). -/
example :
    clockMax 5000 [.uplink 5000 1 exNak5, .flush 5010, .uplink 5020 1 exSack7, .hk 6000, .client 6001 exData9] = 6001 ∧
    ((@run Int fixScalar exSys [.uplink 5000 1 exNak5, .flush 5010, .uplink 5020 1 exSack7, .hk 6000,
        .client 6001 exData9]).1.links.map fun l =>
        (l.lastKeepaliveSent, l.core.lastReceived, l.core.lastSent, l.core.proofMs, l.lastFlushMs,
         l.core.cong.lastNakMs)) =
      [(some 6000, some 5020, some 6000, 5020, 5010, 5000), (none, none, some 6000, 0, 0, 0)] := by
  decide +kernel

example : ∀ l ∈ (@run Int fixScalar exSys [.uplink 5000 1 exNak5, .flush 5010, .uplink 5020 1 exSack7, .hk 6000,
      .client 6001 exData9]).1.links, Stamped 6001 l :=
  @C14_stamps_le_clock_sys Int fixScalar 5000 exSys _ exSys_stamped

end stamps

end Srtla.Props.SysLevel
