import Srtla.Model.Hub
namespace Srtla.Props.C20
open Srtla.Hub

theorem C20_placeholder : (1 : Nat) = 1 := rfl

end Srtla.Props.C20
