import Srtla.Model.Hub
import Srtla.Lemmas.Hub
/-!
# C20 — telemetry subscriptions never block the data plane and stay ordered

Property theorems only.  All of them are about the small-step interleaving semantics
`Srtla.Hub.step : Sys → TaskId → Option Sys` and hold in every state reachable from a fresh hub under
EVERY schedule (`List TaskId`, any length), for any number of tasks, arbitrary programs per task and
arbitrary channel capacities (`Reachable s := ∃ caps progs sched, s = exec (init caps progs) sched`).

Modelled, not verified: the tokio `Mutex` (mutual exclusion; arbitrary grant order) and `mpsc`
(`try_send` / `try_recv` / receiver drop).  Ghost history variables: the lock-order publish log
`Sys.log`, per-channel `sent` (everything ever enqueued) and `got` (everything the receiver took out),
`Msg.seq` (log index of the originating publish), `Sys.issued`, `Sys.unsubAt`.
-/
namespace Srtla.Props.C20
open Srtla.Hub

/-- All invariants hold in every reachable state. -/
theorem reachable_inv {s : Sys} (h : Reachable s) :
    LockInv s ∧ IdInv s ∧ IssuedInv s ∧ MsgInv s ∧ UnsubInv s ∧ PruneInv s := by
  refine reach_induct
    (P := fun s => LockInv s ∧ IdInv s ∧ IssuedInv s ∧ MsgInv s ∧ UnsubInv s ∧ PruneInv s) ?_ ?_ s h
  · intro caps progs
    exact ⟨lockInv_init _ _, idInv_init _ _, issuedInv_init _ _, msgInv_init _ _, unsubInv_init _ _,
      pruneInv_init _ _⟩
  · rintro s t s' ⟨h1, h2, h3, h4, h5, h6⟩ hst
    exact ⟨lockInv_step h1 hst, idInv_step h2 hst, issuedInv_step h3 hst, msgInv_step h1 h2 h3 h4 hst,
      unsubInv_step h2 h4 h5 hst, pruneInv_step h1 h2 h6 hst⟩

/-! ## Publishing never waits on a subscriber -/

/-- (a) No step of any hub call has a guard on channel state: whether task `t` can move is the same
in `s` and in `s` with ALL channels replaced by arbitrary other ones (full, closed, anything). -/
theorem C20_publish_never_waits_on_subscriber_guard (s : Sys) (t : Nat) (chans' : Nat → Chan) :
    (step s t).isSome = (step { s with hub := { s.hub with chans := chans' } } t).isSome :=
  step_enabled_indep_of_chans s t chans'

/-- (b) The only thing a task ever waits for is the mutex: a task that cannot move has either finished
its program or is outside a critical section while somebody holds the mutex.

What this does and does not say about a WAITING publisher: its wait is never on a subscriber — no
subscriber-side state (full / closed / slow channel) appears in the guard, (a) — but it IS a wait on
the current holder's section and, in the real runtime, on task scheduling and on tokio's FIFO hand-off
of the mutex (the model grants the lock to ANY waiter, an over-approximation).  How long that is, is
bounded by (c) in the holder's OWN turns only; wall-clock time of those turns is scheduling, outside
the model. -/
theorem C20_publish_never_waits_on_subscriber_only_mutex (s : Sys) (t : Nat) (h : step s t = none) :
    ((s.tasks t).pc = .idle ∧ (s.tasks t).prog = []) ∨
    (s.lock.isSome = true ∧ (s.tasks t).pc.holds = false) := by
  rcases (step_none_iff s t).mp h with h | ⟨h1, h2, _⟩
  · exact Or.inl h
  · exact Or.inr ⟨h1, h2⟩

/-- (c) The holder of the mutex can always move, its critical section has at most `|entries| + 1`
steps (`publish`'s loop: one per entry, plus the release; every other section: at most 2), and no
other task — in particular no subscriber — can lengthen it: in ANY schedule that gives the holder
`csRemaining` turns, the mutex has been released after at most that many of the holder's own turns.

OBSERVATION (not a violation of the property sentence): the bound is LINEAR IN THE TABLE SIZE
`|entries|`, and the table size is controlled by control clients — nothing in `src/subscriptions.rs` /
`src/control_socket.rs` caps the number of subscriptions per connection or in total, and the real loop
builds and serialises the JSON envelope (`json!` + `serde_json::to_string`, including a clone of the
event payload) once per matching entry BEFORE `try_send`.  So "never waits on a subscriber, however
slow, full or disconnected" holds, while the length of one `publish` — hence of the housekeeping pass
that publishes statistics — grows with the number of live subscriptions a client chose to create. -/
theorem C20_publish_never_waits_on_subscriber {s : Sys} (hr : Reachable s) {t : Nat}
    (hlock : s.lock = some t) :
    (∃ s', step s t = some s') ∧
    csRemaining s t ≤ s.hub.entries.length + 2 ∧
    (∀ topic p seq i prune must, (s.tasks t).pc = .pubIter topic p seq i prune must →
      csRemaining s t ≤ s.hub.entries.length + 1) ∧
    ∀ sched : List Nat, csRemaining s t ≤ sched.count t →
      ∃ pre suf, sched = pre ++ suf ∧ (exec s pre).lock ≠ some t ∧ pre.count t ≤ csRemaining s t := by
  have hl := (reachable_inv hr).1
  refine ⟨holder_enabled hl hlock, ?_, ?_, fun sched hc => cs_bounded sched hl hlock hc⟩
  · unfold csRemaining; split <;> omega
  · intro topic p seq i prune must hpc
    unfold csRemaining; rw [hpc]; (try simp) <;> omega

/-- The second section of `publish` (taken only when some channel was closed) is `lock; retain; unlock`. -/
example (s : Sys) (t : Nat) (prune must : List Nat) (h : (s.tasks t).pc = .pubPruneLocked prune must) :
    csRemaining s t = 2 := by unfold csRemaining; rw [h]

/-! ## Ids -/

/-- Ids in the table are pairwise distinct; every id ever handed out by `fetch_add` was handed out
exactly once (`issued` lists `0 .. nextId-1` in order, so two `subscribe` calls never get the same
id); each table entry is the record issued under its id (topic and channel of an id never change). -/
theorem C20_ids_unique {s : Sys} (hr : Reachable s) :
    (s.hub.entries.map (·.id)).Nodup ∧
    (s.issued.map (·.id)).Nodup ∧
    s.issued.map (·.id) = List.range s.hub.nextId ∧
    (∀ e ∈ s.hub.entries, e ∈ s.issued) ∧
    (∀ a ∈ s.issued, ∀ b ∈ s.issued, a.id = b.id → a = b) := by
  obtain ⟨_, hid, his, _, _, _⟩ := reachable_inv hr
  have hnd : (s.issued.map (·.id)).Nodup := by rw [his.1]; exact List.nodup_range
  exact ⟨hid.1, hnd, his.1, his.2.1, fun a ha b hb hab => entry_eq_of_id hnd ha hb hab⟩

/-! ## What a subscriber receives -/

/-- Every message a receiver has taken out (`got`) or that is still queued for it carries an id that
was issued, for exactly the topic that id subscribed to, on exactly the channel that id subscribed
with, and it is the `(topic, payload)` of an entry of the publish log (nothing is invented). -/
theorem C20_topic_only {s : Sys} (hr : Reachable s) (c : Nat) (m : Msg)
    (hm : m ∈ (s.hub.chans c).got ∨ m ∈ (s.hub.chans c).queue) :
    (∃ e ∈ s.issued, e.id = m.sub ∧ e.topic = m.topic ∧ e.chan = c) ∧
    s.log[m.seq]? = some (m.topic, m.payload) := by
  obtain ⟨_, _, _, hmi, _, _⟩ := reachable_inv hr
  have hs : m ∈ (s.hub.chans c).sent := by
    rcases hm with h | h
    · exact (got_sublist_sent hmi c).subset h
    · exact queue_subset_sent hmi c m h
  exact hmi.2.1 c m hs

/-- A subscription never sees an event on a channel other than its own, nor of another topic. -/
theorem C20_topic_only_entry {s : Sys} (hr : Reachable s) (c : Nat) (m : Msg)
    (hm : m ∈ (s.hub.chans c).got) (e : Entry) (he : e ∈ s.issued) (hid : e.id = m.sub) :
    m.topic = e.topic ∧ c = e.chan := by
  obtain ⟨⟨e', he', h1, h2, h3⟩, _⟩ := C20_topic_only hr c m (Or.inl hm)
  have := (C20_ids_unique hr).2.2.2.2 e he e' he' (hid.trans h1.symm)
  subst this
  exact ⟨h2.symm, h3.symm⟩

/-- **Order, at most once.**  For every subscription id `k` (issued record `e`), the sequence of
events its connection has received under that id, oldest first, is a subsequence (`List.Sublist`:
order kept, every log entry used at most once) of the lock-order publish log restricted to the
subscription's topic. Its log positions are strictly increasing. -/
theorem C20_order_at_most_once {s : Sys} (hr : Reachable s) (e : Entry) (he : e ∈ s.issued) :
    let recvd := (s.hub.chans e.chan).got.filter (fun m => m.sub = e.id)
    recvd.Pairwise (fun a b => a.seq < b.seq) ∧
    (recvd.map (fun m => (m.topic, m.payload))).Sublist (s.log.filter (fun x => x.1 = e.topic)) := by
  intro recvd
  obtain ⟨_, _, _, hmi, _, _⟩ := reachable_inv hr
  have hsub : recvd.Sublist (s.hub.chans e.chan).sent :=
    List.Sublist.trans List.filter_sublist (got_sublist_sent hmi e.chan)
  have hpw : recvd.Pairwise (fun a b => a.seq < b.seq) := by
    have h0 : recvd.Pairwise (fun a b => a.sub = b.sub → a.seq < b.seq) := (hmi.2.2.1 e.chan).sublist hsub
    refine List.Pairwise.imp_of_mem ?_ h0
    intro a b ha hb hab
    have ha' : a.sub = e.id := by simpa using (List.mem_filter.mp ha).2
    have hb' : b.sub = e.id := by simpa using (List.mem_filter.mp hb).2
    exact hab (ha'.trans hb'.symm)
  refine ⟨hpw, ?_⟩
  have hall : ∀ m ∈ recvd, m.topic = e.topic ∧ s.log[m.seq]? = some (m.topic, m.payload) := by
    intro m hm
    have hg : m ∈ (s.hub.chans e.chan).got := (List.mem_filter.mp hm).1
    have hk : m.sub = e.id := by simpa using (List.mem_filter.mp hm).2
    exact ⟨(C20_topic_only_entry hr e.chan m hg e he hk.symm).1, (C20_topic_only hr e.chan m (Or.inl hg)).2⟩
  have h1 : (recvd.map (fun m => (m.topic, m.payload))).Sublist s.log :=
    sublist_of_increasing _ s.log 0 recvd (fun m hm => ⟨Nat.zero_le _, by simpa using (hall m hm).2⟩) hpw
  have h2 := h1.filter (fun x => decide (x.1 = e.topic))
  rw [List.filter_eq_self.mpr] at h2
  · exact h2
  · intro x hx
    obtain ⟨m, hm, rfl⟩ := List.mem_map.mp hx
    simpa using (hall m hm).1

/-! ## Nothing after unsubscribe -/

/-- `s.unsubAt` holds `(k, n)` for every completed `unsubscribe(k)` that returned `true`, with `n` the
length of the publish log at the moment it released the mutex; so publishes that take the mutex
after that release have log positions `≥ n`.  In every later state: `k` is not in the table, no
`subscribe` in flight can put it back, and NO message tagged `k` with log position `≥ n` was ever
enqueued to any channel (`sent` is the complete enqueue history, so also none is queued or received).
Events enqueued before the release may still be sitting in the channel and be read afterwards. -/
theorem C20_nothing_after_unsubscribe {s : Sys} (hr : Reachable s) (k n : Nat)
    (h : (k, n) ∈ s.unsubAt) :
    (∀ e ∈ s.hub.entries, e.id ≠ k) ∧
    (∀ t, (s.tasks t).pc.pendingId ≠ some k) ∧
    (∀ c m, m ∈ (s.hub.chans c).sent → m.sub = k → m.seq < n) ∧
    (∀ c m, m ∈ (s.hub.chans c).got ∨ m ∈ (s.hub.chans c).queue → m.sub = k → m.seq < n) := by
  obtain ⟨_, _, _, hmi, hu, _⟩ := reachable_inv hr
  obtain ⟨hd, _, hmsg⟩ := hu.2 k n h
  refine ⟨hd.2, hd.1.2, hmsg, ?_⟩
  intro c m hm
  apply hmsg c m
  rcases hm with h | h
  · exact (got_sublist_sent hmi c).subset h
  · exact queue_subset_sent hmi c m h

/-- The record is really written: the release step of an `unsubscribe(k)` that found `k` appends
`(k, log.length)`. -/
example (s : Sys) (t k : Nat) (h : (s.tasks t).pc = .unsubDone k true) :
    ∃ s', step s t = some s' ∧ s'.unsubAt = s.unsubAt ++ [(k, s.log.length)] ∧ s'.lock = none := by
  refine ⟨_, by unfold step; rw [h], ?_, ?_⟩ <;> simp

/-! ## Closed subscribers are pruned -/

/-- What a publish is obliged to remove (ghost `must`, fixed when it first takes the mutex): the ids
of exactly those table entries of its topic whose receiver is already gone at that moment. -/
theorem C20_pruned_obligation (s : Sys) (t : Nat) (topic : Topic) (p : Nat) (rest : List Op)
    (hpc : (s.tasks t).pc = .idle) (hprog : (s.tasks t).prog = .pub topic p :: rest)
    (hfree : s.lock = none) :
    ∃ s', step s t = some s' ∧
      (s'.tasks t).pc = .pubIter topic p s.hub.pubs 0 [] (mustOf s.hub topic) ∧
      ∀ k, k ∈ mustOf s.hub topic ↔
        ∃ e ∈ s.hub.entries, (e.topic = topic ∧ (s.hub.chans e.chan).closed = true) ∧ e.id = k := by
  have hst : step s t = some { s.setPc t (.pubIter topic p s.hub.pubs 0 [] (mustOf s.hub topic)) with
      lock := some t
      hub := { s.hub with pubs := s.hub.pubs + 1 }
      log := s.log ++ [(topic, p)] } := by
    unfold step; rw [hpc, hprog]; simp [hfree]
  exact ⟨_, hst, by simp [Sys.setPc], fun k => mem_mustOf⟩

/-- **Pruned.**  Once a `publish` has returned (its result `published must` is in the task's output),
every id in its obligation list — every subscriber of its topic whose receiver was closed when the
publish took the mutex — is absent from the table, and stays absent in every later state (no
`subscribe` in flight holds that id, and ids are never reissued). -/
theorem C20_pruned {s : Sys} (hr : Reachable s) (t : Nat) (must : List Nat)
    (h : Obs.published must ∈ (s.tasks t).out) :
    ∀ k ∈ must, (∀ e ∈ s.hub.entries, e.id ≠ k) ∧ (∀ t', (s.tasks t').pc.pendingId ≠ some k) ∧
      k < s.hub.nextId := by
  obtain ⟨_, _, _, _, _, hp⟩ := reachable_inv hr
  intro k hk
  have hd := hp.2.2.2 t must h k hk
  exact ⟨hd.2, hd.1.2, hd.1.1⟩

/-- Closed is closed, whatever is still queued: a subscriber that closed its receiver with `Receiver::close()`
while its bounded queue was EXACTLY FULL (capacity 1, one unread event - `Op.shut`, the backlog is kept, no free
permit) is pruned by the next publish on its topic all the same: `try_send` reports `Closed` before it looks for a
free slot.  `C20_pruned` covers this state like any other (`Reachable` includes `shut` steps); this is the concrete
instance (a capacity pre-check in front of `try_send` would skip exactly this subscriber for ever). -/
example :
    let h0 : Hub := emptyHub fun _ => 1
    let h1 := (apply h0 (.sub "stats" 0)).1
    let h2 := (apply h1 (.pub "stats" 7)).1     -- fills the one slot
    let h3 := (apply h2 (.shut 0)).1            -- receiver closed, backlog kept
    ((h3.chans 0).queue.length = 1 ∧ (h3.chans 0).cap = 1 ∧ (h3.chans 0).closed = true ∧ h3.entries.length = 1) ∧
      (apply h3 (.pub "stats" 8)).2 = .published [0] ∧ (apply h3 (.pub "stats" 8)).1.entries = [] := by
  decide

/-- Audit 5, E1 (repaired): `Receiver::close()` loses no message - after `Op.shut` a `recv` still hands out the
backlog, oldest first, and answers `rxGone` only once it is drained (tokio: `try_recv` pops every buffered value after
`close()`, then reports `Disconnected`).  The model's `recv` is "closed AND drained ⇒ gone, else pop" - for a DROPPED
receiver (`Op.close`) the queue is empty, so nothing changes there.  The invariants were proved over this step without
change (`MsgInv`: on a closed channel `got ++ queue` stays a prefix of `sent` while the backlog moves from `queue` to
`got`), so "only events of its topic, in publication order, each at most once, own id" (`C20_order_at_most_once`,
`C20_topic_only`) hold for a backlog drained after `close()` as well.  The harness reads the parked receiver (`shut_rx`) on
`recv`.  Instance: `sub; pub 7; shut; recv` delivers payload 7 and empties the queue, a second `recv` answers `rxGone`. -/
example :
    let h0 : Hub := emptyHub fun _ => 1
    let h1 := (apply h0 (.sub "stats" 0)).1
    let h2 := (apply h1 (.pub "stats" 7)).1
    let h3 := (apply h2 (.shut 0)).1
    let r := apply h3 (.recv 0)
    (h3.chans 0).queue.length = 1 ∧
      r.2 = .msg (some { topic := "stats", sub := 0, payload := 7, seq := 0 }) ∧
      (r.1.chans 0).queue = [] ∧ (r.1.chans 0).got.length = 1 ∧ (apply r.1 (.recv 0)).2 = .rxGone := by
  decide

/-! ## The atomic-op layer (what is compared with the real code) is the small-step semantics -/

/-- One call: from any state with the mutex free, running task `t` alone for some number of turns
performs exactly the layer-1 operation `apply` on the hub (same hub state, same result appended to the
task's output, nothing else touched). -/
theorem C20_atomic_op_refines_small_step {s : Sys} {t : Nat} {op : Op} {rest : List Op}
    (hlock : s.lock = none) (hpc : (s.tasks t).pc = .idle) (hprog : (s.tasks t).prog = op :: rest) :
    ∃ n, (exec s (List.replicate n t)).hub = (apply s.hub op).1 ∧
      (exec s (List.replicate n t)).lock = none ∧
      ((exec s (List.replicate n t)).tasks t).pc = .idle ∧
      ((exec s (List.replicate n t)).tasks t).prog = rest ∧
      ((exec s (List.replicate n t)).tasks t).out = (s.tasks t).out ++ [(apply s.hub op).2] ∧
      ∀ t', t' ≠ t → (exec s (List.replicate n t)).tasks t' = s.tasks t' := by
  obtain ⟨n, h1, h2, h3, h4, h5, h6⟩ := atomic_refines hlock hpc hprog
  exact ⟨n, h1, h2, h3, by rw [h4, hprog]; rfl, h5, h6⟩

/-- Whole runs: for every list of calls `(task, op)` and all capacities there is a schedule under which
the small-step semantics ends in exactly the hub state, and gives every task exactly the results,
that layer 1 (`runCalls`, the function the compiled driver folds over the op lines) computes.  Hence
every reachable-state theorem above applies to the states the correspondence compares with the
real hub. -/
theorem C20_atomic_model_is_small_step (caps : Nat → Nat) (calls : List (Nat × Op)) :
    ∃ sched, Reachable (exec (init caps (progOf calls)) sched) ∧
      (exec (init caps (progOf calls)) sched).hub = (runCalls (emptyHub caps) calls).1 ∧
      ∀ t, ((exec (init caps (progOf calls)) sched).tasks t).out =
        ((runCalls (emptyHub caps) calls).2.filter (fun o => o.1 = t)).map (·.2) := by
  obtain ⟨sched, h1, h2⟩ := atomic_is_small_step caps calls
  exact ⟨sched, ⟨caps, _, sched, rfl⟩, h1, h2⟩


/-! ## Round 2: temporal form, the reading of "delivered", and `unsubscribe` returning `false`

**Reading of "delivered".**  In this file an event is *delivered to a subscription* when `publish`
ENQUEUES it on the subscriber connection's push channel (`try_send` returned `Ok`; ghost history
`Chan.sent`).  The property clause "nothing is delivered after its unsubscribe has completed" is
therefore proved as "nothing is ENQUEUED for `k` after the release of a successful `unsubscribe(k)`".
Events enqueued BEFORE that release may still sit in the channel and are written to the client's
socket later: `control_socket` writes the reply to the `unsubscribe` request directly while earlier
pushes are still queued in `push_rx`, so a client can read `*.update` lines tagged `k` after it has
read the `unsubscribe` reply.  What it can read is bounded by `C20_frozen_after_unsubscribe`: only
messages of the enqueue history as it stood at the release.

**Reading of "pruned".**  `publish(topic)` prunes lazily and only among the entries OF ITS OWN TOPIC
(`mustOf`, `C20_pruned_obligation`): a closed subscriber of another topic stays in the table until an
event of that topic is published (matches the code and the word "lazily" in its comment). -/

/-- At every moment the mutex is free — in particular at the release of an `unsubscribe` — no task is
inside a critical section: nobody is half-way through a `publish` loop with a stale view of the table
(every loop iteration reads the CURRENT table under the mutex). -/
theorem C20_no_task_in_section_when_free {s : Sys} (hr : Reachable s) (hfree : s.lock = none) (t : Nat) :
    (s.tasks t).pc.holds = false ∧
    ∀ topic p seq i prune must, (s.tasks t).pc ≠ .pubIter topic p seq i prune must := by
  have h := no_section_when_free (reachable_inv hr).1 hfree t
  refine ⟨h, fun topic p seq i prune must hpc => ?_⟩
  rw [hpc] at h; cases h

/-- **Frozen after unsubscribe (temporal form).**  Take ANY reachable state `s` in which a successful
`unsubscribe(k)` has released the mutex (`(k, n) ∈ s.unsubAt`; the release state itself is one,
`C20_release_freezes`).  Then along EVERY continuation — every schedule `sched`, any number of further
publishes / subscribes / receives by any tasks — and for every channel `c`:
* the enqueue history restricted to `k` (`sentOf`) is exactly what it was in `s`: nothing is added;
* whatever the receiver has taken out under `k` so far is a subsequence of that frozen history, and
  whatever is still queued under `k` is a member of it (already-queued events may still be received,
  nothing else can be);
* `k` is not in the table. -/
theorem C20_frozen_after_unsubscribe {s : Sys} (hr : Reachable s) (k n : Nat) (h : (k, n) ∈ s.unsubAt)
    (sched : List Nat) (c : Nat) :
    sentOf (exec s sched) c k = sentOf s c k ∧
    (((exec s sched).hub.chans c).got.filter (fun m => m.sub = k)).Sublist (sentOf s c k) ∧
    (∀ m ∈ ((exec s sched).hub.chans c).queue, m.sub = k → m ∈ sentOf s c k) ∧
    (∀ e ∈ (exec s sched).hub.entries, e.id ≠ k) := by
  obtain ⟨_, _, _, _, hu, _⟩ := reachable_inv hr
  obtain ⟨hd, _, _⟩ := hu.2 k n h
  have hfr := sentOf_frozen hd sched c
  obtain ⟨_, _, _, hmi', _, _⟩ := reachable_inv (hr.exec sched)
  refine ⟨hfr, ?_, ?_, (dead_exec hd sched).2⟩
  · rw [← hfr]
    exact (got_sublist_sent hmi' c).filter _
  · intro m hm hk
    rw [← hfr]
    exact List.mem_filter.mpr ⟨queue_subset_sent hmi' c m hm, by simpa using hk⟩

/-- **The release step itself.**  When an `unsubscribe(k)` that found `k` releases the mutex
(`step` from `unsubDone k true`): the mutex is free, `true` is returned to the caller, no task is inside
any critical section at that moment, and from the resulting state on the enqueue history restricted
to `k` never changes again, whatever runs afterwards. -/
theorem C20_release_freezes {s s' : Sys} (hr : Reachable s) {t k : Nat}
    (hpc : (s.tasks t).pc = .unsubDone k true) (hst : step s t = some s') :
    s'.lock = none ∧ Obs.removed true ∈ (s'.tasks t).out ∧ (∀ t', (s'.tasks t').pc.holds = false) ∧
    ∀ sched c, sentOf (exec s' sched) c k = sentOf s c k := by
  have hr' : Reachable s' := hr.next hst
  have hs' : s' = { (s.finish t (.removed true)) with
      lock := none, unsubAt := s.unsubAt ++ [(k, s.log.length)] } := by
    unfold step at hst; rw [hpc] at hst
    simp only [if_true, Option.some.injEq] at hst
    exact hst.symm
  have hlock : s'.lock = none := by rw [hs']
  have hmem : (k, s.log.length) ∈ s'.unsubAt := by rw [hs']; simp
  refine ⟨hlock, by rw [hs']; simp [Sys.finish], fun t' => (C20_no_task_in_section_when_free hr' hlock t').1, ?_⟩
  intro sched c
  rw [(C20_frozen_after_unsubscribe hr' k _ hmem sched c).1]
  rw [hs']; rfl

/-- **`unsubscribe(k)` while a `subscribe` has fetched `k` but not yet pushed it returns `false`** and
removes nothing: the id is not in the table yet (ids are predictable, `sub-N`, so a client can name an
id before the owning `subscribe` call has returned).  The pending `subscribe` is unaffected: it goes on
to push `k`, and the subscription then receives events (witness below) — an `unsubscribe` that returns
`false` gives NO guarantee about later deliveries to `k`. -/
theorem C20_unsubscribe_pending_returns_false {s : Sys} (hr : Reachable s) {t t' k : Nat}
    (hpc : (s.tasks t).pc = .unsubLocked k) (hpend : (s.tasks t').pc.pendingId = some k) :
    ∃ s', step s t = some s' ∧ (s'.tasks t).pc = .unsubDone k false ∧
      s'.hub.entries = s.hub.entries ∧ (s'.tasks t').pc.pendingId = some k := by
  obtain ⟨_, hid, _, _, _, _⟩ := reachable_inv hr
  have hnot := (hid.2.2.1 t' k hpend).2
  obtain ⟨s', r, hst, hpc', hr', hent, _, _, _, _, hoth⟩ := unsub_retain hpc
  have hrf : r = false := by
    cases r
    · rfl
    · obtain ⟨e, he, hek⟩ := hr'.mp rfl
      exact absurd hek (hnot e he)
  have htt : t' ≠ t := by
    intro h; subst h; rw [hpc] at hpend; simp [Pc.pendingId] at hpend
  refine ⟨s', hst, by rw [hpc', hrf], ?_, by rw [hoth t' htt]; exact hpend⟩
  rw [hent]
  unfold removeId
  exact List.filter_eq_self.mpr (fun e he => by simpa using hnot e he)

/-- **If no `subscribe` is pending on `k`** (the id has been issued and its push has happened, or it
was already removed or pruned) **the `retain` step of `unsubscribe(k)` leaves `k` dead whatever flag it
returns**: from the state after the `retain` on, along every continuation, `k` is never in the table
and no message tagged `k` is enqueued.  So `false` here means "already gone", and it stays gone. -/
theorem C20_unsubscribe_settled_dead {s : Sys} {t k : Nat}
    (hpc : (s.tasks t).pc = .unsubLocked k)
    (hissued : k < s.hub.nextId) (hnopend : ∀ t', (s.tasks t').pc.pendingId ≠ some k) :
    ∃ s' r, step s t = some s' ∧ (s'.tasks t).pc = .unsubDone k r ∧
      ∀ sched c, sentOf (exec s' sched) c k = sentOf s c k ∧
        ∀ e ∈ (exec s' sched).hub.entries, e.id ≠ k := by
  obtain ⟨s', r, hst, hpc', _, _, hgone, hnext, hch, _, hoth⟩ := unsub_retain hpc
  have hd : Dead s' k := by
    refine ⟨⟨by rw [hnext]; exact hissued, fun t' => ?_⟩, hgone⟩
    by_cases ht : t' = t
    · subst ht; rw [hpc']; simp [Pc.pendingId]
    · rw [hoth t' ht]; exact hnopend t'
  refine ⟨s', r, hst, hpc', fun sched c => ⟨?_, (dead_exec hd sched).2⟩⟩
  rw [sentOf_frozen hd sched c]
  unfold sentOf; rw [hch]

/-- Witness for the "no guarantee" half: task 0 subscribes to "a" (fetches id 0), task 1 runs
`unsubscribe(0)` to completion in between — it returns `false` — then task 0 pushes id 0, and task 2's
publish is enqueued for subscription 0. -/
example :
    let progs : Nat → List Op := fun t =>
      match t with
      | 0 => [.sub "a" 0]
      | 1 => [.unsub 0]
      | 2 => [.pub "a" 5]
      | _ => []
    let fin := exec (init (fun _ => 4) progs) [0, 1, 1, 1, 0, 0, 0, 2, 2, 2]
    (fin.tasks 1).out = [.removed false] ∧ (fin.tasks 0).out = [.id 0] ∧
    fin.hub.entries.map (·.id) = [0] ∧
    (fin.hub.chans 0).sent.map (fun m => (m.sub, m.payload)) = [(0, 5)] := by
  decide

/-- Witness for `C20_frozen_after_unsubscribe` (and for "already queued events are still received"):
subscribe, publish 5, unsubscribe (returns `true`), publish 6, then the subscriber reads: it still
receives 5 — enqueued before the release — and never 6. -/
example :
    let progs : Nat → List Op := fun t =>
      match t with
      | 0 => [.sub "a" 0, .unsub 0, .recv 0, .recv 0]
      | 2 => [.pub "a" 5, .pub "a" 6]
      | _ => []
    let fin := exec (init (fun _ => 4) progs) [0, 0, 0, 0, 2, 2, 2, 0, 0, 0, 2, 2, 0, 0]
    (fin.tasks 0).out.length = 4 ∧ (fin.tasks 0).out[1]? = some (.removed true) ∧
    fin.unsubAt = [(0, 1)] ∧
    (fin.hub.chans 0).got.map (fun m => (m.sub, m.payload)) = [(0, 5)] ∧
    (fin.hub.chans 0).sent.map (fun m => (m.sub, m.payload)) = [(0, 5)] ∧
    (fin.tasks 0).out[3]? = some (.msg none) := by
  decide

end Srtla.Props.C20
