import Srtla.Model.Hub
import Srtla.Lemmas.Hub
/-!
# C20 — telemetry subscriptions never block the data plane and stay ordered

Property theorems only.  All of them are about the small-step interleaving semantics
`Srtla.Hub.step : Sys → TaskId → Option Sys` and hold in every state reachable from a fresh hub under
EVERY schedule (`List TaskId`, any length), for any number of tasks, arbitrary programs per task and
arbitrary channel capacities (`Reachable s := ∃ caps progs sched, s = exec (init caps progs) sched`).

Modelled, not verified: the tokio `Mutex` (mutual exclusion; arbitrary grant order) and `mpsc`
(`try_send` / `try_recv` / receiver drop).  Ghost history variables: the lock-order publish log
`Sys.log`, per-channel `sent` (everything ever enqueued) and `got` (everything the receiver took out),
`Msg.seq` (log index of the originating publish), `Sys.issued`, `Sys.unsubAt`.
-/
namespace Srtla.Props.C20
open Srtla.Hub

/-- All invariants hold in every reachable state. -/
theorem reachable_inv {s : Sys} (h : Reachable s) :
    LockInv s ∧ IdInv s ∧ IssuedInv s ∧ MsgInv s := by
  refine reach_induct (P := fun s => LockInv s ∧ IdInv s ∧ IssuedInv s ∧ MsgInv s) ?_ ?_ s h
  · intro caps progs
    exact ⟨lockInv_init _ _, idInv_init _ _, issuedInv_init _ _, msgInv_init _ _⟩
  · rintro s t s' ⟨h1, h2, h3, h4⟩ hst
    exact ⟨lockInv_step h1 hst, idInv_step h2 hst, issuedInv_step h3 hst, msgInv_step h1 h2 h3 h4 hst⟩

/-! ## Publishing never waits on a subscriber -/

/-- (a) No step of any hub call has a guard on channel state: whether task `t` can move is the same
in `s` and in `s` with ALL channels replaced by arbitrary other ones (full, closed, anything). -/
theorem C20_publish_never_waits_on_subscriber_guard (s : Sys) (t : Nat) (chans' : Nat → Chan) :
    (step s t).isSome = (step { s with hub := { s.hub with chans := chans' } } t).isSome :=
  step_enabled_indep_of_chans s t chans'

/-- (b) The only thing a task ever waits for is the mutex: a task that cannot move has either finished
its program or is outside a critical section while somebody holds the mutex. -/
theorem C20_publish_never_waits_on_subscriber_only_mutex (s : Sys) (t : Nat) (h : step s t = none) :
    ((s.tasks t).pc = .idle ∧ (s.tasks t).prog = []) ∨
    (s.lock.isSome = true ∧ (s.tasks t).pc.holds = false) := by
  rcases (step_none_iff s t).mp h with h | ⟨h1, h2, _⟩
  · exact Or.inl h
  · exact Or.inr ⟨h1, h2⟩

/-- (c) The holder of the mutex can always move, its critical section has at most `|entries| + 1`
steps (`publish`'s loop: one per entry, plus the release; every other section: at most 2), and no
other task — in particular no subscriber — can lengthen it: in ANY schedule that gives the holder
`csRemaining` turns, the mutex has been released after at most that many of the holder's own turns. -/
theorem C20_publish_never_waits_on_subscriber {s : Sys} (hr : Reachable s) {t : Nat}
    (hlock : s.lock = some t) :
    (∃ s', step s t = some s') ∧
    csRemaining s t ≤ s.hub.entries.length + 2 ∧
    (∀ topic p seq i prune must, (s.tasks t).pc = .pubIter topic p seq i prune must →
      csRemaining s t ≤ s.hub.entries.length + 1) ∧
    ∀ sched : List Nat, csRemaining s t ≤ sched.count t →
      ∃ pre suf, sched = pre ++ suf ∧ (exec s pre).lock ≠ some t ∧ pre.count t ≤ csRemaining s t := by
  have hl := (reachable_inv hr).1
  refine ⟨holder_enabled hl hlock, ?_, ?_, fun sched hc => cs_bounded sched hl hlock hc⟩
  · unfold csRemaining; split <;> omega
  · intro topic p seq i prune must hpc
    unfold csRemaining; rw [hpc]; (try simp) <;> omega

/-- The second section of `publish` (taken only when some channel was closed) is `lock; retain; unlock`. -/
example (s : Sys) (t : Nat) (prune must : List Nat) (h : (s.tasks t).pc = .pubPruneLocked prune must) :
    csRemaining s t = 2 := by unfold csRemaining; rw [h]

/-! ## Ids -/

/-- Ids in the table are pairwise distinct; every id ever handed out by `fetch_add` was handed out
exactly once (`issued` lists `0 .. nextId-1` in order, so two `subscribe` calls never get the same
id); each table entry is the record issued under its id (topic and channel of an id never change). -/
theorem C20_ids_unique {s : Sys} (hr : Reachable s) :
    (s.hub.entries.map (·.id)).Nodup ∧
    (s.issued.map (·.id)).Nodup ∧
    s.issued.map (·.id) = List.range s.hub.nextId ∧
    (∀ e ∈ s.hub.entries, e ∈ s.issued) ∧
    (∀ a ∈ s.issued, ∀ b ∈ s.issued, a.id = b.id → a = b) := by
  obtain ⟨_, hid, his, _⟩ := reachable_inv hr
  have hnd : (s.issued.map (·.id)).Nodup := by rw [his.1]; exact List.nodup_range
  exact ⟨hid.1, hnd, his.1, his.2.1, fun a ha b hb hab => entry_eq_of_id hnd ha hb hab⟩

end Srtla.Props.C20
