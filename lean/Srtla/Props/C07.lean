import Srtla.Model.Reg
import Srtla.Lemmas.Reg
/-!
# C07 — the registration handshake follows the two-phase SRTLA protocol

Property theorems only.  They quantify over **every** reachable state `x` (`Reachable x`: start-up,
optionally the single start-up `start_probing`, then *any* finite list of atomic events — packets of
any bytes on any uplink at any time, and the five housekeeping steps in any order and at any time;
no monotonicity of the clock is assumed) and over every next event.  The real `handle_housekeeping`
pass is the particular event list `tickEvs now rcs`.

`x.sys` is the model of the real state (`SrtlaRegistrationManager` + every uplink's `connected`
flag), `x.gh` is the ghost observer (`Lemmas/Reg.lean`): it reads only the event stream and the
emitted packets. `x.gh.out` = uplinks with an outstanding REG1, `x.gh.lastReg1At` = time of the
latest REG1, `x.gh.flag` = "a REG2 was accepted since the last broadcast", `x.gh.adopted` = id of the
latest accepted REG2 (start-up id before), `x.gh.nAcc / nBc` = acceptances / broadcasts so far.

Packet types: 37393 = 0x9211 REG_NGP, 37377 = 0x9201 REG2, 37378 = 0x9202 REG3, 37392 = 0x9210 REG_ERR.
-/
namespace Srtla.Props.C07
open Srtla.Reg Srtla.Gen

/-! ### Concrete witnesses used by the `example`s -/

def exId : Bytes := List.replicate 256 7
def exPid : Bytes := List.replicate 256 9
def ngp : Bytes := [0x92, 0x11]
def reg3 : Bytes := [0x92, 0x02]
def regErr : Bytes := [0x92, 0x10]
def reg2Full : Bytes := [0x92, 0x01] ++ List.replicate 256 3

/-- REG_NGP on uplink 0 at t=10 (answered by REG1). -/
def exPending : St := (St.init exId exPid 2).run [.pkt 0 10 ngp]
/-- … then the full REG2 on uplink 0 at t=50. -/
def exAccepted : St := (St.init exId exPid 2).run [.pkt 0 10 ngp, .pkt 0 50 reg2Full]

theorem C07_witness_pending_reachable : Reachable exPending :=
  ⟨exId, exPid, 2, _, List.length_replicate .., .inl rfl⟩
theorem C07_witness_accepted_reachable : Reachable exAccepted :=
  ⟨exId, exPid, 2, _, List.length_replicate .., .inl rfl⟩

/-! ## single outstanding REG1 -/

/-- At every reachable state at most one uplink has an outstanding (sent, not answered, not
cancelled, not abandoned) REG1; and every REG1 the sender emits — by any path: immediate answer to
REG_NGP, registration driver, housekeeping reconnect — is emitted either while no REG1 is
outstanding or towards the uplink that already has the outstanding one.  `pending_reg2_idx` is
exactly that outstanding set. -/
theorem C07_single_outstanding {x : St} (hx : Reachable x) :
    x.gh.out.length ≤ 1 ∧ x.gh.out = x.sys.reg.pending.toList ∧
    ∀ e o, o ∈ (x.step e).2 → o.isReg1 = true →
      (x.gh.out = [] ∨ x.gh.out = [o.target]) ∧
      (x.sys.reg.pending = none ∨ x.sys.reg.pending = some o.target) := by
  have hi := (reachable_good hx).inv
  have ho := hi.out_eq
  refine ⟨?_, ho, ?_⟩
  · rw [ho]; cases x.sys.reg.pending <;> simp
  · intro e o hmem hreg1
    have hs := step_sends x.sys e o hmem
    have : x.sys.reg.pending = none ∨ x.sys.reg.pending = some o.target := by
      rcases hs with h | h | h | h | h
      · exact .inl h.2.2.1
      · exact .inl h.2.2.1
      · exact .inr h.2.2.1
      · have := h.1; simp [Send.isReg1, this] at hreg1
      · have := h.1; simp [Send.isReg1, this] at hreg1
    refine ⟨?_, this⟩
    rcases this with h | h <;> simp [ho, h]

example : exPending.gh.out = [0] ∧ exPending.sys.reg.pending = some 0 := by decide

/-! ## the driver emits REG1 only while no uplink is registered -/

/-- A driver REG1 is emitted only by `reg_driver_pending_sends`, and only when the active count the
manager was given is 0 (and nothing is pending, towards the selected target). -/
theorem C07_driver_needs_no_active (s : Sys) (e : Ev) (o : Send) (ho : o ∈ (s.step e).2)
    (hk : o.kind = .reg1Drv) :
    e.IsDriver ∧ s.reg.active = 0 ∧ s.reg.pending = none ∧ s.reg.target = some o.target := by
  rcases step_sends s e o ho with h | h | h | h | h
  · rw [h.1] at hk; cases hk
  · exact ⟨h.2.1, h.2.2.2.1, h.2.2.1, h.2.2.2.2.1⟩
  · rw [h.1] at hk; cases hk
  · rw [h.1] at hk; cases hk
  · rw [h.1] at hk; cases hk

/-- In a real housekeeping pass (`tickEvs`: clear timed-out pending, probing completion, reconnect
branch for the links `rcs`, `update_active_connections`, driver) a driver REG1 is emitted only if
no uplink at all is connected (registered by REG3) at that moment. -/
theorem C07_driver_needs_no_registered_uplink (s : Sys) (now : Nat) (rcs : List Nat) (o : Send)
    (ho : o ∈ (s.run (tickEvs now rcs)).2) (hk : o.kind = .reg1Drv) :
    (s.run (tickEvs now rcs)).1.connected.count true = 0 := by
  unfold tickEvs at ho ⊢
  rw [Sys.run_append, Sys.run_append] at ho ⊢
  simp only [List.mem_append] at ho
  generalize hs1 : (s.run [Ev.clearTimeout now, Ev.probeCheck now]) = p1 at ho ⊢
  generalize hs2 : (p1.1.run (rcs.map fun i => Ev.reconnect i now)) = p2 at ho ⊢
  rcases ho with (h | h) | h
  · -- clearTimeout / probeCheck emit nothing
    rw [← hs1] at h
    simp only [Sys.run, step_clear_nosend, step_probeCheck_nosend, List.append_nil] at h
    simp at h
  · rw [← hs2] at h
    exact absurd hk (no_drv_in_reconnects now rcs _ o h)
  · simp only [Sys.run, Sys.step, List.nil_append, List.append_nil, stepDriver] at h ⊢
    have hd := C07_driver_needs_no_active
      { reg := updateActiveConnections p2.1.reg p2.1.connected, connected := p2.1.connected } (.driver now) o
      (by simpa [Sys.step, stepDriver] using h) hk
    simpa [updateActiveConnections] using hd.2.1

-- start-up probing, no reply; the pass at the 2000 ms probe deadline selects uplink 0 and the driver sends REG1
example : ∃ o ∈ ((Sys.initProbing exId exPid 2 0).1.run (tickEvs 2000 [])).2, o.kind = .reg1Drv := by decide

/-! ## REG2 acceptance rule and id adoption -/

/-- The id changes **only** on a REG2 of at least 258 bytes received on the uplink that has the
outstanding REG1, and then becomes bytes 2..258 of that packet; conversely every such REG2 is
accepted: id adopted, attempt no longer outstanding, broadcast owed. The id always has 256 bytes. -/
theorem C07_reg2_accept {x : St} (hx : Reachable x) (e : Ev) :
    ((x.step e).1.sys.reg.id ≠ x.sys.reg.id →
      ∃ idx now buf, e = .pkt idx now buf ∧ x.gh.Accepts idx buf ∧
        (x.step e).1.sys.reg.id = (buf.drop 2).take 256) ∧
    (∀ idx now buf, e = .pkt idx now buf → x.gh.Accepts idx buf →
      (x.step e).1.sys.reg.id = (buf.drop 2).take 256 ∧ (x.step e).1.sys.reg.pending = none ∧
      (x.step e).1.gh.out = [] ∧ (x.step e).1.gh.flag = true ∧ (x.step e).2 = []) ∧
    (x.step e).1.sys.reg.id.length = 256 := by
  have hg := reachable_good hx
  have hg' := reachable_good (reachable_step hx e)
  have hout := hg.inv.out_eq
  refine ⟨?_, ?_, hg'.idlen⟩
  · intro hne
    rcases step_id x.sys e with h | ⟨idx, now, buf, he, ht, hl, hp, hid⟩
    · exact absurd h hne
    · exact ⟨idx, now, buf, he, ⟨ht, hl, by rw [hout, hp]; simp⟩, hid⟩
  · intro idx now buf he hacc
    subst he
    obtain ⟨ht, hl, hmem⟩ := hacc
    have hp : x.sys.reg.pending = some idx := by
      rw [hout] at hmem
      cases hq : x.sys.reg.pending with
      | none => rw [hq] at hmem; simp at hmem
      | some j => rw [hq] at hmem; simp at hmem; rw [hmem]
    have hi' := hg'.inv
    rcases processRegistrationPacket_cases x.sys.reg idx now buf with ⟨h, _⟩ | ⟨_, hq⟩ | ⟨h, _⟩ | ⟨h, _⟩ | ⟨_, h, _⟩
    · rw [ht] at h; simp at h
    · have hstep : x.sys.step (.pkt idx now buf) =
          ({ x.sys with reg := handleReg2 x.sys.reg idx buf now }, []) := by
        simp only [Sys.step, stepPkt, hq]
      have hr : handleReg2 x.sys.reg idx buf now =
          { x.sys.reg with
              id := (buf.drop 2).take 256, pending := none, pendingTimeoutAt := now + reg3WaitMs,
              broadcastPending := true, target := none, nextSendAt := 0 } := by
        unfold handleReg2
        simp only [Proto.SRTLA_ID_LEN_eq, hp]
        rw [if_neg (by omega)]
        simp
      have h1 : (x.step (.pkt idx now buf)).1.sys.reg = handleReg2 x.sys.reg idx buf now := by
        simp only [St.step, hstep]
      have h2 : (x.step (.pkt idx now buf)).2 = [] := by simp only [St.step, hstep]
      have hoe := hi'.out_eq
      have hfe := hi'.flag_eq
      rw [h1, hr] at hoe hfe
      refine ⟨by rw [h1, hr], by rw [h1, hr], by simpa using hoe, by simpa using hfe, h2⟩
    · rw [ht] at h; simp at h
    · rw [ht] at h; simp at h
    · exact absurd ht h

set_option maxRecDepth 8192 in
example : exPending.gh.Accepts 0 reg2Full := by decide
set_option maxRecDepth 8192 in
example : exAccepted.sys.reg.id = List.replicate 256 3 ∧ exAccepted.gh.flag = true := by decide

/-! ## exactly one broadcast round per acceptance -/

/-- A broadcast is emitted only by the registration driver, at most one per event, and a driver
call emits one **iff** a REG2 was accepted since the last broadcast; the call clears that debt.
Over the whole history broadcasts never outnumber acceptances, and while a broadcast is owed they
are strictly fewer. -/
theorem C07_broadcast_once {x : St} (hx : Reachable x) (e : Ev) :
    ((x.step e).2.filter (fun o => o.kind = .bcast)).length ≤ 1 ∧
    ((∃ o ∈ (x.step e).2, o.kind = .bcast) ↔ (e.IsDriver ∧ x.gh.flag = true)) ∧
    (e.IsDriver → (x.step e).1.gh.flag = false) ∧
    x.gh.nBc ≤ x.gh.nAcc ∧ (x.gh.flag = true → x.gh.nBc < x.gh.nAcc) := by
  have hi := (reachable_good hx).inv
  have hi' := (reachable_good (reachable_step hx e)).inv
  have hc := hi.counts
  refine ⟨bcast_count_le_one x.sys e, ?_, ?_, ?_, ?_⟩
  · constructor
    · rintro ⟨o, ho, hk⟩
      rcases step_sends x.sys e o ho with h | h | h | h | h
      · rw [h.1] at hk; cases hk
      · rw [h.1] at hk; cases hk
      · rw [h.1] at hk; cases hk
      · rw [h.1] at hk; cases hk
      · exact ⟨h.2.1, by rw [hi.flag_eq]; exact h.2.2.1⟩
    · rintro ⟨hd, hf⟩
      cases e with
      | driver now => exact (driver_bcast x.sys now).1.2 (by rw [← hi.flag_eq]; exact hf)
      | _ => simp [Ev.IsDriver] at hd
  · intro hd
    cases e with
    | driver now => rw [hi'.flag_eq]; exact (driver_bcast x.sys now).2
    | _ => simp [Ev.IsDriver] at hd
  · split at hc <;> omega
  · intro hf
    rw [if_pos hf] at hc
    omega

set_option maxRecDepth 8192 in
example : ∃ o ∈ (exAccepted.step (.driver 60)).2, o.kind = .bcast := by decide
set_option maxRecDepth 8192 in
example : (exAccepted.step (.driver 60)).1.gh.nBc = 1 ∧ (exAccepted.step (.driver 60)).1.gh.nAcc = 1 := by decide

/-! ## emitted packets carry the current id -/

/-- Every packet emitted after start-up is a REG1 or registration REG2 built from the currently
adopted id (= the id of the latest accepted REG2, or the start-up id), which has 256 bytes; no probe
packet is ever emitted after start-up; and an event that emits anything does not change the id. -/
theorem C07_ids {x : St} (hx : Reachable x) (e : Ev) (o : Send) (ho : o ∈ (x.step e).2) :
    o.kind ≠ .probe ∧ x.gh.adopted.length = 256 ∧ x.gh.adopted = x.sys.reg.id ∧
    o.pkt = (if o.isReg1 then Codec.createReg1 x.gh.adopted else Codec.createReg2 x.gh.adopted) ∧
    (x.step e).1.gh.adopted = x.gh.adopted := by
  have hg := reachable_good hx
  have hid := hg.inv.id_eq
  have hs := step_sends x.sys e o ho
  refine ⟨?_, by rw [hid]; exact hg.idlen, hid, ?_, ?_⟩
  · rcases hs with h | h | h | h | h <;> (rw [h.1]; simp)
  · rw [hid]
    rcases hs with h | h | h | h | h
    · simp [Send.isReg1, h.1, h.2.2.2.2]
    · simp [Send.isReg1, h.1, h.2.2.2.2.2]
    · simp [Send.isReg1, h.1, h.2.2.2]
    · simp [Send.isReg1, h.1, h.2.2.2]
    · simp [Send.isReg1, h.1, h.2.2.2]
  · simp only [St.step, Ghost.step, foldl_note_adopted]
    cases e with
    | pkt idx now buf =>
      have hngp : pktType buf = some 37393 := by
        rcases hs with h | h | h | h | h
        · exact h.2.1.2
        · exact absurd h.2.1 (by simp [Ev.IsDriver])
        · exact absurd h.2.1 (by simp [Ev.IsReconnectOf])
        · exact absurd h.2.1 (by simp [Ev.IsReconnectOf])
        · exact absurd h.2.1 (by simp [Ev.IsDriver])
      simp [Ghost.react, Ghost.Accepts, hngp]
    | clearTimeout now => simp only [Ghost.react]; split <;> rfl
    | _ => rfl

/-- The start-up probes (the only packets not covered by `C07_ids`) are REG2s carrying the probe id. -/
theorem C07_probe_ids (id probeId : Bytes) (n now : Nat) (o : Send)
    (ho : o ∈ (Sys.initProbing id probeId n now).2) :
    o.kind = .probe ∧ o.pkt = Codec.createReg2 probeId := by
  have hsnd : ∀ (r : Reg), (startProbing r n now).2 = [] ∨
      (startProbing r n now).2 = (List.range n).map fun i => (i, Codec.createReg2 r.probeId) := by
    intro r
    unfold startProbing
    split
    · left; rfl
    · right; dsimp only; split <;> rfl
  simp only [Sys.initProbing] at ho
  rcases hsnd (Sys.init id probeId n).reg with h | h
  · rw [h] at ho; simp at ho
  · rw [h] at ho
    simp only [List.map_map, List.mem_map] at ho
    obtain ⟨i, _, rfl⟩ := ho
    simp [Sys.init, Reg.new]

example : ∃ o ∈ (exPending.step (.reconnect 0 700)).2, o.isReg1 = true := by decide

/-! ## an uplink becomes connected only on a REG3 received on it -/

/-- For every state whatsoever and every event: if uplink `k`'s `connected` flag is true after the
event and was not before, the event is the arrival of a REG3 on uplink `k`. -/
theorem C07_connected_only_by_reg3 (s : Sys) (e : Ev) (k : Nat)
    (h1 : (s.step e).1.connected[k]? = some true) (h0 : s.connected[k]? ≠ some true) :
    e.IsPktOn k 37378 :=
  step_connected s e k h1 h0

set_option maxRecDepth 8192 in
example : (exAccepted.sys.step (.pkt 1 70 reg3)).1.connected = [false, true] := by decide

/-! ## REG_ERR cancels the pending attempt -/

/-- A REG_ERR on any uplink: nothing is emitted, nothing is pending or targeted or outstanding any
more, that uplink is not connected, and the driver sends no REG1 until a new REG_NGP selects a
target (whatever the time and the active count). -/
theorem C07_regerr_cancels {x : St} (hx : Reachable x) (idx now : Nat) (buf : Bytes)
    (ht : pktType buf = some 37392) :
    (x.step (.pkt idx now buf)).2 = [] ∧
    (x.step (.pkt idx now buf)).1.sys.reg.pending = none ∧
    (x.step (.pkt idx now buf)).1.sys.reg.target = none ∧
    (x.step (.pkt idx now buf)).1.gh.out = [] ∧
    (x.step (.pkt idx now buf)).1.sys.connected[idx]? ≠ some true ∧
    ∀ now' o, o ∈ ((x.step (.pkt idx now buf)).1.step (.driver now')).2 → o.isReg1 = false := by
  have hi' := (reachable_good (reachable_step hx (.pkt idx now buf))).inv
  have hstep := step_regerr x.sys idx now buf ht
  have hreg : (x.step (.pkt idx now buf)).1.sys.reg = handleRegErr x.sys.reg now := by
    simp only [St.step, hstep]
  have hp : (x.step (.pkt idx now buf)).1.sys.reg.pending = none := by rw [hreg]; rfl
  have htg : (x.step (.pkt idx now buf)).1.sys.reg.target = none := by rw [hreg]; rfl
  refine ⟨by simp only [St.step, hstep], hp, htg, ?_, ?_, ?_⟩
  · rw [hi'.out_eq, hp]; rfl
  · simp only [St.step, hstep]
    grind
  · intro now' o ho
    rcases step_sends _ _ o ho with h | h | h | h | h
    · exact absurd h.2.1 (by simp [Ev.IsPktOn])
    · rw [htg] at h; exact absurd h.2.2.2.2.1 (by simp)
    · exact absurd h.2.1 (by simp [Ev.IsReconnectOf])
    · simp [Send.isReg1, h.1]
    · simp [Send.isReg1, h.1]

example : (exPending.step (.pkt 1 20 regErr)).1.gh.out = [] ∧ exPending.gh.out = [0] := by decide

/-! ## an unanswered REG1 is abandoned after 4000 ms so that a new attempt can start -/

/-- The deadline stored next to a pending attempt is exactly 4000 ms after the latest REG1. -/
theorem C07_deadline {x : St} (hx : Reachable x) (i : Nat) (hp : x.sys.reg.pending = some i) :
    x.sys.reg.pendingTimeoutAt = x.gh.lastReg1At + 4000 ∧ x.gh.out = [i] := by
  have hi := (reachable_good hx).inv
  exact ⟨hi.deadline i hp, by rw [hi.out_eq, hp]; rfl⟩

/-- With a REG1 outstanding on uplink `i` (latest REG1 at `x.gh.lastReg1At`), the housekeeping step
`clear_pending_if_timed_out(now)` does nothing before `lastReg1At + 4000`; from that instant on it
abandons the attempt (nothing outstanding / pending / targeted), and then a REG_NGP arriving on
*any* uplink `j` at *any* time, while the active count is 0, is answered at once by a REG1 on `j`
carrying the current id: a new attempt is outstanding on `j` with its own 4000 ms deadline. -/
theorem C07_timeout_abandons {x : St} (hx : Reachable x) (i : Nat) (hout : x.gh.out = [i]) (now : Nat) :
    (now < x.gh.lastReg1At + 4000 →
      (x.step (.clearTimeout now)).1.sys = x.sys ∧ (x.step (.clearTimeout now)).1.gh.out = [i]) ∧
    (x.gh.lastReg1At + 4000 ≤ now →
      (x.step (.clearTimeout now)).1.gh.out = [] ∧
      (x.step (.clearTimeout now)).1.sys.reg.pending = none ∧
      (x.step (.clearTimeout now)).1.sys.reg.target = none ∧
      ∀ j now' buf, pktType buf = some 37393 → (x.step (.clearTimeout now)).1.sys.reg.active = 0 →
        ((x.step (.clearTimeout now)).1.step (.pkt j now' buf)).2 =
          [{ kind := .reg1Imm, target := j, pkt := Codec.createReg1 (x.step (.clearTimeout now)).1.gh.adopted }] ∧
        ((x.step (.clearTimeout now)).1.step (.pkt j now' buf)).1.gh.out = [j] ∧
        ((x.step (.clearTimeout now)).1.step (.pkt j now' buf)).1.gh.lastReg1At = now') := by
  have hi := (reachable_good hx).inv
  have hp : x.sys.reg.pending = some i := by
    have := hi.out_eq
    rw [hout] at this
    cases hq : x.sys.reg.pending with
    | none => rw [hq] at this; simp at this
    | some j => rw [hq] at this; simp at this; rw [this]
  have hd := hi.deadline i hp
  have hnw : x.sys.reg.probing ≠ .waiting := by
    intro hw
    have := (hi.waiting hw).1
    rw [hp] at this; cases this
  constructor
  · intro hlt
    have hy := reachable_step hx (.clearTimeout now)
    have hsys : (x.step (.clearTimeout now)).1.sys = x.sys := by
      simp only [St.step, Sys.step, clearPendingIfTimedOut, hp, hd]
      rw [if_neg (by omega)]
    refine ⟨hsys, ?_⟩
    rw [(reachable_good hy).inv.out_eq, hsys, hp]; rfl
  · intro hge
    have hy := reachable_step hx (.clearTimeout now)
    have hiy := (reachable_good hy).inv
    have hreg : (x.step (.clearTimeout now)).1.sys.reg =
        { x.sys.reg with pending := none, pendingTimeoutAt := 0, target := none, nextSendAt := now } := by
      simp only [St.step, Sys.step, clearPendingIfTimedOut, hp, hd]
      rw [if_pos (by omega)]
    have hpy : (x.step (.clearTimeout now)).1.sys.reg.pending = none := by rw [hreg]
    refine ⟨by rw [hiy.out_eq, hpy]; rfl, hpy, by rw [hreg], ?_⟩
    intro j now' buf ht ha
    have hwy : (x.step (.clearTimeout now)).1.sys.reg.probing ≠ .waiting := by rw [hreg]; exact hnw
    obtain ⟨hs, hpj, hto⟩ := step_ngp_answered (x.step (.clearTimeout now)).1.sys j now' buf ht hpy ha hwy
    have hz := reachable_step hy (.pkt j now' buf)
    have hiz := (reachable_good hz).inv
    refine ⟨?_, ?_, ?_⟩
    · rw [hiy.id_eq]; exact hs
    · rw [hiz.out_eq]
      show ((x.step (.clearTimeout now)).1.sys.step (.pkt j now' buf)).1.reg.pending.toList = [j]
      rw [hpj]; rfl
    · have := hiz.deadline j hpj
      have hto' : ((x.step (.clearTimeout now)).1.step (.pkt j now' buf)).1.sys.reg.pendingTimeoutAt = now' + 4000 := hto
      omega

example : exPending.gh.out = [0] ∧ exPending.gh.lastReg1At = 10 ∧
    (exPending.step (.clearTimeout 4009)).1.gh.out = [0] ∧
    (exPending.step (.clearTimeout 4010)).1.gh.out = [] := by decide

end Srtla.Props.C07
