import Srtla.Model.Reg
import Srtla.Lemmas.Reg
import Srtla.Lemmas.RegShell
/-!
# C07 — the registration handshake follows the two-phase SRTLA protocol

Property theorems only.  They quantify over **every** reachable state `x` (`Reachable x`: start-up,
optionally the single start-up `start_probing`, then *any* finite list of atomic events — packets of
any bytes on any uplink at any time, and the five housekeeping steps in any order and at any time;
no monotonicity of the clock is assumed) and over every next event.  The real `handle_housekeeping`
pass is the particular event list `tickEvs now rcs`.

`x.sys` is the model of the real state (`SrtlaRegistrationManager` + every uplink's `connected`
flag), `x.gh` is the ghost observer (`Lemmas/Reg.lean`): it reads only the event stream and the
emitted packets. `x.gh.out` = uplinks with an outstanding REG1, `x.gh.lastReg1At` = time of the
latest REG1, `x.gh.flag` = "a REG2 was accepted since the last broadcast", `x.gh.adopted` = id of the
latest accepted REG2 (start-up id before), `x.gh.nAcc / nBc` = acceptances / broadcasts so far.

Packet types: 37393 = 0x9211 REG_NGP, 37377 = 0x9201 REG2, 37378 = 0x9202 REG3, 37392 = 0x9210 REG_ERR.
-/
namespace Srtla.Props.C07
open Srtla.Reg Srtla.Gen

/-! ### Concrete witnesses used by the `example`s -/

def exId : Bytes := List.replicate 256 7
def exPid : Bytes := List.replicate 256 9
def ngp : Bytes := [0x92, 0x11]
def reg3 : Bytes := [0x92, 0x02]
def regErr : Bytes := [0x92, 0x10]
def reg2Full : Bytes := [0x92, 0x01] ++ List.replicate 256 3

/-- REG_NGP on uplink 0 at t=10 (answered by REG1). -/
def exPending : St := (St.init exId exPid 2).run [.pkt 0 10 ngp]
/-- … then the full REG2 on uplink 0 at t=50. -/
def exAccepted : St := (St.init exId exPid 2).run [.pkt 0 10 ngp, .pkt 0 50 reg2Full]

theorem C07_witness_pending_reachable : Reachable exPending :=
  ⟨exId, exPid, 2, _, List.length_replicate .., .inl rfl⟩
theorem C07_witness_accepted_reachable : Reachable exAccepted :=
  ⟨exId, exPid, 2, _, List.length_replicate .., .inl rfl⟩

/-! ## single outstanding REG1 -/

/-- At every reachable state at most one uplink has an outstanding (sent, not answered, not
cancelled, not abandoned) REG1; and every REG1 the sender emits — by any path: immediate answer to
REG_NGP, registration driver, housekeeping reconnect — is emitted either while no REG1 is
outstanding or towards the uplink that already has the outstanding one.  `pending_reg2_idx` is
exactly that outstanding set. -/
theorem C07_single_outstanding {x : St} (hx : Reachable x) :
    x.gh.out.length ≤ 1 ∧ x.gh.out = x.sys.reg.pending.toList ∧
    ∀ e o, o ∈ (x.step e).2 → o.isReg1 = true →
      (x.gh.out = [] ∨ x.gh.out = [o.target]) ∧
      (x.sys.reg.pending = none ∨ x.sys.reg.pending = some o.target) := by
  have hi := (reachable_good hx).inv
  have ho := hi.out_eq
  refine ⟨?_, ho, ?_⟩
  · rw [ho]; cases x.sys.reg.pending <;> simp
  · intro e o hmem hreg1
    have hs := step_sends x.sys e o hmem
    have : x.sys.reg.pending = none ∨ x.sys.reg.pending = some o.target := by
      rcases hs with h | h | h | h | h
      · exact .inl h.2.2.1
      · exact .inl h.2.2.1
      · exact .inr h.2.2.1
      · have := h.1; simp [Send.isReg1, this] at hreg1
      · have := h.1; simp [Send.isReg1, this] at hreg1
    refine ⟨?_, this⟩
    rcases this with h | h <;> simp [ho, h]

example : exPending.gh.out = [0] ∧ exPending.sys.reg.pending = some 0 := by decide

/-! ## the driver emits REG1 only while no uplink is registered -/

/-- A driver REG1 is emitted only by `reg_driver_pending_sends`, and only when the active count the
manager was given is 0 (and nothing is pending, towards the selected target). -/
theorem C07_driver_needs_no_active (s : Sys) (e : Ev) (o : Send) (ho : o ∈ (s.step e).2)
    (hk : o.kind = .reg1Drv) :
    e.IsDriver ∧ s.reg.active = 0 ∧ s.reg.pending = none ∧ s.reg.target = some o.target := by
  rcases step_sends s e o ho with h | h | h | h | h
  · rw [h.1] at hk; cases hk
  · exact ⟨h.2.1, h.2.2.2.1, h.2.2.1, h.2.2.2.2.1⟩
  · rw [h.1] at hk; cases hk
  · rw [h.1] at hk; cases hk
  · rw [h.1] at hk; cases hk

/-- In a real housekeeping pass (`tickEvs`: clear timed-out pending, probing completion, reconnect
branch for the links `rcs`, `update_active_connections`, driver) a driver REG1 is emitted only if
no uplink at all is connected (registered by REG3) at that moment. -/
theorem C07_driver_needs_no_registered_uplink (s : Sys) (now : Nat) (rcs : List Nat) (o : Send)
    (ho : o ∈ (s.run (tickEvs now rcs)).2) (hk : o.kind = .reg1Drv) :
    (s.run (tickEvs now rcs)).1.connected.count true = 0 := by
  unfold tickEvs at ho ⊢
  rw [Sys.run_append, Sys.run_append] at ho ⊢
  simp only [List.mem_append] at ho
  generalize hs1 : (s.run [Ev.clearTimeout now, Ev.probeCheck now]) = p1 at ho ⊢
  generalize hs2 : (p1.1.run (rcs.map fun i => Ev.reconnect i now)) = p2 at ho ⊢
  rcases ho with (h | h) | h
  · -- clearTimeout / probeCheck emit nothing
    rw [← hs1] at h
    simp only [Sys.run, step_clear_nosend, step_probeCheck_nosend, List.append_nil] at h
    simp at h
  · rw [← hs2] at h
    exact absurd hk (no_drv_in_reconnects now rcs _ o h)
  · simp only [Sys.run, Reg.Sys.step, List.nil_append, List.append_nil, stepDriver] at h ⊢
    have hd := C07_driver_needs_no_active
      { reg := updateActiveConnections p2.1.reg p2.1.connected, connected := p2.1.connected } (.driver now) o
      (by simpa [Reg.Sys.step, stepDriver] using h) hk
    simpa [updateActiveConnections] using hd.2.1

-- start-up probing, no reply; the pass at the 2000 ms probe deadline selects uplink 0 and the driver sends REG1
example : ∃ o ∈ ((Sys.initProbing exId exPid 2 0).1.run (tickEvs 2000 [])).2, o.kind = .reg1Drv := by decide

/-! ## REG2 acceptance rule and id adoption -/

/-- The id changes **only** on a REG2 of at least 258 bytes received on the uplink that has the
outstanding REG1, and then becomes bytes 2..258 of that packet; conversely every such REG2 is
accepted: id adopted, attempt no longer outstanding, broadcast owed. The id always has 256 bytes. -/
theorem C07_reg2_accept {x : St} (hx : Reachable x) (e : Ev) :
    ((x.step e).1.sys.reg.id ≠ x.sys.reg.id →
      ∃ idx now buf, e = .pkt idx now buf ∧ x.gh.Accepts idx buf ∧
        (x.step e).1.sys.reg.id = (buf.drop 2).take 256) ∧
    (∀ idx now buf, e = .pkt idx now buf → x.gh.Accepts idx buf →
      (x.step e).1.sys.reg.id = (buf.drop 2).take 256 ∧ (x.step e).1.sys.reg.pending = none ∧
      (x.step e).1.gh.out = [] ∧ (x.step e).1.gh.flag = true ∧ (x.step e).2 = []) ∧
    (x.step e).1.sys.reg.id.length = 256 := by
  have hg := reachable_good hx
  have hg' := reachable_good (reachable_step hx e)
  have hout := hg.inv.out_eq
  refine ⟨?_, ?_, hg'.idlen⟩
  · intro hne
    rcases step_id x.sys e with h | ⟨idx, now, buf, he, ht, hl, hp, hid⟩
    · exact absurd h hne
    · exact ⟨idx, now, buf, he, ⟨ht, hl, by rw [hout, hp]; simp⟩, hid⟩
  · intro idx now buf he hacc
    subst he
    obtain ⟨ht, hl, hmem⟩ := hacc
    have hp : x.sys.reg.pending = some idx := by
      rw [hout] at hmem
      cases hq : x.sys.reg.pending with
      | none => rw [hq] at hmem; simp at hmem
      | some j => rw [hq] at hmem; simp at hmem; rw [hmem]
    have hi' := hg'.inv
    rcases processRegistrationPacket_cases x.sys.reg idx now buf with ⟨h, _⟩ | ⟨_, hq⟩ | ⟨h, _⟩ | ⟨h, _⟩ | ⟨_, h, _⟩
    · rw [ht] at h; simp at h
    · have hstep : x.sys.step (.pkt idx now buf) =
          ({ x.sys with reg := handleReg2 x.sys.reg idx buf now }, []) := by
        simp only [Reg.Sys.step, stepPkt, hq]
      have hr : handleReg2 x.sys.reg idx buf now =
          { x.sys.reg with
              id := (buf.drop 2).take 256, pending := none, pendingTimeoutAt := now + reg3WaitMs,
              broadcastPending := true, target := none, nextSendAt := 0 } := by
        unfold handleReg2
        simp only [Proto.SRTLA_ID_LEN_eq, hp]
        rw [if_neg (by omega)]
        simp
      have h1 : (x.step (.pkt idx now buf)).1.sys.reg = handleReg2 x.sys.reg idx buf now := by
        simp only [St.step, hstep]
      have h2 : (x.step (.pkt idx now buf)).2 = [] := by simp only [St.step, hstep]
      have hoe := hi'.out_eq
      have hfe := hi'.flag_eq
      rw [h1, hr] at hoe hfe
      refine ⟨by rw [h1, hr], by rw [h1, hr], by simpa using hoe, by simpa using hfe, h2⟩
    · rw [ht] at h; simp at h
    · rw [ht] at h; simp at h
    · exact absurd ht h

set_option maxRecDepth 8192 in
example : exPending.gh.Accepts 0 reg2Full := by decide
set_option maxRecDepth 8192 in
example : exAccepted.sys.reg.id = List.replicate 256 3 ∧ exAccepted.gh.flag = true := by decide

/-! ## exactly one broadcast round per acceptance -/

/-- A broadcast is emitted only by the registration driver, at most one per event, and a driver
call emits one **iff** a REG2 was accepted since the last broadcast; the call clears that debt.
Over the whole history broadcasts never outnumber acceptances, and while a broadcast is owed they
are strictly fewer. -/
theorem C07_broadcast_once {x : St} (hx : Reachable x) (e : Ev) :
    ((x.step e).2.filter (fun o => o.kind = .bcast)).length ≤ 1 ∧
    ((∃ o ∈ (x.step e).2, o.kind = .bcast) ↔ (e.IsDriver ∧ x.gh.flag = true)) ∧
    (e.IsDriver → (x.step e).1.gh.flag = false) ∧
    x.gh.nBc ≤ x.gh.nAcc ∧ (x.gh.flag = true → x.gh.nBc < x.gh.nAcc) := by
  have hi := (reachable_good hx).inv
  have hi' := (reachable_good (reachable_step hx e)).inv
  have hc := hi.counts
  refine ⟨bcast_count_le_one x.sys e, ?_, ?_, ?_, ?_⟩
  · constructor
    · rintro ⟨o, ho, hk⟩
      rcases step_sends x.sys e o ho with h | h | h | h | h
      · rw [h.1] at hk; cases hk
      · rw [h.1] at hk; cases hk
      · rw [h.1] at hk; cases hk
      · rw [h.1] at hk; cases hk
      · exact ⟨h.2.1, by rw [hi.flag_eq]; exact h.2.2.1⟩
    · rintro ⟨hd, hf⟩
      cases e with
      | driver now => exact (driver_bcast x.sys now).1.2 (by rw [← hi.flag_eq]; exact hf)
      | _ => simp [Ev.IsDriver] at hd
  · intro hd
    cases e with
    | driver now => rw [hi'.flag_eq]; exact (driver_bcast x.sys now).2
    | _ => simp [Ev.IsDriver] at hd
  · split at hc <;> omega
  · intro hf
    rw [if_pos hf] at hc
    omega

set_option maxRecDepth 8192 in
example : ∃ o ∈ (exAccepted.step (.driver 60)).2, o.kind = .bcast := by decide
set_option maxRecDepth 8192 in
example : (exAccepted.step (.driver 60)).1.gh.nBc = 1 ∧ (exAccepted.step (.driver 60)).1.gh.nAcc = 1 := by decide

/-! ## emitted packets carry the current id -/

/-- Every packet emitted after start-up is a REG1 or registration REG2 built from the currently
adopted id (= the id of the latest accepted REG2, or the start-up id), which has 256 bytes; no probe
packet is ever emitted after start-up; and an event that emits anything does not change the id. -/
theorem C07_ids {x : St} (hx : Reachable x) (e : Ev) (o : Send) (ho : o ∈ (x.step e).2) :
    o.kind ≠ .probe ∧ x.gh.adopted.length = 256 ∧ x.gh.adopted = x.sys.reg.id ∧
    o.pkt = (if o.isReg1 then Codec.createReg1 x.gh.adopted else Codec.createReg2 x.gh.adopted) ∧
    (x.step e).1.gh.adopted = x.gh.adopted := by
  have hg := reachable_good hx
  have hid := hg.inv.id_eq
  have hs := step_sends x.sys e o ho
  refine ⟨?_, by rw [hid]; exact hg.idlen, hid, ?_, ?_⟩
  · rcases hs with h | h | h | h | h <;> (rw [h.1]; simp)
  · rw [hid]
    rcases hs with h | h | h | h | h
    · simp [Send.isReg1, h.1, h.2.2.2.2]
    · simp [Send.isReg1, h.1, h.2.2.2.2.2]
    · simp [Send.isReg1, h.1, h.2.2.2]
    · simp [Send.isReg1, h.1, h.2.2.2]
    · simp [Send.isReg1, h.1, h.2.2.2]
  · simp only [St.step, Ghost.step, foldl_note_adopted]
    cases e with
    | pkt idx now buf =>
      have hngp : pktType buf = some 37393 := by
        rcases hs with h | h | h | h | h
        · exact h.2.1.2
        · exact absurd h.2.1 (by simp [Ev.IsDriver])
        · exact absurd h.2.1 (by simp [Ev.IsReconnectOf])
        · exact absurd h.2.1 (by simp [Ev.IsReconnectOf])
        · exact absurd h.2.1 (by simp [Ev.IsDriver])
      simp [Ghost.react, Ghost.Accepts, hngp]
    | clearTimeout now => simp only [Ghost.react]; split <;> rfl
    | _ => rfl

/-- The start-up probes (the only packets not covered by `C07_ids`) are REG2s carrying the probe id. -/
theorem C07_probe_ids (id probeId : Bytes) (n now : Nat) (o : Send)
    (ho : o ∈ (Sys.initProbing id probeId n now).2) :
    o.kind = .probe ∧ o.pkt = Codec.createReg2 probeId := by
  have hsnd : ∀ (r : Reg), (startProbing r n now).2 = [] ∨
      (startProbing r n now).2 = (List.range n).map fun i => (i, Codec.createReg2 r.probeId) := by
    intro r
    unfold startProbing
    split
    · left; rfl
    · right; dsimp only; split <;> rfl
  simp only [Sys.initProbing] at ho
  rcases hsnd (Sys.init id probeId n).reg with h | h
  · rw [h] at ho; simp at ho
  · rw [h] at ho
    simp only [List.map_map, List.mem_map] at ho
    obtain ⟨i, _, rfl⟩ := ho
    simp [Sys.init, Reg.new]

example : ∃ o ∈ (exPending.step (.reconnect 0 700)).2, o.isReg1 = true := by decide

/-! ## an uplink becomes connected only on a REG3 received on it -/

/-- For every state whatsoever and every event: if uplink `k`'s `connected` flag is true after the
event and was not before, the event is the arrival of a REG3 on uplink `k`. -/
theorem C07_connected_only_by_reg3 (s : Sys) (e : Ev) (k : Nat)
    (h1 : (s.step e).1.connected[k]? = some true) (h0 : s.connected[k]? ≠ some true) :
    e.IsPktOn k 37378 :=
  step_connected s e k h1 h0

set_option maxRecDepth 8192 in
example : (exAccepted.sys.step (.pkt 1 70 reg3)).1.connected = [false, true] := by decide

/-! ## REG_ERR cancels the pending attempt -/

/-- A REG_ERR on any uplink: nothing is emitted, nothing is pending or targeted or outstanding any
more, that uplink is not connected, and the driver sends no REG1 until a new REG_NGP selects a
target (whatever the time and the active count). -/
theorem C07_regerr_cancels {x : St} (hx : Reachable x) (idx now : Nat) (buf : Bytes)
    (ht : pktType buf = some 37392) :
    (x.step (.pkt idx now buf)).2 = [] ∧
    (x.step (.pkt idx now buf)).1.sys.reg.pending = none ∧
    (x.step (.pkt idx now buf)).1.sys.reg.target = none ∧
    (x.step (.pkt idx now buf)).1.gh.out = [] ∧
    (x.step (.pkt idx now buf)).1.sys.connected[idx]? ≠ some true ∧
    ∀ now' o, o ∈ ((x.step (.pkt idx now buf)).1.step (.driver now')).2 → o.isReg1 = false := by
  have hi' := (reachable_good (reachable_step hx (.pkt idx now buf))).inv
  have hstep := step_regerr x.sys idx now buf ht
  have hreg : (x.step (.pkt idx now buf)).1.sys.reg = handleRegErr x.sys.reg now := by
    simp only [St.step, hstep]
  have hp : (x.step (.pkt idx now buf)).1.sys.reg.pending = none := by rw [hreg]; rfl
  have htg : (x.step (.pkt idx now buf)).1.sys.reg.target = none := by rw [hreg]; rfl
  refine ⟨by simp only [St.step, hstep], hp, htg, ?_, ?_, ?_⟩
  · rw [hi'.out_eq, hp]; rfl
  · simp only [St.step, hstep]
    grind
  · intro now' o ho
    rcases step_sends _ _ o ho with h | h | h | h | h
    · exact absurd h.2.1 (by simp [Ev.IsPktOn])
    · rw [htg] at h; exact absurd h.2.2.2.2.1 (by simp)
    · exact absurd h.2.1 (by simp [Ev.IsReconnectOf])
    · simp [Send.isReg1, h.1]
    · simp [Send.isReg1, h.1]

example : (exPending.step (.pkt 1 20 regErr)).1.gh.out = [] ∧ exPending.gh.out = [0] := by decide

/-! ## an unanswered REG1 is abandoned after 4000 ms so that a new attempt can start -/

/-- The deadline stored next to a pending attempt is exactly 4000 ms after the latest REG1. -/
theorem C07_deadline {x : St} (hx : Reachable x) (i : Nat) (hp : x.sys.reg.pending = some i) :
    x.sys.reg.pendingTimeoutAt = x.gh.lastReg1At + 4000 ∧ x.gh.out = [i] := by
  have hi := (reachable_good hx).inv
  exact ⟨hi.deadline i hp, by rw [hi.out_eq, hp]; rfl⟩

/-- With a REG1 outstanding on uplink `i` (latest REG1 at `x.gh.lastReg1At`), the housekeeping step
`clear_pending_if_timed_out(now)` does nothing before `lastReg1At + 4000`; from that instant on it
abandons the attempt (nothing outstanding / pending / targeted), and then a REG_NGP arriving on
*any* uplink `j` at *any* time, while the active count is 0, is answered at once by a REG1 on `j`
carrying the current id: a new attempt is outstanding on `j` with its own 4000 ms deadline. -/
theorem C07_timeout_abandons {x : St} (hx : Reachable x) (i : Nat) (hout : x.gh.out = [i]) (now : Nat) :
    (now < x.gh.lastReg1At + 4000 →
      (x.step (.clearTimeout now)).1.sys = x.sys ∧ (x.step (.clearTimeout now)).1.gh.out = [i]) ∧
    (x.gh.lastReg1At + 4000 ≤ now →
      (x.step (.clearTimeout now)).1.gh.out = [] ∧
      (x.step (.clearTimeout now)).1.sys.reg.pending = none ∧
      (x.step (.clearTimeout now)).1.sys.reg.target = none ∧
      ∀ j now' buf, pktType buf = some 37393 → (x.step (.clearTimeout now)).1.sys.reg.active = 0 →
        ((x.step (.clearTimeout now)).1.step (.pkt j now' buf)).2 =
          [{ kind := .reg1Imm, target := j, pkt := Codec.createReg1 (x.step (.clearTimeout now)).1.gh.adopted }] ∧
        ((x.step (.clearTimeout now)).1.step (.pkt j now' buf)).1.gh.out = [j] ∧
        ((x.step (.clearTimeout now)).1.step (.pkt j now' buf)).1.gh.lastReg1At = now') := by
  have hi := (reachable_good hx).inv
  have hp : x.sys.reg.pending = some i := by
    have := hi.out_eq
    rw [hout] at this
    cases hq : x.sys.reg.pending with
    | none => rw [hq] at this; simp at this
    | some j => rw [hq] at this; simp at this; rw [this]
  have hd := hi.deadline i hp
  have hnw : x.sys.reg.probing ≠ .waiting := by
    intro hw
    have := (hi.waiting hw).1
    rw [hp] at this; cases this
  constructor
  · intro hlt
    have hy := reachable_step hx (.clearTimeout now)
    have hsys : (x.step (.clearTimeout now)).1.sys = x.sys := by
      simp only [St.step, Reg.Sys.step, clearPendingIfTimedOut, hp, hd]
      rw [if_neg (by omega)]
    refine ⟨hsys, ?_⟩
    rw [(reachable_good hy).inv.out_eq, hsys, hp]; rfl
  · intro hge
    have hy := reachable_step hx (.clearTimeout now)
    have hiy := (reachable_good hy).inv
    have hreg : (x.step (.clearTimeout now)).1.sys.reg =
        { x.sys.reg with pending := none, pendingTimeoutAt := 0, target := none, nextSendAt := now } := by
      simp only [St.step, Reg.Sys.step, clearPendingIfTimedOut, hp, hd]
      rw [if_pos (by omega)]
    have hpy : (x.step (.clearTimeout now)).1.sys.reg.pending = none := by rw [hreg]
    refine ⟨by rw [hiy.out_eq, hpy]; rfl, hpy, by rw [hreg], ?_⟩
    intro j now' buf ht ha
    have hwy : (x.step (.clearTimeout now)).1.sys.reg.probing ≠ .waiting := by rw [hreg]; exact hnw
    obtain ⟨hs, hpj, hto⟩ := step_ngp_answered (x.step (.clearTimeout now)).1.sys j now' buf ht hpy ha hwy
    have hz := reachable_step hy (.pkt j now' buf)
    have hiz := (reachable_good hz).inv
    refine ⟨?_, ?_, ?_⟩
    · rw [hiy.id_eq]; exact hs
    · rw [hiz.out_eq]
      show ((x.step (.clearTimeout now)).1.sys.step (.pkt j now' buf)).1.reg.pending.toList = [j]
      rw [hpj]; rfl
    · have := hiz.deadline j hpj
      have hto' : ((x.step (.clearTimeout now)).1.step (.pkt j now' buf)).1.sys.reg.pendingTimeoutAt = now' + 4000 := hto
      omega

example : exPending.gh.out = [0] ∧ exPending.gh.lastReg1At = 10 ∧
    (exPending.step (.clearTimeout 4009)).1.gh.out = [0] ∧
    (exPending.step (.clearTimeout 4010)).1.gh.out = [] := by decide

/-! # Round 3 — C07 at the level of the sender shell (`Srtla.Sys.step`)

Everything above is about the registration component's own machine (`Reg.Sys`, events `Reg.Ev`,
emissions `Send`).  The shell model `Srtla.Sys.Sys` (`Model/Sys.lean`, validated against the real
event-loop arms by component `sys`) embeds the manager and calls it from `handleUplinkPacket` and
`handleHousekeeping`.  `Lemmas/RegShell.lean` proves that the shell refines that machine; the theorems
below restate C07 over shell states, shell events and the datagrams of `Out.wire`.

Vocabulary (`Srtla.RegShell`): `abs s` = `s.reg` + the links' `connected` flags; `proj s e` = the
`Reg.Ev`s one shell event amounts to (`uplink` on a known conn id ↦ `pkt idx now data` with `idx` the
first link carrying that conn id; `hk now` ↦ `tickEvs now (hkRcs s now)`, `hkRcs` = the links that are
timed out and allowed to retry in that pass; `client` ↦ one `drop i` per link torn down by a failed
send; every other constructor — `flush`, `setCfg`, `crit`, `failNext`, and any future constructor that
does not touch the manager, such as a socket re-creation failure injection — ↦ `[]`);
`regWire s o` = where the shell puts emission `o` (a `bcast` ↦ one copy per link in link order, anything
else ↦ the conn id of link `o.target`); `isRegFrame d` = the type field of `d` says REG1 (0x9200) or
REG2 (0x9201); `RegArm e` = `e` is an `uplink` or `hk` event; `runS s evs` = final state of a shell run
(the first component of `Srtla.Sys.run`); `ghostAt s0 evs` = the ghost observer after it has read the
projected event stream of the run; `Startup s0` = fresh manager (optionally after the single
`start_probing`), no link connected. -/
section shell
open Srtla.RegShell

variable {F : Type} [Scalar F]

/-- Toy scalar (`Lemmas/SelectFrame.lean`) used ONLY by the `example`s, to have concrete links. -/
local instance exScalar : Scalar Int := Srtla.Select.fixScalar

/-- Two fresh uplinks (conn ids 1, 2; `SrtlaConnection::new_registering` at t = 0), fresh manager: the
shape of the `sys` driver's initial state. -/
def exShell : Srtla.Sys.Sys Int :=
  { links := [Link.FLink.newRegistering 1 0, Link.FLink.newRegistering 2 0], reg := Reg.new exId exPid }

/-- REG_NGP on conn id 1 at t = 10 (answered by REG1), the full REG2 at t = 50 (accepted). -/
def exShellAccepted : Srtla.Sys.Sys Int := runS exShell [.uplink 10 1 ngp, .uplink 50 1 reg2Full]

theorem C07_witness_shell_startup : Startup exShell :=
  init_fresh exId exPid (List.length_replicate ..) _ (by decide) _ rfl rfl

/-! ## the projection -/

/-- **The shell projects onto the registration machine.**  For every shell state and every shell
event: running the projected `Reg` events on the abstraction ends in the abstraction of the shell's
next state (the `reg` field and every `connected` flag evolve identically); in the `uplink` and `hk`
arms the datagrams of `Out.wire` whose type field says REG1 / REG2 are exactly the machine's emissions,
in order, each addressed to the conn id of the link index the machine names (a broadcast: one copy per
link, in link order) — the only other datagrams of a housekeeping tick are keepalives; in every other
arm the machine emits nothing (what those arms put on the wire is forwarded client data, C01); conn
ids and the number of links never change.
`hnr`: every event EXCEPT `Ev.reload` — `apply_connection_changes` shifts the connections vector under the
manager's index-keyed state without remapping it (observation in `assumptions`), so the index-named
registration machine has no event for it; C07 speaks about the stretches of a run between two reloads. -/
theorem C07_shell_projects (s : Srtla.Sys.Sys F) (e : Srtla.Sys.Ev) (hnr : e.isReload = false) :
    (Reg.Sys.run (abs s) (proj s e)).1 = abs (Srtla.Sys.step s e).1 ∧
    (RegArm e → (Srtla.Sys.step s e).2.wire.filter isRegFrame =
      (Reg.Sys.run (abs s) (proj s e)).2.flatMap (regWire s)) ∧
    (¬ RegArm e → (Reg.Sys.run (abs s) (proj s e)).2 = []) ∧
    cids (Srtla.Sys.step s e).1.links = cids s.links :=
  ⟨(projects s e hnr).state, (projects s e hnr).wire, (projects s e hnr).quiet, (projects s e hnr).ids⟩

/-- The `uplink` arm, without the filter: the WHOLE wire output of an `uplink` event is the machine's
emission list (empty, or one immediate REG1 to the arrival conn id). -/
theorem C07_shell_projects_uplink (s : Srtla.Sys.Sys F) (now cid : Nat) (data : List UInt8) :
    (Srtla.Sys.step s (.uplink now cid data)).2.wire =
      (Reg.Sys.run (abs s) (proj s (.uplink now cid data))).2.flatMap (regWire s) :=
  (uplink_run s now cid data).2.1

/-- Run form: after ANY shell run the machine run over the projected events is in the abstraction of
the shell's state; from a start-up state the ghost-instrumented machine state is `Reachable`, so all the
theorems of the first part of this file apply to it. -/
theorem C07_shell_projects_run (s0 : Srtla.Sys.Sys F) (evs : List Srtla.Sys.Ev) (hnr : Srtla.Sys.NoReload evs) :
    (Reg.Sys.run (abs s0) (projRun s0 evs)).1 = abs (runS s0 evs) ∧
    (ghostAt s0 evs).sys = abs (runS s0 evs) ∧
    (Startup s0 → Reachable (ghostAt s0 evs)) :=
  ⟨run_projRun s0 evs hnr, ghostAt_sys s0 evs hnr, fun h => ghostAt_reachable h evs⟩

-- what the constructors project to
example (s : Srtla.Sys.Sys F) (now : Nat) : proj s (.flush now) = [] ∧ proj s (.crit now) = [] ∧
    proj s (.failNext now) = [] ∧ proj s (.hk now) = tickEvs now (hkRcs s now) := ⟨rfl, rfl, rfl, rfl⟩

-- REG_NGP on conn id 1 is `pkt 0`
example : proj exShell (.uplink 10 1 ngp) = [.pkt 0 10 ngp] := by rfl

set_option maxRecDepth 8192 in
-- its wire output is the REG1 carrying the start-up id; in the tick after the acceptance no link takes the
-- reconnect branch (both are inside their start-up grace) and the tick's wire output is the broadcast, one
-- copy per link
example :
    (Srtla.Sys.step exShell (.uplink 10 1 ngp)).2.wire = [(1, Codec.createReg1 exId)] ∧
    hkRcs exShellAccepted 60 = [] ∧
    (Srtla.Sys.step exShellAccepted (.hk 60)).2.wire =
      [(1, Codec.createReg2 (List.replicate 256 3)), (2, Codec.createReg2 (List.replicate 256 3))] := by
  decide +kernel

/-! ## single outstanding REG1, over shell runs -/

/-- Along every shell run from a start-up state: at most one uplink has an outstanding REG1, and it
is the uplink `pending_reg2_idx` names; and in the next `uplink` / `hk` event EVERY datagram on ANY
wire whose type field says REG1 (0x9200) goes to the conn id of one and the same link — the one that
is pending after the event.  (Remark, with `step_sends` and `C07_abandon_tick` below: an `uplink` REG1
needs nothing pending before the event, and a tick that finds an attempt pending either keeps it on its
uplink or abandons it and then sends no REG1 in the same tick.) -/
theorem C07_single_outstanding_shell (s0 : Srtla.Sys.Sys F) (h0 : Startup s0) (evs : List Srtla.Sys.Ev)
    (hnr : Srtla.Sys.NoReload evs) :
    (ghostAt s0 evs).gh.out.length ≤ 1 ∧
    (ghostAt s0 evs).gh.out = (runS s0 evs).reg.pending.toList ∧
    ∀ (e : Srtla.Sys.Ev) (d : Nat × List UInt8), RegArm e →
      d ∈ (Srtla.Sys.step (runS s0 evs) e).2.wire → Codec.getPacketTypeS d.2 = some 0x9200 →
      ∃ i l, (Srtla.Sys.step (runS s0 evs) e).1.reg.pending = some i ∧
        (runS s0 evs).links[i]? = some l ∧ d.1 = l.core.connId := by
  have hx := ghostAt_reachable h0 evs
  obtain ⟨h1, h2, -⟩ := C07_single_outstanding hx
  rw [ghostAt_sys _ _ hnr] at h2
  refine ⟨h1, h2, ?_⟩
  intro e d hra hd ht
  obtain ⟨o, ho, hdo, hpk⟩ := frame_origin (runS s0 evs) e hra d hd (by simp [isRegFrame, ht])
  have hreg1 : o.isReg1 = true := by
    have := run_sends (P := fun o => (o.isReg1 = true ∧ Codec.getPacketTypeS o.pkt = some 0x9200) ∨
        (o.isReg1 = false ∧ Codec.getPacketTypeS o.pkt = some 0x9201))
      (fun x e o ho => step_send_type x e o ho) _ _ o ho
    rcases this with h | h
    · exact h.1
    · rw [← hpk, ht] at h; simp at h
  have hnb : ¬ o.kind = .bcast := by
    intro hk; simp [Send.isReg1, hk] at hreg1
  refine ⟨o.target, ?_⟩
  unfold regWire regWireIds at hdo
  rw [if_neg hnb] at hdo
  obtain ⟨c, hc, rfl⟩ := List.mem_map.1 hdo
  unfold cids at hc
  rw [List.getElem?_map] at hc
  cases hl : (runS s0 evs).links[o.target]? with
  | none => rw [hl] at hc; simp at hc
  | some l =>
    rw [hl] at hc
    simp only [Option.map_some, Option.toList_some, List.mem_cons, List.not_mem_nil, or_false] at hc
    exact ⟨l, proj_reg1_pending _ e o ho hreg1, rfl, hc⟩

set_option maxRecDepth 8192 in
example : (ghostAt exShell [.uplink 10 1 ngp]).gh.out = [0] ∧
    (runS exShell [.uplink 10 1 ngp]).reg.pending = some 0 ∧
    (Srtla.Sys.step exShell (.uplink 10 1 ngp)).2.wire = [(1, Codec.createReg1 exId)] := by
  decide +kernel

/-! ## every REG1 / REG2 the manager puts on a wire carries the adopted id -/

/-- Along every shell run from a start-up state the id the manager holds is the id of the latest
accepted REG2 (the start-up id before) and has 256 bytes; and in the next `uplink` / `hk` event every
datagram on any wire whose type field says REG1 / REG2 is `createReg1 id` / `createReg2 id` of exactly
that id.  (The start-up probes are sent before the event loop and are not `Sys.step` output, see
`C07_probe_ids`.  The `client` / `flush` arms forward what the SRT client wrote, byte for byte — C01 —
whatever its first two bytes are: see the example below.) -/
theorem C07_ids_shell (s0 : Srtla.Sys.Sys F) (h0 : Startup s0) (evs : List Srtla.Sys.Ev)
    (hnr : Srtla.Sys.NoReload evs) :
    (runS s0 evs).reg.id = (ghostAt s0 evs).gh.adopted ∧ (runS s0 evs).reg.id.length = 256 ∧
    ∀ (e : Srtla.Sys.Ev) (d : Nat × List UInt8), RegArm e →
      d ∈ (Srtla.Sys.step (runS s0 evs) e).2.wire → isRegFrame d = true →
      d.2 = Codec.createReg1 (runS s0 evs).reg.id ∨ d.2 = Codec.createReg2 (runS s0 evs).reg.id := by
  have hg := reachable_good (ghostAt_reachable h0 evs)
  have hid := hg.inv.id_eq
  have hlen := hg.idlen
  rw [ghostAt_sys _ _ hnr] at hid hlen
  refine ⟨hid.symm, hlen, ?_⟩
  intro e d hra hd hf
  obtain ⟨o, ho, -, hpk⟩ := frame_origin (runS s0 evs) e hra d hd hf
  rw [hpk, proj_ids _ e o ho]
  split
  · exact Or.inl rfl
  · exact Or.inr rfl

set_option maxRecDepth 8192 in
-- after the acceptance the adopted id is bytes 2..258 of the REG2, and the tick's REG2s carry it
example : exShellAccepted.reg.id = List.replicate 256 3 ∧
    (ghostAt exShell [.uplink 10 1 ngp, .uplink 50 1 reg2Full]).gh.adopted = List.replicate 256 3 ∧
    ∀ d ∈ (Srtla.Sys.step exShellAccepted (.hk 60)).2.wire, d.2 = Codec.createReg2 (List.replicate 256 3) := by
  decide +kernel

-- NOT covered, on purpose: the data path does not look at what it forwards.  A datagram from the local
-- SRT client that happens to start with 0x92 0x00 leaves on an uplink as it is (here: pre-registration
-- forwarding, four copies reach the batch threshold of a link in the low-activity regime).
set_option maxRecDepth 8192 in
example :
    let s : Srtla.Sys.Sys Int := { exShell with links := exShell.links.map fun l => { l with regime := .low } }
    (runS s [.client 5 [0x92, 0, 1], .client 5 [0x92, 0, 1], .client 5 [0x92, 0, 1]]).links.map (·.queue.length) = [3, 0] ∧
    (Srtla.Sys.step (runS s [.client 5 [0x92, 0, 1], .client 5 [0x92, 0, 1], .client 5 [0x92, 0, 1]])
      (.client 5 [0x92, 0, 1])).2.wire = List.replicate 4 (1, [0x92, 0, 1]) := by
  decide +kernel

/-! ## an uplink becomes connected only on a REG3 received on that uplink, in the shell -/

/-- For every shell state and every shell event: if the link at index `k` is connected after the
event and was not before, the event is an `uplink` datagram of type REG3 (0x9202 = 37378) on the conn
id of that very link (`k` is the first link carrying that conn id).  No `client`, `flush`, `hk`,
configuration or injection event ever sets a `connected` flag. -/
theorem C07_connected_only_by_reg3_shell (s : Srtla.Sys.Sys F) (e : Srtla.Sys.Ev) (hnr : e.isReload = false)
    (k : Nat) (l l' : Link.FLink F)
    (hl : s.links[k]? = some l) (hl' : (Srtla.Sys.step s e).1.links[k]? = some l')
    (h1 : l'.core.connected = true) (h0 : l.core.connected = false) :
    ∃ now cid data, e = .uplink now cid data ∧ data ≠ [] ∧ l.core.connId = cid ∧
      s.links.findIdx? (·.core.connId == cid) = some k ∧ Codec.getPacketTypeS data = some 37378 := by
  obtain ⟨now, cid, data, he, hne, hidx, ht⟩ := connected_only_reg3 s e hnr k
    (by unfold flags; rw [List.getElem?_map, hl']; simp [h1])
    (by unfold flags; rw [List.getElem?_map, hl]; simp [h0])
  obtain ⟨l2, hl2, hc⟩ := Uplink.findIdx_get s.links cid k hidx
  rw [hl] at hl2; cases hl2
  exact ⟨now, cid, data, he, by intro h; subst h; simp at hne, hc, hidx, ht⟩

set_option maxRecDepth 8192 in
example : flags (Srtla.Sys.step (Srtla.Sys.step exShellAccepted (.hk 60)).1 (.uplink 70 2 reg3)).1.links = [false, true] ∧
    flags (Srtla.Sys.step exShellAccepted (.hk 60)).1.links = [false, false] := by
  decide +kernel

/-! ## one REG2 round to ALL uplinks per acceptance -/

/-- **The broadcast reaches every uplink, exactly once per acceptance.**  For every shell state `s`:

* if a broadcast is owed (`broadcast_reg2_pending`, raised by an accepted REG2), the NEXT housekeeping
  event's wire output ENDS with exactly one REG2 carrying the current id for EVERY link of the shell,
  in link order (`s.links.map …`); the machine's emissions of that tick are `sends' ++ [bcast]` with no
  broadcast among `sends'`, and `sends'` accounts for every other REG frame of the tick (`pre`:
  keepalives, a driver REG1, and the reconnect branch's own REG2 re-send to a timed-out link — so such
  a link receives the same REG2 twice in that tick, once per mechanism; see the example);
* the tick clears the debt, a tick without debt emits no broadcast, and no other event ever emits one;
* the debt is raised only by an `uplink` datagram that is a REG2 (0x9201 = 37377) of at least 258 bytes
  on the conn id of the link whose REG1 is outstanding.

Hence no later event repeats the round unless a new REG2 is accepted. -/
theorem C07_broadcast_all_uplinks_once (s : Srtla.Sys.Sys F) (now : Nat) :
    (s.reg.broadcastPending = true →
      ∃ pre sends', (Srtla.Sys.step s (.hk now)).2.wire =
          pre ++ s.links.map (fun l => (l.core.connId, Codec.createReg2 s.reg.id)) ∧
        (Reg.Sys.run (abs s) (proj s (.hk now))).2 =
          sends' ++ [({ kind := .bcast, target := 0, pkt := Codec.createReg2 s.reg.id } : Send)] ∧
        (∀ o ∈ sends', o.kind ≠ .bcast) ∧ pre.filter isRegFrame = sends'.flatMap (regWire s)) ∧
    (s.reg.broadcastPending = false → ∀ o ∈ (Reg.Sys.run (abs s) (proj s (.hk now))).2, o.kind ≠ .bcast) ∧
    (Srtla.Sys.step s (.hk now)).1.reg.broadcastPending = false ∧
    (∀ e : Srtla.Sys.Ev, (∀ t, e ≠ .hk t) → ∀ o ∈ (Reg.Sys.run (abs s) (proj s e)).2, o.kind ≠ .bcast) ∧
    (∀ e : Srtla.Sys.Ev, (Srtla.Sys.step s e).1.reg.broadcastPending = true → s.reg.broadcastPending = false →
      ∃ t cid data idx, e = .uplink t cid data ∧ s.links.findIdx? (·.core.connId == cid) = some idx ∧
        s.reg.pending = some idx ∧ Codec.getPacketTypeS data = some 37377 ∧ 258 ≤ data.length) := by
  obtain ⟨r1, r2⟩ := hk_bcast_round s now
  refine ⟨r1, r2, (hk_broadcast s now).2, ?_, ?_⟩
  · intro e hne o ho
    by_cases hra : RegArm e
    · cases e with
      | hk t => exact absurd rfl (hne t)
      | uplink t cid data =>
        rcases proj_uplink_cases s t cid data with h | ⟨idx, -, -, h⟩
        · rw [h] at ho; simp [Reg.Sys.run] at ho
        · rw [h, run_single] at ho
          rcases step_sends _ _ o ho with h | h | h | h | h
          · rw [h.1]; simp
          · exact absurd h.2.1 (by simp [Ev.IsDriver])
          · rw [h.1]; simp
          · rw [h.1]; simp
          · exact absurd h.2.1 (by simp [Ev.IsDriver])
      | _ => exact absurd hra (fun h => h)
    · rw [projects_quiet s e hra] at ho
      simp at ho
  · intro e h1 h0
    have hnr : e.isReload = false := by
      cases e with
      | reload t addrs outs =>
        -- a reload does not touch the registration manager
        exact absurd (show s.reg.broadcastPending = true from h1) (by rw [h0]; simp)
      | _ => rfl
    have hst : (Reg.Sys.run (abs s) (proj s e)).1.reg.broadcastPending = true := by
      rw [(projects s e hnr).state]; exact h1
    by_cases hra : RegArm e
    · cases e with
      | uplink t cid data =>
        rcases proj_uplink_cases s t cid data with h | ⟨idx, -, hidx, h⟩
        · rw [h] at hst; exact absurd (show s.reg.broadcastPending = true from hst) (by rw [h0]; simp)
        · rw [h, run_single] at hst
          rcases step_bp (abs s) (.pkt idx t data) with hb | hb | ⟨idx', t', buf, he, ht, hlen, hp⟩
          · rw [hb] at hst; exact absurd (show s.reg.broadcastPending = true from hst) (by rw [h0]; simp)
          · exact absurd hb (by simp [Ev.IsDriver])
          · cases he
            exact ⟨t, cid, data, idx, rfl, hidx, hp, ht, hlen⟩
      | hk t =>
        have hb : (Srtla.Sys.step s (.hk t)).1.reg.broadcastPending = false := (hk_broadcast s t).2
        rw [hb] at h1; cases h1
      | _ => exact absurd hra (fun h => h)
    · rw [proj_quiet_reg s e hra, h0] at hst
      cases hst

set_option maxRecDepth 8192 in
-- a broadcast is owed after the acceptance; the tick at 60 pays it with one REG2 per link and clears the
-- debt; had the first tick come at 5100 instead (both links past their start-up grace → reconnect branch
-- with nothing pending → REG2 re-send), each link would get the same REG2 twice in that tick: once from the
-- reconnect branch (`pre`), once from the broadcast round; the tick after that sends no REG2 at all
example :
    exShellAccepted.reg.broadcastPending = true ∧
    (Srtla.Sys.step exShellAccepted (.hk 60)).2.wire =
      exShellAccepted.links.map (fun l => (l.core.connId, Codec.createReg2 exShellAccepted.reg.id)) ∧
    (Srtla.Sys.step exShellAccepted (.hk 60)).1.reg.broadcastPending = false ∧
    (Srtla.Sys.step exShellAccepted (.hk 5100)).2.wire =
      [(1, Codec.createReg2 (List.replicate 256 3)), (2, Codec.createReg2 (List.replicate 256 3))] ++
      exShellAccepted.links.map (fun l => (l.core.connId, Codec.createReg2 exShellAccepted.reg.id)) ∧
    (Srtla.Sys.step (Srtla.Sys.step exShellAccepted (.hk 5100)).1 (.hk 6200)).2.wire = [] := by
  decide +kernel

/-! ## the 4 s abandonment, measured from the FIRST REG1 of an attempt

`C07_timeout_abandons` / `C07_deadline` are relative to the LATEST REG1: the housekeeping reconnect
branch re-sends REG1 to the pending uplink through `build_reg1_for` and thereby renews the 4000 ms
wait.  The three theorems below say exactly when that happens in the shell, that — with working
sockets and working sends on the pending link — it happens at most ONCE per attempt, and what bound
follows from the first REG1; the two examples after them exhibit the postponement (the bound 4000 ms
from the first REG1 does NOT hold) and the unbounded postponement when sends on the pending link fail. -/

/-- **One housekeeping tick while uplink `i` is pending** (any shell state; `probing ≠ waiting` and a
non-zero deadline hold in every reachable state with a pending attempt, see `C07_abandon_bound`).
From the stored deadline on, the tick abandons the attempt (and starts no new one in the same tick).
Before it, the attempt stays on `i`, and its deadline becomes `now + 4000` iff link `i` is timed out
and allowed to retry at `now` — i.e. iff this tick takes the reconnect branch for the pending link
itself (socket re-creation, REG1 re-sent to it); otherwise the deadline is unchanged. -/
theorem C07_abandon_tick (s : Srtla.Sys.Sys F) (now i : Nat) (hp : s.reg.pending = some i)
    (hw : s.reg.probing ≠ .waiting) (hD : s.reg.pendingTimeoutAt ≠ 0) :
    (s.reg.pendingTimeoutAt ≤ now → (Srtla.Sys.step s (.hk now)).1.reg.pending = none) ∧
    (now < s.reg.pendingTimeoutAt →
      (Srtla.Sys.step s (.hk now)).1.reg.pending = some i ∧
      (Srtla.Sys.step s (.hk now)).1.reg.pendingTimeoutAt =
        (if i ∈ hkRcs s now then now + 4000 else s.reg.pendingTimeoutAt)) ∧
    (i ∈ hkRcs s now ↔ ∃ l, s.links[i]? = some l ∧ l.isTimedOut now = true ∧
      l.shouldAttemptReconnect now = true) :=
  hk_deadline s now i hp hw hD

set_option maxRecDepth 8192 in
-- the hypotheses hold right after the first REG1 (sent at 4000), and the pending link is in the reconnect set
-- of the tick at 5100 (it has left its start-up grace) but not of the tick at 4500
example : (runS exShell [.uplink 4000 1 ngp]).reg.pending = some 0 ∧
    (runS exShell [.uplink 4000 1 ngp]).reg.probing ≠ .waiting ∧
    (runS exShell [.uplink 4000 1 ngp]).reg.pendingTimeoutAt = 8000 ∧
    0 ∈ hkRcs (runS exShell [.uplink 4000 1 ngp]) 5100 ∧ 0 ∉ hkRcs (runS exShell [.uplink 4000 1 ngp]) 4500 := by
  decide +kernel

/-- **No second re-send.**  The record the reconnect branch at `t` leaves (`record_attempt`,
`reset_for_reconnect`, `mark_success`, `reset_startup_grace`) has last attempt `t`, failure count 0
and — if the link was never established — a grace deadline `t + 5000`; and a link whose reconnection
fields are like that (`t > 0`) is NOT allowed to retry at any `now < t + 5000`: the 5000 ms start-up
grace of a never-established link, the 5000 ms first back-off step of an established one.  Since the
renewed wait ends at `t + 4000 < t + 5000`, the tick that could re-send a second time abandons the
attempt first. -/
theorem C07_no_second_resend (l m : Link.FLink F) (t now : Nat) (ht : 0 < t) (hnow : now < t + 5000)
    (hm : m.lastAttemptMs = t ∧ m.failCount = 0 ∧ (m.established = 0 → t + 5000 ≤ m.graceDeadline)) :
    (Hk.reconnectLink l t).lastAttemptMs = t ∧ (Hk.reconnectLink l t).failCount = 0 ∧
    (Hk.reconnectLink l t).graceDeadline = t + 5000 ∧
    m.shouldAttemptReconnect now = false := by
  obtain ⟨f1, f2, -, f4, -⟩ := Hk.reconnectLink_fields l t
  exact ⟨f1, f2, f4, FreshAt.no_retry ⟨hm.1, hm.2.1, hm.2.2⟩ ht now hnow⟩

set_option maxRecDepth 8192 in
-- the pending link after the re-send at 5100: last attempt 5100, count 0, never established, grace 10100;
-- at 9099 it is inside its grace window and may not retry
example : ∃ m, (runS exShell [.uplink 4000 1 ngp, .hk 5100]).links[0]? = some m ∧ m.lastAttemptMs = 5100 ∧
    m.failCount = 0 ∧ m.established = 0 ∧ m.graceDeadline = 10100 ∧ m.shouldAttemptReconnect 9099 = false :=
  ⟨_, List.getElem?_eq_getElem (by decide +kernel), by decide +kernel⟩

/-- **The bound from the first REG1.**  Take any shell run `evs1` from a start-up state after which
uplink `i` is pending with stored deadline `D` — in particular the state right after the FIRST REG1
of an attempt, sent at `t0`: then `D = t0 + 4000` (`C07_deadline`).  Let `evs2` be ANY continuation
(client datagrams, uplink datagrams of any bytes on any link, flushes, ticks, configuration changes,
send-failure injections on OTHER links) such that

* the attempt stays pending after every event (no REG2 accepted, no REG_ERR, not abandoned),
* no send failure and no socket re-creation failure is injected for the pending link's conn id (none
  is queued at the start, no `failNext` / `failAfter` / `failBind` event for it),
* housekeeping ticks carry a positive clock.

Then the reconnect branch re-sent REG1 to the pending uplink at most ONCE: the stored deadline is `D`
or `t + 4000` for a single tick `t < D`, hence `< D + 4000`; and every tick of `evs2` (each left the
attempt pending) had `now < D + 3999`.  With `D = t0 + 4000`: the wait is never renewed past
`t0 + 7999`, and the first housekeeping tick at or after `t0 + 7999` abandons the attempt if nothing
ended it before — the bound that holds from the first REG1 is 8 s, not 4 s. -/
theorem C07_abandon_bound (s0 : Srtla.Sys.Sys F) (h0 : Startup s0) (evs1 evs2 : List Srtla.Sys.Ev)
    (i D : Nat) (l : Link.FLink F)
    (hp : (runS s0 evs1).reg.pending = some i) (hD : (runS s0 evs1).reg.pendingTimeoutAt = D)
    (hl : (runS s0 evs1).links[i]? = some l) (hnf : (runS s0 evs1).failNext.contains l.core.connId = false)
    (hnb : (runS s0 evs1).failBind.contains l.core.connId = false)
    (hun : Unanswered i (runS s0 evs1) evs2)
    (hev : ∀ e ∈ evs2, e ≠ .failNext l.core.connId ∧ ∀ now, e = .hk now → 0 < now)
    (heva : ∀ e ∈ evs2, ∀ k, e ≠ .failAfter l.core.connId k)
    (hevb : ∀ e ∈ evs2, e ≠ .failBind l.core.connId)
    (hnr1 : Srtla.Sys.NoReload evs1) (hnr2 : Srtla.Sys.NoReload evs2) :
    (runS s0 (evs1 ++ evs2)).reg.pending = some i ∧
    ((runS s0 (evs1 ++ evs2)).reg.pendingTimeoutAt = D ∨
      ∃ t, 0 < t ∧ t < D ∧ (runS s0 (evs1 ++ evs2)).reg.pendingTimeoutAt = t + 4000) ∧
    (runS s0 (evs1 ++ evs2)).reg.pendingTimeoutAt < D + 4000 ∧
    ∀ pre now post, evs2 = pre ++ Srtla.Sys.Ev.hk now :: post → now < D + 3999 := by
  obtain ⟨hA, hticks⟩ := abandon_bound h0 i D l evs2 evs1 hnr1 hnr2 hp hD hl hnf hnb hun hev heva hevb
  refine ⟨hA.pending, ?_, hA.deadline_lt, hticks⟩
  obtain ⟨l', -, -, h | ⟨t, a, b, c, -⟩⟩ := hA.link
  · exact Or.inl h
  · exact Or.inr ⟨t, a, b, c⟩

/-- A client datagram for the examples (SRT data packet, sequence number 1). -/
def exData : List UInt8 := [0, 0, 0, 1, 0, 0, 0, 0, 0, 0, 0, 0, 0, 0, 0, 0, 1]

set_option maxRecDepth 8192 in
-- **The postponement, concretely** (working sockets, no send failure).  REG_NGP on conn id 1 at 4000 is
-- answered by the first REG1: deadline 8000.  At the tick at 5100 both fresh links have left their start-up
-- grace (5000), so the tick takes the reconnect branch for both; the pending one gets REG1 again and the
-- deadline moves to 9100.  The tick at 9099 — 5099 ms after the first REG1 — does not abandon; the tick at
-- 9100 does.  So "abandoned 4 s after the REG1" holds for the latest REG1 only.
example :
    (runS exShell [.uplink 4000 1 ngp]).reg.pendingTimeoutAt = 8000 ∧
    hkRcs (runS exShell [.uplink 4000 1 ngp]) 5100 = [0, 1] ∧
    (Srtla.Sys.step (runS exShell [.uplink 4000 1 ngp]) (.hk 5100)).2.wire = [(1, Codec.createReg1 exId)] ∧
    (runS exShell [.uplink 4000 1 ngp, .hk 5100]).reg.pendingTimeoutAt = 9100 ∧
    (runS exShell [.uplink 4000 1 ngp, .hk 5100, .hk 9099]).reg.pending = some 0 ∧
    (runS exShell [.uplink 4000 1 ngp, .hk 5100, .hk 9100]).reg.pending = none := by
  decide +kernel

set_option maxRecDepth 8192 in
-- the hypotheses of `C07_abandon_bound` are met by that run (with a client datagram in between), and its
-- conclusion: the deadline stays below 8000 + 4000
example : (runS exShell ([.uplink 4000 1 ngp] ++ [.hk 5100, .client 5200 exData, .hk 9099])).reg.pendingTimeoutAt
    < 8000 + 4000 :=
  (C07_abandon_bound exShell C07_witness_shell_startup [.uplink 4000 1 ngp] [.hk 5100, .client 5200 exData, .hk 9099]
    0 8000 ((runS exShell [.uplink 4000 1 ngp]).links[0]'(by decide +kernel)) (by decide +kernel) (by decide +kernel)
    (List.getElem?_eq_getElem _)
    (by decide +kernel) (by decide +kernel) ⟨by decide +kernel, by decide +kernel, by decide +kernel, trivial⟩
    (by
      intro e he
      simp only [List.mem_cons, List.not_mem_nil, or_false] at he
      rcases he with rfl | rfl | rfl <;> simp)
    (by
      intro e he
      simp only [List.mem_cons, List.not_mem_nil, or_false] at he
      rcases he with rfl | rfl | rfl <;> simp)
    (by
      intro e he
      simp only [List.mem_cons, List.not_mem_nil, or_false] at he
      rcases he with rfl | rfl | rfl <;> simp) (by decide) (by decide)).2.2.1

/-- One round of the second example: a send failure is injected for conn id 1, four client datagrams
reach the batch threshold of the low-activity regime on the pending link (pre-registration forwarding
uses the first link that is not timed out), the flush fails, the link is torn down
(`mark_for_recovery`: grace deadline := 0); one second later the next tick retries it. -/
def exFailRound (t : Nat) : List Srtla.Sys.Ev :=
  [.failNext 1, .client t exData, .client t exData, .client t exData, .client t exData, .hk (t + 1000)]

set_option maxRecDepth 8192 in
-- **Why the hypothesis on send failures is needed.**  With failing sends on the PENDING link every tear-down
-- zeroes its grace deadline, the next tick (≥ 1000 ms after the previous attempt: `INITIAL_RETRY_MS`) takes
-- the reconnect branch again, re-sends REG1 and renews the wait: first REG1 at 4000, deadline 8000 → 9100 →
-- 10200 → 11300 → 12400 ≥ 4000 + 8000, and so on for as long as sends keep failing — the attempt is never
-- abandoned and no other uplink is tried (same effect as the failing socket re-creation of corpus/reg/16,
-- reached through `send` errors instead).
example :
    (runS exShell ([.hk 1000, .uplink 4000 1 ngp, .hk 5100] ++ exFailRound 5200)).reg.pendingTimeoutAt = 10200 ∧
    (runS exShell ([.hk 1000, .uplink 4000 1 ngp, .hk 5100] ++ exFailRound 5200 ++ exFailRound 6300 ++
      exFailRound 7400)).reg.pendingTimeoutAt = 12400 ∧
    (runS exShell ([.hk 1000, .uplink 4000 1 ngp, .hk 5100] ++ exFailRound 5200 ++ exFailRound 6300 ++
      exFailRound 7400)).reg.pending = some 0 := by
  decide +kernel

end shell

end Srtla.Props.C07
