import Srtla.Model.Control
import Srtla.Lemmas.Control
/-!
# C18 — runtime control protocol is total, well-formed and takes effect

Property theorems only.  Quantification is over **every** decoded line (`Line`: blank,
unparsable, or any `Request` with arbitrary strings / JSON values), every environment (stats
provider and `CriticalWindow` present or not), every configuration, and every finite sequence of
lines; the concurrency clause is over every schedule of the atomics model `Conc`.

Totality ("returns without panicking") is carried by the model being a total Lean function whose
every branch is tied to the real code by the differential run; the one `assert!` on the path
(`Ord::clamp`'s `min <= max`) is discharged by `C18_clamp_bounds_ordered`.
-/
namespace Srtla.Props.C18
open Srtla.Control Srtla.Gen

/-! ## Vocabulary of the property statement -/

/-- The documented timeout range, with the property's literal numbers. -/
def InRange (t : Nat) : Prop := 1000 ≤ t ∧ t ≤ 60000

/-- "with either a result or an error": exactly one of the two members is present. -/
def ExactlyOne (r : Response) : Prop := r.result.isSome = !r.error.isSome

/-- The error code of a (possibly absent) response. -/
def code? (o : Option Response) : Option Int := o.bind fun r => r.error.map (·.code)

/-- Response shape demanded for one line. -/
def ShapeOK (l : Line) (o : Option Response) : Prop :=
  match l with
  | .blank => o = none
  | .unparsable =>
    ∃ e, o = some { result := none, error := some e, id := .null } ∧ e.code = -32700
  | .request r =>
    match r.id with
    | some i => ∃ resp, o = some resp ∧ resp.id = i ∧ ExactlyOne resp
    | none => o = none

/-- Position-wise relation between the input lines and the outputs (same length, related at
every index). -/
inductive Pointwise {α β : Type} (R : α → β → Prop) : List α → List β → Prop
  | nil : Pointwise R [] []
  | cons {a : α} {b : β} {as : List α} {bs : List β} :
      R a b → Pointwise R as bs → Pointwise R (a :: as) (b :: bs)

/-- A `get_status` request (any params, any id). -/
def statusReq (p i : Json) : Line :=
  .request { jsonrpc := "2.0", method := "get_status", params := p, id := some i }

/-- The six built-in methods of the stdin entry point. -/
def builtin : List String :=
  ["set_mode", "set_quality", "set_stall_deselect", "set_conn_timeout", "get_status", "get_stats"]

/-- "bad parameters" for the four setters, spelled out. -/
def BadParams (m : String) (p : Json) : Prop :=
  (m = "set_mode" ∧
      ∀ s, (p.get "mode").bind Json.asStr = some s → s ≠ "classic" ∧ s ≠ "enhanced") ∨
  ((m = "set_quality" ∨ m = "set_stall_deselect") ∧ (p.get "enabled").bind Json.asBool = none) ∨
  (m = "set_conn_timeout" ∧ (p.get "ms").bind Json.asU64 = none)

/-! ## `Ord::clamp` cannot assert -/

theorem C18_clamp_bounds_ordered :
    Cfg.CONN_TIMEOUT_MS_MIN = 1000 ∧ Cfg.CONN_TIMEOUT_MS_MAX = 60000 ∧
      Cfg.CONN_TIMEOUT_MS_MIN ≤ Cfg.CONN_TIMEOUT_MS_MAX := by
  simp [Cfg.CONN_TIMEOUT_MS_MIN_eq, Cfg.CONN_TIMEOUT_MS_MAX_eq]

/-! ## Response shape -/

private theorem finish_shape (id : Option Json) (res : Except ErrObj Json) :
    match id with
    | some i => ∃ resp, finish id res = some resp ∧ resp.id = i ∧ ExactlyOne resp
    | none => finish id res = none := by
  cases id with
  | none => rfl
  | some i =>
    cases res with
    | ok v => exact ⟨_, rfl, rfl, rfl⟩
    | error e => exact ⟨_, rfl, rfl, rfl⟩

private theorem map_versionError_shape (id : Option Json) :
    match id with
    | some i => ∃ resp, id.map versionError = some resp ∧ resp.id = i ∧ ExactlyOne resp
    | none => id.map versionError = none := by
  cases id with
  | none => rfl
  | some i => exact ⟨_, rfl, rfl, rfl⟩

/-- One line, stdin entry point. -/
theorem C18_shape_sync (env : Env) (c : Config) (l : Line) :
    ShapeOK l (dispatchInner env c l).2 := by
  cases l with
  | blank => rfl
  | unparsable => exact ⟨_, rfl, by simp [Control.PARSE_ERROR_eq]⟩
  | request r =>
    unfold ShapeOK dispatchInner
    by_cases hv : r.jsonrpc = Control.JSONRPC_VERSION
    · simp only [hv, ne_eq, not_true_eq_false, if_false]
      exact finish_shape r.id _
    · simp only [hv, ne_eq, not_false_eq_true, if_true]
      exact map_versionError_shape r.id

private theorem async_resp_finish (env : Env) (c : Config) (ctx : Option Ctx) (r : Request)
    (hv : r.jsonrpc = Control.JSONRPC_VERSION) :
    ∃ res, (dispatchAsync env c ctx (.request r)).2.2 = finish r.id res := by
  unfold dispatchAsync
  simp only [hv, ne_eq, not_true_eq_false, if_false]
  cases ctx with
  | none => exact ⟨_, rfl⟩
  | some x =>
    simp only
    by_cases h1 : r.method = "subscribe"
    · rw [if_pos h1]; exact ⟨_, rfl⟩
    · rw [if_neg h1]
      by_cases h2 : r.method = "unsubscribe"
      · rw [if_pos h2]; exact ⟨_, rfl⟩
      · rw [if_neg h2]
        by_cases h3 : r.method = "get_subscription_count"
        · rw [if_pos h3]
          exact ⟨.ok (.obj [("count", Json.ofNat x.hub.entries.length)]), rfl⟩
        · rw [if_neg h3]; exact ⟨_, rfl⟩

/-- One line, socket entry point, with or without a `SubscriptionContext`. -/
theorem C18_shape_async (env : Env) (c : Config) (ctx : Option Ctx) (l : Line) :
    ShapeOK l (dispatchAsync env c ctx l).2.2 := by
  cases l with
  | blank => rfl
  | unparsable => exact ⟨_, rfl, by simp [Control.PARSE_ERROR_eq]⟩
  | request r =>
    unfold ShapeOK dispatchAsync
    by_cases hv : r.jsonrpc = Control.JSONRPC_VERSION
    · obtain ⟨res, hres⟩ := async_resp_finish env c ctx r hv
      unfold dispatchAsync at hres
      rw [hres]
      exact finish_shape r.id res
    · simp only [hv, ne_eq, not_false_eq_true, if_true]
      exact map_versionError_shape r.id

/-- **Response shape, all sequences (stdin).**  For every sequence of lines, each under an
arbitrary environment, the k-th output is: nothing for a blank line or a notification; a
`-32700` error with `id: null` for an unparsable line; and for a request carrying an id exactly
one response echoing that id with exactly one of `result` / `error`. -/
theorem C18_response_shape (c : Config) (ls : List (Env × Line)) :
    Pointwise (fun el o => ShapeOK el.2 o) ls (runSync c ls).2 := by
  induction ls generalizing c with
  | nil => exact .nil
  | cons el rest ih => exact .cons (C18_shape_sync el.1 c el.2) (ih _)

/-- **Response shape, all sequences (socket)**, from any hub / owned-id state. -/
theorem C18_response_shape_async (c : Config) (ctx : Option Ctx) (ls : List (Env × Line)) :
    Pointwise (fun el o => ShapeOK el.2 o) ls (runAsync c ctx ls).2.2 := by
  induction ls generalizing c ctx with
  | nil => exact .nil
  | cons el rest ih => exact .cons (C18_shape_async el.1 c ctx el.2) (ih _ _)

/-- **A notification is still applied**: dropping the id of a request changes nothing but the
absence of the response — the configuration afterwards is the one the same request with any id
`i` produces. -/
theorem C18_notification_applied (env : Env) (c : Config) (r : Request) (i : Json) :
    (dispatchInner env c (.request { r with id := none })).2 = none ∧
    (dispatchInner env c (.request { r with id := none })).1 =
      (dispatchInner env c (.request { r with id := some i })).1 := by
  unfold dispatchInner
  by_cases hv : r.jsonrpc = Control.JSONRPC_VERSION <;> simp [hv, finish]

/-- Same for the socket entry point (configuration and hub state). -/
theorem C18_notification_applied_async (env : Env) (c : Config) (ctx : Option Ctx) (r : Request)
    (i : Json) :
    (dispatchAsync env c ctx (.request { r with id := none })).2.2 = none ∧
    (dispatchAsync env c ctx (.request { r with id := none })).1 =
      (dispatchAsync env c ctx (.request { r with id := some i })).1 ∧
    (dispatchAsync env c ctx (.request { r with id := none })).2.1 =
      (dispatchAsync env c ctx (.request { r with id := some i })).2.1 := by
  unfold dispatchAsync
  by_cases hv : r.jsonrpc = Control.JSONRPC_VERSION
  · cases ctx with
    | none => simp [hv, finish]
    | some x =>
      simp only [hv, ne_eq, not_true_eq_false, if_false]
      split
      · simp [finish]
      · split
        · simp [finish]
        · split <;> simp [finish]
  · simp [hv]

example : ShapeOK (.request ⟨"2.0", "set_mode", .obj [("mode", .str "classic")], some (.str "a")⟩)
    (some (Response.ok (.str "a") (.obj [("mode", .str "classic")]))) :=
  ⟨_, rfl, rfl, rfl⟩

/-! ## Error codes -/

private theorem code_finish (id : Option Json) (res : Except ErrObj Json) (k : Int) :
    code? (finish id res) = some k ↔ ∃ i e, id = some i ∧ res = .error e ∧ e.code = k := by
  cases id with
  | none => simp [finish, code?]
  | some i =>
    cases res with
    | ok v => simp [finish, code?, Response.ok]
    | error e => simp [finish, code?, Response.err]

private theorem code_version (id : Option Json) (k : Int) :
    code? (id.map versionError) = some k ↔ (∃ i, id = some i) ∧ k = -32600 := by
  cases id with
  | none => simp [code?]
  | some i =>
    simp [code?, versionError, Response.err, ErrObj.new, Control.INVALID_REQUEST_eq]
    omega

/-- `-32700` exactly for unparsable lines (any deserialisation failure of the request struct). -/
theorem C18_code_parse_error (env : Env) (c : Config) (l : Line) :
    code? (dispatchInner env c l).2 = some (-32700) ↔ l = .unparsable := by
  cases l with
  | blank => simp [dispatchInner, code?]
  | unparsable => simp [dispatchInner, code?, parseErrorResponse, Response.err, Control.PARSE_ERROR_eq]
  | request r =>
    by_cases hv : r.jsonrpc = "2.0"
    · rw [dispatchInner_v2 env c r hv, code_finish]
      have H := handleMethod_HM env c r.method r.params
      generalize handleMethod env c r.method r.params = out at H
      simp only [reduceCtorEq, iff_false, not_exists, not_and]
      intro i e _ he
      cases H <;> simp_all [ErrObj.new]
      all_goals (subst he; simp)
    · rw [dispatchInner_badVersion env c r hv, code_version]
      simp

/-- `-32600` exactly for decoded requests with an id whose `jsonrpc` member is not `"2.0"`. -/
theorem C18_code_invalid_request (env : Env) (c : Config) (l : Line) :
    code? (dispatchInner env c l).2 = some (-32600) ↔
      ∃ r i, l = .request r ∧ r.id = some i ∧ r.jsonrpc ≠ "2.0" := by
  cases l with
  | blank => simp [dispatchInner, code?]
  | unparsable => simp [dispatchInner, code?, parseErrorResponse, Response.err, Control.PARSE_ERROR_eq]
  | request r =>
    by_cases hv : r.jsonrpc = "2.0"
    · rw [dispatchInner_v2 env c r hv, code_finish]
      have H := handleMethod_HM env c r.method r.params
      generalize handleMethod env c r.method r.params = out at H
      constructor
      · rintro ⟨i, e, _, he, hc⟩
        exfalso
        cases H <;> simp_all [ErrObj.new]
        all_goals (subst he; simp at hc)
      · rintro ⟨r', i, hr, _, hv'⟩
        cases hr
        exact absurd hv hv'
    · rw [dispatchInner_badVersion env c r hv, code_version]
      constructor
      · rintro ⟨⟨i, hi⟩, _⟩
        exact ⟨r, i, rfl, hi, hv⟩
      · rintro ⟨r', i, hr, hi, _⟩
        cases hr
        exact ⟨⟨i, hi⟩, rfl⟩

/-- `-32601` exactly for version-2.0 requests with an id whose method is none of the six
built-ins (on stdin that includes `subscribe` / `unsubscribe`, which are reserved names). -/
theorem C18_code_method_not_found (env : Env) (c : Config) (l : Line) :
    code? (dispatchInner env c l).2 = some (-32601) ↔
      ∃ r i, l = .request r ∧ r.id = some i ∧ r.jsonrpc = "2.0" ∧ r.method ∉ builtin := by
  cases l with
  | blank => simp [dispatchInner, code?]
  | unparsable => simp [dispatchInner, code?, parseErrorResponse, Response.err, Control.PARSE_ERROR_eq]
  | request r =>
    by_cases hv : r.jsonrpc = "2.0"
    · rw [dispatchInner_v2 env c r hv, code_finish]
      have H := handleMethod_HM env c r.method r.params
      generalize handleMethod env c r.method r.params = out at H
      constructor
      · rintro ⟨i, e, hi, he, hc⟩
        refine ⟨r, i, rfl, hi, hv, ?_⟩
        cases H <;> simp_all [ErrObj.new, builtin]
        all_goals first
          | (subst he; simp at hc)
          | (rename_i h; rcases h with h | h <;> simp [h])
      · rintro ⟨r', i, hr, hi, _, hm⟩
        cases hr
        refine ⟨i, ?_⟩
        cases H <;> simp_all [ErrObj.new, builtin]
    · rw [dispatchInner_badVersion env c r hv, code_version]
      constructor
      · rintro ⟨_, h⟩
        omega
      · rintro ⟨r', i, hr, _, hv', _⟩
        cases hr
        exact absurd hv' hv

/-- `-32602` exactly for version-2.0 requests with an id to one of the four setters whose
parameter is missing, of the wrong JSON type, or (for `set_mode`) not `classic`/`enhanced`.
`ms` must be a non-negative JSON integer below 2^64: floats such as `1000.0`, negatives and
numeric strings are bad parameters. -/
theorem C18_code_invalid_params (env : Env) (c : Config) (l : Line) :
    code? (dispatchInner env c l).2 = some (-32602) ↔
      ∃ r i, l = .request r ∧ r.id = some i ∧ r.jsonrpc = "2.0" ∧ BadParams r.method r.params := by
  cases l with
  | blank => simp [dispatchInner, code?]
  | unparsable => simp [dispatchInner, code?, parseErrorResponse, Response.err, Control.PARSE_ERROR_eq]
  | request r =>
    by_cases hv : r.jsonrpc = "2.0"
    · rw [dispatchInner_v2 env c r hv, code_finish]
      have H := handleMethod_HM env c r.method r.params
      generalize handleMethod env c r.method r.params = out at H
      constructor
      · rintro ⟨i, e, hi, he, hc⟩
        refine ⟨r, i, rfl, hi, hv, ?_⟩
        unfold BadParams
        cases H <;> simp_all [ErrObj.new]
        all_goals (subst he; simp at hc)
      · rintro ⟨r', i, hr, hi, _, hb⟩
        cases hr
        refine ⟨i, ?_⟩
        unfold BadParams at hb
        cases H <;> simp_all [ErrObj.new]
        all_goals (rename_i md _; cases md <;> simp_all [Mode.toStr])
    · rw [dispatchInner_badVersion env c r hv, code_version]
      constructor
      · rintro ⟨_, h⟩
        omega
      · rintro ⟨r', i, hr, _, hv', _⟩
        cases hr
        exact absurd hv' hv

/-- `-32603` exactly for `get_stats` when no stats provider was registered. -/
theorem C18_code_internal (env : Env) (c : Config) (l : Line) :
    code? (dispatchInner env c l).2 = some (-32603) ↔
      ∃ r i, l = .request r ∧ r.id = some i ∧ r.jsonrpc = "2.0" ∧ r.method = "get_stats" ∧
        env.stats = none := by
  cases l with
  | blank => simp [dispatchInner, code?]
  | unparsable => simp [dispatchInner, code?, parseErrorResponse, Response.err, Control.PARSE_ERROR_eq]
  | request r =>
    by_cases hv : r.jsonrpc = "2.0"
    · rw [dispatchInner_v2 env c r hv, code_finish]
      have H := handleMethod_HM env c r.method r.params
      generalize handleMethod env c r.method r.params = out at H
      constructor
      · rintro ⟨i, e, hi, he, hc⟩
        refine ⟨r, i, rfl, hi, hv, ?_⟩
        cases H <;> simp_all [ErrObj.new]
        all_goals (subst he; simp at hc)
      · rintro ⟨r', i, hr, hi, _, hm, hs⟩
        cases hr
        refine ⟨i, ?_⟩
        cases H <;> simp_all [ErrObj.new]
    · rw [dispatchInner_badVersion env c r hv, code_version]
      constructor
      · rintro ⟨_, h⟩
        omega
      · rintro ⟨r', i, hr, _, hv', _⟩
        cases hr
        exact absurd hv' hv

/-- No other error code is ever produced. -/
theorem C18_codes_exhaustive (env : Env) (c : Config) (l : Line) (k : Int)
    (h : code? (dispatchInner env c l).2 = some k) :
    k = -32700 ∨ k = -32600 ∨ k = -32601 ∨ k = -32602 ∨ k = -32603 := by
  cases l with
  | blank => simp [dispatchInner, code?] at h
  | unparsable =>
    simp [dispatchInner, code?, parseErrorResponse, Response.err, Control.PARSE_ERROR_eq] at h
    omega
  | request r =>
    by_cases hv : r.jsonrpc = "2.0"
    · rw [dispatchInner_v2 env c r hv, code_finish] at h
      obtain ⟨i, e, _, he, hc⟩ := h
      have H := handleMethod_HM env c r.method r.params
      generalize handleMethod env c r.method r.params = out at H he
      cases H <;> simp_all [ErrObj.new]
      all_goals (subst he; simp at hc; omega)
    · rw [dispatchInner_badVersion env c r hv, code_version] at h
      omega

example : code? (dispatchInner ⟨none, none⟩ Config.new
    (.request ⟨"2.0", "set_conn_timeout", .obj [("ms", .num (.flt 4652007308841189376))], some .null⟩)).2
    = some (-32602) := by
  rw [C18_code_invalid_params]
  exact ⟨_, _, rfl, rfl, rfl, .inr (.inr ⟨rfl, by simp [Json.get, Json.asU64]⟩)⟩

end Srtla.Props.C18
