import Srtla.Model.Control
import Srtla.Lemmas.Control
/-!
# C18 — runtime control protocol is total, well-formed and takes effect

Property theorems only.  Quantification is over **every** decoded line (`Line`: blank,
unparsable, or any `Request` with arbitrary strings / JSON values), every environment (stats
provider and `CriticalWindow` present or not), every configuration, and every finite sequence of
lines; the concurrency clauses (`C18_timeout_clamped_concurrent`, `C18_set_visible_concurrent*`) are
over every schedule of the atomics model `Conc` (relaxed atomics with per-location coherence).
Round 4 additions at the end of the file: sessions that may contain subscription calls
(`C18_subscription_calls_keep_config`, `C18_sync_eq_async_config`, `C18_sync_eq_async_run_mixed`,
`C18_set_visible_*_async`) and the concurrent visibility theorems.

Vocabulary (defined in `Srtla/Lemmas/Control.lean`, all with the property's literal numbers):
* `InRange t`        := `1000 ≤ t ∧ t ≤ 60000`
* `ExactlyOne resp`  := `resp.result.isSome = !resp.error.isSome`
* `code? o`          := the `error.code` of an optional response
* `ShapeOK line o`   := blank ⇒ `o = none`; unparsable ⇒ `o` is an error `-32700` with `id = null`,
                        `jsonrpc = "2.0"` and no result; request with `id = some i` ⇒ `o = some resp`, `resp.id = i`,
                        `ExactlyOne resp`; request without id ⇒ `o = none`
* `Pointwise R xs ys` := same length and `R` at every index
* `builtin`          := the six stdin methods; `BadParams m p` := the setter `m` finds no
                        well-typed / known value in `p`
* `statusReq p i`    := `{"jsonrpc":"2.0","method":"get_status","params":p,"id":i}`

Totality ("returns without panicking") is carried by the model being a total Lean function whose
every branch is tied to the real code by the differential run (with `catch_unwind` per line on
the real side); the one `assert!` on the path (`Ord::clamp`'s `min <= max`) is discharged by
`C18_clamp_bounds_ordered`.
-/
namespace Srtla.Props.C18
open Srtla.Control Srtla.Gen

/-! ## `Ord::clamp` cannot assert -/

theorem C18_clamp_bounds_ordered :
    Cfg.CONN_TIMEOUT_MS_MIN = 1000 ∧ Cfg.CONN_TIMEOUT_MS_MAX = 60000 ∧
      Cfg.CONN_TIMEOUT_MS_MIN ≤ Cfg.CONN_TIMEOUT_MS_MAX := by
  simp [Cfg.CONN_TIMEOUT_MS_MIN_eq, Cfg.CONN_TIMEOUT_MS_MAX_eq]

/-! ## Response shape -/

/-- One line, stdin entry point. -/
theorem C18_shape_sync (env : Env) (c : Config) (l : Line) :
    ShapeOK l (dispatchInner env c l).2 := by
  cases l with
  | blank => rfl
  | unparsable => exact ⟨_, rfl, by simp [Control.PARSE_ERROR_eq]⟩
  | request r =>
    unfold ShapeOK dispatchInner
    by_cases hv : r.jsonrpc = Control.JSONRPC_VERSION
    · simp only [hv, ne_eq, not_true_eq_false, if_false]
      exact finish_shape r.id _
    · simp only [hv, ne_eq, not_false_eq_true, if_true]
      exact map_versionError_shape r.id

/-- One line, socket entry point, with or without a `SubscriptionContext`. -/
theorem C18_shape_async (env : Env) (c : Config) (ctx : Option Ctx) (l : Line) :
    ShapeOK l (dispatchAsync env c ctx l).2.2 := by
  cases l with
  | blank => rfl
  | unparsable => exact ⟨_, rfl, by simp [Control.PARSE_ERROR_eq]⟩
  | request r =>
    unfold ShapeOK
    by_cases hv : r.jsonrpc = Control.JSONRPC_VERSION
    · obtain ⟨res, hres⟩ := async_resp_finish env c ctx r hv
      rw [hres]
      exact finish_shape r.id res
    · unfold dispatchAsync
      simp only [hv, ne_eq, not_false_eq_true, if_true]
      exact map_versionError_shape r.id

/-- **Response shape, all sequences (stdin).**  For every sequence of lines, each under an
arbitrary environment, the k-th output is: nothing for a blank line or a notification; a
`-32700` error with `id: null` for an unparsable line; and for a request carrying an id exactly
one response echoing that id with exactly one of `result` / `error`. -/
theorem C18_response_shape (c : Config) (ls : List (Env × Line)) :
    Pointwise (fun el o => ShapeOK el.2 o) ls (runSync c ls).2 := by
  induction ls generalizing c with
  | nil => exact .nil
  | cons el rest ih => exact .cons (C18_shape_sync el.1 c el.2) (ih _)

/-- **Response shape, all sequences (socket)**, from any hub / owned-id state. -/
theorem C18_response_shape_async (c : Config) (ctx : Option Ctx) (ls : List (Env × Line)) :
    Pointwise (fun el o => ShapeOK el.2 o) ls (runAsync c ctx ls).2.2 := by
  induction ls generalizing c ctx with
  | nil => exact .nil
  | cons el rest ih => exact .cons (C18_shape_async el.1 c ctx el.2) (ih _ _)

example : ShapeOK (.request ⟨"2.0", "set_mode", .obj [("mode", .str "classic")], some (.str "a")⟩)
    (some (Response.ok (.str "a") (.obj [("mode", .str "classic")]))) :=
  ⟨_, rfl, rfl, rfl⟩

/-- **A notification is still applied**: dropping the id of a request changes nothing but the
absence of the response — the configuration afterwards is the one the same request with any id
`i` produces. -/
theorem C18_notification_applied (env : Env) (c : Config) (r : Request) (i : Json) :
    (dispatchInner env c (.request { r with id := none })).2 = none ∧
    (dispatchInner env c (.request { r with id := none })).1 =
      (dispatchInner env c (.request { r with id := some i })).1 := by
  unfold dispatchInner
  by_cases hv : r.jsonrpc = Control.JSONRPC_VERSION <;> simp [hv, finish]

/-- Same for the socket entry point (configuration and hub / owned-id state). -/
theorem C18_notification_applied_async (env : Env) (c : Config) (ctx : Option Ctx) (r : Request)
    (i : Json) :
    (dispatchAsync env c ctx (.request { r with id := none })).2.2 = none ∧
    (dispatchAsync env c ctx (.request { r with id := none })).1 =
      (dispatchAsync env c ctx (.request { r with id := some i })).1 ∧
    (dispatchAsync env c ctx (.request { r with id := none })).2.1 =
      (dispatchAsync env c ctx (.request { r with id := some i })).2.1 := by
  unfold dispatchAsync
  by_cases hv : r.jsonrpc = Control.JSONRPC_VERSION
  · cases ctx with
    | none => simp [hv, finish]
    | some x =>
      simp only [hv, ne_eq, not_true_eq_false, if_false]
      by_cases h1 : r.method = "subscribe"
      · simp [h1, finish]
      · by_cases h2 : r.method = "unsubscribe"
        · simp [h2, finish]
        · by_cases h3 : r.method = "get_subscription_count"
          · simp [h3, finish]
          · simp [h1, h2, h3, finish]
  · simp [hv]

/-- A notification really changes the configuration (and says nothing). -/
example :
    let out := dispatchInner ⟨none, none⟩ Config.new
      (.request ⟨"2.0", "set_mode", .obj [("mode", .str "classic")], none⟩)
    out.1 = { Config.new with mode := 0 } ∧ out.2.isNone ∧ Config.new.mode = 1 := by
  decide

/-! ## Error codes (stdin entry point; the socket agrees by `C18_sync_eq_async*`) -/

/-- `-32700` exactly for unparsable lines (any deserialisation failure of the request struct,
including valid JSON of the wrong shape). -/
theorem C18_code_parse_error (env : Env) (c : Config) (l : Line) :
    code? (dispatchInner env c l).2 = some (-32700) ↔ l = .unparsable := by
  cases l with
  | blank => simpa using code_blank env c (-32700)
  | unparsable => simpa using code_unparsable env c
  | request r =>
    simp only [reduceCtorEq, iff_false]
    by_cases hv : r.jsonrpc = "2.0"
    · rw [code_v2 env c r hv]
      rintro ⟨_, e, he, hc⟩
      have := hm_codes env c r.method r.params e he
      omega
    · rw [code_badVersion env c r hv]
      omega

/-- `-32600` exactly for decoded requests with an id whose `jsonrpc` member is not `"2.0"`. -/
theorem C18_code_invalid_request (env : Env) (c : Config) (l : Line) :
    code? (dispatchInner env c l).2 = some (-32600) ↔
      ∃ r i, l = .request r ∧ r.id = some i ∧ r.jsonrpc ≠ "2.0" := by
  cases l with
  | blank => simpa using code_blank env c (-32600)
  | unparsable => simp [code_unparsable env c]
  | request r =>
    by_cases hv : r.jsonrpc = "2.0"
    · rw [code_v2 env c r hv]
      constructor
      · rintro ⟨_, e, he, hc⟩
        have := hm_codes env c r.method r.params e he
        omega
      · rintro ⟨r', i, hr, _, hv'⟩
        cases hr
        exact absurd hv hv'
    · rw [code_badVersion env c r hv]
      constructor
      · rintro ⟨⟨i, hi⟩, _⟩
        exact ⟨r, i, rfl, hi, hv⟩
      · rintro ⟨r', i, hr, hi, _⟩
        cases hr
        exact ⟨⟨i, hi⟩, rfl⟩

/-- `-32601` exactly for version-2.0 requests with an id whose method is none of the six
built-ins (on stdin that includes `subscribe` / `unsubscribe`, which are reserved names). -/
theorem C18_code_method_not_found (env : Env) (c : Config) (l : Line) :
    code? (dispatchInner env c l).2 = some (-32601) ↔
      ∃ r i, l = .request r ∧ r.id = some i ∧ r.jsonrpc = "2.0" ∧ r.method ∉ builtin := by
  cases l with
  | blank => simpa using code_blank env c (-32601)
  | unparsable => simp [code_unparsable env c]
  | request r =>
    by_cases hv : r.jsonrpc = "2.0"
    · rw [code_v2 env c r hv, hm_code_601]
      constructor
      · rintro ⟨⟨i, hi⟩, hm⟩
        exact ⟨r, i, rfl, hi, hv, hm⟩
      · rintro ⟨r', i, hr, hi, _, hm⟩
        cases hr
        exact ⟨⟨i, hi⟩, hm⟩
    · rw [code_badVersion env c r hv]
      constructor
      · rintro ⟨_, h⟩
        omega
      · rintro ⟨r', i, hr, _, hv', _⟩
        cases hr
        exact absurd hv' hv

/-- `-32602` exactly for version-2.0 requests with an id to one of the four setters whose
parameter is missing, of the wrong JSON type, or (for `set_mode`) not `classic`/`enhanced`.
`ms` must be a non-negative JSON integer below 2^64: floats such as `1000.0`, negatives and
numeric strings are bad parameters. -/
theorem C18_code_invalid_params (env : Env) (c : Config) (l : Line) :
    code? (dispatchInner env c l).2 = some (-32602) ↔
      ∃ r i, l = .request r ∧ r.id = some i ∧ r.jsonrpc = "2.0" ∧ BadParams r.method r.params := by
  cases l with
  | blank => simpa using code_blank env c (-32602)
  | unparsable => simp [code_unparsable env c]
  | request r =>
    by_cases hv : r.jsonrpc = "2.0"
    · rw [code_v2 env c r hv, hm_code_602]
      constructor
      · rintro ⟨⟨i, hi⟩, hm⟩
        exact ⟨r, i, rfl, hi, hv, hm⟩
      · rintro ⟨r', i, hr, hi, _, hm⟩
        cases hr
        exact ⟨⟨i, hi⟩, hm⟩
    · rw [code_badVersion env c r hv]
      constructor
      · rintro ⟨_, h⟩
        omega
      · rintro ⟨r', i, hr, _, hv', _⟩
        cases hr
        exact absurd hv' hv

/-- `-32603` exactly for `get_stats` when no stats provider was registered. -/
theorem C18_code_internal (env : Env) (c : Config) (l : Line) :
    code? (dispatchInner env c l).2 = some (-32603) ↔
      ∃ r i, l = .request r ∧ r.id = some i ∧ r.jsonrpc = "2.0" ∧ r.method = "get_stats" ∧
        env.stats = none := by
  cases l with
  | blank => simpa using code_blank env c (-32603)
  | unparsable => simp [code_unparsable env c]
  | request r =>
    by_cases hv : r.jsonrpc = "2.0"
    · rw [code_v2 env c r hv, hm_code_603]
      constructor
      · rintro ⟨⟨i, hi⟩, hm⟩
        exact ⟨r, i, rfl, hi, hv, hm⟩
      · rintro ⟨r', i, hr, hi, _, hm⟩
        cases hr
        exact ⟨⟨i, hi⟩, hm⟩
    · rw [code_badVersion env c r hv]
      constructor
      · rintro ⟨_, h⟩
        omega
      · rintro ⟨r', i, hr, _, hv', _⟩
        cases hr
        exact absurd hv' hv

/-- No other error code is ever produced; hence a response carries a `result` exactly when none
of the five conditions above holds. -/
theorem C18_codes_exhaustive (env : Env) (c : Config) (l : Line) (k : Int)
    (h : code? (dispatchInner env c l).2 = some k) :
    k = -32700 ∨ k = -32600 ∨ k = -32601 ∨ k = -32602 ∨ k = -32603 := by
  cases l with
  | blank => exact absurd h (code_blank env c k)
  | unparsable =>
    rw [code_unparsable env c] at h
    cases h
    exact .inl rfl
  | request r =>
    by_cases hv : r.jsonrpc = "2.0"
    · rw [code_v2 env c r hv] at h
      obtain ⟨_, e, he, hc⟩ := h
      have := hm_codes env c r.method r.params e he
      omega
    · rw [code_badVersion env c r hv] at h
      omega

/-- `1000.0` (a float) is not an acceptable `ms`. -/
example : code? (dispatchInner ⟨none, none⟩ Config.new
    (.request ⟨"2.0", "set_conn_timeout", .obj [("ms", .num (.flt 4652007308841189376))], some .null⟩)).2
    = some (-32602) := by
  rw [C18_code_invalid_params]
  exact ⟨_, _, rfl, rfl, rfl, .inr (.inr ⟨rfl, by simp [Json.get, Json.asU64]⟩)⟩

example : code? (dispatchInner ⟨none, none⟩ Config.new
    (.request ⟨"1.0", "get_status", .null, some (.num (.pos 1))⟩)).2 = some (-32600) := by decide

/-- `subscribe` on stdin is a reserved name: method not found. -/
example : code? (dispatchInner ⟨none, none⟩ Config.new
    (.request ⟨"2.0", "subscribe", .obj [("topic", .str "stats")], some (.num (.pos 1))⟩)).2
    = some (-32601) := by decide

example : code? (dispatchInner ⟨none, none⟩ Config.new
    (.request ⟨"2.0", "get_stats", .null, some (.num (.pos 1))⟩)).2 = some (-32603) ∧
  code? (dispatchInner ⟨some (.obj []), none⟩ Config.new
    (.request ⟨"2.0", "get_stats", .null, some (.num (.pos 1))⟩)).2 = none := by decide

/-! ## A successful `set_*` is visible in the next status and snapshot

`mid` is any sequence of further lines (blank, unparsable, requests of any kind, under any
environments) that does not call the same setter again; the status is asked with any params,
any id, under any environment. -/

theorem C18_set_visible_mode (env : Env) (c : Config) (r : Request) (md : Mode)
    (hv : r.jsonrpc = "2.0") (hm : r.method = "set_mode")
    (hp : (r.params.get "mode").bind Json.asStr = some md.toStr)
    (mid : List (Env × Line))
    (hmid : ∀ el ∈ mid, ∀ q, el.2 = .request q → q.method ≠ "set_mode")
    (env' : Env) (p' i' : Json) :
    let c1 := (dispatchInner env c (.request r)).1
    let c2 := (runSync c1 mid).1
    (∀ i, r.id = some i → (dispatchInner env c (.request r)).2 =
        some (Response.ok i (.obj [("mode", .str md.toStr)]))) ∧
    c1.snapshot.mode = md ∧ c2.snapshot.mode = md ∧
    ∃ st, (dispatchInner env' c2 (statusReq p' i')).2 = some (Response.ok i' st) ∧
      st.get "mode" = some (.str md.toStr) := by
  intro c1 c2
  have h1 : dispatchInner env c (.request r) =
      (c.setMode md, finish r.id (.ok (.obj [("mode", .str md.toStr)]))) := by
    rw [dispatchInner_v2 env c r hv, hm, handleMethod_set_mode env c r.params md hp]
  have hc1 : c1.mode = md.asU8 := by simp [c1, h1, Config.setMode]
  have hc2 : c2.mode = md.asU8 := by
    rw [← hc1]
    exact runSync_frame (·.mode) "set_mode" (by simp) (by simp [Config.setQuality])
      (by simp [Config.setStall]) (by simp [Config.setConnTimeout]) c1 mid hmid
  refine ⟨?_, ?_, ?_, ?_⟩
  · intro i hi
    simp [h1, hi, finish]
  · simp [Config.snapshot, hc1, Mode.fromU8_asU8]
  · simp [Config.snapshot, hc2, Mode.fromU8_asU8]
  · refine ⟨_, by rw [status_reply], ?_⟩
    simp [statusJson, Json.get, List.find?, Config.snapshot, hc2, Mode.fromU8_asU8]

theorem C18_set_visible_quality (env : Env) (c : Config) (r : Request) (b : Bool)
    (hv : r.jsonrpc = "2.0") (hm : r.method = "set_quality")
    (hp : (r.params.get "enabled").bind Json.asBool = some b)
    (mid : List (Env × Line))
    (hmid : ∀ el ∈ mid, ∀ q, el.2 = .request q → q.method ≠ "set_quality")
    (env' : Env) (p' i' : Json) :
    let c1 := (dispatchInner env c (.request r)).1
    let c2 := (runSync c1 mid).1
    (∀ i, r.id = some i → (dispatchInner env c (.request r)).2 =
        some (Response.ok i (.obj [("enabled", .bool b)]))) ∧
    c1.snapshot.quality = b ∧ c2.snapshot.quality = b ∧
    ∃ st, (dispatchInner env' c2 (statusReq p' i')).2 = some (Response.ok i' st) ∧
      st.get "quality_enabled" = some (.bool b) := by
  intro c1 c2
  have h1 : dispatchInner env c (.request r) =
      (c.setQuality b, finish r.id (.ok (.obj [("enabled", .bool b)]))) := by
    rw [dispatchInner_v2 env c r hv, hm, handleMethod_set_quality env c r.params b hp]
  have hc1 : c1.quality = b := by simp [c1, h1, Config.setQuality]
  have hc2 : c2.quality = b := by
    rw [← hc1]
    exact runSync_frame (·.quality) "set_quality" (by simp [Config.setMode]) (by simp)
      (by simp [Config.setStall]) (by simp [Config.setConnTimeout]) c1 mid hmid
  refine ⟨?_, ?_, ?_, ?_⟩
  · intro i hi
    simp [h1, hi, finish]
  · simp [Config.snapshot, hc1]
  · simp [Config.snapshot, hc2]
  · refine ⟨_, by rw [status_reply], ?_⟩
    simp [statusJson, Json.get, List.find?, Config.snapshot, hc2]

theorem C18_set_visible_stall_deselect (env : Env) (c : Config) (r : Request) (b : Bool)
    (hv : r.jsonrpc = "2.0") (hm : r.method = "set_stall_deselect")
    (hp : (r.params.get "enabled").bind Json.asBool = some b)
    (mid : List (Env × Line))
    (hmid : ∀ el ∈ mid, ∀ q, el.2 = .request q → q.method ≠ "set_stall_deselect")
    (env' : Env) (p' i' : Json) :
    let c1 := (dispatchInner env c (.request r)).1
    let c2 := (runSync c1 mid).1
    (∀ i, r.id = some i → (dispatchInner env c (.request r)).2 =
        some (Response.ok i (.obj [("enabled", .bool b)]))) ∧
    c1.snapshot.stall = b ∧ c2.snapshot.stall = b ∧
    ∃ st, (dispatchInner env' c2 (statusReq p' i')).2 = some (Response.ok i' st) ∧
      st.get "stall_deselect" = some (.bool b) := by
  intro c1 c2
  have h1 : dispatchInner env c (.request r) =
      (c.setStall b, finish r.id (.ok (.obj [("enabled", .bool b)]))) := by
    rw [dispatchInner_v2 env c r hv, hm, handleMethod_set_stall env c r.params b hp]
  have hc1 : c1.stall = b := by simp [c1, h1, Config.setStall]
  have hc2 : c2.stall = b := by
    rw [← hc1]
    exact runSync_frame (·.stall) "set_stall_deselect" (by simp [Config.setMode])
      (by simp [Config.setQuality]) (by simp) (by simp [Config.setConnTimeout]) c1 mid hmid
  refine ⟨?_, ?_, ?_, ?_⟩
  · intro i hi
    simp [h1, hi, finish]
  · simp [Config.snapshot, hc1]
  · simp [Config.snapshot, hc2]
  · refine ⟨_, by rw [status_reply], ?_⟩
    simp [statusJson, Json.get, List.find?, Config.snapshot, hc2]

/-- `set_conn_timeout`: what becomes visible is the **clamped** value, and the reply says so. -/
theorem C18_set_visible_conn_timeout (env : Env) (c : Config) (r : Request) (ms : Nat)
    (hv : r.jsonrpc = "2.0") (hm : r.method = "set_conn_timeout")
    (hp : (r.params.get "ms").bind Json.asU64 = some ms)
    (mid : List (Env × Line))
    (hmid : ∀ el ∈ mid, ∀ q, el.2 = .request q → q.method ≠ "set_conn_timeout")
    (env' : Env) (p' i' : Json) :
    let applied := clampU64 ms 1000 60000
    let c1 := (dispatchInner env c (.request r)).1
    let c2 := (runSync c1 mid).1
    (∀ i, r.id = some i → (dispatchInner env c (.request r)).2 =
        some (Response.ok i (.obj [("ms", .num (.pos applied))]))) ∧
    c1.snapshot.timeout = applied ∧ c2.snapshot.timeout = applied ∧
    ∃ st, (dispatchInner env' c2 (statusReq p' i')).2 = some (Response.ok i' st) ∧
      st.get "conn_timeout_ms" = some (.num (.pos applied)) := by
  intro applied c1 c2
  have h1 : dispatchInner env c (.request r) =
      ({ c with timeout := applied }, finish r.id (.ok (.obj [("ms", .num (.pos applied))]))) := by
    rw [dispatchInner_v2 env c r hv, hm, handleMethod_set_conn_timeout env c r.params ms hp]
    simp [Config.setConnTimeout, applied, Json.ofNat, Cfg.CONN_TIMEOUT_MS_MIN_eq,
      Cfg.CONN_TIMEOUT_MS_MAX_eq]
  have hc1 : c1.timeout = applied := by simp [c1, h1]
  have hc2 : c2.timeout = applied := by
    rw [← hc1]
    exact runSync_frame (·.timeout) "set_conn_timeout" (by simp [Config.setMode])
      (by simp [Config.setQuality]) (by simp [Config.setStall]) (by simp) c1 mid hmid
  refine ⟨?_, ?_, ?_, ?_⟩
  · intro i hi
    simp [h1, hi, finish]
  · simp [Config.snapshot, hc1]
  · simp [Config.snapshot, hc2]
  · refine ⟨_, by rw [status_reply], ?_⟩
    simp [statusJson, Json.get, List.find?, Config.snapshot, hc2, Json.ofNat]

/-- The hypotheses are satisfiable: a notification `set_conn_timeout {ms: 7}` followed by junk. -/
example :
    let r : Request := ⟨"2.0", "set_conn_timeout", .obj [("ms", .num (.pos 7))], none⟩
    let mid : List (Env × Line) := [(⟨none, none⟩, .unparsable), (⟨none, none⟩, .blank)]
    (runSync (dispatchInner ⟨none, none⟩ Config.new (.request r)).1 mid).1.snapshot.timeout = 1000 :=
  (C18_set_visible_conn_timeout ⟨none, none⟩ Config.new _ 7 rfl rfl
    (by simp [Json.get, Json.asU64]) _ (by simp) ⟨none, none⟩ .null .null).2.2.1

/-! ## The connection timeout is always within 1000..60000 -/

/-- Both constructors establish the range, whatever the CLI passes. -/
theorem C18_timeout_clamped_init :
    InRange Config.new.timeout ∧
    ∀ mode nq ns mi st t, InRange (Config.fromCli mode nq ns mi st t).timeout := by
  refine ⟨by simp [InRange, Config.new, Cfg.CONN_TIMEOUT_MS_eq], ?_⟩
  intro mode nq ns mi st t
  exact clamp_inRange t

/-- `from_cli` clamps both ways. -/
example : (Config.fromCli .classic false false (-1) 0 18446744073709551615).timeout = 60000 ∧
    (Config.fromCli .classic false false (-1) 0 0).timeout = 1000 := by decide

/-- Every line, either entry point, any hub state: the range is preserved. -/
theorem C18_timeout_clamped_step (env : Env) (c : Config) (l : Line) (h : InRange c.timeout) :
    InRange (dispatchInner env c l).1.timeout ∧
    ∀ ctx, InRange (dispatchAsync env c ctx l).1.timeout := by
  have hm : ∀ m p, InRange (handleMethod env c m p).1.timeout := by
    intro m p
    rcases (handleMethod_HM env c m p).config with
      h0 | ⟨_, md, h0⟩ | ⟨_, b, h0⟩ | ⟨_, b, h0⟩ | ⟨_, ms, h0⟩ <;> rw [h0]
    · exact h
    · exact h
    · exact h
    · exact h
    · exact clamp_inRange ms
  constructor
  · cases l with
    | blank => exact h
    | unparsable => exact h
    | request r =>
      by_cases hv : r.jsonrpc = "2.0"
      · rw [dispatchInner_v2 env c r hv]; exact hm _ _
      · rw [dispatchInner_badVersion env c r hv]; exact h
  · intro ctx
    cases l with
    | blank => exact h
    | unparsable => exact h
    | request r =>
      unfold dispatchAsync
      by_cases hv : r.jsonrpc = Control.JSONRPC_VERSION
      · simp only [hv, ne_eq, not_true_eq_false, if_false]
        cases ctx with
        | none => exact hm _ _
        | some x =>
          simp only
          split
          · exact h
          · split
            · exact h
            · split
              · exact h
              · exact hm _ _
      · simp only [hv, ne_eq, not_false_eq_true, if_true]; exact h

/-- **Always**, over every sequence of lines from either constructor (every prefix of a
sequence is a sequence, so this is an invariant of the whole history). -/
theorem C18_timeout_clamped (c : Config) (h : InRange c.timeout) (ls : List (Env × Line)) :
    InRange (runSync c ls).1.timeout ∧ ∀ ctx, InRange (runAsync c ctx ls).1.timeout := by
  induction ls generalizing c with
  | nil => exact ⟨h, fun _ => h⟩
  | cons el rest ih =>
    have hs := C18_timeout_clamped_step el.1 c el.2 h
    exact ⟨(ih _ hs.1).1, fun ctx => (ih _ (hs.2 ctx)).2 _⟩

/-- The reply to `set_conn_timeout` echoes the value that was stored, which is the clamp of the
request and lies in the range. -/
theorem C18_timeout_reply_echoes_stored (env : Env) (c : Config) (r : Request) (ms : Nat) (i : Json)
    (hv : r.jsonrpc = "2.0") (hm : r.method = "set_conn_timeout")
    (hp : (r.params.get "ms").bind Json.asU64 = some ms) (hi : r.id = some i) :
    let out := dispatchInner env c (.request r)
    out.2 = some (Response.ok i (.obj [("ms", .num (.pos out.1.timeout))])) ∧
    out.1.timeout = clampU64 ms 1000 60000 ∧ InRange out.1.timeout := by
  have h := C18_set_visible_conn_timeout env c r ms hv hm hp [] (by simp) env .null .null
  simp only [runSync] at h
  obtain ⟨h1, h2, -, -⟩ := h
  simp only [Config.snapshot] at h2
  refine ⟨?_, h2, ?_⟩
  · rw [h2]; exact h1 i hi
  · rw [h2]; exact clampU64_range ms 1000 60000 (by omega)

/-- **Every interleaving.**  `DynamicConfig` as independent relaxed atomic cells; any number of
tasks calling setters (one store each, the timeout setter clamping first) and `snapshot()` (six
separate loads in any order, each observing any value of the cell's modification order that is not
older than what the loading task has itself already stored or loaded — per-location coherence of
relaxed atomics, round 4; before, *any* value), scheduled arbitrarily.  From a configuration in range: every value ever stored in the timeout
cell, every timeout a reader has loaded into a snapshot under construction, every snapshot
returned and every value returned by `set_conn_timeout_ms` is within 1000..60000, and the
returned value is the clamp of the request. -/
theorem C18_timeout_clamped_concurrent (c : Config) (h : InRange c.timeout) (acts : List Act) :
    let fin := (Conc.init c).run acts
    (∀ v ∈ fin.1.cells.timeout, InRange v) ∧
    (∀ t p, fin.1.tasks t = .snapping p → ∀ v, p.timeout = some v → InRange v) ∧
    (∀ e ∈ fin.2, match e with
      | .timeoutApplied _ ms applied => applied = clampU64 ms 1000 60000 ∧ InRange applied
      | .snapshot _ snap => InRange snap.timeout) := by
  obtain ⟨⟨h1, h2⟩, h3⟩ := Conc.run_inv (Conc.init c) acts (Conc.init_inv c h)
  refine ⟨h1, h2, ?_⟩
  intro e he
  have := h3 e he
  cases e <;> exact this

/-- In the concurrent model too the value returned by the setter is the one it stored: the
store step that emits `timeoutApplied _ _ a` puts `a` at the head of the cell's history. -/
theorem C18_timeout_concurrent_reply_is_store (s s' : Conc) (t t' ms a : Nat)
    (h : s.step (.store t) = some (s', some (.timeoutApplied t' ms a))) :
    s'.cells.timeout = a :: s.cells.timeout := by
  simp only [Conc.step] at h
  split at h
  · rename_i op _
    cases op <;> simp at h
    obtain ⟨rfl, -, -, rfl⟩ := h
    rfl
  · cases h

/-- The model is not vacuous: a torn snapshot (mode read before a `set_mode`, timeout read after
a `set_conn_timeout 5`) is reachable, and its timeout is the clamped 1000. -/
example :
    ((Conc.init Config.new).run
      [.call 0 .snapshot, .load 0 .mode 0, .call 1 (.setMode .classic), .store 1,
       .call 2 (.setTimeout 5), .store 2, .load 0 .timeout 0, .load 0 .quality 0,
       .load 0 .stall 0, .load 0 .minInFlight 0, .load 0 .ackStale 0, .ret 0]).2 =
      [.timeoutApplied 2 5 1000,
       .snapshot 0 ⟨.enhanced, true, true, 32, 3000, 1000⟩] := by
  rfl

/-! ## The stdin and socket entry points agree -/

/-- Without a `SubscriptionContext` the socket entry point is the stdin one, on every line. -/
theorem C18_sync_eq_async_no_ctx (env : Env) (c : Config) (l : Line) :
    dispatchAsync env c none l = ((dispatchInner env c l).1, none, (dispatchInner env c l).2) := by
  cases l with
  | blank => rfl
  | unparsable => rfl
  | request r =>
    unfold dispatchAsync dispatchInner
    by_cases hv : r.jsonrpc = Control.JSONRPC_VERSION <;> simp [hv]

/-- With a `SubscriptionContext`, every line that is not a version-2.0 request for `subscribe`,
`unsubscribe` or `get_subscription_count` gets the same response and has the same effect as on
stdin, and leaves the hub and the owned ids alone. -/
theorem C18_sync_eq_async (env : Env) (c : Config) (x : Ctx) (l : Line)
    (h : ∀ r, l = .request r → r.jsonrpc = "2.0" →
      r.method ≠ "subscribe" ∧ r.method ≠ "unsubscribe" ∧ r.method ≠ "get_subscription_count") :
    dispatchAsync env c (some x) l =
      ((dispatchInner env c l).1, some x, (dispatchInner env c l).2) := by
  cases l with
  | blank => rfl
  | unparsable => rfl
  | request r =>
    unfold dispatchAsync dispatchInner
    by_cases hv : r.jsonrpc = Control.JSONRPC_VERSION
    · obtain ⟨h1, h2, h3⟩ := h r rfl hv
      simp [hv, h1, h2, h3]
    · simp [hv]

/-- Whole sessions: if no line is a subscription call, the two entry points produce the same
responses and the same final configuration, from any hub state. -/
theorem C18_sync_eq_async_run (c : Config) (ctx : Option Ctx) (ls : List (Env × Line))
    (h : ∀ el ∈ ls, ∀ r, el.2 = .request r → r.jsonrpc = "2.0" →
      r.method ≠ "subscribe" ∧ r.method ≠ "unsubscribe" ∧ r.method ≠ "get_subscription_count") :
    runAsync c ctx ls = ((runSync c ls).1, ctx, (runSync c ls).2) := by
  induction ls generalizing c with
  | nil => rfl
  | cons el rest ih =>
    have hstep : dispatchAsync el.1 c ctx el.2 =
        ((dispatchInner el.1 c el.2).1, ctx, (dispatchInner el.1 c el.2).2) := by
      cases ctx with
      | none => exact C18_sync_eq_async_no_ctx el.1 c el.2
      | some x => exact C18_sync_eq_async el.1 c x el.2 (h el (List.mem_cons_self ..))
    simp only [runAsync, runSync, hstep]
    rw [ih _ (fun el' hel => h el' (List.mem_cons_of_mem _ hel))]

/-- On the socket with a `SubscriptionContext` the three subscription methods are never
"method not found": they succeed or fail with `-32602` only (`subscribe` needs a string
`topic` that is `stats` or `priority.window`; `unsubscribe` needs a string `subscription_id`;
`get_subscription_count` always succeeds). -/
theorem C18_codes_async_subscription (env : Env) (c : Config) (x : Ctx) (r : Request) (i : Json)
    (hv : r.jsonrpc = "2.0") (hi : r.id = some i) :
    (r.method = "subscribe" →
      (code? (dispatchAsync env c (some x) (.request r)).2.2 = some (-32602) ↔
        ∀ t, (r.params.get "topic").bind Json.asStr = some t → t ≠ "stats" ∧ t ≠ "priority.window") ∧
      (code? (dispatchAsync env c (some x) (.request r)).2.2 = none ∨
        code? (dispatchAsync env c (some x) (.request r)).2.2 = some (-32602))) ∧
    (r.method = "unsubscribe" →
      (code? (dispatchAsync env c (some x) (.request r)).2.2 = some (-32602) ↔
        (r.params.get "subscription_id").bind Json.asStr = none) ∧
      (code? (dispatchAsync env c (some x) (.request r)).2.2 = none ∨
        code? (dispatchAsync env c (some x) (.request r)).2.2 = some (-32602))) ∧
    (r.method = "get_subscription_count" →
      (dispatchAsync env c (some x) (.request r)).2.2 =
        some (Response.ok i (.obj [("count", .num (.pos x.hub.entries.length))]))) := by
  refine ⟨?_, ?_, ?_⟩
  · intro hm
    simp only [dispatchAsync, version_lit, hv, ne_eq, not_true_eq_false, if_false, hm, if_true, hi,
      finish, handleSubscribe]
    cases ht : (r.params.get "topic").bind Json.asStr with
    | none => simp [code?, Response.err, ErrObj.new, Control.INVALID_PARAMS_eq]
    | some t =>
      by_cases h1 : t = "stats"
      · simp [h1, isKnownTopic, code?, Response.ok]
      · by_cases h2 : t = "priority.window"
        · simp [h2, isKnownTopic, code?, Response.ok]
        · simp [h1, h2, isKnownTopic, code?, Response.err, ErrObj.new, Control.INVALID_PARAMS_eq]
  · intro hm
    have hne : r.method ≠ "subscribe" := by rw [hm]; decide
    simp only [dispatchAsync, version_lit, hv, ne_eq, not_true_eq_false, if_false, hm, if_true, hi,
      finish, handleUnsubscribe]
    cases ht : (r.params.get "subscription_id").bind Json.asStr with
    | none => simp [code?, Response.err, ErrObj.new, Control.INVALID_PARAMS_eq]
    | some t => simp [code?, Response.ok]
  · intro hm
    simp [dispatchAsync, version_lit, hv, hm, hi, finish, Json.ofNat]

/-- The three excluded methods really differ (so the exclusion is needed, not vacuous). -/
example :
    code? (dispatchInner ⟨none, none⟩ Config.new
      (.request ⟨"2.0", "get_subscription_count", .null, some .null⟩)).2 = some (-32601) ∧
    code? (dispatchAsync ⟨none, none⟩ Config.new (some Ctx.init)
      (.request ⟨"2.0", "get_subscription_count", .null, some .null⟩)).2.2 = none := by
  decide

/-! ## Round 2: every response is a JSON-RPC **2.0** response -/

/-- The version constant regenerated from `src/control.rs` is the literal `"2.0"` (it is both what
a request must carry and what every response carries). -/
theorem C18_jsonrpc_version_pin : Control.JSONRPC_VERSION = "2.0" := rfl

/-- **Every response carries `"jsonrpc": "2.0"`** — whatever the line (unparsable, wrong version,
unknown method, bad parameters, success), the environment, the configuration, for both entry points
with or without a `SubscriptionContext`.  (`Response.jsonrpc` is the member the real `Response`
serialises first; the harness compares it with the member found in the real output.) -/
theorem C18_response_is_jsonrpc_2 (env : Env) (c : Config) (ctx : Option Ctx) (l : Line) (resp : Response) :
    ((dispatchInner env c l).2 = some resp → resp.jsonrpc = "2.0") ∧
    ((dispatchAsync env c ctx l).2.2 = some resp → resp.jsonrpc = "2.0") :=
  ⟨dispatchInner_jsonrpc env c l resp, dispatchAsync_jsonrpc env c ctx l resp⟩

/-- … hence along every sequence of lines, each under its own environment, from any state. -/
theorem C18_response_is_jsonrpc_2_run (c : Config) (ctx : Option Ctx) (ls : List (Env × Line)) (resp : Response) :
    (some resp ∈ (runSync c ls).2 → resp.jsonrpc = "2.0") ∧
    (some resp ∈ (runAsync c ctx ls).2.2 → resp.jsonrpc = "2.0") :=
  ⟨runSync_jsonrpc c ls resp, runAsync_jsonrpc c ctx ls resp⟩

/-- Non-vacuity: a success, a version error (the REQUEST said "1.0", the response still says "2.0"),
a parse error and an unknown method all produce a response, and its version member is "2.0". -/
example :
    ((dispatchInner ⟨none, none⟩ Config.new (statusReq .null (.str "a"))).2.map (·.jsonrpc)) = some "2.0" ∧
    ((dispatchInner ⟨none, none⟩ Config.new
      (.request ⟨"1.0", "get_status", .null, some (.str "a")⟩)).2.map (fun r => (r.jsonrpc, r.error.map (·.code))))
        = some ("2.0", some (-32600)) ∧
    ((dispatchInner ⟨none, none⟩ Config.new .unparsable).2.map (·.jsonrpc)) = some "2.0" ∧
    ((dispatchAsync ⟨none, none⟩ Config.new (some Ctx.init)
      (.request ⟨"2.0", "nope", .null, some .null⟩)).2.2.map (·.jsonrpc)) = some "2.0" := by
  decide

/-! ## Round 4 (P-C item 5): sessions that MAY contain subscription calls

`C18_sync_eq_async_run` needs the whole session free of `subscribe` / `unsubscribe` /
`get_subscription_count`, and the four `C18_set_visible_*` theorems are over `runSync`.  The three
subscription methods never touch the configuration (with a context they are answered from the hub,
without one they are "method not found"), so both restrictions can be dropped. -/

/-- `subscribe`, `unsubscribe`, `get_subscription_count` leave the `Config` unchanged: on the socket
entry point with or without a `SubscriptionContext`, and on stdin; any params, id, version. -/
theorem C18_subscription_calls_keep_config (env : Env) (c : Config) (ctx : Option Ctx) (r : Request)
    (hm : r.method = "subscribe" ∨ r.method = "unsubscribe" ∨ r.method = "get_subscription_count") :
    (dispatchAsync env c ctx (.request r)).1 = c ∧ (dispatchInner env c (.request r)).1 = c :=
  ⟨dispatchAsync_sub_config env c ctx r hm, dispatchInner_sub_config env c r hm⟩

/-- A successful `subscribe` on the socket: the hub grows, the configuration does not move. -/
example :
    let out := dispatchAsync ⟨none, none⟩ Config.new (some Ctx.init)
      (.request ⟨"2.0", "subscribe", .obj [("topic", .str "stats")], some (.num (.pos 1))⟩)
    out.1 = Config.new ∧ (out.2.1.map (·.hub.entries)) = some [("sub-0", "stats")] ∧
      code? out.2.2 = none := by decide

/-- **Every line, every context**: the socket entry point changes the configuration exactly as the
stdin entry point does (the two differ only in the RESPONSE to the three subscription methods and in
the hub). -/
theorem C18_sync_eq_async_config (env : Env) (c : Config) (ctx : Option Ctx) (l : Line) :
    (dispatchAsync env c ctx l).1 = (dispatchInner env c l).1 :=
  dispatchAsync_config_eq env c ctx l

/-- **Whole sessions with ANY lines** (subscription calls included, from any hub state): the two entry
points end in the same configuration, produce equally many outputs, and the k-th outputs are equal
for every k whose line is not a version-2.0 subscription call — whatever the other lines are.
(`C18_sync_eq_async_run` is the special case where no line is a subscription call.) -/
theorem C18_sync_eq_async_run_mixed (c : Config) (ctx : Option Ctx) (ls : List (Env × Line)) :
    (runAsync c ctx ls).1 = (runSync c ls).1 ∧
    (runAsync c ctx ls).2.2.length = ls.length ∧ (runSync c ls).2.length = ls.length ∧
    ∀ (k : Nat) (el : Env × Line), ls[k]? = some el →
      (∀ r, el.2 = .request r → r.jsonrpc = "2.0" →
        r.method ≠ "subscribe" ∧ r.method ≠ "unsubscribe" ∧ r.method ≠ "get_subscription_count") →
      (runAsync c ctx ls).2.2[k]? = (runSync c ls).2[k]? := by
  refine ⟨runAsync_config_eq c ctx ls, (runAsync_length c ctx ls).1, (runAsync_length c ctx ls).2, ?_⟩
  intro k el hk h
  exact runAsync_resp_eq c ctx ls k (fun el' hel => by rw [hk] at hel; cases hel; exact h)

/-- Non-vacuity: a socket session `subscribe; set_mode classic; get_subscription_count; get_status`
and the same four lines on stdin: same final configuration (mode 0); outputs 1 and 3 (0-based) agree,
outputs 0 and 2 — the subscription calls — differ (success vs. -32601). -/
example :
    let e : Env := ⟨none, none⟩
    let ls : List (Env × Line) :=
      [(e, .request ⟨"2.0", "subscribe", .obj [("topic", .str "stats")], some (.num (.pos 1))⟩),
       (e, .request ⟨"2.0", "set_mode", .obj [("mode", .str "classic")], some (.num (.pos 2))⟩),
       (e, .request ⟨"2.0", "get_subscription_count", .null, some (.num (.pos 3))⟩),
       (e, statusReq .null (.num (.pos 4)))]
    (runAsync Config.new (some Ctx.init) ls).1.mode = 0 ∧ (runSync Config.new ls).1.mode = 0 ∧
    (runAsync Config.new (some Ctx.init) ls).2.2.map code? = [none, none, none, none] ∧
    (runSync Config.new ls).2.map code? = [some (-32601), none, some (-32601), none] := by decide

/-! ### `set_*` is visible in the next status on the socket, across subscription calls

Same statements as `C18_set_visible_*`, for the socket entry point from ANY context (none, or any hub
/ owned-id state): `mid` is any sequence of further lines — blank, unparsable, requests of any kind
INCLUDING `subscribe` / `unsubscribe` / `get_subscription_count`, under any environments — that does
not call the same setter again; the status request is answered under whatever context `mid` left. -/

theorem C18_set_visible_mode_async (env : Env) (c : Config) (ctx : Option Ctx) (r : Request) (md : Mode)
    (hv : r.jsonrpc = "2.0") (hm : r.method = "set_mode")
    (hp : (r.params.get "mode").bind Json.asStr = some md.toStr)
    (mid : List (Env × Line))
    (hmid : ∀ el ∈ mid, ∀ q, el.2 = .request q → q.method ≠ "set_mode")
    (env' : Env) (p' i' : Json) :
    let o1 := dispatchAsync env c ctx (.request r)
    let o2 := runAsync o1.1 o1.2.1 mid
    (∀ i, r.id = some i → o1.2.2 = some (Response.ok i (.obj [("mode", .str md.toStr)]))) ∧
    o1.1.snapshot.mode = md ∧ o2.1.snapshot.mode = md ∧
    ∃ st, (dispatchAsync env' o2.1 o2.2.1 (statusReq p' i')).2.2 = some (Response.ok i' st) ∧
      st.get "mode" = some (.str md.toStr) := by
  intro o1 o2
  obtain ⟨a1, -, a3, a4, a5⟩ := async_session_lift env c ctx r (by rw [hm]; decide) mid env' p' i'
  have hs := C18_set_visible_mode env c r md hv hm hp mid hmid env' p' i'
  simp only [] at hs
  exact ⟨by rw [show o1.2.2 = _ from a1]; exact hs.1, by rw [show o1.1 = _ from a3]; exact hs.2.1,
    by rw [show o2.1 = _ from a4]; exact hs.2.2.1, by rw [a5]; exact hs.2.2.2⟩

theorem C18_set_visible_quality_async (env : Env) (c : Config) (ctx : Option Ctx) (r : Request) (b : Bool)
    (hv : r.jsonrpc = "2.0") (hm : r.method = "set_quality")
    (hp : (r.params.get "enabled").bind Json.asBool = some b)
    (mid : List (Env × Line))
    (hmid : ∀ el ∈ mid, ∀ q, el.2 = .request q → q.method ≠ "set_quality")
    (env' : Env) (p' i' : Json) :
    let o1 := dispatchAsync env c ctx (.request r)
    let o2 := runAsync o1.1 o1.2.1 mid
    (∀ i, r.id = some i → o1.2.2 = some (Response.ok i (.obj [("enabled", .bool b)]))) ∧
    o1.1.snapshot.quality = b ∧ o2.1.snapshot.quality = b ∧
    ∃ st, (dispatchAsync env' o2.1 o2.2.1 (statusReq p' i')).2.2 = some (Response.ok i' st) ∧
      st.get "quality_enabled" = some (.bool b) := by
  intro o1 o2
  obtain ⟨a1, -, a3, a4, a5⟩ := async_session_lift env c ctx r (by rw [hm]; decide) mid env' p' i'
  have hs := C18_set_visible_quality env c r b hv hm hp mid hmid env' p' i'
  simp only [] at hs
  exact ⟨by rw [show o1.2.2 = _ from a1]; exact hs.1, by rw [show o1.1 = _ from a3]; exact hs.2.1,
    by rw [show o2.1 = _ from a4]; exact hs.2.2.1, by rw [a5]; exact hs.2.2.2⟩

theorem C18_set_visible_stall_deselect_async (env : Env) (c : Config) (ctx : Option Ctx) (r : Request) (b : Bool)
    (hv : r.jsonrpc = "2.0") (hm : r.method = "set_stall_deselect")
    (hp : (r.params.get "enabled").bind Json.asBool = some b)
    (mid : List (Env × Line))
    (hmid : ∀ el ∈ mid, ∀ q, el.2 = .request q → q.method ≠ "set_stall_deselect")
    (env' : Env) (p' i' : Json) :
    let o1 := dispatchAsync env c ctx (.request r)
    let o2 := runAsync o1.1 o1.2.1 mid
    (∀ i, r.id = some i → o1.2.2 = some (Response.ok i (.obj [("enabled", .bool b)]))) ∧
    o1.1.snapshot.stall = b ∧ o2.1.snapshot.stall = b ∧
    ∃ st, (dispatchAsync env' o2.1 o2.2.1 (statusReq p' i')).2.2 = some (Response.ok i' st) ∧
      st.get "stall_deselect" = some (.bool b) := by
  intro o1 o2
  obtain ⟨a1, -, a3, a4, a5⟩ := async_session_lift env c ctx r (by rw [hm]; decide) mid env' p' i'
  have hs := C18_set_visible_stall_deselect env c r b hv hm hp mid hmid env' p' i'
  simp only [] at hs
  exact ⟨by rw [show o1.2.2 = _ from a1]; exact hs.1, by rw [show o1.1 = _ from a3]; exact hs.2.1,
    by rw [show o2.1 = _ from a4]; exact hs.2.2.1, by rw [a5]; exact hs.2.2.2⟩

theorem C18_set_visible_conn_timeout_async (env : Env) (c : Config) (ctx : Option Ctx) (r : Request) (ms : Nat)
    (hv : r.jsonrpc = "2.0") (hm : r.method = "set_conn_timeout")
    (hp : (r.params.get "ms").bind Json.asU64 = some ms)
    (mid : List (Env × Line))
    (hmid : ∀ el ∈ mid, ∀ q, el.2 = .request q → q.method ≠ "set_conn_timeout")
    (env' : Env) (p' i' : Json) :
    let applied := clampU64 ms 1000 60000
    let o1 := dispatchAsync env c ctx (.request r)
    let o2 := runAsync o1.1 o1.2.1 mid
    (∀ i, r.id = some i → o1.2.2 = some (Response.ok i (.obj [("ms", .num (.pos applied))]))) ∧
    o1.1.snapshot.timeout = applied ∧ o2.1.snapshot.timeout = applied ∧
    ∃ st, (dispatchAsync env' o2.1 o2.2.1 (statusReq p' i')).2.2 = some (Response.ok i' st) ∧
      st.get "conn_timeout_ms" = some (.num (.pos applied)) := by
  intro applied o1 o2
  obtain ⟨a1, -, a3, a4, a5⟩ := async_session_lift env c ctx r (by rw [hm]; decide) mid env' p' i'
  have hs := C18_set_visible_conn_timeout env c r ms hv hm hp mid hmid env' p' i'
  simp only [] at hs
  exact ⟨by rw [show o1.2.2 = _ from a1]; exact hs.1, by rw [show o1.1 = _ from a3]; exact hs.2.1,
    by rw [show o2.1 = _ from a4]; exact hs.2.2.1, by rw [a5]; exact hs.2.2.2⟩

/-- The hypotheses are satisfiable with subscription calls in between: on the socket,
`set_conn_timeout {ms: 7}`, then `subscribe stats`, junk, `unsubscribe sub-0`,
`get_subscription_count`; the status afterwards reports the clamped 1000. -/
example :
    let e : Env := ⟨none, none⟩
    let r : Request := ⟨"2.0", "set_conn_timeout", .obj [("ms", .num (.pos 7))], none⟩
    let mid : List (Env × Line) :=
      [(e, .request ⟨"2.0", "subscribe", .obj [("topic", .str "stats")], some (.num (.pos 1))⟩),
       (e, .unparsable),
       (e, .request ⟨"2.0", "unsubscribe", .obj [("subscription_id", .str "sub-0")], some (.num (.pos 2))⟩),
       (e, .request ⟨"2.0", "get_subscription_count", .null, none⟩)]
    let o1 := dispatchAsync e Config.new (some Ctx.init) (.request r)
    (runAsync o1.1 o1.2.1 mid).1.snapshot.timeout = 1000 :=
  (C18_set_visible_conn_timeout_async ⟨none, none⟩ Config.new (some Ctx.init) _ 7 rfl rfl
    (by simp [Json.get, Json.asU64]) _ (by simp) ⟨none, none⟩ .null .null).2.2.1

/-! ## Round 4 (P-C item 6): a successful setter is visible to the SAME task under every interleaving

The `Conc` model now carries per-task, per-cell coherence (`Conc.seen`, see `Model/Control.lean`): a
load returns an entry of the cell's modification order that is not older than the newest entry the
loading task has itself stored or loaded — read-read and write-read coherence, which is what
`Ordering::Relaxed` guarantees per atomic object.  (`C18_timeout_clamped_concurrent`,
`C18_timeout_concurrent_reply_is_store` and the torn-snapshot example above are theorems of this
refined model.)  With it the concurrent form of "a successful `set_*` is visible in the next status
and snapshot" can be stated and holds: after task `t`'s setter has stored `v` to cell `f`, everything
`t` later reads from `f` — each load, the field of its snapshot under construction, hence of every
`ConfigSnapshot` / `get_status` it gets back — is `v` or an entry NEWER in the modification order,
i.e. `v` is visible to `t` unless a later store to the same cell (another task's setter, or `t`'s own
next one) superseded it.  Nothing is claimed for OTHER tasks' reads (no happens-before between tasks
is modelled; with relaxed atomics another thread may keep seeing the old value for a while). -/

/-- **Generic form.**  From ANY state `s0` (in particular any reachable one) in which task `t` is
inside a setter `op` about to store `v` to cell `f`: the store is enabled; it puts `v` on top of the
cell's history; and after ANY further schedule `mid` the history of the cell is
`newer ++ v :: old` (`old` = the history `t` stored on top of, `newer` = stores made during `mid`),
and
* every load of `f` that `t` can perform reads `v` or a member of `newer` (index `k ≤ |newer|`);
* whatever `t`'s snapshot under construction holds for `f` is `v` or a member of `newer`;
* in particular, if no store hit the cell during `mid` (`newer = []`) both are exactly `v`. -/
theorem C18_set_visible_concurrent (s0 : Conc) (t : Nat) (op : Op) (f : Field) (v : Val)
    (htask : s0.tasks t = .storing op) (hf : op.target = some (f, v)) :
    ∃ s1 ev, s0.step (.store t) = some (s1, ev) ∧
      s1.cells.view f = v :: s0.cells.view f ∧ s1.tasks t = .idle ∧
      ∀ mid : List Act, ∃ newer, (s1.run mid).1.cells.view f = newer ++ v :: s0.cells.view f ∧
        (∀ k s3 ev', (s1.run mid).1.step (.load t f k) = some (s3, ev') →
          k ≤ newer.length ∧
          ∃ x, ((s1.run mid).1.cells.view f)[k]? = some x ∧ (x = v ∨ x ∈ newer)) ∧
        (∀ part x, (s1.run mid).1.tasks t = .snapping part → part.at? f = some x →
          (x = v ∨ x ∈ newer)) ∧
        (newer = [] → ∀ part x, (s1.run mid).1.tasks t = .snapping part → part.at? f = some x → x = v) := by
  obtain ⟨s1, ev, hstep⟩ := Conc.step_store_enabled htask hf
  obtain ⟨hvis, hview, hidle⟩ := Conc.Vis.of_store htask hf hstep
  refine ⟨s1, ev, hstep, hview, hidle, ?_⟩
  intro mid
  have hv := hvis.run mid
  obtain ⟨⟨newer, hh⟩, hlo, hhi, hpart⟩ := hv
  have hlen : (s1.run mid).1.cells.len f = newer.length + 1 + (s0.cells.view f).length := by
    unfold Cells.len; rw [hh]; simp; omega
  have hp2 : ∀ part x, (s1.run mid).1.tasks t = .snapping part → part.at? f = some x →
      (x = v ∨ x ∈ newer) := fun part x hp hx =>
    Conc.Vis.at_mem hh hlo (hpart part x hp hx)
  refine ⟨newer, hh, ?_, hp2, ?_⟩
  · intro k s3 ev' hload
    obtain ⟨-, -, x, -, hx, hle, -⟩ := Conc.step_load_spec hload
    have hk : k < (s1.run mid).1.cells.len f := (Cells.at?_of_index _ f k x hx).1
    have hk2 : k ≤ newer.length := by omega
    refine ⟨hk2, x, hx, ?_⟩
    rw [hh] at hx
    exact index_newer_or_self hk2 hx
  · intro hnil part x hp hx
    rcases hp2 part x hp hx with h | h
    · exact h
    · rw [hnil] at h; cases h

/-- **`set_mode`, typed, at the snapshot the task gets back.**  After `t`'s `set_mode md` has stored,
whatever the other tasks do, every `ConfigSnapshot` (`get_status`) later returned to `t` has
`mode = md`, or the mode some LATER store to the mode cell wrote; with no later store, `mode = md`. -/
theorem C18_set_visible_concurrent_mode (s0 : Conc) (t : Nat) (md : Mode)
    (htask : s0.tasks t = .storing (.setMode md)) :
    ∃ s1, s0.step (.store t) = some (s1, none) ∧ s1.cells.mode = md.asU8 :: s0.cells.mode ∧
      ∀ (mid : List Act) (s3 : Conc) (snap : Snapshot),
        (s1.run mid).1.step (.ret t) = some (s3, some (.snapshot t snap)) →
        ∃ newer, (s1.run mid).1.cells.mode = newer ++ md.asU8 :: s0.cells.mode ∧
          (snap.mode = md ∨ ∃ m ∈ newer, snap.mode = Mode.fromU8 m) ∧
          (newer = [] → snap.mode = md) := by
  obtain ⟨s1, ev, hstep, -, -, hmid⟩ :=
    C18_set_visible_concurrent s0 t _ .mode (.nat md.asU8) htask rfl
  have hev : ev = none ∧ s1.cells.mode = md.asU8 :: s0.cells.mode := by
    simp only [Conc.step, htask, Option.some.injEq, Prod.mk.injEq] at hstep
    obtain ⟨rfl, rfl⟩ := hstep; exact ⟨rfl, rfl⟩
  refine ⟨s1, by rw [hstep, hev.1], hev.2, ?_⟩
  intro mid s3 snap hret
  obtain ⟨newerV, hh, -, hp, -⟩ := hmid mid
  obtain ⟨newer, h1, h2⟩ := map_split Val.nat Val.nat_inj s0.cells.mode md.asU8 newerV
    (s1.run mid).1.cells.mode hh
  obtain ⟨part, snap', htk, hcomp, -, -, -, hev'⟩ := Conc.step_ret_spec hret
  cases hev'
  obtain ⟨⟨m, hm, hsm⟩, -⟩ := Partial.complete_at hcomp
  have key : snap.mode = md ∨ ∃ m ∈ newer, snap.mode = Mode.fromU8 m := by
    rcases hp part _ htk hm with h | h
    · exact .inl (by rw [hsm, Val.nat_inj _ _ h, Mode.fromU8_asU8])
    · rw [h2] at h
      obtain ⟨m', hm', he⟩ := List.mem_map.1 h
      cases he
      exact .inr ⟨m, hm', hsm⟩
  refine ⟨newer, h1, key, ?_⟩
  intro hnil
  rcases key with h | ⟨m', hm', -⟩
  · exact h
  · rw [hnil] at hm'; cases hm'

/-- **`set_quality`**, same statement. -/
theorem C18_set_visible_concurrent_quality (s0 : Conc) (t : Nat) (b : Bool)
    (htask : s0.tasks t = .storing (.setQuality b)) :
    ∃ s1, s0.step (.store t) = some (s1, none) ∧ s1.cells.quality = b :: s0.cells.quality ∧
      ∀ (mid : List Act) (s3 : Conc) (snap : Snapshot),
        (s1.run mid).1.step (.ret t) = some (s3, some (.snapshot t snap)) →
        ∃ newer, (s1.run mid).1.cells.quality = newer ++ b :: s0.cells.quality ∧
          (snap.quality = b ∨ snap.quality ∈ newer) ∧ (newer = [] → snap.quality = b) := by
  obtain ⟨s1, ev, hstep, -, -, hmid⟩ :=
    C18_set_visible_concurrent s0 t _ .quality (.bool b) htask rfl
  have hev : ev = none ∧ s1.cells.quality = b :: s0.cells.quality := by
    simp only [Conc.step, htask, Option.some.injEq, Prod.mk.injEq] at hstep
    obtain ⟨rfl, rfl⟩ := hstep; exact ⟨rfl, rfl⟩
  refine ⟨s1, by rw [hstep, hev.1], hev.2, ?_⟩
  intro mid s3 snap hret
  obtain ⟨newerV, hh, -, hp, -⟩ := hmid mid
  obtain ⟨newer, h1, h2⟩ := map_split Val.bool Val.bool_inj s0.cells.quality b newerV
    (s1.run mid).1.cells.quality hh
  obtain ⟨part, snap', htk, hcomp, -, -, -, hev'⟩ := Conc.step_ret_spec hret
  cases hev'
  obtain ⟨-, hq, -, -⟩ := Partial.complete_at hcomp
  have key : snap.quality = b ∨ snap.quality ∈ newer := by
    rcases hp part _ htk hq with h | h
    · exact .inl (Val.bool_inj _ _ h)
    · rw [h2] at h
      obtain ⟨m', hm', he⟩ := List.mem_map.1 h
      cases he
      exact .inr hm'
  refine ⟨newer, h1, key, ?_⟩
  intro hnil
  rcases key with h | h
  · exact h
  · rw [hnil] at h; cases h

/-- **`set_stall_deselect`**, same statement. -/
theorem C18_set_visible_concurrent_stall_deselect (s0 : Conc) (t : Nat) (b : Bool)
    (htask : s0.tasks t = .storing (.setStall b)) :
    ∃ s1, s0.step (.store t) = some (s1, none) ∧ s1.cells.stall = b :: s0.cells.stall ∧
      ∀ (mid : List Act) (s3 : Conc) (snap : Snapshot),
        (s1.run mid).1.step (.ret t) = some (s3, some (.snapshot t snap)) →
        ∃ newer, (s1.run mid).1.cells.stall = newer ++ b :: s0.cells.stall ∧
          (snap.stall = b ∨ snap.stall ∈ newer) ∧ (newer = [] → snap.stall = b) := by
  obtain ⟨s1, ev, hstep, -, -, hmid⟩ :=
    C18_set_visible_concurrent s0 t _ .stall (.bool b) htask rfl
  have hev : ev = none ∧ s1.cells.stall = b :: s0.cells.stall := by
    simp only [Conc.step, htask, Option.some.injEq, Prod.mk.injEq] at hstep
    obtain ⟨rfl, rfl⟩ := hstep; exact ⟨rfl, rfl⟩
  refine ⟨s1, by rw [hstep, hev.1], hev.2, ?_⟩
  intro mid s3 snap hret
  obtain ⟨newerV, hh, -, hp, -⟩ := hmid mid
  obtain ⟨newer, h1, h2⟩ := map_split Val.bool Val.bool_inj s0.cells.stall b newerV
    (s1.run mid).1.cells.stall hh
  obtain ⟨part, snap', htk, hcomp, -, -, -, hev'⟩ := Conc.step_ret_spec hret
  cases hev'
  obtain ⟨-, -, hq, -⟩ := Partial.complete_at hcomp
  have key : snap.stall = b ∨ snap.stall ∈ newer := by
    rcases hp part _ htk hq with h | h
    · exact .inl (Val.bool_inj _ _ h)
    · rw [h2] at h
      obtain ⟨m', hm', he⟩ := List.mem_map.1 h
      cases he
      exact .inr hm'
  refine ⟨newer, h1, key, ?_⟩
  intro hnil
  rcases key with h | h
  · exact h
  · rw [hnil] at h; cases h

/-- **`set_conn_timeout`**: what becomes visible is the CLAMPED value the call returned
(`timeoutApplied t ms applied`), or a later store's (also clamped, `C18_timeout_clamped_concurrent`). -/
theorem C18_set_visible_concurrent_conn_timeout (s0 : Conc) (t ms : Nat)
    (htask : s0.tasks t = .storing (.setTimeout ms)) :
    let applied := clampU64 ms 1000 60000
    ∃ s1, s0.step (.store t) = some (s1, some (.timeoutApplied t ms applied)) ∧
      s1.cells.timeout = applied :: s0.cells.timeout ∧
      ∀ (mid : List Act) (s3 : Conc) (snap : Snapshot),
        (s1.run mid).1.step (.ret t) = some (s3, some (.snapshot t snap)) →
        ∃ newer, (s1.run mid).1.cells.timeout = newer ++ applied :: s0.cells.timeout ∧
          (snap.timeout = applied ∨ snap.timeout ∈ newer) ∧ (newer = [] → snap.timeout = applied) := by
  intro applied
  have happ : clampU64 ms Cfg.CONN_TIMEOUT_MS_MIN Cfg.CONN_TIMEOUT_MS_MAX = applied := by
    simp [applied, Cfg.CONN_TIMEOUT_MS_MIN_eq, Cfg.CONN_TIMEOUT_MS_MAX_eq]
  obtain ⟨s1, ev, hstep, -, -, hmid⟩ :=
    C18_set_visible_concurrent s0 t _ .timeout (.nat applied) htask
      (by show some (Field.timeout, Val.nat (clampU64 ms _ _)) = _; rw [happ])
  have hev : ev = some (.timeoutApplied t ms applied) ∧ s1.cells.timeout = applied :: s0.cells.timeout := by
    simp only [Conc.step, htask, Option.some.injEq, Prod.mk.injEq, happ] at hstep
    obtain ⟨rfl, rfl⟩ := hstep; exact ⟨rfl, rfl⟩
  refine ⟨s1, by rw [hstep, hev.1], hev.2, ?_⟩
  intro mid s3 snap hret
  obtain ⟨newerV, hh, -, hp, -⟩ := hmid mid
  obtain ⟨newer, h1, h2⟩ := map_split Val.nat Val.nat_inj s0.cells.timeout applied newerV
    (s1.run mid).1.cells.timeout hh
  obtain ⟨part, snap', htk, hcomp, -, -, -, hev'⟩ := Conc.step_ret_spec hret
  cases hev'
  obtain ⟨-, -, -, hq⟩ := Partial.complete_at hcomp
  have key : snap.timeout = applied ∨ snap.timeout ∈ newer := by
    rcases hp part _ htk hq with h | h
    · exact .inl (Val.nat_inj _ _ h)
    · rw [h2] at h
      obtain ⟨m', hm', he⟩ := List.mem_map.1 h
      cases he
      exact .inr hm'
  refine ⟨newer, h1, key, ?_⟩
  intro hnil
  rcases key with h | h
  · exact h
  · rw [hnil] at h; cases h

/-- Non-vacuity / what coherence buys.  Task 1 sets the timeout to 5 (clamped 1000) and then takes a
snapshot: loading the timeout at index 1 (the initial 5000 — STALE, older than its own store) is now
disabled, so the same schedule with index 1 returns no snapshot at all, while index 0 returns 1000;
another task (task 0) may still read the stale 5000 after the store. -/
example :
    let pre : List Act := [.call 1 (.setTimeout 5), .store 1, .call 1 .snapshot, .call 0 .snapshot]
    let rest (t : Nat) : List Act :=
      [.load t .mode 0, .load t .quality 0, .load t .stall 0, .load t .minInFlight 0,
       .load t .ackStale 0, .ret t]
    -- task 1, stale index: the load is refused, `ret` not enabled (timeout never loaded)
    ((Conc.init Config.new).run (pre ++ [.load 1 .timeout 1] ++ rest 1)).2 =
      [.timeoutApplied 1 5 1000] ∧
    -- task 1, newest entry: sees its own store
    ((Conc.init Config.new).run (pre ++ [.load 1 .timeout 0] ++ rest 1)).2 =
      [.timeoutApplied 1 5 1000, .snapshot 1 ⟨.enhanced, true, true, 32, 3000, 1000⟩] ∧
    -- task 0 has seen nothing of the cell: the stale 5000 is a legal relaxed read for IT
    ((Conc.init Config.new).run (pre ++ [.load 0 .timeout 1] ++ rest 0)).2 =
      [.timeoutApplied 1 5 1000, .snapshot 0 ⟨.enhanced, true, true, 32, 3000, 5000⟩] := by
  refine ⟨rfl, rfl, rfl⟩

/-- The hypothesis of the theorems is reachable (`task 1` inside `set_conn_timeout 5` from the
initial state), and an intervening setter of ANOTHER task is what makes `newer` non-empty: task 1 then
legitimately reads task 2's 2000 — the second disjunct. -/
example :
    ((Conc.init Config.new).run [.call 1 (.setTimeout 5)]).1.tasks 1 matches .storing (.setTimeout 5) ∧
    ((Conc.init Config.new).run
      [.call 1 (.setTimeout 5), .store 1, .call 2 (.setTimeout 2000), .store 2, .call 1 .snapshot,
       .load 1 .timeout 0, .load 1 .mode 0, .load 1 .quality 0, .load 1 .stall 0,
       .load 1 .minInFlight 0, .load 1 .ackStale 0, .ret 1]).2 =
      [.timeoutApplied 1 5 1000, .timeoutApplied 2 2000 2000,
       .snapshot 1 ⟨.enhanced, true, true, 32, 3000, 2000⟩] := by
  refine ⟨rfl, rfl⟩

/-- **Whole-schedule form, from the initial state.**  Take any configuration `c` and any schedule
`pre ++ .store t :: mid` such that after `pre` task `t` is inside a setter about to store `v` to cell
`f`.  Then at the end the history of the cell is `newer ++ v :: old` (`old` = its history after `pre`,
`newer` = the stores of `mid`), the trace of returned values is the trace of `pre` followed by
`later`, and EVERY `ConfigSnapshot` returned to `t` in `later` — i.e. after its setter's store, at any
point of `mid`, whatever all the other tasks did in between — holds for `f` the value `v` or a value
of `newer`.  (`Snapshot.has` reads the typed field: e.g. `snap.has .timeout (.nat n) ↔ snap.timeout = n`,
`snap.has .mode (.nat m) ↔ snap.mode = Mode.fromU8 m`.) -/
theorem C18_set_visible_concurrent_run (c : Config) (pre mid : List Act) (t : Nat) (op : Op)
    (f : Field) (v : Val)
    (htask : ((Conc.init c).run pre).1.tasks t = .storing op) (hf : op.target = some (f, v)) :
    let s0 := ((Conc.init c).run pre).1
    let fin := (Conc.init c).run (pre ++ .store t :: mid)
    ∃ newer later, fin.1.cells.view f = newer ++ v :: s0.cells.view f ∧
      fin.2 = ((Conc.init c).run pre).2 ++ later ∧
      ∀ snap, Event.snapshot t snap ∈ later → ∃ x, snap.has f x ∧ (x = v ∨ x ∈ newer) := by
  intro s0 fin
  obtain ⟨s1, ev, hstep⟩ := Conc.step_store_enabled htask hf
  obtain ⟨hvis, hview, hidle⟩ := Conc.Vis.of_store htask hf hstep
  have hstep' : s0.step (.store t) = some (s1, ev) := hstep
  have hrun0 : s0.run (.store t :: mid) = ((s1.run mid).1, ev.toList ++ (s1.run mid).2) := by
    simp only [Conc.run, hstep']
    cases ev <;> rfl
  have hfin : fin = ((s1.run mid).1, ((Conc.init c).run pre).2 ++ (ev.toList ++ (s1.run mid).2)) := by
    simp only [fin]
    rw [Conc.run_append]
    show ((s0.run (.store t :: mid)).1, _ ++ (s0.run (.store t :: mid)).2) = _
    rw [hrun0]
  obtain ⟨⟨newer, hh⟩, -⟩ := hvis.run mid
  refine ⟨newer, _, by rw [hfin]; exact hh, by rw [hfin], ?_⟩
  intro snap hsnap
  have hin : Event.snapshot t snap ∈ (s1.run mid).2 := by
    rcases List.mem_append.1 hsnap with h | h
    · -- the store's own event is a `timeoutApplied`, never a snapshot
      exfalso
      simp only [Conc.step] at hstep'
      split at hstep'
      · rename_i op' _
        cases op' <;> simp only [Option.some.injEq, Prod.mk.injEq, reduceCtorEq] at hstep'
        all_goals obtain ⟨-, rfl⟩ := hstep'
        all_goals simp at h
      · cases hstep'
    · exact h
  obtain ⟨a1, a, a2, s3, hsplit, hemit⟩ := Conc.run_event hin
  -- the emitting step is `ret t` from the state after `a1`
  have hv1 := hvis.run a1
  obtain ⟨⟨newer1, hh1⟩, hlo1, -, hpart1⟩ := hv1
  have ha : a = .ret t := by
    cases a with
    | call t' op' => obtain ⟨_, _, he, _⟩ := Conc.step_call_spec hemit; cases he
    | store t' =>
      exfalso
      simp only [Conc.step] at hemit
      split at hemit
      · rename_i op' _; cases op' <;> simp at hemit
      · cases hemit
    | load t' g k => obtain ⟨_, _, _, _, _, _, _, _, _, _, _, he⟩ := Conc.step_load_spec hemit; cases he
    | ret t' =>
      obtain ⟨_, _, _, _, _, _, _, he⟩ := Conc.step_ret_spec hemit
      cases he; rfl
  subst ha
  obtain ⟨part, snap', htk, hcomp, -, -, -, he⟩ := Conc.step_ret_spec hemit
  cases he
  obtain ⟨x, hx, hhas⟩ := Partial.complete_has hcomp f
  refine ⟨x, hhas, ?_⟩
  rcases Conc.Vis.at_mem hh1 hlo1 (hpart1 part x htk hx) with h | h
  · exact .inl h
  · right
    -- `newer1` is a suffix of `newer`: histories only grow
    obtain ⟨ext, hext⟩ := Conc.run_view_grows (s1.run a1).1 (Act.ret t :: a2) f
    have hrun : (s1.run mid).1 = ((s1.run a1).1.run (Act.ret t :: a2)).1 := by
      rw [hsplit, Conc.run_append]
    rw [← hrun, hh, hh1, ← List.append_assoc] at hext
    have := List.append_cancel_right hext
    rw [this]; exact List.mem_append_right _ h

/-- Non-vacuity of the whole-schedule form: `pre = [call 1 (set_conn_timeout 5)]` leaves task 1 about
to store; in `mid` task 2 stores 2000 and task 1 takes a snapshot.  `old = [5000]`, `v = 1000`,
`newer = [2000]`; task 1's snapshot holds 2000 ∈ `newer`. -/
example :
    ((Conc.init Config.new).run [.call 1 (.setTimeout 5)]).1.tasks 1 matches .storing (.setTimeout 5) ∧
    (Op.setTimeout 5).target = some (.timeout, .nat 1000) ∧
    ((Conc.init Config.new).run ([.call 1 (.setTimeout 5)] ++ .store 1 ::
      [.call 2 (.setTimeout 2000), .store 2, .call 1 .snapshot,
       .load 1 .timeout 0, .load 1 .mode 0, .load 1 .quality 0, .load 1 .stall 0,
       .load 1 .minInFlight 0, .load 1 .ackStale 0, .ret 1])).1.cells.timeout = [2000] ++ 1000 :: [5000] := by
  refine ⟨rfl, by decide, rfl⟩

end Srtla.Props.C18
