import Srtla.Model.Sys
import Srtla.Lemmas.Uplink
import Srtla.Lemmas.SelectFrame
import Srtla.Props.C15
import Srtla.Lemmas.RunLevelRelay
import Srtla.Lemmas.RunLevelRelayReload
/-!
# C09 — the return path relays receiver traffic to the SRT client unmodified

`Srtla.Sys.handleUplinkPacket s connId data now` is the model of the uplink arm of the event loop
(`handle_uplink_packet` → `process_uplink_packet` → `process_connection_events`): it returns the
shell state after the datagram and `Out` = everything put on uplink sockets (`wire`) and everything
sent to the SRT client (`client`), in order.  It is run line by line against the real arm by
component `sys`.

All theorems hold for EVERY byte list `data` (any length, any content), every shell state `s`
(any number of links in any registration / liveness / probe state), every clock value, and every
scalar type `F` with any `[Scalar F]` instance (the float code is opaque here), in particular the
`Float` instance of the compiled driver.

Type codes are written as the wire literals: `0x9201` REG2, `0x9202` REG3, `0x9210` REG_ERR,
`0x9211` REG_NGP, `0x9100` SRTLA ACK, `0x9000` keepalive, `0x8002` SRT ACK.  The model's dispatch is
tied to these literals in `Lemmas/Uplink.lean` (`processUplinkPacket_eq`), so an edit of a type
constant in the source breaks the proofs.

The *arrival link* of a datagram received on the socket with conn id `connId` is the first link
with that id: `s.links.findIdx? (·.core.connId == connId) = some idx` (ids are unique in the real
program; nothing below needs that).
-/
namespace Srtla.Props.C09
open Srtla Srtla.Sys Srtla.Link Srtla.Conn Srtla.Uplink

variable {F : Type} [Scalar F]

/-- Registration replies (consumed by the registration manager). -/
def Registration (pt : Nat) : Prop := pt = 0x9201 ∨ pt = 0x9202 ∨ pt = 0x9210 ∨ pt = 0x9211

/-- SRTLA-internal datagrams: registration replies, SRTLA ACK, keepalive echo. -/
def Internal (pt : Nat) : Prop := Registration pt ∨ pt = 0x9100 ∨ pt = 0x9000

/-! ## Relay -/

/-- **Relay**: with a known client, a datagram of two or more bytes that arrives on a known uplink
and is not SRTLA-internal is delivered to the client at least once, and everything delivered during
the event is that datagram byte for byte.  Exactly: once, except an SRT ACK which goes out twice
(latency fast path + forward list). -/
theorem C09_relay (s : Sys F) (connId : Nat) (data : Codec.Bytes) (now : Nat)
    (hlen : 2 ≤ data.length) (hck : s.clientKnown = true)
    (hlink : ∃ l ∈ s.links, l.core.connId = connId)
    (hni : ∀ pt, Codec.getPacketTypeS data = some pt → ¬ Internal pt) :
    data ∈ (handleUplinkPacket s connId data now).2.client ∧
    (∀ d ∈ (handleUplinkPacket s connId data now).2.client, d = data) ∧
    (handleUplinkPacket s connId data now).2.client =
      (if Codec.getPacketTypeS data = some 0x8002 then [data, data] else [data]) := by
  obtain ⟨pt, hpt⟩ := type_of_len data hlen
  obtain ⟨idx, hidx⟩ := exists_findIdx s.links connId hlink
  have hn := hni pt hpt
  simp only [Internal, Registration, not_or] at hn
  obtain ⟨⟨h1, h2, h3, h4⟩, h5, h6⟩ := hn
  rw [client_out s connId data now pt idx hpt hidx, hpt]
  by_cases ha : pt = 0x8002
  · subst ha; simp [hck]
  · simp [hck, h1, h2, h3, h4, h5, h6, ha]

/-- **Internal traffic is consumed**: a REG2 / REG3 / REG_ERR / REG_NGP / SRTLA ACK / keepalive
datagram never reaches the client — in any state, client known or not, known uplink or not. -/
theorem C09_internal_consumed (s : Sys F) (connId : Nat) (data : Codec.Bytes) (now pt : Nat)
    (hpt : Codec.getPacketTypeS data = some pt) (hi : Internal pt) :
    (handleUplinkPacket s connId data now).2.client = [] := by
  cases hf : s.links.findIdx? (·.core.connId == connId) with
  | none => rw [unknown_link s connId data now hf]
  | some idx =>
    rw [client_out s connId data now pt idx hpt hf]
    have h8 : ¬ (pt = 0x8002 ∧ s.clientKnown = true) := by
      rintro ⟨h, -⟩; subst h; simp [Internal, Registration] at hi
    have hi' : pt = 0x9211 ∨ pt = 0x9201 ∨ pt = 0x9202 ∨ pt = 0x9210 ∨ pt = 0x9100 ∨ pt = 0x9000 := by
      simp only [Internal, Registration] at hi; omega
    simp [h8, hi']

/-- **No client, no send**: before a client address is known nothing at all is relayed. -/
theorem C09_no_client_no_send (s : Sys F) (connId : Nat) (data : Codec.Bytes) (now : Nat)
    (hck : s.clientKnown = false) :
    (handleUplinkPacket s connId data now).2.client = [] := by
  by_cases hlen : data.length < 2
  · exact (short_datagram s connId data now hlen).2.2.1
  obtain ⟨pt, hpt⟩ := type_of_len data (by omega)
  cases hf : s.links.findIdx? (·.core.connId == connId) with
  | none => rw [unknown_link s connId data now hf]
  | some idx =>
    rw [client_out s connId data now pt idx hpt hf]
    simp [hck]

/-- **Short datagrams and unknown uplinks**: fewer than two bytes ⇒ no output of any kind and the
state is unchanged; a conn id that no link carries ⇒ the event is a no-op. -/
theorem C09_short_or_unknown_link (s : Sys F) (connId : Nat) (data : Codec.Bytes) (now : Nat) :
    (data.length < 2 →
      (handleUplinkPacket s connId data now).1 = s ∧
      (handleUplinkPacket s connId data now).2.wire = [] ∧
      (handleUplinkPacket s connId data now).2.client = [] ∧
      (handleUplinkPacket s connId data now).2.hkErr = false) ∧
    ((∀ l ∈ s.links, l.core.connId ≠ connId) → handleUplinkPacket s connId data now = (s, {})) := by
  refine ⟨short_datagram s connId data now, ?_⟩
  intro h
  apply unknown_link
  rw [List.findIdx?_eq_none_iff]
  intro l hl
  simpa using h l hl

/-! ## Totality -/

/-- **No panic on the receive path**: the model reads packet contents only through the checked
decoders of `Model/Codec.lean` (every Rust slice index is a checked read that yields `panic` when
out of bounds) wrapped in `Codec.unChk default`.  For every byte list each decoder used by
`process_uplink_packet` returns `ok`, so the default is never used: the type reader agrees with the
pattern-matching form the dispatch uses, and the SRT ACK / SRT NAK / SRTLA ACK / keepalive-timestamp
parsers are total (`Props/C15`).  The registration arm reads `data` only through the same type
reader and a length-guarded `drop/take` (total list functions). -/
theorem C09_total (data : Codec.Bytes) :
    Codec.getPacketType data = .ok (Codec.getPacketTypeS data) ∧
    (∃ a, Codec.parseSrtAck data = .ok a ∧ ∀ d, Codec.unChk d (Codec.parseSrtAck data) = a) ∧
    (∃ a, Codec.parseSrtNak data = .ok a ∧ ∀ d, Codec.unChk d (Codec.parseSrtNak data) = a) ∧
    (∃ a, Codec.parseSrtlaAck data = .ok a ∧ ∀ d, Codec.unChk d (Codec.parseSrtlaAck data) = a) ∧
    (∃ a, Codec.extractKeepaliveTimestamp data = .ok a ∧
      ∀ d, Codec.unChk d (Codec.extractKeepaliveTimestamp data) = a) :=
  ⟨Codec.getPacketType_eq data,
   ok_of_ne_panic (C15.C15_total_parse_srt_ack data),
   ok_of_ne_panic (C15.C15_total_parse_srt_nak data),
   ok_of_ne_panic (C15.C15_total_parse_srtla_ack data),
   ok_of_ne_panic (C15.C15_total_extract_keepalive_timestamp data)⟩

/-! ## Stamps -/

/-- **Liveness stamp**: every datagram of two or more bytes that is not a registration reply sets
the arrival link's `last_received` to the event's clock value — whatever else the event does (ACK /
NAK fan-out over all links, keepalive sample, relay). -/
theorem C09_liveness_stamp (s : Sys F) (connId : Nat) (data : Codec.Bytes) (now idx : Nat)
    (hlen : 2 ≤ data.length)
    (hnr : ∀ pt, Codec.getPacketTypeS data = some pt → ¬ Registration pt)
    (hidx : s.links.findIdx? (·.core.connId == connId) = some idx) :
    ∃ l', (handleUplinkPacket s connId data now).1.links[idx]? = some l' ∧
      l'.core.lastReceived = some now := by
  obtain ⟨pt, hpt⟩ := type_of_len data hlen
  obtain ⟨l, hl, -⟩ := findIdx_get s.links connId idx hidx
  have hne : data ≠ [] := by intro h; subst h; simp at hlen
  obtain ⟨b, hb, hev⟩ := handleUplinkPacket_link s connId data now idx l hne hidx hl idx l hl
  refine ⟨b, hb, ?_⟩
  rw [hev.core.lastReceived]
  simp only [if_true]
  have hn := hnr pt hpt
  simp only [Registration, not_or] at hn
  rcases arrival_cases l idx s.reg s.clientKnown data now pt hpt with
    ⟨h, -⟩ | ⟨h, -⟩ | ⟨h, -⟩ | ⟨h, -⟩ | ⟨-, h⟩ | ⟨-, -, -, -, -, h⟩
  · exact absurd h hn.2.2.2
  · exact absurd h hn.1
  · exact absurd h hn.2.1
  · exact absurd h hn.2.2.1
  · rw [h]; exact (kaLink_spec l data now).1
  · rw [h]; rfl

/-- **Delivery-proof stamp**: the stall guard's proof stamp (`last_ack_or_rtt_sample_ms`) of ANY
link `j` changes during an uplink event only if

* the datagram is an SRTLA ACK and one of the numbers it lists was in link `j`'s packet log before
  the event (an *earned* ACK; the stamp becomes `now`), or
* the datagram is a keepalive echo, `j` is the arrival link, that link had a probe outstanding and
  the echoed timestamp gives `0 < now − ts ≤ 10000` (the stamp becomes `now`), or
* the datagram is a REG_ERR and `j` is the arrival link: `mark_for_recovery` resets the link and
  zeroes the stamp.

In particular a REG3 (`clear_pre_registration_state`), SRT ACK / NAK, data or unknown-type datagram
never moves any proof stamp, and no datagram moves the stamp of a link that neither held an
SRTLA-ACKed number nor is the arrival link. -/
theorem C09_proof_stamp (s : Sys F) (connId : Nat) (data : Codec.Bytes) (now j : Nat) (l l' : FLink F)
    (hl : s.links[j]? = some l)
    (hl' : (handleUplinkPacket s connId data now).1.links[j]? = some l')
    (hchg : l'.core.proofMs ≠ l.core.proofMs) :
    (Codec.getPacketTypeS data = some 0x9100 ∧ l'.core.proofMs = now ∧
      ∃ nums, Codec.parseSrtlaAck data = .ok nums ∧ ∃ a ∈ nums, toI32 a ∈ l.core.keys) ∨
    (Codec.getPacketTypeS data = some 0x9000 ∧
      s.links.findIdx? (·.core.connId == connId) = some j ∧ l.rtt.waiting = true ∧
      l'.core.proofMs = now ∧
      ∃ ts, Codec.extractKeepaliveTimestamp data = .ok (some ts) ∧ 0 < now - ts ∧ now - ts ≤ 10000) ∨
    (Codec.getPacketTypeS data = some 0x9210 ∧
      s.links.findIdx? (·.core.connId == connId) = some j ∧ l'.core.proofMs = 0) := by
  -- events that leave the state alone
  by_cases hlen : data.length < 2
  · rw [(short_datagram s connId data now hlen).1, hl] at hl'
    cases hl'; exact absurd rfl hchg
  cases hf : s.links.findIdx? (·.core.connId == connId) with
  | none =>
    rw [unknown_link s connId data now hf] at hl'
    rw [hl] at hl'; cases hl'; exact absurd rfl hchg
  | some idx =>
  obtain ⟨pt, hpt⟩ := type_of_len data (by omega)
  obtain ⟨l0, hl0, -⟩ := findIdx_get s.links connId idx hf
  have hne : data ≠ [] := by intro h; subst h; simp at hlen
  obtain ⟨b, hb, hev⟩ := handleUplinkPacket_link s connId data now idx l0 hne hf hl0 j l hl
  rw [hl'] at hb; cases hb
  obtain ⟨-, -, hsacks, -, -, -⟩ := incoming_spec l0 idx s.reg s.clientKnown data now pt hpt
  rw [hsacks] at hev
  by_cases hfan : l'.core.proofMs =
      (if j = idx then arrival l0 idx s.reg s.clientKnown data now else l).core.proofMs
  · -- the fan-out did not move it: the arrival arm did
    by_cases hj : j = idx
    · subst hj
      rw [hl] at hl0; cases hl0
      simp only [if_true] at hfan
      rcases arrival_cases l j s.reg s.clientKnown data now pt hpt with
        ⟨-, h | h⟩ | ⟨-, h⟩ | ⟨-, h⟩ | ⟨hp, h⟩ | ⟨hp, h⟩ | ⟨-, -, -, -, -, h⟩
      · rw [h] at hfan; exact absurd hfan hchg
      · rw [h] at hfan; exact absurd hfan hchg
      · rw [h] at hfan; exact absurd hfan hchg
      · rw [h] at hfan; exact absurd hfan hchg
      · subst hp
        refine Or.inr (Or.inr ⟨hpt, rfl, ?_⟩)
        rw [hfan, h]; rfl
      · subst hp
        rw [h] at hfan
        obtain ⟨-, -, -, -, -, -, hk⟩ := kaLink_spec l data now
        rcases hk with ⟨hk, -⟩ | ⟨hw, ts, hts, h0, h1, hp, -⟩
        · rw [hk] at hfan; exact absurd hfan hchg
        · exact Or.inr (Or.inl ⟨hpt, rfl, hw, by rw [hfan, hp], ts, hts, h0, h1⟩)
      · rw [h] at hfan; exact absurd hfan hchg
    · simp only [hj, if_false] at hfan
      exact absurd hfan hchg
  · -- the fan-out moved it: an SRTLA-ACKed number was in this link's log
    obtain ⟨hnow, x, hx, hk⟩ := hev.core.proof hfan
    by_cases h9 : pt = 0x9100
    · subst h9
      simp only [if_true, List.mem_map] at hx
      obtain ⟨a, ha, rfl⟩ := hx
      obtain ⟨nums, hnums, hun⟩ := ok_of_ne_panic (C15.C15_total_parse_srtla_ack data)
      rw [hun] at ha
      refine Or.inl ⟨hpt, hnow, nums, hnums, a, ha, ?_⟩
      by_cases hj : j = idx
      · subst hj
        rw [hl] at hl0; cases hl0
        simp only [if_true] at hk
        rcases arrival_cases l j s.reg s.clientKnown data now _ hpt with
          ⟨h, -⟩ | ⟨h, -⟩ | ⟨h, -⟩ | ⟨h, -⟩ | ⟨h, -⟩ | ⟨-, -, -, -, -, h⟩
        · simp at h
        · simp at h
        · simp at h
        · simp at h
        · simp at h
        · rw [h] at hk; exact hk
      · simpa only [hj, if_false] using hk
    · simp [h9] at hx

/-! ## Non-vacuity -/

open Srtla.Select in
/-- A two-link shell at `now = 5000`, client known: link 7 is live with numbers 41 and 42 in flight and
a keepalive probe outstanding, link 9 holds number 50. -/
def exSys : Sys Int :=
  letI := fixScalar
  { links :=
      [ { (FLink.newRegistering 7 0 : FLink Int) with
            core := { connId := 7, connected := true, phase := .live, inFlight := 2,
                      log := [(41, 4900), (42, 4950)], lastReceived := some 4000, proofMs := 3000 },
            rtt := { (Rtt.RttTracker.new : Rtt.RttTracker Int) with waiting := true, lastKeepaliveSentMs := 4800 } },
        { (FLink.newRegistering 9 0 : FLink Int) with
            core := { connId := 9, connected := true, phase := .live, inFlight := 1, log := [(50, 4990)] } } ],
    reg := Reg.Reg.new [] [], clientKnown := true }

/-- An SRT data packet (type word 0x0000…: top bit clear), 16 bytes. -/
def exData : Codec.Bytes := [0, 0, 0, 41, 0, 0, 0, 0, 0, 0, 0, 0, 1, 2, 3, 4]
/-- An SRT ACK (0x8002), 20 bytes, acknowledging number 42. -/
def exSrtAck : Codec.Bytes := [0x80, 0x02, 0, 0, 0, 0, 0, 0, 0, 0, 0, 0, 0, 0, 0, 0, 0, 0, 0, 42]
/-- An SRTLA ACK (0x9100) listing number 50 — which is in link 9's log, not in the arrival link's. -/
def exSrtlaAck : Codec.Bytes := [0x91, 0x00, 0, 0, 0, 0, 0, 50]
/-- A keepalive echo (0x9000) carrying timestamp 4800. -/
def exEcho : Codec.Bytes := [0x90, 0x00, 0, 0, 0, 0, 0, 0, 0x12, 0xC0]

/-- Hypotheses of `C09_relay` are met by a data packet and by an SRT ACK arriving on link 7. -/
example :
    exData ∈ (@handleUplinkPacket Int Select.fixScalar exSys 7 exData 5000).2.client ∧
    (@handleUplinkPacket Int Select.fixScalar exSys 7 exSrtAck 5000).2.client = [exSrtAck, exSrtAck] := by
  letI := Select.fixScalar
  have h1 := C09_relay exSys 7 exData 5000 (by simp [exData]) rfl
    ⟨_, List.mem_cons_self, rfl⟩
    (by intro pt h; simp [exData, Codec.getPacketTypeS, Codec.be16] at h; subst h; simp [Internal, Registration])
  have h2 := C09_relay exSys 7 exSrtAck 5000 (by simp [exSrtAck]) rfl
    ⟨_, List.mem_cons_self, rfl⟩
    (by intro pt h; simp [exSrtAck, Codec.getPacketTypeS, Codec.be16] at h; subst h; simp [Internal, Registration])
  refine ⟨h1.1, ?_⟩
  rw [h2.2.2, if_pos (by simp [exSrtAck, Codec.getPacketTypeS, Codec.be16])]

/-- `C09_internal_consumed` on the SRTLA ACK and the echo; `C09_liveness_stamp` on both. -/
example :
    (@handleUplinkPacket Int Select.fixScalar exSys 7 exSrtlaAck 5000).2.client = [] ∧
    (@handleUplinkPacket Int Select.fixScalar exSys 7 exEcho 5000).2.client = [] ∧
    (∃ l', (@handleUplinkPacket Int Select.fixScalar exSys 7 exEcho 5000).1.links[0]? = some l' ∧
      l'.core.lastReceived = some 5000) := by
  letI := Select.fixScalar
  refine ⟨C09_internal_consumed exSys 7 exSrtlaAck 5000 0x9100 rfl (by simp [Internal]),
    C09_internal_consumed exSys 7 exEcho 5000 0x9000 rfl (by simp [Internal]),
    C09_liveness_stamp exSys 7 exEcho 5000 0 (by simp [exEcho])
      (by intro pt h; simp [exEcho, Codec.getPacketTypeS, Codec.be16] at h; subst h; simp [Registration]) rfl⟩

/-- The three causes of `C09_proof_stamp` are all realisable: the SRTLA ACK for number 50 received on
link 7 moves the proof stamp of link 9 (index 1) to `now`; the echo of a 200 ms old probe moves link
7's; a REG_ERR zeroes it. -/
example :
    ((@handleUplinkPacket Int Select.fixScalar exSys 7 exSrtlaAck 5000).1.links.map (·.core.proofMs)) = [3000, 5000] ∧
    ((@handleUplinkPacket Int Select.fixScalar exSys 7 exEcho 5000).1.links.map (·.core.proofMs)) = [5000, 0] ∧
    ((@handleUplinkPacket Int Select.fixScalar exSys 7 [0x92, 0x10] 5000).1.links.map (·.core.proofMs)) = [0, 0] := by
  decide +kernel

/-! ## Run level: the whole return path of a run -/

/-- `relayable` (the Boolean the run-level statements use) is the hypothesis set of `C09_relay`: the conn
id is carried by a link, the datagram has two or more bytes, and its type code is not SRTLA-internal. -/
theorem C09_relayable_iff (known : List Nat) (connId : Nat) (data : Codec.Bytes) :
    relayable known connId data = true ↔
      (2 ≤ data.length ∧ connId ∈ known ∧ ∀ pt, Codec.getPacketTypeS data = some pt → ¬ Internal pt) := by
  unfold relayable
  have hint : ∀ pt, internalType pt = true ↔ Internal pt := by
    intro pt
    simp only [internalType, Bool.or_eq_true, beq_iff_eq, Internal, Registration]
    omega
  cases hp : Codec.getPacketTypeS data with
  | none =>
    simp only [Bool.and_false, Bool.false_eq_true, false_iff, not_and]
    intro hlen
    obtain ⟨pt, h⟩ := type_of_len data hlen
    rw [hp] at h; cases h
  | some pt =>
    have hlen : 2 ≤ data.length := by
      match data, hp with
      | _ :: _ :: _, _ => simp
    simp only [Bool.and_eq_true, List.contains_eq_mem, decide_eq_true_eq, Bool.not_eq_true', Option.some.injEq,
      forall_eq']
    constructor
    · rintro ⟨h1, h2⟩
      refine ⟨hlen, h1, fun hi => ?_⟩
      rw [(hint pt).2 hi] at h2; cases h2
    · rintro ⟨-, h1, h2⟩
      refine ⟨h1, ?_⟩
      cases hi : internalType pt
      · rfl
      · exact absurd ((hint pt).1 hi) h2

/-- **The relay log of a run** (`C09_relay_run`).  Conn ids distinct, a client address known at the start
(it stays known).  For EVERY event list — uplink datagrams of any content on any socket, interleaved with
client datagrams, flush and housekeeping ticks, config changes, send-failure injections — the
concatenation of everything sent to the SRT client during the run is EXACTLY: the relayable uplink
datagrams (`relayables`: arrived on a conn id carried by a link, two or more bytes, type not
SRTLA-internal — `C09_relayable_iff`), in arrival order, byte for byte, each once — except that an SRT ACK
(type 0x8002) appears twice, back to back (`relayCopies`: the latency fast path inside
`process_uplink_packet` and then the normal forward list; always both, because the fast path is taken
exactly when a client address is known).  Nothing else is ever sent to the client: no internal datagram,
nothing invented, nothing reordered, nothing from any other arm of the event loop.
`hnr`: over events / runs that keep the link set (no `Ev.reload`); a reload keeps the whole record of every retained link
(`Props/SysReload.lean: reload_frame`) and the theorem applies again from the state after it. -/
theorem C09_relay_run (s : Sys F) (hnd : (ids s.links).Nodup) (hck : s.clientKnown = true) (evs : List Ev)
    (hnr : NoReload evs) :
    clientLog (run s evs).2 = (relayables (ids s.links) evs).flatMap relayCopies ∧
    (∀ d, relayCopies d = if Codec.getPacketTypeS d = some 0x8002 then [d, d] else [d]) := by
  refine ⟨?_, fun _ => rfl⟩
  rw [run_client_log s hnd evs hnr, hck, relayLog_true]

/-- The three readings of `C09_relay_run`: (1) every relayable datagram is delivered, in arrival order
(the relayable arrivals are a subsequence of the client log); (2) everything delivered is, byte for byte,
an uplink datagram of the run that arrived on a link's conn id, has two or more bytes and is not
SRTLA-internal — no internal datagram reaches the client, nothing is invented; (3) the client stays
known.
`hnr`: over events / runs that keep the link set (no `Ev.reload`); a reload keeps the whole record of every retained link
(`Props/SysReload.lean: reload_frame`) and the theorem applies again from the state after it. -/
theorem C09_relay_run_reading (s : Sys F) (hnd : (ids s.links).Nodup) (hck : s.clientKnown = true) (evs : List Ev)
    (hnr : NoReload evs) :
    (relayables (ids s.links) evs).Sublist (clientLog (run s evs).2) ∧
    (∀ d ∈ clientLog (run s evs).2, ∃ now connId, Ev.uplink now connId d ∈ evs ∧
      2 ≤ d.length ∧ (∃ l ∈ s.links, l.core.connId = connId) ∧
      ∀ pt, Codec.getPacketTypeS d = some pt → ¬ Internal pt) ∧
    (∀ now connId d, Ev.uplink now connId d ∈ evs → 2 ≤ d.length → (∃ l ∈ s.links, l.core.connId = connId) →
      (∀ pt, Codec.getPacketTypeS d = some pt → ¬ Internal pt) → d ∈ clientLog (run s evs).2) := by
  rw [(C09_relay_run s hnd hck evs hnr).1]
  have hids : ∀ c, c ∈ ids s.links ↔ ∃ l ∈ s.links, l.core.connId = c := by
    intro c; simp [ids]
  refine ⟨sublist_flatMap_relayCopies _, ?_, ?_⟩
  · intro d hd
    obtain ⟨now, cid, h1, h2⟩ := mem_relayables.1 (mem_flatMap_relayCopies.1 hd)
    obtain ⟨a, b, c⟩ := (C09_relayable_iff _ _ _).1 h2
    exact ⟨now, cid, h1, a, (hids cid).1 b, c⟩
  · intro now cid d h1 h2 h3 h4
    exact mem_flatMap_relayCopies.2
      (mem_relayables.2 ⟨now, cid, h1, (C09_relayable_iff _ _ _).2 ⟨h2, (hids cid).2 h3, h4⟩⟩)

/-- **Before a client is known** nothing is relayed, over any stretch of events that contains no non-empty
client datagram; the first non-empty client datagram makes the client known, and from the next event on
the log is as in `C09_relay_run`.
`hnr`: over events / runs that keep the link set (no `Ev.reload`); a reload keeps the whole record of every retained link
(`Props/SysReload.lean: reload_frame`) and the theorem applies again from the state after it. -/
theorem C09_relay_run_from_unknown (s : Sys F) (hnd : (ids s.links).Nodup) (hck : s.clientKnown = false) :
    (∀ evs, NoReload evs → noClient evs = true → clientLog (run s evs).2 = []) ∧
    (∀ pre now pkt post, NoReload (pre ++ .client now pkt :: post) → noClient pre = true → pkt ≠ [] →
      clientLog (run s (pre ++ .client now pkt :: post)).2 = (relayables (ids s.links) post).flatMap relayCopies) := by
  constructor
  · intro evs hnr h
    rw [run_client_log s hnd evs hnr, hck, relayLog_false_noClient _ _ h]
  · intro pre now pkt post hnr h hne
    rw [run_client_log s hnd _ hnr, hck, relayLog_false_split _ _ _ _ _ h (by cases pkt <;> simp_all)]

/-- The general form, any initial `clientKnown`: the client log is the pure function `relayLog` of the event
list, the set of conn ids and the initial flag.
`hnr`: over events / runs that keep the link set (no `Ev.reload`); a reload keeps the whole record of every retained link
(`Props/SysReload.lean: reload_frame`) and the theorem applies again from the state after it. -/
theorem C09_relay_run_general (s : Sys F) (hnd : (ids s.links).Nodup) (evs : List Ev) (hnr : NoReload evs) :
    clientLog (run s evs).2 = relayLog (ids s.links) s.clientKnown evs :=
  run_client_log s hnd evs hnr

/-- A run on the example shell (links 7 and 9, client known): a data packet on link 7, an SRTLA ACK
(internal), an SRT ACK on link 9, a data packet on the unknown conn id 8, a one-byte datagram, a keepalive
echo, and a housekeeping tick and a client datagram in between.  The client receives the data packet once
and the SRT ACK twice, in arrival order, and nothing else. -/
example :
    clientLog (@run Int Select.fixScalar exSys
      [.uplink 5000 7 exData, .uplink 5001 7 exSrtlaAck, .hk 5002, .uplink 5003 9 exSrtAck, .uplink 5004 8 exData,
       .client 5005 exData, .uplink 5006 7 [0x80], .uplink 5007 7 exEcho]).2 = [exData, exSrtAck, exSrtAck] ∧
    relayables [7, 9]
      [.uplink 5000 7 exData, .uplink 5001 7 exSrtlaAck, .hk 5002, .uplink 5003 9 exSrtAck, .uplink 5004 8 exData,
       .client 5005 exData, .uplink 5006 7 [0x80], .uplink 5007 7 exEcho] = [exData, exSrtAck] ∧
    (@ids Int exSys.links).Nodup ∧ exSys.clientKnown = true := by
  decide +kernel

/-- From an unknown client: uplink traffic before the first client datagram is not relayed, after it it is. -/
example :
    clientLog (@run Int Select.fixScalar { exSys with clientKnown := false }
      [.uplink 5000 7 exData, .client 5001 exData, .uplink 5002 7 exData]).2 = [exData] := by
  decide +kernel

/-! ## The relay log across reloads, in closed form -/

/-- **The link set along ANY run, in closed form** (`Lemmas/ReloadKeys.lean`).  The KEY of a link is
(conn id, address token); no operation of the shell rewrites either, so an event that is not a reload keeps the key
list, and a reload maps it by the pure function `keysReload` (keep the keys whose address is still desired, in
order; append one key per needed address whose `connect_uplink` attempt succeeded, with the drawn id).  Hence the
keys — in particular the conn ids that name a PRESENT link — after any run are a pure function of the initial keys
and the event list.  No hypothesis: no distinctness, no `NoReload`. -/
theorem C09_link_set_closed_form (s : Sys F) (evs : List Ev) :
    keysOf (run s evs).1.links = keysRun (keysOf s.links) evs ∧
    ids (run s evs).1.links = (keysRun (keysOf s.links) evs).map (·.1) ∧
    (∀ keys e es, keysRun keys (e :: es) = keysRun (keysAfter keys e) es) ∧
    (∀ keys now addrs outs, keysAfter keys (.reload now addrs outs) =
      keys.filter (fun k => addrs.contains k.2) ++
        createdKeys ((dedupSeen [] addrs).filter fun a => !(keys.map (·.2)).contains a) outs) ∧
    (∀ keys e, e.isReload = false → keysAfter keys e = keys) :=
  ⟨run_keys s evs, run_ids s evs, fun _ _ _ => rfl, fun _ _ _ _ => rfl,
   fun _ e h => by cases e <;> first | rfl | cases h⟩

/-- **The relay log of a run WITH reloads, in closed form** (`C09_relay_run` without its two hypotheses `hnd` /
`hnr`).  A client address known at the start (it stays known).  For EVERY event list, reloads included, from EVERY
state, the concatenation of everything sent to the SRT client during the run is EXACTLY `relayablesK`: the uplink
datagrams that are relayable AGAINST THE CONN IDS PRESENT WHEN THEY ARRIVE (two or more bytes, type not
SRTLA-internal, conn id carried by a link that is current at that moment — the key list is threaded through the
event list by `keysAfter`, a pure function), in arrival order, byte for byte, each once — an SRT ACK twice
(`relayCopies`).  A datagram for the conn id of a link a reload has removed is not relayed; one for a link a reload
has created is.  Second part: the general form for any initial `clientKnown`. -/
theorem C09_relay_run_closed (s : Sys F) (evs : List Ev) :
    (s.clientKnown = true →
      clientLog (run s evs).2 = (relayablesK (keysOf s.links) evs).flatMap relayCopies) ∧
    clientLog (run s evs).2 = relayLogK (keysOf s.links) s.clientKnown evs := by
  refine ⟨fun hck => ?_, run_client_log_keys s evs⟩
  rw [run_client_log_keys, hck, relayLogK_true]

/-- The readings of `C09_relay_run_closed`, for runs WITH reloads: (1) every relayable datagram is delivered, in
arrival order; (2) everything delivered is, byte for byte, an uplink datagram `evs[k]` of the run that arrived on
the conn id of a link PRESENT in the state the run had reached after its first `k` events, has two or more bytes
and is not SRTLA-internal; (3) conversely EVERY such datagram — arriving on an uplink that is current at that
moment — reaches the client. -/
theorem C09_relay_run_closed_reading (s : Sys F) (hck : s.clientKnown = true) (evs : List Ev) :
    (relayablesK (keysOf s.links) evs).Sublist (clientLog (run s evs).2) ∧
    (∀ d ∈ clientLog (run s evs).2, ∃ k now connId, evs[k]? = some (Ev.uplink now connId d) ∧
      2 ≤ d.length ∧ (∃ l ∈ (run s (evs.take k)).1.links, l.core.connId = connId) ∧
      ∀ pt, Codec.getPacketTypeS d = some pt → ¬ Internal pt) ∧
    (∀ k now connId d, evs[k]? = some (Ev.uplink now connId d) → 2 ≤ d.length →
      (∃ l ∈ (run s (evs.take k)).1.links, l.core.connId = connId) →
      (∀ pt, Codec.getPacketTypeS d = some pt → ¬ Internal pt) → d ∈ clientLog (run s evs).2) := by
  rw [(C09_relay_run_closed s evs).1 hck]
  have hids : ∀ (k : Nat) c, c ∈ (keysRun (keysOf s.links) (evs.take k)).map (·.1) ↔
      ∃ l ∈ (run s (evs.take k)).1.links, l.core.connId = c := by
    intro k c
    rw [← run_ids]; simp [ids]
  refine ⟨sublist_flatMap_relayCopies _, ?_, ?_⟩
  · intro d hd
    obtain ⟨k, now, cid, h1, h2⟩ := mem_relayablesK.1 (mem_flatMap_relayCopies.1 hd)
    obtain ⟨a, b, c⟩ := (C09_relayable_iff _ _ _).1 h2
    exact ⟨k, now, cid, h1, a, (hids k cid).1 b, c⟩
  · intro k now cid d h1 h2 h3 h4
    exact mem_flatMap_relayCopies.2
      (mem_relayablesK.2 ⟨k, now, cid, h1, (C09_relayable_iff _ _ _).2 ⟨h2, (hids k cid).2 h3, h4⟩⟩)

/-- `exSys` with distinct uplink addresses: conn id 7 at address 1, conn id 9 at address 2. -/
def exSysR : Sys Int :=
  { exSys with links := exSys.links.mapIdx fun i l => { l with addr := i + 1 } }

/-- A run WITH a reload: a data packet on link 9; a reload that keeps address 1, drops address 2 (link 9) and adds
address 3 (drawn conn id 11); then a data packet for the REMOVED conn id 9 (not relayed), an SRT ACK on the
surviving link 7 (relayed twice) and a data packet on the NEW link 11 (relayed).  The closed form computes the key
list `[(7, 1), (11, 3)]` and the relayable datagrams without running the model. -/
example :
    clientLog (@run Int Select.fixScalar exSysR
      [.uplink 5000 9 exData, .reload 5001 [1, 3] [some 11], .uplink 5002 9 exData, .uplink 5003 7 exSrtAck,
       .uplink 5004 11 exData]).2 = [exData, exSrtAck, exSrtAck, exData] ∧
    @keysOf Int exSysR.links = [(7, 1), (9, 2)] ∧
    keysRun [(7, 1), (9, 2)] [.uplink 5000 9 exData, .reload 5001 [1, 3] [some 11]] = [(7, 1), (11, 3)] ∧
    relayablesK [(7, 1), (9, 2)]
      [.uplink 5000 9 exData, .reload 5001 [1, 3] [some 11], .uplink 5002 9 exData, .uplink 5003 7 exSrtAck,
       .uplink 5004 11 exData] = [exData, exSrtAck, exData] ∧
    exSysR.clientKnown = true := by
  decide +kernel

end Srtla.Props.C09
