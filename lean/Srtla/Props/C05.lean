import Srtla.Model.Conn
import Srtla.Lemmas.Log
import Srtla.Lemmas.Conn
import Srtla.Lemmas.TrackerTie
import Srtla.Lemmas.SysDir
/-!
# C05 — a NAK is charged once, and only to a link that carried the packet

Single NAK: `C05_charge_exact`, `C05_at_most_one`, `C05_tracker_exclusive`, `C05_repeat_noop`,
`C05_unknown_noop`; the ring: `C05_tracker_spec`.  NAK lists incl. duplicates: `C05_second_nak_noop`,
`C05_nak_list_tracker_once`, `C05_nak_list_charges_le_holders`.  Histories with link removal:
`C05_tracker_ids_present`, `C05_hit_is_present`, `C05_tracker_exclusive_history`.  The shell
(`Model/Sys.lean`): `C05_tracker_records_unique_carrier`, `C05_tracker_written_only_by_routing`,
`C05_sys_remembered_ids_present` (lemmas in `Lemmas/TrackerTie.lean`).
-/
namespace Srtla.Props.C05
open Srtla.Conn Srtla.Gen

/-! ## What a charge is -/

theorem erase_length (l : List Int) (s : Int) (hn : l.Nodup) (hs : s ∈ l) :
    (l.filter (· != s)).length + 1 = l.length := by
  induction l with
  | nil => cases hs
  | cons x rest ih =>
    have hn' := List.nodup_cons.mp hn
    by_cases hx : x = s
    · subst hx
      have : rest.filter (· != x) = rest := by
        apply List.filter_eq_self.mpr
        intro y hy
        simp only [bne_iff_ne, ne_eq]
        intro hyx; subst hyx; exact hn'.1 hy
      simp [this]
    · have hs' : s ∈ rest := by
        rcases List.mem_cons.mp hs with h | h
        · exact absurd h.symm hx
        · exact h
      have := ih hn'.2 hs'
      simp [hx, this]


/-- The charge on the link that held the number: exactly one loss count, one window decrement of
100 floored at 1000, that number removed, one in-flight slot. -/
theorem C05_charge_exact (c : Conn) (s : Int) (now : Nat) (hs : s ∈ c.keys) (h : LogInv c)
    (hw : 1000 ≤ c.window) :
    (c.nak s now).2 = true ∧
    (c.nak s now).1.cong.nakCount = satAddI32 c.cong.nakCount 1 ∧
    (c.nak s now).1.window = max (c.window - 100) 1000 ∧
    (c.nak s now).1.window ≤ c.window ∧
    (c.nak s now).1.keys = c.keys.filter (· != s) ∧
    (c.nak s now).1.inFlight = c.inFlight - 1 := by
  have hany : c.log.any (·.1 == s) = true := (any_iff_mem_keys c.log s).mpr hs
  obtain ⟨hF, -, -, -, -, hD, -, -⟩ := wconsts
  have hk := nak_keys c s now
  have hinv := nak_inv c s now h
  have hlen : ((c.keys.filter (· != s)).length : Int) = c.keys.length - 1 := by
    have := erase_length c.keys s h.nodup hs
    omega
  refine ⟨?_, ?_, ?_, ?_, hk, ?_⟩
  · simp only [Conn.nak, if_pos hany]
  · simp only [Conn.nak, if_pos hany, Cong.handleNak]
  · simp only [Conn.nak, if_pos hany, Cong.handleNak]; omega
  · simp only [Conn.nak, if_pos hany, Cong.handleNak]; omega
  · rw [hinv.count, hk, h.count]
    simp only [specErase] at hlen ⊢
    exact hlen

/-! ## `attribute_nak`: at most one link, and only a holder -/

theorem nak_found (c : Conn) (s : Int) (now : Nat) : (c.nak s now).2 = true ↔ s ∈ c.keys := by
  unfold Conn.nak
  split
  · rename_i h
    have := (any_iff_mem_keys c.log s).mp h
    simp [this]
  · rename_i h
    have : s ∉ c.keys := fun hm => h ((any_iff_mem_keys c.log s).mpr hm)
    constructor
    · intro hf; cases hf
    · intro hm; exact absurd hm this

theorem nak_not_found_id (c : Conn) (s : Int) (now : Nat) (h : s ∉ c.keys) : (c.nak s now).1 = c := by
  have : ¬ (c.log.any (·.1 == s) = true) := fun ha => h ((any_iff_mem_keys c.log s).mp ha)
  simp only [Conn.nak, if_neg this]

/-- The fallback scan charges the first holder, or nobody. -/
theorem nakScan_spec (ls : Links) (s : Int) (now : Nat) :
    ((nakScan ls s now).2 = none ∧ (nakScan ls s now).1 = ls ∧ ∀ c ∈ ls, s ∉ c.keys) ∨
    (∃ j c, (nakScan ls s now).2 = some j ∧ ls[j]? = some c ∧ s ∈ c.keys ∧
      (∀ i d, i < j → ls[i]? = some d → s ∉ d.keys) ∧
      (nakScan ls s now).1 = updateAt ls j (fun _ => (c.nak s now).1)) := by
  induction ls with
  | nil => left; simp [nakScan]
  | cons c rest ih =>
    unfold nakScan
    dsimp only
    by_cases hm : s ∈ c.keys
    · right
      rw [if_pos ((nak_found c s now).mpr hm)]
      refine ⟨0, c, rfl, rfl, hm, ?_, ?_⟩
      · intro i d hi; omega
      · simp [updateAt, List.mapIdx_cons]
        apply List.ext_getElem?
        intro k
        simp only [List.getElem?_mapIdx]
        cases rest[k]? <;> rfl
    · have hnf : ¬ ((c.nak s now).2 = true) := fun h => hm ((nak_found c s now).mp h)
      rw [if_neg hnf]
      rcases ih with ⟨h1, h2, h3⟩ | ⟨j, d, h1, h2, h3, h4, h5⟩
      · left
        refine ⟨by simp [h1], by simp [h2], ?_⟩
        intro x hx
        rcases List.mem_cons.mp hx with rfl | hx
        · exact hm
        · exact h3 x hx
      · right
        refine ⟨j + 1, d, by simp [h1], by simpa using h2, h3, ?_, ?_⟩
        · intro i e hi he
          cases i with
          | zero => simp at he; subst he; exact hm
          | succ i => exact h4 i e (by omega) (by simpa using he)
        · simp only [h5]
          simp [updateAt, List.mapIdx_cons]

/-- **At most one link is charged, and only a link that held the packet**: `attribute_nak`
either changes nothing, or replaces exactly one link `j` — which held the number — by that link
after its own NAK charge (`C05_charge_exact`). -/
theorem C05_at_most_one (ls : Links) (trk : Tracker) (n now : Nat) :
    ((attributeNak ls trk n now).2 = none ∧ (attributeNak ls trk n now).1 = ls) ∨
    (∃ j c, (attributeNak ls trk n now).2 = some j ∧ ls[j]? = some c ∧ toI32 n ∈ c.keys ∧
      (attributeNak ls trk n now).1 = updateAt ls j (fun _ => (c.nak (toI32 n) now).1)) := by
  unfold attributeNak
  dsimp only
  split
  · split
    · split
      · rename_i _ c hc
        try dsimp only
        by_cases hm : toI32 n ∈ c.keys
        · right
          rw [if_pos ((nak_found c _ now).mpr hm)]
          exact ⟨_, c, rfl, hc, hm, rfl⟩
        · left
          have : ¬ ((c.nak (toI32 n) now).2 = true) := fun h => hm ((nak_found c _ now).mp h)
          rw [if_neg this]
          exact ⟨rfl, rfl⟩
      · left; exact ⟨rfl, rfl⟩
    · rcases nakScan_spec ls (toI32 n) now with ⟨h1, h2, _⟩ | ⟨j, c, h1, h2, h3, _, h5⟩
      · left; exact ⟨h1, h2⟩
      · right; exact ⟨j, c, h1, h2, h3, h5⟩
  · rcases nakScan_spec ls (toI32 n) now with ⟨h1, h2, _⟩ | ⟨j, c, h1, h2, h3, _, h5⟩
    · left; exact ⟨h1, h2⟩
    · right; exact ⟨j, c, h1, h2, h3, h5⟩

/-- Every link other than the charged one is record-equal afterwards. -/
theorem C05_others_untouched (ls : Links) (trk : Tracker) (n now : Nat) (i : Nat)
    (hi : (attributeNak ls trk n now).2 ≠ some i) :
    (attributeNak ls trk n now).1[i]? = ls[i]? := by
  rcases C05_at_most_one ls trk n now with ⟨_, h2⟩ | ⟨j, c, h1, _, _, h4⟩
  · rw [h2]
  · rw [h4]
    have : i ≠ j := fun h => hi (by rw [h1, h])
    simp only [updateAt, List.getElem?_mapIdx, if_neg this]
    cases ls[i]? <;> rfl

/-- **Tracker exclusivity**: while the tracker remembers which (present) link carried the unique
copy, no other link can be charged — even if another link holds a probe copy of the number. -/
theorem C05_tracker_exclusive (ls : Links) (trk : Tracker) (n now cid pos : Nat)
    (hget : trk.get n now = some cid) (hpos : ls.findIdx? (·.connId == cid) = some pos) :
    (attributeNak ls trk n now).2 = none ∨ (attributeNak ls trk n now).2 = some pos := by
  unfold attributeNak
  simp only [hget, hpos]
  split
  · try dsimp only
    split
    · right; rfl
    · left; rfl
  · left; rfl

/-- **Unknown NAK**: if no link holds the number, nothing changes at all. -/
theorem C05_unknown_noop (ls : Links) (trk : Tracker) (n now : Nat)
    (h : ∀ c ∈ ls, toI32 n ∉ c.keys) :
    attributeNak ls trk n now = (ls, none) := by
  rcases C05_at_most_one ls trk n now with ⟨h1, h2⟩ | ⟨j, c, _, h2, h3, _⟩
  · exact Prod.ext h2 h1
  · exact absurd h3 (h c (List.mem_of_getElem? h2))

/-- **Repeated NAK**: once the remembered link no longer holds the number (it was charged, ACKed
or reset), a repeat of the NAK within the tracker's memory changes nothing — it does not fall
through to another holder. -/
theorem C05_repeat_noop (ls : Links) (trk : Tracker) (n now cid pos : Nat) (c : Conn)
    (hget : trk.get n now = some cid) (hpos : ls.findIdx? (·.connId == cid) = some pos)
    (hc : ls[pos]? = some c) (hn : toI32 n ∉ c.keys) :
    attributeNak ls trk n now = (ls, none) := by
  unfold attributeNak
  simp only [hget, hpos, hc]
  have : ¬ ((c.nak (toI32 n) now).2 = true) := fun h => hn ((nak_found c _ now).mp h)
  rw [if_neg this]

/-! ## The sequence tracker ring refines "newest write per slot" -/

inductive TOp where
  | insert (seq connId ts : Nat)
  | remove (connId : Nat)

def applyT (t : Tracker) : TOp → Tracker
  | .insert s c ts => t.insert s c ts
  | .remove c => t.removeConnection c

/-- Spec, newest operation first: the newest write to `slot` not purged since. -/
def lastWrite : List TOp → Nat → TrkEntry
  | [], _ => {}
  | .insert s c ts :: older, slot =>
    if slot = slotOf s then { connId := c, ts := ts, seq := s } else lastWrite older slot
  | .remove c :: older, slot =>
    if (lastWrite older slot).connId = c then {} else lastWrite older slot

theorem tracker_refines (ops : List TOp) (slot : Nat) :
    ((ops.foldl applyT Tracker.empty).ent slot) = lastWrite ops.reverse slot := by
  have gen : ∀ (ops : List TOp) (t : Tracker) (pre : List TOp),
      (∀ sl, t.ent sl = lastWrite pre sl) →
      ∀ sl, (ops.foldl applyT t).ent sl = lastWrite (ops.reverse ++ pre) sl := by
    intro ops
    induction ops with
    | nil => intro t pre h sl; simpa using h sl
    | cons op rest ih =>
      intro t pre h sl
      simp only [List.foldl_cons, List.reverse_cons, List.append_assoc, List.singleton_append]
      apply ih (applyT t op) (op :: pre)
      intro sl'
      cases op with
      | insert s c ts =>
        simp only [applyT, Tracker.insert, lastWrite]
        split
        · rfl
        · exact h sl'
      | remove c =>
        simp only [applyT, Tracker.removeConnection, lastWrite, h sl']
  have := gen ops Tracker.empty [] (fun _ => rfl) slot
  simpa using this

/-- **Tracker memory**: a lookup succeeds exactly when the newest un-purged write to the number's
slot was that very number (not displaced by a colliding newer one), by a non-zero connection id,
at most 5000 ms ago. -/
theorem C05_tracker_spec (ops : List TOp) (seq now cid : Nat) :
    (ops.foldl applyT Tracker.empty).get seq now = some cid ↔
      (let e := lastWrite ops.reverse (slotOf seq)
       e.connId = cid ∧ cid ≠ 0 ∧ e.seq = seq ∧ now - e.ts ≤ 5000) := by
  simp only [Tracker.get, tracker_refines, Seq.SEQUENCE_TRACKING_MAX_AGE_MS_eq]
  constructor
  · intro h
    split at h
    · rename_i hc
      simp only [Option.some.injEq] at h
      subst h
      exact ⟨rfl, hc.1, hc.2.1, by omega⟩
    · cases h
  · rintro ⟨h1, h2, h3, h4⟩
    rw [if_pos ⟨by rw [h1]; exact h2, h3, by omega⟩, h1]

/-- Non-vacuity: a colliding newer number (seq + 16384) displaces the older one; purging a
connection forgets its entries; the age limit is inclusive at 5000 ms. -/
example :
    let t := [TOp.insert 100 7 1000, TOp.insert (100 + 16384) 9 1500].foldl applyT Tracker.empty
    t.get 100 2000 = none ∧ t.get (100 + 16384) 6500 = some 9 ∧ t.get (100 + 16384) 6501 = none ∧
    (applyT t (.remove 9)).get (100 + 16384) 2000 = none := by
  decide


/-! ## Non-vacuity of the single-NAK theorems -/

/-- Link 1 (id 11) holds 5 and 7; link 2 (id 22) holds a probe copy of 7; window 1050 on link 1. -/
def exA : Conn := { connId := 11, window := 1050, inFlight := 2, log := [(5, 100), (7, 110)] }
def exB : Conn := { connId := 22, window := 20000, inFlight := 1, log := [(7, 115)] }
/-- The tracker remembers link 2 (id 22) as the carrier of the unique copy of 7. -/
def exTrk : Tracker := Tracker.empty.insert 7 22 115

theorem exA_inv : LogInv exA := ⟨by decide, by decide, by decide⟩
theorem exB_inv : LogInv exB := ⟨by decide, by decide, by decide⟩

/-- `C05_charge_exact` is not vacuous: its hypotheses hold for `exA` and number 7, and the charge is
one loss count, window 1050 → 1000 (floored: not 950), number 7 gone, in-flight 2 → 1. -/
example :
    (7 : Int) ∈ exA.keys ∧ LogInv exA ∧ 1000 ≤ exA.window ∧
    (exA.nak 7 200).1.cong.nakCount = 1 ∧ (exA.nak 7 200).1.window = 1000 ∧
    (exA.nak 7 200).1.keys = [5] ∧ (exA.nak 7 200).1.inFlight = 1 :=
  ⟨by decide, exA_inv, by decide, by decide, by decide, by decide, by decide⟩

/-- `C05_at_most_one` / `C05_tracker_exclusive` are not vacuous: both links hold 7, the tracker names
link 2 (position 1): the NAK is charged to position 1 and link 1 — first in scan order — is untouched;
once the entry has expired (age 5001) the fallback scan charges position 0 instead. -/
example :
    exTrk.get 7 200 = some 22 ∧ [exA, exB].findIdx? (·.connId == 22) = some 1 ∧
    (attributeNak [exA, exB] exTrk 7 200).2 = some 1 ∧
    (attributeNak [exA, exB] exTrk 7 200).1[0]? = some exA ∧
    ((attributeNak [exA, exB] exTrk 7 200).1.map (·.keys)) = [[5, 7], []] ∧
    (attributeNak [exA, exB] exTrk 7 5116).2 = some 0 := by
  decide

/-! ## NAK lists, duplicates included -/

/-- The NAK loop of `process_connection_events` (one `attribute_nak` per listed number, same tracker,
same clock), recording every charge as `(NAK number, index of the charged link)`. -/
def nakFold (trk : Tracker) (now : Nat) : Links → List Nat → Links × List (Nat × Nat)
  | ls, [] => (ls, [])
  | ls, n :: rest =>
    ((nakFold trk now (attributeNak ls trk n now).1 rest).1,
      (match (attributeNak ls trk n now).2 with
        | some j => [(n, j)]
        | none => []) ++ (nakFold trk now (attributeNak ls trk n now).1 rest).2)

/-- `nakFold` is the model's loop (`Model/Sys.lean` `processConnectionEvents`, `cs3`). -/
theorem nakFold_links (trk : Tracker) (now : Nat) (ls : Links) (naks : List Nat) :
    (nakFold trk now ls naks).1 = naks.foldl (fun cs n => (attributeNak cs trk n now).1) ls := by
  induction naks generalizing ls with
  | nil => rfl
  | cons n rest ih => simp only [nakFold, List.foldl_cons, ih]

theorem findIdx_attributeNak (ls : Links) (trk : Tracker) (n now cid : Nat) :
    (attributeNak ls trk n now).1.findIdx? (·.connId == cid) = ls.findIdx? (·.connId == cid) := by
  rw [← findIdx_ids, ← findIdx_ids, idsOf_attributeNak]

/-- Sets only shrink under `attribute_nak`, position by position. -/
theorem attributeNak_keys_subset (ls : Links) (trk : Tracker) (n now j : Nat) (c c' : Conn)
    (hc : ls[j]? = some c) (hc' : (attributeNak ls trk n now).1[j]? = some c') :
    ∀ x ∈ c'.keys, x ∈ c.keys := by
  rcases C05_at_most_one ls trk n now with ⟨_, h2⟩ | ⟨i, d, _, hd, _, h4⟩
  · rw [h2, hc] at hc'; cases hc'; exact fun _ h => h
  · rw [h4] at hc'
    simp only [updateAt, List.getElem?_mapIdx, hc, Option.map_some, Option.some.injEq] at hc'
    split at hc'
    · rename_i hji; subst hji
      rw [hd] at hc; cases hc
      subst hc'
      intro x hx
      rw [nak_keys] at hx
      exact (mem_specErase.mp hx).1
    · subst hc'; exact fun _ h => h

/-- After a charge the charged link no longer holds the number. -/
theorem attributeNak_charged_gone (ls : Links) (trk : Tracker) (n now j : Nat)
    (h : (attributeNak ls trk n now).2 = some j) :
    ∃ c', (attributeNak ls trk n now).1[j]? = some c' ∧ toI32 n ∉ c'.keys := by
  rcases C05_at_most_one ls trk n now with ⟨h1, _⟩ | ⟨i, d, h1, hd, _, h4⟩
  · rw [h1] at h; cases h
  · rw [h1] at h; cases h
    refine ⟨(d.nak (toI32 n) now).1, ?_, ?_⟩
    · rw [h4]; simp [updateAt, List.getElem?_mapIdx, hd]
    · rw [nak_keys]; exact not_mem_specErase _ _

/-- **The second NAK of the same number is a no-op while the tracker remembers.**  If at both times
the tracker maps `n` to the same present link, then `attribute_nak` applied twice equals
`attribute_nak` applied once: the repeat charges nobody and changes no link — it does not fall
through to another holder (a probe copy on another link stays untouched). -/
theorem C05_second_nak_noop (ls : Links) (trk : Tracker) (n now now' cid pos : Nat)
    (hget : trk.get n now = some cid) (hget' : trk.get n now' = some cid)
    (hpos : ls.findIdx? (·.connId == cid) = some pos) :
    attributeNak (attributeNak ls trk n now).1 trk n now' = ((attributeNak ls trk n now).1, none) := by
  have hpos' : (attributeNak ls trk n now).1.findIdx? (·.connId == cid) = some pos := by
    rw [findIdx_attributeNak]; exact hpos
  obtain ⟨hlt, -, -⟩ := List.findIdx?_eq_some_iff_getElem.mp hpos'
  have hc' : (attributeNak ls trk n now).1[pos]? = some (attributeNak ls trk n now).1[pos] :=
    List.getElem?_eq_getElem hlt
  apply C05_repeat_noop _ trk n now' cid pos _ hget' hpos' hc'
  rcases C05_tracker_exclusive ls trk n now cid pos hget hpos with h | h
  · -- nobody was charged: the remembered link did not hold it in the first place
    rcases C05_at_most_one ls trk n now with ⟨_, h2⟩ | ⟨j, d, h1, _, _, _⟩
    · obtain ⟨hlt0, -, -⟩ := List.findIdx?_eq_some_iff_getElem.mp hpos
      intro hm
      have hc0 : ls[pos]? = some ls[pos] := List.getElem?_eq_getElem hlt0
      have : (attributeNak ls trk n now).2 = some pos := by
        unfold attributeNak
        simp only [hget, hpos, hc0]
        have hm' : toI32 n ∈ (ls[pos]).keys := by
          have e : (attributeNak ls trk n now).1[pos] = ls[pos] := by simp only [h2]
          rw [← e]; exact hm
        rw [if_pos ((nak_found _ _ now).mpr hm')]
      rw [h] at this; cases this
    · rw [h1] at h; cases h
  · obtain ⟨c', hc1, hn⟩ := attributeNak_charged_gone ls trk n now pos h
    rw [hc'] at hc1; cases hc1; exact hn

/-- While the remembered link does not hold the number, no NAK of a whole list is charged for it. -/
theorem nakFold_none_for (trk : Tracker) (now n cid pos : Nat)
    (hget : trk.get n now = some cid) (naks : List Nat) :
    ∀ (ls : Links) (c : Conn), ls.findIdx? (·.connId == cid) = some pos → ls[pos]? = some c →
      toI32 n ∉ c.keys → ∀ x ∈ (nakFold trk now ls naks).2, x.1 ≠ n := by
  induction naks with
  | nil => intro ls c _ _ _ x hx; simp [nakFold] at hx
  | cons m rest ih =>
    intro ls c hpos hc hn x hx
    simp only [nakFold, List.mem_append] at hx
    have hpos1 : (attributeNak ls trk m now).1.findIdx? (·.connId == cid) = some pos := by
      rw [findIdx_attributeNak]; exact hpos
    obtain ⟨hlt, -, -⟩ := List.findIdx?_eq_some_iff_getElem.mp hpos1
    have hc1 : (attributeNak ls trk m now).1[pos]? = some (attributeNak ls trk m now).1[pos] :=
      List.getElem?_eq_getElem hlt
    have hn1 : toI32 n ∉ ((attributeNak ls trk m now).1[pos]).keys := fun hm =>
      hn (attributeNak_keys_subset ls trk m now pos c _ hc hc1 _ hm)
    rcases hx with hx | hx
    · by_cases hmn : m = n
      · subst hmn
        rw [C05_repeat_noop ls trk m now cid pos c hget hpos hc hn] at hx
        simp at hx
      · split at hx
        · simp only [List.mem_singleton] at hx; subst hx; exact hmn
        · simp at hx
    · exact ih _ _ hpos1 hc1 hn1 x hx

/-- **A whole NAK list, duplicates and ranges included, while the tracker remembers.**  Run the NAK
loop of `process_connection_events` over ANY list of numbers.  For every number `n` that the tracker
maps to a present link (position `pos`): every charge made for `n` anywhere in the loop is to `pos`,
and there is at most ONE such charge however often `n` is repeated in the list — the total charged
for a distinct number is at most one link, once. -/
theorem C05_nak_list_tracker_once (trk : Tracker) (now n cid pos : Nat)
    (hget : trk.get n now = some cid) (naks : List Nat) :
    ∀ (ls : Links), ls.findIdx? (·.connId == cid) = some pos →
      (∀ x ∈ (nakFold trk now ls naks).2, x.1 = n → x.2 = pos) ∧
      ((nakFold trk now ls naks).2.filter (fun x => x.1 == n)).length ≤ 1 := by
  induction naks with
  | nil => intro ls _; simp [nakFold]
  | cons m rest ih =>
    intro ls hpos
    have hpos1 : (attributeNak ls trk m now).1.findIdx? (·.connId == cid) = some pos := by
      rw [findIdx_attributeNak]; exact hpos
    by_cases hmn : m = n
    · subst hmn
      rcases C05_tracker_exclusive ls trk m now cid pos hget hpos with h | h
      · -- no charge at the head: recurse
        obtain ⟨i1, i2⟩ := ih _ hpos1
        simp only [nakFold, h, List.nil_append]
        exact ⟨i1, i2⟩
      · -- charged to `pos`; afterwards `pos` does not hold it, so no further charge for `m`
        obtain ⟨c', hc1, hn⟩ := attributeNak_charged_gone ls trk m now pos h
        have hnone := nakFold_none_for trk now m cid pos hget rest _ c' hpos1 hc1 hn
        simp only [nakFold, h]
        refine ⟨?_, ?_⟩
        · intro x hx hxm
          simp only [List.singleton_append, List.mem_cons] at hx
          rcases hx with rfl | hx
          · rfl
          · exact absurd hxm (hnone x hx)
        · have : ((nakFold trk now (attributeNak ls trk m now).1 rest).2.filter (fun x => x.1 == m)) = [] := by
            apply List.filter_eq_nil_iff.mpr
            intro x hx
            simpa using hnone x hx
          simp [List.filter_cons, this]
    · obtain ⟨i1, i2⟩ := ih _ hpos1
      simp only [nakFold]
      refine ⟨?_, ?_⟩
      · intro x hx hxn
        rcases List.mem_append.mp hx with hx | hx
        · split at hx
          · simp only [List.mem_singleton] at hx; subst hx; exact absurd hxn hmn
          · simp at hx
        · exact i1 x hx hxn
      · rw [List.filter_append]
        have : (List.filter (fun x => x.1 == n)
            (match (attributeNak ls trk m now).2 with | some j => [(m, j)] | none => [])) = [] := by
          split <;> simp [hmn]
        rw [this]; exact i2

/-! ### Without the tracker: at most one charge per link that held the number -/

/-- Number of links holding `s`. -/
def holders (ls : Links) (s : Int) : Nat := ls.countP (fun c => decide (s ∈ c.keys))

theorem holders_updateAt_le (ls : Links) (j : Nat) (c c' : Conn) (s : Int) (hc : ls[j]? = some c)
    (hsub : ∀ x ∈ c'.keys, x ∈ c.keys) :
    holders (updateAt ls j (fun _ => c')) s ≤ holders ls s ∧
    (s ∈ c.keys → s ∉ c'.keys → holders (updateAt ls j (fun _ => c')) s + 1 = holders ls s) := by
  induction ls generalizing j with
  | nil => simp at hc
  | cons d rest ih =>
    cases j with
    | zero =>
      simp only [List.getElem?_cons_zero, Option.some.injEq] at hc
      subst hc
      have e : updateAt (d :: rest) 0 (fun _ => c') = c' :: rest := by
        simp only [updateAt, List.mapIdx_cons, if_true]
        congr 1
        apply List.ext_getElem?
        intro k
        simp only [List.getElem?_mapIdx]
        cases rest[k]? <;> simp
      rw [e]
      simp only [holders, List.countP_cons]
      refine ⟨?_, ?_⟩
      · by_cases h1 : s ∈ c'.keys
        · rw [if_pos (decide_eq_true h1), if_pos (decide_eq_true (hsub s h1))]
          exact Nat.le_refl _
        · rw [if_neg (by rw [decide_eq_true_iff]; exact h1)]; split <;> omega
      · intro h1 h2
        rw [if_pos (decide_eq_true h1), if_neg (by rw [decide_eq_true_iff]; exact h2)]
    | succ j =>
      simp only [List.getElem?_cons_succ] at hc
      have e : updateAt (d :: rest) (j + 1) (fun _ => c') = d :: updateAt rest j (fun _ => c') := by
        simp only [updateAt, List.mapIdx_cons]
        simp
      rw [e]
      obtain ⟨i1, i2⟩ := ih j hc
      simp only [holders, List.countP_cons] at i1 i2 ⊢
      refine ⟨by omega, fun h1 h2 => ?_⟩
      have := i2 h1 h2
      omega

/-- One `attribute_nak`: the holder count of EVERY number can only drop, and a charge removes exactly
one holder of the NAKed number. -/
theorem holders_attributeNak (ls : Links) (trk : Tracker) (n now : Nat) (s : Int) :
    holders (attributeNak ls trk n now).1 s ≤ holders ls s ∧
    ((attributeNak ls trk n now).2 ≠ none →
      holders (attributeNak ls trk n now).1 (toI32 n) + 1 = holders ls (toI32 n)) := by
  rcases C05_at_most_one ls trk n now with ⟨h1, h2⟩ | ⟨j, c, h1, hc, hm, h4⟩
  · rw [h2]; exact ⟨Nat.le_refl _, fun h => absurd h1 h⟩
  · rw [h4]
    have hsub : ∀ x ∈ (c.nak (toI32 n) now).1.keys, x ∈ c.keys := by
      intro x hx; rw [nak_keys] at hx; exact (mem_specErase.mp hx).1
    refine ⟨(holders_updateAt_le ls j c _ s hc hsub).1, fun _ => ?_⟩
    exact (holders_updateAt_le ls j c _ (toI32 n) hc hsub).2 hm
      (by rw [nak_keys]; exact not_mem_specErase _ _)

/-- **Any NAK list, no tracker assumption** (expired, displaced or purged entries included): the
number of charges made for sequence number `s` over the whole loop is at most the number of links
that held `s` when the loop started — a link is charged at most once per packet it had outstanding,
and a number nobody holds is never charged, however often it is repeated. -/
theorem C05_nak_list_charges_le_holders (trk : Tracker) (now : Nat) (s : Int) (naks : List Nat) :
    ∀ ls : Links,
      ((nakFold trk now ls naks).2.filter (fun x => toI32 x.1 == s)).length +
        holders (nakFold trk now ls naks).1 s ≤ holders ls s := by
  induction naks with
  | nil => intro ls; simp [nakFold]
  | cons m rest ih =>
    intro ls
    have i := ih (attributeNak ls trk m now).1
    obtain ⟨h1, h2⟩ := holders_attributeNak ls trk m now s
    simp only [nakFold, List.filter_append, List.length_append]
    cases hr : (attributeNak ls trk m now).2 with
    | none => simp only [List.filter_nil, List.length_nil]; omega
    | some j =>
      by_cases hms : toI32 m = s
      · have := h2 (by rw [hr]; simp)
        rw [hms] at this
        simp [hms]; omega
      · simp [hms]; omega

/-- The list theorems are not vacuous: the NAK list `[7, 7, 5, 7]` at a time the tracker remembers link
2 for 7: one charge for 7 (to position 1), one for 5 (fallback scan, position 0), the repeats of 7 do
nothing and link 1 keeps its copy of 7.  After expiry the same list charges 7 twice — once per holder. -/
example :
    (nakFold exTrk 200 [exA, exB] [7, 7, 5, 7]).2 = [(7, 1), (5, 0)] ∧
    ((nakFold exTrk 200 [exA, exB] [7, 7, 5, 7]).1.map (·.keys)) = [[7], []] ∧
    (nakFold exTrk 5116 [exA, exB] [7, 7, 5, 7]).2 = [(7, 0), (7, 1), (5, 0)] ∧
    holders [exA, exB] 7 = 2 := by
  decide

/-! ## Remembered ids are present ids (discharges `hpos`) -/

/-- Every id the ring remembers belongs to a present link (or the slot is empty: id 0). -/
def TrkSub (ls : Links) (trk : Tracker) : Prop :=
  ∀ i, (trk.ent i).connId = 0 ∨ (trk.ent i).connId ∈ idsOf ls

/-- Histories of the sender's link table and tracker: routing a packet over link `i` (the tracker
insert of `forward_via_connection` with that link's id, and the registration), anything that changes
links without changing their ids (`C05_link_events_keep_ids`: every ACK/NAK/reset event does), a
reload that drops the links failing `keep` and purges their ids from the ring
(`apply_connection_changes` + `remove_connection`), and a reload that appends a link. -/
inductive HOp where
  | route (i seq ts : Nat)
  | links (f : Links → Links)
  | remove (keep : Conn → Bool)
  | add (c : Conn)

def hwf : HOp → Prop
  | .links f => ∀ ls, idsOf (f ls) = idsOf ls
  | _ => True

def purge (trk : Tracker) (gone : Links) : Tracker :=
  gone.foldl (fun t c => t.removeConnection c.connId) trk

def hstep (s : Links × Tracker) : HOp → Links × Tracker
  | .route i seq ts =>
    match s.1[i]? with
    | some c => (updateAt s.1 i (·.register (toI32 seq) ts), s.2.insert seq c.connId ts)
    | none => s
  | .links f => (f s.1, s.2)
  | .remove keep => (s.1.filter keep, purge s.2 (s.1.filter (fun c => !keep c)))
  | .add c => (s.1 ++ [c], s.2)

/-- The link-level events of the model keep every link's id (so they are admissible `HOp.links`). -/
theorem C05_link_events_keep_ids :
    (∀ i s t, hwf (.links fun ls => updateAt ls i (·.register s t))) ∧
    (∀ a now, hwf (.links fun ls => evSrtAck ls a now)) ∧
    (∀ idx s cl now, hwf (.links fun ls => evSrtlaAck ls idx s cl now)) ∧
    (∀ trk n now, hwf (.links fun ls => (attributeNak ls trk n now).1)) ∧
    (∀ trk now naks, hwf (.links fun ls => (nakFold trk now ls naks).1)) ∧
    (∀ i now, hwf (.links fun ls => updateAt ls i (·.markForRecovery)) ∧
      hwf (.links fun ls => updateAt ls i (·.resetForReconnect)) ∧
      hwf (.links fun ls => updateAt ls i (·.clearPreRegistration now))) := by
  refine ⟨fun i s t ls => idsOf_updateAt _ _ _ (fun c _ => rfl),
    fun a now ls => idsOf_map _ _ (fun c => connId_srtAck c a now),
    fun idx s cl now ls => idsOf_evSrtlaAck ls idx s cl now,
    fun trk n now ls => idsOf_attributeNak ls trk n now, ?_, fun i now => ⟨?_, ?_, ?_⟩⟩
  · intro trk now naks ls
    induction naks generalizing ls with
    | nil => rfl
    | cons n rest ih => simp only [nakFold]; rw [ih, idsOf_attributeNak]
  · intro ls; exact idsOf_updateAt _ _ _ (fun c _ => rfl)
  · intro ls; exact idsOf_updateAt _ _ _ (fun c _ => rfl)
  · intro ls; exact idsOf_updateAt _ _ _ (fun c _ => rfl)

theorem purge_ent (gone : Links) : ∀ (trk : Tracker) (i : Nat),
    ((purge trk gone).ent i).connId = 0 ∨
    ((purge trk gone).ent i = trk.ent i ∧ (trk.ent i).connId ∉ idsOf gone) := by
  induction gone with
  | nil => intro trk i; right; exact ⟨rfl, by simp [idsOf]⟩
  | cons c rest ih =>
    intro trk i
    simp only [purge, List.foldl_cons] at ih ⊢
    have hrc : (trk.removeConnection c.connId).ent i =
        if (trk.ent i).connId = c.connId then {} else trk.ent i := rfl
    rcases ih (trk.removeConnection c.connId) i with h | ⟨h1, h2⟩
    · exact Or.inl h
    · rw [hrc] at h1 h2
      by_cases hc : (trk.ent i).connId = c.connId
      · left
        rw [h1, if_pos hc]
      · right
        rw [if_neg hc] at h1 h2
        refine ⟨h1, ?_⟩
        simp only [idsOf, List.map_cons, List.mem_cons, not_or]
        exact ⟨hc, h2⟩

theorem trkSub_step (s : Links × Tracker) (op : HOp) (h : TrkSub s.1 s.2) (hw : hwf op) :
    TrkSub (hstep s op).1 (hstep s op).2 := by
  cases op with
  | route i seq ts =>
    simp only [hstep]
    cases hc : s.1[i]? with
    | none => exact h
    | some c =>
      intro sl
      dsimp only
      rw [idsOf_updateAt s.1 i (·.register (toI32 seq) ts) (fun c _ => rfl)]
      simp only [Tracker.insert]
      split
      · right
        simp only [idsOf, List.mem_map]
        exact ⟨c, List.mem_of_getElem? hc, rfl⟩
      · exact h sl
  | links f =>
    intro sl
    simp only [hstep]
    rw [hw s.1]
    exact h sl
  | remove keep =>
    intro sl
    simp only [hstep]
    rcases purge_ent (s.1.filter (fun c => !keep c)) s.2 sl with h0 | ⟨h1, h2⟩
    · exact Or.inl h0
    · rw [h1]
      rcases h sl with h0 | hm
      · exact Or.inl h0
      · right
        simp only [idsOf, List.mem_map, List.mem_filter] at hm h2 ⊢
        obtain ⟨c, hc, hcid⟩ := hm
        refine ⟨c, ⟨hc, ?_⟩, hcid⟩
        cases hk : keep c
        · exact absurd ⟨c, ⟨hc, by simp [hk]⟩, hcid⟩ h2
        · rfl
  | add c =>
    intro sl
    simp only [hstep]
    rcases h sl with h0 | hm
    · exact Or.inl h0
    · right
      simp only [idsOf, List.map_append, List.mem_append] at hm ⊢
      exact Or.inl hm

/-- **Invariant over every history with removal**: starting from an empty ring (or any state where the
remembered ids are present), after any list of routings, link events, removals-with-purge and
additions, every id the ring remembers is the id of a link that is still present. -/
theorem C05_tracker_ids_present (s : Links × Tracker) (ops : List HOp) (h : TrkSub s.1 s.2)
    (hw : ∀ op ∈ ops, hwf op) : TrkSub (ops.foldl hstep s).1 (ops.foldl hstep s).2 := by
  induction ops generalizing s with
  | nil => exact h
  | cons op rest ih =>
    simp only [List.foldl_cons]
    exact ih _ (trkSub_step s op h (hw op (by simp))) (fun o ho => hw o (by simp [ho]))

theorem trkSub_empty (ls : Links) : TrkSub ls Tracker.empty := fun _ => Or.inl rfl

/-- A lookup hit names a present link: the hypothesis `hpos` of `C05_tracker_exclusive`,
`C05_repeat_noop`, `C05_second_nak_noop`, `C05_nak_list_tracker_once` is discharged by the invariant. -/
theorem C05_hit_is_present (ls : Links) (trk : Tracker) (n now cid : Nat) (h : TrkSub ls trk)
    (hget : trk.get n now = some cid) :
    ∃ pos c, ls.findIdx? (·.connId == cid) = some pos ∧ ls[pos]? = some c ∧ c.connId = cid := by
  have hcid : cid ≠ 0 ∧ (trk.ent (slotOf n)).connId = cid := by
    simp only [Tracker.get] at hget
    split at hget
    · rename_i hc; cases hget; exact ⟨hc.1, rfl⟩
    · cases hget
  have hm : cid ∈ idsOf ls := by
    rcases h (slotOf n) with h0 | hm
    · rw [hcid.2] at h0; exact absurd h0 hcid.1
    · rw [hcid.2] at hm; exact hm
  cases hf : ls.findIdx? (·.connId == cid) with
  | none =>
    simp only [idsOf, List.mem_map] at hm
    obtain ⟨c, hc, hcc⟩ := hm
    have := List.findIdx?_eq_none_iff.mp hf c hc
    simp [hcc] at this
  | some pos =>
    obtain ⟨hlt, hp, -⟩ := List.findIdx?_eq_some_iff_getElem.mp hf
    exact ⟨pos, ls[pos], rfl, List.getElem?_eq_getElem hlt, by simpa using hp⟩

/-- **Tracker exclusivity along histories with link removal**: after ANY history from an empty ring,
if the ring still remembers a carrier for `n`, that carrier is a present link `pos` and a NAK of `n`
is charged to `pos` or to nobody — never to another holder, never to a removed link's successor at
the same index. -/
theorem C05_tracker_exclusive_history (ls0 : Links) (ops : List HOp) (hw : ∀ op ∈ ops, hwf op)
    (n now cid : Nat) (hget : (ops.foldl hstep (ls0, Tracker.empty)).2.get n now = some cid) :
    ∃ pos c, (ops.foldl hstep (ls0, Tracker.empty)).1[pos]? = some c ∧ c.connId = cid ∧
      ((attributeNak (ops.foldl hstep (ls0, Tracker.empty)).1
          (ops.foldl hstep (ls0, Tracker.empty)).2 n now).2 = none ∨
       (attributeNak (ops.foldl hstep (ls0, Tracker.empty)).1
          (ops.foldl hstep (ls0, Tracker.empty)).2 n now).2 = some pos) := by
  have hinv := C05_tracker_ids_present (ls0, Tracker.empty) ops (trkSub_empty ls0) hw
  obtain ⟨pos, c, hpos, hc, hcid⟩ := C05_hit_is_present _ _ n now cid hinv hget
  exact ⟨pos, c, hc, hcid, C05_tracker_exclusive _ _ n now cid pos hget hpos⟩

/-- Non-vacuity: route 7 over link 2 (id 22), then a reload removes link 2: the ring forgets 7 (the
purge ran), so the NAK falls back to the scan and charges link 1 which holds a copy; without the
removal the hit names position 1. -/
example :
    let s0 : Links × Tracker := ([exA, exB], Tracker.empty)
    ([HOp.route 1 7 115].foldl hstep s0).2.get 7 200 = some 22 ∧
    ([HOp.route 1 7 115, .remove (fun c => c.connId != 22)].foldl hstep s0).2.get 7 200 = none ∧
    (([HOp.route 1 7 115, .remove (fun c => c.connId != 22)].foldl hstep s0).1.map (·.connId)) = [11] := by
  decide


/-! ## The ring in the sender shell: who writes it (tie to routing) -/

section sys
open Srtla.Sys Srtla.Link
variable {F : Type} [Scalar F]

/-- **The ring remembers the carrier of the unique copy, and only that.**  Over the shell model
(`Model/Sys.lean`, run line by line against the real event-loop arms by component `sys`), for EVERY
state and every client datagram, with `target` the link C01 proves receives the unique copy
(`C01_exactly_one_unique_copy`):
* routed to link `sel` and an SRT data packet with sequence number `sq`: afterwards
  `last_selected_idx = sel` and the ring is the old ring with exactly one slot written,
  `(sq, conn id of link sel, now)` — so a lookup of `sq` within 5000 ms names that link
  (unless a colliding number displaces it: `C05_tracker_spec`);
* control packet (no sequence number), empty datagram, or no usable link: the ring is unchanged;
* the stall-probe copies `send_stall_probes` queues on OTHER links during the same event write
  nothing (the function is not even handed the ring). -/
theorem C05_tracker_records_unique_carrier (s : Sys F) (pkt : Sys.Bytes) (now : Nat) :
    ((pkt.isEmpty = true ∨ target s pkt now = none) → (handleSrtPacket s pkt now).1.trk = s.trk) ∧
    (∀ sel, pkt.isEmpty = false → target s pkt now = some sel →
      ∃ l, s.links[sel]? = some l ∧ (handleSrtPacket s pkt now).1.lastSelected = some sel ∧
        (handleSrtPacket s pkt now).1.trk =
          (match Codec.getSrtSequenceNumberS pkt with
           | some sq => s.trk.insert sq l.core.connId now
           | none => s.trk) ∧
        (∀ sq, Codec.getSrtSequenceNumberS pkt = some sq → l.core.connId ≠ 0 →
          (handleSrtPacket s pkt now).1.trk.get sq now = some l.core.connId)) := by
  obtain ⟨h1, h2⟩ := TrackerTie.handleSrtPacket_trk s pkt now
  refine ⟨h1, fun sel hne ht => ?_⟩
  obtain ⟨l, hl, hls, htrk⟩ := h2 sel hne ht
  refine ⟨l, hl, hls, htrk, fun sq hsq hid => ?_⟩
  rw [htrk, hsq]
  have hage : ¬ (now - now > Seq.SEQUENCE_TRACKING_MAX_AGE_MS) := by
    have := Seq.SEQUENCE_TRACKING_MAX_AGE_MS_eq; omega
  unfold Tracker.get Tracker.insert
  dsimp only
  rw [if_pos rfl]
  dsimp only
  rw [if_pos ⟨hid, rfl, hage⟩]

/-- **Nothing else writes the ring**: uplink datagrams (ACK / NAK / registration / keepalive echoes),
periodic flushes, housekeeping (reconnects included) and configuration events leave it untouched.
`hnr`: over events / runs that keep the link set (no `Ev.reload`); a reload keeps the whole record of every retained link
(`Props/SysReload.lean: reload_frame`) and the theorem applies again from the state after it.  What a reload
(`apply_connection_changes`) does to the ring is `C05_tracker_reload_only_erases` below: it writes no
(number, id) pair, it only ERASES the entries naming a removed conn id. -/
theorem C05_tracker_written_only_by_routing (s : Sys F) (e : Ev) (h : ∀ now pkt, e ≠ .client now pkt)
    (hnr : e.isReload = false) :
    (step s e).1.trk = s.trk :=
  TrackerTie.step_trk_other s e h hnr

/-- **The ring through a reload** (`apply_connection_changes`), slot by slot: if at least one link was
removed, an entry naming a removed conn id is reset to the all-zero default (`remove_connection`); every
other entry is untouched.  So a reload never makes the ring name a link — it only forgets removed ones — and
the shell invariant `C05_sys_remembered_ids_present` holds through reloads as it stands. -/
theorem C05_tracker_reload_only_erases (s : Sys F) (now : Nat) (addrs : List Nat) (outs : List (Option Nat))
    (i : Nat) :
    ((step s (.reload now addrs outs)).1.trk.ent i) =
      if (retained s.links addrs).length ≠ s.links.length ∧ (s.trk.ent i).connId ∈ removedIds s.links addrs
      then {} else s.trk.ent i :=
  TrackerTie.reload_trk_ent s now addrs outs i

/-- **Shell invariant**: along every run of the shell from a state whose ring is empty (start-up), every
id the ring remembers is the conn id of a link — so in `process_connection_events` a tracker hit always
finds its link (`hpos` of `C05_tracker_exclusive` / `C05_repeat_noop` / `C05_nak_list_tracker_once`
holds at every NAK the shell ever processes). -/
theorem C05_sys_remembered_ids_present (s : Sys F) (evs : List Ev) (h0 : s.trk = Tracker.empty)
    (n now cid : Nat) (hget : (KaTrace.runEvs s evs).trk.get n now = some cid) :
    ∃ pos, (cores (KaTrace.runEvs s evs).links).findIdx? (·.connId == cid) = some pos := by
  have hinv : TrackerTie.TrkSubSys (KaTrace.runEvs s evs) :=
    TrackerTie.trkSubSys_run s evs (fun i => Or.inl (by rw [h0]; rfl))
  have hsub : TrkSub (cores (KaTrace.runEvs s evs).links) (KaTrace.runEvs s evs).trk := by
    intro i
    rcases hinv i with h | ⟨l, hl, hc⟩
    · exact Or.inl h
    · right
      simp only [idsOf, cores, List.map_map, List.mem_map]
      exact ⟨l, hl, hc⟩
  obtain ⟨pos, _, hpos, _, _⟩ := C05_hit_is_present _ _ n now cid hsub hget
  exact ⟨pos, hpos⟩

end sys

/-- One connected, live link with conn id 7. -/
def exSysLink : Link.FLink Int :=
  letI := Select.fixScalar
  { (Link.FLink.newRegistering 7 0 : Link.FLink Int) with
      core := { connId := 7, connected := true, phase := .live, lastReceived := some 4900 },
      established := 100 }

/-- Non-vacuity of `C05_tracker_records_unique_carrier`: one connected link (conn id 7), the data packet
with sequence number 9 is routed to it at 5000; the ring then names 7 for 9 until 10000 inclusive. -/
example :
    let s : Srtla.Sys.Sys Int := { links := [exSysLink], reg := Reg.Reg.new [] [] }
    let pkt : Srtla.Sys.Bytes := [0, 0, 0, 9, 0, 0, 0, 0]
    @Srtla.Sys.target Int Select.fixScalar s pkt 5000 = some 0 ∧
    Codec.getSrtSequenceNumberS pkt = some 9 ∧
    (@Srtla.Sys.handleSrtPacket Int Select.fixScalar s pkt 5000).1.trk.get 9 10000 = some 7 ∧
    (@Srtla.Sys.handleSrtPacket Int Select.fixScalar s pkt 5000).1.trk.get 9 10001 = none ∧
    (@Srtla.Sys.handleSrtPacket Int Select.fixScalar s pkt 5000).1.lastSelected = some 0 := by
  decide +kernel

/-! ## Round 3: a whole NAK datagram at shell level (`Sys.step`, `uplink` event of type 0x8003)

`Charge trk now n cs cs'` — what ONE occurrence of the NAKed number `n` does to the list of link cores;
`ChargeChain` — a NAK list, occurrence by occurrence (duplicates included);
`C05_nak_list_charge_once` — the NAK loop of `process_connection_events` is such a chain, from any list of
cores that satisfies the shell invariant (`LogInv`, window ≥ 1000: `SysInv` of `Props/SysLevel.lean`);
`C05_sys_charge_once` — the `uplink` event of `Sys.step` carrying a NAK datagram IS that loop on the link
cores (the arrival link's `last_received` stamped first), and touches nothing else. -/

/-- What ONE occurrence of the NAKed number `n` does to the link cores `cs → cs'`: nothing (unknown or repeated
number, or the remembered carrier no longer holds it), or EXACTLY ONE link `j` is replaced — every other link
is record-equal — and `j` held the number, is charged exactly one loss count, one window decrement of 100
floored at 1000, one in-flight slot, loses that number from its log; and if the ring remembers a present
carrier for `n` (same number, at most 5000 ms old: `Tracker.get`), `j` IS that carrier. -/
inductive Charge (trk : Tracker) (now n : Nat) (cs cs' : Links) : Prop
  | none (h : cs' = cs)
  | one (j : Nat) (c : Conn) (hj : cs[j]? = some c) (hheld : toI32 n ∈ c.keys)
      (hcs : cs' = updateAt cs j (fun _ => (c.nak (toI32 n) now).1))
      (hcount : (c.nak (toI32 n) now).1.cong.nakCount = satAddI32 c.cong.nakCount 1)
      (hwin : (c.nak (toI32 n) now).1.window = max (c.window - 100) 1000)
      (hinf : (c.nak (toI32 n) now).1.inFlight = c.inFlight - 1)
      (hkeys : (c.nak (toI32 n) now).1.keys = c.keys.filter (· != toI32 n))
      (htrk : ∀ cid pos, trk.get n now = some cid → cs.findIdx? (·.connId == cid) = some pos → j = pos)

/-- A NAK list, one `Charge` per occurrence, in list order. -/
inductive ChargeChain (trk : Tracker) (now : Nat) : List Nat → Links → Links → Prop
  | nil (cs : Links) : ChargeChain trk now [] cs cs
  | cons {n : Nat} {rest : List Nat} {cs mid cs' : Links} :
      Charge trk now n cs mid → ChargeChain trk now rest mid cs' → ChargeChain trk now (n :: rest) cs cs'

/-- One `attribute_nak` from an invariant core list is a `Charge`, and keeps the invariant. -/
theorem charge_attributeNak (cs : Links) (trk : Tracker) (n now : Nat)
    (h : ∀ c ∈ cs, LogInv c ∧ 1000 ≤ c.window) :
    Charge trk now n cs (attributeNak cs trk n now).1 ∧
    ∀ c ∈ (attributeNak cs trk n now).1, LogInv c ∧ 1000 ≤ c.window := by
  rcases C05_at_most_one cs trk n now with ⟨-, h2⟩ | ⟨j, c, h1, hc, hm, h4⟩
  · exact ⟨.none h2, by rw [h2]; exact h⟩
  · obtain ⟨hi, hw⟩ := h c (List.mem_of_getElem? hc)
    obtain ⟨-, e2, e3, -, e5, e6⟩ := C05_charge_exact c (toI32 n) now hm hi hw
    refine ⟨.one j c hc hm h4 e2 e3 e6 e5 ?_, ?_⟩
    · intro cid pos hget hpos
      rcases C05_tracker_exclusive cs trk n now cid pos hget hpos with e | e
      · rw [h1] at e; cases e
      · rw [h1] at e; exact Option.some.inj e
    · intro d hd
      rw [h4] at hd
      unfold updateAt at hd
      rw [List.mem_mapIdx] at hd
      obtain ⟨k, hk, rfl⟩ := hd
      split
      · exact ⟨nak_inv c _ now hi, by rw [e3]; omega⟩
      · exact h _ (List.getElem_mem hk)

/-- **The NAK loop charges once per occurrence** (core level): from any invariant list of link cores, the loop
`for n in naks { attribute_nak(n) }` of `process_connection_events` is a `ChargeChain` — for every occurrence of
every listed number at most one link changes, it is a holder of that number, the change is exactly the charge,
and while the ring remembers a present carrier it is that carrier. -/
theorem C05_nak_list_charge_once (trk : Tracker) (now : Nat) (naks : List Nat) (cs : Links)
    (h : ∀ c ∈ cs, LogInv c ∧ 1000 ≤ c.window) :
    ChargeChain trk now naks cs (naks.foldl (fun cs n => (attributeNak cs trk n now).1) cs) := by
  induction naks generalizing cs with
  | nil => exact .nil cs
  | cons n rest ih =>
    obtain ⟨h1, h2⟩ := charge_attributeNak cs trk n now h
    exact .cons h1 (ih _ h2)

section sysNak
open Srtla.Sys Srtla.Link
variable {F : Type} [Scalar F]

omit [Scalar F] in
theorem cores_withCores (ls : List (FLink F)) (cs : Links) (h : cs.length = ls.length) :
    cores (withCores ls cs) = cs := by
  unfold cores withCores
  induction ls generalizing cs with
  | nil => cases cs with
    | nil => rfl
    | cons c cs => simp at h
  | cons l rest ih =>
    cases cs with
    | nil => simp at h
    | cons c cs =>
      simp only [List.zip_cons_cons, List.map_cons]
      rw [ih cs (by simpa using h)]

theorem foldl_attributeNak_length (trk : Tracker) (now : Nat) (naks : List Nat) (cs : Links) :
    (naks.foldl (fun cs n => (attributeNak cs trk n now).1) cs).length = cs.length := by
  induction naks generalizing cs with
  | nil => rfl
  | cons n rest ih =>
    simp only [List.foldl_cons]
    rw [ih]
    exact (SysDir.pw_attributeNak (now := now) (classic := false) (A := fun _ => True) trivial cs trk n).length

/-- **C05 at shell level**: an `uplink` event of `Sys.step` whose datagram is an SRT NAK (type 0x8003) arriving
on a known link (`idx`, record `l`), in a state that satisfies the shell invariant (`LogInv` and window ≥ 1000 on
every link — `SysInv` holds along every run from start-up: `Props/SysLevel.lean`).  With `naks` the list the
datagram decodes to (singles and expanded ranges, duplicates included):

* the link CORES after the event are reached from the cores before it (the arrival link's `last_received`
  stamped, nothing else) by a `ChargeChain` over `naks` with the shell's own ring `s.trk` at the event's clock —
  so for every occurrence of every NAKed number at most one link's `(nak_count, window, in_flight)` changes, by
  exactly `(+1 saturating, max(w − 100, 1000), − 1)`, it is a link whose log held the number, and if the ring
  remembers a present carrier (≤ 5000 ms, not displaced) it is that link;
* the ring itself is unchanged;
* every link's record outside its core is what it was (the arrival link additionally stamped). -/
theorem C05_sys_charge_once (s : Sys F) (now cid : Nat) (data : Sys.Bytes) (idx : Nat) (l : FLink F)
    (hinv : ∀ l ∈ s.links, LogInv l.core ∧ 1000 ≤ l.core.window)
    (hpt : Codec.getPacketTypeS data = some 0x8003)
    (hidx : s.links.findIdx? (·.core.connId == cid) = some idx) (hl : s.links[idx]? = some l) :
    ChargeChain s.trk now (Codec.unChk [] (Codec.parseSrtNak data))
      (cores (setAt s.links idx (Uplink.stamp l now)))
      (cores (step s (.uplink now cid data)).1.links) ∧
    (step s (.uplink now cid data)).1.trk = s.trk ∧
    (step s (.uplink now cid data)).1.links =
      withCores (setAt s.links idx (Uplink.stamp l now)) (cores (step s (.uplink now cid data)).1.links) := by
  have hne : data ≠ [] := by intro h; subst h; simp [Codec.getPacketTypeS] at hpt
  obtain ⟨-, -, hsacks, hacks, hnaks, -⟩ := Uplink.incoming_spec l idx s.reg s.clientKnown data now 0x8003 hpt
  have harr : Uplink.arrival l idx s.reg s.clientKnown data now = Uplink.stamp l now := by
    rcases Uplink.arrival_cases l idx s.reg s.clientKnown data now _ hpt with
      ⟨h, -⟩ | ⟨h, -⟩ | ⟨h, -⟩ | ⟨h, -⟩ | ⟨h, -⟩ | ⟨-, -, -, -, -, h⟩
    · simp at h
    · simp at h
    · simp at h
    · simp at h
    · simp at h
    · exact h
  have hstep : (step s (.uplink now cid data)).1 =
      { s with links := withCores (setAt s.links idx (Uplink.stamp l now))
                  ((Codec.unChk [] (Codec.parseSrtNak data)).foldl (fun cs n => (attributeNak cs s.trk n now).1)
                    (cores (setAt s.links idx (Uplink.stamp l now)))),
               reg := (Uplink.pupSpec l idx s.reg s.clientKnown data now).2.1 } := by
    show (handleUplinkPacket s cid data now).1 = _
    rw [Uplink.handleUplinkPacket_eq s cid data now idx l hne hidx hl]
    dsimp only
    rw [harr]
    unfold processConnectionEvents
    dsimp only
    rw [hacks, hsacks, hnaks]
    simp
  have hlen : ((Codec.unChk [] (Codec.parseSrtNak data)).foldl (fun cs n => (attributeNak cs s.trk n now).1)
      (cores (setAt s.links idx (Uplink.stamp l now)))).length = (setAt s.links idx (Uplink.stamp l now)).length := by
    rw [foldl_attributeNak_length]
    simp [cores]
  have hcores : cores (step s (.uplink now cid data)).1.links =
      (Codec.unChk [] (Codec.parseSrtNak data)).foldl (fun cs n => (attributeNak cs s.trk n now).1)
        (cores (setAt s.links idx (Uplink.stamp l now))) := by
    rw [hstep]
    exact cores_withCores _ _ hlen
  refine ⟨?_, by rw [hstep], ?_⟩
  · rw [hcores]
    apply C05_nak_list_charge_once
    intro c hc
    unfold cores at hc
    obtain ⟨x, hx, rfl⟩ := List.mem_map.1 hc
    unfold setAt at hx
    rw [List.mem_mapIdx] at hx
    obtain ⟨k, hk, rfl⟩ := hx
    split
    · obtain ⟨a, b⟩ := hinv l (List.mem_of_getElem? hl)
      exact ⟨SysInv.logInv_congr a rfl rfl rfl, b⟩
    · exact hinv _ (List.getElem_mem hk)
  · rw [hcores]
    rw [hstep]

/-- A one-number NAK list is one `Charge`. -/
theorem ChargeChain.single {trk : Tracker} {now n : Nat} {cs cs' : Links} (h : ChargeChain trk now [n] cs cs') :
    Charge trk now n cs cs' := by
  cases h with
  | cons h1 h2 => cases h2; exact h1

/-- **Along any run**: `C05_sys_charge_once` in every state a run of the shell reaches from an invariant state
(`SysInv` of `Props/SysLevel.lean`, same literal body; holds of the initial state) — the invariant hypothesis is
discharged by the run. -/
theorem C05_sys_charge_once_run (s : Sys F) (pre : List Ev)
    (h : ∀ l ∈ s.links, LogInv l.core ∧ 1000 ≤ l.core.window ∧ l.core.window ≤ 60000 ∧ 0 ≤ l.core.inFlight ∧
      ∀ it ∈ l.queue, ∀ sq, it.2.1 = some sq → sq < 2147483648)
    (now cid : Nat) (data : Sys.Bytes) (idx : Nat) (l : FLink F)
    (hpt : Codec.getPacketTypeS data = some 0x8003)
    (hidx : (run s pre).1.links.findIdx? (·.core.connId == cid) = some idx)
    (hl : (run s pre).1.links[idx]? = some l) :
    ChargeChain (run s pre).1.trk now (Codec.unChk [] (Codec.parseSrtNak data))
      (cores (setAt (run s pre).1.links idx (Uplink.stamp l now)))
      (cores (run s (pre ++ [.uplink now cid data])).1.links) ∧
    (run s (pre ++ [.uplink now cid data])).1.trk = (run s pre).1.trk := by
  have h0 : SysInv.All SysInv.LinkInv s.links := by
    intro l hl
    obtain ⟨a, b, c, d, f⟩ := h l hl
    exact ⟨a, b, c, d, f⟩
  have hinv : ∀ l ∈ (run s pre).1.links, LogInv l.core ∧ 1000 ≤ l.core.window := fun l hl =>
    ⟨(SysDir.linkInv_run s pre h0 l hl).log, (SysDir.linkInv_run s pre h0 l hl).wlo⟩
  have hs : (run s (pre ++ [.uplink now cid data])).1 = (step (run s pre).1 (.uplink now cid data)).1 := by
    rw [SysDir.run_append]; rfl
  rw [hs]
  obtain ⟨a, b, -⟩ := C05_sys_charge_once (run s pre).1 now cid data idx l hinv hpt hidx hl
  exact ⟨a, b⟩

end sysNak

/-- Non-vacuity of `C05_sys_charge_once`: two links, both hold 7 (link 1 a probe copy), link 0 also 5; the ring
remembers conn id 22 (link 1) for 7.  The NAK datagram lists 5, 7, 7: 5 charges link 0 (fallback scan, window
1050 → 1000 = the floor, not 950), the first 7 charges link 1 (the remembered carrier, NOT link 0 which also
holds it), the repeated 7 charges nobody. -/
example :
    let s : Srtla.Sys.Sys Int :=
      { links := [{ exSysLink with core := { exA with connected := true } },
                  { exSysLink with core := { exB with connected := true } }],
        reg := Reg.Reg.new [] [], trk := exTrk }
    let nak : Srtla.Sys.Bytes := [0x80, 0x03, 0, 0, 0, 0, 0, 5, 0, 0, 0, 7, 0, 0, 0, 7]
    Codec.getPacketTypeS nak = some 0x8003 ∧ Codec.unChk [] (Codec.parseSrtNak nak) = [5, 7, 7] ∧
    s.links.findIdx? (·.core.connId == 11) = some 0 ∧
    ((@Srtla.Sys.step Int Select.fixScalar s (.uplink 200 11 nak)).1.links.map fun l =>
      (l.core.cong.nakCount, l.core.window, l.core.inFlight, l.core.keys)) =
      [(1, 1000, 1, [7]), (1, 19900, 0, [])] := by
  decide +kernel

/-- The state of the previous example as a definition, its invariant, and the theorems instantiated on it
(hypotheses met: type 0x8003, conn id 11 is link 0). -/
def exNakSys : Srtla.Sys.Sys Int :=
  { links := [{ exSysLink with core := { exA with connected := true } },
              { exSysLink with core := { exB with connected := true } }],
    reg := Reg.Reg.new [] [], trk := exTrk }

theorem exNakSys_inv : ∀ l ∈ exNakSys.links, LogInv l.core ∧ 1000 ≤ l.core.window := by
  intro l hl
  simp only [exNakSys, List.mem_cons, List.not_mem_nil, or_false] at hl
  rcases hl with rfl | rfl <;> exact ⟨⟨by decide, by decide, by decide⟩, by decide⟩

example :=
  @C05_sys_charge_once Int Select.fixScalar exNakSys 200 11
    [0x80, 0x03, 0, 0, 0, 0, 0, 5, 0, 0, 0, 7, 0, 0, 0, 7] 0 _ exNakSys_inv (by decide) (by decide) rfl

example := C05_nak_list_charge_once exTrk 200 [5, 7, 7] [exA, exB]
  (by intro c hc
      simp only [List.mem_cons, List.not_mem_nil, or_false] at hc
      rcases hc with rfl | rfl
      · exact ⟨exA_inv, by decide⟩
      · exact ⟨exB_inv, by decide⟩)

end Srtla.Props.C05
