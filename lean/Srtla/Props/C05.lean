import Srtla.Model.Conn
import Srtla.Lemmas.Log
import Srtla.Lemmas.Conn
/-!
# C05 — a NAK is charged once, and only to a link that carried the packet
-/
namespace Srtla.Props.C05
open Srtla.Conn Srtla.Gen

/-! ## What a charge is -/

theorem erase_length (l : List Int) (s : Int) (hn : l.Nodup) (hs : s ∈ l) :
    (l.filter (· != s)).length + 1 = l.length := by
  induction l with
  | nil => cases hs
  | cons x rest ih =>
    have hn' := List.nodup_cons.mp hn
    by_cases hx : x = s
    · subst hx
      have : rest.filter (· != x) = rest := by
        apply List.filter_eq_self.mpr
        intro y hy
        simp only [bne_iff_ne, ne_eq]
        intro hyx; subst hyx; exact hn'.1 hy
      simp [this]
    · have hs' : s ∈ rest := by
        rcases List.mem_cons.mp hs with h | h
        · exact absurd h.symm hx
        · exact h
      have := ih hn'.2 hs'
      simp [hx, this]


/-- The charge on the link that held the number: exactly one loss count, one window decrement of
100 floored at 1000, that number removed, one in-flight slot. -/
theorem C05_charge_exact (c : Conn) (s : Int) (now : Nat) (hs : s ∈ c.keys) (h : LogInv c)
    (hw : 1000 ≤ c.window) :
    (c.nak s now).2 = true ∧
    (c.nak s now).1.cong.nakCount = satAddI32 c.cong.nakCount 1 ∧
    (c.nak s now).1.window = max (c.window - 100) 1000 ∧
    (c.nak s now).1.window ≤ c.window ∧
    (c.nak s now).1.keys = c.keys.filter (· != s) ∧
    (c.nak s now).1.inFlight = c.inFlight - 1 := by
  have hany : c.log.any (·.1 == s) = true := (any_iff_mem_keys c.log s).mpr hs
  obtain ⟨hF, -, -, -, -, hD, -, -⟩ := wconsts
  have hk := nak_keys c s now
  have hinv := nak_inv c s now h
  have hlen : ((c.keys.filter (· != s)).length : Int) = c.keys.length - 1 := by
    have := erase_length c.keys s h.nodup hs
    omega
  refine ⟨?_, ?_, ?_, ?_, hk, ?_⟩
  · simp only [Conn.nak, if_pos hany]
  · simp only [Conn.nak, if_pos hany, Cong.handleNak]
  · simp only [Conn.nak, if_pos hany, Cong.handleNak]; omega
  · simp only [Conn.nak, if_pos hany, Cong.handleNak]; omega
  · rw [hinv.count, hk, h.count]
    simp only [specErase] at hlen ⊢
    exact hlen

/-! ## `attribute_nak`: at most one link, and only a holder -/

theorem nak_found (c : Conn) (s : Int) (now : Nat) : (c.nak s now).2 = true ↔ s ∈ c.keys := by
  unfold Conn.nak
  split
  · rename_i h
    have := (any_iff_mem_keys c.log s).mp h
    simp [this]
  · rename_i h
    have : s ∉ c.keys := fun hm => h ((any_iff_mem_keys c.log s).mpr hm)
    constructor
    · intro hf; cases hf
    · intro hm; exact absurd hm this

theorem nak_not_found_id (c : Conn) (s : Int) (now : Nat) (h : s ∉ c.keys) : (c.nak s now).1 = c := by
  have : ¬ (c.log.any (·.1 == s) = true) := fun ha => h ((any_iff_mem_keys c.log s).mp ha)
  simp only [Conn.nak, if_neg this]

/-- The fallback scan charges the first holder, or nobody. -/
theorem nakScan_spec (ls : Links) (s : Int) (now : Nat) :
    ((nakScan ls s now).2 = none ∧ (nakScan ls s now).1 = ls ∧ ∀ c ∈ ls, s ∉ c.keys) ∨
    (∃ j c, (nakScan ls s now).2 = some j ∧ ls[j]? = some c ∧ s ∈ c.keys ∧
      (∀ i d, i < j → ls[i]? = some d → s ∉ d.keys) ∧
      (nakScan ls s now).1 = updateAt ls j (fun _ => (c.nak s now).1)) := by
  induction ls with
  | nil => left; simp [nakScan]
  | cons c rest ih =>
    unfold nakScan
    dsimp only
    by_cases hm : s ∈ c.keys
    · right
      rw [if_pos ((nak_found c s now).mpr hm)]
      refine ⟨0, c, rfl, rfl, hm, ?_, ?_⟩
      · intro i d hi; omega
      · simp [updateAt, List.mapIdx_cons]
        apply List.ext_getElem?
        intro k
        simp only [List.getElem?_mapIdx]
        cases rest[k]? <;> rfl
    · have hnf : ¬ ((c.nak s now).2 = true) := fun h => hm ((nak_found c s now).mp h)
      rw [if_neg hnf]
      rcases ih with ⟨h1, h2, h3⟩ | ⟨j, d, h1, h2, h3, h4, h5⟩
      · left
        refine ⟨by simp [h1], by simp [h2], ?_⟩
        intro x hx
        rcases List.mem_cons.mp hx with rfl | hx
        · exact hm
        · exact h3 x hx
      · right
        refine ⟨j + 1, d, by simp [h1], by simpa using h2, h3, ?_, ?_⟩
        · intro i e hi he
          cases i with
          | zero => simp at he; subst he; exact hm
          | succ i => exact h4 i e (by omega) (by simpa using he)
        · simp only [h5]
          simp [updateAt, List.mapIdx_cons]

/-- **At most one link is charged, and only a link that held the packet**: `attribute_nak`
either changes nothing, or replaces exactly one link `j` — which held the number — by that link
after its own NAK charge (`C05_charge_exact`). -/
theorem C05_at_most_one (ls : Links) (trk : Tracker) (n now : Nat) :
    ((attributeNak ls trk n now).2 = none ∧ (attributeNak ls trk n now).1 = ls) ∨
    (∃ j c, (attributeNak ls trk n now).2 = some j ∧ ls[j]? = some c ∧ toI32 n ∈ c.keys ∧
      (attributeNak ls trk n now).1 = updateAt ls j (fun _ => (c.nak (toI32 n) now).1)) := by
  unfold attributeNak
  dsimp only
  split
  · split
    · split
      · rename_i _ c hc
        try dsimp only
        by_cases hm : toI32 n ∈ c.keys
        · right
          rw [if_pos ((nak_found c _ now).mpr hm)]
          exact ⟨_, c, rfl, hc, hm, rfl⟩
        · left
          have : ¬ ((c.nak (toI32 n) now).2 = true) := fun h => hm ((nak_found c _ now).mp h)
          rw [if_neg this]
          exact ⟨rfl, rfl⟩
      · left; exact ⟨rfl, rfl⟩
    · rcases nakScan_spec ls (toI32 n) now with ⟨h1, h2, _⟩ | ⟨j, c, h1, h2, h3, _, h5⟩
      · left; exact ⟨h1, h2⟩
      · right; exact ⟨j, c, h1, h2, h3, h5⟩
  · rcases nakScan_spec ls (toI32 n) now with ⟨h1, h2, _⟩ | ⟨j, c, h1, h2, h3, _, h5⟩
    · left; exact ⟨h1, h2⟩
    · right; exact ⟨j, c, h1, h2, h3, h5⟩

/-- Every link other than the charged one is record-equal afterwards. -/
theorem C05_others_untouched (ls : Links) (trk : Tracker) (n now : Nat) (i : Nat)
    (hi : (attributeNak ls trk n now).2 ≠ some i) :
    (attributeNak ls trk n now).1[i]? = ls[i]? := by
  rcases C05_at_most_one ls trk n now with ⟨_, h2⟩ | ⟨j, c, h1, _, _, h4⟩
  · rw [h2]
  · rw [h4]
    have : i ≠ j := fun h => hi (by rw [h1, h])
    simp only [updateAt, List.getElem?_mapIdx, if_neg this]
    cases ls[i]? <;> rfl

/-- **Tracker exclusivity**: while the tracker remembers which (present) link carried the unique
copy, no other link can be charged — even if another link holds a probe copy of the number. -/
theorem C05_tracker_exclusive (ls : Links) (trk : Tracker) (n now cid pos : Nat)
    (hget : trk.get n now = some cid) (hpos : ls.findIdx? (·.connId == cid) = some pos) :
    (attributeNak ls trk n now).2 = none ∨ (attributeNak ls trk n now).2 = some pos := by
  unfold attributeNak
  simp only [hget, hpos]
  split
  · try dsimp only
    split
    · right; rfl
    · left; rfl
  · left; rfl

/-- **Unknown NAK**: if no link holds the number, nothing changes at all. -/
theorem C05_unknown_noop (ls : Links) (trk : Tracker) (n now : Nat)
    (h : ∀ c ∈ ls, toI32 n ∉ c.keys) :
    attributeNak ls trk n now = (ls, none) := by
  rcases C05_at_most_one ls trk n now with ⟨h1, h2⟩ | ⟨j, c, _, h2, h3, _⟩
  · exact Prod.ext h2 h1
  · exact absurd h3 (h c (List.mem_of_getElem? h2))

/-- **Repeated NAK**: once the remembered link no longer holds the number (it was charged, ACKed
or reset), a repeat of the NAK within the tracker's memory changes nothing — it does not fall
through to another holder. -/
theorem C05_repeat_noop (ls : Links) (trk : Tracker) (n now cid pos : Nat) (c : Conn)
    (hget : trk.get n now = some cid) (hpos : ls.findIdx? (·.connId == cid) = some pos)
    (hc : ls[pos]? = some c) (hn : toI32 n ∉ c.keys) :
    attributeNak ls trk n now = (ls, none) := by
  unfold attributeNak
  simp only [hget, hpos, hc]
  have : ¬ ((c.nak (toI32 n) now).2 = true) := fun h => hn ((nak_found c _ now).mp h)
  rw [if_neg this]

/-! ## The sequence tracker ring refines "newest write per slot" -/

inductive TOp where
  | insert (seq connId ts : Nat)
  | remove (connId : Nat)

def applyT (t : Tracker) : TOp → Tracker
  | .insert s c ts => t.insert s c ts
  | .remove c => t.removeConnection c

/-- Spec, newest operation first: the newest write to `slot` not purged since. -/
def lastWrite : List TOp → Nat → TrkEntry
  | [], _ => {}
  | .insert s c ts :: older, slot =>
    if slot = slotOf s then { connId := c, ts := ts, seq := s } else lastWrite older slot
  | .remove c :: older, slot =>
    if (lastWrite older slot).connId = c then {} else lastWrite older slot

theorem tracker_refines (ops : List TOp) (slot : Nat) :
    ((ops.foldl applyT Tracker.empty).ent slot) = lastWrite ops.reverse slot := by
  have gen : ∀ (ops : List TOp) (t : Tracker) (pre : List TOp),
      (∀ sl, t.ent sl = lastWrite pre sl) →
      ∀ sl, (ops.foldl applyT t).ent sl = lastWrite (ops.reverse ++ pre) sl := by
    intro ops
    induction ops with
    | nil => intro t pre h sl; simpa using h sl
    | cons op rest ih =>
      intro t pre h sl
      simp only [List.foldl_cons, List.reverse_cons, List.append_assoc, List.singleton_append]
      apply ih (applyT t op) (op :: pre)
      intro sl'
      cases op with
      | insert s c ts =>
        simp only [applyT, Tracker.insert, lastWrite]
        split
        · rfl
        · exact h sl'
      | remove c =>
        simp only [applyT, Tracker.removeConnection, lastWrite, h sl']
  have := gen ops Tracker.empty [] (fun _ => rfl) slot
  simpa using this

/-- **Tracker memory**: a lookup succeeds exactly when the newest un-purged write to the number's
slot was that very number (not displaced by a colliding newer one), by a non-zero connection id,
at most 5000 ms ago. -/
theorem C05_tracker_spec (ops : List TOp) (seq now cid : Nat) :
    (ops.foldl applyT Tracker.empty).get seq now = some cid ↔
      (let e := lastWrite ops.reverse (slotOf seq)
       e.connId = cid ∧ cid ≠ 0 ∧ e.seq = seq ∧ now - e.ts ≤ 5000) := by
  simp only [Tracker.get, tracker_refines, Seq.SEQUENCE_TRACKING_MAX_AGE_MS_eq]
  constructor
  · intro h
    split at h
    · rename_i hc
      simp only [Option.some.injEq] at h
      subst h
      exact ⟨rfl, hc.1, hc.2.1, by omega⟩
    · cases h
  · rintro ⟨h1, h2, h3, h4⟩
    rw [if_pos ⟨by rw [h1]; exact h2, h3, by omega⟩, h1]

/-- Non-vacuity: a colliding newer number (seq + 16384) displaces the older one; purging a
connection forgets its entries; the age limit is inclusive at 5000 ms. -/
example :
    let t := [TOp.insert 100 7 1000, TOp.insert (100 + 16384) 9 1500].foldl applyT Tracker.empty
    t.get 100 2000 = none ∧ t.get (100 + 16384) 6500 = some 9 ∧ t.get (100 + 16384) 6501 = none ∧
    (applyT t (.remove 9)).get (100 + 16384) 2000 = none := by
  decide

end Srtla.Props.C05
