import Srtla.Model.Select
import Srtla.Lemmas.SelectFrame
/-!
# C04 — stream data is only ever routed onto eligible uplinks (selector level)

`selectIdx` is the model of `select_connection_idx` (stall gate, then the classic or the enhanced
selector with its hysteresis); `bestQualityEligible` is the model of
`priority::select_best_quality_eligible_idx`, the filter behind the keyframe-window / SRT-retransmit
override.  Both are run bit-for-bit against the real functions by component `sel`.

A link is *eligible* at `now` when it has completed registration since its last reset
(`schedulable`: phase ≠ registering), is not timed out, is not stall-gated, and is connected.
The flags are the post-pass ones (what `is_stall_gated()` / `is_timed_out(now)` answer after the
call), which is also what the harness monitors `ineligible-selected`, `override-ineligible`,
`out-of-range` look at.

All theorems hold for every scalar type `F` and every `[Scalar F]` instance (every float comparison
is an opaque Boolean), hence in particular for the `Float` instance of the compiled driver, NaNs and
infinities included, and with no domain restriction on windows, in-flight counts or quality values.

The Sys-level clause ("every non-probe enqueue lands on an eligible link") is built on top of these
by the shell model.
-/
namespace Srtla.Props.C04
open Srtla.Select Srtla.Conn Srtla

variable {F : Type} [Scalar F]

/-- **Selector**: whatever `select_connection_idx` returns — the best score in classic mode, the
best score or the previous link kept by hysteresis in enhanced mode, quality scoring on or off,
guard on or off — is the index of an existing link that is schedulable, not timed out, not
stall-gated and connected in the state the call leaves behind. -/
theorem C04_selector_eligible (ls : List (SLink F)) (last : Option Nat) (now : Nat) (cfg : Cfg) (i : Nat)
    (h : (selectIdx ls last now cfg).2 = some i) :
    ∃ c, (selectIdx ls last now cfg).1[i]? = some c ∧
      schedulable c = true ∧ isTimedOut c now = false ∧ c.stallGated = false ∧ c.connected = true := by
  unfold selectIdx at h ⊢
  dsimp only at h ⊢
  split at h
  · -- classic
    rename_i hc
    rw [if_pos hc]
    obtain ⟨c, h1, h2, h3⟩ := classicSelect_eligible _ now i h
    simp only [Bool.or_eq_false_iff, Bool.not_eq_false'] at h2
    exact ⟨c, h1, h2.1.2, h2.1.1, h2.2, h3⟩
  · -- enhanced
    rename_i hc
    rw [if_neg hc]
    obtain ⟨c, h1, h2⟩ := enhancedSelect_scored _ last now _ i h
    rw [enhancedSelect_fst]
    refine ⟨enhStep now (cfg.quality && !cfg.classic) (anyUnconstrained (applyStallGate ls now cfg) now) c,
      by simp [h1], ?_⟩
    have hq := cacheEq_enhStep now (cfg.quality && !cfg.classic)
      (anyUnconstrained (applyStallGate ls now cfg) now) c
    rw [hq.schedulable, hq.isTimedOut, hq.stallGated, hq.connected]
    simp only [enhSkip, Bool.or_eq_false_iff, Bool.not_eq_false'] at h2
    exact ⟨h2.1.1.1.2, h2.1.1.1.1, h2.1.1.2, h2.1.2⟩

/-- The returned index is in range of the caller's link list (monitor `out-of-range`). -/
theorem C04_selector_in_range (ls : List (SLink F)) (last : Option Nat) (now : Nat) (cfg : Cfg) (i : Nat)
    (h : (selectIdx ls last now cfg).2 = some i) : i < ls.length := by
  obtain ⟨c, hc, -⟩ := C04_selector_eligible ls last now cfg i h
  have hlen : (selectIdx ls last now cfg).1.length = ls.length := by
    obtain ⟨f, -, hf⟩ := selectIdx_fst ls last now cfg
    have := congrArg List.length (frame_applyStallGate ls now cfg)
    simp only [List.length_map] at this
    rw [hf, List.length_map, this]
  have := (List.getElem?_eq_some_iff.1 hc).1
  omega

/-- **Override**: the link chosen by the keyframe-window / retransmit override
(`select_best_quality_eligible_idx`) is connected, schedulable, not timed out and not stall-gated,
whatever the cached quality values are (stale, NaN, infinite). -/
theorem C04_override_eligible (ls : List (SLink F)) (now : Nat) (i : Nat)
    (h : bestQualityEligible ls now = some i) :
    ∃ c, ls[i]? = some c ∧
      c.connected = true ∧ schedulable c = true ∧ isTimedOut c now = false ∧ c.stallGated = false := by
  unfold bestQualityEligible at h
  rcases bestQualityGo_inv now ls 0 none Scalar.negInf with h0 | ⟨j, c, h1, h2, h3⟩
  · rw [h0] at h; cases h
  · rw [h1] at h
    have : i = j := by simpa using h.symm
    subst this
    simp only [Bool.or_eq_false_iff, Bool.not_eq_false'] at h3
    exact ⟨c, h2, h3.1.1.1, h3.1.1.2, h3.1.2, h3.2⟩

omit [Scalar F] in
/-- **A gated link always has an alternative**: after `apply_stall_gate`, if any link is
stall-gated then some link is connected, not timed out, schedulable, not latched and not pulled —
hence itself not gated, i.e. eligible. -/
theorem C04_gated_implies_alternative (ls : List (SLink F)) (now : Nat) (cfg : Cfg)
    (h : ∃ c ∈ applyStallGate ls now cfg, c.stallGated = true) :
    ∃ d ∈ applyStallGate ls now cfg,
      d.connected = true ∧ isTimedOut d now = false ∧ schedulable d = true ∧
      d.latchedSince = 0 ∧ d.silencePulled = false ∧ d.stallGated = false := by
  obtain ⟨c, hc, hg⟩ := h
  cases hs : cfg.stallDeselect
  · rw [applyStallGate_off ls now cfg hs] at hc
    obtain ⟨c0, -, rfl⟩ := List.mem_map.1 hc
    simp [guardOff] at hg
  · rw [applyStallGate_on ls now cfg hs] at hc ⊢
    generalize ls.map (guardStep now cfg) = ls1 at hc ⊢
    obtain ⟨c1, -, rfl⟩ := List.mem_map.1 hc
    have hany : ls1.any (healthy now) = true := by
      cases ha : ls1.any (healthy now)
      · simp [setGated, ha] at hg
      · rfl
    obtain ⟨d, hd, hh⟩ := List.any_eq_true.1 hany
    refine ⟨setGated (ls1.any (healthy now)) d, List.mem_map.2 ⟨d, hd, rfl⟩, ?_⟩
    simp only [healthy, latched, Bool.and_eq_true, Bool.not_eq_true', bne_eq_false_iff_eq] at hh
    obtain ⟨⟨⟨⟨h1, h2⟩, h3⟩, h4⟩, h5⟩ := hh
    refine ⟨h1, h2, h3, h4, h5, ?_⟩
    simp [setGated, latched, h4, h5]

/-- The same on the state `select_connection_idx` leaves behind (what the harness observes). -/
theorem C04_gated_implies_alternative_select (ls : List (SLink F)) (last : Option Nat) (now : Nat) (cfg : Cfg)
    (h : ∃ c ∈ (selectIdx ls last now cfg).1, c.stallGated = true) :
    ∃ d ∈ (selectIdx ls last now cfg).1,
      d.connected = true ∧ isTimedOut d now = false ∧ schedulable d = true ∧
      d.latchedSince = 0 ∧ d.silencePulled = false ∧ d.stallGated = false := by
  obtain ⟨f, hf, e⟩ := selectIdx_fst ls last now cfg
  rw [e] at h ⊢
  obtain ⟨c, hc, hg⟩ := h
  obtain ⟨c0, hc0, rfl⟩ := List.mem_map.1 hc
  rw [(hf c0).stallGated] at hg
  obtain ⟨d, hd, h1, h2, h3, h4, h5, h6⟩ := C04_gated_implies_alternative ls now cfg ⟨c0, hc0, hg⟩
  refine ⟨f d, List.mem_map.2 ⟨d, hd, rfl⟩, ?_⟩
  obtain ⟨q, t, hq⟩ := hf d
  rw [hq]
  exact ⟨h1, h2, h3, h4, h5, h6⟩

/-! ## Non-vacuity -/

/-- Three links at `now = 5000`, defaults (enhanced, quality on, guard on), previous pick 0:
link 1 scores higher (1900 vs 1818) but within the 10 % band, so hysteresis keeps link 0;
link 2 has 40 packets in flight and delivery proof 4000 ms old, so the guard latches and gates it.
The selector returns `some 0`, link 2 ends up stall-gated, and the override picks an eligible link. -/
def exLinks : List (SLink Int) :=
  [ { connId := 1, inFlight := 10, lastReceived := some 4990, srtt := 0, rttMin := 200000, bitrate := 0, qualMult := 1000 },
    { connId := 2, window := 19000, inFlight := 9, lastReceived := some 4990, srtt := 0, rttMin := 200000, bitrate := 0,
      qualMult := 1000 },
    { connId := 3, window := 60000, inFlight := 40, lastReceived := some 4990, proofMs := 1000, srtt := 0,
      rttMin := 200000, bitrate := 0, qualMult := 1100 } ]

example :
    (@selectIdx Int fixScalar exLinks (some 0) 5000 {}).2 = some 0 ∧
    (@selectIdx Int fixScalar exLinks none 5000 {}).2 = some 1 ∧
    ((@selectIdx Int fixScalar exLinks (some 0) 5000 {}).1.map (·.stallGated)) = [false, false, true] ∧
    (@selectIdx Int fixScalar exLinks (some 0) 5000 { classic := true }).2 = some 1 ∧
    @bestQualityEligible Int fixScalar (@selectIdx Int fixScalar exLinks (some 0) 5000 {}).1 5000 = some 0 ∧
    -- without the eligibility filter the override would have taken link 2 (highest cached quality)
    @bestQualityEligible Int fixScalar exLinks 5000 = some 2 := by
  decide +kernel

/-! ## Shell level

The shell-level theorems of C04 — `C04_hk_uplink_emit_only_control`, `C04_enqueue_on_ineligible_is_probe`,
`C04_registering_gets_nothing`, `C04_pre_registration_not_timed_out`, `C04_registration_status_step`,
`C04_registered_iff_reg3_since_teardown`, `C04_history_vocabulary`, `C04_registering_not_connected_run` —
are in `Lemmas/RunLevelC04.lean` (same namespace `Srtla.Props.C04`): they need `Lemmas/Forward*.lean`, which
import THIS file, so they cannot be stated here.  `tools/props/C04.json` lists that module under
`extra_lean_modules` / `extra_theorems`, so `./check C04` builds and audits them. -/

end Srtla.Props.C04
