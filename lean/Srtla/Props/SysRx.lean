import Srtla.Lemmas.Rx
import Srtla.Props.C09
import Srtla.Props.SysReload
/-!
# The receive side in front of `handle_uplink_packet` (C09: "a datagram ARRIVES on an uplink")

`Model/Rx.lean` puts the reader tasks (`spawn_reader`: `recvmmsg` batches of at most 32 datagrams, each cut to 1500
bytes, empty datagrams skipped, a receive error sent as the empty sentinel), the UNBOUNDED packet channel and
`drain_packet_queue` (at most 64 packets per call, `try_recv` order) / the uplink arm (`recv` + drain: at most 65) in
front of the shell model `Sys.step`.  The theorems of C09 (and every other run-level theorem) start at `Sys.Ev.uplink`;
the statements here connect "arrived at the socket" with "handed to `handle_uplink_packet`":

* `C09_rx_drain_projects`, `C09_rx_recv_projects`, `C09_rx_run_projects`: a drain / the uplink arm / a WHOLE schedule of
  receive-side events is `Sys.run` over an explicit list of shell events (so every `Sys.run` theorem applies);
* `C09_rx_channel_fifo`: the channel is FIFO and loses nothing, for EVERY schedule;
* `C09_rx_exactly_once`: per conn id, what is handed to the shell is a PREFIX of what arrived at that conn id's socket (cut
  to 1500 bytes, empty datagrams left out), in arrival order, nothing twice, with the exact accounting of the rest;
* `C09_rx_quiescence`: `⌈n/32⌉` reader iterations empty a socket, `⌈m/64⌉` drains empty the channel; then ALL of them were handed over;
* `C09_rx_sentinel_invisible`: the receive-error sentinel changes nothing;
* `C09_rx_relay_quiescent`: the C09 corollary, composed with `C09_relay_run_closed(_reading)`;
* `C09_rx_restart_loses_only_unread`: a socket re-creation (`restart_reader_for`) empties exactly the receive queues of the
  re-created sockets and leaves the channel alone.

LIMITS (stated, not hidden).  `C09_rx_exactly_once` / `C09_rx_relay_quiescent` are for schedules WITHOUT reader management
(`Quiet`: no housekeeping pass, no reload among the `shell` events): across a socket re-creation the unread datagrams of
the old socket are LOST by the code (see `C09_rx_restart_loses_only_unread`), so "all of them" is false there; a
"sublist per socket generation" form across housekeeping passes is NOT proved.  The reader step is atomic (true of the
code: no await between `recvmmsg` and the last `send`); which reader runs when is the schedule (any).  Timing (the 100 ms
pause after a receive error) is not modelled.
-/
namespace Srtla.Props.SysRx
open Srtla Srtla.Sys Srtla.Link Srtla.Rx

variable {F : Type} [Scalar F]

local instance : Scalar Int := Select.fixScalar

/-! ## 0. The concrete state of the examples -/

/-- An SRT NAK (0x8003), 20 bytes: relayed once. -/
def exNak : Sys.Bytes := [0x80, 0x03, 0, 0, 0, 0, 0, 0, 0, 0, 0, 0, 0, 0, 0, 0, 0, 0, 0, 41]

/-- `SysReload.exS` (two busy links 1 and 2, one registering link 3, client known) with its receive side NOT pristine: the
socket of conn id 1 (second generation) holds an unread NAK and an empty datagram, the channel holds a data packet
stamped 2 and a receive-error sentinel stamped 1. -/
def exR : Rx Int :=
  { sys := SysReload.exS,
    socks := [{ cid := 1, gen := 1, inbox := [exNak, []] }, { cid := 2 }, { cid := 3 }],
    chan := [(2, SysReload.exData), (1, [])] }

/-- A schedule: a datagram of 1501 bytes and a short one arrive on 1, one on the unknown conn id 9; the reader of 1 runs;
a receive error on 2; a client datagram; a flush tick; one drain; one pass of the uplink arm. -/
def exSched : List Rx.Ev :=
  [.arrive 1 (List.replicate 1501 7), .arrive 1 [0x80, 0x03], .arrive 9 exNak, .read 1, .rxErr 2,
   .shell (.client 30 SysReload.exData), .shell (.flush 31), .drain (fun k => 40 + k), .recv (fun k => 50 + k)]

/-! ## 1. Projection to `Sys.run` -/

/-- **`drain_packet_queue` is `Sys.run`** of the `Ev.uplink` events of the first `min 64 len` channel entries, in channel
order, packet `j` at the clock reading `clk j`: same final shell state, same outputs; the channel loses exactly those
entries; the sockets are not touched.  (`drain` is the fuel loop `drainGo`, not this list.) -/
theorem C09_rx_drain_projects (r : Rx F) (clk : Nat → Nat) :
    let evs := drainEvs clk 0 (r.chan.take 64)
    (drain r clk).1.sys = (Sys.run r.sys evs).1 ∧ (drain r clk).2 = (Sys.run r.sys evs).2 ∧
    (drain r clk).1.chan = r.chan.drop 64 ∧ (drain r clk).1.socks = r.socks ∧
    evs.length = min 64 r.chan.length ∧
    ∀ j, evs[j]? = (r.chan.take 64)[j]?.map fun p => Sys.Ev.uplink (clk j) p.1 p.2 := by
  intro evs
  refine ⟨by rw [drain_eq], by rw [drain_eq], by rw [drain_eq], by rw [drain_eq], ?_, fun j => ?_⟩
  · simp [evs, drainEvs_length]
  · simp only [evs, drainEvs_getElem?, Nat.zero_add]

example : ((drain exR fun k => 40 + k).1.chan, (drain exR fun k => 40 + k).2.map (·.client)) =
    ([], [[SysReload.exData], []]) := by decide +kernel

/-- **The uplink arm** (`packet_rx.recv()`, `handle_uplink_packet`, `drain_packet_queue`) is `Sys.run` of the first
`min 65 len` channel entries. -/
theorem C09_rx_recv_projects (r : Rx F) (clk : Nat → Nat) :
    let evs := drainEvs clk 0 (r.chan.take 65)
    (recvArm r clk).1.sys = (Sys.run r.sys evs).1 ∧ (recvArm r clk).2 = (Sys.run r.sys evs).2 ∧
    (recvArm r clk).1.chan = r.chan.drop 65 ∧ (recvArm r clk).1.socks = r.socks ∧
    evs.length = min 65 r.chan.length := by
  intro evs
  refine ⟨by rw [recvArm_eq], by rw [recvArm_eq], by rw [recvArm_eq], by rw [recvArm_eq], ?_⟩
  simp [evs, drainEvs_length]

example : (recvArm exR fun k => 50 + k).1.chan = [] := by decide +kernel

/-- **Every schedule of receive-side events is a shell run**: the shell state after the schedule and the outputs are those
of `Sys.run` over `trace r sched` (the uplink events of the drains in channel order, the `shell` events where they
stand); hence the client-side log of ANY schedule — arrivals, reader steps, receive errors, drains, arm bodies incl.
housekeeping and reloads — is the closed form `relayLogK` of C09 over that trace. -/
theorem C09_rx_run_projects (r : Rx F) (sched : List Rx.Ev) :
    (Rx.run r sched).1.sys = (Sys.run r.sys (trace r sched)).1 ∧
    (Rx.run r sched).2 = (Sys.run r.sys (trace r sched)).2 ∧
    clientLog (Rx.run r sched).2 = relayLogK (keysOf r.sys.links) r.sys.clientKnown (trace r sched) := by
  obtain ⟨h1, h2⟩ := run_projects r sched
  exact ⟨h1, h2, by rw [h2]; exact (C09.C09_relay_run_closed r.sys (trace r sched)).2⟩

example : (trace exR exSched).length = 8 ∧ clientLog (Rx.run exR exSched).2 =
    [SysReload.exData, exNak, (List.replicate 1501 7).take 1500, [0x80, 0x03]] := by decide +kernel

/-! ## 2. The channel -/

/-- **The packet channel is FIFO and loses nothing** — every schedule, no hypothesis.  `enq` = what the readers put in
(`read`: the batch without its empty datagrams; `rxErr`: the sentinel), `handed` = what `drain` / `recv` took out and gave
to `handle_uplink_packet`.  As lists: old content ++ put in = handed ++ still queued; so what was handed is a PREFIX of
what was there and was put in.  With no hand-built packet (`NoDirect`) the `Ev.uplink` events the shell sees are EXACTLY
the handed packets, in order. -/
theorem C09_rx_channel_fifo (r : Rx F) (sched : List Rx.Ev) :
    r.chan ++ enq r sched = handed r sched ++ (Rx.run r sched).1.chan ∧
    handed r sched <+: r.chan ++ enq r sched ∧
    (NoDirect sched → pktsOf (trace r sched) = handed r sched) :=
  ⟨fifo r sched, ⟨_, (fifo r sched).symm⟩, pktsOf_trace r sched⟩

example : handed exR exSched = [(2, SysReload.exData), (1, []), (1, exNak), (1, (List.replicate 1501 7).take 1500),
    (1, [0x80, 0x03]), (2, [])] ∧ (Rx.run exR exSched).1.chan = [] := by decide +kernel

/-! ## 3. Per socket: exactly once, in order -/

/-- **Exactly once, in arrival order** (schedules without reader management, any interleaving of arrivals, reader
iterations of any conn id, receive errors, drains, uplink-arm passes and other arm bodies).  Start with an empty channel
and conn id `c`'s receive queue empty.  `arrivedOn r c sched` = the datagrams that arrived at `c`'s socket during the
schedule, each cut to its first 1500 bytes (`Rx.truncate`), `ne` drops the empty ones (the reader skips them),
`dataOf c` reads the non-sentinel payloads stamped `c`.  Then
(1) what was handed to the shell for `c` is a PREFIX of what arrived on `c`, in order;
(2) exact accounting, as lists: handed ++ still in the channel ++ still in the socket = arrived — nothing twice, nothing
    invented, nothing lost;
(3) once the channel and `c`'s socket are empty again, ALL of them were handed over. -/
theorem C09_rx_exactly_once (r : Rx F) (sched : List Rx.Ev) (hq : Quiet sched) (c : Nat)
    (hch : r.chan = []) (hin : inboxOf r.socks c = []) :
    dataOf c (handed r sched) <+: ne (arrivedOn r c sched) ∧
    dataOf c (handed r sched) ++ dataOf c (Rx.run r sched).1.chan ++ ne (inboxOf (Rx.run r sched).1.socks c) =
      ne (arrivedOn r c sched) ∧
    ((Rx.run r sched).1.chan = [] → inboxOf (Rx.run r sched).1.socks c = [] →
      dataOf c (handed r sched) = ne (arrivedOn r c sched)) := by
  have h1 := fifo r sched
  have h2 := inbox_conservation r sched hq c
  rw [hch, List.nil_append] at h1
  rw [hin, h1, dataOf_append] at h2
  simp only [ne, List.filter_nil, List.nil_append] at h2
  have h3 : dataOf c (handed r sched) ++ dataOf c (Rx.run r sched).1.chan ++
      ne (inboxOf (Rx.run r sched).1.socks c) = ne (arrivedOn r c sched) := h2
  refine ⟨⟨_, by rw [← h3, List.append_assoc]⟩, h3, fun e1 e2 => ?_⟩
  rw [e1, e2] at h3
  simpa [dataOf, ne] using h3

/-- The schedule of the example from a state with an empty channel and empty sockets: conn id 1 received a 1501-byte
datagram (cut to 1500) and a 2-byte one; both were handed over, in order, once. -/
example :
    let r : Rx Int := { exR with chan := [], socks := [{ cid := 1, gen := 1 }, { cid := 2 }, { cid := 3 }] }
    Quiet exSched ∧ ne (arrivedOn r 1 exSched) = [(List.replicate 1501 7).take 1500, [0x80, 0x03]] ∧
    dataOf 1 (handed r exSched) = ne (arrivedOn r 1 exSched) := by
  refine ⟨?_, by decide +kernel, by decide +kernel⟩
  intro e he
  simp only [exSched, List.mem_cons, List.not_mem_nil, or_false] at he
  rcases he with h | h | h | h | h | h | h | h | h <;> subst h <;>
    exact ⟨fun _ h => (by cases h), fun _ _ _ h => (by cases h)⟩

/-- **Quiescence in `⌈n/32⌉` reader iterations and `⌈m/64⌉` drains.**  `n` successful iterations of `c`'s reader remove
the `32·n` oldest datagrams of its socket, `m` drains the `64·m` oldest packets of the channel; so a socket holding at
most `32·n` datagrams / a channel holding at most `64·m` packets is empty afterwards (with nothing arriving in between:
the fair-scheduling reading of "every reader step and drain eventually runs"). -/
theorem C09_rx_quiescence (r : Rx F) (c : Nat) (clk : Nat → Nat) (n m : Nat) :
    inboxOf (Rx.run r (List.replicate n (.read c))).1.socks c = (inboxOf r.socks c).drop (32 * n) ∧
    (Rx.run r (List.replicate m (.drain clk))).1.chan = r.chan.drop (64 * m) ∧
    ((inboxOf r.socks c).length ≤ 32 * n → inboxOf (Rx.run r (List.replicate n (.read c))).1.socks c = []) ∧
    (r.chan.length ≤ 64 * m → (Rx.run r (List.replicate m (.drain clk))).1.chan = []) := by
  refine ⟨reads_inbox r c n, drains_chan r clk m, fun h => ?_, fun h => ?_⟩
  · rw [reads_inbox]; exact List.drop_eq_nil_of_le h
  · rw [drains_chan]; exact List.drop_eq_nil_of_le h

example : inboxOf (Rx.run exR (List.replicate 1 (.read 1))).1.socks 1 = [] ∧
    (Rx.run exR (List.replicate 1 (.drain fun _ => 40))).1.chan = [] := by decide +kernel

/-! ## 4. The sentinel -/

def isSentinel : Sys.Ev → Bool
  | .uplink _ _ d => d.isEmpty
  | _ => false

/-- **A receive error is invisible to the shell.**  The reader reports a receive error as a packet with EMPTY bytes;
`handle_uplink_packet` on it is the identity with no output, whatever the state, the clock and the conn id (known or
not); hence erasing the sentinels from any shell event list changes neither the final state nor the outputs that are
not empty. -/
theorem C09_rx_sentinel_invisible (s : Sys F) :
    (∀ now cid, Sys.step s (.uplink now cid []) = (s, {})) ∧
    ∀ evs : List Sys.Ev, (Sys.run s evs).1 = (Sys.run s (evs.filter fun e => !isSentinel e)).1 ∧
      clientLog (Sys.run s evs).2 = clientLog (Sys.run s (evs.filter fun e => !isSentinel e)).2 ∧
      (Sys.run s evs).2.flatMap (·.wire) = (Sys.run s (evs.filter fun e => !isSentinel e)).2.flatMap (·.wire) := by
  refine ⟨fun _ _ => rfl, fun evs => ?_⟩
  induction evs generalizing s with
  | nil => exact ⟨rfl, rfl, rfl⟩
  | cons e es ih =>
    by_cases h : isSentinel e = true
    · have hs : Sys.step s e = (s, {}) := by
        cases e with
        | uplink now cid d =>
          have : d = [] := by simpa [isSentinel] using h
          subst this; rfl
        | _ => simp [isSentinel] at h
      simp only [List.filter_cons, h, Bool.not_true, Bool.false_eq_true, if_false, Sys.run, hs]
      obtain ⟨a, b, c⟩ := ih s
      exact ⟨a, by simpa [clientLog] using b, by simpa using c⟩
    · simp only [List.filter_cons, h, Bool.not_false, if_true, Sys.run]
      obtain ⟨a, b, c⟩ := ih (Sys.step s e).1
      refine ⟨a, ?_, ?_⟩
      · simp only [clientLog, List.flatMap_cons] at b ⊢; rw [b]
      · simp only [List.flatMap_cons]; rw [c]

example : (Rx.step exR (.rxErr 2)).1.chan = exR.chan ++ [(2, [])] ∧
    Sys.step exR.sys (.uplink 5 2 []) = (exR.sys, {}) := ⟨by decide, rfl⟩

/-! ## 5. The C09 corollary -/

/-- **C09 from the socket on** (composition with `C09_relay_run_closed_reading`).  A client address is known; a schedule
without reader management and without hand-built packets, from an empty channel and an empty socket of conn id `c`, to
quiescence (channel and `c`'s socket empty again); `c` names a link.  Then EVERY datagram that arrived at `c`'s socket
during the schedule, has two or more bytes after the cut to 1500 and is not SRTLA-internal, is in the client-side log —
byte for byte the first 1500 bytes of what arrived (the whole datagram when it has at most 1500 bytes:
`Rx.truncate d = d`). -/
theorem C09_rx_relay_quiescent (r : Rx F) (sched : List Rx.Ev) (hq : Quiet sched) (hnd : NoDirect sched)
    (hck : r.sys.clientKnown = true) (c : Nat) (hch : r.chan = []) (hin : inboxOf r.socks c = [])
    (hc : ∃ l ∈ r.sys.links, l.core.connId = c)
    (e1 : (Rx.run r sched).1.chan = []) (e2 : inboxOf (Rx.run r sched).1.socks c = []) :
    (∀ d ∈ arrivedOn r c sched, 2 ≤ d.length → (∀ pt, Codec.getPacketTypeS d = some pt → ¬ C09.Internal pt) →
      d ∈ clientLog (Rx.run r sched).2) ∧
    ∀ d : Sys.Bytes, d.length ≤ 1500 → Rx.truncate d = d := by
  refine ⟨fun d hd hlen hint => ?_, fun d hd => by simp [Rx.truncate, List.take_of_length_le hd]⟩
  have hall := (C09_rx_exactly_once r sched hq c hch hin).2.2 e1 e2
  have hmem : d ∈ dataOf c (handed r sched) := by
    rw [hall]; simp only [ne, List.mem_filter]
    refine ⟨hd, ?_⟩
    cases d with
    | nil => simp at hlen
    | cons _ _ => rfl
  rw [← pktsOf_trace r sched hnd] at hmem
  -- an uplink event of the trace carries (c, d)
  have hev : ∃ (k : Nat) (now : Nat), (trace r sched)[k]? = some (Sys.Ev.uplink now c d) := by
    generalize trace r sched = evs at hmem
    induction evs with
    | nil => simp [pktsOf, dataOf] at hmem
    | cons e es ih =>
      have step : d ∈ dataOf c (pktsOf es) → ∃ (k : Nat) (now : Nat), (e :: es)[k]? = some (Sys.Ev.uplink now c d) := fun h => by
        obtain ⟨k, now, hk⟩ := ih h; exact ⟨k + 1, now, by simpa using hk⟩
      cases e with
      | uplink now cid d' =>
        simp only [pktsOf, dataOf, List.filter_cons] at hmem
        split at hmem
        · rename_i hcond
          simp only [List.map_cons, List.mem_cons] at hmem
          rcases hmem with h | h
          · simp only [Bool.and_eq_true, decide_eq_true_eq] at hcond
            exact ⟨0, now, by simp [h, hcond.1]⟩
          · exact step h
        · exact step hmem
      | _ => exact step hmem
  obtain ⟨k, now, hk⟩ := hev
  rw [(run_projects r sched).2]
  refine (C09.C09_relay_run_closed_reading r.sys hck (trace r sched)).2.2 k now c d hk hlen ?_ hint
  -- the link set does not change along a quiet schedule
  have hnr : NoReload ((trace r sched).take k) := fun e he => trace_noReload r sched hq e (List.mem_of_mem_take he)
  have hids := run_ids r.sys ((trace r sched).take k)
  rw [keysRun_noReload _ _ hnr, keysOf_ids] at hids
  obtain ⟨l, hl, hlc⟩ := hc
  have : c ∈ ids (Sys.run r.sys ((trace r sched).take k)).1.links := by
    rw [hids]; exact List.mem_map.mpr ⟨l, hl, hlc⟩
  obtain ⟨l', hl', hlc'⟩ := List.mem_map.mp this
  exact ⟨l', hl', hlc'⟩

/-- Instance: the example schedule from the emptied state; the NAK-typed 2-byte datagram and the 1500-byte cut of the long
one that arrived on conn id 1 are in the client log. -/
example :
    let r : Rx Int := { exR with chan := [], socks := [{ cid := 1, gen := 1 }, { cid := 2 }, { cid := 3 }] }
    (Rx.run r exSched).1.chan = [] ∧ inboxOf (Rx.run r exSched).1.socks 1 = [] ∧
    clientLog (Rx.run r exSched).2 = [(List.replicate 1501 7).take 1500, [0x80, 0x03]] := by decide +kernel

/-! ## 6. Socket re-creation -/

/-- **A housekeeping pass touches the receive side only through the sockets it re-creates.**  The channel is not touched
(what the old reader had already delivered stays queued); `restart_reader_for` on the conn ids `ids` leaves an EMPTY
receive queue for exactly those conn ids — the unread datagrams of the old sockets are lost, which is why
`C09_rx_exactly_once` excludes housekeeping passes — and every other receive queue as it was. -/
theorem C09_rx_restart_loses_only_unread (r : Rx F) (now : Nat) (ids : List Nat) (c : Nat) :
    (Rx.step r (.shell (.hk now))).1.chan = r.chan ∧
    inboxOf (restartReaders r.socks ids) c = if c ∈ ids then [] else inboxOf r.socks c :=
  ⟨rfl, inboxOf_restartReaders r.socks ids c⟩

/-- All three links of the example have been silent past their timeout at clock 9100: the pass re-creates the three
sockets (generation + 1, receive queues emptied: the datagrams that were waiting there are lost), the channel keeps its
two packets; re-creating only the socket of conn id 2 leaves conn id 1's queue as it was. -/
example :
    let r : Rx Int := { exR with socks := [{ cid := 1, gen := 1, inbox := [exNak] }, { cid := 2, inbox := [exNak] }, { cid := 3 }] }
    reconnected r.sys 9100 = [1, 2, 3] ∧
    (Rx.step r (.shell (.hk 9100))).1.socks = [{ cid := 1, gen := 2 }, { cid := 2, gen := 1 }, { cid := 3, gen := 1 }] ∧
    (Rx.step r (.shell (.hk 9100))).1.chan = exR.chan ∧
    inboxOf (restartReaders r.socks [2]) 1 = [exNak] ∧ inboxOf (restartReaders r.socks [2]) 2 = [] := by
  decide +kernel

end Srtla.Props.SysRx
