import Srtla.Lemmas.Arm
import Srtla.Lemmas.ReconnectLive
import Srtla.Props.SysReload
import Srtla.Props.C16
import Srtla.Props.C17
/-!
# The housekeeping ARM as one function of the model: C16 / C17 at arm level, over every run of the whole sender

`Model/Arm.lean`: `Full` = shell + weak-link filter + per-link CC controller; `hkArm` = the housekeeping arm of
`run_sender_with_config` up to and including the stamping loop; `Full.run` = any interleaving of ticks with client /
uplink / flush / reload / configuration / injection events.  Compared bit for bit with the real arm by component `sys`
(op `hkarm`: the real `WeakLinkFilter`, `LinkCcController`, `handle_housekeeping` and the stamping loop mirrored
statement by statement; the mirrored source region is hash-pinned).

* **projection** (§1): `hkArm_projects` — the shell component after the arm is `Sys.run` of
  `[.syncTimeout, .hk now] ++ stamps`, the stamps being the `Ev.stamp i …` events whose verdicts are computed from the
  classifier / controller of the state; `Full_run_projects`, `Full_run_transfer` — so EVERY run-level theorem about
  `Sys.run` applies to the shell component of every `Full` run (instances: `Full_run_inv`);
* **C17 at arm level** (§2): the stamped `weak` flag IS the classifier's verdict for the link's conn id
  (`C17_arm_weak_is_verdict`, `false` for an id the classifier did not report), is `false` for a link that is not
  connected at the tick (`C17_arm_not_weak_when_disconnected`) and for every link when the tick's total is under the
  floor (`C17_arm_not_weak_under_floor`); the filter state along a `Full` run is `classify` folded over the slices at the
  ticks (`C17_arm_history`), i.e. the stamped flags of a run from a fresh filter are `verdictAt` of that history and the
  streak / probation / hysteresis theorems of `Props/C17.lean` apply; stated over the STAMPED flags of the run (audit 5,
  A2): `C17_arm_at_most_15_in_a_row` (no conn id leaves the arm `weak = true` with reported reason LowShare / NoTraffic
  at 16 consecutive ticks), `C17_arm_probation_three_ticks` (after 15 such ticks, three ticks with `weak = false` while
  the id stays present); no event but a tick touches the filter / controller (`C17_arm_reload_keeps_filter`, §4);
* **C16 at arm level** (§3): the stamped `cc_target_bps` / `cc_backing_off` / `loss_degraded` are the snapshot of the
  link's controller entry, which exists (`C16_arm_target_is_snapshot`); the entries after a tick are EXACTLY the conn ids
  of the links of that tick (`C16_arm_entries_exact`); a link the controller has no entry for — e.g. one a reload
  created since the last tick — starts from `LinkCongestionState::default()` (`C16_arm_fresh_from_default`,
  `C16_arm_reload_link_starts_default`); along EVERY run of the whole sender the stamped target of every link is 0 or
  within [100 000, 200 000 000] (`C16_arm_bounds_run`); right after every tick of every run every link carries the
  snapshot of its OWN entry (never 0), and between ticks 0 occurs only on a link whose conn id a reload drew since the
  last tick (`C16_arm_own_snapshot_run`, audit 5 A3).

Limits (audit 5): the model is tied to the harness's statement-by-statement MIRROR of the arm (op `hkarm`), not to the
arm inside `run_sender_with_config` itself, which is covered by a hash pin and `looptrace` only (A1, harness side);
every Lean example tick is a bypass tick (`exViews` reads 0.0 bit/s; `Float` is opaque to `decide`), so non-vacuity of
"stamped weak = true" rests on the harness counters `hkarm-weak-stamped` / `hkarm-classified` (A7); `Full` lets a
reload happen anywhere between ticks, the real loop runs it inside the tick after the stamps (a superset, A10).

Scalars: `F` (shell) and `G` (controller) are arbitrary; the classifier front end is `Float` (uninterpreted in the
proofs, as in `Props/C17.lean`).  The views are a parameter; the theorems that relate a verdict to THE link need
`Faithful v` (the views read the link's own conn id / `connected` flag — `rfl` for the views of the real code,
`viewsF_faithful`) and pairwise distinct conn ids (`Sys.Inv`, carried along every run by `Full_run_inv`).
Non-vacuity: the examples use ONE concrete `Full` state `exF` built on `SysReload.exS` (links modified away from the
constructor: live, queued datagram, in-flight packet, window 25000; a fresh link), a controller that already went
through a `tick_all` (exact-arithmetic scalar `witScalar`), a filter with a stored row, and the run `exEvs` (client
datagram, tick, reload that removes and adds, tick).
-/
namespace Srtla.Props.SysArm
open Srtla Srtla.Link Srtla.Sys Srtla.Arm Srtla.Props.SysReload

variable {F G : Type} [Scalar F] [LinkCc.Scalar G]

/-- The views read the conn id and the `connected` flag of the link itself. -/
structure Faithful (v : Views F G) : Prop where
  clsId : ∀ l, (v.cls l).id = l.core.connId
  clsConnected : ∀ l, (v.cls l).connected = l.core.connected
  ccId : ∀ l, (v.cc l).id = l.core.connId

/-- The views of the real code are faithful. -/
theorem viewsF_faithful : Faithful viewsF := ⟨fun _ => rfl, fun _ => rfl, fun _ => rfl⟩

/-! ## 0. The concrete state of the non-vacuity examples -/

local instance : Scalar Int := Select.fixScalar
local instance : LinkCc.Scalar Rat := LinkCc.witScalar

/-- Views for the examples: ids / flags / counters of the link itself, constant float readings. -/
def exViews : Views Int Rat where
  cls l := { id := l.core.connId, connected := l.core.connected, bps := 0.0, kalman := none, minFast := 0.0,
             minSlow := 0.0, masd := 0.0, rttMin := 0.0 }
  cc l := { id := l.core.connId, smoothRtt := 10, bytesTotal := l.bitrate.total, nakTotal := l.core.cong.nakCount,
            bitrate := 1000000 }

theorem exViews_faithful : Faithful exViews := ⟨fun _ => rfl, fun _ => rfl, fun _ => rfl⟩

/-- `SysReload.exS` (two busy links, one fresh) with NON-DEFAULT stamps on its links, a controller that has been
through one `tick_all` for the ids 1, 2 and a vanished id 5, and a filter with a stored row for link 2. -/
def exF : Full Int Rat :=
  { sys := { exS with links := exS.links.map fun l =>
                FLink.stamped l { weak := l.core.connId == 2, lossDegraded := false, ccBackingOff := false,
                                  ccTarget := 1000000 } },
    cls := [(2, { prevWeak := true, weakStreak := 3 })],
    ctl := LinkCc.tickAll [] [exViews.cc (exBusy 1 1), exViews.cc (exBusy 2 2), exViews.cc (exBusy 5 5)] 4000 }

/-- A client datagram, a tick, the reload of `SysReload` (removes link 2, adds 7 and 8), an uplink datagram, a tick. -/
def exEvs : List FEv :=
  [.other (.client 5000 exData), .tick 5100, .other exReload, .other (.uplink 5200 2 exData), .tick 6100]

/-! ## 1. Projection: the arm is a run of the shell -/

/-- **The arm projects onto a run of the shell.**  The shell component after `hkArm` is `Sys.run` of
`sync_conn_timeout`, `handle_housekeeping`, then one `Ev.stamp i …` per link in index order whose verdicts are
`armStamp` = `stampOf` of the classification `classify s.cls (views of the links after housekeeping)` and of the
controller `tickAll s.ctl (views of the links after housekeeping) now`, looked up by the conn id of link `i`; the
arm's output is housekeeping's; the filter / controller components are the `classify` / `tickAll` results.
(Audit 5, A8: the CONTENT is conjunct 1 - the `map` of the stamping loop is the left-to-right run of the `stamp`
events; conjuncts 2-5 restate the definition of `hkArm` / `armStamp` and hold by `rfl`.) -/
theorem hkArm_projects (v : Views F G) (s : Full F G) (now : Nat) :
    (hkArm v s now).1.sys =
      (run s.sys ([.syncTimeout, .hk now] ++
        (List.range (afterHk s.sys now).1.links.length).map fun i =>
          let st := armStamp v s now (idAt (afterHk s.sys now).1.links i)
          Ev.stamp i st.weak st.lossDegraded st.ccBackingOff st.ccTarget)).1 ∧
    (hkArm v s now).2 = (step (step s.sys .syncTimeout).1 (.hk now)).2 ∧
    (hkArm v s now).1.cls = (Classifier.classify s.cls (clsTick v (afterHk s.sys now).1.links)).1 ∧
    (hkArm v s now).1.ctl = LinkCc.tickAll s.ctl (ccConns v (afterHk s.sys now).1.links) now ∧
    armStamp v s now =
      stampOf (Classifier.classify s.cls (clsTick v (afterHk s.sys now).1.links)).2
        (LinkCc.tickAll s.ctl (ccConns v (afterHk s.sys now).1.links) now) :=
  ⟨hkArm_sys v s now, rfl, rfl, rfl, rfl⟩

/-- **Every `Full` run projects onto a `Sys.run`**: the shell component after any run of the whole sender is the
shell run of `trace` — each tick replaced by its `[.syncTimeout, .hk now] ++ stamps`, every other event itself. -/
theorem Full_run_projects (v : Views F G) (s : Full F G) (es : List FEv) :
    (Full.run v s es).1.sys = (run s.sys (trace v s es)).1 :=
  run_sys v s es

/-- Hence every run-level theorem about `Sys.run` applies to the shell component of every `Full` run.
LIMIT (audit 5, A8): `hP` must hold for ALL shell event lists from `s.sys`, bare `stamp` events with arbitrary
verdicts included, so only stamp-INSENSITIVE predicates transfer this way.  A theorem with hypotheses on the event
list (`FreshRun`, clocks, `NoReload` …) must be applied to `trace v s es` itself via `Full_run_projects`, and its
hypotheses discharged on that list, which contains the COMPUTED verdicts (as `Full_run_inv` does for `FreshRun`). -/
theorem Full_run_transfer (v : Views F G) (s : Full F G) (es : List FEv) (P : Sys F → Prop)
    (hP : ∀ evs, P (run s.sys evs).1) : P (Full.run v s es).1.sys := by
  rw [Full_run_projects]; exact hP _

/-- Instance: distinct conn ids, queues below the batch size and "I/O-map key set = conn ids" hold along every run of
the whole sender whose reloads draw new conn ids (`Inv_run_reload`, `IoOk_run` through the projection). -/
theorem Full_run_inv (v : Views F G) (s : Full F G) (es : List FEv) (hinv : Inv s.sys) (hio : IoOk s.sys)
    (hf : FreshRun s.sys (trace v s es)) :
    Inv (Full.run v s es).1.sys ∧ IoOk (Full.run v s es).1.sys := by
  rw [Full_run_projects]
  exact ⟨Inv_run_reload _ hinv _ hf, IoOk_run _ hinv hio _ hf⟩

theorem exF_inv : Inv exF.sys := ⟨by decide, by decide⟩

-- non-vacuity: the example run (two ticks, a reload between them) meets the hypotheses; its trace is not reload-free
example : Inv exF.sys ∧ IoOk exF.sys ∧ FreshRun exF.sys (trace exViews exF exEvs) ∧
    ¬ NoReload (trace exViews exF exEvs) := by
  refine ⟨exF_inv, ?_, by decide +kernel, by decide +kernel⟩
  intro k
  rw [show exF.sys.io = ids exF.sys.links by decide]

/-! ## 2. C17 at arm level -/

theorem find_map_nodup {α β : Type} (ls : List α) (key : α → Nat) (f : α → β) (okey : β → Nat)
    (hk : ∀ x, okey (f x) = key x) (hnd : (ls.map key).Nodup) (l : α) (hl : l ∈ ls) :
    (ls.map f).find? (fun o => okey o == key l) = some (f l) := by
  induction ls with
  | nil => cases hl
  | cons x xs ih =>
    rw [List.map_cons, List.nodup_cons] at hnd
    rw [List.map_cons, List.find?_cons]
    rcases List.mem_cons.1 hl with rfl | hl'
    · simp [hk]
    · have hne : key x ≠ key l := fun e => hnd.1 (e ▸ List.mem_map.2 ⟨l, hl', rfl⟩)
      have : (okey (f x) == key l) = false := by simp [hk, hne]
      rw [this]; exact ih hnd.2 hl'

/-- The link list after the arm: the list after housekeeping, every link with its stamp. -/
theorem hkArm_get (v : Views F G) (s : Full F G) (now i : Nat) :
    (hkArm v s now).1.sys.links[i]? =
      ((afterHk s.sys now).1.links[i]?).map fun l => FLink.stamped l (armStamp v s now l.core.connId) := by
  rw [hkArm_links, List.getElem?_map]

/-- `sync_conn_timeout` and `handle_housekeeping` keep the conn ids, in order. -/
theorem afterHk_ids (s : Sys F) (now : Nat) : ids (afterHk s now).1.links = ids s.links := by
  unfold afterHk ids
  rw [Hk.step_ids _ _ rfl, Hk.step_ids _ _ rfl]

/-- A conn id the classifier did not report is stamped not-weak (`unwrap_or(false)`). -/
theorem C17_stamp_unreported_false (res : Classifier.Result) (ctl : LinkCc.Ctl G) (id : Nat)
    (h : ∀ o ∈ res.perLink, o.id ≠ id) : (stampOf res ctl id).weak = false := by
  have : res.perLink.find? (·.id == id) = none := by
    rw [List.find?_eq_none]
    intro o ho; simpa using h o ho
  simp [stampOf, this]

theorem armStamp_weak (v : Views F G) (s : Full F G) (now id : Nat) :
    (armStamp v s now id).weak =
      (((Classifier.classify s.cls (clsTick v (afterHk s.sys now).1.links)).2.perLink.find?
          (·.id == id)).map (·.weak)).getD false := by
  unfold armStamp
  exact stampOf_weak _ _ _

/-- **The stamped `weak` flag IS the classifier's verdict.**  For the link at index `i` at the tick (after
`handle_housekeeping`, which is what `classify` reads): the link at index `i` after the arm is that link with
`weak` = the `weak` of the FIRST entry of `classification.per_link` with its conn id, `false` if there is none; with
faithful views and pairwise distinct conn ids that entry is the verdict `verdictOf` the filter computed for THIS
link's readings.  (Audit 5, A8: conjunct 3 - `weak` = `find … unwrap_or(false)` - restates `stampOf` and holds by
`rfl`; the content is conjunct 4, which needs `Faithful` and `Nodup`.) -/
theorem C17_arm_weak_is_verdict (v : Views F G) (hv : Faithful v) (s : Full F G) (now i : Nat) (l : FLink F)
    (hl : (afterHk s.sys now).1.links[i]? = some l) :
    ∃ l', (hkArm v s now).1.sys.links[i]? = some l' ∧ l'.core.connId = l.core.connId ∧
      l'.weak = (((Classifier.classify s.cls (clsTick v (afterHk s.sys now).1.links)).2.perLink.find?
                    (·.id == l.core.connId)).map (·.weak)).getD false ∧
      ((ids s.sys.links).Nodup →
        l'.weak = (Classifier.verdictOf s.cls (clsTick v (afterHk s.sys now).1.links) (v.cls l)).weak) := by
  refine ⟨FLink.stamped l (armStamp v s now l.core.connId), ?_, stamped_connId _ _, ?_, fun hnd => ?_⟩
  · rw [hkArm_get, hl]; rfl
  · rw [stamped_weak]; exact armStamp_weak v s now _
  have hnd' : ((afterHk s.sys now).1.links.map (·.core.connId)).Nodup := by
    have := afterHk_ids s.sys now
    unfold ids at this; rw [this]; exact hnd
  have hfind := find_map_nodup (afterHk s.sys now).1.links (·.core.connId)
    (fun l => Classifier.verdictOf s.cls (clsTick v (afterHk s.sys now).1.links) (v.cls l)) (·.id)
    (fun x => by rw [Classifier.verdictOf_id, hv.clsId]) hnd' l (List.mem_of_getElem? hl)
  rw [stamped_weak, armStamp_weak]
  have hper : (Classifier.classify s.cls (clsTick v (afterHk s.sys now).1.links)).2.perLink =
      (afterHk s.sys now).1.links.map
        (fun l => Classifier.verdictOf s.cls (clsTick v (afterHk s.sys now).1.links) (v.cls l)) := by
    simp only [Classifier.classify, clsTick, List.map_map]; rfl
  rw [hper, hfind]
  rfl

/-- **Never stamped weak while not connected.**  A link that is not `connected` at the tick (after
`handle_housekeeping`) leaves the arm with `weak = false` — faithful views, pairwise distinct conn ids.
LIMIT (audit 5, A5): this is about the state RIGHT AFTER the arm.  Between ticks `mark_for_recovery` (a failed
threshold send, REG_ERR) sets `connected = false` and nothing clears `conn.weak` (`step_verdicts`: only `stamp`
writes it), so `weak ∧ ¬connected` IS reachable for up to one tick period (1 s), in the model and in the code alike.
The property text ("never REPORTED weak while disconnected") is met - reports are made at ticks -; the invariant
"weak ⇒ connected" at every instant is NOT claimed and does not hold. -/
theorem C17_arm_not_weak_when_disconnected (v : Views F G) (hv : Faithful v) (s : Full F G) (now i : Nat)
    (l : FLink F) (hnd : (ids s.sys.links).Nodup) (hl : (afterHk s.sys now).1.links[i]? = some l)
    (hc : l.core.connected = false) :
    ∃ l', (hkArm v s now).1.sys.links[i]? = some l' ∧ l'.core.connId = l.core.connId ∧ l'.weak = false := by
  obtain ⟨l', h1, h2, -, h4⟩ := C17_arm_weak_is_verdict v hv s now i l hl
  refine ⟨l', h1, h2, ?_⟩
  rw [h4 hnd]
  unfold Classifier.verdictOf
  split
  · rfl
  · simp [hv.clsConnected, hc]

-- non-vacuity: in the example state the conn ids are distinct and link 3 (index 2) is not connected after
-- housekeeping, the two busy links are
example : (ids exF.sys.links).Nodup ∧
    ((afterHk exF.sys 5100).1.links.map fun l => l.core.connected) = [true, true, false] :=
  ⟨by decide +kernel, by decide +kernel⟩

/-- **Never stamped weak under the floor.**  When the tick's total bitrate (the model's f64 sum over the connected
links) is under 100 kbit/s, or no link is connected, EVERY link leaves the arm with `weak = false`. -/
theorem C17_arm_not_weak_under_floor (v : Views F G) (s : Full F G) (now : Nat)
    (hf : Classifier.totalBps (clsTick v (afterHk s.sys now).1.links) < 100000.0 ∨
          Classifier.connectedCount (clsTick v (afterHk s.sys now).1.links) = 0) :
    ∀ l' ∈ (hkArm v s now).1.sys.links, l'.weak = false := by
  have hb : Classifier.bypass (clsTick v (afterHk s.sys now).1.links) = true := by
    unfold Classifier.bypass
    rcases hf with hf | hf
    · have : decide (Classifier.totalBps (clsTick v (afterHk s.sys now).1.links) <
          Gen.Classifier.MIN_TOTAL_BPS_FOR_CLASSIFICATION_f) = true := decide_eq_true hf
      simp [this]
    · simp [hf]
  intro l' hl'
  rw [hkArm_links] at hl'
  obtain ⟨l, -, rfl⟩ := List.mem_map.1 hl'
  rw [stamped_weak, armStamp_weak]
  cases hfd : (Classifier.classify s.cls (clsTick v (afterHk s.sys now).1.links)).2.perLink.find?
      (·.id == l.core.connId) with
  | none => rfl
  | some o =>
    have ho := List.mem_of_find?_eq_some hfd
    simp only [Classifier.classify, List.mem_map] at ho
    obtain ⟨x, -, rfl⟩ := ho
    simp [Classifier.verdictOf, hb]

/-- `exF` with every link down (`connected = false`); link 2 still carries the stamp `weak = true`. -/
def exDown : Full Int Rat :=
  { exF with sys := { exF.sys with links := exF.sys.links.map fun l =>
      { l with core := { l.core with connected := false } } } }

-- non-vacuity (audit 5, A7: on a NON-pristine state and THROUGH the arm): in `exDown` no link is connected after
-- `handle_housekeeping` at 5100 (`connectedCount = 0`: the second disjunct of the hypothesis), link 2 enters the arm
-- with `weak = true` and every link leaves it with `weak = false`.  The FIRST disjunct (a total under the floor) is
-- an f64 comparison and cannot be evaluated inside Lean; more generally, with `exViews` (0.0 bit/s, no Kalman value)
-- EVERY Lean example tick of this file is a bypass tick: no Lean example has a classified tick or a `weak = true`
-- stamp.  Non-vacuity of "stamped weak = true", of the floor disjunct and of every C17 clause through the arm rests
-- on the harness counters `hkarm-weak-stamped`, `hkarm-classified`, `hkarm-under-floor` (component `sys`).
example : Classifier.connectedCount (clsTick exViews (afterHk exDown.sys 5100).1.links) = 0 ∧
    exDown.sys.links.map (·.weak) = [false, true, false] ∧
    (hkArm exViews exDown 5100).1.sys.links.map (·.weak) = [false, false, false] :=
  ⟨by decide +kernel, by decide +kernel, by decide +kernel⟩

/-! ### The filter state along a run is `classify` folded over the slices at the ticks -/

/-- The slices `classify` is handed along a run of the whole sender, in order. -/
def ticksOf (v : Views F G) (s : Full F G) : List FEv → List Classifier.Tick
  | [] => []
  | .tick now :: es => clsTick v (afterHk s.sys now).1.links :: ticksOf v (hkArm v s now).1 es
  | .other e :: es => ticksOf v (Full.step v s (.other e)).1 es

/-- The history (in the sense of `Props/C17.lean`) of a list of slices: empty slices afterwards. -/
def histOf (ts : List Classifier.Tick) : Nat → Classifier.Tick := fun k => ts.getD k []

theorem run_cls (v : Views F G) (s : Full F G) (es : List FEv) :
    (Full.run v s es).1.cls = (ticksOf v s es).foldl Classifier.nextState s.cls := by
  induction es generalizing s with
  | nil => rfl
  | cons e es ih =>
    cases e with
    | tick now => exact ih _
    | other e => exact ih _

theorem stateAt_eq_foldl (h : Nat → Classifier.Tick) (k : Nat) :
    Classifier.stateAt h k = ((List.range k).map h).foldl Classifier.nextState Classifier.State.init := by
  induction k with
  | zero => rfl
  | succ k ih =>
    rw [List.range_succ, List.map_append, List.foldl_append, ← ih]
    rfl

theorem range_map_histOf (ts rest : List Classifier.Tick) :
    (List.range ts.length).map (histOf (ts ++ rest)) = ts := by
  apply List.ext_getElem?
  intro j
  rw [List.getElem?_map]
  rcases Nat.lt_or_ge j ts.length with hj | hj
  · rw [List.getElem?_range hj]
    simp only [histOf, List.getD, List.getElem?_append_left hj, Option.map_some]
    rw [List.getElem?_eq_getElem hj]; rfl
  · rw [List.getElem?_eq_none (by simpa using hj), List.getElem?_eq_none hj]
    rfl

/-- **The filter state along a run of the whole sender is `classify` folded over the slices at the ticks.**  From a
fresh filter (`WeakLinkFilter::new()`), after ANY events `es` (any interleaving of client / uplink / flush / reload
events between the ticks), at a tick: with `h` the history made of the slices of the ticks so far followed by this
tick's slice `t`, and `k` the number of earlier ticks — the filter state is `stateAt h k`, the slice is `h k`, and the
verdict the arm stamps from is `verdictAt h k`: every theorem of `Props/C17.lean` about `verdictAt` / `stateAt`
(sustain, streaks, probation, hysteresis) speaks about the flags `hkArm` stamps. -/
theorem C17_arm_history (v : Views F G) (s : Full F G) (hs : s.cls = Classifier.State.init) (es : List FEv)
    (now : Nat) :
    let s' := (Full.run v s es).1
    let t := clsTick v (afterHk s'.sys now).1.links
    let h := histOf (ticksOf v s es ++ [t])
    let k := (ticksOf v s es).length
    s'.cls = Classifier.stateAt h k ∧ h k = t ∧
    (∀ l, Classifier.verdictOf s'.cls t l = Classifier.verdictAt h k l) ∧
    (hkArm v s' now).1.cls = Classifier.stateAt h (k + 1) := by
  intro s' t h k
  have h1 : s'.cls = Classifier.stateAt h k := by
    rw [stateAt_eq_foldl, range_map_histOf, run_cls, hs]
  have h2 : h k = t := by
    simp [h, k, histOf, List.getD]
  refine ⟨h1, h2, fun l => ?_, ?_⟩
  · unfold Classifier.verdictAt; rw [h2, ← h1]
  · show Classifier.nextState s'.cls t = Classifier.nextState (Classifier.stateAt h k) (h k)
    rw [h2, ← h1]

/-- The slices of a run from a state with pairwise distinct conn ids, reloads drawing new ids, have pairwise
distinct ids (faithful views): the input restriction `uniqueIds` of `Props/C17.lean` holds of every run. -/
theorem freshRun_append (s : Sys F) (a b : List Ev) (h : FreshRun s (a ++ b)) :
    FreshRun s a ∧ FreshRun (run s a).1 b := by
  induction a generalizing s with
  | nil => exact ⟨trivial, h⟩
  | cons e a ih =>
    obtain ⟨h1, h2⟩ := ih _ h.2
    exact ⟨⟨h.1, h1⟩, h2⟩

theorem ticks_nodup (v : Views F G) (hv : Faithful v) (s : Full F G) (es : List FEv) (hinv : Inv s.sys)
    (hf : FreshRun s.sys (trace v s es)) : ∀ t ∈ ticksOf v s es, (t.map (·.id)).Nodup := by
  induction es generalizing s with
  | nil => intro t ht; cases ht
  | cons e es ih =>
    obtain ⟨hf1, hf2⟩ := freshRun_append _ _ _ hf
    have hinv' : Inv (Full.step v s e).1.sys := by
      rw [step_sys]; exact Inv_run_reload _ hinv _ hf1
    have hf' : FreshRun (Full.step v s e).1.sys (trace v (Full.step v s e).1 es) := by
      rw [step_sys]; exact hf2
    cases e with
    | tick now =>
      intro t ht
      rcases List.mem_cons.1 ht with rfl | ht
      · have : (clsTick v (afterHk s.sys now).1.links).map (·.id) = ids (afterHk s.sys now).1.links := by
          simp only [clsTick, ids, List.map_map]
          exact List.map_congr_left fun l _ => hv.clsId l
        rw [this, afterHk_ids]; exact hinv.nodup
      · exact ih _ hinv' hf' t ht
    | other e => exact ih _ hinv' hf'

theorem uniqueIds_histOf (ts : List Classifier.Tick) (h : ∀ t ∈ ts, (t.map (·.id)).Nodup) :
    C17.uniqueIds (histOf ts) := by
  intro k
  unfold histOf List.getD
  cases hk : ts[k]? with
  | none => exact List.nodup_nil
  | some t => exact h t (List.mem_of_getElem? hk)

/-- The input restriction of `Props/C17.lean` holds of the history of every run: the slices `classify` is handed have
pairwise distinct ids (`uniqueIds`, PROVED from `Inv` and `FreshRun`, for any events between the ticks), and therefore
`C17.C17_at_most_15_in_a_row` applies to that history.  NOTE (audit 5, A2): `shareWeakAt (histOf …)` is about the
verdicts of a FRESH filter fed the slices of the run; this theorem alone says nothing about a stamped flag, and for
`s.cls ≠ State.init` the history's filter is not the filter of the run.  The statement about the STAMPED flags is
`C17_arm_at_most_15_in_a_row` below (this one is its first step and keeps the old statement under an honest name). -/
theorem C17_arm_history_uniqueIds (v : Views F G) (hv : Faithful v) (s : Full F G) (es : List FEv)
    (hinv : Inv s.sys) (hf : FreshRun s.sys (trace v s es)) (k id : Nat) :
    C17.uniqueIds (histOf (ticksOf v s es)) ∧
    ¬ (∀ j < 16, C17.shareWeakAt (histOf (ticksOf v s es)) (k + j) id) :=
  ⟨uniqueIds_histOf _ (ticks_nodup v hv s es hinv hf),
   C17.C17_at_most_15_in_a_row _ (uniqueIds_histOf _ (ticks_nodup v hv s es hinv hf)) k id⟩

/-! ### The STAMPED flags along a run (audit 5, A2) -/

/-- The ticks of a run of the whole sender, in order: the state each tick STARTS from and its clock.  Index `n` is the
`n`-th tick of the run, whatever other events (client / uplink / flush / reload …) lie between the ticks. -/
def tickPts (v : Views F G) (s : Full F G) : List FEv → List (Full F G × Nat)
  | [] => []
  | .tick now :: es => (s, now) :: tickPts v (hkArm v s now).1 es
  | .other e :: es => tickPts v (Full.step v s (.other e)).1 es

theorem ticksOf_eq_map (v : Views F G) (s : Full F G) (es : List FEv) :
    ticksOf v s es = (tickPts v s es).map fun p => clsTick v (afterHk p.1.sys p.2).1.links := by
  induction es generalizing s with
  | nil => rfl
  | cons e es ih =>
    cases e with
    | tick now =>
      show _ :: ticksOf v _ es = _ :: List.map _ (tickPts v _ es)
      rw [ih]
    | other e => exact ih _

/-- The filter state the `n`-th tick of a run starts from: `nextState` folded over the slices of the earlier ticks. -/
theorem tickPts_cls (v : Views F G) (s : Full F G) (es : List FEv) (n : Nat) (p : Full F G × Nat)
    (h : (tickPts v s es)[n]? = some p) :
    p.1.cls = ((ticksOf v s es).take n).foldl Classifier.nextState s.cls := by
  induction es generalizing s n with
  | nil => simp [tickPts] at h
  | cons e es ih =>
    cases e with
    | tick now =>
      cases n with
      | zero =>
        have hp : (s, now) = p := by simpa [tickPts] using h
        subst hp; rfl
      | succ n => exact ih _ n h
    | other e => exact ih _ n h

theorem range_map_histOf_take (ts : List Classifier.Tick) (n : Nat) (hn : n ≤ ts.length) :
    (List.range n).map (histOf ts) = ts.take n := by
  have h := range_map_histOf (ts.take n) (ts.drop n)
  rwa [List.take_append_drop, List.length_take, Nat.min_eq_left hn] at h

/-- **The `n`-th tick of a run from a fresh filter IS step `n` of the run's history**: its slice is `h n`, the
filter state it starts from is `stateAt h n`, and the conn ids it sees are pairwise distinct. -/
theorem tickPts_history (v : Views F G) (hv : Faithful v) (s : Full F G) (hs : s.cls = Classifier.State.init)
    (es : List FEv) (hinv : Inv s.sys) (hf : FreshRun s.sys (trace v s es)) (n : Nat) (p : Full F G × Nat)
    (hp : (tickPts v s es)[n]? = some p) :
    histOf (ticksOf v s es) n = clsTick v (afterHk p.1.sys p.2).1.links ∧
    p.1.cls = Classifier.stateAt (histOf (ticksOf v s es)) n ∧ (ids p.1.sys.links).Nodup := by
  have hget : (ticksOf v s es)[n]? = some (clsTick v (afterHk p.1.sys p.2).1.links) := by
    rw [ticksOf_eq_map, List.getElem?_map, hp]; rfl
  have hlt : n < (ticksOf v s es).length := (List.getElem?_eq_some_iff.1 hget).1
  refine ⟨?_, ?_, ?_⟩
  · simp only [histOf, List.getD, hget, Option.getD_some]
  · rw [stateAt_eq_foldl, range_map_histOf_take _ _ (Nat.le_of_lt hlt), tickPts_cls v s es n p hp, hs]
  · have hnd := ticks_nodup v hv s es hinv hf _ (List.mem_of_getElem? hget)
    have : (clsTick v (afterHk p.1.sys p.2).1.links).map (·.id) = ids (afterHk p.1.sys p.2).1.links := by
      simp only [clsTick, ids, List.map_map]
      exact List.map_congr_left fun l _ => hv.clsId l
    rwa [this, afterHk_ids] at hnd

/-- The classification entry `find` returns for the conn id of a link of the tick is the verdict computed for THAT
link's readings (faithful views, pairwise distinct conn ids). -/
theorem arm_find (v : Views F G) (hv : Faithful v) (s : Full F G) (now : Nat) (l : FLink F)
    (hnd : (ids s.sys.links).Nodup) (hl : l ∈ (afterHk s.sys now).1.links) :
    (Classifier.classify s.cls (clsTick v (afterHk s.sys now).1.links)).2.perLink.find? (·.id == l.core.connId) =
      some (Classifier.verdictOf s.cls (clsTick v (afterHk s.sys now).1.links) (v.cls l)) := by
  have hnd' : ((afterHk s.sys now).1.links.map (·.core.connId)).Nodup := by
    have := afterHk_ids s.sys now
    unfold ids at this; rw [this]; exact hnd
  have hfind := find_map_nodup (afterHk s.sys now).1.links (·.core.connId)
    (fun l => Classifier.verdictOf s.cls (clsTick v (afterHk s.sys now).1.links) (v.cls l)) (·.id)
    (fun x => by rw [Classifier.verdictOf_id, hv.clsId]) hnd' l hl
  have hper : (Classifier.classify s.cls (clsTick v (afterHk s.sys now).1.links)).2.perLink =
      (afterHk s.sys now).1.links.map
        (fun l => Classifier.verdictOf s.cls (clsTick v (afterHk s.sys now).1.links) (v.cls l)) := by
    simp only [Classifier.classify, clsTick, List.map_map]; rfl
  rw [hper]; exact hfind

/-- **Conn id `id` leaves the arm run from `s` at `now` STAMPED share-weak**: a link with that conn id is present
after the arm and carries `weak = true` (the flag selection reads), and the reason the classification of this tick
reports for the id (`per_link.iter().find(..)`, the entry the stamping loop reads) is LowShare or NoTraffic.  (The
reason is not stamped on the connection; it is what the arm publishes with the verdict.) -/
def StampedShareWeak (v : Views F G) (s : Full F G) (now id : Nat) : Prop :=
  (∃ l' ∈ (hkArm v s now).1.sys.links, l'.core.connId = id ∧ l'.weak = true) ∧
  ∃ o, (Classifier.classify s.cls (clsTick v (afterHk s.sys now).1.links)).2.perLink.find? (·.id == id) = some o ∧
    (o.reason = .LowShare ∨ o.reason = .NoTraffic)

/-- A link after the arm is a link of the tick with its stamp, and its `weak` is the verdict for its readings. -/
theorem hkArm_mem_weak (v : Views F G) (hv : Faithful v) (s : Full F G) (now : Nat) (l' : FLink F)
    (hnd : (ids s.sys.links).Nodup) (hl' : l' ∈ (hkArm v s now).1.sys.links) :
    ∃ l ∈ (afterHk s.sys now).1.links, l'.core.connId = l.core.connId ∧
      l'.weak = (Classifier.verdictOf s.cls (clsTick v (afterHk s.sys now).1.links) (v.cls l)).weak := by
  rw [hkArm_links] at hl'
  obtain ⟨l, hl, rfl⟩ := List.mem_map.1 hl'
  refine ⟨l, hl, stamped_connId _ _, ?_⟩
  rw [stamped_weak, armStamp_weak, arm_find v hv s now l hnd hl]
  rfl

/-- A stamped share-weak verdict at the `n`-th tick of a run from a fresh filter is `shareWeakAt` of the run's
history at `n`. -/
theorem stampedShareWeak_history (v : Views F G) (hv : Faithful v) (s : Full F G)
    (hs : s.cls = Classifier.State.init) (es : List FEv) (hinv : Inv s.sys) (hf : FreshRun s.sys (trace v s es))
    (n id : Nat) (p : Full F G × Nat) (hp : (tickPts v s es)[n]? = some p)
    (hsw : StampedShareWeak v p.1 p.2 id) : C17.shareWeakAt (histOf (ticksOf v s es)) n id := by
  obtain ⟨h1, h2, hnd⟩ := tickPts_history v hv s hs es hinv hf n p hp
  obtain ⟨⟨l', hl', hid, hw⟩, o, ho, hr⟩ := hsw
  obtain ⟨l, hl, hid', hw'⟩ := hkArm_mem_weak v hv p.1 p.2 l' hnd hl'
  have hidl : l.core.connId = id := hid'.symm.trans hid
  rw [← hidl, arm_find v hv p.1 p.2 l hnd hl] at ho
  have ho' : Classifier.verdictOf p.1.cls (clsTick v (afterHk p.1.sys p.2).1.links) (v.cls l) = o :=
    Option.some.inj ho
  refine ⟨v.cls l, ?_, (hv.clsId l).trans hidl, ?_, ?_⟩
  · rw [h1]; exact List.mem_map.2 ⟨l, hl, rfl⟩
  · unfold Classifier.verdictAt; rw [h1, ← h2, ← hw']; exact hw
  · unfold Classifier.verdictAt; rw [h1, ← h2, ho']; exact hr

/-- **No conn id is STAMPED share-weak at 16 consecutive ticks of any run of the whole sender** (audit 5, A2: the
statement about the flags on the connections, not about an abstract history).  From a fresh filter
(`WeakLinkFilter::new()`, `hs`), pairwise distinct conn ids, reloads drawing new ids; ANY events between the ticks
(client / uplink / flush traffic, reloads, the pre-loop pass).  For every window of 16 consecutive ticks
`k, …, k+15` of the run (`tickPts`: the state each tick starts from) and every conn id: it is NOT the case that at
each of them a link with that id leaves the arm with `weak = true` and reported reason LowShare / NoTraffic.
Composition of `C17_arm_history` (as `tickPts_history`: the run's filter IS the history's), `C17_arm_weak_is_verdict`
(as `hkArm_mem_weak`: the stamped flag IS the verdict) and `C17.C17_at_most_15_in_a_row`.
Limits: a window that is not entirely inside the run (fewer than `k + 16` ticks) is excluded by the hypothesis, not
claimed; a filter that is not fresh at the start of the run is not covered (its stored streak may already be 14). -/
theorem C17_arm_at_most_15_in_a_row (v : Views F G) (hv : Faithful v) (s : Full F G)
    (hs : s.cls = Classifier.State.init) (es : List FEv) (hinv : Inv s.sys)
    (hf : FreshRun s.sys (trace v s es)) (k id : Nat) :
    ¬ (∀ j < 16, ∃ p, (tickPts v s es)[k + j]? = some p ∧ StampedShareWeak v p.1 p.2 id) := by
  intro h
  refine C17.C17_at_most_15_in_a_row _ (uniqueIds_histOf _ (ticks_nodup v hv s es hinv hf)) k id fun j hj => ?_
  obtain ⟨p, hp, hsw⟩ := h j hj
  exact stampedShareWeak_history v hv s hs es hinv hf _ id p hp hsw

/-- **… and then three not-weak ticks.**  If conn id `id` is stamped share-weak at the 15 consecutive ticks
`k, …, k+14` of a run (as above), then at each of the next three ticks `k+15+m` (`m < 3`) of the run at which the id
is still present — and was present at the ticks `k+15, …` before it — EVERY link with that conn id leaves the arm
with `weak = false`.  (`C17.C17_probation` through the arm; a link REMOVED in between has no "next verdicts", a link
re-added under the same id starts fresh - hence the presence hypothesis.) -/
theorem C17_arm_probation_three_ticks (v : Views F G) (hv : Faithful v) (s : Full F G)
    (hs : s.cls = Classifier.State.init) (es : List FEv) (hinv : Inv s.sys)
    (hf : FreshRun s.sys (trace v s es)) (k id : Nat)
    (hrun : ∀ j < 15, ∃ p, (tickPts v s es)[k + j]? = some p ∧ StampedShareWeak v p.1 p.2 id)
    (m : Nat) (hm : m < 3)
    (hpres : ∀ u < m, ∃ p, (tickPts v s es)[k + 15 + u]? = some p ∧ id ∈ ids p.1.sys.links)
    (p : Full F G × Nat) (hp : (tickPts v s es)[k + 15 + m]? = some p) :
    ∀ l' ∈ (hkArm v p.1 p.2).1.sys.links, l'.core.connId = id → l'.weak = false := by
  intro l' hl' hid
  obtain ⟨h1, h2, hnd⟩ := tickPts_history v hv s hs es hinv hf _ p hp
  obtain ⟨l, hl, hid', hw'⟩ := hkArm_mem_weak v hv p.1 p.2 l' hnd hl'
  have hu := uniqueIds_histOf _ (ticks_nodup v hv s es hinv hf)
  have key := C17.C17_probation (histOf (ticksOf v s es)) hu k id
    (fun j hj => by
      obtain ⟨q, hq, hsw⟩ := hrun j hj
      exact stampedShareWeak_history v hv s hs es hinv hf _ id q hq hsw)
    m hm
    (fun u hu' => by
      obtain ⟨q, hq, hin⟩ := hpres u hu'
      obtain ⟨g1, -, -⟩ := tickPts_history v hv s hs es hinv hf _ q hq
      refine Or.inr ?_
      rw [← afterHk_ids q.1.sys q.2] at hin
      obtain ⟨x, hx, hxid⟩ := List.mem_map.1 hin
      exact ⟨v.cls x, by rw [g1]; exact List.mem_map.2 ⟨x, hx, rfl⟩, (hv.clsId x).trans hxid⟩)
    (v.cls l) (by rw [h1]; exact List.mem_map.2 ⟨l, hl, rfl⟩) ((hv.clsId l).trans (hid'.symm.trans hid))
  rw [hw']
  have := key.1
  unfold Classifier.verdictAt at this
  rw [h1, ← h2] at this
  exact this

-- non-vacuity: the example run from a fresh filter has two ticks (at 5100 and 6100; a client datagram before, a
-- reload and an uplink datagram between them), i.e. a history with two slices of three resp. four links, and the
-- hypotheses `s.cls = init`, `Inv`, `FreshRun` of the two theorems hold of it.  The PREMISE "stamped share-weak at
-- 15 ticks" cannot be exhibited inside Lean (the classifier front end is `Float`, opaque to `decide`; `exViews`
-- reads 0.0 bit/s, so every Lean example tick is a bypass tick): that verdicts do change on the real code and the
-- model alike is shown by the harness counters `hkarm-weak-stamped`, `hkarm-classified` (component `sys`).
example : (ticksOf exViews { exF with cls := Classifier.State.init } exEvs).map List.length = [3, 4] ∧
    (tickPts exViews { exF with cls := Classifier.State.init } exEvs).map (·.2) = [5100, 6100] ∧
    ({ exF with cls := Classifier.State.init } : Full Int Rat).cls = Classifier.State.init ∧
    Inv ({ exF with cls := Classifier.State.init } : Full Int Rat).sys ∧
    FreshRun ({ exF with cls := Classifier.State.init } : Full Int Rat).sys
      (trace exViews { exF with cls := Classifier.State.init } exEvs) :=
  ⟨by decide +kernel, by decide +kernel, rfl, exF_inv, by decide +kernel⟩

/-! ## 3. C16 at arm level -/

section c16
open Srtla.LinkCc

theorem ids_hkArm (v : Views F G) (s : Full F G) (now : Nat) :
    ids (hkArm v s now).1.sys.links = ids s.sys.links := by
  rw [← afterHk_ids s.sys now, hkArm_links]
  simp only [ids, List.map_map]
  exact List.map_congr_left fun l _ => rfl

theorem mem_ccConns_iff (v : Views F G) (hv : Faithful v) (ls : List (FLink F)) (id : Nat) :
    (∃ c ∈ ccConns v ls, c.id = id) ↔ id ∈ ids ls := by
  simp only [ccConns, ids, List.mem_map]
  constructor
  · rintro ⟨c, ⟨l, hl, rfl⟩, rfl⟩; exact ⟨l, hl, (hv.ccId l).symm⟩
  · rintro ⟨l, hl, rfl⟩; exact ⟨v.cc l, ⟨l, hl, rfl⟩, hv.ccId l⟩

/-- **Entries after a tick = the conn ids of the links of that tick** (`per_conn.retain`): the controller holds an
entry for `id` after the arm iff a link with conn id `id` exists after the arm. -/
theorem C16_arm_entries_exact (v : Views F G) (hv : Faithful v) (s : Full F G) (now id : Nat) :
    ((hkArm v s now).1.ctl.get id).isSome = true ↔ id ∈ ids (hkArm v s now).1.sys.links := by
  rw [hkArm_ctl, tickAll_isSome_iff, mem_ccConns_iff v hv, ids_hkArm, afterHk_ids]

/-- **The stamped CC fields are the snapshot of the link's controller entry, which exists.**  For the link at index
`i` at the tick: after the arm the controller has an entry `st` for its conn id and the link carries
`cc_target_bps = st.target_bps`, `cc_backing_off = (st.state == BackingOff)`, `loss_degraded = st.loss_degraded`
(the `unwrap_or(0)` / `unwrap_or(false)` defaults are never taken for a present link). -/
theorem C16_arm_target_is_snapshot (v : Views F G) (hv : Faithful v) (s : Full F G) (now i : Nat) (l : FLink F)
    (hl : (afterHk s.sys now).1.links[i]? = some l) :
    ∃ l' st, (hkArm v s now).1.sys.links[i]? = some l' ∧ l'.core.connId = l.core.connId ∧
      (hkArm v s now).1.ctl.get l.core.connId = some st ∧
      l'.ccTarget = st.target ∧ l'.ccBackingOff = decide (st.state = .backingOff) ∧
      l'.lossDegraded = st.lossDegraded := by
  have hsome : ((hkArm v s now).1.ctl.get l.core.connId).isSome = true := by
    rw [hkArm_ctl, tickAll_isSome_iff, mem_ccConns_iff v hv]
    exact List.mem_map.2 ⟨l, List.mem_of_getElem? hl, rfl⟩
  obtain ⟨st, hst⟩ := Option.isSome_iff_exists.1 hsome
  have hst' : (tickAll s.ctl (ccConns v (afterHk s.sys now).1.links) now).get l.core.connId = some st := hst
  refine ⟨FLink.stamped l (armStamp v s now l.core.connId), st, ?_, stamped_connId _ _, hst, ?_, ?_, ?_⟩
  · rw [hkArm_get, hl]; rfl
  · rw [stamped_ccTarget]; unfold armStamp; rw [stampOf_ccTarget, hst']; rfl
  · rw [stamped_ccBackingOff]; unfold armStamp; rw [stampOf_ccBackingOff, hst']; rfl
  · rw [stamped_lossDegraded]; unfold armStamp; rw [stampOf_lossDegraded, hst']; rfl

/-- **A link the controller has no entry for starts from `LinkCongestionState::default()`** — never seen, or created
by a reload since the last tick (`C16_arm_reload_link_starts_default`): its entry after the arm is ONE loop body from
the default state, hence within bounds (`C16_fresh_entry_ctl` through the arm). -/
theorem C16_arm_fresh_from_default (v : Views F G) (hv : Faithful v) (s : Full F G) (now : Nat) (l : FLink F)
    (hnd : (ids s.sys.links).Nodup) (hl : l ∈ (afterHk s.sys now).1.links)
    (hg : s.ctl.get l.core.connId = none) :
    (hkArm v s now).1.ctl.get l.core.connId = some (connStep (St.default : St G) (v.cc l) now) ∧
    100000 ≤ (connStep (St.default : St G) (v.cc l) now).target ∧
    (connStep (St.default : St G) (v.cc l) now).target ≤ 200000000 := by
  obtain ⟨pre, post, hsplit⟩ := List.append_of_mem hl
  have hnd' : (ids (afterHk s.sys now).1.links).Nodup := by rw [afterHk_ids]; exact hnd
  rw [hsplit] at hnd'
  simp only [ids, List.map_append, List.map_cons] at hnd'
  rw [List.nodup_append] at hnd'
  obtain ⟨-, h2, h3⟩ := hnd'
  rw [List.nodup_cons] at h2
  have hpre : ∀ d ∈ pre.map v.cc, d.id ≠ (v.cc l).id := by
    intro d hd
    obtain ⟨x, hx, rfl⟩ := List.mem_map.1 hd
    rw [hv.ccId, hv.ccId]
    exact h3 _ (List.mem_map.2 ⟨x, hx, rfl⟩) _ List.mem_cons_self
  have hpost : ∀ d ∈ post.map v.cc, d.id ≠ (v.cc l).id := by
    intro d hd
    obtain ⟨x, hx, rfl⟩ := List.mem_map.1 hd
    rw [hv.ccId, hv.ccId]
    intro e
    exact h2.1 (e ▸ List.mem_map.2 ⟨x, hx, rfl⟩)
  have key := C16.C16_fresh_entry_ctl s.ctl (pre.map v.cc) (post.map v.cc) (v.cc l) now
    (by rw [hv.ccId]; exact hg) hpre hpost
  obtain ⟨k1, -, k3, k4, -⟩ := key
  refine ⟨?_, k3, k4⟩
  rw [hkArm_ctl, hsplit]
  simp only [ccConns, List.map_append, List.map_cons]
  rw [← hv.ccId l]
  exact k1

/-- Events other than ticks do not touch the filter or the controller. -/
theorem run_other_keeps (v : Views F G) (s : Full F G) (es : List FEv) (h : ∀ e ∈ es, ∃ e', e = FEv.other e') :
    (Full.run v s es).1.ctl = s.ctl ∧ (Full.run v s es).1.cls = s.cls := by
  induction es generalizing s with
  | nil => exact ⟨rfl, rfl⟩
  | cons e es ih =>
    obtain ⟨e', rfl⟩ := h e List.mem_cons_self
    exact ih _ fun x hx => h x (List.mem_cons_of_mem _ hx)

/-- **A link created by a reload starts from the default state.**  After a tick, let ANY events other than ticks
happen (client / uplink / flush traffic, reloads that remove and create links).  A link present at the next tick
whose conn id no link had right after the first tick — a link some reload created with a new id — has its controller
entry after the second tick equal to one loop body from `LinkCongestionState::default()`.  (`hnd`: the conn ids before
the second tick are pairwise distinct — `Full_run_inv`.) -/
theorem C16_arm_reload_link_starts_default (v : Views F G) (hv : Faithful v) (s : Full F G) (now1 now2 : Nat)
    (es : List FEv) (hes : ∀ e ∈ es, ∃ e', e = FEv.other e') (l : FLink F)
    (hnd : (ids (Full.run v (hkArm v s now1).1 es).1.sys.links).Nodup)
    (hl : l ∈ (afterHk (Full.run v (hkArm v s now1).1 es).1.sys now2).1.links)
    (hnew : l.core.connId ∉ ids (hkArm v s now1).1.sys.links) :
    (hkArm v (Full.run v (hkArm v s now1).1 es).1 now2).1.ctl.get l.core.connId =
      some (connStep (St.default : St G) (v.cc l) now2) := by
  refine (C16_arm_fresh_from_default v hv _ now2 l hnd hl ?_).1
  rw [(run_other_keeps v _ es hes).1]
  cases hg : (hkArm v s now1).1.ctl.get l.core.connId with
  | none => rfl
  | some st =>
    exact absurd ((C16_arm_entries_exact v hv s now1 l.core.connId).1 (by rw [hg]; rfl)) hnew

/-- The stamped target of a link is 0 (never stamped / link created since) or within [100 kbit/s, 200 Mbit/s]. -/
def TargetOk (l : FLink F) : Prop := l.ccTarget = 0 ∨ (100000 ≤ l.ccTarget ∧ l.ccTarget ≤ 200000000)

/-- Invariant of the whole sender for C16: the controller is reachable from `LinkCcController::new()` by `tick_all`
calls, and every link's stamped target is 0 or within bounds. -/
structure ArmInv (s : Full F G) : Prop where
  reach : CtlReach s.ctl
  targets : ∀ l ∈ s.sys.links, TargetOk l

theorem ArmInv_step (v : Views F G) (s : Full F G) (h : ArmInv s) (e : FEv) (hwf : e.wf = true) :
    ArmInv (Full.step v s e).1 := by
  cases e with
  | tick now =>
    refine ⟨CtlReach.tick _ now h.reach, fun l' hl' => ?_⟩
    have hr : CtlReach (tickAll s.ctl (ccConns v (afterHk s.sys now).1.links) now) := CtlReach.tick _ now h.reach
    have hl'' : l' ∈ (hkArm v s now).1.sys.links := hl'
    rw [hkArm_links] at hl''
    obtain ⟨l, -, rfl⟩ := List.mem_map.1 hl''
    unfold TargetOk
    rw [stamped_ccTarget]; unfold armStamp; rw [stampOf_ccTarget]
    cases hg : (tickAll s.ctl (ccConns v (afterHk s.sys now).1.links) now).get l.core.connId with
    | none => exact .inl rfl
    | some st =>
      have hb := C16.C16_bounds_ctl _ hr _ st hg
      exact .inr ⟨hb.1, hb.2.1⟩
  | other e =>
    refine ⟨h.reach, fun l' hl' => ?_⟩
    have hl'' : l' ∈ (step s.sys e).1.links := hl'
    by_cases hr : e.isReload = true
    · cases e with
      | reload rnow addrs outs =>
        rcases (mem_reload_iff s.sys rnow addrs outs l').1 hl'' with ⟨hold, -⟩ | ⟨k, a, id, -, -, rfl⟩
        · exact h.targets _ hold
        · exact .inl rfl
      | _ => cases hr
    · have hnr : e.isReload = false := by simpa using hr
      have hs : isStamp e = false := by cases e <;> first | rfl | cases hwf
      have hv := step_verdicts s.sys e hs hnr
      have : verdictsOf l' ∈ (step s.sys e).1.links.map verdictsOf := List.mem_map.2 ⟨l', hl'', rfl⟩
      rw [hv] at this
      obtain ⟨l, hl, he⟩ := List.mem_map.1 this
      have hct : l'.ccTarget = l.ccTarget := (congrArg Stamp.ccTarget he).symm
      unfold TargetOk; rw [hct]; exact h.targets l hl

/-- **Along every run of the whole sender the stamped target of every link is 0 or within
[100 000, 200 000 000] bit/s** — any interleaving of ticks with client / uplink / flush / reload / configuration /
injection events and bare `hk` / `syncTimeout` passes (`FEv.wf`, since audit 5 A4: only a BARE `stamp` - verdicts
that are inputs - is excluded; the pre-loop pass `[.other .syncTimeout, .other (.hk now0)]` of the real sender is a
well-formed prefix, example `exEvsPre`); from any state whose controller is reachable from
`LinkCcController::new()` and whose links carry admissible targets (start-up: empty controller, targets 0).  Every
scalar instance of the controller, in particular `Float` (`C16_bounds_ctl` through the arm).
LIMIT (audit 5, A3): the disjunct `ccTarget = 0` is allowed for every link at every time here; that 0 occurs only
for links created since the last tick, and that a non-zero target is the link's OWN entry's, is
`C16_arm_own_snapshot_run` below. -/
theorem C16_arm_bounds_run (v : Views F G) (s : Full F G) (h : ArmInv s) (es : List FEv)
    (hwf : ∀ e ∈ es, e.wf = true) :
    ArmInv (Full.run v s es).1 ∧
    ∀ l ∈ (Full.run v s es).1.sys.links, l.ccTarget = 0 ∨ (100000 ≤ l.ccTarget ∧ l.ccTarget ≤ 200000000) := by
  have key : ArmInv (Full.run v s es).1 := by
    induction es generalizing s with
    | nil => exact h
    | cons e es ih =>
      exact ih _ (ArmInv_step v s h e (hwf e List.mem_cons_self)) fun x hx => hwf x (List.mem_cons_of_mem _ hx)
  exact ⟨key, key.targets⟩

-- non-vacuity: the example state (non-default targets 1 000 000 on every link, a controller that went through a
-- `tick_all` and still holds the entry of a vanished id 5) satisfies the invariant, the example run is well-formed
example : ArmInv exF ∧ (∀ e ∈ exEvs, e.wf = true) ∧ (exF.ctl.get 5).isSome = true ∧
    exF.sys.links.map (·.ccTarget) = [1000000, 1000000, 1000000] := by
  refine ⟨⟨CtlReach.tick _ _ CtlReach.empty, ?_⟩, by decide, by decide +kernel, by decide +kernel⟩
  have : exF.sys.links.map (·.ccTarget) = [1000000, 1000000, 1000000] := by decide +kernel
  intro l hl
  have hm : l.ccTarget ∈ exF.sys.links.map (·.ccTarget) := List.mem_map.2 ⟨l, hl, rfl⟩
  rw [this] at hm
  simp only [List.mem_cons, List.not_mem_nil, or_false, or_self] at hm
  exact .inr (by omega)

-- non-vacuity of `C16_arm_entries_exact` / `C16_arm_reload_link_starts_default`: in the example run the reload
-- between the two ticks creates the links 7 and 8, which no link had after the first tick; the vanished id 5 is
-- collected by the first tick
example :
    ((hkArm exViews exF 5100).1.ctl.get 5).isSome = false ∧
    ids (hkArm exViews exF 5100).1.sys.links = [1, 2, 3] ∧
    ids (Full.run exViews (hkArm exViews exF 5100).1 [.other exReload]).1.sys.links = [1, 3, 7, 8] := by
  refine ⟨by decide +kernel, by decide +kernel, by decide +kernel⟩

/-- A run of the REAL sender starts with the pre-loop pass (`sync_conn_timeout; handle_housekeeping` once, without
classifier / controller / stamping loop - `run_sender_with_config`, "Run housekeeping once before entering the main
event loop"), then the loop events. -/
def exEvsPre : List FEv := [.other .syncTimeout, .other (.hk 4990)] ++ exEvs

-- non-vacuity (audit 5, A4): a run that starts with the pre-loop pass is well-formed (until audit 5 `FEv.wf` rejected
-- it), so `C16_arm_bounds_run` covers it; its trace is fresh, and it ends with the links 1, 3, 7, 8
example : (∀ e ∈ exEvsPre, e.wf = true) ∧ ArmInv (Full.run exViews exF exEvsPre).1 ∧
    FreshRun exF.sys (trace exViews exF exEvsPre) ∧
    ids (Full.run exViews exF exEvsPre).1.sys.links = [1, 3, 7, 8] := by
  have hinv : ArmInv exF := by
    refine ⟨CtlReach.tick _ _ CtlReach.empty, ?_⟩
    have : exF.sys.links.map (·.ccTarget) = [1000000, 1000000, 1000000] := by decide +kernel
    intro l hl
    have hm : l.ccTarget ∈ exF.sys.links.map (·.ccTarget) := List.mem_map.2 ⟨l, hl, rfl⟩
    rw [this] at hm
    simp only [List.mem_cons, List.not_mem_nil, or_false, or_self] at hm
    exact .inr (by omega)
  exact ⟨by decide, (C16_arm_bounds_run exViews exF hinv exEvsPre (by decide)).1, by decide +kernel,
    by decide +kernel⟩

/-! ### Run level: right after a tick every link carries the snapshot of ITS OWN entry (audit 5, A3)

`C16_arm_bounds_run` allows the stamped target 0 for every link at every time, so "the arm stamps 0 on every present
link" would satisfy it.  `C16_arm_target_is_snapshot` excludes that for ONE arm; this section lifts it to runs: right
after every tick of every run every link carries the snapshot of the controller entry of its OWN conn id (target
within bounds, never 0), and between ticks a link whose target is 0 has a conn id DRAWN BY A RELOAD SINCE THE LAST
TICK (created since; every other link still carries its own snapshot - the controller does not move between ticks). -/

/-- Link `l` carries the snapshot of the entry the controller `c` holds for ITS OWN conn id: target, back-off flag,
loss latch; the target is within [100 000, 200 000 000], in particular not 0. -/
def OwnSnap (c : Ctl G) (l : FLink F) : Prop :=
  ∃ st, c.get l.core.connId = some st ∧ l.ccTarget = st.target ∧
    l.ccBackingOff = decide (st.state = .backingOff) ∧ l.lossDegraded = st.lossDegraded ∧
    100000 ≤ l.ccTarget ∧ l.ccTarget ≤ 200000000

theorem OwnSnap_congr (c : Ctl G) (l l' : FLink F) (hid : l'.core.connId = l.core.connId)
    (hvd : verdictsOf l' = verdictsOf l) (h : OwnSnap c l) : OwnSnap c l' := by
  obtain ⟨st, h1, h2, h3, h4, h5, h6⟩ := h
  have e1 : l'.ccTarget = l.ccTarget := congrArg Stamp.ccTarget hvd
  have e2 : l'.ccBackingOff = l.ccBackingOff := congrArg Stamp.ccBackingOff hvd
  have e3 : l'.lossDegraded = l.lossDegraded := congrArg Stamp.lossDegraded hvd
  exact ⟨st, by rw [hid]; exact h1, by rw [e1]; exact h2, by rw [e2]; exact h3, by rw [e3]; exact h4,
    by rw [e1]; exact h5, by rw [e1]; exact h6⟩

/-- One arm from a reachable controller: every link after it carries its own snapshot. -/
theorem hkArm_ownSnap (v : Views F G) (hv : Faithful v) (s : Full F G) (hr : CtlReach s.ctl) (now : Nat) :
    ∀ l' ∈ (hkArm v s now).1.sys.links, OwnSnap (hkArm v s now).1.ctl l' := by
  intro l' hl'
  obtain ⟨i, hi⟩ := List.getElem?_of_mem hl'
  have hget := hkArm_get v s now i
  rw [hi] at hget
  cases hl : (afterHk s.sys now).1.links[i]? with
  | none => rw [hl] at hget; cases hget
  | some l =>
    obtain ⟨l'', st, g1, g2, g3, g4, g5, g6⟩ := C16_arm_target_is_snapshot v hv s now i l hl
    rw [hi] at g1
    obtain rfl : l' = l'' := Option.some.inj g1
    have hb := C16.C16_bounds_ctl (tickAll s.ctl (ccConns v (afterHk s.sys now).1.links) now)
      (CtlReach.tick _ now hr) _ st g3
    exact ⟨st, by rw [g2]; exact g3, g4, g5, g6, by rw [g4]; exact hb.1, by rw [g4]; exact hb.2.1⟩

/-- The controller stays reachable from `LinkCcController::new()` along every run (ticks are `tick_all` calls, no
other event touches it). -/
theorem run_reach (v : Views F G) (s : Full F G) (hr : CtlReach s.ctl) (es : List FEv) :
    CtlReach (Full.run v s es).1.ctl := by
  induction es generalizing s with
  | nil => exact hr
  | cons e es ih =>
    cases e with
    | tick now => exact ih _ (CtlReach.tick _ now hr)
    | other e => exact ih _ hr

theorem Full_run_append (v : Views F G) (s : Full F G) (a b : List FEv) :
    (Full.run v s (a ++ b)).1 = (Full.run v (Full.run v s a).1 b).1 := by
  induction a generalizing s with
  | nil => rfl
  | cons e a ih => exact ih _

/-- The conn ids a shell event draws: those of the successful bind attempts of a reload. -/
def drawnOf : Ev → List Nat
  | .reload _ _ outs => outs.filterMap id
  | _ => []

/-- The conn ids drawn by the reloads among a list of events of the whole sender. -/
def drawnIds (es : List FEv) : List Nat :=
  es.flatMap fun e => match e with
    | .other e => drawnOf e
    | .tick _ => []

theorem getElem?_of_map_eq {α β : Type} (f : α → β) (l1 l2 : List α) (h : l1.map f = l2.map f) (i : Nat) (x : α)
    (hx : l1[i]? = some x) : ∃ y, l2[i]? = some y ∧ f x = f y := by
  have h' : (l1.map f)[i]? = (l2.map f)[i]? := by rw [h]
  rw [List.getElem?_map, List.getElem?_map, hx] at h'
  cases hy : l2[i]? with
  | none => rw [hy] at h'; simp at h'
  | some y => rw [hy] at h'; exact ⟨y, rfl, by simpa using h'⟩

/-- One shell event that is not a bare stamp keeps "own snapshot of `c`, or 0 with a drawn conn id". -/
theorem other_step_snap (s : Sys F) (c : Ctl G) (D : List Nat) (e : Ev) (hs : isStamp e = false)
    (h : ∀ l ∈ s.links, OwnSnap c l ∨ (l.ccTarget = 0 ∧ l.core.connId ∈ D)) :
    ∀ l ∈ (step s e).1.links, OwnSnap c l ∨ (l.ccTarget = 0 ∧ l.core.connId ∈ D ++ drawnOf e) := by
  intro l' hl'
  have weaken : ∀ l : FLink F, (OwnSnap c l ∨ (l.ccTarget = 0 ∧ l.core.connId ∈ D)) →
      OwnSnap c l ∨ (l.ccTarget = 0 ∧ l.core.connId ∈ D ++ drawnOf e) := fun l hl =>
    hl.imp id fun ⟨a, b⟩ => ⟨a, List.mem_append_left _ b⟩
  by_cases hr : e.isReload = true
  · cases e with
    | reload rnow addrs outs =>
      rcases (mem_reload_iff s rnow addrs outs l').1 hl' with ⟨hold, -⟩ | ⟨k, a, id', -, hout, rfl⟩
      · exact weaken _ (h _ hold)
      · refine .inr ⟨rfl, List.mem_append_right _ ?_⟩
        exact List.mem_filterMap.2 ⟨some id', List.mem_of_getElem? hout, rfl⟩
    | _ => cases hr
  · have hnr : e.isReload = false := by simpa using hr
    obtain ⟨i, hi⟩ := List.getElem?_of_mem hl'
    obtain ⟨y1, hy1, e1⟩ := getElem?_of_map_eq _ _ _ (Hk.step_ids s e hnr) i l' hi
    obtain ⟨y2, hy2, e2⟩ := getElem?_of_map_eq _ _ _ (step_verdicts s e hs hnr) i l' hi
    obtain rfl : y1 = y2 := Option.some.inj (hy1.symm.trans hy2)
    rcases h y1 (List.mem_of_getElem? hy1) with ho | ⟨hz, hd⟩
    · exact .inl (OwnSnap_congr c y1 l' e1 e2 ho)
    · refine .inr ⟨?_, List.mem_append_left _ (e1 ▸ hd)⟩
      have : l'.ccTarget = y1.ccTarget := congrArg Stamp.ccTarget e2
      rw [this]; exact hz

/-- Events other than ticks and bare stamps: the controller stays, and every link carries its own snapshot of it or
carries 0 and has a conn id drawn by one of the reloads among the events. -/
theorem others_run_snap (v : Views F G) (s : Full F G) (D : List Nat) (es : List FEv)
    (hes : ∀ e ∈ es, ∃ e', e = FEv.other e' ∧ isStamp e' = false)
    (h : ∀ l ∈ s.sys.links, OwnSnap s.ctl l ∨ (l.ccTarget = 0 ∧ l.core.connId ∈ D)) :
    (Full.run v s es).1.ctl = s.ctl ∧
    ∀ l ∈ (Full.run v s es).1.sys.links, OwnSnap s.ctl l ∨ (l.ccTarget = 0 ∧ l.core.connId ∈ D ++ drawnIds es) := by
  induction es generalizing s D with
  | nil => exact ⟨rfl, fun l hl => (h l hl).imp id fun ⟨a, b⟩ => ⟨a, List.mem_append_left _ b⟩⟩
  | cons e es ih =>
    obtain ⟨e', rfl, hs⟩ := hes _ List.mem_cons_self
    have hstep := other_step_snap s.sys s.ctl D e' hs h
    have := ih (Full.step v s (.other e')).1 (D ++ drawnOf e')
      (fun x hx => hes x (List.mem_cons_of_mem _ hx)) hstep
    refine ⟨this.1, fun l hl => ?_⟩
    have hd : D ++ drawnIds (FEv.other e' :: es) = D ++ drawnOf e' ++ drawnIds es := by
      simp [drawnIds, List.flatMap_cons, List.append_assoc]
    rw [hd]
    exact this.2 l hl

/-- **Right after every tick of every run every link carries the snapshot of its OWN controller entry; 0 only occurs
for a link created since the last tick.**  From any state whose controller is reachable from
`LinkCcController::new()` (start-up: empty), after ANY events `es` and a tick (`s1`): every link's stamped
`cc_target_bps` / `cc_backing_off` / `loss_degraded` are the snapshot of the entry the controller holds for THAT
link's conn id, the target within [100 000, 200 000 000] - never 0, never another link's.  After any further events
`es'` up to the next tick (client / uplink / flush / reload / configuration …, no bare stamp; `s2`): the controller
is the one of `s1`, and every link still carries its own snapshot OR carries 0 and its conn id was drawn by a reload
among `es'` (`drawnIds`; with `FreshRun` that id was absent when drawn: a link created since the tick).
Faithful views; no `Inv` needed. -/
theorem C16_arm_own_snapshot_run (v : Views F G) (hv : Faithful v) (s : Full F G) (hr : CtlReach s.ctl)
    (es : List FEv) (now : Nat) (es' : List FEv)
    (hes' : ∀ e ∈ es', ∃ e', e = FEv.other e' ∧ isStamp e' = false) :
    (∀ l ∈ (Full.run v s (es ++ [.tick now])).1.sys.links, OwnSnap (Full.run v s (es ++ [.tick now])).1.ctl l) ∧
    (Full.run v s (es ++ [.tick now] ++ es')).1.ctl = (Full.run v s (es ++ [.tick now])).1.ctl ∧
    ∀ l ∈ (Full.run v s (es ++ [.tick now] ++ es')).1.sys.links,
      OwnSnap (Full.run v s (es ++ [.tick now] ++ es')).1.ctl l ∨
      (l.ccTarget = 0 ∧ l.core.connId ∈ drawnIds es') := by
  have h1 : ∀ l ∈ (Full.run v s (es ++ [.tick now])).1.sys.links,
      OwnSnap (Full.run v s (es ++ [.tick now])).1.ctl l := by
    rw [Full_run_append]
    exact hkArm_ownSnap v hv _ (run_reach v s hr es) now
  have h2 := others_run_snap v (Full.run v s (es ++ [.tick now])).1 [] es' hes' fun l hl => .inl (h1 l hl)
  rw [Full_run_append v s (es ++ [FEv.tick now]) es']
  refine ⟨h1, h2.1, fun l hl => ?_⟩
  rw [h2.1]
  simpa using h2.2 l hl

-- non-vacuity: in the example run the first tick (5100) leaves the three links 1, 2, 3 with the snapshot targets of
-- their own entries (not 0: the floor 100 000 for the fresh link 3); after the reload the created links 7, 8 carry 0,
-- and 7, 8 are exactly the ids the reload drew; the retained links keep theirs
example :
    (Full.run exViews exF ([.other (.client 5000 exData)] ++ [.tick 5100])).1.sys.links.map
        (fun l => (l.core.connId, decide (l.ccTarget = 0))) = [(1, false), (2, false), (3, false)] ∧
    (Full.run exViews exF ([.other (.client 5000 exData)] ++ [.tick 5100] ++ [.other exReload])).1.sys.links.map
        (fun l => (l.core.connId, decide (l.ccTarget = 0))) = [(1, false), (3, false), (7, true), (8, true)] ∧
    drawnIds [.other exReload] = [7, 8] ∧
    (∀ e ∈ [FEv.other exReload], ∃ e', e = FEv.other e' ∧ isStamp e' = false) ∧ CtlReach exF.ctl := by
  refine ⟨by decide +kernel, by decide +kernel, by decide, ?_, CtlReach.tick _ _ CtlReach.empty⟩
  intro e he
  simp only [List.mem_singleton] at he
  exact ⟨exReload, he, rfl⟩

end c16

/-! ## 4. The filter and the controller between ticks (audit 5, A10) -/

/-- **No event other than a tick touches the weak-link filter or the CC controller** - client / uplink / flush
traffic, configuration, the pre-loop pass, and in particular RELOADS: the stored rows (streaks, probation,
`prev_weak`) and controller entries of retained AND of removed conn ids are exactly what the last tick left; rows of
removed ids are dropped by the NEXT tick only (`nextRows` / `tick_all`'s `retain`).  So the verdicts of a tick depend
on the events since the previous tick only through the link slice the tick reads.  (`run_other_keeps` cited as a
theorem.  In the real loop the queued reload runs inside the tick, after the stamping loop and the stats publish;
`Full` lets it happen anywhere, a superset.) -/
theorem C17_arm_reload_keeps_filter (v : Views F G) (s : Full F G) (es : List FEv)
    (h : ∀ e ∈ es, ∃ e', e = FEv.other e') :
    (Full.run v s es).1.cls = s.cls ∧ (Full.run v s es).1.ctl = s.ctl :=
  ⟨(run_other_keeps v s es h).2, (run_other_keeps v s es h).1⟩

-- non-vacuity: a client datagram and the reload that REMOVES link 2: the filter still holds the stored row of conn
-- id 2 (streak 3), the controller its entry, although the link list is now 1, 3, 7, 8
example :
    (Full.run exViews exF [.other (.client 5000 exData), .other exReload]).1.cls =
      [(2, { prevWeak := true, weakStreak := 3 })] ∧
    ((Full.run exViews exF [.other (.client 5000 exData), .other exReload]).1.ctl.get 2).isSome = true ∧
    ids (Full.run exViews exF [.other (.client 5000 exData), .other exReload]).1.sys.links = [1, 3, 7, 8] := by
  have h : ∀ e ∈ [FEv.other (.client 5000 exData), FEv.other exReload], ∃ e', e = FEv.other e' := by
    intro e he
    simp only [List.mem_cons, List.not_mem_nil, or_false] at he
    rcases he with rfl | rfl
    · exact ⟨_, rfl⟩
    · exact ⟨_, rfl⟩
  obtain ⟨h1, h2⟩ := C17_arm_reload_keeps_filter exViews exF _ h
  refine ⟨h1, ?_, by decide +kernel⟩
  rw [h2]; decide +kernel

/-- A property of (conn id, the four verdict fields) that holds of every link, and of every freshly created link,
still holds after ONE shell event that is not a bare stamp: no such event writes a verdict field or a conn id, a
reload retains links whole or creates fresh ones. -/
theorem other_step_verdict_inv (s : Sys F) (Q : Nat → Stamp → Prop)
    (hnew : ∀ id a now, Q id (verdictsOf (FLink.newUplink id a now : FLink F))) (e : Ev) (hs : isStamp e = false)
    (h : ∀ l ∈ s.links, Q l.core.connId (verdictsOf l)) :
    ∀ l ∈ (step s e).1.links, Q l.core.connId (verdictsOf l) := by
  intro l' hl'
  by_cases hr : e.isReload = true
  · cases e with
    | reload rnow addrs outs =>
      rcases (mem_reload_iff s rnow addrs outs l').1 hl' with ⟨hold, -⟩ | ⟨k, a, id', -, -, rfl⟩
      · exact h _ hold
      · exact hnew id' a rnow
    | _ => cases hr
  · have hnr : e.isReload = false := by simpa using hr
    obtain ⟨i, hi⟩ := List.getElem?_of_mem hl'
    obtain ⟨y1, hy1, e1⟩ := getElem?_of_map_eq _ _ _ (Hk.step_ids s e hnr) i l' hi
    obtain ⟨y2, hy2, e2⟩ := getElem?_of_map_eq _ _ _ (step_verdicts s e hs hnr) i l' hi
    obtain rfl : y1 = y2 := Option.some.inj (hy1.symm.trans hy2)
    have := h y1 (List.mem_of_getElem? hy1)
    rw [← e1, ← e2] at this
    exact this

/-- … hence after any events other than ticks and bare stamps. -/
theorem others_run_verdict_inv (v : Views F G) (s : Full F G) (Q : Nat → Stamp → Prop)
    (hnew : ∀ id a now, Q id (verdictsOf (FLink.newUplink id a now : FLink F))) (es : List FEv)
    (hes : ∀ e ∈ es, ∃ e', e = FEv.other e' ∧ isStamp e' = false)
    (h : ∀ l ∈ s.sys.links, Q l.core.connId (verdictsOf l)) :
    ∀ l ∈ (Full.run v s es).1.sys.links, Q l.core.connId (verdictsOf l) := by
  induction es generalizing s with
  | nil => exact h
  | cons e es ih =>
    obtain ⟨e', rfl, hs⟩ := hes _ List.mem_cons_self
    exact ih (Full.step v s (.other e')).1 (fun x hx => hes x (List.mem_cons_of_mem _ hx))
      (other_step_verdict_inv s.sys Q hnew e' hs h)

/-- **A link that carries `weak = true` was CONNECTED at the last tick** (audit 5, A5: the run-level form of
`C17_arm_not_weak_when_disconnected`).  After a tick and ANY further events up to the next tick (client / uplink /
flush traffic, reloads, failed sends, REG_ERR …, no bare stamp): every link whose `weak` flag is set has the conn id
of a link that was `connected` when the tick classified it (after `handle_housekeeping`).  What is NOT claimed:
that it is STILL connected - `mark_for_recovery` between ticks clears `connected` and leaves `weak` until the next
tick.  A link created since the tick is not weak. -/
theorem C17_arm_weak_was_connected_at_last_tick (v : Views F G) (hv : Faithful v) (s : Full F G) (now : Nat)
    (hnd : (ids s.sys.links).Nodup) (es' : List FEv)
    (hes' : ∀ e ∈ es', ∃ e', e = FEv.other e' ∧ isStamp e' = false) :
    ∀ l ∈ (Full.run v (hkArm v s now).1 es').1.sys.links, l.weak = true →
      ∃ l0 ∈ (afterHk s.sys now).1.links, l0.core.connId = l.core.connId ∧ l0.core.connected = true := by
  have key := others_run_verdict_inv v (hkArm v s now).1
    (fun id st => st.weak = true →
      ∃ l0 ∈ (afterHk s.sys now).1.links, l0.core.connId = id ∧ l0.core.connected = true)
    (fun id a rnow hw => by cases hw) es' hes' ?_
  · exact fun l hl hw => key l hl hw
  · intro l' hl' hw
    obtain ⟨l, hl, hid, hw'⟩ := hkArm_mem_weak v hv s now l' hnd hl'
    refine ⟨l, hl, hid.symm, ?_⟩
    cases hc : l.core.connected with
    | true => rfl
    | false =>
      have hw'' : l'.weak = true := hw
      rw [hw'] at hw''
      unfold Classifier.verdictOf at hw''
      split at hw''
      · cases hw''
      · simp [hv.clsConnected, hc] at hw''

-- non-vacuity: hypotheses on the example state / events (distinct ids; a reload and an uplink datagram after the
-- tick); that a `weak = true` stamp occurs at all is shown by the harness counter `hkarm-weak-stamped` (A7)
example : (ids exF.sys.links).Nodup ∧
    (∀ e ∈ [FEv.other exReload, FEv.other (.uplink 5200 2 exData)], ∃ e', e = FEv.other e' ∧ isStamp e' = false) := by
  refine ⟨by decide +kernel, ?_⟩
  intro e he
  simp only [List.mem_cons, List.not_mem_nil, or_false] at he
  rcases he with rfl | rfl
  · exact ⟨_, rfl, rfl⟩
  · exact ⟨_, rfl, rfl⟩

end Srtla.Props.SysArm
