import Srtla.Model.Stall
import Srtla.Model.Link
import Srtla.Model.Sys
import Srtla.Lemmas.StallLatch
import Srtla.Lemmas.SelGate
import Srtla.Lemmas.SelShellLatch
import Srtla.Lemmas.SelShellHistory
import Srtla.Lemmas.ForwardStep
import Srtla.Props.C04
import Srtla.Props.C09
/-!
# C13 — stall latch: quick to drop, conservative to rejoin, never blind

Objects: `Srtla.Select.{effStale, isStalled, pullWindow, brieflySilent, updateSilencePull,
updateStallLatch, applyStallGate}` (model of `connection/mod.rs` 576-790 and
`selection/mod.rs::apply_stall_gate`, compared bit-for-bit with the real code by component `sel`).
All theorems are generic in the scalar type `F`: the smoothed RTT enters only through
`srttPos` (`srtt > 0`) and `srttTrunc` (`srtt as u64`).

History semantics for ONE link (`Srtla.StallLatch.Step`):
* `sel now minInf ceil` — a scheduling pass with the guard on
  (`updateStallLatch (updateSilencePull c …) …`, exactly what `applyStallGate` does to each link:
  `C13_gate_is_per_link_pass`);
* `selOff` — a pass with the guard off;
* `reset` — `reset_core_state`;
* `env e` — anything else: every field may change arbitrarily except the six fields that only the
  guard writes (`latchedSince, recoverySince, gateEvents, silencePulled, pullMark, silencePulls`);
  the proof stamp either keeps its value or becomes non-zero.
Times are arbitrary naturals: no monotonicity of the clock is assumed anywhere (subtractions are
the code's saturating subtractions).

"older than the window" is formalised as `age ≥ window` (the code's comparison).

Round 2 additions:
* §9 "out of rotation" at `select_connection_idx` level: `stall_gated ⇔ (latched ∨ pulled) ∧ a healthy
  link exists`, a gated link is never returned (both modes), and the exception — no healthy
  alternative ⇒ nobody is gated, the latched link stays eligible (C03) — is a theorem.
* §10 a single ACK never releases over ANY number of passes (the only place a monotone clock is used).
* §11 the alphabet is tied to the full link model (`Model/Link.lean`, `Model/Sys.lean`):
  `reset` = `reset_core_state`, `mark_for_recovery` / `reset_for_reconnect` = `reset ; env`,
  REG3 = `env`, the shell's scheduling step = `env ; sel|selOff ; env ; env`.

Round 3 addition:
* §12 the latch along runs of the validated shell (`Sys.step` / `Sys.run`, every event constructor):
  the latch fields of a link move only in the selection pass of a `client` event and by a tear-down
  (`C13_latch_fields_frame_sys`, `C13_latch_fields_client_sys`); engage / release / pull-release
  conditions in terms of the link's own fields and the shell's configuration at that event
  (`C13_engage_only_if_sys`, `C13_unlatch_only_by_sys`, `C13_release_iff_sys`,
  `C13_pull_release_only_if_heard_sys`); provenance of the proof stamp over all events
  (`C13_proof_stamp_sys`, citing `C09_proof_stamp`); the run invariant "no delivery proof since the
  last reset ⇒ not latched" (`C13_never_proof_never_latched_step/_run/_from_init`); a single ACK never
  releases along shell runs (`C13_single_ack_never_releases_sys_run`).
* §13 a shell run seen from one link IS a history of the step alphabet: the explicit history
  `SelShell.runSteps s evs j` (`C13_shell_run_is_history`, `C13_history_steps`), and with it the temporal
  dwell theorem over shell runs (`C13_release_only_after_dwell_sys_run`).
-/
namespace Srtla.Props.C13
open Srtla.Select Srtla.StallLatch Srtla

variable {F : Type}

/-- A concrete link used by the `example`s (scalar type `Unit`: the guard never looks at it). -/
def ex0 : SLink Unit := { srtt := (), rttMin := (), bitrate := (), qualMult := () }

/-! ## 1. The effective staleness window and the pull window -/

/-- `effective_stall_stale_ms = clamp(4 × smoothed RTT, 1000 ms, ceiling)`, the ceiling when there
is no RTT baseline. -/
theorem C13_effective_window (c : SLink F) (ceil : Nat) :
    effStale c ceil =
      if c.srttPos = true then min (max (4 * c.srttTrunc) 1000) ceil else ceil := by
  rw [effStale_eq]; cases c.srttPos <;> simp

example : effStale { ex0 with srttPos := true, srttTrunc := 300 } 3000 = 1200 := by decide
example : effStale { ex0 with srttPos := true, srttTrunc := 50 } 3000 = 1000 := by decide
example : effStale { ex0 with srttPos := true, srttTrunc := 2000 } 3000 = 3000 := by decide

/-- No RTT baseline: the configured ceiling. -/
theorem C13_effective_window_no_rtt (c : SLink F) (ceil : Nat) (h : c.srttPos = false) :
    effStale c ceil = ceil := by
  rw [C13_effective_window, h]; simp

example : effStale ex0 3000 = 3000 := by decide

/-- A ceiling configured below the 1000 ms floor wins, whatever the RTT. -/
theorem C13_effective_window_low_ceiling (c : SLink F) (ceil : Nat) (h : ceil < 1000) :
    effStale c ceil = ceil := by
  rw [C13_effective_window]; split <;> omega

example : effStale { ex0 with srttPos := true, srttTrunc := 50 } 500 = 500 := by decide

/-- The window is never above the ceiling, and with an RTT baseline and a ceiling of at least
1000 ms it is within `[1000, ceiling]`. -/
theorem C13_effective_window_range (c : SLink F) (ceil : Nat) :
    effStale c ceil ≤ ceil ∧ (c.srttPos = true → 1000 ≤ ceil → 1000 ≤ effStale c ceil) := by
  rw [C13_effective_window]; split <;> omega

/-- `silence_pull_window_ms = min(max(2 × RTT, 250), effective window)`; 250 without a baseline. -/
theorem C13_pull_window (c : SLink F) (ceil : Nat) :
    pullWindow c ceil =
      min (if c.srttPos = true then max (2 * c.srttTrunc) 250 else 250) (effStale c ceil) := by
  rw [pullWindow_eq]; cases c.srttPos <;> simp

example : pullWindow { ex0 with srttPos := true, srttTrunc := 300 } 3000 = 600 := by decide
example : pullWindow ex0 3000 = 250 := by decide
example : pullWindow { ex0 with srttPos := true, srttTrunc := 300 } 100 = 100 := by decide

/-! ## 2. Engaging the latch -/

/-- **Engage only if.**  A latch that is clear before `update_stall_latch` and set after it was
set because delivery proof exists, is at least one effective window old, and the link is connected
with a backlog of at least the threshold — or is held by the silence pull.  The engaging pass
stamps the latch with `now`, counts exactly one gate event and clears the recovery run. -/
theorem C13_engage_only_if (c : SLink F) (now : Nat) (minInf : Int) (ceil : Nat)
    (h0 : c.latchedSince = 0) (h1 : (updateStallLatch c now minInf ceil).latchedSince ≠ 0) :
    c.proofMs ≠ 0 ∧ now - c.proofMs ≥ effStale c ceil ∧
    ((c.connected = true ∧ c.inFlight ≥ minInf) ∨ c.silencePulled = true) ∧
    (updateStallLatch c now minInf ceil).latchedSince = now ∧
    (updateStallLatch c now minInf ceil).gateEvents = c.gateEvents + 1 ∧
    (updateStallLatch c now minInf ceil).recoverySince = 0 := by
  rcases latch_cases c now minInf ceil with ⟨ht, -, e⟩ | ⟨-, hl, -⟩ | ⟨-, -, e⟩ | ⟨-, hl, -⟩ |
      ⟨-, hl, -⟩ | ⟨-, hl, -⟩
  · rw [e]; exact ⟨ht.2.1, ht.2.2, ht.1, rfl, rfl, rfl⟩
  · exact absurd h0 hl
  · rw [e] at h1; exact absurd h0 h1
  · exact absurd h0 hl
  · exact absurd h0 hl
  · exact absurd h0 hl

example :
    let c := { ex0 with inFlight := 40, proofMs := 2000 }
    c.latchedSince = 0 ∧ (updateStallLatch c 5000 32 3000).latchedSince = 5000 ∧
    (updateStallLatch c 5000 32 3000).gateEvents = 1 := by decide

/-- The same for a whole pass (`update_silence_pull` then `update_stall_latch`), in terms of the
state *before* the pass.  Here the link is always connected — a pull that survives
`update_silence_pull` belongs to a connected link — and "pulled" is the pull state after the pull
update of the same pass (which is what the code reads). -/
theorem C13_engage_only_if_pass (c : SLink F) (now : Nat) (minInf : Int) (ceil : Nat)
    (h0 : c.latchedSince = 0) (h1 : (sel c now minInf ceil).latchedSince ≠ 0) :
    c.connected = true ∧ c.proofMs ≠ 0 ∧ now - c.proofMs ≥ effStale c ceil ∧
    (c.inFlight ≥ minInf ∨ (sel c now minInf ceil).silencePulled = true) ∧
    (sel c now minInf ceil).latchedSince = now ∧
    (sel c now minInf ceil).gateEvents = c.gateEvents + 1 ∧
    (sel c now minInf ceil).recoverySince = 0 := by
  obtain ⟨hL, -, hG, hP, -, -, hC, hI, -⟩ := usp_fields c now minInf ceil
  have hE := effStale_usp c now minInf ceil ceil
  have hp := sel_pulled c now minInf ceil
  obtain ⟨a1, a2, a3, a4, a5, a6⟩ :=
    C13_engage_only_if (updateSilencePull c now minInf ceil) now minInf ceil (hL.trans h0) h1
  rw [hP] at a1 a2; rw [hE] at a2; rw [hC, hI] at a3; rw [hG] at a5
  refine ⟨?_, a1, a2, ?_, a4, a5, a6⟩
  · rcases a3 with ⟨h, -⟩ | h
    · exact h
    · exact hC ▸ usp_pulled_connected c now minInf ceil h
  · rcases a3 with ⟨-, h⟩ | h
    · exact Or.inl h
    · exact Or.inr (hp.trans h)

/-- Escalation from the pull: drained backlog, but pulled and proof fully stale. -/
example :
    let c := { ex0 with inFlight := 0, proofMs := 2000, silencePulled := true, pullMark := some 1500,
                        lastReceived := some 1500 }
    c.latchedSince = 0 ∧ (sel c 5000 32 3000).latchedSince = 5000 := by decide

/-! ## 3. Never blind -/

/-- A link that has produced no delivery proof is not latched by a pass. -/
theorem C13_never_proved_never_latched (c : SLink F) (now : Nat) (minInf : Int) (ceil : Nat)
    (hp : c.proofMs = 0) (h0 : c.latchedSince = 0) :
    (updateStallLatch c now minInf ceil).latchedSince = 0 ∧ (sel c now minInf ceil).latchedSince = 0 := by
  constructor
  · exact Classical.byContradiction fun h =>
      (C13_engage_only_if c now minInf ceil h0 h).1 hp
  · exact Classical.byContradiction fun h =>
      (C13_engage_only_if_pass c now minInf ceil h0 h).2.1 hp

example :
    let c := { ex0 with inFlight := 5000, lastReceived := some 1 }
    c.proofMs = 0 ∧ (sel c 1000000 32 3000).latchedSince = 0 ∧
    (sel c 1000000 32 3000).silencePulled = true := by decide

/-- **Never blind, over histories.**  From any state in which "no proof ⇒ not latched" holds
(every fresh or reset link), it holds after every history of passes (guard on or off, any times
and settings), resets and arbitrary environment steps: a link whose proof stamp is 0 — it has
produced no delivery proof since it was created or last reset — is never latched. -/
theorem C13_never_proved_never_latched_trace (c0 : SLink F) (steps : List (Step F))
    (h0 : c0.proofMs = 0 → c0.latchedSince = 0) :
    (run c0 steps).proofMs = 0 → (run c0 steps).latchedSince = 0 :=
  neverInv_run c0 steps h0

example : (run ex0 [.sel 1000 32 3000, .env { ex0 with inFlight := 900, lastReceived := some 2 },
    .sel 9000 32 3000, .sel 19000 32 3000]).latchedSince = 0 := by decide

/-- A recovery run is recorded only while latched (auxiliary invariant). -/
theorem C13_recovery_only_while_latched (c0 : SLink F) (steps : List (Step F))
    (h0 : c0.latchedSince = 0 → c0.recoverySince = 0) :
    (run c0 steps).latchedSince = 0 → (run c0 steps).recoverySince = 0 :=
  recInv_run c0 steps h0

/-! ## 4. Releasing the latch: one step -/

/-- **Exactly when a pass releases.**  A pass un-latches a latched link iff its proof is fresh at
`now` and the recovery run (starting now if none is recorded) spans twice the effective window
evaluated at `now`.  Nothing else matters: not the backlog, not `connected`, not the pull. -/
theorem C13_release_iff (c : SLink F) (now : Nat) (minInf : Int) (ceil : Nat)
    (hl : c.latchedSince ≠ 0) :
    (sel c now minInf ceil).latchedSince = 0 ↔
      (c.proofMs ≠ 0 ∧ now - c.proofMs < effStale c ceil) ∧
      now - (if c.recoverySince = 0 then now else c.recoverySince) ≥ 2 * effStale c ceil := by
  rcases sel_latch_cases c now minInf ceil with ⟨-, h0, -⟩ | ⟨-, -, hf, e, -, -⟩ | ⟨h0, -⟩ |
      ⟨-, hf, e, -, -⟩ | ⟨-, hf, hd, e, -, -⟩ | ⟨-, hf, hd, e, -, -⟩
  · exact absurd h0 hl
  · rw [e]; exact ⟨fun h => absurd h hl, fun h => absurd h.1 hf⟩
  · exact absurd h0 hl
  · rw [e]; exact ⟨fun h => absurd h hl, fun h => absurd h.1 hf⟩
  · exact ⟨fun _ => ⟨hf, hd⟩, fun _ => e⟩
  · rw [e]
    refine ⟨fun h => absurd h hl, fun h => ?_⟩
    have := h.2; unfold runStart at hd; omega

/-- **One-step release lemma** (for `update_stall_latch` itself). -/
theorem C13_release_step (c : SLink F) (now : Nat) (minInf : Int) (ceil : Nat)
    (hl : c.latchedSince ≠ 0) (h1 : (updateStallLatch c now minInf ceil).latchedSince = 0) :
    (c.proofMs ≠ 0 ∧ now - c.proofMs < effStale c ceil) ∧
    now - (if c.recoverySince = 0 then now else c.recoverySince) ≥ 2 * effStale c ceil ∧
    (updateStallLatch c now minInf ceil).recoverySince = 0 := by
  rcases latch_cases c now minInf ceil with ⟨-, h0, -⟩ | ⟨-, -, e⟩ | ⟨-, h0, -⟩ | ⟨-, -, -, e⟩ |
      ⟨-, -, hf, hd, e⟩ | ⟨-, -, -, -, e⟩
  · exact absurd h0 hl
  · rw [e] at h1; exact absurd h1 hl
  · exact absurd h0 hl
  · rw [e] at h1; exact absurd h1 hl
  · rw [e]; exact ⟨hf, hd, rfl⟩
  · rw [e] at h1; exact absurd h1 hl

example :
    let c := { ex0 with latchedSince := 4000, recoverySince := 10000, proofMs := 15900, inFlight := 50 }
    (updateStallLatch c 16000 32 3000).latchedSince = 0 ∧
    (updateStallLatch c 15999 32 3000).latchedSince = 4000 := by decide

/-! ## 5. Releasing the latch: over histories -/

/-- **Release only after the dwell** (ghost form; the ghost `freshRunStart` is the one the harness
monitor keeps on the real code: set to `now` by the first pass that finds the link latched with
fresh proof, kept by every following such pass, erased by any pass that finds the proof stale or
missing, by a reset and by a guard-off pass; it never reads `recoverySince`).

For every start state whose ghost describes it (`LatchInv`; e.g. any un-latched link), every
history and every following pass that takes the link from latched to un-latched: the run of
passes with fresh proof that ends with this pass started at some `t0` with
`now − t0 ≥ 2 × window(now)`.  No assumption on the clock — not even `0 < now` (see
`C13_run_start_is_recovery_since` for what `0 < now` adds). -/
theorem C13_release_only_after_dwell (s0 : GState F) (h0 : LatchInv s0) (steps : List (Step F))
    (now : Nat) (minInf : Int) (ceil : Nat)
    (hl : (grun s0 steps).c.latchedSince ≠ 0)
    (hr : (gstep (grun s0 steps) (.sel now minInf ceil)).c.latchedSince = 0) :
    ∃ t0, (gstep (grun s0 steps) (.sel now minInf ceil)).g.freshRunStart = some t0 ∧
      now - t0 ≥ 2 * effStale (grun s0 steps).c ceil ∧
      ((grun s0 steps).c.proofMs ≠ 0 ∧ now - (grun s0 steps).c.proofMs < effStale (grun s0 steps).c ceil) := by
  have hinv := latchInv_run s0 steps h0
  generalize grun s0 steps = s at *
  change (sel s.c now minInf ceil).latchedSince = 0 at hr
  obtain ⟨hf, hd⟩ := (C13_release_iff s.c now minInf ceil hl).mp hr
  have hg : (gstep s (.sel now minInf ceil)).g.freshRunStart =
      if s.c.latchedSince ≠ 0 ∧ Fresh s.c now ceil then some (s.g.freshRunStart.getD now) else none := rfl
  rw [hg, if_pos ⟨hl, hf⟩]
  obtain ⟨i0, i1⟩ := hinv hl
  refine ⟨_, rfl, ?_, hf⟩
  by_cases hz : s.c.recoverySince = 0
  · rw [if_pos hz] at hd
    rcases i0 hz with e | e <;> rw [e] <;> simp only [Option.getD_none, Option.getD_some] <;> omega
  · rw [if_neg hz] at hd
    rcases i1 hz with e | e <;> rw [e] <;> simp only [Option.getD_some] <;> omega

/-- **The ghost means what it says.**  Whenever the ghost run start is `some t0`, the history ends
in a `FreshRun` from `t0`: a segment that begins with a pass at `t0`, in which *every* pass found
the link latched with fresh proof, and which contains no reset, no guard-off pass and no pass with
stale or missing proof.  Together with `C13_release_only_after_dwell`: proof was fresh at every
scheduling decision from `t0` to the releasing pass. -/
theorem C13_ghost_run_sound (s0 : GState F) (h0 : s0.g.freshRunStart = none) (steps : List (Step F))
    (t0 : Nat) (h : (grun s0 steps).g.freshRunStart = some t0) :
    ∃ pre suf, steps = pre ++ suf ∧ FreshRun (run s0.c pre) suf t0 (run s0.c steps) :=
  ghostRun_sound s0 h0 steps t0 h

/-- A full cycle: engage at 5000 (proof 2000 is 3000 old), ACK at 5500, fresh passes at 6000 and
11999 do not release (dwell 6000 from 6000), the pass at 12000 does. -/
example :
    let tr : List (Step Unit) :=
      [.env { ex0 with inFlight := 40, proofMs := 2000 }, .sel 5000 32 3000,
       .env { ex0 with inFlight := 0, proofMs := 5500 }, .sel 6000 32 3000,
       .env { ex0 with inFlight := 0, proofMs := 11000 }, .sel 11999 32 3000]
    (grun ⟨ex0, {}⟩ tr).c.latchedSince = 5000 ∧
    (grun ⟨ex0, {}⟩ tr).g.freshRunStart = some 6000 ∧
    (grun ⟨ex0, {}⟩ (tr ++ [.sel 12000 32 3000])).c.latchedSince = 0 := by decide

/-- **With `0 < now` at every pass** the code's `recoverySince` *is* the ghost run start
(`none` ↔ 0).  `0` is the code's "none" sentinel for both `latchedSince` and `recoverySince`; the
hypothesis is needed for this exact correspondence only, see the `example`s below. -/
theorem C13_run_start_is_recovery_since (s0 : GState F) (h0 : LatchInvPos s0)
    (steps : List (Step F)) (hok : ∀ st ∈ steps, st.timeOk)
    (hl : (grun s0 steps).c.latchedSince ≠ 0) :
    ((grun s0 steps).c.recoverySince = 0 → (grun s0 steps).g.freshRunStart = none) ∧
    ((grun s0 steps).c.recoverySince ≠ 0 →
      (grun s0 steps).g.freshRunStart = some (grun s0 steps).c.recoverySince) :=
  latchInvPos_run s0 steps hok h0 hl

/-- What happens at `now = 0` (a): a pass at time 0 that finds fresh proof on a latched link starts
a run for the ghost, but the code cannot record it (`recoverySince` stays 0 = "none"), so the code
restarts the dwell at the next pass — later than necessary, never earlier. -/
example :
    let s : GState Unit := ⟨{ ex0 with latchedSince := 7, proofMs := 1 }, {}⟩
    (gstep s (.sel 0 32 3000)).g.freshRunStart = some 0 ∧
    (gstep s (.sel 0 32 3000)).c.recoverySince = 0 := by decide

/-- What happens at `now = 0` (b): an engage at time 0 counts a gate event but stores
`latchedSince = 0`, i.e. the link is *not* latched (a liveness defect of the sentinel encoding at
clock value 0 only; `utils::now_ms()` is epoch-based, so 0 does not occur in practice).  None of
the safety theorems here is affected. -/
example :
    let c := { ex0 with inFlight := 40, proofMs := 5, srttPos := true, srttTrunc := 0 }
    (sel c 0 32 0).gateEvents = 1 ∧ (sel c 0 32 0).latchedSince = 0 := by decide

/-- **Release only after the dwell** (ghost-free form).  Take any start state that is not in the
middle of a recovery run, any history, and a following pass that un-latches.  Then the history
including that pass ends in a `FreshRun` — a segment whose first step is a pass at time `t0`, all of
whose passes found the link latched with fresh proof (each at its own time, RTT and ceiling), and
which contains nothing but such passes and environment steps (no reset, no guard-off pass, no pass
with stale or missing proof) — and `now − t0 ≥ 2 × window(now)`. -/
theorem C13_release_only_after_dwell_trace (c0 : SLink F)
    (h0 : c0.latchedSince ≠ 0 → c0.recoverySince = 0) (steps : List (Step F))
    (now : Nat) (minInf : Int) (ceil : Nat)
    (hl : (run c0 steps).latchedSince ≠ 0)
    (hr : (run c0 (steps ++ [.sel now minInf ceil])).latchedSince = 0) :
    ∃ pre suf t0, steps ++ [.sel now minInf ceil] = pre ++ suf ∧
      FreshRun (run c0 pre) suf t0 (run c0 (steps ++ [.sel now minInf ceil])) ∧
      now - t0 ≥ 2 * effStale (run c0 steps) ceil := by
  rw [run_snoc] at hr ⊢
  change (sel (run c0 steps) now minInf ceil).latchedSince = 0 at hr
  obtain ⟨hf, hd⟩ := (C13_release_iff _ now minInf ceil hl).mp hr
  by_cases hz : (run c0 steps).recoverySince = 0
  · rw [if_pos hz] at hd
    exact ⟨steps, [.sel now minInf ceil], now, rfl, FreshRun.start _ now minInf ceil hl hf, hd⟩
  · rw [if_neg hz] at hd
    obtain ⟨pre, suf, hsplit, hrun⟩ := freshRun_inv c0 h0 steps hl hz
    exact ⟨pre, suf ++ [.sel now minInf ceil], _, by rw [hsplit, List.append_assoc],
      FreshRun.sel now minInf ceil hrun hl hf, hd⟩

/-- **Only a pass, a reset or switching the guard off un-latches**; and a pass only under
`C13_release_iff`. -/
theorem C13_unlatch_only_by (c : SLink F) (st : Step F) (hl : c.latchedSince ≠ 0)
    (hr : (step c st).latchedSince = 0) :
    (∃ now minInf ceil, st = .sel now minInf ceil) ∨ st = .reset ∨ st = .selOff := by
  cases st with
  | sel now m cl => exact Or.inl ⟨now, m, cl, rfl⟩
  | selOff => exact Or.inr (Or.inr rfl)
  | reset => exact Or.inr (Or.inl rfl)
  | env e => exact absurd hr hl

/-- **A single ACK (or keepalive echo) does not release.**  A latched link with no recovery run
recorded (`recoverySince = 0`: the previous pass did not see fresh proof) is still latched after
the next pass, whatever happened in between (`env e`: proof earned, backlog drained, RTT changed …)
and whatever the time, threshold and ceiling of the pass.  Unconditional: if the effective window
is 0 (⟺ ceiling 0) proof can never be fresh, otherwise the dwell `2 × window > 0` cannot have
elapsed in a run that starts now. -/
theorem C13_single_ack_does_not_release (c e : SLink F) (now : Nat) (minInf : Int) (ceil : Nat)
    (hl : c.latchedSince ≠ 0) (hr : c.recoverySince = 0) :
    (sel (envStep c e) now minInf ceil).latchedSince ≠ 0 ∧
    (sel c now minInf ceil).latchedSince ≠ 0 := by
  have key : ∀ d : SLink F, d.latchedSince ≠ 0 → d.recoverySince = 0 →
      (sel d now minInf ceil).latchedSince ≠ 0 := by
    intro d hdl hdr h
    obtain ⟨hf, hd⟩ := (C13_release_iff d now minInf ceil hdl).mp h
    rw [if_pos hdr] at hd
    omega
  exact ⟨key (envStep c e) hl hr, key c hl hr⟩

example :
    let c := { ex0 with latchedSince := 4000, proofMs := 100 }
    (sel (envStep c { ex0 with proofMs := 9999 }) 10000 32 3000).latchedSince = 4000 ∧
    (sel (envStep c { ex0 with proofMs := 9999 }) 10000 32 3000).recoverySince = 10000 := by decide

/-- With a ceiling of 0 a pass never releases (the window is 0, proof is never "fresh"). -/
theorem C13_zero_ceiling_never_releases (c : SLink F) (now : Nat) (minInf : Int)
    (hl : c.latchedSince ≠ 0) : (sel c now minInf 0).latchedSince ≠ 0 := by
  intro h
  obtain ⟨hf, -⟩ := (C13_release_iff c now minInf 0 hl).mp h
  have := effStale_le_ceil c 0
  omega

/-- **A draining backlog does not release.**  Whether a pass releases a latched link does not
depend on its in-flight count (nor on `connected`, the pull state, or anything but proof age, RTT
baseline and `recoverySince`). -/
theorem C13_drain_does_not_release (c : SLink F) (x : Int) (now : Nat) (minInf : Int) (ceil : Nat)
    (hl : c.latchedSince ≠ 0) :
    (sel { c with inFlight := x } now minInf ceil).latchedSince = 0 ↔
      (sel c now minInf ceil).latchedSince = 0 := by
  rw [C13_release_iff c now minInf ceil hl, C13_release_iff { c with inFlight := x } now minInf ceil hl]
  exact Iff.rfl

example :
    let c := { ex0 with latchedSince := 4000, proofMs := 100, inFlight := 50 }
    (sel { c with inFlight := 0 } 10000 32 3000).latchedSince = 4000 := by decide

/-! ## 6. Releasing the silence pull -/

/-- **Pull release, one step.**  `update_silence_pull` clears a held pull only if the link was
heard since the pull engaged (`lastReceived` differs from the mark) or is disconnected. -/
theorem C13_pull_release_only_if_heard (c : SLink F) (now : Nat) (minInf : Int) (ceil : Nat)
    (hp : c.silencePulled = true) (hq : (updateSilencePull c now minInf ceil).silencePulled = false) :
    c.lastReceived ≠ c.pullMark ∨ c.connected = false := by
  rcases pull_cases c now minInf ceil with ⟨-, h0, -⟩ | ⟨-, -, e⟩ | ⟨-, h0, -⟩ | ⟨-, -, hk, -⟩ |
      ⟨-, -, -, -, e⟩
  · rw [hp] at h0; cases h0
  · rw [e, hp] at hq; cases hq
  · rw [hp] at h0; cases h0
  · rcases hk with hk | hk
    · exact Or.inl hk.1
    · exact Or.inr hk
  · rw [e, hp] at hq; cases hq

/-- More precisely: heard *and recently* (within the pull window), or disconnected. -/
theorem C13_pull_release_iff (c : SLink F) (now : Nat) (minInf : Int) (ceil : Nat)
    (hp : c.silencePulled = true) :
    (updateSilencePull c now minInf ceil).silencePulled = false ↔
      ¬ Silent c now minInf ceil ∧
      ((c.lastReceived ≠ c.pullMark ∧ ∃ lr, c.lastReceived = some lr ∧ now - lr < pullWindow c ceil) ∨
        c.connected = false) := by
  rcases pull_cases c now minInf ceil with ⟨-, h0, -⟩ | ⟨hs, -, e⟩ | ⟨-, h0, -⟩ | ⟨hs, -, hk, e⟩ |
      ⟨-, -, hk, hc, e⟩
  · rw [hp] at h0; cases h0
  · rw [e, hp]; exact ⟨fun h => (by cases h), fun h => absurd hs h.1⟩
  · rw [hp] at h0; cases h0
  · rw [e]; exact ⟨fun _ => ⟨hs, hk⟩, fun _ => rfl⟩
  · rw [e, hp]
    refine ⟨fun h => (by cases h), fun h => ?_⟩
    rcases h.2 with h' | h'
    · exact absurd h' hk
    · rw [hc] at h'; cases h'

example :
    let c := { ex0 with silencePulled := true, pullMark := some 1000, lastReceived := some 1000,
                        inFlight := 0, srttPos := true, srttTrunc := 5000 }
    -- RTT widened the window to 3000, `lastReceived` is "recent" again, but it never moved: held
    (updateSilencePull c 1400 32 3000).silencePulled = true ∧
    (updateSilencePull { c with lastReceived := some 1390 } 1400 32 3000).silencePulled = false := by
  decide

/-- The engaging step records `lastReceived` as the mark and counts exactly one pull. -/
theorem C13_pull_engage_marks (c : SLink F) (now : Nat) (minInf : Int) (ceil : Nat)
    (hp : c.silencePulled = false) (hq : (updateSilencePull c now minInf ceil).silencePulled = true) :
    (updateSilencePull c now minInf ceil).pullMark = c.lastReceived ∧
    (updateSilencePull c now minInf ceil).silencePulls = c.silencePulls + 1 := by
  rcases pull_cases c now minInf ceil with ⟨-, -, e⟩ | ⟨-, h0, -⟩ | ⟨-, -, e⟩ | ⟨-, h0, -⟩ | ⟨-, h0, -⟩
  · rw [e]; exact ⟨rfl, rfl⟩
  · rw [hp] at h0; cases h0
  · rw [e, hp] at hq; cases hq
  · rw [hp] at h0; cases h0
  · rw [hp] at h0; cases h0

/-- **Pull release over histories** (ghost form; ghost `lrAtPull` = the `lastReceived` the engaging
pass saw, as kept by the harness monitor).  Whatever step clears a held pull is a reset, a
guard-off pass, or a pass that sees the link disconnected or sees a `lastReceived` different from
the one the engaging pass saw.  Environment steps (RTT samples, drained backlog, ACKs on other
links …) never clear it. -/
theorem C13_pull_release_only_if_heard_trace (s0 : GState F) (h0 : PullInv s0) (steps : List (Step F))
    (st : Step F)
    (hp : (grun s0 steps).c.silencePulled = true)
    (hq : (gstep (grun s0 steps) st).c.silencePulled = false) :
    (∃ now minInf ceil lr0, st = .sel now minInf ceil ∧ (grun s0 steps).g.lrAtPull = some lr0 ∧
        ((grun s0 steps).c.lastReceived ≠ lr0 ∨ (grun s0 steps).c.connected = false)) ∨
    st = .reset ∨ st = .selOff := by
  have hinv := pullInv_run s0 steps h0
  generalize grun s0 steps = s at *
  cases st with
  | selOff => exact Or.inr (Or.inr rfl)
  | reset => exact Or.inr (Or.inl rfl)
  | env e =>
    change s.c.silencePulled = false at hq
    rw [hp] at hq; cases hq
  | sel now m cl =>
    left
    change (sel s.c now m cl).silencePulled = false at hq
    rw [sel_pulled] at hq
    exact ⟨now, m, cl, s.c.pullMark, rfl, hinv hp, C13_pull_release_only_if_heard s.c now m cl hp hq⟩

/-- **Pull release over histories** (ghost-free form): from an un-pulled start, if a pass clears
the pull then the history ends in a `PullHeld` segment — engaging pass first, then only passes that
keep the pull and environment steps — and the releasing pass sees the link disconnected or a
`lastReceived` different from the one the engaging pass saw. -/
theorem C13_pull_release_only_if_heard_held (c0 : SLink F) (h0 : c0.silencePulled = false)
    (steps : List (Step F)) (now : Nat) (minInf : Int) (ceil : Nat)
    (hp : (run c0 steps).silencePulled = true)
    (hq : (run c0 (steps ++ [.sel now minInf ceil])).silencePulled = false) :
    ∃ pre suf lr0, steps = pre ++ suf ∧ PullHeld (run c0 pre) suf lr0 (run c0 steps) ∧
      ((run c0 steps).lastReceived ≠ lr0 ∨ (run c0 steps).connected = false) := by
  rw [run_snoc] at hq
  change (sel (run c0 steps) now minInf ceil).silencePulled = false at hq
  rw [sel_pulled] at hq
  obtain ⟨pre, suf, hsplit, hheld⟩ := pullHeld_inv c0 h0 steps hp
  exact ⟨pre, suf, _, hsplit, hheld, C13_pull_release_only_if_heard _ now minInf ceil hp hq⟩

example :
    let tr : List (Step Unit) :=
      [.env { ex0 with inFlight := 40, lastReceived := some 1000 }, .sel 1250 32 3000,
       .env { ex0 with inFlight := 0, lastReceived := some 1000, srttPos := true, srttTrunc := 5000 },
       .sel 1400 32 3000]
    (grun ⟨ex0, {}⟩ tr).c.silencePulled = true ∧ (grun ⟨ex0, {}⟩ tr).g.lrAtPull = some (some 1000) ∧
    (grun ⟨ex0, {}⟩ (tr ++ [.env { ex0 with lastReceived := some 1450 }, .sel 1500 32 3000])).c.silencePulled
      = false := by decide

/-! ## 7. Engaging the silence pull -/

/-- **Pull engage only if**: rising edge ⇒ connected, loaded, heard at least once, and silent for
at least the pull window. -/
theorem C13_pull_engage_only_if (c : SLink F) (now : Nat) (minInf : Int) (ceil : Nat)
    (hp : c.silencePulled = false) (hq : (updateSilencePull c now minInf ceil).silencePulled = true) :
    c.connected = true ∧ c.inFlight ≥ minInf ∧
    ∃ lr, c.lastReceived = some lr ∧ now - lr ≥ pullWindow c ceil := by
  rcases pull_cases c now minInf ceil with ⟨hs, -, -⟩ | ⟨-, h0, -⟩ | ⟨-, -, e⟩ | ⟨-, h0, -⟩ | ⟨-, h0, -⟩
  · exact hs
  · rw [hp] at h0; cases h0
  · rw [e, hp] at hq; cases hq
  · rw [hp] at h0; cases h0
  · rw [hp] at h0; cases h0

example :
    let c := { ex0 with inFlight := 32, lastReceived := some 1000 }
    (updateSilencePull c 1249 32 3000).silencePulled = false ∧
    (updateSilencePull c 1250 32 3000).silencePulled = true ∧
    (updateSilencePull c 1250 32 3000).silencePulls = 1 := by decide

/-! ## 8. The real entry point -/

/-- **`apply_stall_gate` is `sel` (guard on) / `selOff` (guard off) on every link**, up to the
refresh of `connTimeoutMs` before and the stamp of `stallGated` after — two fields no theorem above
reads.  Hence each link's projection of any sequence of `apply_stall_gate` calls interleaved with
arbitrary other code is a history in the sense of `Step`, and sections 2-7 are theorems about the
real entry point. -/
theorem C13_gate_is_per_link_pass (ls : List (SLink F)) (now : Nat) (cfg : Cfg) (i : Nat)
    (hi : i < ls.length) :
    ∃ e1 e2 : SLink F,
      (applyStallGate ls now cfg)[i]? = some (run ls[i]
        [.env e1,
         if cfg.stallDeselect = true then .sel now cfg.stallMinInFlight cfg.stallCeilingMs else .selOff,
         .env e2]) := by
  by_cases h : cfg.stallDeselect = true
  · obtain ⟨a, ha⟩ := StallLatch.applyStallGate_on ls now cfg h
    rw [ha, if_pos h, List.getElem?_map, List.getElem?_eq_getElem hi]
    refine ⟨{ ls[i] with connTimeoutMs := cfg.connTimeoutMs },
      gateStamp a (sel { ls[i] with connTimeoutMs := cfg.connTimeoutMs } now cfg.stallMinInFlight
        cfg.stallCeilingMs), ?_⟩
    simp only [Option.map_some, run, List.foldl_cons, List.foldl_nil, step]
    rw [envStep_setTimeout, envStep_gateStamp]
  · have h' : cfg.stallDeselect = false := by simpa using h
    rw [StallLatch.applyStallGate_off ls now cfg h', if_neg h, List.getElem?_map, List.getElem?_eq_getElem hi]
    refine ⟨{ ls[i] with connTimeoutMs := cfg.connTimeoutMs },
      selOff { ls[i] with connTimeoutMs := cfg.connTimeoutMs }, ?_⟩
    simp only [Option.map_some, run, List.foldl_cons, List.foldl_nil, step]
    rw [envStep_setTimeout, envStep_self]

/-- The guard-private fields of link `i` after `apply_stall_gate` (guard on) are those of
`sel` on that link. -/
theorem C13_gate_private_fields (ls : List (SLink F)) (now : Nat) (cfg : Cfg) (i : Nat)
    (hi : i < ls.length) (h : cfg.stallDeselect = true) :
    ∃ c', (applyStallGate ls now cfg)[i]? = some c' ∧
      let p := sel { ls[i] with connTimeoutMs := cfg.connTimeoutMs } now cfg.stallMinInFlight
        cfg.stallCeilingMs
      c'.latchedSince = p.latchedSince ∧ c'.recoverySince = p.recoverySince ∧
      c'.gateEvents = p.gateEvents ∧ c'.silencePulled = p.silencePulled ∧
      c'.pullMark = p.pullMark ∧ c'.silencePulls = p.silencePulls := by
  obtain ⟨a, ha⟩ := StallLatch.applyStallGate_on ls now cfg h
  rw [ha, List.getElem?_map, List.getElem?_eq_getElem hi]
  exact ⟨_, rfl, rfl, rfl, rfl, rfl, rfl, rfl⟩

example :
    let l0 := { ex0 with inFlight := 40, proofMs := 2000 }
    ((applyStallGate [l0, ex0] 5000 {}).map (·.latchedSince)) = [5000, 0] ∧
    ((applyStallGate [l0, ex0] 5000 {}).map (·.stallGated)) = [true, false] := by decide

/-! ## 9. "Out of rotation" and "rejoins", at the level of `select_connection_idx`

Sections 2-8 speak about `latchedSince` / `silencePulled`.  What takes a link out of the rotation is
the flag `stall_gated` that `apply_stall_gate` stamps at the end of every pass:
`stall_gated = any_healthy && (latched || pulled)`, and both selectors skip a `stall_gated` link.
So the precise meaning of the property's "out of rotation" is

  *a latched (or silence-pulled) link is never preferred over a healthy link*;

it is NOT "a latched link is never routed": when no healthy alternative exists the latched link is
not gated and competes like any other link — which is exactly what C03 (no blackout) demands.
All statements below are about the state and the decision `select_connection_idx` leaves behind,
in BOTH modes, for any scalar instance (`Float` included). -/

/-- The *healthy alternative* of `apply_stall_gate` (`any_healthy`): connected, not timed out,
registered, not latched and not silence-pulled. -/
def Healthy (c : SLink F) (now : Nat) : Prop :=
  c.connected = true ∧ isTimedOut c now = false ∧ c.phase ≠ .registering ∧
    c.latchedSince = 0 ∧ c.silencePulled = false

theorem healthy_iff (c : SLink F) (now : Nat) : healthy now c = true ↔ Healthy c now := by
  unfold healthy Healthy schedulable latched
  simp only [Bool.and_eq_true, Bool.not_eq_true', bne_iff_ne, ne_eq, bne_eq_false_iff_eq]
  constructor
  · rintro ⟨⟨⟨⟨h1, h2⟩, h3⟩, h4⟩, h5⟩; exact ⟨h1, h2, h3, h4, h5⟩
  · rintro ⟨h1, h2, h3, h4, h5⟩; exact ⟨⟨⟨⟨h1, h2⟩, h3⟩, h4⟩, h5⟩

section rotation
variable [Scalar F]

/-- **What `stall_gated` means after a pass with the guard on** (either mode): a link is gated iff
it is latched or silence-pulled AND some link of the same pass is healthy. -/
theorem C13_gated_iff (ls : List (SLink F)) (last : Option Nat) (now : Nat) (cfg : Cfg)
    (hon : cfg.stallDeselect = true) (c : SLink F) (hc : c ∈ (selectIdx ls last now cfg).1) :
    c.stallGated = true ↔
      (c.latchedSince ≠ 0 ∨ c.silencePulled = true) ∧
      ∃ d ∈ (selectIdx ls last now cfg).1, Healthy d now := by
  rw [selectIdx_on_gated ls last now cfg hon c hc]
  simp only [Bool.and_eq_true, Bool.or_eq_true, List.any_eq_true, latched, bne_iff_ne, ne_eq]
  constructor
  · rintro ⟨⟨d, hd, hh⟩, hl⟩; exact ⟨hl, d, hd, (healthy_iff d now).1 hh⟩
  · rintro ⟨hl, d, hd, hh⟩; exact ⟨⟨d, hd, (healthy_iff d now).2 hh⟩, hl⟩

/-- **A stall-gated link is never the returned index** — classic or enhanced mode, quality scoring
on or off, also on the hysteresis path (`last = some i`), guard on or off (reuses
`C04_selector_eligible`). -/
theorem C13_gated_never_selected (ls : List (SLink F)) (last : Option Nat) (now : Nat) (cfg : Cfg)
    (i : Nat) (c : SLink F) (hc : (selectIdx ls last now cfg).1[i]? = some c)
    (hg : c.stallGated = true) : (selectIdx ls last now cfg).2 ≠ some i := by
  intro h
  obtain ⟨c', hc', -, -, hg', -⟩ := C04.C04_selector_eligible ls last now cfg i h
  rw [hc] at hc'
  cases hc'
  rw [hg] at hg'
  cases hg'

/-- **Out of rotation.**  After a selection pass with the guard on, a link that is latched
(`latchedSince ≠ 0`) or silence-pulled is `stall_gated` IFF a healthy alternative exists among the
links of the pass; a `stall_gated` link is not the returned index; hence a latched / pulled link is
never returned while a healthy link exists — in both modes, whatever `last` is. -/
theorem C13_latched_out_of_rotation (ls : List (SLink F)) (last : Option Nat) (now : Nat) (cfg : Cfg)
    (hon : cfg.stallDeselect = true) (i : Nat) (c : SLink F)
    (hc : (selectIdx ls last now cfg).1[i]? = some c)
    (hl : c.latchedSince ≠ 0 ∨ c.silencePulled = true) :
    (c.stallGated = true ↔ ∃ d ∈ (selectIdx ls last now cfg).1, Healthy d now) ∧
    (c.stallGated = true → (selectIdx ls last now cfg).2 ≠ some i) ∧
    ((∃ d ∈ (selectIdx ls last now cfg).1, Healthy d now) → (selectIdx ls last now cfg).2 ≠ some i) := by
  have hmem : c ∈ (selectIdx ls last now cfg).1 := List.mem_of_getElem? hc
  have hiff := C13_gated_iff ls last now cfg hon c hmem
  have hns := C13_gated_never_selected ls last now cfg i c hc
  exact ⟨⟨fun h => (hiff.1 h).2, fun h => hiff.2 ⟨hl, h⟩⟩, hns, fun h => hns (hiff.2 ⟨hl, h⟩)⟩

/-- Contrapositive reading ("never preferred over a healthy link"): if the pass returns a latched
or pulled link then NO link of the pass was healthy. -/
theorem C13_selected_latched_only_without_alternative (ls : List (SLink F)) (last : Option Nat) (now : Nat)
    (cfg : Cfg) (hon : cfg.stallDeselect = true) (i : Nat) (c : SLink F)
    (hc : (selectIdx ls last now cfg).1[i]? = some c)
    (hl : c.latchedSince ≠ 0 ∨ c.silencePulled = true)
    (hsel : (selectIdx ls last now cfg).2 = some i) :
    ¬ ∃ d ∈ (selectIdx ls last now cfg).1, Healthy d now :=
  fun h => (C13_latched_out_of_rotation ls last now cfg hon i c hc hl).2.2 h hsel

/-- Guard off: the call leaves no link gated (see also `C12_off_clears`). -/
theorem C13_off_not_gated (ls : List (SLink F)) (last : Option Nat) (now : Nat) (cfg : Cfg)
    (hoff : cfg.stallDeselect = false) : ∀ c ∈ (selectIdx ls last now cfg).1, c.stallGated = false := by
  intro c hc
  obtain ⟨f, hf, e⟩ := selectIdx_fst ls last now cfg
  rw [e, Select.applyStallGate_off ls now cfg hoff, List.map_map] at hc
  obtain ⟨c0, -, rfl⟩ := List.mem_map.1 hc
  simp only [Function.comp_apply]
  rw [(hf (guardOff cfg c0)).stallGated]
  rfl

/-- **The exception, stated explicitly.**  With no healthy alternative NO link is stall-gated after
the pass: a latched / pulled link stays in the rotation and is eligible exactly when it is
connected, registered and not timed out (`C04_selector_eligible`'s other three conditions).  This
is what C03 requires (`C03_gate_spares_usable`, `C03_no_blackout`: a usable link always gets the
packet).  Holds with the guard off too (then nothing is ever gated). -/
theorem C13_no_alternative_stays_eligible (ls : List (SLink F)) (last : Option Nat) (now : Nat) (cfg : Cfg)
    (hno : ¬ ∃ d ∈ (selectIdx ls last now cfg).1, Healthy d now) :
    ∀ c ∈ (selectIdx ls last now cfg).1, c.stallGated = false := by
  intro c hc
  cases hon : cfg.stallDeselect
  · exact C13_off_not_gated ls last now cfg hon c hc
  · cases hg : c.stallGated
    · rfl
    · exact absurd ((C13_gated_iff ls last now cfg hon c hc).1 hg).2 hno

/-- **A latched link that is the only usable one is still routed** (classic mode, any scalar; the
enhanced-mode counterpart is `C03_no_blackout` + `C04_selector_eligible` over the ordered-field
scalar).  If link `i` is connected, registered, not timed out, has a non-negative window, and no
other link is connected, registered and not timed out, then `select_connection_idx` returns `i` —
latched or not, pulled or not, guard on or off. -/
theorem C13_latched_sole_usable_still_routed_classic (ls : List (SLink F)) (last : Option Nat) (now : Nat)
    (cfg : Cfg) (hcl : cfg.classic = true) (i : Nat) (c : SLink F)
    (hc : (selectIdx ls last now cfg).1[i]? = some c)
    (hu : c.connected = true ∧ isTimedOut c now = false ∧ c.phase ≠ .registering) (hw : 0 ≤ c.window)
    (hsole : ∀ j d, (selectIdx ls last now cfg).1[j]? = some d →
      d.connected = true → isTimedOut d now = false → d.phase ≠ .registering → j = i) :
    (selectIdx ls last now cfg).2 = some i := by
  have hmem : c ∈ (selectIdx ls last now cfg).1 := List.mem_of_getElem? hc
  -- the link is not gated: a healthy alternative would be usable, hence be the link itself
  have hng : c.stallGated = false := by
    cases hg : c.stallGated
    · rfl
    · have hon : cfg.stallDeselect = true := by
        cases hon : cfg.stallDeselect
        · have := C13_off_not_gated ls last now cfg hon c hmem
          rw [hg] at this; cases this
        · rfl
      obtain ⟨hl, d, hd, hh⟩ := (C13_gated_iff ls last now cfg hon c hmem).1 hg
      obtain ⟨j, hj⟩ := List.getElem?_of_mem hd
      have hji := hsole j d hj hh.1 hh.2.1 hh.2.2.1
      subst hji
      rw [hc] at hj
      cases hj
      rcases hl with hl | hl
      · exact absurd hh.2.2.2.1 hl
      · rw [hh.2.2.2.2] at hl; cases hl
  have hsel : selectIdx ls last now cfg =
      (applyStallGate ls now cfg, classicSelect (applyStallGate ls now cfg) now) := by
    unfold selectIdx; simp [hcl]
  have hne : (selectIdx ls last now cfg).2 ≠ none := by
    rw [hsel] at hmem ⊢
    show classicGo _ 0 now none (-1) ≠ none
    apply SelLemmas.classicGo_picks _ 0 now
    refine ⟨c, hmem, hu.2.1, ?_, hng, ?_⟩
    · unfold schedulable; simpa using hu.2.2
    · unfold score
      rw [hu.1]
      simp only [Bool.not_true, Bool.false_eq_true, if_false]
      exact Int.ediv_nonneg hw (by omega)
  cases hr : (selectIdx ls last now cfg).2 with
  | none => exact absurd hr hne
  | some j =>
    obtain ⟨d, hd, h1, h2, -, h4⟩ := C04.C04_selector_eligible ls last now cfg j hr
    have hji := hsole j d hd h4 h2 (by unfold schedulable at h1; simpa using h1)
    rw [hji]


/-- Two links at `now = 5000` (defaults: enhanced, guard on).  Link 0 has by far the better score
(20000/41 against 1000/11) but is latched (proof 4000 ms old, 40 in flight); link 1 is healthy. -/
def exRot : List (SLink Int) :=
  [ { connId := 1, window := 20000, inFlight := 40, lastReceived := some 4990, proofMs := 1000,
      latchedSince := 1500, srtt := 0, rttMin := 0, bitrate := 0, qualMult := 1000 },
    { connId := 2, window := 1000, inFlight := 10, lastReceived := some 4990, srtt := 0, rttMin := 0,
      bitrate := 0, qualMult := 1000 } ]

/-- The same with link 1 disconnected: no healthy alternative. -/
def exRotAlone : List (SLink Int) :=
  [ { connId := 1, window := 20000, inFlight := 40, lastReceived := some 4990, proofMs := 1000,
      latchedSince := 1500, srtt := 0, rttMin := 0, bitrate := 0, qualMult := 1000 },
    { connId := 2, connected := false, window := 1000, inFlight := 10, lastReceived := some 4990, srtt := 0,
      rttMin := 0, bitrate := 0, qualMult := 1000 } ]

/-- Hypotheses of `C13_latched_out_of_rotation` met (link 0 latched after the pass, link 1 healthy):
link 0 is gated and link 1 is returned, in both modes, also when link 0 was the previous pick.
Without the alternative (`exRotAlone`, hypotheses of `C13_no_alternative_stays_eligible` /
`C13_latched_sole_usable_still_routed_classic`) link 0 stays latched, is NOT gated and is returned. -/
example :
    ((@selectIdx Int fixScalar exRot (some 0) 5000 {}).1.map fun c => (c.latchedSince, c.stallGated))
      = [(1500, true), (0, false)] ∧
    (@selectIdx Int fixScalar exRot (some 0) 5000 {}).2 = some 1 ∧
    (@selectIdx Int fixScalar exRot (some 0) 5000 { classic := true }).2 = some 1 ∧
    ((@selectIdx Int fixScalar exRotAlone none 5000 {}).1.map fun c => (c.latchedSince, c.stallGated))
      = [(1500, false), (0, false)] ∧
    (@selectIdx Int fixScalar exRotAlone none 5000 {}).2 = some 0 ∧
    (@selectIdx Int fixScalar exRotAlone none 5000 { classic := true }).2 = some 0 := by
  decide +kernel

example : ∃ d ∈ (@selectIdx Int fixScalar exRot (some 0) 5000 {}).1, Healthy d 5000 := by
  refine ⟨_, List.mem_cons_of_mem _ List.mem_cons_self, ?_⟩
  unfold Healthy
  decide +kernel

end rotation

/-! ## 10. A single ACK never releases, over any number of passes (monotone clock) -/

/-- The steps that may follow the single proof stamp `t0`: scheduling passes at a time `≥ t0`
(a monotone clock puts every later pass there) and environment steps that bring NO further proof
(`e.proofMs = 0`: `envStep` then keeps the stamp).  Resets and guard-off passes are excluded — they
un-latch by definition (`C13_unlatch_only_by`). -/
def NoNewProof (t0 : Nat) : Step F → Prop
  | .sel now _ _ => t0 ≤ now
  | .env e => e.proofMs = 0
  | .selOff => False
  | .reset => False

instance (t0 : Nat) (st : Step F) : Decidable (NoNewProof t0 st) := by
  cases st <;> unfold NoNewProof <;> infer_instance

/-- **A single ACK never releases (multi-pass form).**  A latched link whose delivery-proof stamp is
`t0` (one ACK or keepalive echo at `t0`) and whose recovery run, if any, did not start before `t0`
(in particular `recoverySince = 0`: the pass before the ACK saw stale proof) stays latched through
ANY number of later passes — at any times `≥ t0`, with any thresholds, ceilings and RTT baselines,
interleaved with arbitrary environment changes — as long as no further proof arrives.
Reason (`C13_release_iff`): a releasing pass at `now` needs `now − t0 < window` and
`now − run start ≥ 2 × window`, but the run cannot have started before `t0`. -/
theorem C13_single_ack_never_releases_run (c : SLink F) (t0 : Nat) (steps : List (Step F))
    (hl : c.latchedSince ≠ 0) (hp : c.proofMs = t0)
    (hr : c.recoverySince = 0 ∨ t0 ≤ c.recoverySince)
    (hs : ∀ st ∈ steps, NoNewProof t0 st) :
    (run c steps).latchedSince ≠ 0 ∧ (run c steps).proofMs = t0 ∧
    ((run c steps).recoverySince = 0 ∨ t0 ≤ (run c steps).recoverySince) := by
  induction steps using snoc_induction with
  | nil => exact ⟨hl, hp, hr⟩
  | snoc l st ih =>
    obtain ⟨il, ip, ir⟩ := ih (fun x hx => hs x (by simp [hx]))
    have hst : NoNewProof t0 st := hs st (by simp)
    rw [run_snoc]
    generalize run c l = d at il ip ir
    cases st with
    | selOff => exact absurd hst id
    | reset => exact absurd hst id
    | env e =>
      have he : e.proofMs = 0 := hst
      refine ⟨il, ?_, ir⟩
      show (if e.proofMs = 0 then d.proofMs else e.proofMs) = t0
      rw [if_pos he]; exact ip
    | sel now m cl =>
      have hnow : t0 ≤ now := hst
      show (sel d now m cl).latchedSince ≠ 0 ∧ (sel d now m cl).proofMs = t0 ∧
        ((sel d now m cl).recoverySince = 0 ∨ t0 ≤ (sel d now m cl).recoverySince)
      have hkeep : (sel d now m cl).latchedSince ≠ 0 := by
        intro h
        obtain ⟨⟨-, hf⟩, hd⟩ := (C13_release_iff d now m cl il).mp h
        rw [ip] at hf
        split at hd
        · omega
        · rcases ir with ir | ir
          · contradiction
          · omega
      refine ⟨hkeep, by rw [(sel_inputs d now m cl).1]; exact ip, ?_⟩
      rcases sel_latch_cases d now m cl with ⟨-, -, -, -, e⟩ | ⟨-, -, -, -, -, e⟩ | ⟨h0, -⟩ |
          ⟨-, -, -, -, e⟩ | ⟨-, -, -, -, -, e⟩ | ⟨-, -, -, -, -, e⟩
      · exact Or.inl e
      · exact Or.inl e
      · exact absurd h0 il
      · exact Or.inl e
      · exact Or.inl e
      · rw [e]; unfold runStart
        split
        · exact Or.inr hnow
        · rcases ir with ir | ir
          · contradiction
          · exact Or.inr ir

/-- Times of the scheduling passes of a history, in order. -/
def passTimes : List (Step F) → List Nat
  | [] => []
  | .sel now _ _ :: t => now :: passTimes t
  | _ :: t => passTimes t

theorem mem_passTimes {steps : List (Step F)} {now : Nat} {m : Int} {cl : Nat}
    (h : Step.sel now m cl ∈ steps) : now ∈ passTimes steps := by
  induction steps with
  | nil => cases h
  | cons a t ih =>
    rcases List.mem_cons.1 h with h' | h'
    · subst h'; simp [passTimes]
    · have := ih h'
      cases a <;> simp [passTimes, this]

/-- The same under an explicit **monotone clock**: the stamp `t0` followed by the pass times is a
non-decreasing sequence, the history consists of passes and of environment steps without proof. -/
theorem C13_single_ack_never_releases_monotone (c : SLink F) (t0 : Nat) (steps : List (Step F))
    (hl : c.latchedSince ≠ 0) (hp : c.proofMs = t0) (hr : c.recoverySince = 0)
    (hmono : (t0 :: passTimes steps).Pairwise (· ≤ ·))
    (hs : ∀ st ∈ steps, (∃ now m cl, st = .sel now m cl) ∨ (∃ e, st = .env e ∧ e.proofMs = 0)) :
    (run c steps).latchedSince ≠ 0 := by
  refine (C13_single_ack_never_releases_run c t0 steps hl hp (Or.inl hr) ?_).1
  intro st hst
  rcases hs st hst with ⟨now, m, cl, rfl⟩ | ⟨e, rfl, he⟩
  · exact (List.pairwise_cons.1 hmono).1 now (mem_passTimes hst)
  · exact he

/-- ACK at 9000 on a link latched since 4000; passes at 9500, 10500, 11999 (all with fresh proof, a
recovery run from 9500) and, after the proof went stale, at 13000 and 10⁶: still latched.  Had a second
ACK arrived (`proofMs := 15000`) the pass at 15500 = 9500 + 2 × 3000 would have released. -/
example :
    let c := { ex0 with latchedSince := 4000, proofMs := 9000 }
    let tr : List (Step Unit) := [.sel 9500 32 3000, .env { ex0 with inFlight := 0 }, .sel 10500 32 3000,
      .sel 11999 32 3000, .sel 13000 32 3000, .sel 1000000 32 3000]
    (∀ st ∈ tr, NoNewProof 9000 st) ∧ (9000 :: passTimes tr).Pairwise (· ≤ ·) ∧
    (run c tr).latchedSince = 4000 ∧
    (run c [.sel 9500 32 3000, .sel 11999 32 3000, .env { ex0 with proofMs := 15000 },
      .sel 15500 32 3000]).latchedSince = 0 := by decide

/-- Why the clock hypothesis is there: with a clock that runs BACKWARDS (pass at 1000 after an ACK
stamped 10000: the saturating age is 0, "fresh") a run is recorded from 1000, and the pass at 10500
releases on that single ACK.  `utils::now_ms()` is monotone in practice; the theorem above says
monotonicity is all that is needed. -/
example :
    let c := { ex0 with latchedSince := 500, proofMs := 10000 }
    (run c [.sel 1000 32 3000, .sel 10500 32 3000]).latchedSince = 0 := by decide

/-! ## 11. The step alphabet is tied to the validated link model

`reset` (Lemmas/StallLatch.lean) was written from reading `reset_core_state`.  `Model/Link.lean`
holds the full `SrtlaConnection` (`FLink`), is run bit-for-bit against the real shell by component
`sys`, and has the three real reset entry points `mark_for_recovery`, `reset_for_reconnect`
(both call `reset_core_state`) and `clear_pre_registration_state` (REG3).  Seen through the
selection view `toSLink` they are, respectively, `reset ; env`, `reset ; env` and `env` of the
alphabet — so every history theorem above applies to the projection of a shell run. -/

section alphabet
variable [Scalar F]
open Srtla.Link

/-- `reset_core_state` of the link model IS `reset` on the selection view (it additionally empties
the batch queue, a field no guard theorem reads). -/
theorem C13_reset_is_model_reset (l : FLink F) :
    l.resetCoreState.toSLink = { reset l.toSLink with queued := 0 } := rfl

/-- … in particular on every field the guard reads or writes. -/
theorem C13_reset_guard_fields (l : FLink F) :
    let s := l.resetCoreState.toSLink
    s.latchedSince = 0 ∧ s.recoverySince = 0 ∧ s.silencePulled = false ∧ s.pullMark = none ∧
    s.stallGated = false ∧ s.probeCounter = 0 ∧ s.proofMs = 0 ∧ s.connected = false ∧ s.inFlight = 0 ∧
    s.gateEvents = l.gateEvents ∧ s.silencePulls = l.silencePulls ∧
    s.srttPos = l.toSLink.srttPos ∧ s.srttTrunc = l.toSLink.srttTrunc ∧
    s.lastReceived = l.core.lastReceived :=
  ⟨rfl, rfl, rfl, rfl, rfl, rfl, rfl, rfl, rfl, rfl, rfl, rfl, rfl, rfl⟩

/-- `mark_for_recovery` (send failure, REG_ERR, timeout tear-down) projects to `reset ; env`. -/
theorem C13_markForRecovery_is_reset (l : FLink F) :
    l.markForRecovery.toSLink = run l.toSLink [.reset, .env l.markForRecovery.toSLink] := by
  show _ = envStep (reset l.toSLink) l.markForRecovery.toSLink
  exact (envStep_eq _ _ rfl rfl rfl rfl rfl rfl rfl).symm

/-- `reset_for_reconnect` (housekeeping's re-registration attempt) projects to `reset ; env`. -/
theorem C13_resetForReconnect_is_reset (l : FLink F) (now : Nat) :
    (l.resetForReconnect now).toSLink = run l.toSLink [.reset, .env (l.resetForReconnect now).toSLink] := by
  show _ = envStep (reset l.toSLink) (l.resetForReconnect now).toSLink
  exact (envStep_eq _ _ rfl rfl rfl rfl rfl rfl rfl).symm

/-- `clear_pre_registration_state` (REG3) touches none of the guard's fields nor the proof stamp:
it is an `env` step. -/
theorem C13_reg3_is_env (l : FLink F) (now : Nat) :
    (l.clearPreRegistration now).toSLink = run l.toSLink [.env (l.clearPreRegistration now).toSLink] := by
  show _ = envStep l.toSLink (l.clearPreRegistration now).toSLink
  exact (envStep_eq _ _ rfl rfl rfl rfl rfl rfl rfl).symm

/-- Writing a selection result back into the full link (`FLink.absorb`) and projecting again gives
that result, provided it agrees with the link on the frame (which `C12_frame` guarantees). -/
theorem toSLink_absorb (l : FLink F) (x : SLink F) (hf : frame x = frame l.toSLink) :
    (l.absorb x).toSLink = x := by
  obtain ⟨a1, a2, a3, a4, a5, a6, a7, a8, a9, a10, a11, a12, a13, a14, a15, a16, a17, a18, a19, a20, a21,
    a22, a23, a24, a25, a26, a27, a28, a29, a30, a31, a32, a33⟩ := x
  simp only [frame, FLink.toSLink, Frame.mk.injEq] at hf
  obtain ⟨rfl, rfl, rfl, rfl, rfl, rfl, rfl, rfl, rfl, rfl, rfl, rfl, rfl, rfl, rfl, rfl, rfl, rfl, rfl, rfl,
    rfl, rfl, rfl⟩ := hf
  rfl

/-- **The shell's scheduling step is a pass of the alphabet.**  For every link of the shell model
(`Model/Sys.lean`, `runSelect` = `select_connection_idx` on the live connections + write-back), the
selection view after the step is the view before it taken through
`env ; sel (guard on) | selOff (guard off) ; env ; env` (config stamp; the pass; the `stall_gated`
stamp; the quality-cache refresh).  Together with the reset lemmas: the selection-view projection of
any shell run is a `Step` history, so sections 2-10 apply to it. -/
theorem C13_shell_select_is_pass (s : Sys.Sys F) (now : Nat) (i : Nat) (l l' : FLink F)
    (hl : s.links[i]? = some l) (hl' : (Sys.runSelect s now).1.links[i]? = some l') :
    ∃ e1 e2 e3 : SLink F, l'.toSLink = run l.toSLink
      [.env e1,
       if s.cfg.stallDeselect = true then .sel now s.cfg.stallMinInFlight s.cfg.stallCeilingMs else .selOff,
       .env e2, .env e3] := by
  change ((s.links.zip (selectIdx (s.links.map FLink.toSLink) s.lastSelected now s.cfg).1).map
    fun p => p.1.absorb p.2)[i]? = some l' at hl'
  rw [List.getElem?_map] at hl'
  obtain ⟨⟨a, x⟩, hax, hl'x⟩ := Option.map_eq_some_iff.1 hl'
  obtain ⟨ha, hx⟩ := List.getElem?_zip_eq_some.1 hax
  rw [hl] at ha
  have hal : l = a := Option.some.inj ha
  subst hal
  have hl'x : l' = l.absorb x := hl'x.symm
  subst hl'x
  have hl0 : (s.links.map FLink.toSLink)[i]? = some l.toSLink := by rw [List.getElem?_map, hl]; rfl
  -- the result agrees with the link on the frame (`C12_frame`)
  have hfr : frame x = frame l.toSLink := by
    obtain ⟨g, hg, hp⟩ := selectIdx_map (s.links.map FLink.toSLink) s.lastSelected now s.cfg
    rw [hg, List.getElem?_map, hl0] at hx
    have hgx : g l.toSLink = x := Option.some.inj hx
    rw [← hgx]
    exact (hp l.toSLink).1
  rw [toSLink_absorb l x hfr]
  -- `x` is the gate's output up to the quality cache
  obtain ⟨f, hf, e⟩ := selectIdx_fst (s.links.map FLink.toSLink) s.lastSelected now s.cfg
  rw [e, List.getElem?_map] at hx
  obtain ⟨y, hy, hxy⟩ := Option.map_eq_some_iff.1 hx
  have hi : i < (s.links.map FLink.toSLink).length := (List.getElem?_eq_some_iff.1 hl0).1
  obtain ⟨e1, e2, hg⟩ := C13_gate_is_per_link_pass (s.links.map FLink.toSLink) now s.cfg i hi
  rw [hy] at hg
  have hy' := Option.some.inj hg
  have hli : (s.links.map FLink.toSLink)[i] = l.toSLink := by
    have := List.getElem?_eq_getElem hi
    rw [hl0] at this
    exact (Option.some.inj this).symm
  rw [hli] at hy'
  refine ⟨e1, e2, f y, ?_⟩
  obtain ⟨q, t, hq⟩ := hf y
  have henv : envStep y (f y) = f y := by
    rw [hq]; exact envStep_eq _ _ rfl rfl rfl rfl rfl rfl rfl
  have hxy' : x = f y := hxy.symm
  rw [hxy']
  have hsplit : ∀ (p : Step F), run l.toSLink [.env e1, p, .env e2, .env (f y)] =
      step (run l.toSLink [.env e1, p, .env e2]) (.env (f y)) := fun p =>
    run_snoc l.toSLink [.env e1, p, .env e2] (.env (f y))
  rw [hsplit, ← hy']
  exact henv.symm

/-- Consequently both real resets leave the link un-latched, un-pulled and without proof, whatever
happened before (instance of the `reset` arm of `C13_unlatch_only_by` / `neverInv_step`). -/
theorem C13_model_resets_unlatch (l : FLink F) (now : Nat) :
    l.markForRecovery.toSLink.latchedSince = 0 ∧ l.markForRecovery.toSLink.silencePulled = false ∧
    l.markForRecovery.toSLink.proofMs = 0 ∧
    (l.resetForReconnect now).toSLink.latchedSince = 0 ∧ (l.resetForReconnect now).toSLink.silencePulled = false ∧
    (l.resetForReconnect now).toSLink.proofMs = 0 :=
  ⟨rfl, rfl, rfl, rfl, rfl, rfl⟩

/-- A latched, pulled link with a full history: both resets clear it, REG3 does not touch it. -/
example :
    let l : FLink Int := { (@FLink.newRegistering Int fixScalar 7 100) with
      latchedSince := 4000, recoverySince := 4500, gateEvents := 3, silencePulled := true,
      pullMark := some 3900, silencePulls := 2, core := { connId := 7, connected := true, proofMs := 3000 } }
    ((@FLink.toSLink Int fixScalar l.markForRecovery).latchedSince,
     (@FLink.toSLink Int fixScalar l.markForRecovery).gateEvents,
     (@FLink.toSLink Int fixScalar l.markForRecovery).proofMs) = (0, 3, 0) ∧
    ((@FLink.toSLink Int fixScalar (@FLink.clearPreRegistration Int fixScalar l 5000)).latchedSince,
     (@FLink.toSLink Int fixScalar (@FLink.clearPreRegistration Int fixScalar l 5000)).silencePulled,
     (@FLink.toSLink Int fixScalar (@FLink.clearPreRegistration Int fixScalar l 5000)).proofMs) = (4000, true, 3000) := by
  decide +kernel

end alphabet

/-! ## 12. The latch along runs of the shell (`Sys.step`, `Sys.run`)

Sections 2-11 are about one link's selection view and an abstract step alphabet.  Here the same
statements are made about the validated shell model itself (`Model/Sys.lean`; `Sys.step s e` is one
arm of the event loop, `Sys.run` a list of them; component `sys` runs it bit-for-bit against
`handle_srt_packet` / `handle_uplink_packet` / `flush_all_batches` / `handle_housekeeping`), for EVERY
event constructor, every link index `j` (`l` = the link before the event, `l'` = the link at the same
index after it; the number of links never changes), any number of links, any configuration, any
registration state, any scalar instance (`Float` included).

Closed forms of one event, link by link: `Lemmas/SelShellStep.lean`; the guard fields read off them:
`Lemmas/SelShellLatch.lean`. -/

section shellRuns
variable [Scalar F]
open Srtla.Link Srtla.SelShell

/-- The link was torn down in this event — `reset_core_state` ran: `mark_for_recovery` (a failed send in a
`client` event, REG_ERR in an `uplink` event) or `reset_for_reconnect` (housekeeping's reconnect attempt).
Latch, recovery run, silence pull, gate flag and heard-mark are cleared, the proof stamp is 0 ("never"),
the link is disconnected. -/
def TornDown (l' : FLink F) : Prop :=
  l'.latchedSince = 0 ∧ l'.recoverySince = 0 ∧ l'.silencePulled = false ∧ l'.stallGated = false ∧
  l'.pullMark = none ∧ l'.core.proofMs = 0 ∧ l'.core.connected = false

/-- The guard's seven private fields are unchanged (`latchedSince`, `recoverySince`, `silencePulled`,
`stallGated`, the heard-mark and the two lifetime counters). -/
def SameGuard (l l' : FLink F) : Prop :=
  l'.latchedSince = l.latchedSince ∧ l'.recoverySince = l.recoverySince ∧
  l'.silencePulled = l.silencePulled ∧ l'.stallGated = l.stallGated ∧ l'.pullMark = l.pullMark ∧
  l'.gateEvents = l.gateEvents ∧ l'.silencePulls = l.silencePulls

omit [Scalar F] in
theorem sameGuard_of_keep {l l' : FLink F} (h : GKeep l l') : SameGuard l l' :=
  ⟨h.latched, h.recovery, h.pulled, h.gated, h.mark, h.gateEvents, h.pulls⟩

omit [Scalar F] in
theorem sameGuard_of_same {l l' : FLink F} (h : GSame l l') : SameGuard l l' :=
  ⟨h.latched, h.recovery, h.pulled, h.gated, h.mark, h.gateEvents, h.pulls⟩

omit [Scalar F] in
theorem tornDown_of_torn {l l' : FLink F} (h : SelShell.Torn l l') :
    TornDown l' ∧ l'.gateEvents = l.gateEvents ∧ l'.silencePulls = l.silencePulls :=
  ⟨⟨h.latched, h.recovery, h.pulled, h.gated, h.mark, h.proof, h.connected⟩, h.gateEvents, h.pulls⟩

/-- `SameGuard ∨ torn down`, and in the first case what happened to the proof stamp: kept, or stamped
with the event's clock `t`. -/
def FrameFx (t : Nat) (l l' : FLink F) : Prop :=
  (SameGuard l l' ∧ (l'.core.proofMs = l.core.proofMs ∨ l'.core.proofMs = t)) ∨
  (TornDown l' ∧ l'.gateEvents = l.gateEvents ∧ l'.silencePulls = l.silencePulls)

omit [Scalar F] in
theorem frameFx_of_keepOrTorn {t : Nat} {l l' : FLink F} (h : KeepOrTorn l l') : FrameFx t l l' :=
  h.elim (fun h => .inl ⟨sameGuard_of_keep h, .inl h.proof⟩) (fun h => .inr (tornDown_of_torn h))

/-! ### one lemma per event constructor -/

theorem frame_uplink (s : Sys.Sys F) (now cid : Nat) (data : Sys.Bytes) (j : Nat) (l l' : FLink F)
    (hl : s.links[j]? = some l) (hl' : (Sys.step s (.uplink now cid data)).1.links[j]? = some l') :
    FrameFx now l l' := by
  cases uplink_guard s cid data now j l l' hl hl' with
  | keep h => exact .inl ⟨sameGuard_of_keep h, .inl h.proof⟩
  | sack h _ hp _ => exact .inl ⟨sameGuard_of_same h, .inr hp⟩
  | echo h _ hp _ => exact .inl ⟨sameGuard_of_same h, .inr hp⟩
  | reg3 h hp _ => exact .inl ⟨sameGuard_of_same h, .inl hp⟩
  | torn h => exact .inr (tornDown_of_torn h)

theorem frame_flush (s : Sys.Sys F) (now : Nat) (j : Nat) (l l' : FLink F)
    (hl : s.links[j]? = some l) (hl' : (Sys.step s (.flush now)).1.links[j]? = some l') :
    FrameFx now l l' :=
  frameFx_of_keepOrTorn (.inl (flush_guard s now j l l' hl hl'))

theorem frame_hk (s : Sys.Sys F) (now : Nat) (j : Nat) (l l' : FLink F)
    (hl : s.links[j]? = some l) (hl' : (Sys.step s (.hk now)).1.links[j]? = some l') :
    FrameFx now l l' :=
  frameFx_of_keepOrTorn (hk_guard s now j l l' hl hl')

theorem frame_cfg (s : Sys.Sys F) (e : Sys.Ev) (he : isArm e = false) (hnr : e.isReload = false) (j : Nat)
    (l l' : FLink F)
    (hl : s.links[j]? = some l) (hl' : (Sys.step s e).1.links[j]? = some l') :
    FrameFx 0 l l' :=
  frameFx_of_keepOrTorn (.inl (cfg_guard s e he hnr j l l' hl hl'))

/-- Every event that is neither a `client` nor an `uplink` event keeps the guard fields, the proof stamp
and `connected` of every link, or tears the link down.
`hnr`: over events / runs that keep the link set (no `Ev.reload`); a reload keeps the whole record of every retained link
(`Props/SysReload.lean: reload_frame`) and the theorem applies again from the state after it. -/
theorem keepOrTorn_other (s : Sys.Sys F) (e : Sys.Ev) (hne : ∀ now pkt, e ≠ .client now pkt)
    (hu : ∀ now cid data, e ≠ .uplink now cid data) (hnr : e.isReload = false) (j : Nat) (l l' : FLink F)
    (hl : s.links[j]? = some l) (hl' : (Sys.step s e).1.links[j]? = some l') : KeepOrTorn l l' := by
  cases e with
  | client now pkt => exact absurd rfl (hne now pkt)
  | uplink now cid data => exact absurd rfl (hu now cid data)
  | flush now => exact .inl (flush_guard s now j l l' hl hl')
  | hk now => exact hk_guard s now j l l' hl hl'
  | _ => exact .inl (cfg_guard s _ rfl hnr j l l' hl hl')

/-- The clock an event reads (0 for the clock-less configuration events). -/
def evClock : Sys.Ev → Nat
  | .client now _ => now
  | .uplink now _ _ => now
  | .flush now => now
  | .hk now => now
  | _ => 0

/-- **The latch fields move only in selection passes and by resets.**  For every event that is NOT a
`client` event (an uplink datagram of any kind — SRT ACK / NAK, SRTLA ACK, keepalive echo, REG_NGP / REG2 /
REG3 / REG_ERR —, the 15 ms flush tick, the housekeeping tick with its keepalives, window recovery, phase
updates and reconnect attempts, a configuration change, a critical-window or fault-injection event) and
every link: EITHER the guard's seven private fields — `stall_latched_since_ms`,
`stall_recovery_since_ms`, `silence_pulled`, `stall_gated`, the heard-mark, `stall_gate_events`,
`silence_pulls` — are all unchanged, and the proof stamp is unchanged or was stamped with the event's
clock; OR the link was torn down in this event (`TornDown`: everything cleared, proof stamp 0,
disconnected; the two lifetime counters survive).
`hnr`: over events / runs that keep the link set (no `Ev.reload`); a reload keeps the whole record of every retained link
(`Props/SysReload.lean: reload_frame`) and the theorem applies again from the state after it. -/
theorem C13_latch_fields_frame_sys (s : Sys.Sys F) (e : Sys.Ev) (hne : ∀ now pkt, e ≠ .client now pkt)
    (hnr : e.isReload = false) (j : Nat) (l l' : FLink F) (hl : s.links[j]? = some l) (hl' : (Sys.step s e).1.links[j]? = some l') :
    (SameGuard l l' ∧ (l'.core.proofMs = l.core.proofMs ∨ l'.core.proofMs = evClock e)) ∨
    (TornDown l' ∧ l'.gateEvents = l.gateEvents ∧ l'.silencePulls = l.silencePulls) := by
  by_cases ha : isArm e = false
  · rcases frame_cfg s e ha hnr j l l' hl hl' with ⟨h1, h2⟩ | h
    · refine .inl ⟨h1, ?_⟩
      rcases h2 with h2 | h2
      · exact .inl h2
      · have : evClock e = 0 := by cases e <;> first | rfl | cases ha
        rw [this]; exact .inr h2
    · exact .inr h
  · cases e with
    | client now pkt => exact absurd rfl (hne now pkt)
    | uplink now cid data => exact frame_uplink s now cid data j l l' hl hl'
    | flush now => exact frame_flush s now j l l' hl hl'
    | hk now => exact frame_hk s now j l l' hl hl'
    | _ => exact absurd rfl ha

/-- What the selection pass of a `client` event leaves in link `j`, relative to the link `l` before the
event (`m` = the link after the pass, before the datagram is forwarded). -/
def PassFx (s : Sys.Sys F) (now : Nat) (pkt : Sys.Bytes) (l m : FLink F) : Prop :=
  -- no pass: empty datagram, or registration not completed (pre-registration routing)
  ((pkt = [] ∨ s.reg.hasConnected = false) ∧ m = l) ∨
  -- guard on: `update_silence_pull` then `update_stall_latch` on the link's own view
  (pkt ≠ [] ∧ s.reg.hasConnected = true ∧ s.cfg.stallDeselect = true ∧ m.core = l.core ∧
    m.latchedSince = (sel l.toSLink now s.cfg.stallMinInFlight s.cfg.stallCeilingMs).latchedSince ∧
    m.recoverySince = (sel l.toSLink now s.cfg.stallMinInFlight s.cfg.stallCeilingMs).recoverySince ∧
    m.silencePulled = (sel l.toSLink now s.cfg.stallMinInFlight s.cfg.stallCeilingMs).silencePulled ∧
    m.pullMark = (sel l.toSLink now s.cfg.stallMinInFlight s.cfg.stallCeilingMs).pullMark ∧
    m.gateEvents = (sel l.toSLink now s.cfg.stallMinInFlight s.cfg.stallCeilingMs).gateEvents ∧
    m.silencePulls = (sel l.toSLink now s.cfg.stallMinInFlight s.cfg.stallCeilingMs).silencePulls ∧
    (m.stallGated = true → m.latchedSince ≠ 0 ∨ m.silencePulled = true)) ∨
  -- guard off: cleared
  (pkt ≠ [] ∧ s.reg.hasConnected = true ∧ s.cfg.stallDeselect = false ∧ m.core = l.core ∧
    m.latchedSince = 0 ∧ m.recoverySince = 0 ∧ m.silencePulled = false ∧ m.stallGated = false ∧
    m.pullMark = l.pullMark ∧ m.gateEvents = l.gateEvents ∧ m.silencePulls = l.silencePulls)

omit [Scalar F] in
theorem passRan_iff (s : Sys.Sys F) (pkt : Sys.Bytes) :
    passRan s pkt = true ↔ pkt ≠ [] ∧ s.reg.hasConnected = true := by
  unfold passRan
  cases pkt <;> simp

/-- **A `client` event = the selection pass, then forwarding.**  For every link `j` there is an
intermediate record `m` (the link as `select_connection_idx` left it) such that `l → m` is the per-link
guard pass (`PassFx`: `StallLatch.sel` on the link's own view with the configured thresholds when the
guard is on, cleared when it is off, nothing when no pass runs) and `m → l'` — queueing the datagram or
a probe copy, the threshold flush, the tear-down after a failed send — keeps the guard's seven fields
and the proof stamp, or tears the link down. -/
theorem C13_latch_fields_client_sys (s : Sys.Sys F) (now : Nat) (pkt : Sys.Bytes) (j : Nat) (l l' : FLink F)
    (hl : s.links[j]? = some l) (hl' : (Sys.step s (.client now pkt)).1.links[j]? = some l') :
    ∃ m : FLink F, PassFx s now pkt l m ∧
      ((SameGuard m l' ∧ l'.core.proofMs = m.core.proofMs) ∨
       (TornDown l' ∧ l'.gateEvents = m.gateEvents ∧ l'.silencePulls = m.silencePulls)) := by
  obtain ⟨m, hk, hp⟩ := client_guard s pkt now j l l' hl hl'
  refine ⟨m, ?_, hk.elim (fun h => .inl ⟨sameGuard_of_keep h, h.proof⟩) (fun h => .inr (tornDown_of_torn h))⟩
  rcases hp with ⟨hp, rfl⟩ | ⟨hp, hm⟩
  · left
    refine ⟨?_, rfl⟩
    have : ¬ (pkt ≠ [] ∧ s.reg.hasConnected = true) := by
      rw [← passRan_iff]; simp [hp]
    by_cases h : pkt = []
    · exact .inl h
    · right
      cases hc : s.reg.hasConnected
      · rfl
      · exact absurd ⟨h, hc⟩ this
  · obtain ⟨hne, hreg⟩ := (passRan_iff s pkt).1 hp
    obtain ⟨hcore, hon, hoff⟩ := pass_guard s now j l m hl hm
    cases hg : s.cfg.stallDeselect
    · obtain ⟨a1, a2, a3, a4, a5, a6, a7⟩ := hoff hg
      exact .inr (.inr ⟨hne, hreg, hg, hcore, a1, a2, a3, a4, a5, a6, a7⟩)
    · obtain ⟨a1, a2, a3, a4, a5, a6, a7⟩ := hon hg
      exact .inr (.inl ⟨hne, hreg, hg, hcore, a1, a2, a3, a4, a5, a6, a7⟩)

/-- **Engage only if, at shell level.**  If ANY event takes link `j` from un-latched to latched, then
the event is a `client` datagram (non-empty, registration completed — so `select_connection_idx` ran)
with the guard on, and at that moment the link was connected, HAD delivery proof, the proof was at least
one effective window `clamp(4 × smoothed RTT, 1000, ceiling)` old (`effStale`, see
`C13_effective_window`; `ceiling` = the configured `stall_stale_ceiling_ms`), and it held at least the
configured in-flight backlog or is held by the silence pull; the latch is stamped with the event's
clock, exactly one gate event is counted and no recovery run is recorded.  No other event — no uplink
datagram, flush, housekeeping tick, configuration change — can latch a link.
`hnr`: over events / runs that keep the link set (no `Ev.reload`); a reload keeps the whole record of every retained link
(`Props/SysReload.lean: reload_frame`) and the theorem applies again from the state after it. -/
theorem C13_engage_only_if_sys (s : Sys.Sys F) (e : Sys.Ev) (hnr : e.isReload = false) (j : Nat) (l l' : FLink F)
    (hl : s.links[j]? = some l) (hl' : (Sys.step s e).1.links[j]? = some l')
    (h0 : l.latchedSince = 0) (h1 : l'.latchedSince ≠ 0) :
    ∃ now pkt, e = .client now pkt ∧ pkt ≠ [] ∧ s.reg.hasConnected = true ∧ s.cfg.stallDeselect = true ∧
      l.core.connected = true ∧ l.core.proofMs ≠ 0 ∧
      now - l.core.proofMs ≥ effStale l.toSLink s.cfg.stallCeilingMs ∧
      (l.core.inFlight ≥ s.cfg.stallMinInFlight ∨ l'.silencePulled = true) ∧
      l'.latchedSince = now ∧ l'.gateEvents = l.gateEvents + 1 ∧ l'.recoverySince = 0 := by
  by_cases hc : ∃ now pkt, e = .client now pkt
  · obtain ⟨now, pkt, rfl⟩ := hc
    obtain ⟨m, hp, hk⟩ := C13_latch_fields_client_sys s now pkt j l l' hl hl'
    rcases hk with ⟨⟨k1, k2, k3, k4, k5, k6, k7⟩, -⟩ | ⟨⟨t1, -⟩, -⟩
    · rw [k1] at h1
      rcases hp with ⟨-, rfl⟩ | ⟨hne, hreg, hon, -, a1, a2, a3, a4, a5, a6, a7⟩ | ⟨-, -, -, -, a1, -⟩
      · exact absurd h0 h1
      · rw [a1] at h1
        obtain ⟨b1, b2, b3, b4, b5, b6, b7⟩ :=
          C13_engage_only_if_pass l.toSLink now s.cfg.stallMinInFlight s.cfg.stallCeilingMs h0 h1
        exact ⟨now, pkt, rfl, hne, hreg, hon, b1, b2, b3, b4.imp id (fun h => by rw [k3, a3]; exact h),
          by rw [k1, a1]; exact b5, by rw [k6, a5]; exact b6, by rw [k2, a2]; exact b7⟩
      · exact absurd a1 h1
    · exact absurd t1 h1
  · have hne : ∀ now pkt, e ≠ .client now pkt := fun now pkt h => hc ⟨now, pkt, h⟩
    rcases C13_latch_fields_frame_sys s e hne hnr j l l' hl hl' with ⟨⟨k1, -⟩, -⟩ | ⟨⟨t1, -⟩, -⟩
    · rw [k1] at h1; exact absurd h0 h1
    · exact absurd t1 h1

/-- **Only a tear-down or a selection pass un-latches, at shell level.**  If ANY event takes link `j`
from latched to un-latched, then either the link was torn down in that event (`TornDown`: failed send,
REG_ERR, reconnect attempt), or the event is a `client` datagram whose selection pass ran with the guard
OFF, or with the guard ON and exactly under the release condition of `C13_release_iff`: proof fresh at
that clock and the recovery run (starting now if none is recorded) at least twice the effective window
long.
`hnr`: over events / runs that keep the link set (no `Ev.reload`); a reload keeps the whole record of every retained link
(`Props/SysReload.lean: reload_frame`) and the theorem applies again from the state after it. -/
theorem C13_unlatch_only_by_sys (s : Sys.Sys F) (e : Sys.Ev) (hnr : e.isReload = false) (j : Nat) (l l' : FLink F)
    (hl : s.links[j]? = some l) (hl' : (Sys.step s e).1.links[j]? = some l')
    (h0 : l.latchedSince ≠ 0) (h1 : l'.latchedSince = 0) :
    TornDown l' ∨
    ∃ now pkt, e = .client now pkt ∧ pkt ≠ [] ∧ s.reg.hasConnected = true ∧
      (s.cfg.stallDeselect = false ∨
       (s.cfg.stallDeselect = true ∧
        (l.core.proofMs ≠ 0 ∧ now - l.core.proofMs < effStale l.toSLink s.cfg.stallCeilingMs) ∧
        now - (if l.recoverySince = 0 then now else l.recoverySince) ≥
          2 * effStale l.toSLink s.cfg.stallCeilingMs)) := by
  by_cases hc : ∃ now pkt, e = .client now pkt
  · obtain ⟨now, pkt, rfl⟩ := hc
    obtain ⟨m, hp, hk⟩ := C13_latch_fields_client_sys s now pkt j l l' hl hl'
    rcases hk with ⟨⟨k1, -⟩, -⟩ | ⟨t, -⟩
    · rw [k1] at h1
      rcases hp with ⟨-, rfl⟩ | ⟨hne, hreg, hon, -, a1, -⟩ | ⟨hne, hreg, hoff, -⟩
      · exact absurd h1 h0
      · rw [a1] at h1
        exact .inr ⟨now, pkt, rfl, hne, hreg, .inr ⟨hon,
          (C13_release_iff l.toSLink now s.cfg.stallMinInFlight s.cfg.stallCeilingMs h0).1 h1⟩⟩
      · exact .inr ⟨now, pkt, rfl, hne, hreg, .inl hoff⟩
    · exact .inl t
  · have hne : ∀ now pkt, e ≠ .client now pkt := fun now pkt h => hc ⟨now, pkt, h⟩
    rcases C13_latch_fields_frame_sys s e hne hnr j l l' hl hl' with ⟨⟨k1, -⟩, -⟩ | ⟨t, -⟩
    · rw [k1] at h1; exact absurd h1 h0
    · exact .inl t

/-- **Exactly when a `client` event releases** (registered session, guard on, link latched): iff the
release condition of `C13_release_iff` holds for the link's own fields at the event's clock and the
configured ceiling — or the link is torn down in the same event (a failed send on it). -/
theorem C13_release_iff_sys (s : Sys.Sys F) (now : Nat) (pkt : Sys.Bytes) (j : Nat) (l l' : FLink F)
    (hl : s.links[j]? = some l) (hl' : (Sys.step s (.client now pkt)).1.links[j]? = some l')
    (hne : pkt ≠ []) (hreg : s.reg.hasConnected = true) (hon : s.cfg.stallDeselect = true)
    (hlat : l.latchedSince ≠ 0) :
    l'.latchedSince = 0 ↔
      ((l.core.proofMs ≠ 0 ∧ now - l.core.proofMs < effStale l.toSLink s.cfg.stallCeilingMs) ∧
        now - (if l.recoverySince = 0 then now else l.recoverySince) ≥
          2 * effStale l.toSLink s.cfg.stallCeilingMs) ∨ TornDown l' := by
  constructor
  · intro h1
    rcases C13_unlatch_only_by_sys s _ rfl j l l' hl hl' hlat h1 with t | ⟨now', pkt', he, -, -, h⟩
    · exact .inr t
    · cases he
      rcases h with h | ⟨-, h⟩
      · rw [hon] at h; cases h
      · exact .inl h
  · rintro (h | t)
    · obtain ⟨m, hp, hk⟩ := C13_latch_fields_client_sys s now pkt j l l' hl hl'
      have hm : m.latchedSince = 0 := by
        rcases hp with ⟨h' | h', -⟩ | ⟨-, -, -, -, a1, -⟩ | ⟨-, -, hoff, -⟩
        · exact absurd h' hne
        · rw [hreg] at h'; cases h'
        · rw [a1]
          exact (C13_release_iff l.toSLink now s.cfg.stallMinInFlight s.cfg.stallCeilingMs hlat).2 h
        · rw [hon] at hoff; cases hoff
      rcases hk with ⟨⟨k1, -⟩, -⟩ | ⟨⟨t1, -⟩, -⟩
      · rw [k1]; exact hm
      · exact t1
    · exact t.1

/-- **The silence pull releases only when the link is heard again or disconnects, at shell level.**  If
ANY event clears a held pull, then the link was torn down in that event, or the event is a `client`
datagram whose pass ran with the guard off, or with the guard on and the link's `last_received` differs
from the heard-mark recorded when the pull engaged, or the link is disconnected.
`hnr`: over events / runs that keep the link set (no `Ev.reload`); a reload keeps the whole record of every retained link
(`Props/SysReload.lean: reload_frame`) and the theorem applies again from the state after it. -/
theorem C13_pull_release_only_if_heard_sys (s : Sys.Sys F) (e : Sys.Ev) (hnr : e.isReload = false) (j : Nat) (l l' : FLink F)
    (hl : s.links[j]? = some l) (hl' : (Sys.step s e).1.links[j]? = some l')
    (h0 : l.silencePulled = true) (h1 : l'.silencePulled = false) :
    TornDown l' ∨
    ∃ now pkt, e = .client now pkt ∧ pkt ≠ [] ∧ s.reg.hasConnected = true ∧
      (s.cfg.stallDeselect = false ∨
       (s.cfg.stallDeselect = true ∧ (l.core.lastReceived ≠ l.pullMark ∨ l.core.connected = false))) := by
  by_cases hc : ∃ now pkt, e = .client now pkt
  · obtain ⟨now, pkt, rfl⟩ := hc
    obtain ⟨m, hp, hk⟩ := C13_latch_fields_client_sys s now pkt j l l' hl hl'
    rcases hk with ⟨⟨-, -, k3, -⟩, -⟩ | ⟨t, -⟩
    · rw [k3] at h1
      rcases hp with ⟨-, rfl⟩ | ⟨hne, hreg, hon, -, -, -, a3, -⟩ | ⟨hne, hreg, hoff, -⟩
      · rw [h0] at h1; cases h1
      · rw [a3, sel_pulled] at h1
        exact .inr ⟨now, pkt, rfl, hne, hreg, .inr ⟨hon,
          C13_pull_release_only_if_heard l.toSLink now s.cfg.stallMinInFlight s.cfg.stallCeilingMs h0 h1⟩⟩
      · exact .inr ⟨now, pkt, rfl, hne, hreg, .inl hoff⟩
    · exact .inl t
  · have hne : ∀ now pkt, e ≠ .client now pkt := fun now pkt h => hc ⟨now, pkt, h⟩
    rcases C13_latch_fields_frame_sys s e hne hnr j l l' hl hl' with ⟨⟨-, -, k3, -⟩, -⟩ | ⟨t, -⟩
    · rw [k3, h0] at h1; cases h1
    · exact .inl t

/-! ### the proof stamp and "never blind" along runs -/

/-- **Who writes the delivery-proof stamp, over ALL events.**  If any event changes
`last_ack_or_rtt_sample_ms` of link `j`, then either the link was torn down in that event (stamp 0), or
the event is an uplink datagram and one of the three causes of `C09_proof_stamp` holds: an SRTLA ACK
(type 0x9100) naming a number this link's log held (stamp = the clock), the echo (type 0x9000) on this
link's own socket of an outstanding keepalive probe with age in `(0, 10000]` ms (stamp = the clock), or a
REG_ERR (0x9210) on this link (stamp 0).  Client datagrams, flushes and housekeeping ticks never stamp
proof.
`hnr`: over events / runs that keep the link set (no `Ev.reload`); a reload keeps the whole record of every retained link
(`Props/SysReload.lean: reload_frame`) and the theorem applies again from the state after it. -/
theorem C13_proof_stamp_sys (s : Sys.Sys F) (e : Sys.Ev) (hnr : e.isReload = false) (j : Nat) (l l' : FLink F)
    (hl : s.links[j]? = some l) (hl' : (Sys.step s e).1.links[j]? = some l')
    (hchg : l'.core.proofMs ≠ l.core.proofMs) :
    TornDown l' ∨
    ∃ now connId data, e = .uplink now connId data ∧
      ((Codec.getPacketTypeS data = some 0x9100 ∧ l'.core.proofMs = now ∧
          ∃ nums, Codec.parseSrtlaAck data = .ok nums ∧ ∃ a ∈ nums, Conn.toI32 a ∈ l.core.keys) ∨
       (Codec.getPacketTypeS data = some 0x9000 ∧
          s.links.findIdx? (·.core.connId == connId) = some j ∧ l.rtt.waiting = true ∧
          l'.core.proofMs = now ∧
          ∃ ts, Codec.extractKeepaliveTimestamp data = .ok (some ts) ∧ 0 < now - ts ∧ now - ts ≤ 10000) ∨
       (Codec.getPacketTypeS data = some 0x9210 ∧
          s.links.findIdx? (·.core.connId == connId) = some j ∧ l'.core.proofMs = 0)) := by
  by_cases hu : ∃ now cid data, e = .uplink now cid data
  · obtain ⟨now, cid, data, rfl⟩ := hu
    exact .inr ⟨now, cid, data, rfl, C09.C09_proof_stamp s cid data now j l l' hl hl' hchg⟩
  · by_cases hc : ∃ now pkt, e = .client now pkt
    · obtain ⟨now, pkt, rfl⟩ := hc
      obtain ⟨m, hp, hk⟩ := C13_latch_fields_client_sys s now pkt j l l' hl hl'
      rcases hk with ⟨-, k⟩ | ⟨t, -⟩
      · have : m.core.proofMs = l.core.proofMs := by
          rcases hp with ⟨-, rfl⟩ | ⟨-, -, -, hcore, -⟩ | ⟨-, -, -, hcore, -⟩
          · rfl
          · rw [hcore]
          · rw [hcore]
        exact absurd (k.trans this) hchg
      · exact .inl t
    · have hne : ∀ now pkt, e ≠ .client now pkt := fun now pkt h => hc ⟨now, pkt, h⟩
      have hu' : ∀ now cid data, e ≠ .uplink now cid data := fun now cid data h => hu ⟨now, cid, data, h⟩
      rcases keepOrTorn_other s e hne hu' hnr j l l' hl hl' with h | h
      · exact absurd h.proof hchg
      · exact .inl (tornDown_of_torn h).1

/-- **Never blind, one event of the shell.**  "No delivery proof ⇒ not latched" is preserved by every
event, provided an `uplink` event does not read the clock value 0 (the proof stamp uses `0` as its
"never" sentinel: an SRTLA ACK processed at clock 0 would stamp "never" on a link that HAS proof —
`utils::now_ms()` is epoch-based, so 0 does not occur; see the `example` below for what happens at 0). -/
theorem C13_never_proof_never_latched_step (s : Sys.Sys F) (e : Sys.Ev)
    (hclk : ∀ now cid data, e = .uplink now cid data → 0 < now)
    (h : ∀ l ∈ s.links, l.core.proofMs = 0 → l.latchedSince = 0) :
    ∀ l' ∈ (Sys.step s e).1.links, l'.core.proofMs = 0 → l'.latchedSince = 0 := by
  intro l' hmem hp
  by_cases hr : e.isReload = true
  · -- a reload: a retained link has its old record, a fresh link has no proof and is not latched
    cases e with
    | reload rnow raddrs routs =>
      rcases Sys.mem_reload hmem with ⟨h1, -⟩ | ⟨id, a, -, -, rfl⟩
      · exact h l' h1 hp
      · rfl
    | _ => cases hr
  have hnr : e.isReload = false := Bool.eq_false_iff.2 hr
  obtain ⟨j, hj, hget⟩ := List.getElem_of_mem hmem
  have hl' : (Sys.step s e).1.links[j]? = some l' := by rw [← hget]; exact List.getElem?_eq_getElem hj
  have hlen : (Sys.step s e).1.links.length = s.links.length := (Hk.step_link s e hnr).2.1
  have hj' : j < s.links.length := by omega
  have hl : s.links[j]? = some s.links[j] := List.getElem?_eq_getElem hj'
  have hinv := h s.links[j] (List.getElem_mem hj')
  generalize s.links[j] = l at hl hinv
  by_cases hc : ∃ now pkt, e = .client now pkt
  · obtain ⟨now, pkt, rfl⟩ := hc
    obtain ⟨m, hpass, hk⟩ := C13_latch_fields_client_sys s now pkt j l l' hl hl'
    rcases hk with ⟨⟨k1, -⟩, kp⟩ | ⟨⟨t1, -⟩, -⟩
    · rw [k1]
      rw [kp] at hp
      rcases hpass with ⟨-, rfl⟩ | ⟨-, -, -, hcore, a1, -⟩ | ⟨-, -, -, -, a1, -⟩
      · exact hinv hp
      · rw [a1]
        rw [hcore] at hp
        exact (C13_never_proved_never_latched l.toSLink now s.cfg.stallMinInFlight s.cfg.stallCeilingMs
          hp (hinv hp)).2
      · exact a1
    · exact t1
  · have hne : ∀ now pkt, e ≠ .client now pkt := fun now pkt h => hc ⟨now, pkt, h⟩
    by_cases hu : ∃ now cid data, e = .uplink now cid data
    · obtain ⟨now, cid, data, rfl⟩ := hu
      have hnow := hclk now cid data rfl
      cases uplink_guard s cid data now j l l' hl hl' with
      | keep hk => rw [hk.latched]; rw [hk.proof] at hp; exact hinv hp
      | sack _ _ hpn _ => rw [hpn] at hp; omega
      | echo _ _ hpn _ => rw [hpn] at hp; omega
      | reg3 hs hpp _ => rw [hs.latched]; rw [hpp] at hp; exact hinv hp
      | torn ht => exact ht.latched
    · have hu' : ∀ now cid data, e ≠ .uplink now cid data := fun now cid data h => hu ⟨now, cid, data, h⟩
      rcases keepOrTorn_other s e hne hu' hnr j l l' hl hl' with hk | ht
      · rw [hk.latched]; rw [hk.proof] at hp; exact hinv hp
      · exact ht.latched

/-! ### run forms -/

/-- The state after `pre ++ [e]` is one `Sys.step` from the state after `pre`. -/
theorem run_snoc_fst (s : Sys.Sys F) (pre : List Sys.Ev) (e : Sys.Ev) :
    (Sys.run s (pre ++ [e])).1 = (Sys.step (Sys.run s pre).1 e).1 := by
  induction pre generalizing s with
  | nil => rfl
  | cons a pre ih => exact ih _

/-- **Never blind, along every run of the shell.**  From any state in which "no delivery proof ⇒ not
latched" holds of every link — in particular from the initial state, see `_from_init` — it holds of
every link after EVERY list of events (client datagrams, uplink datagrams of every kind, flush and
housekeeping ticks, reconnects, tear-downs, configuration changes incl. guard on/off toggles and
threshold changes, fault injections), whatever the clock does, as long as no uplink datagram is
processed at the clock value 0: a link whose proof stamp is 0 — it has produced no earned SRTLA ACK and
no answered keepalive since it was created or last reset (`C13_proof_stamp_sys`) — is never latched. -/
theorem C13_never_proof_never_latched_run (s : Sys.Sys F) (evs : List Sys.Ev)
    (hclk : ∀ e ∈ evs, ∀ now cid data, e = .uplink now cid data → 0 < now)
    (h : ∀ l ∈ s.links, l.core.proofMs = 0 → l.latchedSince = 0) :
    ∀ l ∈ (Sys.run s evs).1.links, l.core.proofMs = 0 → l.latchedSince = 0 := by
  induction evs generalizing s with
  | nil => exact h
  | cons e evs ih =>
    exact ih _ (fun x hx => hclk x (List.mem_cons_of_mem _ hx))
      (C13_never_proof_never_latched_step s e (hclk e List.mem_cons_self) h)

/-- From the driver's initial state (`n` fresh links, `SrtlaConnection::new_registering`), any
registration state, configuration and tracker. -/
theorem C13_never_proof_never_latched_from_init (n t0 : Nat) (reg : Reg.Reg) (cfg : Cfg) (evs : List Sys.Ev)
    (hclk : ∀ e ∈ evs, ∀ now cid data, e = .uplink now cid data → 0 < now) :
    ∀ l ∈ (Sys.run ({ links := (List.range n).map fun i => FLink.newRegistering (i + 1) t0, reg := reg,
                      cfg := cfg } : Sys.Sys F) evs).1.links,
      l.core.proofMs = 0 → l.latchedSince = 0 := by
  apply C13_never_proof_never_latched_run _ evs hclk
  intro l hl _
  obtain ⟨i, -, rfl⟩ := List.mem_map.1 hl
  rfl

/-- **Frame, along runs**: at every position of every run, an event that is not a `client` event leaves
the guard's seven fields of every link unchanged or tears the link down.
`hnr` (the LAST event only): over events / runs that keep the link set (no `Ev.reload`); a reload keeps the whole record of
every retained link (`Props/SysReload.lean: reload_frame`) and the theorem applies again from the state after it. -/
theorem C13_latch_fields_frame_run (s : Sys.Sys F) (pre : List Sys.Ev) (e : Sys.Ev)
    (hne : ∀ now pkt, e ≠ .client now pkt) (hnr : e.isReload = false) (j : Nat) (l l' : FLink F)
    (hl : (Sys.run s pre).1.links[j]? = some l) (hl' : (Sys.run s (pre ++ [e])).1.links[j]? = some l') :
    (SameGuard l l' ∧ (l'.core.proofMs = l.core.proofMs ∨ l'.core.proofMs = evClock e)) ∨
    (TornDown l' ∧ l'.gateEvents = l.gateEvents ∧ l'.silencePulls = l.silencePulls) := by
  rw [run_snoc_fst] at hl'
  exact C13_latch_fields_frame_sys _ e hne hnr j l l' hl hl'

/-- **Engage only if, along runs**: whenever, at any position of any run, a link goes from un-latched
to latched, the event is a `client` datagram routed by the scheduler with the guard on, and the link —
in the state the run had reached — had delivery proof at least one effective window old and a backlog
of at least the threshold (or is held by the silence pull).
`hnr` (the LAST event only): over events / runs that keep the link set (no `Ev.reload`); a reload keeps the whole record of
every retained link (`Props/SysReload.lean: reload_frame`) and the theorem applies again from the state after it. -/
theorem C13_engage_only_if_run (s : Sys.Sys F) (pre : List Sys.Ev) (e : Sys.Ev) (hnr : e.isReload = false) (j : Nat)
    (l l' : FLink F)
    (hl : (Sys.run s pre).1.links[j]? = some l) (hl' : (Sys.run s (pre ++ [e])).1.links[j]? = some l')
    (h0 : l.latchedSince = 0) (h1 : l'.latchedSince ≠ 0) :
    ∃ now pkt, e = .client now pkt ∧ pkt ≠ [] ∧ (Sys.run s pre).1.reg.hasConnected = true ∧
      (Sys.run s pre).1.cfg.stallDeselect = true ∧
      l.core.connected = true ∧ l.core.proofMs ≠ 0 ∧
      now - l.core.proofMs ≥ effStale l.toSLink (Sys.run s pre).1.cfg.stallCeilingMs ∧
      (l.core.inFlight ≥ (Sys.run s pre).1.cfg.stallMinInFlight ∨ l'.silencePulled = true) ∧
      l'.latchedSince = now ∧ l'.gateEvents = l.gateEvents + 1 ∧ l'.recoverySince = 0 := by
  rw [run_snoc_fst] at hl'
  exact C13_engage_only_if_sys _ e hnr j l l' hl hl' h0 h1

/-- **Un-latch only by, along runs.**
`hnr` (the LAST event only): over events / runs that keep the link set (no `Ev.reload`); a reload keeps the whole record of
every retained link (`Props/SysReload.lean: reload_frame`) and the theorem applies again from the state after it. -/
theorem C13_unlatch_only_by_run (s : Sys.Sys F) (pre : List Sys.Ev) (e : Sys.Ev) (hnr : e.isReload = false) (j : Nat)
    (l l' : FLink F)
    (hl : (Sys.run s pre).1.links[j]? = some l) (hl' : (Sys.run s (pre ++ [e])).1.links[j]? = some l')
    (h0 : l.latchedSince ≠ 0) (h1 : l'.latchedSince = 0) :
    TornDown l' ∨
    ∃ now pkt, e = .client now pkt ∧ pkt ≠ [] ∧ (Sys.run s pre).1.reg.hasConnected = true ∧
      ((Sys.run s pre).1.cfg.stallDeselect = false ∨
       ((Sys.run s pre).1.cfg.stallDeselect = true ∧
        (l.core.proofMs ≠ 0 ∧ now - l.core.proofMs < effStale l.toSLink (Sys.run s pre).1.cfg.stallCeilingMs) ∧
        now - (if l.recoverySince = 0 then now else l.recoverySince) ≥
          2 * effStale l.toSLink (Sys.run s pre).1.cfg.stallCeilingMs)) := by
  rw [run_snoc_fst] at hl'
  exact C13_unlatch_only_by_sys _ e hnr j l l' hl hl' h0 h1

/-! ### a single ACK never releases, along runs of the shell -/

/-- One event in the situation of `C13_single_ack_never_releases_run`: link `j` is latched, its proof
stamp is `t0 ≠ 0` and its recovery run (if any) did not start before `t0`.  If the event leaves the proof
stamp at `t0` (no further proof, no tear-down), and — in case it is a client datagram — reads a clock
`≥ t0` and does not run the pass with the guard off, the link is still latched afterwards and the recovery
run still did not start before `t0`.
`hnr`: the event is no reload (index-based). -/
theorem single_ack_step (s : Sys.Sys F) (e : Sys.Ev) (hnr : e.isReload = false) (j : Nat) (l l' : FLink F) (t0 : Nat)
    (hl : s.links[j]? = some l) (hl' : (Sys.step s e).1.links[j]? = some l')
    (ht0 : t0 ≠ 0) (hlat : l.latchedSince ≠ 0) (hp : l.core.proofMs = t0)
    (hr : l.recoverySince = 0 ∨ t0 ≤ l.recoverySince)
    (hp' : l'.core.proofMs = t0)
    (hcl : ∀ now pkt, e = .client now pkt →
      t0 ≤ now ∧ (pkt ≠ [] → s.reg.hasConnected = true → s.cfg.stallDeselect = true)) :
    l'.latchedSince ≠ 0 ∧ (l'.recoverySince = 0 ∨ t0 ≤ l'.recoverySince) := by
  by_cases hc : ∃ now pkt, e = .client now pkt
  · obtain ⟨now, pkt, rfl⟩ := hc
    obtain ⟨hnow, hgon⟩ := hcl now pkt rfl
    obtain ⟨m, hpass, hk⟩ := C13_latch_fields_client_sys s now pkt j l l' hl hl'
    rcases hk with ⟨⟨k1, k2, -⟩, -⟩ | ⟨⟨-, -, -, -, -, t6, -⟩, -⟩
    · rw [k1, k2]
      rcases hpass with ⟨-, rfl⟩ | ⟨-, -, -, -, a1, a2, -⟩ | ⟨hne, hreg, hoff, -⟩
      · exact ⟨hlat, hr⟩
      · rw [a1, a2]
        have := C13_single_ack_never_releases_run l.toSLink t0 [.sel now s.cfg.stallMinInFlight s.cfg.stallCeilingMs]
          hlat hp hr (by
            intro st hst
            simp only [List.mem_singleton] at hst
            subst hst
            exact hnow)
        exact ⟨this.1, this.2.2⟩
      · rw [hgon hne hreg] at hoff; cases hoff
    · rw [t6] at hp'; exact absurd hp'.symm ht0
  · have hne : ∀ now pkt, e ≠ .client now pkt := fun now pkt h => hc ⟨now, pkt, h⟩
    rcases C13_latch_fields_frame_sys s e hne hnr j l l' hl hl' with ⟨⟨k1, k2, -⟩, -⟩ | ⟨⟨-, -, -, -, -, t6, -⟩, -⟩
    · rw [k1, k2]; exact ⟨hlat, hr⟩
    · rw [t6] at hp'; exact absurd hp'.symm ht0

/-- What `QuietFor` asks of a client datagram: its clock is `≥ t0` (monotone clock) and, if it is routed by
the scheduler (non-empty, registration completed), the guard is on.  Nothing is asked of other events. -/
def ClientOk (t0 : Nat) (s : Sys.Sys F) : Sys.Ev → Prop
  | .client now pkt => t0 ≤ now ∧ (pkt ≠ [] → s.reg.hasConnected = true → s.cfg.stallDeselect = true)
  | _ => True

instance decClientOk (t0 : Nat) (s : Sys.Sys F) (e : Sys.Ev) : Decidable (ClientOk t0 s e) := by
  cases e with
  | client now pkt =>
    exact inferInstanceAs
      (Decidable (t0 ≤ now ∧ (pkt ≠ [] → s.reg.hasConnected = true → s.cfg.stallDeselect = true)))
  | _ => exact isTrue trivial

/-- "Nothing but time passes for link `j`": along the run, after every event the proof stamp of link `j`
is still `t0` (no further earned SRTLA ACK / keepalive echo, no tear-down), every client datagram reads a
clock `≥ t0` and no routed client datagram finds the guard switched off (`ClientOk`). -/
def QuietFor (t0 j : Nat) : Sys.Sys F → List Sys.Ev → Prop
  | _, [] => True
  | s, e :: evs =>
    (((Sys.step s e).1.links[j]?.map fun l' => l'.core.proofMs) = some t0 ∧ ClientOk t0 s e) ∧
    QuietFor t0 j (Sys.step s e).1 evs

instance decQuietFor (t0 j : Nat) : (s : Sys.Sys F) → (evs : List Sys.Ev) → Decidable (QuietFor t0 j s evs)
  | _, [] => isTrue trivial
  | s, e :: evs =>
    have := decQuietFor t0 j (Sys.step s e).1 evs
    inferInstanceAs (Decidable
      ((((Sys.step s e).1.links[j]?.map fun l' => l'.core.proofMs) = some t0 ∧ ClientOk t0 s e) ∧
        QuietFor t0 j (Sys.step s e).1 evs))

/-- **A single ACK never releases, along runs of the shell.**  Link `j` of the shell is latched, its one
delivery proof is stamped `t0` and no recovery run started before `t0` (in particular
`recoverySince = 0`: the pass before the ACK saw stale proof).  Then through ANY run of the shell in which
nothing but time passes for that link (`QuietFor`: no further proof, no tear-down, client clocks `≥ t0`,
guard not switched off) — any number of client datagrams and hence scheduling passes at any spacing, any
uplink datagrams that bring it no proof, flush / housekeeping ticks, configuration changes of thresholds
and ceiling, traffic and events on the other links — the link stays latched.
`hnr`: over events / runs that keep the link set (no `Ev.reload`); a reload keeps the whole record of every retained link
(`Props/SysReload.lean: reload_frame`) and the theorem applies again from the state after it. -/
theorem C13_single_ack_never_releases_sys_run (s : Sys.Sys F) (evs : List Sys.Ev) (hnr : Sys.NoReload evs) (j t0 : Nat)
    (l : FLink F)
    (hl : s.links[j]? = some l) (ht0 : t0 ≠ 0) (hlat : l.latchedSince ≠ 0) (hp : l.core.proofMs = t0)
    (hr : l.recoverySince = 0 ∨ t0 ≤ l.recoverySince) (hq : QuietFor t0 j s evs) :
    ∃ lf, (Sys.run s evs).1.links[j]? = some lf ∧ lf.latchedSince ≠ 0 ∧ lf.core.proofMs = t0 := by
  induction evs generalizing s l with
  | nil => exact ⟨l, hl, hlat, hp⟩
  | cons e evs ih =>
    obtain ⟨⟨q1, q2⟩, q3⟩ := hq
    have hlen : (Sys.step s e).1.links.length = s.links.length := (Hk.step_link s e hnr.head).2.1
    have hj : j < (Sys.step s e).1.links.length := by
      rw [hlen]; exact (List.getElem?_eq_some_iff.1 hl).1
    have hl' : (Sys.step s e).1.links[j]? = some (Sys.step s e).1.links[j] := List.getElem?_eq_getElem hj
    have hp' : (Sys.step s e).1.links[j].core.proofMs = t0 := by
      rw [hl'] at q1
      exact Option.some.inj q1
    have q2' : ∀ now pkt, e = .client now pkt →
        t0 ≤ now ∧ (pkt ≠ [] → s.reg.hasConnected = true → s.cfg.stallDeselect = true) := by
      rintro now pkt rfl
      exact q2
    obtain ⟨a, b⟩ := single_ack_step s e hnr.head j l _ t0 hl hl' ht0 hlat hp hr hp' q2'
    exact ih (Sys.step s e).1 hnr.tail _ hl' a hp' b q3

/-! ### non-vacuity: a concrete shell state and runs (`fixScalar`: the kernel evaluates the pass) -/

/-- Two live links at `now ≈ 5000`, registered session, guard on with threshold 2 and ceiling 1000 ms (no
RTT baseline ⇒ effective window = 1000).  Link 0 (conn id 1) holds sequence numbers 5 and 7 and its last
delivery proof is from 2000; link 1 (conn id 2) is idle and has never produced proof. -/
def exShell : Sys.Sys Int :=
  { links :=
      [ { (@FLink.newRegistering Int fixScalar 1 0) with
          core := { connId := 1, connected := true, phase := .live, inFlight := 2,
                    log := [(5, 100), (7, 120)], highestAcked := 4, lastReceived := some 4990, proofMs := 2000 },
          established := 1 },
        { (@FLink.newRegistering Int fixScalar 2 0) with
          core := { connId := 2, connected := true, phase := .live, lastReceived := some 4990 },
          established := 1 } ],
    reg := { (Srtla.Reg.Reg.new [] []) with hasConnected := true },
    cfg := { stallMinInFlight := 2, stallCeilingMs := 1000 } }

/-- An SRT data packet (sequence number 9), SRTLA ACKs of 5 and of 7, REG_ERR. -/
def exData9 : List UInt8 := [0, 0, 0, 9, 0, 0, 0, 0, 1, 2, 3, 4, 9, 9, 9, 9, 42]
def exSack5 : List UInt8 := [0x91, 0x00, 0, 0, 0, 0, 0, 5]
def exSack7 : List UInt8 := [0x91, 0x00, 0, 0, 0, 0, 0, 7]
def exRegErr : List UInt8 := [0x92, 0x10]

/-- Hypotheses of `C13_engage_only_if_sys` met: the client datagram at 5000 latches link 0 (proof 3000 ms
old ≥ 1000, backlog 2 ≥ 2) — stamped 5000, one gate event, gated (link 1 is healthy) — and not link 1,
which has no proof (`C13_never_proof_never_latched_step`). -/
example :
    (exShell.links.map fun l => (l.latchedSince, l.core.proofMs)) = [(0, 2000), (0, 0)] ∧
    ((@Sys.step Int fixScalar exShell (.client 5000 exData9)).1.links.map fun l =>
      (l.latchedSince, l.gateEvents, l.stallGated, l.recoverySince, l.core.proofMs)) =
      [(5000, 1, true, 0, 2000), (0, 0, false, 0, 0)] := by
  decide +kernel

/-- A whole cycle through the shell: latched at 5000; the SRTLA ACK of 5 at 5500 stamps proof (an `uplink`
event: latch fields untouched, `C13_latch_fields_frame_sys`); the pass at 6000 starts the recovery run;
the ACK of 7 at 7500 keeps proof fresh; the pass at 7999 does not release (dwell 2 × 1000 from 6000), the
pass at 8000 does (`C13_release_iff_sys`, `C13_unlatch_only_by_sys`). -/
example :
    let evs : List Sys.Ev := [.client 5000 exData9, .uplink 5500 1 exSack5, .client 6000 exData9,
      .uplink 7500 1 exSack7, .client 7999 exData9]
    ((@Sys.run Int fixScalar exShell evs).1.links.map fun l =>
      (l.latchedSince, l.recoverySince, l.core.proofMs)) = [(5000, 6000, 7500), (0, 0, 0)] ∧
    ((@Sys.run Int fixScalar exShell (evs ++ [.client 8000 exData9])).1.links.map fun l =>
      (l.latchedSince, l.recoverySince, l.core.proofMs)) = [(0, 0, 7500), (0, 0, 0)] := by
  decide +kernel

/-- A tear-down un-latches (`TornDown`): REG_ERR on the latched link; and switching the guard off does
(the `setCfg` event itself changes nothing — `C13_latch_fields_frame_sys` — the next pass clears). -/
example :
    ((@Sys.run Int fixScalar exShell [.client 5000 exData9, .uplink 5200 1 exRegErr]).1.links.map fun l =>
      (l.latchedSince, l.stallGated, l.gateEvents, l.core.proofMs, l.core.connected)) =
      [(0, false, 1, 0, false), (0, false, 0, 0, true)] ∧
    ((@Sys.run Int fixScalar exShell [.client 5000 exData9,
        .setCfg { stallDeselect := false }]).1.links.map fun l => (l.latchedSince, l.stallGated)) =
      [(5000, true), (0, false)] ∧
    ((@Sys.run Int fixScalar exShell [.client 5000 exData9, .setCfg { stallDeselect := false },
        .client 5001 exData9]).1.links.map fun l => (l.latchedSince, l.stallGated)) =
      [(0, false), (0, false)] := by
  decide +kernel

/-- `C13_never_proof_never_latched_run` applies to `exShell` (hypothesis on the start state met: link 1
has no proof and is not latched; link 0 has proof) … -/
example : ∀ l ∈ exShell.links, l.core.proofMs = 0 → l.latchedSince = 0 := by
  decide +kernel

/-- … and why the clock hypothesis is there: an SRTLA ACK processed at clock value 0 stamps the sentinel
"never" on a link that has proof and is latched.  (A clock running backwards to 0; `utils::now_ms()`
never returns 0.  Nothing is un-latched or latched wrongly by this — the link simply looks as if it had
no proof, so `is_stalled` is false for it from then on and the latch waits for fresh proof.) -/
example :
    ((@Sys.run Int fixScalar exShell [.client 5000 exData9, .uplink 0 1 exSack5]).1.links.map fun l =>
      (l.latchedSince, l.core.proofMs)) = [(5000, 0), (0, 0)] := by
  decide +kernel

/-- `C13_single_ack_never_releases_sys_run` on the example: latched at 5000, one SRTLA ACK at 5500 (proof
stamp 5500, the pass before it saw stale proof: `recoverySince = 0`); then passes at 6000, 6400, 9000, a
housekeeping tick and a flush in between, traffic going to link 1: `QuietFor 5500 0` holds of that run and
link 0 is still latched at the end (had the ACK of 7 arrived at 7500 it would have been released at 8000,
see the cycle above). -/
example :
    let s1 := (@Sys.run Int fixScalar exShell [.client 5000 exData9, .uplink 5500 1 exSack5]).1
    let evs : List Sys.Ev := [.client 6000 exData9, .hk 6100, .client 6400 exData9, .flush 6420, .client 9000 exData9]
    (s1.links.map fun l => (l.latchedSince, l.recoverySince, l.core.proofMs)) = [(5000, 0, 5500), (0, 0, 0)] ∧
    @QuietFor Int fixScalar 5500 0 s1 evs ∧
    ((@Sys.run Int fixScalar s1 evs).1.links.map fun l => (l.latchedSince, l.core.proofMs)) =
      [(5000, 5500), (0, 0)] := by
  decide +kernel

end shellRuns

/-! ## 13. A shell run, seen from one link, is a history of the alphabet

§11 tied the alphabet to the link model operation by operation and said that "the selection-view
projection of a shell run is a `Step` history".  Here that is a theorem with an EXPLICIT history
(`SelShell.runSteps s evs j`, Lemmas/SelShellHistory.lean): per event, a routed client datagram
contributes `env ; sel now thr ceil | selOff ; env` (timeout stamp; the guard pass with the event's clock
and the configuration of that moment; gate flag and quality cache) followed by the steps of "everything
else"; everything else contributes one `env` step if the six guard-written fields survived and the proof
stamp was kept or set non-zero, and `reset ; env` otherwise (a tear-down).  Every trace theorem of §2-10
can be instantiated with it; `C13_release_only_after_dwell_sys_run` does so for the dwell theorem. -/

section shellHistory
variable [Scalar F]
open Srtla.Link Srtla.SelShell

/-- **A shell run, seen from link `j`, is a history of the alphabet.**  For every start state, event list
(no uplink datagram processed at clock 0) and link index: the selection view of link `j` after
`Sys.run s evs` is `StallLatch.run` of its view before, along `runSteps s evs j`.
`hnr`: over events / runs that keep the link set (no `Ev.reload`); a reload keeps the whole record of every retained link
(`Props/SysReload.lean: reload_frame`) and the theorem applies again from the state after it. -/
theorem C13_shell_run_is_history (s : Sys.Sys F) (evs : List Sys.Ev) (hnr : Sys.NoReload evs) (j : Nat) (l : FLink F)
    (hl : s.links[j]? = some l)
    (hclk : ∀ e ∈ evs, ∀ now cid data, e = .uplink now cid data → 0 < now) :
    ∃ lf, (Sys.run s evs).1.links[j]? = some lf ∧ lf.toSLink = run l.toSLink (runSteps s evs j) :=
  runSteps_sound s evs j l hl hclk hnr

/-- **What the steps of the history are.**  The history of a run is the concatenation, event by event, of
`evSteps` (in the state the run had reached), and every step an event contributes is: an `env` step; or
the pass step of THAT event — then the event is a client datagram for which `select_connection_idx` ran,
and the step is `sel` with the event's clock and the configured `stall_min_in_flight` /
`stall_stale_ceiling_ms` if the guard was on, `selOff` if it was off; or a `reset`.  So the `sel` steps of
the history are exactly the shell's scheduling decisions with the guard on. -/
theorem C13_history_steps (s : Sys.Sys F) (pre : List Sys.Ev) (e : Sys.Ev) (j : Nat) :
    runSteps s (pre ++ [e]) j = runSteps s pre j ++ evSteps (Sys.run s pre).1 e j ∧
    ∀ st ∈ evSteps (Sys.run s pre).1 e j,
      (∃ x, st = .env x) ∨
      (∃ now pkt, e = .client now pkt ∧ pkt ≠ [] ∧ (Sys.run s pre).1.reg.hasConnected = true ∧
        st = if (Sys.run s pre).1.cfg.stallDeselect = true
             then .sel now (Sys.run s pre).1.cfg.stallMinInFlight (Sys.run s pre).1.cfg.stallCeilingMs
             else .selOff) ∨
      st = .reset := by
  refine ⟨runSteps_snoc s pre e j, fun st hst => ?_⟩
  rcases evSteps_mem _ e j st hst with h | ⟨now, pkt, he, hp, hs⟩ | h
  · exact .inl h
  · obtain ⟨hne, hreg⟩ := (passRan_iff _ pkt).1 hp
    refine .inr (.inl ⟨now, pkt, he, hne, hreg, ?_⟩)
    rw [hs]
    unfold passStep
    cases (Sys.run s pre).1.cfg.stallDeselect <;> rfl
  · exact .inr (.inr h)

/-- The history of link `j` up to and including the guard pass of a client datagram routed at `now` in the
state reached by `pre` (guard on there; `l` = link `j` in that state). -/
def historyToPass (s : Sys.Sys F) (pre : List Sys.Ev) (now j : Nat) (l : FLink F) : List (Step F) :=
  runSteps s pre j ++
    [envTo l.toSLink (setT (Sys.run s pre).1.cfg.connTimeoutMs l.toSLink),
     .sel now (Sys.run s pre).1.cfg.stallMinInFlight (Sys.run s pre).1.cfg.stallCeilingMs]

/-- `historyToPass` is a prefix of the history of the run extended by that client datagram. -/
theorem historyToPass_prefix (s : Sys.Sys F) (pre : List Sys.Ev) (now : Nat) (pkt : Sys.Bytes) (j : Nat)
    (l l' : FLink F) (hl : (Sys.run s pre).1.links[j]? = some l)
    (hl' : (Sys.run s (pre ++ [.client now pkt])).1.links[j]? = some l')
    (hne : pkt ≠ []) (hreg : (Sys.run s pre).1.reg.hasConnected = true)
    (hon : (Sys.run s pre).1.cfg.stallDeselect = true) :
    ∃ rest, runSteps s (pre ++ [.client now pkt]) j = historyToPass s pre now j l ++ rest := by
  rw [run_snoc_fst] at hl'
  have hp : passRan (Sys.run s pre).1 pkt = true := (passRan_iff _ pkt).2 ⟨hne, hreg⟩
  obtain ⟨m, -, hcase⟩ := client_guard (Sys.run s pre).1 pkt now j l l' hl hl'
  rcases hcase with ⟨hp', -⟩ | ⟨-, hm⟩
  · rw [hp] at hp'; cases hp'
  · rw [runSteps_snoc, evSteps_client_pass _ now pkt j l l' m hl hl' hp hm]
    refine ⟨[envTo (passView (Sys.run s pre).1 now l) m.toSLink] ++ stepsTo m.toSLink l'.toSLink, ?_⟩
    unfold historyToPass passStep
    rw [hon]
    simp only [if_true, List.append_assoc, List.cons_append, List.nil_append]

/-- **Release only after the dwell, along runs of the shell** (ghost-free form).  Take any start state in
which link `j` is not in the middle of a recovery run, any run `pre` of the shell (no uplink datagram
processed at clock 0), and a following client datagram at `now` that finds the guard on and takes link `j`
from latched to un-latched without tearing it down.  Then the history of link `j` up to and including that
pass (`historyToPass`) ends in a `FreshRun` — a segment whose first step is a pass at some time `t0`,
which consists of passes and environment steps only (no tear-down of the link, no guard-off pass), and in
which EVERY pass — i.e. every scheduling decision the shell took from `t0` on — found the link latched
with fresh proof (each at its own clock, RTT baseline and configured ceiling) — and
`now − t0 ≥ 2 × clamp(4 × smoothed RTT, 1000, ceiling)` evaluated at the releasing decision.
`hnr`: over events / runs that keep the link set (no `Ev.reload`); a reload keeps the whole record of every retained link
(`Props/SysReload.lean: reload_frame`) and the theorem applies again from the state after it. -/
theorem C13_release_only_after_dwell_sys_run (s : Sys.Sys F) (pre : List Sys.Ev) (hnr : Sys.NoReload pre) (now : Nat)
    (pkt : Sys.Bytes) (j : Nat) (l0 l l' : FLink F)
    (hl0 : s.links[j]? = some l0) (h0 : l0.latchedSince ≠ 0 → l0.recoverySince = 0)
    (hclk : ∀ e ∈ pre, ∀ now cid data, e = .uplink now cid data → 0 < now)
    (hl : (Sys.run s pre).1.links[j]? = some l)
    (hl' : (Sys.run s (pre ++ [.client now pkt])).1.links[j]? = some l')
    (hon : (Sys.run s pre).1.cfg.stallDeselect = true)
    (hlat : l.latchedSince ≠ 0) (hrel : l'.latchedSince = 0) (hnt : ¬ TornDown l') :
    ∃ pre' suf t0, historyToPass s pre now j l = pre' ++ suf ∧
      FreshRun (run l0.toSLink pre') suf t0 (run l0.toSLink (historyToPass s pre now j l)) ∧
      now - t0 ≥ 2 * effStale l.toSLink (Sys.run s pre).1.cfg.stallCeilingMs := by
  have hl'' := hl'
  rw [run_snoc_fst] at hl''
  -- the pass released
  have hcond : (l.core.proofMs ≠ 0 ∧ now - l.core.proofMs < effStale l.toSLink (Sys.run s pre).1.cfg.stallCeilingMs) ∧
      now - (if l.recoverySince = 0 then now else l.recoverySince) ≥
        2 * effStale l.toSLink (Sys.run s pre).1.cfg.stallCeilingMs := by
    rcases C13_unlatch_only_by_sys _ _ rfl j l l' hl hl'' hlat hrel with t | ⟨now', pkt', he, -, -, h⟩
    · exact absurd t hnt
    · cases he
      rcases h with h | ⟨-, h⟩
      · rw [hon] at h; cases h
      · exact h
  have hsel0 : (sel l.toSLink now (Sys.run s pre).1.cfg.stallMinInFlight
      (Sys.run s pre).1.cfg.stallCeilingMs).latchedSince = 0 :=
    (C13_release_iff l.toSLink now _ _ hlat).2 hcond
  -- the view reached by the history of `pre` is `l`'s
  obtain ⟨lf, hlf, hview⟩ := runSteps_sound s pre j l0 hl0 hclk hnr
  rw [hl] at hlf
  cases hlf
  have hstamp : run l0.toSLink (runSteps s pre j ++
      [envTo l.toSLink (setT (Sys.run s pre).1.cfg.connTimeoutMs l.toSLink)]) =
      setT (Sys.run s pre).1.cfg.connTimeoutMs l.toSLink := by
    rw [run_snoc, ← hview]
    exact step_envTo _ _ ⟨rfl, rfl, rfl, rfl, rfl, rfl⟩ (.inl rfl)
  have hsplit : historyToPass s pre now j l =
      (runSteps s pre j ++ [envTo l.toSLink (setT (Sys.run s pre).1.cfg.connTimeoutMs l.toSLink)]) ++
        [.sel now (Sys.run s pre).1.cfg.stallMinInFlight (Sys.run s pre).1.cfg.stallCeilingMs] := by
    unfold historyToPass
    simp only [List.append_assoc, List.cons_append, List.nil_append]
  rw [hsplit]
  have h1 : (run l0.toSLink (runSteps s pre j ++
      [envTo l.toSLink (setT (Sys.run s pre).1.cfg.connTimeoutMs l.toSLink)])).latchedSince ≠ 0 := by
    rw [hstamp]; exact hlat
  have h2 : (run l0.toSLink ((runSteps s pre j ++
      [envTo l.toSLink (setT (Sys.run s pre).1.cfg.connTimeoutMs l.toSLink)]) ++
      [.sel now (Sys.run s pre).1.cfg.stallMinInFlight (Sys.run s pre).1.cfg.stallCeilingMs])).latchedSince = 0 := by
    rw [run_snoc, hstamp]
    show (sel (setT _ l.toSLink) now _ _).latchedSince = 0
    rw [sel_setT]
    exact hsel0
  obtain ⟨pre', suf, t0, a, b, c⟩ := C13_release_only_after_dwell_trace l0.toSLink h0 _ now _ _ h1 h2
  refine ⟨pre', suf, t0, a, b, ?_⟩
  rw [hstamp] at c
  exact c

/-- The history of link 0 of `exShell` along the release cycle of §12: its passes are the four client
datagrams (all found the guard on), there is no `reset` and no guard-off pass in it, and running the
alphabet along it gives the link's view after the shell run (`C13_shell_run_is_history`): un-latched. -/
example :
    let evs : List Sys.Ev := [.client 5000 exData9, .uplink 5500 1 exSack5, .client 6000 exData9,
      .uplink 7500 1 exSack7, .client 7999 exData9, .client 8000 exData9]
    passTimes (@runSteps Int fixScalar exShell evs 0) = [5000, 6000, 7999, 8000] ∧
    (@runSteps Int fixScalar exShell evs 0).length = 18 ∧
    (run (@FLink.toSLink Int fixScalar exShell.links[0]) (@runSteps Int fixScalar exShell evs 0)).latchedSince = 0 ∧
    (run (@FLink.toSLink Int fixScalar exShell.links[0])
      (@runSteps Int fixScalar exShell (evs.take 5) 0)).latchedSince = 5000 := by
  decide +kernel

end shellHistory

end Srtla.Props.C13
