import Srtla.Model.Conn
import Srtla.Lemmas.Log
import Srtla.Lemmas.Conn
/-!
# C02 — per-link in-flight count equals packets sent and not yet retired

Refinement of the packet log + cumulative-ACK high-water optimisation to a per-link list
without duplicates ("sent and not yet retired"), for every history of sends, cumulative ACKs,
SRTLA ACKs, NAKs and resets over any number of links.

`C02_inv_history` is the inductive invariant, `C02_refines` (end of file) the history-level refinement
to the per-link set machine `specStep`.
-/
namespace Srtla.Props.C02
open Srtla.Conn Srtla.Gen

/-! ## Single link: what each operation does to the set, for ANY prior history -/

/-- A send adds the number (once). -/
theorem C02_send (c : Conn) (s : Int) (t : Nat) (x : Int) :
    x ∈ (c.register s t).keys ↔ x = s ∨ x ∈ c.keys := by
  rw [register_keys, mem_specRegister]

/-- **The effect of a cumulative ACK does not depend on the order or spacing of earlier ACKs**:
whatever the high-water mark is, exactly the numbers at or below the ACK are retired. -/
theorem C02_ack_order_independent (c : Conn) (a : Int) (now : Nat) (h : LogInv c) :
    (c.srtAck a now).1.keys = c.keys.filter (fun s => decide (s > a)) :=
  srtAck_keys c a now h

/-- A NAK / SRTLA ACK retires exactly that number. -/
theorem C02_nak_srtla_ack (c : Conn) (s : Int) (cl : Bool) (now : Nat) :
    (c.nak s now).1.keys = c.keys.filter (· != s) ∧
    (c.srtlaAck s cl now).1.keys = c.keys.filter (· != s) :=
  ⟨nak_keys c s now, srtlaAck_keys c s cl now⟩

/-- ACKs and NAKs for a number the link does not hold leave the whole record untouched. -/
theorem C02_untouched (c : Conn) (s : Int) (cl : Bool) (now : Nat) (h : s ∉ c.keys) :
    (c.nak s now).1 = c ∧ (c.srtlaAck s cl now).1 = c ∧
    (c.nak s now).2 = false ∧ (c.srtlaAck s cl now).2 = false := by
  have hn : ¬ (c.log.any (·.1 == s) = true) := fun ha => h ((any_iff_mem_keys c.log s).mp ha)
  simp only [Conn.nak, Conn.srtlaAck, if_neg hn, and_self]

/-- A cumulative ACK never touches window or congestion state, and is a no-op on the set when
nothing at or below it is held. -/
theorem C02_cumack_frame (c : Conn) (a : Int) (now : Nat) :
    (c.srtAck a now).1.window = c.window ∧ (c.srtAck a now).1.cong = c.cong ∧
    (c.srtAck a now).1.connected = c.connected := by
  unfold Conn.srtAck; split <;> simp

/-- The invariant: no duplicates, every logged number above the high-water mark, and the
in-flight counter equals the number of logged packets (hence is never negative). -/
theorem C02_inv_step (c : Conn) (s : Int) (t now : Nat) (cl : Bool) (h : LogInv c)
    (hs : I32_MIN < s) :
    LogInv (c.register s t) ∧ LogInv (c.srtAck s now).1 ∧ LogInv (c.nak s now).1 ∧
    LogInv (c.srtlaAck s cl now).1 ∧ LogInv c.ackGlobal ∧ LogInv c.markForRecovery ∧
    LogInv c.resetForReconnect ∧ LogInv (c.clearPreRegistration now) :=
  ⟨register_inv c s t h hs, srtAck_inv c s now h, nak_inv c s now h, srtlaAck_inv c s cl now h,
   (ackGlobal_keys c).2 h, (reset_inv c now).1, (reset_inv c now).2.1, (reset_inv c now).2.2.1⟩

theorem C02_count_nonneg (c : Conn) (h : LogInv c) : 0 ≤ c.inFlight ∧ c.inFlight = c.keys.length := by
  rw [h.count]; exact ⟨Int.natCast_nonneg _, rfl⟩

/-! ## All links: event histories -/

inductive ResetKind | recovery | reconnect | reg3
deriving DecidableEq

/-- Events of the fan-out layer. Sequence numbers are the wire `u32`s; sends carry data sequence
numbers, i.e. `< 2^31` (`get_srt_sequence_number`). -/
inductive Ev where
  | send (i : Nat) (seq : Nat) (t : Nat)           -- register_packet on link i (unique copy or probe)
  | track (seq connId ts : Nat)                    -- sequence tracker insert
  | cumAck (ack : Nat) (now : Nat)
  | srtlaAck (idx : Nat) (seq : Nat) (classic : Bool) (now : Nat)
  | nak (seq : Nat) (now : Nat)
  | reset (i : Nat) (k : ResetKind) (now : Nat)

structure St where
  links : Links
  trk : Tracker

def step (s : St) : Ev → St
  | .send i seq t => { s with links := updateAt s.links i (·.register (toI32 seq) t) }
  | .track seq cid ts => { s with trk := s.trk.insert seq cid ts }
  | .cumAck a now => { s with links := evSrtAck s.links (toI32 a) now }
  | .srtlaAck idx seq cl now => { s with links := evSrtlaAck s.links idx (toI32 seq) cl now }
  | .nak n now => { s with links := (attributeNak s.links s.trk n now).1 }
  | .reset i k now =>
    { s with links := updateAt s.links i (fun c =>
        match k with
        | .recovery => c.markForRecovery
        | .reconnect => c.resetForReconnect
        | .reg3 => c.clearPreRegistration now) }

def wf : Ev → Prop
  | .send _ seq _ => seq < 2147483648
  | _ => True

def AllInv (ls : Links) : Prop := ∀ c ∈ ls, LogInv c

theorem toI32_data (n : Nat) (h : n < 2147483648) : I32_MIN < toI32 n := by
  unfold toI32 I32_MIN
  have : n % 4294967296 = n := Nat.mod_eq_of_lt (by omega)
  simp only [this]
  split <;> omega

theorem allInv_updateAt (ls : Links) (i : Nat) (f : Conn → Conn) (h : AllInv ls)
    (hf : ∀ c, LogInv c → LogInv (f c)) : AllInv (updateAt ls i f) := by
  intro c hc
  simp only [updateAt, List.mem_mapIdx] at hc
  obtain ⟨j, hj, rfl⟩ := hc
  split
  · exact hf _ (h _ (List.getElem_mem hj))
  · exact h _ (List.getElem_mem hj)

theorem allInv_map (ls : Links) (f : Conn → Conn) (h : AllInv ls)
    (hf : ∀ c, LogInv c → LogInv (f c)) : AllInv (ls.map f) := by
  intro c hc
  obtain ⟨d, hd, rfl⟩ := List.mem_map.mp hc
  exact hf d (h d hd)

theorem allInv_others (ls : Links) (j skip : Nat) (s : Int) (cl : Bool) (now : Nat) (h : AllInv ls) :
    AllInv (srtlaAckOthers ls j skip s cl now) := by
  induction ls generalizing j with
  | nil => intro c hc; simp [srtlaAckOthers] at hc
  | cons c rest ih =>
    have hr : AllInv rest := fun d hd => h d (List.mem_cons_of_mem _ hd)
    have hc : LogInv c := h c (List.mem_cons_self)
    unfold srtlaAckOthers
    split
    · intro d hd
      rcases List.mem_cons.mp hd with rfl | hd
      · exact hc
      · exact ih (j + 1) hr d hd
    · dsimp only
      split
      · intro d hd
        rcases List.mem_cons.mp hd with rfl | hd
        · exact srtlaAck_inv c s cl now hc
        · exact hr d hd
      · intro d hd
        rcases List.mem_cons.mp hd with rfl | hd
        · exact hc
        · exact ih (j + 1) hr d hd

theorem allInv_nakScan (ls : Links) (s : Int) (now : Nat) (h : AllInv ls) :
    AllInv (nakScan ls s now).1 := by
  induction ls with
  | nil => intro c hc; simp [nakScan] at hc
  | cons c rest ih =>
    have hr : AllInv rest := fun d hd => h d (List.mem_cons_of_mem _ hd)
    have hc : LogInv c := h c (List.mem_cons_self)
    unfold nakScan
    dsimp only
    split
    · intro d hd
      rcases List.mem_cons.mp hd with rfl | hd
      · exact nak_inv c s now hc
      · exact hr d hd
    · intro d hd
      rcases List.mem_cons.mp hd with rfl | hd
      · exact hc
      · exact ih hr d hd

theorem allInv_attributeNak (ls : Links) (trk : Tracker) (n now : Nat) (h : AllInv ls) :
    AllInv (attributeNak ls trk n now).1 := by
  unfold attributeNak
  dsimp only
  split
  · split
    · split
      · try dsimp only
        split
        · rename_i _ c hc _
          exact allInv_updateAt ls _ _ h (fun _ _ => by
            have : c ∈ ls := List.mem_of_getElem? hc
            exact nak_inv c _ now (h c this))
        · exact h
      · exact h
    · exact allInv_nakScan ls _ now h
  · exact allInv_nakScan ls _ now h

/-- **Invariant over every history**: from links whose logs satisfy the invariant (in particular
fresh links), after any sequence of events every link's in-flight counter equals the number of
distinct logged sequence numbers and every logged number is above the link's high-water mark. -/
theorem C02_inv_history (s : St) (evs : List Ev) (h : AllInv s.links) (hw : ∀ e ∈ evs, wf e) :
    AllInv (evs.foldl step s).links := by
  induction evs generalizing s with
  | nil => exact h
  | cons e rest ih =>
    apply ih
    · cases e with
      | send i seq t =>
        have hseq : seq < 2147483648 := hw _ (List.mem_cons_self)
        exact allInv_updateAt _ _ _ h (fun c hc => register_inv c _ t hc (toI32_data seq hseq))
      | track seq cid ts => exact h
      | cumAck a now => exact allInv_map _ _ h (fun c hc => srtAck_inv c _ now hc)
      | srtlaAck idx seq cl now =>
        simp only [step, evSrtlaAck]
        apply allInv_map _ _ _ (fun c hc => (ackGlobal_keys c).2 hc)
        split
        · exact h
        · try dsimp only
          split
          · rename_i _ c hc _
            exact allInv_updateAt _ _ _ h (fun _ _ =>
              srtlaAck_inv c _ cl now (h c (List.mem_of_getElem? hc)))
          · exact allInv_others _ _ _ _ _ _ h
      | nak n now => exact allInv_attributeNak _ _ _ _ h
      | reset i k now =>
        exact allInv_updateAt _ _ _ h (fun c _ => by
          cases k
          · exact (reset_inv c now).1
          · exact (reset_inv c now).2.1
          · exact (reset_inv c now).2.2.1)
    · intro e' he'; exact hw e' (List.mem_cons_of_mem _ he')

/-! ## Which link an SRTLA ACK retires from -/

def keysOf (ls : Links) : List (List Int) := ls.map Conn.keys

/-- Spec: erase `s` from the set at index `i`. -/
def specEraseAt (ks : List (List Int)) (i : Nat) (s : Int) : List (List Int) :=
  ks.mapIdx (fun j k => if j = i then specErase k s else k)

/-- Spec: erase `s` from the first set, other than index `skip`, that holds it (scan from `j`). -/
def specOthers : List (List Int) → Nat → Nat → Int → List (List Int)
  | [], _, _, _ => []
  | k :: rest, j, skip, s =>
    if j = skip then k :: specOthers rest (j + 1) skip s
    else if s ∈ k then specErase k s :: rest else k :: specOthers rest (j + 1) skip s

theorem srtlaAck_found (c : Conn) (s : Int) (cl : Bool) (now : Nat) :
    (c.srtlaAck s cl now).2 = true ↔ s ∈ c.keys := by
  unfold Conn.srtlaAck
  split
  · rename_i h
    have := (any_iff_mem_keys c.log s).mp h
    split <;> simp [this]
  · rename_i h
    have : s ∉ c.keys := fun hm => h ((any_iff_mem_keys c.log s).mpr hm)
    constructor
    · intro hf; cases hf
    · intro hm; exact absurd hm this

theorem keysOf_others (ls : Links) (j skip : Nat) (s : Int) (cl : Bool) (now : Nat) :
    keysOf (srtlaAckOthers ls j skip s cl now) = specOthers (keysOf ls) j skip s := by
  induction ls generalizing j with
  | nil => rfl
  | cons c rest ih =>
    unfold srtlaAckOthers
    simp only [keysOf, List.map_cons, specOthers]
    split
    · simp only [List.map_cons]
      congr 1
      exact ih (j + 1)
    · try dsimp only
      by_cases hm : s ∈ c.keys
      · rw [if_pos ((srtlaAck_found c s cl now).mpr hm), if_pos hm]
        simp only [List.map_cons, srtlaAck_keys]
      · have : ¬ ((c.srtlaAck s cl now).2 = true) := fun h => hm ((srtlaAck_found c s cl now).mp h)
        rw [if_neg this, if_neg hm]
        simp only [List.map_cons]
        congr 1
        exact ih (j + 1)

theorem keysOf_ackGlobal (ls : Links) : keysOf (ls.map Conn.ackGlobal) = keysOf ls := by
  simp only [keysOf, List.map_map]
  apply List.map_congr_left
  intro c _
  exact (ackGlobal_keys c).1

theorem keysOf_updateAt_const (ls : Links) (i : Nat) (c c' : Conn) (s : Int)
    (hc : ls[i]? = some c) (hk : c'.keys = specErase c.keys s) :
    keysOf (updateAt ls i (fun _ => c')) = specEraseAt (keysOf ls) i s := by
  apply List.ext_getElem?
  intro j
  simp only [keysOf, updateAt, specEraseAt, List.getElem?_map, List.getElem?_mapIdx]
  by_cases hj : j = i
  · subst hj
    simp only [hc, if_true, Option.map_some, hk]
  · simp only [if_neg hj]
    cases ls[j]? <;> rfl

/-- **SRTLA ACK, arrival link first**: if the link the ACK arrived on holds the number, it is
retired there and no other link's set changes — even if another link holds a probe copy. -/
theorem C02_srtla_ack_arrival_first (ls : Links) (idx : Nat) (c : Conn) (s : Int) (cl : Bool) (now : Nat)
    (hc : ls[idx]? = some c) (hs : s ∈ c.keys) :
    keysOf (evSrtlaAck ls idx s cl now) = specEraseAt (keysOf ls) idx s := by
  simp only [evSrtlaAck, hc, keysOf_ackGlobal]
  rw [if_pos ((srtlaAck_found c s cl now).mpr hs)]
  exact keysOf_updateAt_const ls idx c _ s hc (srtlaAck_keys c s cl now)

/-- **…otherwise the first other holder**: if the arrival link does not hold the number, it is
retired from the first other link (in index order) that does, and from no other. -/
theorem C02_srtla_ack_first_other_holder (ls : Links) (idx : Nat) (c : Conn) (s : Int) (cl : Bool)
    (now : Nat) (hc : ls[idx]? = some c) (hs : s ∉ c.keys) :
    keysOf (evSrtlaAck ls idx s cl now) = specOthers (keysOf ls) 0 idx s := by
  simp only [evSrtlaAck, hc, keysOf_ackGlobal]
  have : ¬ ((c.srtlaAck s cl now).2 = true) := fun h => hs ((srtlaAck_found c s cl now).mp h)
  rw [if_neg this]
  exact keysOf_others ls 0 idx s cl now

/-- A cumulative ACK retires, on EVERY link, exactly the numbers at or below it. -/
theorem C02_cumack_all_links (ls : Links) (a : Int) (now : Nat) (h : AllInv ls) :
    keysOf (evSrtAck ls a now) = (keysOf ls).map (fun k => k.filter (fun s => decide (s > a))) := by
  simp only [keysOf, evSrtAck, List.map_map]
  apply List.map_congr_left
  intro c hc
  exact srtAck_keys c a now (h c hc)

/-- Fresh links satisfy the invariant (non-vacuity of the hypothesis above). -/
example : AllInv [({ connId := 1 } : Conn), { connId := 2 }] := by
  intro c hc
  simp at hc
  rcases hc with rfl | rfl <;> exact ⟨by simp [Conn.keys], by simp [Conn.keys], by simp [Conn.keys]⟩


/-! ## History-level refinement to per-link sets (`C02_refines`)

The spec keeps, per link, the duplicate-free list of sequence numbers "sent and not yet retired".
It never looks at the packet log's time stamps, at `highest_acked`, at the in-flight counter, at the
window or at any congestion state.  Which link a NAK is charged to is decided by the sequence tracker
(`Tracker`, shared verbatim with the model: the ring is specified separately by `C05_tracker_spec`)
and the links' connection ids, so the spec carries those two as well. -/

/-- Abstract state: conn id per link (never changes), key list per link, the sequence tracker. -/
structure Spec where
  ids : List Nat
  keys : List (List Int)
  trk : Tracker

/-- Apply `g` to the set at index `i` (out of range: unchanged). -/
def specAt (ks : List (List Int)) (i : Nat) (g : List Int → List Int) : List (List Int) :=
  ks.mapIdx (fun j k => if j = i then g k else k)

/-- Spec of the fallback scan: erase `s` from the first set that holds it. -/
def specScan : List (List Int) → Int → List (List Int)
  | [], _ => []
  | k :: rest, s => if s ∈ k then specErase k s :: rest else k :: specScan rest s

/-- Spec of an SRTLA ACK arriving on link `idx`: the arrival link if it holds the number, otherwise
the first other holder; an arrival index that names no link changes nothing. -/
def specSrtlaAck (ks : List (List Int)) (idx : Nat) (s : Int) : List (List Int) :=
  match ks[idx]? with
  | none => ks
  | some k => if s ∈ k then specEraseAt ks idx s else specOthers ks 0 idx s

/-- Spec of a NAK: the charged link is the remembered carrier if the tracker still remembers one that
is present (erasing is the identity if it no longer holds the number — no fall-through), otherwise
the first holder. -/
def specNak (sp : Spec) (n now : Nat) : List (List Int) :=
  match sp.trk.get n now with
  | some cid =>
    match sp.ids.findIdx? (· == cid) with
    | some pos => specEraseAt sp.keys pos (toI32 n)
    | none => specScan sp.keys (toI32 n)
  | none => specScan sp.keys (toI32 n)

/-- The spec machine: send inserts (once); a cumulative ACK removes everything at or below it on
EVERY link; an SRTLA ACK / NAK removes the number from one link; a reset empties the link. -/
def specStep (sp : Spec) : Ev → Spec
  | .send i seq _ => { sp with keys := specAt sp.keys i (fun k => specRegister k (toI32 seq)) }
  | .track seq cid ts => { sp with trk := sp.trk.insert seq cid ts }
  | .cumAck a _ => { sp with keys := sp.keys.map (fun k => specCumAck k (toI32 a)) }
  | .srtlaAck idx seq _ _ => { sp with keys := specSrtlaAck sp.keys idx (toI32 seq) }
  | .nak n now => { sp with keys := specNak sp n now }
  | .reset i _ _ => { sp with keys := specAt sp.keys i (fun _ => []) }

/-- Abstraction map. -/
def absOf (s : St) : Spec := { ids := s.links.map (·.connId), keys := keysOf s.links, trk := s.trk }

/-! ### Conn ids never change (lemmas in `Lemmas/Conn.lean`: `idsOf_*`) -/

/-- **Conn ids are constant along every history** (what lets the spec carry them as a constant). -/
theorem C02_ids_constant (s : St) (e : Ev) : idsOf (step s e).links = idsOf s.links := by
  cases e with
  | send i seq t => exact idsOf_updateAt _ _ _ (fun c _ => connId_register c _ t)
  | track seq cid ts => rfl
  | cumAck a now => exact idsOf_map _ _ (fun c => connId_srtAck c _ now)
  | srtlaAck idx seq cl now => exact idsOf_evSrtlaAck _ _ _ _ _
  | nak n now => exact idsOf_attributeNak _ _ _ _
  | reset i k now =>
    exact idsOf_updateAt _ _ _ (fun c _ => by cases k <;> rfl)

/-! ### Key lists follow the spec, event by event -/

theorem keysOf_updateAt (ls : Links) (i : Nat) (f : Conn → Conn) (g : List Int → List Int)
    (hf : ∀ c, ls[i]? = some c → (f c).keys = g c.keys) :
    keysOf (updateAt ls i f) = specAt (keysOf ls) i g := by
  apply List.ext_getElem?
  intro j
  simp only [keysOf, updateAt, specAt, List.getElem?_map, List.getElem?_mapIdx]
  cases hj : ls[j]? with
  | none => rfl
  | some c =>
    simp only [Option.map_some]
    split
    · rename_i h; subst h; rw [hf c hj]
    · rfl

theorem specEraseAt_eq (ks : List (List Int)) (i : Nat) (s : Int) :
    specEraseAt ks i s = specAt ks i (fun k => specErase k s) := rfl

theorem keysOf_nakScan (ls : Links) (s : Int) (now : Nat) :
    keysOf (nakScan ls s now).1 = specScan (keysOf ls) s := by
  induction ls with
  | nil => rfl
  | cons c rest ih =>
    unfold nakScan
    dsimp only
    simp only [keysOf, List.map_cons, specScan] at ih ⊢
    by_cases hm : s ∈ c.keys
    · rw [if_pos ((nak_snd_iff c s now).mpr hm), if_pos hm]
      simp only [List.map_cons, nak_keys]
    · have : ¬ ((c.nak s now).2 = true) := fun h => hm ((nak_snd_iff c s now).mp h)
      rw [if_neg this, if_neg hm]
      simp only [List.map_cons, ih]

theorem keysOf_attributeNak (ls : Links) (trk : Tracker) (n now : Nat) :
    keysOf (attributeNak ls trk n now).1 =
      specNak { ids := idsOf ls, keys := keysOf ls, trk := trk } n now := by
  unfold attributeNak specNak
  dsimp only
  cases hg : trk.get n now with
  | none => exact keysOf_nakScan ls _ now
  | some cid =>
    dsimp only
    rw [findIdx_ids]
    cases hp : ls.findIdx? (·.connId == cid) with
    | none => exact keysOf_nakScan ls _ now
    | some pos =>
      dsimp only
      cases hc : ls[pos]? with
      | none =>
        -- unreachable (findIdx? returns an index in range); both sides are the identity anyway
        dsimp only
        rw [specEraseAt_eq]
        apply List.ext_getElem?
        intro j
        simp only [keysOf, specAt, List.getElem?_map, List.getElem?_mapIdx]
        cases hj : ls[j]? with
        | none => rfl
        | some d =>
          simp only [Option.map_some]
          split
          · rename_i h; subst h; rw [hc] at hj; cases hj
          · rfl
      | some c =>
        dsimp only
        by_cases hm : toI32 n ∈ c.keys
        · rw [if_pos ((nak_snd_iff c _ now).mpr hm), specEraseAt_eq]
          exact keysOf_updateAt ls pos _ _ (fun d hd => by
            rw [hc] at hd; cases hd; exact nak_keys _ _ _)
        · have hnf : ¬ ((c.nak (toI32 n) now).2 = true) := fun h => hm ((nak_snd_iff c _ now).mp h)
          rw [if_neg hnf, specEraseAt_eq]
          -- erasing a number that is not held is the identity
          apply List.ext_getElem?
          intro j
          simp only [keysOf, specAt, List.getElem?_map, List.getElem?_mapIdx]
          cases hj : ls[j]? with
          | none => rfl
          | some d =>
            simp only [Option.map_some]
            split
            · rename_i h; subst h
              rw [hc] at hj; cases hj
              have := nak_keys c (toI32 n) now
              rw [nak_fst_of_not_mem c _ now hm] at this
              rw [← this]
            · rfl

theorem keysOf_evSrtlaAck (ls : Links) (idx : Nat) (s : Int) (cl : Bool) (now : Nat) :
    keysOf (evSrtlaAck ls idx s cl now) = specSrtlaAck (keysOf ls) idx s := by
  unfold specSrtlaAck
  cases hc : ls[idx]? with
  | none =>
    have : (keysOf ls)[idx]? = none := by simp [keysOf, hc]
    rw [this]
    simp only [evSrtlaAck, hc, keysOf_ackGlobal]
  | some c =>
    have : (keysOf ls)[idx]? = some c.keys := by simp [keysOf, hc]
    rw [this]
    dsimp only
    by_cases hs : s ∈ c.keys
    · rw [if_pos hs]; exact C02_srtla_ack_arrival_first ls idx c s cl now hc hs
    · rw [if_neg hs]; exact C02_srtla_ack_first_other_holder ls idx c s cl now hc hs

/-- **One event**: the abstraction of the model's successor state is the spec's successor of the
abstraction. -/
theorem C02_refines_step (s : St) (e : Ev) (h : AllInv s.links) :
    absOf (step s e) = specStep (absOf s) e := by
  have hid := C02_ids_constant s e
  unfold idsOf at hid
  cases e with
  | send i seq t =>
    simp only [absOf, specStep, Spec.mk.injEq]
    exact ⟨hid, keysOf_updateAt _ _ _ _ (fun c _ => register_keys c _ t), rfl⟩
  | track seq cid ts => rfl
  | cumAck a now =>
    simp only [absOf, specStep, Spec.mk.injEq]
    exact ⟨hid, C02_cumack_all_links _ _ now h, rfl⟩
  | srtlaAck idx seq cl now =>
    simp only [absOf, specStep, Spec.mk.injEq]
    exact ⟨hid, keysOf_evSrtlaAck _ _ _ _ _, rfl⟩
  | nak n now =>
    simp only [absOf, specStep, Spec.mk.injEq]
    exact ⟨hid, keysOf_attributeNak _ _ _ _, rfl⟩
  | reset i k now =>
    simp only [absOf, specStep, Spec.mk.injEq]
    refine ⟨hid, keysOf_updateAt _ _ _ _ (fun c _ => ?_), rfl⟩
    cases k
    · exact (reset_inv c now).2.2.2.1
    · exact (reset_inv c now).2.2.2.2.1
    · exact (reset_inv c now).2.2.2.2.2

/-- **C02 refinement, every history.**  From any links whose logs satisfy the invariant (fresh links
do), after EVERY finite list of sends (incl. re-sends at or below the high-water mark and probe
copies), tracker inserts, cumulative ACKs in any order, SRTLA ACKs, NAKs and resets:

* the model's per-link key lists, conn ids and tracker are exactly the fold of the spec machine over
  the same events (`send` inserts once; `cumAck a` removes every number `≤ a` on EVERY link; an SRTLA
  ACK removes the number from the arrival link if it holds it, else from the first other holder; a
  NAK removes it from the charged link only; `reset` empties the link);
* on every link the in-flight counter equals the size of that set (hence is never negative) and the
  set has no duplicates. -/
theorem C02_refines (s : St) (evs : List Ev) (h : AllInv s.links) (hw : ∀ e ∈ evs, wf e) :
    absOf (evs.foldl step s) = evs.foldl specStep (absOf s) ∧
    ∀ c ∈ (evs.foldl step s).links,
      c.inFlight = c.keys.length ∧ 0 ≤ c.inFlight ∧ c.keys.Nodup := by
  refine ⟨?_, fun c hc => ?_⟩
  · induction evs generalizing s with
    | nil => rfl
    | cons e rest ih =>
      simp only [List.foldl_cons]
      rw [ih (step s e) (C02_inv_history s [e] h (fun e' he' => hw e' (by simp_all)))
        (fun e' he' => hw e' (List.mem_cons_of_mem _ he')), C02_refines_step s e h]
  · have hi := C02_inv_history s evs h hw c hc
    exact ⟨hi.count, (C02_count_nonneg c hi).1, hi.nodup⟩

/-- Per link, read off the refinement: link `j`'s key list is the `j`-th set of the spec fold and its
in-flight counter is that set's size. -/
theorem C02_refines_link (s : St) (evs : List Ev) (h : AllInv s.links) (hw : ∀ e ∈ evs, wf e)
    (j : Nat) (c : Conn) (hc : (evs.foldl step s).links[j]? = some c) :
    (evs.foldl specStep (absOf s)).keys[j]? = some c.keys ∧
    (c.inFlight : Int) = c.keys.length := by
  obtain ⟨h1, h2⟩ := C02_refines s evs h hw
  refine ⟨?_, (h2 c (List.mem_of_getElem? hc)).1⟩
  rw [← h1]
  simp [absOf, keysOf, hc]

/-- A reset leaves the link's set empty, whatever the history before it. -/
theorem C02_reset_empties (s : St) (i : Nat) (k : ResetKind) (now : Nat) (c : Conn)
    (hc : (step s (.reset i k now)).links[i]? = some c) : c.keys = [] ∧ c.inFlight = 0 := by
  simp only [step, updateAt, List.getElem?_mapIdx] at hc
  cases hi : s.links[i]? with
  | none => rw [hi] at hc; cases hc
  | some d =>
    rw [hi] at hc
    simp only [Option.map_some, if_true, Option.some.injEq] at hc
    subst hc
    cases k <;> exact ⟨rfl, rfl⟩

/-- Non-vacuity of `C02_refines` on a concrete two-link history: 5 and 7 go out on link 0, a probe
copy of 7 on link 1, the tracker remembers link 0 (id 1) for 7; the SRTLA ACK for 7 arrives on link 1
(retired THERE, link 0 keeps it); the NAK of 7 is charged to the remembered link 0; a repeat changes
nothing; 5 is re-sent below the mark after the cumulative ACK 6 and retired by the next ACK. -/
example :
    let s0 : St := { links := [({ connId := 1 } : Conn), { connId := 2 }], trk := Tracker.empty }
    let evs : List Ev := [.send 0 5 10, .send 0 7 11, .send 1 7 12, .track 7 1 11,
      .srtlaAck 1 7 false 20, .nak 7 30, .nak 7 31, .cumAck 6 40, .send 0 5 41]
    (evs.foldl specStep (absOf s0)).keys = [[5], []] ∧
    ((evs ++ [Ev.cumAck 6 50, Ev.cumAck 9 51]).foldl specStep (absOf s0)).keys = [[], []] ∧
    ((evs.foldl step s0).links.map (·.inFlight)) = [1, 0] ∧
    (((evs ++ [Ev.cumAck 6 50, Ev.cumAck 9 51]).foldl step s0).links.map (·.inFlight)) = [0, 0] := by
  decide

end Srtla.Props.C02
