import Srtla.Model.Conn
import Srtla.Lemmas.Log
import Srtla.Lemmas.Conn
import Srtla.Lemmas.SysDirKeys
import Srtla.Lemmas.C02Reload
/-!
# C02 — per-link in-flight count equals packets sent and not yet retired

Refinement of the packet log + cumulative-ACK high-water optimisation to a per-link list
without duplicates ("sent and not yet retired"), for every history of sends, cumulative ACKs,
SRTLA ACKs, NAKs and resets over any number of links.

`C02_inv_history` is the inductive invariant, `C02_refines` (end of file) the history-level refinement
to the per-link set machine `specStep`.
-/
namespace Srtla.Props.C02
open Srtla.Conn Srtla.Gen

/-! ## Single link: what each operation does to the set, for ANY prior history -/

/-- A send adds the number (once). -/
theorem C02_send (c : Conn) (s : Int) (t : Nat) (x : Int) :
    x ∈ (c.register s t).keys ↔ x = s ∨ x ∈ c.keys := by
  rw [register_keys, mem_specRegister]

/-- **The effect of a cumulative ACK does not depend on the order or spacing of earlier ACKs**:
whatever the high-water mark is, exactly the numbers at or below the ACK are retired. -/
theorem C02_ack_order_independent (c : Conn) (a : Int) (now : Nat) (h : LogInv c) :
    (c.srtAck a now).1.keys = c.keys.filter (fun s => decide (s > a)) :=
  srtAck_keys c a now h

/-- A NAK / SRTLA ACK retires exactly that number. -/
theorem C02_nak_srtla_ack (c : Conn) (s : Int) (cl : Bool) (now : Nat) :
    (c.nak s now).1.keys = c.keys.filter (· != s) ∧
    (c.srtlaAck s cl now).1.keys = c.keys.filter (· != s) :=
  ⟨nak_keys c s now, srtlaAck_keys c s cl now⟩

/-- ACKs and NAKs for a number the link does not hold leave the whole record untouched. -/
theorem C02_untouched (c : Conn) (s : Int) (cl : Bool) (now : Nat) (h : s ∉ c.keys) :
    (c.nak s now).1 = c ∧ (c.srtlaAck s cl now).1 = c ∧
    (c.nak s now).2 = false ∧ (c.srtlaAck s cl now).2 = false := by
  have hn : ¬ (c.log.any (·.1 == s) = true) := fun ha => h ((any_iff_mem_keys c.log s).mp ha)
  simp only [Conn.nak, Conn.srtlaAck, if_neg hn, and_self]

/-- A cumulative ACK never touches window or congestion state, and is a no-op on the set when
nothing at or below it is held. -/
theorem C02_cumack_frame (c : Conn) (a : Int) (now : Nat) :
    (c.srtAck a now).1.window = c.window ∧ (c.srtAck a now).1.cong = c.cong ∧
    (c.srtAck a now).1.connected = c.connected := by
  unfold Conn.srtAck; split <;> simp

/-- The invariant: no duplicates, every logged number above the high-water mark, and the
in-flight counter equals the number of logged packets (hence is never negative). -/
theorem C02_inv_step (c : Conn) (s : Int) (t now : Nat) (cl : Bool) (h : LogInv c)
    (hs : I32_MIN < s) :
    LogInv (c.register s t) ∧ LogInv (c.srtAck s now).1 ∧ LogInv (c.nak s now).1 ∧
    LogInv (c.srtlaAck s cl now).1 ∧ LogInv c.ackGlobal ∧ LogInv c.markForRecovery ∧
    LogInv c.resetForReconnect ∧ LogInv (c.clearPreRegistration now) :=
  ⟨register_inv c s t h hs, srtAck_inv c s now h, nak_inv c s now h, srtlaAck_inv c s cl now h,
   (ackGlobal_keys c).2 h, (reset_inv c now).1, (reset_inv c now).2.1, (reset_inv c now).2.2.1⟩

theorem C02_count_nonneg (c : Conn) (h : LogInv c) : 0 ≤ c.inFlight ∧ c.inFlight = c.keys.length := by
  rw [h.count]; exact ⟨Int.natCast_nonneg _, rfl⟩

/-! ## All links: event histories -/

inductive ResetKind | recovery | reconnect | reg3
deriving DecidableEq

/-- Events of the fan-out layer. Sequence numbers are the wire `u32`s; sends carry data sequence
numbers, i.e. `< 2^31` (`get_srt_sequence_number`). -/
inductive Ev where
  | send (i : Nat) (seq : Nat) (t : Nat)           -- register_packet on link i (unique copy or probe)
  | track (seq connId ts : Nat)                    -- sequence tracker insert
  | cumAck (ack : Nat) (now : Nat)
  | srtlaAck (idx : Nat) (seq : Nat) (classic : Bool) (now : Nat)
  | nak (seq : Nat) (now : Nat)
  | reset (i : Nat) (k : ResetKind) (now : Nat)

structure St where
  links : Links
  trk : Tracker

def step (s : St) : Ev → St
  | .send i seq t => { s with links := updateAt s.links i (·.register (toI32 seq) t) }
  | .track seq cid ts => { s with trk := s.trk.insert seq cid ts }
  | .cumAck a now => { s with links := evSrtAck s.links (toI32 a) now }
  | .srtlaAck idx seq cl now => { s with links := evSrtlaAck s.links idx (toI32 seq) cl now }
  | .nak n now => { s with links := (attributeNak s.links s.trk n now).1 }
  | .reset i k now =>
    { s with links := updateAt s.links i (fun c =>
        match k with
        | .recovery => c.markForRecovery
        | .reconnect => c.resetForReconnect
        | .reg3 => c.clearPreRegistration now) }

def wf : Ev → Prop
  | .send _ seq _ => seq < 2147483648
  | _ => True

def AllInv (ls : Links) : Prop := ∀ c ∈ ls, LogInv c

theorem toI32_data (n : Nat) (h : n < 2147483648) : I32_MIN < toI32 n := by
  unfold toI32 I32_MIN
  have : n % 4294967296 = n := Nat.mod_eq_of_lt (by omega)
  simp only [this]
  split <;> omega

theorem allInv_updateAt (ls : Links) (i : Nat) (f : Conn → Conn) (h : AllInv ls)
    (hf : ∀ c, LogInv c → LogInv (f c)) : AllInv (updateAt ls i f) := by
  intro c hc
  simp only [updateAt, List.mem_mapIdx] at hc
  obtain ⟨j, hj, rfl⟩ := hc
  split
  · exact hf _ (h _ (List.getElem_mem hj))
  · exact h _ (List.getElem_mem hj)

theorem allInv_map (ls : Links) (f : Conn → Conn) (h : AllInv ls)
    (hf : ∀ c, LogInv c → LogInv (f c)) : AllInv (ls.map f) := by
  intro c hc
  obtain ⟨d, hd, rfl⟩ := List.mem_map.mp hc
  exact hf d (h d hd)

theorem allInv_others (ls : Links) (j skip : Nat) (s : Int) (cl : Bool) (now : Nat) (h : AllInv ls) :
    AllInv (srtlaAckOthers ls j skip s cl now) := by
  induction ls generalizing j with
  | nil => intro c hc; simp [srtlaAckOthers] at hc
  | cons c rest ih =>
    have hr : AllInv rest := fun d hd => h d (List.mem_cons_of_mem _ hd)
    have hc : LogInv c := h c (List.mem_cons_self)
    unfold srtlaAckOthers
    split
    · intro d hd
      rcases List.mem_cons.mp hd with rfl | hd
      · exact hc
      · exact ih (j + 1) hr d hd
    · dsimp only
      split
      · intro d hd
        rcases List.mem_cons.mp hd with rfl | hd
        · exact srtlaAck_inv c s cl now hc
        · exact hr d hd
      · intro d hd
        rcases List.mem_cons.mp hd with rfl | hd
        · exact hc
        · exact ih (j + 1) hr d hd

theorem allInv_nakScan (ls : Links) (s : Int) (now : Nat) (h : AllInv ls) :
    AllInv (nakScan ls s now).1 := by
  induction ls with
  | nil => intro c hc; simp [nakScan] at hc
  | cons c rest ih =>
    have hr : AllInv rest := fun d hd => h d (List.mem_cons_of_mem _ hd)
    have hc : LogInv c := h c (List.mem_cons_self)
    unfold nakScan
    dsimp only
    split
    · intro d hd
      rcases List.mem_cons.mp hd with rfl | hd
      · exact nak_inv c s now hc
      · exact hr d hd
    · intro d hd
      rcases List.mem_cons.mp hd with rfl | hd
      · exact hc
      · exact ih hr d hd

theorem allInv_attributeNak (ls : Links) (trk : Tracker) (n now : Nat) (h : AllInv ls) :
    AllInv (attributeNak ls trk n now).1 := by
  unfold attributeNak
  dsimp only
  split
  · split
    · split
      · try dsimp only
        split
        · rename_i _ c hc _
          exact allInv_updateAt ls _ _ h (fun _ _ => by
            have : c ∈ ls := List.mem_of_getElem? hc
            exact nak_inv c _ now (h c this))
        · exact h
      · exact h
    · exact allInv_nakScan ls _ now h
  · exact allInv_nakScan ls _ now h

/-- **Invariant over every history**: from links whose logs satisfy the invariant (in particular
fresh links), after any sequence of events every link's in-flight counter equals the number of
distinct logged sequence numbers and every logged number is above the link's high-water mark. -/
theorem C02_inv_history (s : St) (evs : List Ev) (h : AllInv s.links) (hw : ∀ e ∈ evs, wf e) :
    AllInv (evs.foldl step s).links := by
  induction evs generalizing s with
  | nil => exact h
  | cons e rest ih =>
    apply ih
    · cases e with
      | send i seq t =>
        have hseq : seq < 2147483648 := hw _ (List.mem_cons_self)
        exact allInv_updateAt _ _ _ h (fun c hc => register_inv c _ t hc (toI32_data seq hseq))
      | track seq cid ts => exact h
      | cumAck a now => exact allInv_map _ _ h (fun c hc => srtAck_inv c _ now hc)
      | srtlaAck idx seq cl now =>
        simp only [step, evSrtlaAck]
        apply allInv_map _ _ _ (fun c hc => (ackGlobal_keys c).2 hc)
        split
        · exact h
        · try dsimp only
          split
          · rename_i _ c hc _
            exact allInv_updateAt _ _ _ h (fun _ _ =>
              srtlaAck_inv c _ cl now (h c (List.mem_of_getElem? hc)))
          · exact allInv_others _ _ _ _ _ _ h
      | nak n now => exact allInv_attributeNak _ _ _ _ h
      | reset i k now =>
        exact allInv_updateAt _ _ _ h (fun c _ => by
          cases k
          · exact (reset_inv c now).1
          · exact (reset_inv c now).2.1
          · exact (reset_inv c now).2.2.1)
    · intro e' he'; exact hw e' (List.mem_cons_of_mem _ he')

/-! ## Which link an SRTLA ACK retires from -/

def keysOf (ls : Links) : List (List Int) := ls.map Conn.keys

/-- Spec: erase `s` from the set at index `i`. -/
def specEraseAt (ks : List (List Int)) (i : Nat) (s : Int) : List (List Int) :=
  ks.mapIdx (fun j k => if j = i then specErase k s else k)

/-- Spec: erase `s` from the first set, other than index `skip`, that holds it (scan from `j`). -/
def specOthers : List (List Int) → Nat → Nat → Int → List (List Int)
  | [], _, _, _ => []
  | k :: rest, j, skip, s =>
    if j = skip then k :: specOthers rest (j + 1) skip s
    else if s ∈ k then specErase k s :: rest else k :: specOthers rest (j + 1) skip s

theorem srtlaAck_found (c : Conn) (s : Int) (cl : Bool) (now : Nat) :
    (c.srtlaAck s cl now).2 = true ↔ s ∈ c.keys := by
  unfold Conn.srtlaAck
  split
  · rename_i h
    have := (any_iff_mem_keys c.log s).mp h
    split <;> simp [this]
  · rename_i h
    have : s ∉ c.keys := fun hm => h ((any_iff_mem_keys c.log s).mpr hm)
    constructor
    · intro hf; cases hf
    · intro hm; exact absurd hm this

theorem keysOf_others (ls : Links) (j skip : Nat) (s : Int) (cl : Bool) (now : Nat) :
    keysOf (srtlaAckOthers ls j skip s cl now) = specOthers (keysOf ls) j skip s := by
  induction ls generalizing j with
  | nil => rfl
  | cons c rest ih =>
    unfold srtlaAckOthers
    simp only [keysOf, List.map_cons, specOthers]
    split
    · simp only [List.map_cons]
      congr 1
      exact ih (j + 1)
    · try dsimp only
      by_cases hm : s ∈ c.keys
      · rw [if_pos ((srtlaAck_found c s cl now).mpr hm), if_pos hm]
        simp only [List.map_cons, srtlaAck_keys]
      · have : ¬ ((c.srtlaAck s cl now).2 = true) := fun h => hm ((srtlaAck_found c s cl now).mp h)
        rw [if_neg this, if_neg hm]
        simp only [List.map_cons]
        congr 1
        exact ih (j + 1)

theorem keysOf_ackGlobal (ls : Links) : keysOf (ls.map Conn.ackGlobal) = keysOf ls := by
  simp only [keysOf, List.map_map]
  apply List.map_congr_left
  intro c _
  exact (ackGlobal_keys c).1

theorem keysOf_updateAt_const (ls : Links) (i : Nat) (c c' : Conn) (s : Int)
    (hc : ls[i]? = some c) (hk : c'.keys = specErase c.keys s) :
    keysOf (updateAt ls i (fun _ => c')) = specEraseAt (keysOf ls) i s := by
  apply List.ext_getElem?
  intro j
  simp only [keysOf, updateAt, specEraseAt, List.getElem?_map, List.getElem?_mapIdx]
  by_cases hj : j = i
  · subst hj
    simp only [hc, if_true, Option.map_some, hk]
  · simp only [if_neg hj]
    cases ls[j]? <;> rfl

/-- **SRTLA ACK, arrival link first**: if the link the ACK arrived on holds the number, it is
retired there and no other link's set changes — even if another link holds a probe copy. -/
theorem C02_srtla_ack_arrival_first (ls : Links) (idx : Nat) (c : Conn) (s : Int) (cl : Bool) (now : Nat)
    (hc : ls[idx]? = some c) (hs : s ∈ c.keys) :
    keysOf (evSrtlaAck ls idx s cl now) = specEraseAt (keysOf ls) idx s := by
  simp only [evSrtlaAck, hc, keysOf_ackGlobal]
  rw [if_pos ((srtlaAck_found c s cl now).mpr hs)]
  exact keysOf_updateAt_const ls idx c _ s hc (srtlaAck_keys c s cl now)

/-- **…otherwise the first other holder**: if the arrival link does not hold the number, it is
retired from the first other link (in index order) that does, and from no other. -/
theorem C02_srtla_ack_first_other_holder (ls : Links) (idx : Nat) (c : Conn) (s : Int) (cl : Bool)
    (now : Nat) (hc : ls[idx]? = some c) (hs : s ∉ c.keys) :
    keysOf (evSrtlaAck ls idx s cl now) = specOthers (keysOf ls) 0 idx s := by
  simp only [evSrtlaAck, hc, keysOf_ackGlobal]
  have : ¬ ((c.srtlaAck s cl now).2 = true) := fun h => hs ((srtlaAck_found c s cl now).mp h)
  rw [if_neg this]
  exact keysOf_others ls 0 idx s cl now

/-- A cumulative ACK retires, on EVERY link, exactly the numbers at or below it. -/
theorem C02_cumack_all_links (ls : Links) (a : Int) (now : Nat) (h : AllInv ls) :
    keysOf (evSrtAck ls a now) = (keysOf ls).map (fun k => k.filter (fun s => decide (s > a))) := by
  simp only [keysOf, evSrtAck, List.map_map]
  apply List.map_congr_left
  intro c hc
  exact srtAck_keys c a now (h c hc)

/-- Fresh links satisfy the invariant (non-vacuity of the hypothesis above). -/
example : AllInv [({ connId := 1 } : Conn), { connId := 2 }] := by
  intro c hc
  simp at hc
  rcases hc with rfl | rfl <;> exact ⟨by simp [Conn.keys], by simp [Conn.keys], by simp [Conn.keys]⟩


/-! ## History-level refinement to per-link sets (`C02_refines`)

The spec keeps, per link, the duplicate-free list of sequence numbers "sent and not yet retired".
It never looks at the packet log's time stamps, at `highest_acked`, at the in-flight counter, at the
window or at any congestion state.  Which link a NAK is charged to is decided by the sequence tracker
(`Tracker`, shared verbatim with the model: the ring is specified separately by `C05_tracker_spec`)
and the links' connection ids, so the spec carries those two as well. -/

/-- Abstract state: conn id per link (never changes), key list per link, the sequence tracker. -/
structure Spec where
  ids : List Nat
  keys : List (List Int)
  trk : Tracker

/-- Apply `g` to the set at index `i` (out of range: unchanged). -/
def specAt (ks : List (List Int)) (i : Nat) (g : List Int → List Int) : List (List Int) :=
  ks.mapIdx (fun j k => if j = i then g k else k)

/-- Spec of the fallback scan: erase `s` from the first set that holds it. -/
def specScan : List (List Int) → Int → List (List Int)
  | [], _ => []
  | k :: rest, s => if s ∈ k then specErase k s :: rest else k :: specScan rest s

/-- Spec of an SRTLA ACK arriving on link `idx`: the arrival link if it holds the number, otherwise
the first other holder; an arrival index that names no link changes nothing. -/
def specSrtlaAck (ks : List (List Int)) (idx : Nat) (s : Int) : List (List Int) :=
  match ks[idx]? with
  | none => ks
  | some k => if s ∈ k then specEraseAt ks idx s else specOthers ks 0 idx s

/-- Spec of a NAK: the charged link is the remembered carrier if the tracker still remembers one that
is present (erasing is the identity if it no longer holds the number — no fall-through), otherwise
the first holder. -/
def specNak (sp : Spec) (n now : Nat) : List (List Int) :=
  match sp.trk.get n now with
  | some cid =>
    match sp.ids.findIdx? (· == cid) with
    | some pos => specEraseAt sp.keys pos (toI32 n)
    | none => specScan sp.keys (toI32 n)
  | none => specScan sp.keys (toI32 n)

/-- The spec machine: send inserts (once); a cumulative ACK removes everything at or below it on
EVERY link; an SRTLA ACK / NAK removes the number from one link; a reset empties the link. -/
def specStep (sp : Spec) : Ev → Spec
  | .send i seq _ => { sp with keys := specAt sp.keys i (fun k => specRegister k (toI32 seq)) }
  | .track seq cid ts => { sp with trk := sp.trk.insert seq cid ts }
  | .cumAck a _ => { sp with keys := sp.keys.map (fun k => specCumAck k (toI32 a)) }
  | .srtlaAck idx seq _ _ => { sp with keys := specSrtlaAck sp.keys idx (toI32 seq) }
  | .nak n now => { sp with keys := specNak sp n now }
  | .reset i _ _ => { sp with keys := specAt sp.keys i (fun _ => []) }

/-- Abstraction map. -/
def absOf (s : St) : Spec := { ids := s.links.map (·.connId), keys := keysOf s.links, trk := s.trk }

/-! ### Conn ids never change (lemmas in `Lemmas/Conn.lean`: `idsOf_*`) -/

/-- **Conn ids are constant along every history** (what lets the spec carry them as a constant). -/
theorem C02_ids_constant (s : St) (e : Ev) : idsOf (step s e).links = idsOf s.links := by
  cases e with
  | send i seq t => exact idsOf_updateAt _ _ _ (fun c _ => connId_register c _ t)
  | track seq cid ts => rfl
  | cumAck a now => exact idsOf_map _ _ (fun c => connId_srtAck c _ now)
  | srtlaAck idx seq cl now => exact idsOf_evSrtlaAck _ _ _ _ _
  | nak n now => exact idsOf_attributeNak _ _ _ _
  | reset i k now =>
    exact idsOf_updateAt _ _ _ (fun c _ => by cases k <;> rfl)

/-! ### Key lists follow the spec, event by event -/

theorem keysOf_updateAt (ls : Links) (i : Nat) (f : Conn → Conn) (g : List Int → List Int)
    (hf : ∀ c, ls[i]? = some c → (f c).keys = g c.keys) :
    keysOf (updateAt ls i f) = specAt (keysOf ls) i g := by
  apply List.ext_getElem?
  intro j
  simp only [keysOf, updateAt, specAt, List.getElem?_map, List.getElem?_mapIdx]
  cases hj : ls[j]? with
  | none => rfl
  | some c =>
    simp only [Option.map_some]
    split
    · rename_i h; subst h; rw [hf c hj]
    · rfl

theorem specEraseAt_eq (ks : List (List Int)) (i : Nat) (s : Int) :
    specEraseAt ks i s = specAt ks i (fun k => specErase k s) := rfl

theorem keysOf_nakScan (ls : Links) (s : Int) (now : Nat) :
    keysOf (nakScan ls s now).1 = specScan (keysOf ls) s := by
  induction ls with
  | nil => rfl
  | cons c rest ih =>
    unfold nakScan
    dsimp only
    simp only [keysOf, List.map_cons, specScan] at ih ⊢
    by_cases hm : s ∈ c.keys
    · rw [if_pos ((nak_snd_iff c s now).mpr hm), if_pos hm]
      simp only [List.map_cons, nak_keys]
    · have : ¬ ((c.nak s now).2 = true) := fun h => hm ((nak_snd_iff c s now).mp h)
      rw [if_neg this, if_neg hm]
      simp only [List.map_cons, ih]

theorem keysOf_attributeNak (ls : Links) (trk : Tracker) (n now : Nat) :
    keysOf (attributeNak ls trk n now).1 =
      specNak { ids := idsOf ls, keys := keysOf ls, trk := trk } n now := by
  unfold attributeNak specNak
  dsimp only
  cases hg : trk.get n now with
  | none => exact keysOf_nakScan ls _ now
  | some cid =>
    dsimp only
    rw [findIdx_ids]
    cases hp : ls.findIdx? (·.connId == cid) with
    | none => exact keysOf_nakScan ls _ now
    | some pos =>
      dsimp only
      cases hc : ls[pos]? with
      | none =>
        -- unreachable (findIdx? returns an index in range); both sides are the identity anyway
        dsimp only
        rw [specEraseAt_eq]
        apply List.ext_getElem?
        intro j
        simp only [keysOf, specAt, List.getElem?_map, List.getElem?_mapIdx]
        cases hj : ls[j]? with
        | none => rfl
        | some d =>
          simp only [Option.map_some]
          split
          · rename_i h; subst h; rw [hc] at hj; cases hj
          · rfl
      | some c =>
        dsimp only
        by_cases hm : toI32 n ∈ c.keys
        · rw [if_pos ((nak_snd_iff c _ now).mpr hm), specEraseAt_eq]
          exact keysOf_updateAt ls pos _ _ (fun d hd => by
            rw [hc] at hd; cases hd; exact nak_keys _ _ _)
        · have hnf : ¬ ((c.nak (toI32 n) now).2 = true) := fun h => hm ((nak_snd_iff c _ now).mp h)
          rw [if_neg hnf, specEraseAt_eq]
          -- erasing a number that is not held is the identity
          apply List.ext_getElem?
          intro j
          simp only [keysOf, specAt, List.getElem?_map, List.getElem?_mapIdx]
          cases hj : ls[j]? with
          | none => rfl
          | some d =>
            simp only [Option.map_some]
            split
            · rename_i h; subst h
              rw [hc] at hj; cases hj
              have := nak_keys c (toI32 n) now
              rw [nak_fst_of_not_mem c _ now hm] at this
              rw [← this]
            · rfl

theorem keysOf_evSrtlaAck (ls : Links) (idx : Nat) (s : Int) (cl : Bool) (now : Nat) :
    keysOf (evSrtlaAck ls idx s cl now) = specSrtlaAck (keysOf ls) idx s := by
  unfold specSrtlaAck
  cases hc : ls[idx]? with
  | none =>
    have : (keysOf ls)[idx]? = none := by simp [keysOf, hc]
    rw [this]
    simp only [evSrtlaAck, hc, keysOf_ackGlobal]
  | some c =>
    have : (keysOf ls)[idx]? = some c.keys := by simp [keysOf, hc]
    rw [this]
    dsimp only
    by_cases hs : s ∈ c.keys
    · rw [if_pos hs]; exact C02_srtla_ack_arrival_first ls idx c s cl now hc hs
    · rw [if_neg hs]; exact C02_srtla_ack_first_other_holder ls idx c s cl now hc hs

/-- **One event**: the abstraction of the model's successor state is the spec's successor of the
abstraction. -/
theorem C02_refines_step (s : St) (e : Ev) (h : AllInv s.links) :
    absOf (step s e) = specStep (absOf s) e := by
  have hid := C02_ids_constant s e
  unfold idsOf at hid
  cases e with
  | send i seq t =>
    simp only [absOf, specStep, Spec.mk.injEq]
    exact ⟨hid, keysOf_updateAt _ _ _ _ (fun c _ => register_keys c _ t), rfl⟩
  | track seq cid ts => rfl
  | cumAck a now =>
    simp only [absOf, specStep, Spec.mk.injEq]
    exact ⟨hid, C02_cumack_all_links _ _ now h, rfl⟩
  | srtlaAck idx seq cl now =>
    simp only [absOf, specStep, Spec.mk.injEq]
    exact ⟨hid, keysOf_evSrtlaAck _ _ _ _ _, rfl⟩
  | nak n now =>
    simp only [absOf, specStep, Spec.mk.injEq]
    exact ⟨hid, keysOf_attributeNak _ _ _ _, rfl⟩
  | reset i k now =>
    simp only [absOf, specStep, Spec.mk.injEq]
    refine ⟨hid, keysOf_updateAt _ _ _ _ (fun c _ => ?_), rfl⟩
    cases k
    · exact (reset_inv c now).2.2.2.1
    · exact (reset_inv c now).2.2.2.2.1
    · exact (reset_inv c now).2.2.2.2.2

/-- **C02 refinement, every history.**  From any links whose logs satisfy the invariant (fresh links
do), after EVERY finite list of sends (incl. re-sends at or below the high-water mark and probe
copies), tracker inserts, cumulative ACKs in any order, SRTLA ACKs, NAKs and resets:

* the model's per-link key lists, conn ids and tracker are exactly the fold of the spec machine over
  the same events (`send` inserts once; `cumAck a` removes every number `≤ a` on EVERY link; an SRTLA
  ACK removes the number from the arrival link if it holds it, else from the first other holder; a
  NAK removes it from the charged link only; `reset` empties the link);
* on every link the in-flight counter equals the size of that set (hence is never negative) and the
  set has no duplicates. -/
theorem C02_refines (s : St) (evs : List Ev) (h : AllInv s.links) (hw : ∀ e ∈ evs, wf e) :
    absOf (evs.foldl step s) = evs.foldl specStep (absOf s) ∧
    ∀ c ∈ (evs.foldl step s).links,
      c.inFlight = c.keys.length ∧ 0 ≤ c.inFlight ∧ c.keys.Nodup := by
  refine ⟨?_, fun c hc => ?_⟩
  · induction evs generalizing s with
    | nil => rfl
    | cons e rest ih =>
      simp only [List.foldl_cons]
      rw [ih (step s e) (C02_inv_history s [e] h (fun e' he' => hw e' (by simp_all)))
        (fun e' he' => hw e' (List.mem_cons_of_mem _ he')), C02_refines_step s e h]
  · have hi := C02_inv_history s evs h hw c hc
    exact ⟨hi.count, (C02_count_nonneg c hi).1, hi.nodup⟩

/-- Per link, read off the refinement: link `j`'s key list is the `j`-th set of the spec fold and its
in-flight counter is that set's size. -/
theorem C02_refines_link (s : St) (evs : List Ev) (h : AllInv s.links) (hw : ∀ e ∈ evs, wf e)
    (j : Nat) (c : Conn) (hc : (evs.foldl step s).links[j]? = some c) :
    (evs.foldl specStep (absOf s)).keys[j]? = some c.keys ∧
    (c.inFlight : Int) = c.keys.length := by
  obtain ⟨h1, h2⟩ := C02_refines s evs h hw
  refine ⟨?_, (h2 c (List.mem_of_getElem? hc)).1⟩
  rw [← h1]
  simp [absOf, keysOf, hc]

/-- A reset leaves the link's set empty, whatever the history before it. -/
theorem C02_reset_empties (s : St) (i : Nat) (k : ResetKind) (now : Nat) (c : Conn)
    (hc : (step s (.reset i k now)).links[i]? = some c) : c.keys = [] ∧ c.inFlight = 0 := by
  simp only [step, updateAt, List.getElem?_mapIdx] at hc
  cases hi : s.links[i]? with
  | none => rw [hi] at hc; cases hc
  | some d =>
    rw [hi] at hc
    simp only [Option.map_some, if_true, Option.some.injEq] at hc
    subst hc
    cases k <;> exact ⟨rfl, rfl⟩

/-- Non-vacuity of `C02_refines` on a concrete two-link history: 5 and 7 go out on link 0, a probe
copy of 7 on link 1, the tracker remembers link 0 (id 1) for 7; the SRTLA ACK for 7 arrives on link 1
(retired THERE, link 0 keeps it); the NAK of 7 is charged to the remembered link 0; a repeat changes
nothing; 5 is re-sent below the mark after the cumulative ACK 6 and retired by the next ACK. -/
example :
    let s0 : St := { links := [({ connId := 1 } : Conn), { connId := 2 }], trk := Tracker.empty }
    let evs : List Ev := [.send 0 5 10, .send 0 7 11, .send 1 7 12, .track 7 1 11,
      .srtlaAck 1 7 false 20, .nak 7 30, .nak 7 31, .cumAck 6 40, .send 0 5 41]
    (evs.foldl specStep (absOf s0)).keys = [[5], []] ∧
    ((evs ++ [Ev.cumAck 6 50, Ev.cumAck 9 51]).foldl specStep (absOf s0)).keys = [[], []] ∧
    ((evs.foldl step s0).links.map (·.inFlight)) = [1, 0] ∧
    (((evs ++ [Ev.cumAck 6 50, Ev.cumAck 9 51]).foldl step s0).links.map (·.inFlight)) = [0, 0] := by
  decide

/-! # Round 3 — C02 at shell level: the sets along `Sys.step` / `Sys.run`

`C02_refines` is over the fan-out layer's own event list.  Here the same set machine is tied to the sender
shell (`Model/Sys.lean`, run line by line against the real event-loop arms by component `sys`):

* per link (`SysDir.KOp`, `SysDir.kstep`: a send inserts once, a cumulative ACK removes everything at or below
  it, a retirement removes one number, a reset empties): `C02_shell_refines_event` — EVERY event constructor
  acts on EVERY link's key list as a history of that machine, using only the set operations the event allows
  for that link (`SysDir.kopOk (SysDir.evOps s e j)`, spelled out by `C02_shell_event_kinds`), and
  `in_flight = |set|`, no duplicates, afterwards; `C02_shell_refines` — the run form by induction, from any
  invariant state (in particular the initial state);
* **sends are registered when a batch is DRAINED, not when a datagram is queued**: the only shell operation
  that maps to `send` is `take_batch` (threshold flush inside a client event, periodic `flush` event);
  `C02_shell_flush_exact` gives the periodic flush exactly; a queued-but-not-yet-drained packet is NOT in the
  set and NOT counted in `in_flight_packets`;
* which link a retirement hits is a cross-link question: `C02_shell_uplink_refines` — an `uplink` event is
  EXACTLY the fold of C02's global spec machine `specStep` (arrival link first / first other holder for SRTLA
  ACKs, the tracker's remembered carrier / first holder for NAKs, every link for cumulative ACKs) over the
  events the datagram decodes to. -/

section shellC02
open Srtla Srtla.Link Srtla.SysDir
set_option linter.unusedSectionVars false
variable {F : Type} [Scalar F]
variable {fa : List (Nat × Nat)}

/-- The accounting invariant of the shell, literally the body of `SysInv` (`Props/SysLevel.lean`; holds of the
initial state and along every run: `SysInv_init`, `SysInv_run`). -/
def ShellInv (s : Sys.Sys F) : Prop :=
  ∀ l ∈ s.links, LogInv l.core ∧ 1000 ≤ l.core.window ∧ l.core.window ≤ 60000 ∧ 0 ≤ l.core.inFlight ∧
    ∀ it ∈ l.queue, ∀ sq, it.2.1 = some sq → sq < 2147483648

theorem shellInv_all {s : Sys.Sys F} (h : ShellInv s) : SysInv.All SysInv.LinkInv s.links := by
  intro l hl
  obtain ⟨a, b, c, d, f⟩ := h l hl
  exact ⟨a, b, c, d, f⟩

theorem shellInv_of_all {s : Sys.Sys F} (h : SysInv.All SysInv.LinkInv s.links) : ShellInv s := by
  intro l hl
  obtain ⟨a, b, c, d, f⟩ := h l hl
  exact ⟨a, b, c, d, f⟩

theorem ShellInv.step {s : Sys.Sys F} (h : ShellInv s) (e : Sys.Ev) : ShellInv (Sys.step s e).1 :=
  shellInv_of_all (SysInv.linkInv_step s e (shellInv_all h))

/-- **One event, one link** (every constructor of `Sys.Ev`, every index `j`): from an invariant state, the key
list of link `j` after the event is the fold of the per-link set machine over a list of set operations that
the event allows for that link; afterwards `in_flight_packets` is the size of the set (never negative) and the
set has no duplicates.
`hnr`: over events / runs that keep the link set (no `Ev.reload`); a reload keeps the whole record of every retained link
(`Props/SysReload.lean: reload_frame`) and the theorem applies again from the state after it. -/
theorem C02_shell_refines_event (s : Sys.Sys F) (e : Sys.Ev) (hinv : ShellInv s) (hnr : e.isReload = false)
    (j : Nat) (l : FLink F) (hl : s.links[j]? = some l) :
    ∃ l', (Sys.step s e).1.links[j]? = some l' ∧
      ∃ kops : List KOp, (∀ k ∈ kops, kopOk (evOps s e j) k) ∧
        l'.core.keys = kops.foldl kstep l.core.keys ∧
        l'.core.inFlight = (l'.core.keys.length : Int) ∧ l'.core.keys.Nodup := by
  obtain ⟨l', hl', hrun⟩ := (step_run s e hnr).2 j l hl
  obtain ⟨hi, kops, h1, h2⟩ := keys_run hrun (shellInv_all hinv l (List.mem_of_getElem? hl))
  exact ⟨l', hl', kops, h1, h2, hi.log.count, hi.log.nodup⟩

/-- **Which set operations each event constructor can perform on link `j`** (what `kopOk (evOps s e j)` means):
* client datagram: only sends (a batch drained at the threshold) and a reset (tear-down after the failed send);
* periodic flush: only sends;
* housekeeping: only a reset (reconnect, with `reset_for_reconnect` or — failed socket re-creation —
  `mark_for_recovery`);
* `setCfg` / `crit` / `failNext` / `failBind` / `stamp` (verdict stamps) / `syncTimeout`: nothing;
* `reload` (`apply_connection_changes`): nothing — it is not an event of the index-based walk (`evOps` is empty
  for it): it performs no set operation on any link, a retained link keeps its whole record (key list
  included), a removed link disappears with its set, a fresh link starts with the empty set;
* uplink datagram, by type code: SRT ACK 0x8002 — only cumulative ACKs; SRT NAK 0x8003 and SRTLA ACK 0x9100 —
  only single retirements; REG3 0x9202 and REG_ERR 0x9210 — only a reset, and only on the ARRIVAL link;
  any other type (keepalive, REG_NGP, REG2, data, unknown) and datagrams too short for a type code — nothing. -/
theorem C02_shell_event_kinds (s : Sys.Sys F) (e : Sys.Ev) (j : Nat) (k : KOp) (hk : kopOk (evOps s e j) k) :
    match e with
    | .client _ _ => (∃ q, k = .send q) ∨ k = .reset
    | .flush _ => ∃ q, k = .send q
    | .hk _ => k = .reset
    | .setCfg _ => False
    | .crit _ => False
    | .failNext _ => False
    | .failAfter _ _ => False
    | .failBind _ => False
    | .stamp _ _ _ _ _ => False
    | .syncTimeout => False
    | .reload _ _ _ => False
    | .uplink _ cid data =>
        ∃ pt, Codec.getPacketTypeS data = some pt ∧
          ((pt = 0x8002 ∧ ∃ a, k = .cumAck a) ∨ ((pt = 0x8003 ∨ pt = 0x9100) ∧ ∃ q, k = .retire q) ∨
           ((pt = 0x9202 ∨ pt = 0x9210) ∧ k = .reset ∧ s.links.findIdx? (·.core.connId == cid) = some j)) := by
  cases e with
  | reload rnow raddrs routs => cases k <;> first | exact hk | (rcases hk with h | h | h <;> exact h) | (rcases hk with h | h <;> exact h)
  | client now pkt =>
    cases k with
    | send q => exact .inl ⟨q, rfl⟩
    | reset => exact .inr rfl
    | cumAck a =>
      have h : clientOps .srtAck := hk
      unfold clientOps at h
      rcases h with h | h | h | h | h <;> cases h
    | retire q =>
      have h : clientOps .sack ∨ clientOps .nak := hk
      unfold clientOps at h
      rcases h with (h | h | h | h | h) | (h | h | h | h | h) <;> cases h
  | flush now =>
    cases k with
    | send q => exact ⟨q, rfl⟩
    | reset =>
      have h : (Op.mark = Op.take) ∨ (Op.reconnect = Op.take) ∨ (Op.reg3 = Op.take) := hk
      rcases h with h | h | h <;> cases h
    | cumAck a =>
      have h : Op.srtAck = Op.take := hk
      cases h
    | retire q =>
      have h : (Op.sack = Op.take) ∨ (Op.nak = Op.take) := hk
      rcases h with h | h <;> cases h
  | hk now =>
    cases k with
    | send q =>
      rcases (hk : hkOpsAt s now j .take) with h | ⟨h, -⟩
      · unfold hkOps at h
        rcases h with h | h | h | h | h | ⟨h, -⟩ <;> cases h
      · cases h
    | reset => rfl
    | cumAck a =>
      rcases (hk : hkOpsAt s now j .srtAck) with h | ⟨h, -⟩
      · unfold hkOps at h
        rcases h with h | h | h | h | h | ⟨h, -⟩ <;> cases h
      · cases h
    | retire q =>
      rcases (hk : hkOpsAt s now j .sack ∨ hkOpsAt s now j .nak) with (h | ⟨h, -⟩) | (h | ⟨h, -⟩)
      · unfold hkOps at h
        rcases h with h | h | h | h | h | ⟨h, -⟩ <;> cases h
      · cases h
      · unfold hkOps at h
        rcases h with h | h | h | h | h | ⟨h, -⟩ <;> cases h
      · cases h
  | setCfg cfg => cases k <;> first | exact hk | (rcases hk with h | h | h <;> exact h) | (rcases hk with h | h <;> exact h)
  | crit d => cases k <;> first | exact hk | (rcases hk with h | h | h <;> exact h) | (rcases hk with h | h <;> exact h)
  | failNext c => cases k <;> first | exact hk | (rcases hk with h | h | h <;> exact h) | (rcases hk with h | h <;> exact h)
  | failAfter c kfa => cases k <;> first | exact hk | (rcases hk with h | h | h <;> exact h) | (rcases hk with h | h <;> exact h)
  | failBind c => cases k <;> first | exact hk | (rcases hk with h | h | h <;> exact h) | (rcases hk with h | h <;> exact h)
  | stamp idx weak ld ccb cct =>
    -- the only operation a verdict stamp applies is the neutral `stamp`: no set operation
    cases k with
    | send q => exact absurd (hk : evOps s (.stamp idx weak ld ccb cct) j .take).1 (by decide)
    | reset =>
      rcases (hk : evOps s (.stamp idx weak ld ccb cct) j .mark ∨ evOps s (.stamp idx weak ld ccb cct) j .reconnect ∨
        evOps s (.stamp idx weak ld ccb cct) j .reg3) with h | h | h <;> exact absurd h.1 (by decide)
    | cumAck a => exact absurd (hk : evOps s (.stamp idx weak ld ccb cct) j .srtAck).1 (by decide)
    | retire q =>
      rcases (hk : evOps s (.stamp idx weak ld ccb cct) j .sack ∨ evOps s (.stamp idx weak ld ccb cct) j .nak)
        with h | h <;> exact absurd h.1 (by decide)
  | syncTimeout =>
    -- the only operation of `sync_conn_timeout` is the neutral `syncTimeout`: no set operation
    cases k with
    | send q => exact Op.noConfusion (hk : Op.take = Op.syncTimeout)
    | reset =>
      rcases (hk : Op.mark = Op.syncTimeout ∨ Op.reconnect = Op.syncTimeout ∨ Op.reg3 = Op.syncTimeout)
        with h | h | h <;> cases h
    | cumAck a => exact Op.noConfusion (hk : Op.srtAck = Op.syncTimeout)
    | retire q =>
      rcases (hk : Op.sack = Op.syncTimeout ∨ Op.nak = Op.syncTimeout) with h | h <;> cases h
  | uplink now cid data =>
    have arr : ∀ {p : Prop}, ((s.links.findIdx? (·.core.connId == cid) == some j) = true ∧ p) →
        s.links.findIdx? (·.core.connId == cid) = some j := fun h => by simpa using h.1
    cases k with
    | send q =>
      obtain ⟨pt, hpt, h⟩ : evOps s (.uplink now cid data) j .take := hk
      simp [upOps, fanOps, arrOps] at h
    | cumAck a =>
      obtain ⟨pt, hpt, h⟩ : evOps s (.uplink now cid data) j .srtAck := hk
      refine ⟨pt, hpt, .inl ⟨?_, a, rfl⟩⟩
      simpa [upOps, fanOps, arrOps] using h
    | retire q =>
      rcases (hk : evOps s (.uplink now cid data) j .sack ∨ evOps s (.uplink now cid data) j .nak) with
        ⟨pt, hpt, h⟩ | ⟨pt, hpt, h⟩
      · refine ⟨pt, hpt, .inr (.inl ⟨.inr ?_, q, rfl⟩)⟩
        simpa [upOps, fanOps, arrOps] using h
      · refine ⟨pt, hpt, .inr (.inl ⟨.inl ?_, q, rfl⟩)⟩
        simpa [upOps, fanOps, arrOps] using h
    | reset =>
      rcases (hk : evOps s (.uplink now cid data) j .mark ∨ evOps s (.uplink now cid data) j .reconnect ∨
          evOps s (.uplink now cid data) j .reg3) with ⟨pt, hpt, h⟩ | ⟨pt, hpt, h⟩ | ⟨pt, hpt, h⟩
      · have h' : (s.links.findIdx? (·.core.connId == cid) == some j) = true ∧ pt = 0x9210 := by
          simpa [upOps, fanOps, arrOps] using h
        exact ⟨pt, hpt, .inr (.inr ⟨.inr h'.2, rfl, arr h'⟩)⟩
      · simp [upOps, fanOps, arrOps] at h
      · have h' : (s.links.findIdx? (·.core.connId == cid) == some j) = true ∧ pt = 0x9202 := by
          simpa [upOps, fanOps, arrOps] using h
        exact ⟨pt, hpt, .inr (.inr ⟨.inl h'.2, rfl, arr h'⟩)⟩

/-- The shell-visible history of link `j` along a run: one block of set operations per event, each block
allowed by that event in the state the run had reached (`kopOk (evOps s e j)`, see `C02_shell_event_kinds`). -/
inductive RunHist : Sys.Sys F → List Sys.Ev → Nat → List KOp → Prop
  | nil (s : Sys.Sys F) (j : Nat) : RunHist s [] j []
  | cons {s : Sys.Sys F} {e : Sys.Ev} {evs : List Sys.Ev} {j : Nat} {ks rest : List KOp} :
      (∀ k ∈ ks, kopOk (evOps s e j) k) → RunHist (Sys.step s e).1 evs j rest → RunHist s (e :: evs) j (ks ++ rest)

/-- **C02 at shell level, every run.**  From any invariant state (`ShellInv` = `SysInv`; the initial state), after
EVERY finite list of shell events — client datagrams (data, retransmissions, control), uplink datagrams of any
type and content, periodic flushes, housekeeping ticks, configuration changes, injected send failures — for
every link `j`: its key list is the fold of the per-link set machine over a shell-visible history (`RunHist`:
sends exactly where batches were drained — NOT where datagrams were queued —, cumulative ACKs, single
retirements by SRTLA ACK / charged NAK, resets), its `in_flight_packets` is the size of that set (never
negative), and the set has no duplicates.
`hnr`: over events / runs that keep the link set (no `Ev.reload`); a reload keeps the whole record of every retained link
(`Props/SysReload.lean: reload_frame`) and the theorem applies again from the state after it. -/
theorem C02_shell_refines (s : Sys.Sys F) (evs : List Sys.Ev) (hinv : ShellInv s) (hnr : Sys.NoReload evs)
    (j : Nat) (l : FLink F) (hl : s.links[j]? = some l) :
    ∃ l' hist, (Sys.run s evs).1.links[j]? = some l' ∧ RunHist s evs j hist ∧
      l'.core.keys = hist.foldl kstep l.core.keys ∧
      l'.core.inFlight = (l'.core.keys.length : Int) ∧ 0 ≤ l'.core.inFlight ∧ l'.core.keys.Nodup := by
  induction evs generalizing s l with
  | nil =>
    obtain ⟨hi, -, -, -, -⟩ := hinv l (List.mem_of_getElem? hl)
    exact ⟨l, [], hl, .nil s j, rfl, hi.count, by rw [hi.count]; exact Int.natCast_nonneg _, hi.nodup⟩
  | cons e evs ih =>
    obtain ⟨l1, hl1, kops, hk1, hk2, -, -⟩ := C02_shell_refines_event s e hinv hnr.head j l hl
    obtain ⟨l', hist, h1, h2, h3, h4, h5, h6⟩ := ih (Sys.step s e).1 (hinv.step e) hnr.tail l1 hl1
    refine ⟨l', kops ++ hist, h1, .cons hk1 h2, ?_, h4, h5, h6⟩
    rw [List.foldl_append, ← hk2]
    exact h3

/-! ### The periodic flush, exactly -/

theorem flushGo_links (now : Nat) (ls : List (FLink F)) (fn : List Nat) :
    (Sys.flushGo fa now ls fn).1 =
      ls.map fun l => if l.needsBatchFlush now || !l.queue.isEmpty then (l.takeBatch now).1 else l := by
  induction ls generalizing fn with
  | nil => rfl
  | cons l rest ih =>
    rw [Sys.flushGo]
    split
    · rename_i hc
      dsimp only
      rw [List.map_cons, if_pos hc, ih, (Hk.sendBatch_cases l now fn).1]
    · rename_i hc
      dsimp only
      rw [List.map_cons, if_neg hc, ih]

/-- **The periodic flush registers exactly what is queued**: after a `flush` event EVERY link's key list is its
old key list with the sequence numbers waiting in its batch queue inserted (once each, queue order), and its
queue is empty — whether or not the send succeeds (a failed periodic flush only warns: the drained packets stay
counted in flight until they are ACKed, NAKed or the link is reset). -/
theorem C02_shell_flush_exact (s : Sys.Sys F) (now j : Nat) (l : FLink F) (hl : s.links[j]? = some l) :
    ∃ l', (Sys.step s (.flush now)).1.links[j]? = some l' ∧
      l'.core.keys = (batchSeqs l.queue).foldl specRegister l.core.keys ∧ l'.queue = [] := by
  have key : ∀ l : FLink F,
      (if l.needsBatchFlush now || !l.queue.isEmpty then (l.takeBatch now).1 else l).core.keys =
        (batchSeqs l.queue).foldl specRegister l.core.keys ∧
      (if l.needsBatchFlush now || !l.queue.isEmpty then (l.takeBatch now).1 else l).queue = [] := by
    intro l
    split
    · refine ⟨keys_takeBatch l now, ?_⟩
      rw [Hk.takeBatch_eq]
      split
      · rename_i hq; simpa using hq
      · rfl
    · rename_i hc
      have hq : l.queue = [] := by
        simp only [Bool.or_eq_true, Bool.not_eq_true', not_or] at hc
        simpa using hc.2
      rw [hq]
      exact ⟨rfl, rfl⟩
  show ∃ l', (Sys.flushAllBatches s now).1.links[j]? = some l' ∧ _
  unfold Sys.flushAllBatches
  split
  · rename_i hany
    have hq : l.queue = [] := by
      have := hany
      simp only [Bool.not_eq_true', List.any_eq_false] at this
      have hl' := this l (List.mem_of_getElem? hl)
      simp only [Bool.or_eq_true, Bool.not_eq_true', not_or] at hl'
      simpa using hl'.1
    refine ⟨l, hl, ?_, hq⟩
    rw [hq]
    rfl
  · dsimp only
    rw [flushGo_links, List.getElem?_map, hl]
    exact ⟨_, rfl, (key l).1, (key l).2⟩

/-! ### A client datagram, exactly

`C02_shell_refines_event` is WEAK for `client` events: `kopOk (evOps s (.client …) j)` admits any list of `send`s
(with arbitrary arguments) and `reset`s on any link.  The exact statement follows: the block of set operations is a
FUNCTION of the pre-state (`SysDir.clientBlock`). -/

/-- **A client event registers exactly what it drains.**  Conn ids pairwise distinct (`Sys.Inv`, an invariant of
every run).  With `app = Sys.appended s (.client now pkt) j` — what the event appends to link `j`'s batch queue: the
unique copy `[(pkt, seq, now)]` on the chosen link, one probe copy on a stall-gated connected link whose 1-in-100
counter fires, `[]` on every other link (closed form: `C01_exactly_one_unique_copy`) — link `j`'s key list
afterwards is
* unchanged when nothing is appended (every link other than the chosen one and the probe links);
* unchanged when the queue with the new datagram stays below the regime threshold (queued is NOT sent);
* `[]` when the threshold is reached and an injected send failure is pending for this link's conn id: the batch is
  drained, the send fails, `mark_for_recovery` resets the link — and the injection is CONSUMED by this event
  (last conjunct: the conn id occurs strictly fewer times in `failNext` afterwards);
* the old key list with the sequence numbers of the WHOLE queue (old content, then the new datagram) inserted, once
  each, in queue order, when the threshold is reached and the send succeeds — a probe link likewise, with its own
  queue.
Third conjunct: the same as a fold of the per-link set machine over `SysDir.clientBlock s now pkt j`. -/
theorem C02_shell_client_exact (s : Sys.Sys F) (now : Nat) (pkt : Sys.Bytes) (hnd : (Sys.ids s.links).Nodup)
    (j : Nat) (l : FLink F) (hl : s.links[j]? = some l) :
    ∃ l', (Sys.step s (.client now pkt)).1.links[j]? = some l' ∧
      l'.core.keys =
        (if Sys.appended s (.client now pkt) j = [] then l.core.keys
         else if (l.queue ++ Sys.appended s (.client now pkt) j).length < l.regime.batchSize then l.core.keys
         else if l.core.connId ∈ s.failNext then []
         else (batchSeqs (l.queue ++ Sys.appended s (.client now pkt) j)).foldl specRegister l.core.keys) ∧
      l'.core.keys = (clientBlock s now pkt j).foldl kstep l.core.keys ∧
      (Sys.appended s (.client now pkt) j ≠ [] →
        l.regime.batchSize ≤ (l.queue ++ Sys.appended s (.client now pkt) j).length → l.core.connId ∈ s.failNext →
        (Sys.step s (.client now pkt)).1.failNext.count l.core.connId < s.failNext.count l.core.connId) := by
  obtain ⟨l', h1, h2, h3⟩ := client_keys_exact s now pkt hnd j l hl
  have hb : Sys.appended s (.client now pkt) j ≠ [] → (Sys.appended s (.client now pkt) j).isEmpty = false := by
    intro ha
    cases h : Sys.appended s (.client now pkt) j with
    | nil => exact absurd h ha
    | cons a t => rfl
  refine ⟨l', h1, ?_, h2, fun ha hthr hc => h3 ?_⟩
  · rw [h2]
    unfold clientBlock
    rw [hl]
    dsimp only
    by_cases ha : Sys.appended s (.client now pkt) j = []
    · rw [if_pos ha, ha]; rfl
    · rw [if_neg ha, hb ha]
      simp only [Bool.false_eq_true, if_false]
      split
      · rfl
      · split
        · rfl
        · exact foldl_sends _ _
  · unfold clientBlock
    rw [hl]
    dsimp only
    rw [hb ha]
    simp only [Bool.false_eq_true, if_false]
    rw [if_neg (by omega), if_pos hc]

/-- The shell-visible history of link `j` along a run, with EXACT blocks for the data-path events: a `client` event
contributes `SysDir.clientBlock` (a function of the state the run had reached: nothing / one `reset` / the sends of
the drained batch), a `flush` event contributes `SysDir.flushBlock` (the sends of the drained queue); every other
event a block allowed by `kopOk (evOps s e j)` as in `RunHist` (`C02_shell_event_kinds`: housekeeping — at most
resets; uplink datagrams — cumulative ACKs / single retirements / a reset of the arrival link by type code,
exactly attributed by `C02_shell_uplink_refines`; the six remaining constructors — nothing). -/
inductive RunHistX : Sys.Sys F → List Sys.Ev → Nat → List KOp → Prop
  | nil (s : Sys.Sys F) (j : Nat) : RunHistX s [] j []
  | client {s : Sys.Sys F} {now : Nat} {pkt : Sys.Bytes} {evs : List Sys.Ev} {j : Nat} {rest : List KOp} :
      RunHistX (Sys.step s (.client now pkt)).1 evs j rest →
      RunHistX s (.client now pkt :: evs) j (clientBlock s now pkt j ++ rest)
  | flush {s : Sys.Sys F} {now : Nat} {evs : List Sys.Ev} {j : Nat} {rest : List KOp} :
      RunHistX (Sys.step s (.flush now)).1 evs j rest →
      RunHistX s (.flush now :: evs) j (flushBlock s j ++ rest)
  | other {s : Sys.Sys F} {e : Sys.Ev} {evs : List Sys.Ev} {j : Nat} {ks rest : List KOp} :
      (∀ now pkt, e ≠ .client now pkt) → (∀ now, e ≠ .flush now) →
      (∀ k ∈ ks, kopOk (evOps s e j) k) → RunHistX (Sys.step s e).1 evs j rest →
      RunHistX s (e :: evs) j (ks ++ rest)

/-- **C02 at shell level, every run, exact data path.**  As `C02_shell_refines`, from any state that satisfies the
accounting invariant and has pairwise distinct conn ids (both hold initially and along every run), with the
history `RunHistX`: the blocks of `client` and `flush` events are DETERMINED by the state the run had reached —
no unconstrained `send` / `reset` arguments.
`hnr`: over events / runs that keep the link set (no `Ev.reload`); a reload keeps the whole record of every retained link
(`Props/SysReload.lean: reload_frame`) and the theorem applies again from the state after it. -/
theorem C02_shell_refines_exact (s : Sys.Sys F) (evs : List Sys.Ev) (hinv : ShellInv s)
    (hnd : (Sys.ids s.links).Nodup) (hnr : Sys.NoReload evs) (j : Nat) (l : FLink F) (hl : s.links[j]? = some l) :
    ∃ l' hist, (Sys.run s evs).1.links[j]? = some l' ∧ RunHistX s evs j hist ∧
      l'.core.keys = hist.foldl kstep l.core.keys ∧
      l'.core.inFlight = (l'.core.keys.length : Int) ∧ 0 ≤ l'.core.inFlight ∧ l'.core.keys.Nodup := by
  induction evs generalizing s l with
  | nil =>
    obtain ⟨hi, -, -, -, -⟩ := hinv l (List.mem_of_getElem? hl)
    exact ⟨l, [], hl, .nil s j, rfl, hi.count, by rw [hi.count]; exact Int.natCast_nonneg _, hi.nodup⟩
  | cons e evs ih =>
    have hnd' : (Sys.ids (Sys.step s e).1.links).Nodup := by rw [Sys.step_ids s e hnd hnr.head]; exact hnd
    have other : (∀ now pkt, e ≠ .client now pkt) → (∀ now, e ≠ .flush now) →
        ∃ l' hist, (Sys.run s (e :: evs)).1.links[j]? = some l' ∧ RunHistX s (e :: evs) j hist ∧
          l'.core.keys = hist.foldl kstep l.core.keys ∧
          l'.core.inFlight = (l'.core.keys.length : Int) ∧ 0 ≤ l'.core.inFlight ∧ l'.core.keys.Nodup := by
      intro hc hf
      obtain ⟨l1, hl1, kops, hk1, hk2, -, -⟩ := C02_shell_refines_event s e hinv hnr.head j l hl
      obtain ⟨l', hist, h1, h2, h3, h4, h5, h6⟩ := ih (Sys.step s e).1 (hinv.step e) hnd' hnr.tail l1 hl1
      refine ⟨l', kops ++ hist, h1, .other hc hf hk1 h2, ?_, h4, h5, h6⟩
      rw [List.foldl_append, ← hk2]
      exact h3
    cases e with
    | reload rnow raddrs routs => exact absurd hnr.head (by simp [Sys.Ev.isReload])
    | client now pkt =>
      obtain ⟨l1, hl1, hk, -⟩ := client_keys_exact s now pkt hnd j l hl
      obtain ⟨l', hist, h1, h2, h3, h4, h5, h6⟩ := ih _ (hinv.step _) hnd' hnr.tail l1 hl1
      refine ⟨l', clientBlock s now pkt j ++ hist, h1, .client h2, ?_, h4, h5, h6⟩
      rw [List.foldl_append, ← hk]
      exact h3
    | flush now =>
      obtain ⟨l1, hl1, hk, -⟩ := C02_shell_flush_exact s now j l hl
      obtain ⟨l', hist, h1, h2, h3, h4, h5, h6⟩ := ih _ (hinv.step _) hnd' hnr.tail l1 hl1
      refine ⟨l', flushBlock s j ++ hist, h1, .flush h2, ?_, h4, h5, h6⟩
      have hb : (flushBlock s j).foldl kstep l.core.keys = l1.core.keys := by
        unfold flushBlock
        rw [hl]
        dsimp only
        rw [foldl_sends, hk]
      rw [List.foldl_append, hb]
      exact h3
    | uplink now cid data => exact other (fun _ _ h => by cases h) (fun _ h => by cases h)
    | hk now => exact other (fun _ _ h => by cases h) (fun _ h => by cases h)
    | setCfg cfg => exact other (fun _ _ h => by cases h) (fun _ h => by cases h)
    | crit d => exact other (fun _ _ h => by cases h) (fun _ h => by cases h)
    | failNext c => exact other (fun _ _ h => by cases h) (fun _ h => by cases h)
    | failAfter c kfa => exact other (fun _ _ h => by cases h) (fun _ h => by cases h)
    | failBind c => exact other (fun _ _ h => by cases h) (fun _ h => by cases h)
    | stamp idx w ld ccb cct => exact other (fun _ _ h => by cases h) (fun _ h => by cases h)
    | syncTimeout => exact other (fun _ _ h => by cases h) (fun _ h => by cases h)

/-! ### An uplink datagram, exactly, in C02's global spec machine -/

/-- The state of the fan-out layer inside a shell state: the link cores and the sequence tracker. -/
def toSt (s : Sys.Sys F) : St := { links := Sys.cores s.links, trk := s.trk }

/-- The abstraction of a shell state: conn ids, key lists, tracker. -/
def absSys (s : Sys.Sys F) : Spec := absOf (toSt s)

/-- What the arm of `process_uplink_packet` does to the ARRIVAL link's set, by type code: REG3 and REG_ERR
empty it; every other arm leaves it alone. -/
def armTrace (pt idx now : Nat) : List Ev :=
  if pt = 0x9202 then [.reset idx .reg3 now] else if pt = 0x9210 then [.reset idx .recovery now] else []

/-- The fan-out part: cumulative ACKs, then SRTLA ACKs, then NAKs (the order of `process_connection_events`). -/
def fanTrace (classic : Bool) (idx now : Nat) (inc : Sys.Incoming) : List Ev :=
  inc.acks.map (fun a => Ev.cumAck a now) ++ inc.sacks.map (fun q => Ev.srtlaAck idx q classic now) ++
    inc.naks.map (fun n => Ev.nak n now)

/-- The fan-out layer's events an uplink datagram arriving on link `idx` decodes to (type codes as literals):
REG3 → a reset of the arrival link; REG_ERR → a reset of the arrival link; SRT ACK → one cumulative ACK (if the
datagram carries one); SRT NAK → one NAK per listed number (ranges expanded, duplicates kept, list order);
SRTLA ACK → one per-packet ACK per listed number, arriving on `idx`; anything else → nothing. -/
def uplinkTrace (classic : Bool) (idx now : Nat) (data : Sys.Bytes) : List Ev :=
  match Codec.getPacketTypeS data with
  | none => []
  | some pt =>
    if pt = 0x9202 then [.reset idx .reg3 now]
    else if pt = 0x9210 then [.reset idx .recovery now]
    else if pt = 0x8002 then
      (match Codec.unChk none (Codec.parseSrtAck data) with
       | some a => [.cumAck a now]
       | none => [])
    else if pt = 0x8003 then (Codec.unChk [] (Codec.parseSrtNak data)).map fun n => .nak n now
    else if pt = 0x9100 then (Codec.unChk [] (Codec.parseSrtlaAck data)).map fun q => .srtlaAck idx q classic now
    else []

/-- What the three loops of `process_connection_events` do to a list of cores. -/
def fanCores (classic : Bool) (trk : Tracker) (idx now : Nat) (inc : Sys.Incoming) (cs : Links) : Links :=
  inc.naks.foldl (fun cs n => (attributeNak cs trk n now).1)
    (inc.sacks.foldl (fun cs a => evSrtlaAck cs idx (toI32 a) classic now)
      (inc.acks.foldl (fun cs a => evSrtAck cs (toI32 a) now) cs))

theorem foldl_cumAck (now : Nat) (as : List Nat) (st : St) :
    (as.map fun a => Ev.cumAck a now).foldl step st =
      { st with links := as.foldl (fun cs a => evSrtAck cs (toI32 a) now) st.links } := by
  induction as generalizing st with
  | nil => rfl
  | cons a as ih => rw [List.map_cons, List.foldl_cons, ih]; rfl

theorem foldl_srtlaAck (classic : Bool) (idx now : Nat) (as : List Nat) (st : St) :
    (as.map fun q => Ev.srtlaAck idx q classic now).foldl step st =
      { st with links := as.foldl (fun cs a => evSrtlaAck cs idx (toI32 a) classic now) st.links } := by
  induction as generalizing st with
  | nil => rfl
  | cons a as ih => rw [List.map_cons, List.foldl_cons, ih]; rfl

theorem foldl_nak (now : Nat) (ns : List Nat) (st : St) :
    (ns.map fun n => Ev.nak n now).foldl step st =
      { st with links := ns.foldl (fun cs n => (attributeNak cs st.trk n now).1) st.links } := by
  induction ns generalizing st with
  | nil => rfl
  | cons n ns ih => rw [List.map_cons, List.foldl_cons, ih]; rfl

/-- The fold of the fan-out layer's `step` over `fanTrace` is `fanCores` on the links. -/
theorem fanTrace_fold (classic : Bool) (idx now : Nat) (inc : Sys.Incoming) (st : St) :
    (fanTrace classic idx now inc).foldl step st = { st with links := fanCores classic st.trk idx now inc st.links } := by
  unfold fanTrace fanCores
  rw [List.foldl_append, List.foldl_append, foldl_cumAck, foldl_srtlaAck, foldl_nak]

theorem fold_len (evs : List Ev) (st : St) : (evs.foldl step st).links.length = st.links.length := by
  induction evs generalizing st with
  | nil => rfl
  | cons e evs ih =>
    rw [List.foldl_cons, ih]
    have := congrArg List.length (C02_ids_constant st e)
    simpa [idsOf] using this

theorem fanCores_length (classic : Bool) (trk : Tracker) (idx now : Nat) (inc : Sys.Incoming) (cs : Links) :
    (fanCores classic trk idx now inc cs).length = cs.length := by
  have h := fold_len (fanTrace classic idx now inc) { links := cs, trk := trk }
  rw [fanTrace_fold] at h
  exact h

omit [Scalar F] in
theorem cores_withCores (ls : List (FLink F)) (cs : Links) (h : cs.length = ls.length) :
    Sys.cores (Sys.withCores ls cs) = cs := by
  unfold Sys.cores Sys.withCores
  induction ls generalizing cs with
  | nil => cases cs with
    | nil => rfl
    | cons c cs => simp at h
  | cons l rest ih =>
    cases cs with
    | nil => simp at h
    | cons c cs =>
      simp only [List.zip_cons_cons, List.map_cons]
      rw [ih cs (by simpa using h)]

theorem cores_map_srtAck (ls : List (FLink F)) (x : Int) (now : Nat) :
    Sys.cores (ls.map fun l => l.srtAck x now) = evSrtAck (Sys.cores ls) x now := by
  unfold Sys.cores evSrtAck
  rw [List.map_map, List.map_map]
  apply List.map_congr_left
  intro l _
  exact Uplink.core_srtAck l x now

theorem cores_foldl_srtAck (as : List Nat) (ls : List (FLink F)) (now : Nat) :
    Sys.cores (as.foldl (fun ls a => ls.map fun l => l.srtAck (toI32 a) now) ls) =
      as.foldl (fun cs a => evSrtAck cs (toI32 a) now) (Sys.cores ls) := by
  induction as generalizing ls with
  | nil => rfl
  | cons a as ih => rw [List.foldl_cons, List.foldl_cons, ih, cores_map_srtAck]

/-- `process_connection_events` on the cores is the fold of the fan-out layer's `step` over `fanTrace`. -/
theorem pCE_toSt (s : Sys.Sys F) (idx : Nat) (inc : Sys.Incoming) (now : Nat) :
    toSt (Sys.processConnectionEvents s idx inc now).1 = (fanTrace s.cfg.classic idx now inc).foldl step (toSt s) := by
  rw [fanTrace_fold]
  have hfan : Sys.cores (Sys.processConnectionEvents s idx inc now).1.links =
      fanCores s.cfg.classic s.trk idx now inc (Sys.cores s.links) := by
    have h0 : fanCores s.cfg.classic s.trk idx now inc (Sys.cores s.links) =
        inc.naks.foldl (fun cs n => (attributeNak cs s.trk n now).1)
          (inc.sacks.foldl (fun cs a => evSrtlaAck cs idx (toI32 a) s.cfg.classic now)
            (Sys.cores (inc.acks.foldl (fun ls a => ls.map fun l => l.srtAck (toI32 a) now) s.links))) := by
      unfold fanCores
      rw [cores_foldl_srtAck]
    rw [h0]
    apply cores_withCores
    have h1 := fanCores_length s.cfg.classic s.trk idx now { inc with acks := [] }
      (Sys.cores (inc.acks.foldl (fun ls a => ls.map fun l => l.srtAck (toI32 a) now) s.links))
    unfold fanCores at h1
    simp only [List.foldl_nil] at h1
    rw [h1]
    simp [Sys.cores]
  unfold toSt
  rw [hfan]
  rfl

/-- Replacing the arrival link by a record with the same conn id: conn ids kept, its key list replaced. -/
theorem abs_setAt (ls : List (FLink F)) (trk : Tracker) (idx : Nat) (l0 a : FLink F) (hl0 : ls[idx]? = some l0)
    (hid : a.core.connId = l0.core.connId) :
    absOf { links := Sys.cores (Sys.setAt ls idx a), trk := trk } =
      { ids := (Sys.cores ls).map (·.connId),
        keys := specAt (keysOf (Sys.cores ls)) idx (fun _ => a.core.keys), trk := trk } := by
  unfold absOf
  simp only [Spec.mk.injEq, and_true]
  constructor
  · apply List.ext_getElem?
    intro j
    simp only [Sys.cores, List.getElem?_map, Uplink.getElem?_setAt]
    by_cases hj : j = idx
    · subst hj; simp [hl0, hid]
    · simp [hj]
  · apply List.ext_getElem?
    intro j
    simp only [keysOf, specAt, Sys.cores, List.getElem?_map, List.getElem?_mapIdx, Uplink.getElem?_setAt]
    by_cases hj : j = idx
    · subst hj; simp [hl0]
    · simp only [hj, if_false]
      cases ls[j]? <;> rfl

theorem specAt_self (ks : List (List Int)) (idx : Nat) (k : List Int) (h : ks[idx]? = some k) :
    specAt ks idx (fun _ => k) = ks := by
  apply List.ext_getElem?
  intro j
  simp only [specAt, List.getElem?_mapIdx]
  by_cases hj : j = idx
  · subst hj; simp [h]
  · simp only [hj, if_false]
    cases ks[j]? <;> rfl

theorem uplinkTrace_eq (classic : Bool) (idx now : Nat) (data : Sys.Bytes) (pt : Nat) (inc : Sys.Incoming)
    (hpt : Codec.getPacketTypeS data = some pt)
    (hsacks : inc.sacks = if pt = 0x9100 then Codec.unChk [] (Codec.parseSrtlaAck data) else [])
    (hacks : inc.acks = if pt = 0x8002 then (match Codec.unChk none (Codec.parseSrtAck data) with
        | some a => [a]
        | none => []) else [])
    (hnaks : inc.naks = if pt = 0x8003 then Codec.unChk [] (Codec.parseSrtNak data) else []) :
    uplinkTrace classic idx now data = armTrace pt idx now ++ fanTrace classic idx now inc := by
  unfold uplinkTrace armTrace fanTrace
  rw [hpt, hacks, hsacks, hnaks]
  dsimp only
  by_cases q1 : pt = 0x9202
  · subst q1; simp
  by_cases q2 : pt = 0x9210
  · subst q2; simp
  by_cases q3 : pt = 0x8002
  · subst q3
    simp only [if_true]
    cases Codec.unChk none (Codec.parseSrtAck data) <;> simp
  by_cases q4 : pt = 0x8003
  · subst q4; simp
  by_cases q5 : pt = 0x9100
  · subst q5; simp
  · simp [q1, q2, q3, q4, q5]

/-- **C02 at shell level, an uplink datagram, exactly** (global spec, cross-link attribution included): from an
invariant state, an `uplink` event arriving on the conn id of link `idx` takes the abstraction (conn ids, per-link
key lists, tracker) EXACTLY to the fold of C02's spec machine `specStep` over `uplinkTrace` — the events the
datagram decodes to.  So at shell level: a cumulative SRT ACK retires everything at or below it on EVERY link; each
SRTLA-ACKed number is retired on the arrival link if it holds it, otherwise on the first other holder; each NAKed
number is retired on the tracker's remembered present carrier (no fall-through), otherwise on the first holder;
REG3 and REG_ERR empty the arrival link's set; every other datagram changes no set; no uplink datagram changes a
conn id or the tracker.  (A datagram on an unknown conn id changes nothing at all: `Uplink.unknown_link`.) -/
theorem C02_shell_uplink_refines (s : Sys.Sys F) (now cid : Nat) (data : Sys.Bytes) (idx : Nat) (hinv : ShellInv s)
    (hidx : s.links.findIdx? (·.core.connId == cid) = some idx) :
    absSys (Sys.step s (.uplink now cid data)).1 =
      (uplinkTrace s.cfg.classic idx now data).foldl specStep (absSys s) := by
  show absSys (Sys.handleUplinkPacket s cid data now).1 = _
  by_cases hlen : data.length < 2
  · rw [(Uplink.short_datagram s cid data now hlen).1]
    have : Codec.getPacketTypeS data = none := by
      match data, hlen with
      | [], _ => rfl
      | [x], _ => rfl
    unfold uplinkTrace
    rw [this]
    rfl
  obtain ⟨pt, hpt⟩ := Uplink.type_of_len data (by omega)
  obtain ⟨l0, hl0, -⟩ := Uplink.findIdx_get s.links cid idx hidx
  have hne : data ≠ [] := by intro h; subst h; simp at hlen
  rw [Uplink.handleUplinkPacket_eq s cid data now idx l0 hne hidx hl0]
  obtain ⟨-, -, hsacks, hacks, hnaks, -⟩ := Uplink.incoming_spec l0 idx s.reg s.clientKnown data now pt hpt
  have hrun := arrival_run l0 idx s.reg s.clientKnown data now pt s.cfg.classic hpt
  have hcases := Uplink.arrival_cases l0 idx s.reg s.clientKnown data now pt hpt
  have hkl := Uplink.kaLink_spec l0 data now
  generalize Uplink.arrival l0 idx s.reg s.clientKnown data now = arr at hrun hcases ⊢
  generalize (Uplink.pupSpec l0 idx s.reg s.clientKnown data now).2.2 = inc at hsacks hacks hnaks ⊢
  generalize (Uplink.pupSpec l0 idx s.reg s.clientKnown data now).2.1 = reg1
  -- normal form of the left-hand side
  have lhs : absSys (Sys.processConnectionEvents ({ s with links := Sys.setAt s.links idx arr, reg := reg1 } : Sys.Sys F)
        idx inc now).1 =
      absOf ((fanTrace s.cfg.classic idx now inc).foldl step
        { links := Sys.cores (Sys.setAt s.links idx arr), trk := s.trk }) := by
    unfold absSys
    rw [pCE_toSt]
    rfl
  dsimp only
  rw [lhs]
  -- the arrival link after its arm
  have hi0 : SysInv.LinkInv l0 := shellInv_all hinv l0 (List.mem_of_getElem? hl0)
  have hia : LogInv arr.core := ((keys_run hrun) hi0).1.log
  have hid : arr.core.connId = l0.core.connId := connId_run hrun
  have hall : AllInv (Sys.cores (Sys.setAt s.links idx arr)) := by
    intro c hc
    obtain ⟨l, hl, rfl⟩ := List.mem_map.1 hc
    unfold Sys.setAt at hl
    rw [List.mem_mapIdx] at hl
    obtain ⟨k, hk, rfl⟩ := hl
    split
    · exact hia
    · exact (hinv _ (List.getElem_mem hk)).1
  have hwf : ∀ e ∈ fanTrace s.cfg.classic idx now inc, wf e := by
    intro e he
    unfold fanTrace at he
    simp only [List.mem_append, List.mem_map] at he
    rcases he with (⟨_, _, rfl⟩ | ⟨_, _, rfl⟩) | ⟨_, _, rfl⟩ <;> trivial
  have hk0 : (keysOf (Sys.cores s.links))[idx]? = some l0.core.keys := by
    simp [keysOf, Sys.cores, hl0]
  -- what the arm did to the abstraction
  have harm : absOf { links := Sys.cores (Sys.setAt s.links idx arr), trk := s.trk } =
      (armTrace pt idx now).foldl specStep (absSys s) := by
    have same : arr.core.keys = l0.core.keys → pt ≠ 0x9202 → pt ≠ 0x9210 →
        absOf { links := Sys.cores (Sys.setAt s.links idx arr), trk := s.trk } =
          (armTrace pt idx now).foldl specStep (absSys s) := by
      intro hk p1 p2
      rw [abs_setAt s.links s.trk idx l0 arr hl0 hid, hk, specAt_self _ _ _ hk0]
      unfold armTrace
      rw [if_neg p1, if_neg p2]
      rfl
    rcases hcases with ⟨hp, h | h⟩ | ⟨hp, h⟩ | ⟨hp, h⟩ | ⟨hp, h⟩ | ⟨hp, h⟩ | ⟨h1, h2, h3, h4, h5, h⟩
    · exact same (by rw [h]) (by omega) (by omega)
    · exact same (by rw [h]; rfl) (by omega) (by omega)
    · exact same (by rw [h]) (by omega) (by omega)
    · rw [abs_setAt s.links s.trk idx l0 arr hl0 hid, show arr.core.keys = [] by rw [h]; rfl]
      unfold armTrace
      rw [if_pos hp]
      rfl
    · rw [abs_setAt s.links s.trk idx l0 arr hl0 hid, show arr.core.keys = [] by rw [h]; rfl]
      unfold armTrace
      rw [if_neg (by omega), if_pos hp]
      rfl
    · exact same (by rw [h]; exact SysDir.keys_congr hkl.2.1) (by omega) (by omega)
    · exact same (by rw [h]; rfl) h3 h4
  rw [(C02_refines _ _ hall hwf).1, harm, ← List.foldl_append,
    uplinkTrace_eq s.cfg.classic idx now data pt inc hpt hsacks hacks hnaks]

/-! ### Non-vacuity -/

section examples

/-- Toy scalar (`Lemmas/SelectFrame.lean`) used ONLY by the `example`s, to have concrete links. -/
local instance exScalar : Scalar Int := Select.fixScalar

/-- Link 0 (conn id 1): live, holds 5 and 7 (high-water mark 4), three data packets 9, 10, 11 QUEUED in a
low-activity batch (threshold 4) — queued, so NOT in the set and not counted in flight.  Link 1 (conn id 2):
live, holds a probe copy of 7.  The ring remembers conn id 2 for 7. -/
def exShell : Sys.Sys Int :=
  { links :=
      [{ (FLink.newRegistering 1 0 : FLink Int) with
          core := { connId := 1, connected := true, phase := .live, window := 20000, inFlight := 2,
                    log := [(5, 100), (7, 120)], highestAcked := 4, lastReceived := some 4990 },
          established := 1, regime := .low,
          queue := [([0, 0, 0, 9, 0, 0, 0, 0], some 9, 4000), ([0, 0, 0, 10, 0, 0, 0, 0], some 10, 4001),
                    ([0, 0, 0, 11, 0, 0, 0, 0], some 11, 4002)] },
       { (FLink.newRegistering 2 0 : FLink Int) with
          core := { connId := 2, connected := true, phase := .live, window := 20000, inFlight := 1,
                    log := [(7, 125)], highestAcked := 4, lastReceived := some 4990 },
          established := 1 }],
    reg := Srtla.Reg.Reg.new [] [],
    trk := Tracker.empty.insert 7 2 125 }

theorem exShell_inv : ShellInv exShell := by
  intro l hl
  simp only [exShell, List.mem_cons, List.not_mem_nil, or_false] at hl
  rcases hl with rfl | rfl
  · refine ⟨⟨by decide, by decide, by decide⟩, by decide, by decide, by decide, ?_⟩
    intro it hit sq hsq
    simp only [List.mem_cons, List.not_mem_nil, or_false] at hit
    rcases hit with rfl | rfl | rfl <;> (cases hsq; decide)
  · refine ⟨⟨by decide, by decide, by decide⟩, by decide, by decide, by decide, ?_⟩
    intro it hit
    cases hit

/-- (set, in-flight counter, queue length) per link. -/
def exKeys (s : Sys.Sys Int) : List (List Int × Int × Nat) :=
  s.links.map fun l => (l.core.keys, l.core.inFlight, l.queue.length)

/-- Sends are registered at DRAIN time: the three queued packets are not in the set; the periodic flush
(`C02_shell_flush_exact`) puts exactly them in, in queue order; a fourth client datagram reaches the threshold
and drains all four; with an injected send failure the same event empties the link (reset after the failed send). -/
example :
    exKeys exShell = [([5, 7], 2, 3), ([7], 1, 0)] ∧
    exKeys (Sys.step exShell (.flush 5000)).1 = [([5, 7, 9, 10, 11], 5, 0), ([7], 1, 0)] ∧
    exKeys (Sys.step exShell (.client 5000 [0, 0, 0, 12, 0, 0, 0, 0, 1, 2])).1 = [([5, 7, 9, 10, 11, 12], 6, 0), ([7], 1, 0)] ∧
    exKeys (Sys.step (Sys.step exShell (.failNext 1)).1 (.client 5000 [0, 0, 0, 12, 0, 0, 0, 0, 1, 2])).1 =
      [([], 0, 0), ([7], 1, 0)] := by
  decide +kernel

/-- Cross-link attribution (`C02_shell_uplink_refines`): a NAK of 5, 7, 7 arriving on link 0 — 5 is retired on
link 0 (first holder), 7 on link 1 (the carrier the ring remembers), NOT on link 0 which also holds it; the
repeated 7 retires nothing.  An SRTLA ACK of 7 arriving on link 0 retires it on the arrival link.  A cumulative
SRT ACK of 7 retires 5 and 7 on EVERY link.  The spec fold gives the same sets. -/
example :
    let nak : Sys.Bytes := [0x80, 0x03, 0, 0, 0, 0, 0, 5, 0, 0, 0, 7, 0, 0, 0, 7]
    let sack : Sys.Bytes := [0x91, 0x00, 0, 0, 0, 0, 0, 7]
    let ack : Sys.Bytes := [0x80, 0x02, 0, 0, 0, 0, 0, 0, 0, 0, 0, 0, 0, 0, 0, 0, 0, 0, 0, 7]
    exShell.links.findIdx? (·.core.connId == 1) = some 0 ∧
    exKeys (Sys.step exShell (.uplink 200 1 nak)).1 = [([7], 1, 3), ([], 0, 0)] ∧
    ((uplinkTrace false 0 200 nak).foldl specStep (absSys exShell)).keys = [[7], []] ∧
    exKeys (Sys.step exShell (.uplink 200 1 sack)).1 = [([5], 1, 3), ([7], 1, 0)] ∧
    ((uplinkTrace false 0 200 sack).foldl specStep (absSys exShell)).keys = [[5], [7]] ∧
    exKeys (Sys.step exShell (.uplink 200 1 ack)).1 = [([], 0, 3), ([], 0, 0)] ∧
    ((uplinkTrace false 0 200 ack).foldl specStep (absSys exShell)).keys = [[], []] := by
  decide +kernel

/-- Instances of the theorems on `exShell`. -/
example (evs : List Sys.Ev) (hnr : Sys.NoReload evs) (j : Nat) (l : FLink Int) (hl : exShell.links[j]? = some l) :=
  C02_shell_refines exShell evs exShell_inv hnr j l hl

example (now cid : Nat) (data : Sys.Bytes) (idx : Nat)
    (hidx : exShell.links.findIdx? (·.core.connId == cid) = some idx) :=
  C02_shell_uplink_refines exShell now cid data idx exShell_inv hidx

example := C02_shell_flush_exact exShell 5000 0 _ rfl

/-- `C02_shell_client_exact` / `SysDir.clientBlock` on `exShell` (link 0: low-activity regime, threshold 4, three
data packets 9, 10, 11 queued; conn ids 1, 2 distinct).  The data packet 12 is routed to link 0 and reaches the
threshold: the block is the four sends in queue order; with an injected failure for conn id 1 it is the single
`reset` (and the injection is consumed: `failNext` `[1]` → `[]`); link 1 gets nothing in both cases: no operation.
A data packet arriving while only TWO are queued stays below the threshold: no operation — queued, not in the
set. -/
example :
    let pkt : Sys.Bytes := [0, 0, 0, 12, 0, 0, 0, 0, 1, 2]
    let sF := (Sys.step exShell (.failNext 1)).1
    let s2 : Sys.Sys Int := { exShell with links := exShell.links.map fun l => { l with queue := l.queue.take 2 } }
    (Sys.ids exShell.links).Nodup ∧
    Sys.appended exShell (.client 5000 pkt) 0 = [(pkt, some 12, 5000)] ∧ Sys.appended exShell (.client 5000 pkt) 1 = [] ∧
    clientBlock exShell 5000 pkt 0 = [.send 9, .send 10, .send 11, .send 12] ∧ clientBlock exShell 5000 pkt 1 = [] ∧
    clientBlock sF 5000 pkt 0 = [.reset] ∧ clientBlock sF 5000 pkt 1 = [] ∧
    sF.failNext = [1] ∧ (Sys.step sF (.client 5000 pkt)).1.failNext = [] ∧
    clientBlock s2 5000 pkt 0 = [] ∧ exKeys (Sys.step s2 (.client 5000 pkt)).1 = [([5, 7], 2, 3), ([7], 1, 0)] := by
  decide +kernel

example (now : Nat) (pkt : Sys.Bytes) (j : Nat) (l : FLink Int) (hl : exShell.links[j]? = some l) :=
  C02_shell_client_exact exShell now pkt (by decide) j l hl

example (evs : List Sys.Ev) (hnr : Sys.NoReload evs) (j : Nat) (l : FLink Int) (hl : exShell.links[j]? = some l) :=
  C02_shell_refines_exact exShell evs exShell_inv (by decide) hnr j l hl

/-- An exact history (`RunHistX`) for link 0 over the run [client 12, NAK of 5, flush]: the client block is the
four sends of the drained batch, the NAK block (an `other` event) one retirement, the flush block is empty (the
queue is empty by then). -/
example :
    let pkt : Sys.Bytes := [0, 0, 0, 12, 0, 0, 0, 0, 1, 2]
    let evs : List Sys.Ev := [.client 5000 pkt, .uplink 5001 1 [0x80, 0x03, 0, 0, 0, 0, 0, 5], .flush 5010]
    clientBlock exShell 5000 pkt 0 ++ [KOp.retire 5] ++ flushBlock (Sys.run exShell (evs.take 2)).1 0 =
      [.send 9, .send 10, .send 11, .send 12, .retire 5] ∧
    [KOp.send 9, .send 10, .send 11, .send 12, .retire 5].foldl kstep [5, 7] = [7, 9, 10, 11, 12] ∧
    ((Sys.run exShell evs).1.links.map (·.core.keys)) = [[7, 9, 10, 11, 12], [7]] := by
  decide +kernel

/-- A shell-visible history (`RunHist`) for link 0 over the run [flush, NAK of 5]: the flush block is the three
sends, the NAK block one retirement; its fold over the initial set [5, 7] is the final set [7, 9, 10, 11]. -/
example : [KOp.send 9, .send 10, .send 11, .retire 5].foldl kstep [5, 7] = [7, 9, 10, 11] ∧
    ((Sys.run exShell [.flush 5000, .uplink 5001 1 [0x80, 0x03, 0, 0, 0, 0, 0, 5]]).1.links.map (·.core.keys)) =
      [[7, 9, 10, 11], [7]] := by
  decide +kernel

end examples

end shellC02

/-! # Round 8 — C02 at shell level BY CONN ID, across reloads

`C02_shell_refines` / `C02_shell_refines_exact` follow a link by its INDEX and carry `NoReload`.  A reload
(`Ev.reload` = `apply_connection_changes`) removes links, shifts the indices of the retained ones and appends new
ones, so across a reload the identity of a link is its CONN ID.  `Lemmas/C02Reload.lean`:

* `SysDir.Origin s c pre k0` — where the link that carries conn id `c` came from: a link of the start state
  (`pre = []`, `k0` = its key list there) or a link CREATED by the reload that ends `pre` (no link carried `c` before
  that reload; `k0 = []`);
* `SysDir.IdHist s post c hist` — the link with conn id `c` is PRESENT THROUGHOUT `post`; every event other than a
  reload contributes a block of set operations allowed for the index the link has in the state reached
  (`kopOk (evOps s e j)`, spelled out by `C02_shell_event_kinds`); a reload contributes NO set operation and retains
  the link (its address is still desired — `reload_frame`: the whole record moves with it);
* `SysDir.IdHistX` — the same with the exact blocks `clientBlock` / `flushBlock` of the data path.

Hypotheses of the run theorems, as in `Props/SysReload.lean: Inv_run_reload`: `Sys.Inv` of the start state (conn ids
pairwise distinct, queues below 32) and `FreshRun` (the conn ids a reload draws — `rand::rng().next_u64()` — are new
among the links present then).  No `NoReload`.  A REMOVED link's history simply ends: `C02_shell_removed_ends` — no
link carries its conn id after the reload; if a later reload re-draws that id, the link it names then has its
`Origin` at THAT reload and starts from the empty set. -/

section shellC02Reload
open Srtla Srtla.Link Srtla.SysDir Srtla.Props.SysReload
set_option linter.unusedSectionVars false
variable {F : Type} [Scalar F]

/-- **`in_flight_packets` = size of the set, along EVERY run, reloads included** — no hypothesis but the accounting
invariant of the start state (not even distinct ids): for every link of the end state the counter is the size of the
key set of its packet log, it is never negative and the set has no duplicates; the end state satisfies `ShellInv`
again.  (A retained link keeps its record; a created link starts with the empty set and counter 0.) -/
theorem C02_inflight_eq_card_run_reload (s : Sys.Sys F) (evs : List Sys.Ev) (hinv : ShellInv s) :
    ShellInv (Sys.run s evs).1 ∧
    ∀ l' ∈ (Sys.run s evs).1.links,
      l'.core.inFlight = (l'.core.keys.length : Int) ∧ 0 ≤ l'.core.inFlight ∧ l'.core.keys.Nodup := by
  have h := LinkInv_run_reload s evs (shellInv_all hinv)
  refine ⟨shellInv_of_all h, fun l' hl' => ?_⟩
  obtain ⟨hi, -, -, -, -⟩ := h l' hl'
  exact ⟨hi.count, by rw [hi.count]; exact Int.natCast_nonneg _, hi.nodup⟩

/-- **C02 at shell level by conn id, every run WITH reloads.**  From any state that satisfies the accounting
invariant and `Sys.Inv` (both hold initially), along ANY finite list of shell events — reloads included, the ids
they draw new (`FreshRun`) — for every link `l'` of the end state, with `c` its conn id:
* the run splits as `pre ++ post` where the link's `Origin` is at the end of `pre`: it is a link of the start state
  (`pre = []`, `k0` its key list there) or it was created by the reload that ends `pre`, before which no link carried
  `c` (`k0 = []`);
* the link is present throughout `post` and its key list is the fold of the per-link set machine over a
  shell-visible history of `post` (`IdHist`: per event a block allowed for the index the link has THEN; nothing at a
  reload), started from `k0`;
* `in_flight_packets` is the size of that set (never negative), the set has no duplicates;
* `l'` is THE link with conn id `c` in the end state (conn ids are still pairwise distinct). -/
theorem C02_shell_refines_by_id (s : Sys.Sys F) (evs : List Sys.Ev) (hinv : ShellInv s) (hI : Sys.Inv s)
    (hf : FreshRun s evs) :
    ∀ l' ∈ (Sys.run s evs).1.links, ∃ pre post k0 hist, evs = pre ++ post ∧
      Origin s l'.core.connId pre k0 ∧ IdHist (Sys.run s pre).1 post l'.core.connId hist ∧
      l'.core.keys = hist.foldl kstep k0 ∧
      l'.core.inFlight = (l'.core.keys.length : Int) ∧ 0 ≤ l'.core.inFlight ∧ l'.core.keys.Nodup ∧
      ∀ m ∈ (Sys.run s evs).1.links, m.core.connId = l'.core.connId → m = l' := by
  intro l' hl'
  obtain ⟨pre, post, k0, hist, h1, h2, h3, h4⟩ := refines_by_id s evs (shellInv_all hinv) hf l' hl'
  obtain ⟨h5, h6, h7⟩ := (C02_inflight_eq_card_run_reload s evs hinv).2 l' hl'
  exact ⟨pre, post, k0, hist, h1, h2, h3, h4, h5, h6, h7,
    fun m hm hc => eq_of_mem_of_connId (Inv_run_reload s hI evs hf).nodup hm hl' hc⟩

/-- **C02 at shell level by conn id, every run WITH reloads, exact data path.**  As `C02_shell_refines_by_id`, with
the history `IdHistX`: the block of a `client` event is `SysDir.clientBlock s now pkt j` and the block of a `flush`
event is `SysDir.flushBlock s j`, `s` the state the run had reached and `j` the index the link with this conn id has
THERE — no unconstrained `send` / `reset` arguments on the data path. -/
theorem C02_shell_refines_exact_by_id (s : Sys.Sys F) (evs : List Sys.Ev) (hinv : ShellInv s) (hI : Sys.Inv s)
    (hf : FreshRun s evs) :
    ∀ l' ∈ (Sys.run s evs).1.links, ∃ pre post k0 hist, evs = pre ++ post ∧
      Origin s l'.core.connId pre k0 ∧ IdHistX (Sys.run s pre).1 post l'.core.connId hist ∧
      l'.core.keys = hist.foldl kstep k0 ∧
      l'.core.inFlight = (l'.core.keys.length : Int) ∧ 0 ≤ l'.core.inFlight ∧ l'.core.keys.Nodup ∧
      ∀ m ∈ (Sys.run s evs).1.links, m.core.connId = l'.core.connId → m = l' := by
  have key : ∀ (evs : List Sys.Ev) (s : Sys.Sys F), ShellInv s → Sys.Inv s → FreshRun s evs →
      ∀ l' ∈ (Sys.run s evs).1.links, ∃ pre post k0 hist, evs = pre ++ post ∧
        Origin s l'.core.connId pre k0 ∧ IdHistX (Sys.run s pre).1 post l'.core.connId hist ∧
        l'.core.keys = hist.foldl kstep k0 := by
    intro evs
    induction evs with
    | nil =>
      intro s _ _ _ l' hl'
      exact ⟨[], [], _, [], rfl, .start hl' rfl, .nil hl' rfl, rfl⟩
    | cons e es ih =>
      intro s hinv hI hf l' hl'
      obtain ⟨pre, post, k0, hist, hsplit, horig, hhist, hkeys⟩ :=
        ih (Sys.step s e).1 (hinv.step e) (Inv_step_fresh s hI e hf.1) hf.2 l' hl'
      cases horig with
      | created h1 h2 =>
        exact ⟨_, post, [], hist, by rw [hsplit]; rfl, Origin.cons_created h1 h2, hhist, hkeys⟩
      | start hl1 hc1 =>
        rename_i l1
        have hes : es = post := hsplit
        subst hes
        -- the link at the same index one event earlier (events other than a reload)
        have back : e.isReload = false → ∃ j l0, (Sys.step s e).1.links[j]? = some l1 ∧ s.links[j]? = some l0 ∧
            l0.core.connId = l'.core.connId ∧
            ∃ kops : List KOp, (∀ k ∈ kops, kopOk (evOps s e j) k) ∧ l1.core.keys = kops.foldl kstep l0.core.keys := by
          intro hnr
          obtain ⟨j, hj, hget⟩ := List.getElem_of_mem hl1
          have h1 : (Sys.step s e).1.links[j]? = some l1 := by rw [List.getElem?_eq_getElem hj, hget]
          obtain ⟨l0, hl0, hid, kops, hk1, hk2⟩ := step_keys_at s e hnr (shellInv_all hinv) h1
          exact ⟨j, l0, h1, hl0, hid.trans hc1, kops, hk1, hk2⟩
        have other : e.isReload = false → (∀ now pkt, e ≠ .client now pkt) → (∀ now, e ≠ .flush now) →
            ∃ pre post k0 hist, e :: es = pre ++ post ∧ Origin s l'.core.connId pre k0 ∧
              IdHistX (Sys.run s pre).1 post l'.core.connId hist ∧ l'.core.keys = hist.foldl kstep k0 := by
          intro hnr hc hfl
          obtain ⟨j, l0, -, hl0, hid, kops, hk1, hk2⟩ := back hnr
          refine ⟨[], e :: es, l0.core.keys, kops ++ hist, rfl, .start (List.mem_of_getElem? hl0) hid,
            .other hnr hc hfl hl0 hid hk1 hhist, ?_⟩
          rw [List.foldl_append, ← hk2]
          exact hkeys
        cases e with
        | reload now addrs outs =>
          rcases Sys.mem_reload hl1 with ⟨hm, ha⟩ | ⟨id, a, -, hid, rfl⟩
          · exact ⟨[], _ :: es, l1.core.keys, hist, rfl, .start hm hc1, .reload hm hc1 ha hhist, hkeys⟩
          · have hc : l'.core.connId = id := hc1.symm
            refine ⟨[.reload now addrs outs], es, [], hist, rfl, ?_, hhist, hkeys⟩
            refine Origin.created (s := s) (pre := []) ?_ ?_
            · rw [hc]; exact (hf.1 now addrs outs rfl).2 id hid
            · rw [hc]; exact List.mem_map.2 ⟨_, hl1, rfl⟩
        | client now pkt =>
          obtain ⟨j, l0, h1, hl0, hid, -⟩ := back rfl
          obtain ⟨l1', hl1', hk, -⟩ := client_keys_exact s now pkt hI.nodup j l0 hl0
          have : l1' = l1 := by rw [hl1'] at h1; exact Option.some.inj h1
          subst this
          refine ⟨[], _ :: es, l0.core.keys, clientBlock s now pkt j ++ hist, rfl,
            .start (List.mem_of_getElem? hl0) hid, .client hl0 hid hhist, ?_⟩
          rw [List.foldl_append, ← hk]
          exact hkeys
        | flush now =>
          obtain ⟨j, l0, h1, hl0, hid, -⟩ := back rfl
          obtain ⟨l1', hl1', hk, -⟩ := C02_shell_flush_exact s now j l0 hl0
          have : l1' = l1 := by rw [hl1'] at h1; exact Option.some.inj h1
          subst this
          refine ⟨[], _ :: es, l0.core.keys, flushBlock s j ++ hist, rfl,
            .start (List.mem_of_getElem? hl0) hid, .flush hl0 hid hhist, ?_⟩
          have hb : (flushBlock s j).foldl kstep l0.core.keys = l1'.core.keys := by
            unfold flushBlock
            rw [hl0]
            dsimp only
            rw [foldl_sends, hk]
          rw [List.foldl_append, hb]
          exact hkeys
        | uplink now cid data => exact other rfl (fun _ _ h => by cases h) (fun _ h => by cases h)
        | hk now => exact other rfl (fun _ _ h => by cases h) (fun _ h => by cases h)
        | setCfg cfg => exact other rfl (fun _ _ h => by cases h) (fun _ h => by cases h)
        | crit d => exact other rfl (fun _ _ h => by cases h) (fun _ h => by cases h)
        | failNext c => exact other rfl (fun _ _ h => by cases h) (fun _ h => by cases h)
        | failAfter c k => exact other rfl (fun _ _ h => by cases h) (fun _ h => by cases h)
        | failBind c => exact other rfl (fun _ _ h => by cases h) (fun _ h => by cases h)
        | stamp idx w ld ccb cct => exact other rfl (fun _ _ h => by cases h) (fun _ h => by cases h)
        | syncTimeout => exact other rfl (fun _ _ h => by cases h) (fun _ h => by cases h)
  intro l' hl'
  obtain ⟨pre, post, k0, hist, h1, h2, h3, h4⟩ := key evs s hinv hI hf l' hl'
  obtain ⟨h5, h6, h7⟩ := (C02_inflight_eq_card_run_reload s evs hinv).2 l' hl'
  exact ⟨pre, post, k0, hist, h1, h2, h3, h4, h5, h6, h7,
    fun m hm hc => eq_of_mem_of_connId (Inv_run_reload s hI evs hf).nodup hm hl' hc⟩

/-- **"The link with conn id `c`" is unambiguous at every moment of the run**: under the hypotheses of
`C02_shell_refines_by_id` the conn ids are pairwise distinct in the state after EVERY prefix of the run, so the link
`IdHist` / `IdHistX` pick at each event (any index `j` whose link carries `c`) is the only one. -/
theorem C02_ids_distinct_along_run (s : Sys.Sys F) (evs : List Sys.Ev) (hI : Sys.Inv s) (hf : FreshRun s evs)
    (k : Nat) : (Sys.ids (Sys.run s (evs.take k)).1.links).Nodup :=
  ids_nodup_along s hI evs hf k

/-- **A removed link's history ends.**  Conn ids pairwise distinct, the drawn ids new: a link whose address is no
longer desired is not a link of the state after the reload and NO link there carries its conn id — its set is gone
with it; every link of the post-state that was a link before (its address is desired) has its key list, its counter,
its whole record unchanged; every other link of the post-state is freshly created with the empty set and counter 0. -/
theorem C02_shell_removed_ends (s : Sys.Sys F) (now : Nat) (addrs : List Nat) (outs : List (Option Nat))
    (hI : Sys.Inv s) (hfr : FreshOuts s.links outs) :
    (∀ l ∈ s.links, addrs.contains l.addr = false →
      ∀ l' ∈ (Sys.step s (.reload now addrs outs)).1.links, l'.core.connId ≠ l.core.connId) ∧
    (∀ l' ∈ (Sys.step s (.reload now addrs outs)).1.links,
      (l' ∈ s.links ∧ addrs.contains l'.addr = true) ∨
      (l'.core.connId ∉ Sys.ids s.links ∧ l'.core.keys = [] ∧ l'.core.inFlight = 0)) := by
  refine ⟨fun l hl hr => reload_removed s now addrs outs hI.nodup hfr.2 l hl hr, fun l' hl' => ?_⟩
  rcases Sys.mem_reload hl' with h | ⟨id, a, -, hid, rfl⟩
  · exact .inl h
  · exact .inr ⟨hfr.2 id hid, rfl, rfl⟩

/-! ### Non-vacuity (a run with two reloads from a non-pristine state) -/

section examplesReload

local instance exScalarR : Scalar Int := Select.fixScalar

/-- From `Props/SysReload.lean: exS` (links `1@1` and `2@2` busy: live, packet 40 in flight and logged, datagram 41
QUEUED; `3@3` fresh): a periodic flush (41 enters the sets of links 1 and 2); the reload `exReload` (address 2 no
longer desired: link 2 is REMOVED with its set `[40, 41]`; `7@4` and `8@6` created); a cumulative SRT ACK of 40 on
link 1 (retires 40, everything at or below it; 41 stays); a NAK of 41 arriving on link 1; a SECOND reload that re-adds
address 2 under the new conn id 9 and removes `7@4`, `8@6`; a client datagram; a housekeeping tick. -/
def exRunR : List Sys.Ev :=
  [.flush 5000, exReload,
   .uplink 5010 1 [0x80, 0x02, 0, 0, 0, 0, 0, 0, 0, 0, 0, 0, 0, 0, 0, 0, 0, 0, 0, 40],
   .uplink 5011 1 [0x80, 0x03, 0, 0, 0, 0, 0, 41],
   .reload 5020 [1, 2, 3] [some 9], .client 5021 exData, .hk 5022]

/-- (conn id, address, key set, in-flight counter) per link. -/
def exKeysR (s : Sys.Sys Int) : List (Nat × Nat × List Int × Int) :=
  s.links.map fun l => (l.core.connId, l.addr, l.core.keys, l.core.inFlight)

theorem exS_shellInv : ShellInv exS := shellInv_of_all exS_linkInv

/-- The hypotheses hold of `exS` / `exRunR` (the run is NOT reload-free); the sets by conn id along the run: link 1
keeps its identity through both reloads while its INDEX-mate changes (index 1 is link 2, then link 3); link 2's
history ends at the first reload; link 9 is created by the second reload and starts empty although it has the
ADDRESS of the removed link 2. -/
example :
    ShellInv exS ∧ Sys.Inv exS ∧ FreshRun exS exRunR ∧ ¬ Sys.NoReload exRunR ∧
    exKeysR exS = [(1, 1, [40], 1), (2, 2, [40], 1), (3, 3, [], 0)] ∧
    exKeysR (Sys.run exS (exRunR.take 1)).1 = [(1, 1, [40, 41], 2), (2, 2, [40, 41], 2), (3, 3, [], 0)] ∧
    exKeysR (Sys.run exS (exRunR.take 2)).1 = [(1, 1, [40, 41], 2), (3, 3, [], 0), (7, 4, [], 0), (8, 6, [], 0)] ∧
    exKeysR (Sys.run exS (exRunR.take 3)).1 = [(1, 1, [41], 1), (3, 3, [], 0), (7, 4, [], 0), (8, 6, [], 0)] ∧
    exKeysR (Sys.run exS (exRunR.take 4)).1 = [(1, 1, [], 0), (3, 3, [], 0), (7, 4, [], 0), (8, 6, [], 0)] ∧
    exKeysR (Sys.run exS exRunR).1 = [(1, 1, [], 0), (3, 3, [], 0), (9, 2, [], 0)] :=
  ⟨exS_shellInv, exS_inv, by decide +kernel, by decide, by decide +kernel, by decide +kernel, by decide +kernel,
   by decide +kernel, by decide +kernel, by decide +kernel⟩

/-- The history of conn id 1 over `exRunR` (an `IdHistX`: origin = start state, `pre = []`): the flush block at index
0 of the start state is the send of 41; the reloads contribute nothing; the SRT ACK block is one cumulative ACK, the
NAK block one retirement; the fold over the initial set `[40]` is the final set `[]`.  Conn id 9: origin = the second
reload (`pre = exRunR.take 5`, no link carried 9 before it), set `[]`. -/
example :
    flushBlock exS 0 = [.send 41] ∧
    [KOp.send 41, .cumAck 40, .retire 41].foldl kstep [40] = [] ∧
    [KOp.send 41, .cumAck 40].foldl kstep [40] = [41] ∧
    9 ∉ Sys.ids (Sys.run exS (exRunR.take 4)).1.links ∧ 9 ∈ Sys.ids (Sys.run exS (exRunR.take 5)).1.links ∧
    2 ∈ Sys.ids (Sys.run exS (exRunR.take 1)).1.links ∧ 2 ∉ Sys.ids (Sys.run exS (exRunR.take 2)).1.links :=
  ⟨by decide +kernel, by decide, by decide, by decide +kernel, by decide +kernel, by decide +kernel, by decide +kernel⟩

/-- An explicit `IdHistX` derivation ACROSS a reload, conn id 1 from `exS` over `[flush, exReload, flush]`: the first
flush contributes `flushBlock` at index 0 of `exS` (the send of 41), the reload contributes nothing and retains the
link (address 1 is desired), the second flush contributes `flushBlock` at the index the link has after the reload
(the queue is empty by then: no operation). -/
example :
    IdHistX exS [.flush 5000, exReload, .flush 5001] 1
      (flushBlock exS 0 ++ (flushBlock (Sys.run exS [.flush 5000, exReload]).1 0 ++ [])) ∧
    flushBlock exS 0 ++ (flushBlock (Sys.run exS [.flush 5000, exReload]).1 0 ++ []) = [.send 41] := by
  -- the link at index 0 of a concrete state, with its conn id and address (a closed, decidable statement)
  have head : ∀ {ls : List (FLink Int)} {c a : Nat}, ls[0]?.map (fun l => (l.core.connId, l.addr)) = some (c, a) →
      ∃ l, ls[0]? = some l ∧ l ∈ ls ∧ l.core.connId = c ∧ l.addr = a := by
    intro ls c a h
    cases hl : ls[0]? with
    | none => rw [hl] at h; cases h
    | some l =>
      rw [hl] at h
      simp only [Option.map_some, Option.some.injEq, Prod.mk.injEq] at h
      exact ⟨l, rfl, List.mem_of_getElem? hl, h.1, h.2⟩
  obtain ⟨l0, g0, -, c0, -⟩ := head (ls := exS.links) (c := 1) (a := 1) (by decide +kernel)
  obtain ⟨l1, -, m1, c1, a1⟩ := head (ls := (Sys.step exS (.flush 5000)).1.links) (c := 1) (a := 1) (by decide +kernel)
  obtain ⟨l2, g2, -, c2, -⟩ :=
    head (ls := (Sys.step (Sys.step exS (.flush 5000)).1 exReload).1.links) (c := 1) (a := 1) (by decide +kernel)
  obtain ⟨l3, -, m3, c3, -⟩ :=
    head (ls := (Sys.step (Sys.step (Sys.step exS (.flush 5000)).1 exReload).1 (.flush 5001)).1.links) (c := 1) (a := 1)
      (by decide +kernel)
  refine ⟨?_, by decide +kernel⟩
  refine .flush g0 c0 ?_
  refine IdHistX.reload (now := 9) (addrs := [3, 1, 4, 4, 5, 6]) (outs := [some 7, none, some 8]) m1 c1
    (by rw [a1]; decide) ?_
  refine .flush g2 c2 ?_
  exact .nil m3 c3

/-- An explicit `Origin.created`: conn id 7 names no link after `[flush]` and names one after `[flush, exReload]`. -/
example : Origin exS 7 ([.flush 5000] ++ [.reload 9 [3, 1, 4, 4, 5, 6] [some 7, none, some 8]]) [] :=
  .created (by decide +kernel) (by decide +kernel)

/-- Instances of the theorems on `exS` / `exRunR`. -/
example := C02_shell_refines_by_id exS exRunR exS_shellInv exS_inv (by decide +kernel)
example := C02_shell_refines_exact_by_id exS exRunR exS_shellInv exS_inv (by decide +kernel)
example := C02_inflight_eq_card_run_reload exS exRunR exS_shellInv
example (k : Nat) := C02_ids_distinct_along_run exS exRunR exS_inv (by decide +kernel) k
example := C02_shell_removed_ends exS 9 [3, 1, 4, 4, 5, 6] [some 7, none, some 8] exS_inv (by decide)

end examplesReload

end shellC02Reload

/-! ## C02 by conn id with the EXACT uplink step (audit 5, B1)

In `IdHist` / `IdHistX` the block of an `uplink` event is ANY list of set operations whose KIND the event allows; the
ARGUMENTS are free, so one ACK / NAK datagram "explains" the retirement of any subset of a set.  The exact uplink step
exists by index for one event (`C02_shell_uplink_refines`: the abstraction moves by the fold of the GLOBAL spec machine
`specStep` over `uplinkTrace`, the events the datagram decodes to).  This section projects that fold onto ONE link
(`upBlock`) and puts it into the by-conn-id history (`IdHistU.uplink`): the block of an uplink datagram is a FUNCTION of
the state reached, of the index the link has there and of the datagram bytes - per decoded event, in order, the event's
OWN operation (`opOf`: the cumulative ACK number, the SRTLA-ACKed number, the NAKed number, a reset) iff the global spec
machine changes THIS link's set at that event, nothing otherwise.  Which link the spec machine charges is explicit in
`specSrtlaAck` (arrival link if it holds the number, else the first other holder) and `specNak` (the tracker's
remembered present carrier, no fall-through; else the first holder); a number the link does not hold leaves it
untouched (`specErase` of an absent number is the identity, so the block is empty).  `other` is restricted to hk /
configuration / injection / stamp events. -/

section shellC02UplinkById
open Srtla Srtla.Link Srtla.SysDir Srtla.Props.SysReload

variable {F : Type} [Scalar F]

/-- The per-link set operation a fan-out event performs, with ITS OWN argument. -/
def opOf : Ev → Option KOp
  | .send _ seq _ => some (.send (toI32 seq))
  | .track _ _ _ => none
  | .cumAck a _ => some (.cumAck (toI32 a))
  | .srtlaAck _ seq _ _ => some (.retire (toI32 seq))
  | .nak n _ => some (.retire (toI32 n))
  | .reset _ _ _ => some .reset

/-- Projection of ONE event of C02's global spec machine onto link `j`, in spec state `sp`: the event's own operation
iff the spec machine changes the set of link `j` at this event. -/
def projEv (sp : Spec) (j : Nat) (e : Ev) : List KOp :=
  match opOf e with
  | none => []
  | some op => if (specStep sp e).keys[j]? = sp.keys[j]? then [] else [op]

/-- Projection of a list of spec events onto link `j`, the spec state moving along. -/
def upBlock (sp : Spec) (j : Nat) : List Ev → List KOp
  | [] => []
  | e :: es => projEv sp j e ++ upBlock (specStep sp e) j es

theorem mapIdx_if_get (ks : List (List Int)) (i m : Nat) (g : List Int → List Int) (k : List Int)
    (h : ks[m]? = some k) :
    (ks.mapIdx fun j k => if j = i then g k else k)[m]? = some (if m = i then g k else k) := by
  rw [List.getElem?_mapIdx, h]; rfl

theorem specScan_get (ks : List (List Int)) (s : Int) (m : Nat) (k : List Int) (h : ks[m]? = some k) :
    (specScan ks s)[m]? = some k ∨ (specScan ks s)[m]? = some (specErase k s) := by
  induction ks generalizing m with
  | nil => simp at h
  | cons k0 rest ih =>
    unfold specScan
    split
    · cases m with
      | zero =>
        rw [List.getElem?_cons_zero] at h ⊢
        cases h; exact .inr rfl
      | succ m =>
        rw [List.getElem?_cons_succ] at h ⊢
        exact .inl h
    · cases m with
      | zero =>
        rw [List.getElem?_cons_zero] at h ⊢
        exact .inl h
      | succ m =>
        rw [List.getElem?_cons_succ] at h ⊢
        exact ih m h

theorem specOthers_get (ks : List (List Int)) (j skip : Nat) (s : Int) (m : Nat) (k : List Int)
    (h : ks[m]? = some k) :
    (specOthers ks j skip s)[m]? = some k ∨ (specOthers ks j skip s)[m]? = some (specErase k s) := by
  induction ks generalizing m j with
  | nil => simp at h
  | cons k0 rest ih =>
    unfold specOthers
    split
    · cases m with
      | zero =>
        rw [List.getElem?_cons_zero] at h ⊢
        exact .inl h
      | succ m =>
        rw [List.getElem?_cons_succ] at h ⊢
        exact ih (j + 1) m h
    · split
      · cases m with
        | zero =>
          rw [List.getElem?_cons_zero] at h ⊢
          cases h; exact .inr rfl
        | succ m =>
          rw [List.getElem?_cons_succ] at h ⊢
          exact .inl h
      · cases m with
        | zero =>
          rw [List.getElem?_cons_zero] at h ⊢
          exact .inl h
        | succ m =>
          rw [List.getElem?_cons_succ] at h ⊢
          exact ih (j + 1) m h

/-- One event of the global spec machine, one link: the link's set stays or moves by the event's OWN operation. -/
theorem specStep_get (sp : Spec) (e : Ev) (j : Nat) (k : List Int) (h : sp.keys[j]? = some k) :
    ∃ k', (specStep sp e).keys[j]? = some k' ∧ (k' = k ∨ ∃ op, opOf e = some op ∧ k' = kstep k op) := by
  have erase : ∀ i s, ∃ k', (specEraseAt sp.keys i s)[j]? = some k' ∧ (k' = k ∨ k' = specErase k s) := by
    intro i s
    refine ⟨_, mapIdx_if_get sp.keys i j (fun k => specErase k s) k h, ?_⟩
    split
    · exact .inr rfl
    · exact .inl rfl
  have ofOr : ∀ {ks' : List (List Int)} {s : Int}, (ks'[j]? = some k ∨ ks'[j]? = some (specErase k s)) →
      ∃ k', ks'[j]? = some k' ∧ (k' = k ∨ k' = specErase k s) := by
    intro ks' s hh
    rcases hh with hh | hh
    · exact ⟨_, hh, .inl rfl⟩
    · exact ⟨_, hh, .inr rfl⟩
  cases e with
  | send i seq t =>
    refine ⟨_, mapIdx_if_get sp.keys i j (fun k => specRegister k (toI32 seq)) k h, ?_⟩
    split
    · exact .inr ⟨_, rfl, rfl⟩
    · exact .inl rfl
  | track seq cid ts => exact ⟨k, h, .inl rfl⟩
  | cumAck a now =>
    refine ⟨specCumAck k (toI32 a), ?_, .inr ⟨_, rfl, rfl⟩⟩
    show (sp.keys.map fun k => specCumAck k (toI32 a))[j]? = _
    rw [List.getElem?_map, h]; rfl
  | srtlaAck idx seq cl now =>
    have key : ∃ k', (specSrtlaAck sp.keys idx (toI32 seq))[j]? = some k' ∧
        (k' = k ∨ k' = specErase k (toI32 seq)) := by
      unfold specSrtlaAck
      split
      · exact ⟨k, h, .inl rfl⟩
      · split
        · exact erase idx _
        · exact ofOr (specOthers_get sp.keys 0 idx _ j k h)
    obtain ⟨k', h1, h2⟩ := key
    exact ⟨k', h1, h2.imp id fun h => ⟨_, rfl, h⟩⟩
  | nak n now =>
    have key : ∃ k', (specNak sp n now)[j]? = some k' ∧ (k' = k ∨ k' = specErase k (toI32 n)) := by
      unfold specNak
      split
      · split
        · exact erase _ _
        · exact ofOr (specScan_get sp.keys _ j k h)
      · exact ofOr (specScan_get sp.keys _ j k h)
    obtain ⟨k', h1, h2⟩ := key
    exact ⟨k', h1, h2.imp id fun h => ⟨_, rfl, h⟩⟩
  | reset i kind now =>
    refine ⟨_, mapIdx_if_get sp.keys i j (fun _ => []) k h, ?_⟩
    split
    · exact .inr ⟨_, rfl, rfl⟩
    · exact .inl rfl

theorem projEv_fold (sp : Spec) (e : Ev) (j : Nat) (k : List Int) (h : sp.keys[j]? = some k) :
    (specStep sp e).keys[j]? = some ((projEv sp j e).foldl kstep k) := by
  obtain ⟨k', hk', hor⟩ := specStep_get sp e j k h
  unfold projEv
  cases hop : opOf e with
  | none =>
    rcases hor with rfl | ⟨op, ho, -⟩
    · exact hk'
    · rw [hop] at ho; cases ho
  | some op =>
    dsimp only
    by_cases hc : (specStep sp e).keys[j]? = sp.keys[j]?
    · rw [if_pos hc, hc, h]; rfl
    · rw [if_neg hc]
      rcases hor with rfl | ⟨op', ho, rfl⟩
      · exact absurd (hk'.trans h.symm) hc
      · rw [hop] at ho; cases ho; exact hk'

/-- **The fold of the global spec machine, read on ONE link, is the fold of the per-link set machine over the
projected block.** -/
theorem upBlock_fold (sp : Spec) (j : Nat) (k : List Int) (tr : List Ev) (h : sp.keys[j]? = some k) :
    (tr.foldl specStep sp).keys[j]? = some ((upBlock sp j tr).foldl kstep k) := by
  induction tr generalizing sp k with
  | nil => exact h
  | cons e es ih =>
    rw [List.foldl_cons]
    show _ = some ((projEv sp j e ++ upBlock (specStep sp e) j es).foldl kstep k)
    rw [List.foldl_append]
    exact ih _ _ (projEv_fold sp e j k h)

/-- A number the link does not hold leaves it untouched: the projected block of an SRTLA ACK / NAK event is empty or
its one retirement is the identity on the link's set. -/
theorem projEv_not_held (sp : Spec) (j : Nat) (k : List Int) (e : Ev) (x : Int) (h : sp.keys[j]? = some k)
    (he : opOf e = some (.retire x)) (hx : x ∉ k) : (specStep sp e).keys[j]? = some k := by
  obtain ⟨k', hk', hor⟩ := specStep_get sp e j k h
  rcases hor with rfl | ⟨op, ho, rfl⟩
  · exact hk'
  · rw [he] at ho; cases ho
    have : specErase k x = k := by
      unfold specErase
      rw [List.filter_eq_self]
      intro y hy
      have : y ≠ x := fun e => hx (e ▸ hy)
      simpa using this
    rw [hk']; exact congrArg some this

/-- As `IdHistX`, with the EXACT block of an `uplink` event as well: `upBlock` of the abstraction of the state
reached, at the index `j` the link has there, over the events the datagram decodes to (`uplinkTrace`, `idx` the
index of the ARRIVAL link); a datagram on an unknown conn id contributes nothing.  `other` is what remains: hk,
configuration, injection, stamp, timeout-sync events. -/
inductive IdHistU : Sys.Sys F → List Sys.Ev → Nat → List KOp → Prop
  | nil {s : Sys.Sys F} {c : Nat} {l : FLink F} : l ∈ s.links → l.core.connId = c → IdHistU s [] c []
  | client {s : Sys.Sys F} {now : Nat} {pkt : Sys.Bytes} {evs : List Sys.Ev} {c j : Nat} {l : FLink F}
      {rest : List KOp} :
      s.links[j]? = some l → l.core.connId = c → IdHistU (Sys.step s (.client now pkt)).1 evs c rest →
      IdHistU s (.client now pkt :: evs) c (clientBlock s now pkt j ++ rest)
  | flush {s : Sys.Sys F} {now : Nat} {evs : List Sys.Ev} {c j : Nat} {l : FLink F} {rest : List KOp} :
      s.links[j]? = some l → l.core.connId = c → IdHistU (Sys.step s (.flush now)).1 evs c rest →
      IdHistU s (.flush now :: evs) c (flushBlock s j ++ rest)
  | uplink {s : Sys.Sys F} {now cid : Nat} {data : Sys.Bytes} {evs : List Sys.Ev} {c j idx : Nat} {l : FLink F}
      {rest : List KOp} :
      s.links[j]? = some l → l.core.connId = c → s.links.findIdx? (·.core.connId == cid) = some idx →
      IdHistU (Sys.step s (.uplink now cid data)).1 evs c rest →
      IdHistU s (.uplink now cid data :: evs) c
        (upBlock (absSys s) j (uplinkTrace s.cfg.classic idx now data) ++ rest)
  | uplinkUnknown {s : Sys.Sys F} {now cid : Nat} {data : Sys.Bytes} {evs : List Sys.Ev} {c j : Nat} {l : FLink F}
      {rest : List KOp} :
      s.links[j]? = some l → l.core.connId = c → s.links.findIdx? (·.core.connId == cid) = none →
      IdHistU (Sys.step s (.uplink now cid data)).1 evs c rest →
      IdHistU s (.uplink now cid data :: evs) c rest
  | other {s : Sys.Sys F} {e : Sys.Ev} {evs : List Sys.Ev} {c j : Nat} {l : FLink F} {ks rest : List KOp} :
      e.isReload = false → (∀ now pkt, e ≠ .client now pkt) → (∀ now, e ≠ .flush now) →
      (∀ now cid data, e ≠ .uplink now cid data) →
      s.links[j]? = some l → l.core.connId = c → (∀ k ∈ ks, kopOk (evOps s e j) k) →
      IdHistU (Sys.step s e).1 evs c rest → IdHistU s (e :: evs) c (ks ++ rest)
  | reload {s : Sys.Sys F} {now : Nat} {addrs : List Nat} {outs : List (Option Nat)} {evs : List Sys.Ev} {c : Nat}
      {l : FLink F} {rest : List KOp} :
      l ∈ s.links → l.core.connId = c → addrs.contains l.addr = true →
      IdHistU (Sys.step s (.reload now addrs outs)).1 evs c rest →
      IdHistU s (.reload now addrs outs :: evs) c rest

theorem absSys_keys_get (s : Sys.Sys F) (j : Nat) (l : FLink F) (h : s.links[j]? = some l) :
    (absSys s).keys[j]? = some l.core.keys := by
  show ((Sys.cores s.links).map Conn.keys)[j]? = _
  unfold Sys.cores
  rw [List.getElem?_map, List.getElem?_map, h]; rfl

/-- **C02 at shell level by conn id, every run WITH reloads, exact data path AND exact uplink step.**  As
`C02_shell_refines_exact_by_id`, with the history `IdHistU`: additionally the block of every `uplink` event is
`upBlock (absSys s) j (uplinkTrace s.cfg.classic idx now data)` - `s` the state the run had reached, `j` the index
the link with this conn id has THERE, `idx` the index of the arrival link - i.e. the projection onto this link of the
fold of C02's global spec machine over the events the datagram decodes to: no free argument is left on the ACK / NAK
path either.  So across reloads: a cumulative SRT ACK contributes exactly its own `cumAck a` (on every link whose
set it changes), each SRTLA-ACKed / NAKed number contributes `retire` of THAT number on the link the spec machine
charges (`specSrtlaAck` / `specNak`) and nothing on every other link, REG3 / REG_ERR contribute a `reset` on the
arrival link only; a link that does not hold a number is untouched by it (`projEv_not_held`). -/
theorem C02_shell_refines_uplink_by_id (s : Sys.Sys F) (evs : List Sys.Ev) (hinv : ShellInv s) (hI : Sys.Inv s)
    (hf : FreshRun s evs) :
    ∀ l' ∈ (Sys.run s evs).1.links, ∃ pre post k0 hist, evs = pre ++ post ∧
      Origin s l'.core.connId pre k0 ∧ IdHistU (Sys.run s pre).1 post l'.core.connId hist ∧
      l'.core.keys = hist.foldl kstep k0 ∧
      l'.core.inFlight = (l'.core.keys.length : Int) ∧ 0 ≤ l'.core.inFlight ∧ l'.core.keys.Nodup ∧
      ∀ m ∈ (Sys.run s evs).1.links, m.core.connId = l'.core.connId → m = l' := by
  have key : ∀ (evs : List Sys.Ev) (s : Sys.Sys F), ShellInv s → Sys.Inv s → FreshRun s evs →
      ∀ l' ∈ (Sys.run s evs).1.links, ∃ pre post k0 hist, evs = pre ++ post ∧
        Origin s l'.core.connId pre k0 ∧ IdHistU (Sys.run s pre).1 post l'.core.connId hist ∧
        l'.core.keys = hist.foldl kstep k0 := by
    intro evs
    induction evs with
    | nil =>
      intro s _ _ _ l' hl'
      exact ⟨[], [], _, [], rfl, .start hl' rfl, .nil hl' rfl, rfl⟩
    | cons e es ih =>
      intro s hinv hI hf l' hl'
      obtain ⟨pre, post, k0, hist, hsplit, horig, hhist, hkeys⟩ :=
        ih (Sys.step s e).1 (hinv.step e) (Inv_step_fresh s hI e hf.1) hf.2 l' hl'
      cases horig with
      | created h1 h2 =>
        exact ⟨_, post, [], hist, by rw [hsplit]; rfl, Origin.cons_created h1 h2, hhist, hkeys⟩
      | start hl1 hc1 =>
        rename_i l1
        have hes : es = post := hsplit
        subst hes
        have back : e.isReload = false → ∃ j l0, (Sys.step s e).1.links[j]? = some l1 ∧ s.links[j]? = some l0 ∧
            l0.core.connId = l'.core.connId ∧
            ∃ kops : List KOp, (∀ k ∈ kops, kopOk (evOps s e j) k) ∧ l1.core.keys = kops.foldl kstep l0.core.keys := by
          intro hnr
          obtain ⟨j, hj, hget⟩ := List.getElem_of_mem hl1
          have h1 : (Sys.step s e).1.links[j]? = some l1 := by rw [List.getElem?_eq_getElem hj, hget]
          obtain ⟨l0, hl0, hid, kops, hk1, hk2⟩ := step_keys_at s e hnr (shellInv_all hinv) h1
          exact ⟨j, l0, h1, hl0, hid.trans hc1, kops, hk1, hk2⟩
        have other : e.isReload = false → (∀ now pkt, e ≠ .client now pkt) → (∀ now, e ≠ .flush now) →
            (∀ now cid data, e ≠ .uplink now cid data) →
            ∃ pre post k0 hist, e :: es = pre ++ post ∧ Origin s l'.core.connId pre k0 ∧
              IdHistU (Sys.run s pre).1 post l'.core.connId hist ∧ l'.core.keys = hist.foldl kstep k0 := by
          intro hnr hc hfl hup
          obtain ⟨j, l0, -, hl0, hid, kops, hk1, hk2⟩ := back hnr
          refine ⟨[], e :: es, l0.core.keys, kops ++ hist, rfl, .start (List.mem_of_getElem? hl0) hid,
            .other hnr hc hfl hup hl0 hid hk1 hhist, ?_⟩
          rw [List.foldl_append, ← hk2]
          exact hkeys
        cases e with
        | reload now addrs outs =>
          rcases Sys.mem_reload hl1 with ⟨hm, ha⟩ | ⟨id, a, -, hid, rfl⟩
          · exact ⟨[], _ :: es, l1.core.keys, hist, rfl, .start hm hc1, .reload hm hc1 ha hhist, hkeys⟩
          · have hc : l'.core.connId = id := hc1.symm
            refine ⟨[.reload now addrs outs], es, [], hist, rfl, ?_, hhist, hkeys⟩
            refine Origin.created (s := s) (pre := []) ?_ ?_
            · rw [hc]; exact (hf.1 now addrs outs rfl).2 id hid
            · rw [hc]; exact List.mem_map.2 ⟨_, hl1, rfl⟩
        | client now pkt =>
          obtain ⟨j, l0, h1, hl0, hid, -⟩ := back rfl
          obtain ⟨l1', hl1', hk, -⟩ := client_keys_exact s now pkt hI.nodup j l0 hl0
          have : l1' = l1 := by rw [hl1'] at h1; exact Option.some.inj h1
          subst this
          refine ⟨[], _ :: es, l0.core.keys, clientBlock s now pkt j ++ hist, rfl,
            .start (List.mem_of_getElem? hl0) hid, .client hl0 hid hhist, ?_⟩
          rw [List.foldl_append, ← hk]
          exact hkeys
        | flush now =>
          obtain ⟨j, l0, h1, hl0, hid, -⟩ := back rfl
          obtain ⟨l1', hl1', hk, -⟩ := C02_shell_flush_exact s now j l0 hl0
          have : l1' = l1 := by rw [hl1'] at h1; exact Option.some.inj h1
          subst this
          refine ⟨[], _ :: es, l0.core.keys, flushBlock s j ++ hist, rfl,
            .start (List.mem_of_getElem? hl0) hid, .flush hl0 hid hhist, ?_⟩
          have hb : (flushBlock s j).foldl kstep l0.core.keys = l1'.core.keys := by
            unfold flushBlock
            rw [hl0]
            dsimp only
            rw [foldl_sends, hk]
          rw [List.foldl_append, hb]
          exact hkeys
        | uplink now cid data =>
          obtain ⟨j, l0, h1, hl0, hid, -⟩ := back rfl
          cases hfi : s.links.findIdx? (·.core.connId == cid) with
          | none =>
            have hst : Sys.step s (.uplink now cid data) = (s, {}) := Uplink.unknown_link s cid data now hfi
            rw [hst] at h1
            have : l0 = l1 := Option.some.inj (hl0.symm.trans h1)
            subst this
            exact ⟨[], _ :: es, l0.core.keys, hist, rfl, .start (List.mem_of_getElem? hl0) hid,
              .uplinkUnknown hl0 hid hfi hhist, hkeys⟩
          | some idx =>
            have href := C02_shell_uplink_refines s now cid data idx hinv hfi
            have hfold := upBlock_fold (absSys s) j l0.core.keys (uplinkTrace s.cfg.classic idx now data)
              (absSys_keys_get s j l0 hl0)
            rw [← href, absSys_keys_get _ j l1 h1] at hfold
            have hk : l1.core.keys =
                (upBlock (absSys s) j (uplinkTrace s.cfg.classic idx now data)).foldl kstep l0.core.keys :=
              Option.some.inj hfold
            refine ⟨[], _ :: es, l0.core.keys,
              upBlock (absSys s) j (uplinkTrace s.cfg.classic idx now data) ++ hist, rfl,
              .start (List.mem_of_getElem? hl0) hid, .uplink hl0 hid hfi hhist, ?_⟩
            rw [List.foldl_append, ← hk]
            exact hkeys
        | hk now =>
          exact other rfl (fun _ _ h => by cases h) (fun _ h => by cases h) (fun _ _ _ h => by cases h)
        | setCfg cfg =>
          exact other rfl (fun _ _ h => by cases h) (fun _ h => by cases h) (fun _ _ _ h => by cases h)
        | crit d =>
          exact other rfl (fun _ _ h => by cases h) (fun _ h => by cases h) (fun _ _ _ h => by cases h)
        | failNext c =>
          exact other rfl (fun _ _ h => by cases h) (fun _ h => by cases h) (fun _ _ _ h => by cases h)
        | failAfter c k =>
          exact other rfl (fun _ _ h => by cases h) (fun _ h => by cases h) (fun _ _ _ h => by cases h)
        | failBind c =>
          exact other rfl (fun _ _ h => by cases h) (fun _ h => by cases h) (fun _ _ _ h => by cases h)
        | stamp idx w ld ccb cct =>
          exact other rfl (fun _ _ h => by cases h) (fun _ h => by cases h) (fun _ _ _ h => by cases h)
        | syncTimeout =>
          exact other rfl (fun _ _ h => by cases h) (fun _ h => by cases h) (fun _ _ _ h => by cases h)
  intro l' hl'
  obtain ⟨pre, post, k0, hist, h1, h2, h3, h4⟩ := key evs s hinv hI hf l' hl'
  obtain ⟨h5, h6, h7⟩ := (C02_inflight_eq_card_run_reload s evs hinv).2 l' hl'
  exact ⟨pre, post, k0, hist, h1, h2, h3, h4, h5, h6, h7,
    fun m hm hc => eq_of_mem_of_connId (Inv_run_reload s hI evs hf).nodup hm hl' hc⟩

section examplesUplinkById

local instance exScalarU : Scalar Int := Select.fixScalar

/-- On `exS` / `exRunR` (two reloads; non-pristine start): the SRT ACK of 40 arrives on conn id 1 (index 0) in the
state after `[flush, exReload]` (links 1, 3, 7, 8; sets `[40, 41]`, `[]`, `[]`, `[]`): link 1's block is exactly
`[cumAck 40]`, link 3's (index 1, empty set: unchanged) is `[]`.  The NAK of 41 one event later: link 1 - the
tracker's remembered carrier, which holds 41 - gets exactly `[retire 41]`; link 3, which does not hold 41, gets
NOTHING.  Instance of the theorem on that run. -/
example :
    (Sys.run exS (exRunR.take 2)).1.links.findIdx? (·.core.connId == 1) = some 0 ∧
    upBlock (absSys (Sys.run exS (exRunR.take 2)).1) 0
      (uplinkTrace (Sys.run exS (exRunR.take 2)).1.cfg.classic 0 5010
        [0x80, 0x02, 0, 0, 0, 0, 0, 0, 0, 0, 0, 0, 0, 0, 0, 0, 0, 0, 0, 40]) = [.cumAck 40] ∧
    upBlock (absSys (Sys.run exS (exRunR.take 2)).1) 1
      (uplinkTrace (Sys.run exS (exRunR.take 2)).1.cfg.classic 0 5010
        [0x80, 0x02, 0, 0, 0, 0, 0, 0, 0, 0, 0, 0, 0, 0, 0, 0, 0, 0, 0, 40]) = [] ∧
    upBlock (absSys (Sys.run exS (exRunR.take 3)).1) 0
      (uplinkTrace (Sys.run exS (exRunR.take 3)).1.cfg.classic 0 5011 [0x80, 0x03, 0, 0, 0, 0, 0, 41]) =
        [.retire 41] ∧
    upBlock (absSys (Sys.run exS (exRunR.take 3)).1) 1
      (uplinkTrace (Sys.run exS (exRunR.take 3)).1.cfg.classic 0 5011 [0x80, 0x03, 0, 0, 0, 0, 0, 41]) = [] ∧
    [KOp.send 41, .cumAck 40, .retire 41].foldl kstep [40] = [] :=
  ⟨by decide +kernel, by decide +kernel, by decide +kernel, by decide +kernel, by decide +kernel, by decide⟩

example := C02_shell_refines_uplink_by_id exS exRunR exS_shellInv exS_inv (by decide +kernel)

end examplesUplinkById

end shellC02UplinkById

end Srtla.Props.C02
