import Srtla.Lemmas.ReloadBasic
import Srtla.Lemmas.ReloadExact
import Srtla.Lemmas.ForwardStep
import Srtla.Lemmas.RunLevelRelay
import Srtla.Lemmas.TrackerTie
import Srtla.Lemmas.SysInvAcct
import Srtla.Lemmas.ReloadProjection
/-!
# Reload inside the shell model (`Ev.reload` = `apply_connection_changes`): the property-level statements

DESIGN.md §13.9.  `Sys.step s (.reload now addrs outs)` removes the links whose address is not in `addrs`,
keeps every other link with its WHOLE record in the old relative order, and appends one fresh registering link
per needed address whose `connect_uplink` attempt succeeded (`outs`: the drawn conn ids / failures, inputs of the
event).  Statements here (scalar-generic, core Lean only):

* frame / exact removal / exact addition: `reload_frame`, `reload_removed`, `reload_added`, `reload_untouched`;
* the EXACT link list (both directions, `Lemmas/ReloadExact.lean`): `neededAddrs_exact` (membership `↔`, each
  once, first-occurrence order, and these facts determine the list — a wrong `dedupSeen` breaks it),
  `reload_exact` (post-state = retained filter ++ closed form of the created links), `mem_reload_iff`,
  `reload_adds` (every desired address no link carried is attempted exactly once; attempt `k` pairs
  `neededAddrs[k]` with `outs[k]`; a success yields exactly `newUplink id a now`, a failure nothing);
* C11 `C11_anchor_forgotten_iff_removed`; C05 `C05_reload_forgets_removed`, `C05_tracker_names_only_links_run`;
* invariants over runs WITH reloads: `Inv_step_reload`, `Inv_run_reload` (distinct ids, queues < 32; hypothesis:
  the drawn ids are new), `LinkInv_run_reload`, `IoOk_step_reload`, `IoOk_step` (every event), `IoOk_run` (the I/O
  map follows);
* C01 `C01_reload_accounting` (the new discard cause), C04 `C04_reload_no_new_eligible`, C09 `C09_relay_run_reload`,
  `C09_removed_id_dropped`.

Non-vacuity: the `decide`-checked examples use ONE concrete state `exS` (two links MODIFIED away from the
constructor: live, a datagram queued, a packet in flight and logged, a non-default window; one fresh link) and ONE
reload `exReload` that removes AND adds in the same event (a duplicate desired address, a failed attempt).
-/
namespace Srtla.Props.SysReload
open Srtla Srtla.Gen Srtla.Conn Srtla.Link Srtla.Sys

variable {F : Type} [Scalar F]

/-- The scalar instance of the `decide`-checked examples (fixed-point integers; nothing here computes a float). -/
local instance : Scalar Int := Select.fixScalar

/-! ## 0. The concrete state of the non-vacuity examples -/

/-- An SRT data packet (sequence number 41), 16 bytes. -/
def exData : Sys.Bytes := [0, 0, 0, 41, 0, 0, 0, 0, 0, 0, 0, 0, 1, 2, 3, 4]

/-- A `newUplink` record MODIFIED: live and connected, one datagram queued, one packet in flight and logged, a
non-default window, a receive stamp. -/
def exBusy (id addr : Nat) : FLink Int :=
  let l : FLink Int := FLink.newUplink id addr 0
  { l with core := { l.core with connected := true, phase := .live, window := 25000, inFlight := 1,
                                  log := [(40, 4900)], lastReceived := some 4000 },
           queue := [(exData, some 41, 4950)] }

/-- Links `1@1` and `2@2` busy, `3@3` fresh and registering; client known; every link has its I/O half; the
selector's anchor names link 2 (index 1); the tracker attributes sequence number 41 to link 2. -/
def exS : Sys Int :=
  { links := [exBusy 1 1, exBusy 2 2, FLink.newUplink 3 3 0], reg := Reg.Reg.new [] [], clientKnown := true,
    io := [1, 2, 3], lastSelected := some 1, trk := Tracker.empty.insert 41 2 4950 }

/-- The example reload at clock 9: address 2 is no longer desired (link 2 is REMOVED with its queued datagram);
addresses 4 (listed twice), 5 and 6 are new: needed = `[4, 5, 6]`, the attempt for 5 fails, 4 and 6 draw the conn
ids 7 and 8 (links ADDED in the same event). -/
def exReload : Ev := .reload 9 [3, 1, 4, 4, 5, 6] [some 7, none, some 8]

/-- The example run: the reload `exReload`; a datagram for the removed conn id 2; one for the retained link 1; a
client datagram; a SECOND reload that re-adds address 2 (new conn id 9) and removes addresses 4 and 6; a
housekeeping tick. -/
def exRun : List Ev :=
  [exReload, .uplink 10 2 exData, .uplink 11 1 exData, .client 12 exData, .reload 20 [1, 2, 3] [some 9], .hk 21]

/-- What the examples read off a link. -/
def exView (l : FLink Int) : (Nat × Nat × Nat × Nat) × (Int × Bool × Bool) :=
  ((l.core.connId, l.addr, l.queue.length, l.core.log.length), (l.core.window, l.core.connected, l.schedulable))

theorem exS_inv : Inv exS := ⟨by decide, by decide⟩

theorem exBusy_linkInv (id addr : Nat) : SysInv.LinkInv (exBusy id addr) := by
  refine ⟨⟨?_, ?_, ?_⟩, ?_, ?_, ?_, ?_⟩
  · show ([40] : List Int).Nodup
    decide
  · show ∀ s ∈ ([40] : List Int), Conn.I32_MIN < s
    decide
  · show (1 : Int) = (([40] : List Int).length : Int)
    decide
  · show (1000 : Int) ≤ 25000
    decide
  · show (25000 : Int) ≤ 60000
    decide
  · show (0 : Int) ≤ 1
    decide
  intro it hit n hn
  have : it = (exData, some 41, 4950) := by simpa [exBusy] using hit
  subst this
  cases hn
  decide

theorem exS_linkInv : SysInv.All SysInv.LinkInv exS.links := by
  intro l hl
  have : l = exBusy 1 1 ∨ l = exBusy 2 2 ∨ l = FLink.newUplink 3 3 0 := by simpa [exS] using hl
  rcases this with rfl | rfl | rfl
  · exact exBusy_linkInv 1 1
  · exact exBusy_linkInv 2 2
  · exact SysInv.linkInv_newUplink 3 3 0

/-! ## 1. Frame, exact removal, exact addition -/

/-- **Reload frame.**  A link whose address is still desired is a link of the post-state with its whole record
(every field: accounting, RTT filter, guard state, queue, stamps …), the retained links keep their relative
order and come first, and everything behind them is freshly constructed. -/
theorem reload_frame (s : Sys F) (now : Nat) (addrs : List Nat) (outs : List (Option Nat)) :
    (∀ l ∈ s.links, addrs.contains l.addr = true → l ∈ (step s (.reload now addrs outs)).1.links) ∧
    (retained s.links addrs).Sublist s.links ∧
    (step s (.reload now addrs outs)).1.links =
      retained s.links addrs ++ createConnections now (neededAddrs s.links addrs) outs ∧
    (∀ l ∈ createConnections now (neededAddrs s.links addrs) outs,
      ∃ id a, a ∈ neededAddrs s.links addrs ∧ some id ∈ outs ∧ l = (FLink.newUplink id a now : FLink F)) :=
  ⟨fun l hl hc => by rw [reload_links]; exact List.mem_append_left _ (mem_retained.2 ⟨hl, hc⟩),
   retained_sublist _ _, rfl, fun _ h => mem_createConnections h⟩

-- non-vacuity: three links, the middle one no longer desired, one new address whose attempt succeeds
example :
    ((step ({ links := [FLink.newUplink 1 1 0, FLink.newUplink 2 2 0, FLink.newUplink 3 3 0],
              reg := Reg.Reg.new [] [] } : Sys Int) (.reload 9 [3, 1, 4] [some 7])).1.links.map
        fun l => (l.core.connId, l.addr)) = [(1, 1), (3, 3), (7, 4)] := by decide

-- non-vacuity, removal AND addition in one event with a NON-PRISTINE retained record: link 1 keeps its queued
-- datagram, its logged packet, its window 25000, its flags; link 2 is gone; 3 stays; 7@4 and 8@6 are appended with
-- the constructor's values (address 4 attempted once although listed twice, the failed attempt for 5 adds nothing)
example :
    exS.links.map exView =
      [((1, 1, 1, 1), (25000, true, true)), ((2, 2, 1, 1), (25000, true, true)), ((3, 3, 0, 0), (20000, false, false))] ∧
    (step exS exReload).1.links.map exView =
      [((1, 1, 1, 1), (25000, true, true)), ((3, 3, 0, 0), (20000, false, false)),
       ((7, 4, 0, 0), (20000, false, false)), ((8, 6, 0, 0), (20000, false, false))] ∧
    (step exS exReload).1.links[0]?.map (·.queue) = some [(exData, some 41, 4950)] ∧
    (step exS exReload).1.links[0]?.map (·.core.log) = some [(40, 4900)] ∧
    neededAddrs exS.links [3, 1, 4, 4, 5, 6] = [4, 5, 6] := by
  refine ⟨?_, ?_, ?_, ?_, ?_⟩ <;> decide

omit [Scalar F] in
/-- With distinct conn ids a link is determined by its conn id. -/
theorem eq_of_mem_of_connId {ls : List (FLink F)} (hnd : (ids ls).Nodup) {a b : FLink F} (ha : a ∈ ls) (hb : b ∈ ls)
    (h : a.core.connId = b.core.connId) : a = b := by
  induction ls with
  | nil => cases ha
  | cons x xs ih =>
    have hnd' : x.core.connId ∉ ids xs ∧ (ids xs).Nodup := by
      have : ids (x :: xs) = x.core.connId :: ids xs := rfl
      rw [this] at hnd
      exact List.nodup_cons.1 hnd
    rcases List.mem_cons.1 ha with rfl | ha' <;> rcases List.mem_cons.1 hb with rfl | hb'
    · rfl
    · exact absurd (List.mem_map.2 ⟨b, hb', h.symm⟩) hnd'.1
    · exact absurd (List.mem_map.2 ⟨a, ha', h⟩) hnd'.1
    · exact ih hnd'.2 ha' hb'

/-- **Exact removal.**  A link whose address is no longer desired is not retained; with distinct conn ids and
newly drawn ids no link of the post-state carries its conn id. -/
theorem reload_removed (s : Sys F) (now : Nat) (addrs : List Nat) (outs : List (Option Nat))
    (hnd : (ids s.links).Nodup) (hfresh : ∀ id, some id ∈ outs → id ∉ ids s.links)
    (l : FLink F) (hl : l ∈ s.links) (hr : addrs.contains l.addr = false) :
    ∀ l' ∈ (step s (.reload now addrs outs)).1.links, l'.core.connId ≠ l.core.connId := by
  intro l' hl' heq
  rcases mem_reload hl' with ⟨h1, h2⟩ | ⟨id, a, -, hid, rfl⟩
  · -- a retained link with the same id is the same link (distinct ids)
    have : l' = l := eq_of_mem_of_connId hnd h1 hl heq
    subst this
    rw [h2] at hr; cases hr
  · exact hfresh id hid (by
      show id ∈ ids s.links
      have : (FLink.newUplink id a now : FLink F).core.connId = id := rfl
      rw [this] at heq
      rw [heq]; exact List.mem_map.2 ⟨l, hl, rfl⟩)

-- non-vacuity of `reload_removed`: its hypotheses hold of `exS` / `exReload` (distinct ids, the drawn ids 7 and 8
-- are new), link 2 is a link of the pre-state whose address is not desired, and no link of the post-state carries
-- conn id 2
example :
    (ids exS.links).Nodup ∧ (∀ i ∈ [7, 8], i ∉ ids exS.links) ∧
    exS.links[1]?.map (fun l => (l.core.connId, l.addr)) = some (2, 2) ∧ [3, 1, 4, 4, 5, 6].contains 2 = false ∧
    ids (step exS exReload).1.links = [1, 3, 7, 8] := by decide

omit [Scalar F] in
/-- **`new_ips_needed`, exactly**: its members are EXACTLY (`↔`) the desired addresses that no link carried BEFORE
the call; each occurs once; it is a sublist of the desired list, in the order of the FIRST occurrences (the
positions `addrs.idxOf a` increase strictly); and these facts determine the list: any list with these members in
this order IS `neededAddrs`.  (With `dedupSeen := fun _ _ => []` the `↔` fails, with the identity `Nodup` fails,
with last occurrences the order fails: `Lemmas/ReloadExact.lean`.) -/
theorem neededAddrs_exact (ls : List (FLink F)) (addrs : List Nat) :
    (∀ a, a ∈ neededAddrs ls addrs ↔ a ∈ addrs ∧ ∀ l ∈ ls, l.addr ≠ a) ∧
    (neededAddrs ls addrs).Nodup ∧ (neededAddrs ls addrs).Sublist addrs ∧
    ((neededAddrs ls addrs).map fun a => addrs.idxOf a).Pairwise (· < ·) ∧
    ∀ r : List Nat, (∀ a, a ∈ r ↔ a ∈ addrs ∧ ∀ l ∈ ls, l.addr ≠ a) →
      (r.map fun a => addrs.idxOf a).Pairwise (· < ·) → r = neededAddrs ls addrs :=
  ⟨mem_neededAddrs_iff ls addrs, neededAddrs_nodup ls addrs, neededAddrs_sublist ls addrs,
   neededAddrs_firstOcc ls addrs, neededAddrs_unique ls addrs⟩

omit [Scalar F] in
/-- The soundness half of `neededAddrs_exact` (kept under its old name). -/
theorem mem_neededAddrs (ls : List (FLink F)) (addrs : List Nat) (a : Nat) :
    a ∈ neededAddrs ls addrs → a ∈ addrs ∧ ∀ l ∈ ls, l.addr ≠ a :=
  (mem_neededAddrs_iff ls addrs a).1

-- non-vacuity: duplicates, carried addresses, order of first occurrences (5 is first seen before 4)
example :
    neededAddrs ([FLink.newUplink 1 1 0, FLink.newUplink 2 2 0] : List (FLink Int)) [5, 2, 4, 5, 1, 4, 6, 5] = [5, 4, 6] ∧
    neededAddrs ([] : List (FLink Int)) [2, 2, 1, 2] = [2, 1] ∧
    neededAddrs ([FLink.newUplink 1 1 0] : List (FLink Int)) [1, 1] = [] := by decide

/-- **The link list after a reload, exactly**: the links whose address is still desired — the `filter`, so every
one of them with its whole record, its multiplicity and in the old order — followed by the created links in
closed form: attempt `k` pairs the `k`-th needed address with outcome `k`; a success `some id` yields exactly
`newUplink id addr now`, a failure or a missing outcome yields nothing. -/
theorem reload_exact (s : Sys F) (now : Nat) (addrs : List Nat) (outs : List (Option Nat)) :
    (step s (.reload now addrs outs)).1.links =
      s.links.filter (fun l => addrs.contains l.addr) ++
      ((neededAddrs s.links addrs).zip outs).filterMap fun p =>
        p.2.map fun id => (FLink.newUplink id p.1 now : FLink F) := by
  rw [reload_links, createConnections_eq]; rfl

/-- **Membership through a reload, both directions**, the created links by attempt number. -/
theorem mem_reload_iff (s : Sys F) (now : Nat) (addrs : List Nat) (outs : List (Option Nat)) (l : FLink F) :
    l ∈ (step s (.reload now addrs outs)).1.links ↔
      (l ∈ s.links ∧ addrs.contains l.addr = true) ∨
      ∃ (k a id : Nat), (neededAddrs s.links addrs)[k]? = some a ∧ outs[k]? = some (some id) ∧
        l = FLink.newUplink id a now := by
  rw [reload_links, List.mem_append, mem_retained, mem_createConnections_iff]

/-- **Exact addition, the completeness half**: a desired address `a` that no link carried is attempted EXACTLY
ONCE — it sits at exactly one position `k` of `neededAddrs` —, the attempt's outcome is `outs[k]`, and
* if it is the success `some id`, the post-state has the link `newUplink id a now`, and that is the ONLY link of
  the post-state with address `a`;
* if it is a failure (or there is no outcome), no link of the post-state has address `a`. -/
theorem reload_adds (s : Sys F) (now : Nat) (addrs : List Nat) (outs : List (Option Nat)) (a : Nat)
    (ha : a ∈ addrs) (hn : ∀ l ∈ s.links, l.addr ≠ a) :
    ∃ k : Nat, (neededAddrs s.links addrs)[k]? = some a ∧
      (∀ k' : Nat, (neededAddrs s.links addrs)[k']? = some a → k' = k) ∧
      (∀ id, outs[k]? = some (some id) →
        (FLink.newUplink id a now : FLink F) ∈ (step s (.reload now addrs outs)).1.links ∧
        ∀ l ∈ (step s (.reload now addrs outs)).1.links, l.addr = a → l = FLink.newUplink id a now) ∧
      (outs[k]?.join = none → ∀ l ∈ (step s (.reload now addrs outs)).1.links, l.addr ≠ a) := by
  obtain ⟨k, hk⟩ := List.getElem?_of_mem ((mem_neededAddrs_iff s.links addrs a).2 ⟨ha, hn⟩)
  have huniq : ∀ k', (neededAddrs s.links addrs)[k']? = some a → k' = k := by
    intro k' hk'
    have hlt := (List.getElem?_eq_some_iff.1 hk').1
    exact (List.getElem?_inj hlt (neededAddrs_nodup s.links addrs)).1 (hk'.trans hk.symm)
  -- a link of the post-state with address `a` was created by attempt `k`
  have hof : ∀ l ∈ (step s (.reload now addrs outs)).1.links, l.addr = a →
      ∃ id, outs[k]? = some (some id) ∧ l = FLink.newUplink id a now := by
    intro l hl hla
    rcases (mem_reload_iff s now addrs outs l).1 hl with ⟨h1, -⟩ | ⟨k', a', id, h1, h2, rfl⟩
    · exact absurd hla (hn l h1)
    · have : a' = a := hla
      subst this
      rw [huniq k' h1] at h2
      exact ⟨id, h2, rfl⟩
  refine ⟨k, hk, huniq, fun id hid => ⟨?_, fun l hl hla => ?_⟩, fun hnone l hl hla => ?_⟩
  · exact (mem_reload_iff s now addrs outs _).2 (.inr ⟨k, a, id, hk, hid, rfl⟩)
  · obtain ⟨id', h1, rfl⟩ := hof l hl hla
    rw [hid] at h1
    cases h1; rfl
  · obtain ⟨id', h1, -⟩ := hof l hl hla
    rw [h1] at hnone
    cases hnone

-- non-vacuity of `reload_adds` / `reload_exact` on `exS` / `exReload`: address 4 (desired twice, not carried) sits
-- at position 0 of the needed list only, its outcome is `some 7`, the post-state has exactly one link with address 4
-- and it is `7@4`; address 5 sits at position 1, its outcome is a failure, no link of the post-state has address 5
example :
    (neededAddrs exS.links [3, 1, 4, 4, 5, 6]).idxOf 4 = 0 ∧ (neededAddrs exS.links [3, 1, 4, 4, 5, 6]).count 4 = 1 ∧
    ((step exS exReload).1.links.filter (·.addr == 4)).map exView = [((7, 4, 0, 0), (20000, false, false))] ∧
    (neededAddrs exS.links [3, 1, 4, 4, 5, 6])[1]? = some 5 ∧
    ((step exS exReload).1.links.filter (·.addr == 5)).length = 0 := by decide

/-- **Exact addition.**  Every link of the post-state that is not a link of the pre-state is a freshly constructed
registering record — the constructor of start-up, at the reload's clock — for a desired address that no link
carried before; an address whose attempt failed is simply not added. -/
theorem reload_added (s : Sys F) (now : Nat) (addrs : List Nat) (outs : List (Option Nat)) (l : FLink F)
    (hl : l ∈ (step s (.reload now addrs outs)).1.links) (hnew : l ∉ s.links) :
    ∃ id a, some id ∈ outs ∧ a ∈ addrs ∧ (∀ x ∈ s.links, x.addr ≠ a) ∧ l = FLink.newUplink id a now ∧
      l.core.connected = false ∧ l.core.phase = .registering ∧ l.queue = [] ∧ l.core.log = [] ∧
      l.core.inFlight = 0 ∧ l.graceDeadline = now + Conn.STARTUP_GRACE_MS := by
  rcases mem_reload hl with ⟨h1, -⟩ | ⟨id, a, ha, hid, rfl⟩
  · exact absurd h1 hnew
  · obtain ⟨h1, h2⟩ := mem_neededAddrs _ _ _ ha
    exact ⟨id, a, hid, h1, h2, rfl, rfl, rfl, rfl, rfl, rfl, rfl⟩

-- non-vacuity of `reload_added`: links 7@4 and 8@6 of the post-state carry ids / addresses no link of the pre-state
-- carries, and they are the constructor's record at the reload's clock 9: registering, not connected, empty queue
-- and log, nothing in flight, grace window until 9 + STARTUP_GRACE_MS
example :
    ((step exS exReload).1.links.drop 2).map
        (fun l => (l.core.connId, l.addr, l.core.connected, l.core.phase)) =
      [(7, 4, false, .registering), (8, 6, false, .registering)] ∧
    ((step exS exReload).1.links.drop 2).map
        (fun l => (l.queue.isEmpty, l.core.log.isEmpty, l.core.inFlight, l.graceDeadline == 9 + Conn.STARTUP_GRACE_MS)) =
      [(true, true, 0, true), (true, true, 0, true)] ∧
    (∀ l ∈ exS.links, l.core.connId ≠ 7 ∧ l.core.connId ≠ 8 ∧ l.addr ≠ 4 ∧ l.addr ≠ 6) := by
  refine ⟨?_, ?_, ?_⟩ <;> decide

/-- **What a reload does not touch**: the registration manager (its index-keyed state is NOT remapped — the
documented observation of C19 / C07 is reproduced, not repaired), the configuration, the client address, the
critical window, `all_failed_at`, the injection lists; and it emits nothing. -/
theorem reload_untouched (s : Sys F) (now : Nat) (addrs : List Nat) (outs : List (Option Nat)) :
    let s' := (step s (.reload now addrs outs)).1
    s'.reg = s.reg ∧ s'.cfg = s.cfg ∧ s'.clientKnown = s.clientKnown ∧ s'.critDeadline = s.critDeadline ∧
    s'.allFailedAt = s.allFailedAt ∧ s'.failNext = s.failNext ∧ s'.failBind = s.failBind ∧
    (step s (.reload now addrs outs)).2.wire = [] ∧ (step s (.reload now addrs outs)).2.client = [] ∧
    (step s (.reload now addrs outs)).2.hkErr = false :=
  ⟨rfl, rfl, rfl, rfl, rfl, rfl, rfl, rfl, rfl, rfl⟩

-- non-vacuity of `reload_untouched` on a state whose fields are not the defaults: the client stays known, the
-- registration manager, configuration and injection lists are the same terms, nothing is emitted; the selector's
-- anchor (it named the removed link 2) is forgotten (`C11_anchor_forgotten_iff_removed`)
example :
    exS.clientKnown = true ∧ (step exS exReload).1.clientKnown = true ∧ (step exS exReload).1.reg = exS.reg ∧
    (step exS exReload).1.cfg = exS.cfg ∧ (step exS exReload).2.wire = [] ∧ (step exS exReload).2.client = [] ∧
    exS.lastSelected = some 1 ∧ (step exS exReload).1.lastSelected = none :=
  ⟨rfl, rfl, rfl, rfl, rfl, rfl, rfl, by decide⟩

/-! ## 2. C11: the hysteresis anchor -/

/-- **The anchor is forgotten iff something was removed.**  `last_selected_idx` is an INDEX into the connections
vector: a removal may shift it, so the code forgets it; a reload that only adds (or changes nothing) keeps it —
the retained links keep their indices then, so the anchor still names the same uplink. -/
theorem C11_anchor_forgotten_iff_removed (s : Sys F) (now : Nat) (addrs : List Nat) (outs : List (Option Nat)) :
    ((∃ l ∈ s.links, addrs.contains l.addr = false) → (step s (.reload now addrs outs)).1.lastSelected = none) ∧
    ((∀ l ∈ s.links, addrs.contains l.addr = true) →
      (step s (.reload now addrs outs)).1.lastSelected = s.lastSelected ∧
      ∀ (j : Nat) (l : FLink F), s.links[j]? = some l → (step s (.reload now addrs outs)).1.links[j]? = some l) := by
  constructor
  · rintro ⟨l, hl, hr⟩
    have hch := TrackerTie.removed_changes hl hr
    show (if ((retained s.links addrs).length != s.links.length) = true then none else s.lastSelected) = none
    rw [if_pos (by simpa using hch)]
  · intro hall
    have hret : retained s.links addrs = s.links := by
      unfold retained
      exact List.filter_eq_self.2 hall
    constructor
    · show (if ((retained s.links addrs).length != s.links.length) = true then none else s.lastSelected) = _
      rw [hret]; simp
    · intro j l hl
      rw [reload_links, hret]
      rw [List.getElem?_append_left (List.getElem?_eq_some_iff.1 hl).1]
      exact hl

-- non-vacuity: removing a link forgets the anchor, a pure addition keeps it
example :
    (step ({ links := [FLink.newUplink 1 1 0, FLink.newUplink 2 2 0], reg := Reg.Reg.new [] [],
             lastSelected := some 1 } : Sys Int) (.reload 9 [2] [])).1.lastSelected = none ∧
    (step ({ links := [FLink.newUplink 1 1 0, FLink.newUplink 2 2 0], reg := Reg.Reg.new [] [],
             lastSelected := some 1 } : Sys Int) (.reload 9 [1, 2, 3] [some 5])).1.lastSelected = some 1 := by
  decide

/-! ## 3. C05: the NAK-attribution tracker -/

/-- **No tracker entry names a removed uplink afterwards**: for every link the reload removes, no lookup — of any
sequence number, at any later clock — returns its conn id. -/
theorem C05_reload_forgets_removed (s : Sys F) (now : Nat) (addrs : List Nat) (outs : List (Option Nat))
    (l : FLink F) (hl : l ∈ s.links) (hr : addrs.contains l.addr = false) (seq t : Nat) :
    (step s (.reload now addrs outs)).1.trk.get seq t ≠ some l.core.connId := by
  intro h
  unfold Tracker.get at h
  dsimp only at h
  split at h
  · rename_i hc
    rw [TrackerTie.reload_trk_ent] at h hc
    have hmem : ∀ c, c = l.core.connId → c ∈ removedIds s.links addrs := by
      intro c hcid
      unfold removedIds
      exact List.mem_map.2 ⟨l, List.mem_filter.2 ⟨hl, by rw [hr]; rfl⟩, hcid.symm⟩
    have hch := TrackerTie.removed_changes hl hr
    split at h
    · -- the slot was reset: its id is 0, which `get` never returns
      rename_i hcond
      rw [if_pos hcond] at hc
      exact hc.1 rfl
    · rename_i hcond
      have := Option.some.inj h
      exact hcond ⟨hch, hmem _ this⟩
  · cases h

/-- **Along every run, reloads included, the tracker only ever names uplinks that are present**: whatever the
lookup returns is the conn id of a link of the current state, so `attribute_nak` never charges — through the
tracker's memory — a link that is gone.  (Start: an empty ring, or any state with that property.) -/
theorem C05_tracker_names_only_links_run (s : Sys F) (evs : List Ev) (h : TrackerTie.TrkSubSys s)
    (seq t id : Nat) (hg : (KaTrace.runEvs s evs).trk.get seq t = some id) :
    ∃ l ∈ (KaTrace.runEvs s evs).links, l.core.connId = id := by
  have hinv := TrackerTie.trkSubSys_run s evs h
  unfold Tracker.get at hg
  dsimp only at hg
  split at hg
  · rename_i hc
    have := Option.some.inj hg
    rcases hinv (slotOf seq) with h0 | ⟨l, hl, hid⟩
    · exact absurd h0 hc.1
    · exact ⟨l, hl, hid.trans this⟩
  · cases hg

-- non-vacuity: link 2 carried sequence number 5, is removed, and is forgotten; link 1's entry survives
example :
    let s : Sys Int := { links := [FLink.newUplink 1 1 0, FLink.newUplink 2 2 0], reg := Reg.Reg.new [] [],
                         trk := (Tracker.empty.insert 5 2 100).insert 6 1 100 }
    s.trk.get 5 100 = some 2 ∧ (step s (.reload 9 [1] [])).1.trk.get 5 100 = none ∧
      (step s (.reload 9 [1] [])).1.trk.get 6 100 = some 1 := by
  decide

-- on `exS` / `exRun`: sequence number 41 is attributed to link 2; the reload removes link 2 and the attribution with
-- it; the client datagram of the run (the same number) is routed to link 1, and at the end of the run — two reloads —
-- the tracker names link 1, a link that is present
example :
    exS.trk.get 41 5000 = some 2 ∧ (step exS exReload).1.trk.get 41 5000 = none ∧
    (KaTrace.runEvs exS exRun).trk.get 41 5000 = some 1 ∧ ids (KaTrace.runEvs exS exRun).links = [1, 3, 9] :=
  ⟨by decide +kernel, by decide +kernel, by decide +kernel, by decide +kernel⟩

/-! ## 4. Invariants over runs with reloads -/

/-- What `rand::rng().next_u64()` is trusted to deliver at one reload: ids that no present link carries and that
are pairwise distinct (collision probability ≈ 2⁻⁶⁴ per pair; `connect_uplink` performs no check). -/
def FreshOuts (ls : List (FLink F)) (outs : List (Option Nat)) : Prop :=
  (outs.filterMap id).Nodup ∧ ∀ i, some i ∈ outs → i ∉ ids ls

/-- The freshness hypothesis along a run: at every reload of the run the drawn ids are new in the state the run
has reached. -/
def FreshRun : Sys F → List Ev → Prop
  | _, [] => True
  | s, e :: es =>
    (∀ now addrs outs, e = .reload now addrs outs → FreshOuts s.links outs) ∧ FreshRun (step s e).1 es

omit [Scalar F] in
/-- `FreshOuts` over the drawn ids (`outs.filterMap id`): a decidable form. -/
theorem freshOuts_iff (ls : List (FLink F)) (outs : List (Option Nat)) :
    FreshOuts ls outs ↔ (outs.filterMap id).Nodup ∧ ∀ i ∈ outs.filterMap id, i ∉ ids ls := by
  unfold FreshOuts
  refine and_congr_right fun _ => ⟨fun h i hi => h i ?_, fun h i hi => h i ?_⟩
  · obtain ⟨o, ho, e⟩ := List.mem_filterMap.1 hi
    have : o = some i := e
    rw [← this]; exact ho
  · exact List.mem_filterMap.2 ⟨some i, hi, rfl⟩

omit [Scalar F] in
instance decFreshOuts (ls : List (FLink F)) (outs : List (Option Nat)) : Decidable (FreshOuts ls outs) :=
  decidable_of_iff _ (freshOuts_iff ls outs).symm

omit [Scalar F] in
/-- The freshness condition `FreshRun` asks of ONE event is decidable. -/
instance decFreshHead (s : Sys F) (e : Ev) :
    Decidable (∀ now addrs outs, e = .reload now addrs outs → FreshOuts s.links outs) :=
  match e with
  | .reload _ _ outs =>
    decidable_of_iff (FreshOuts s.links outs) ⟨fun h _ _ _ he => by cases he; exact h, fun h => h _ _ _ rfl⟩
  | .client _ _ | .uplink _ _ _ | .flush _ | .hk _ | .setCfg _ | .crit _ | .failNext _ | .failAfter _ _ | .failBind _
  | .stamp _ _ _ _ _ | .syncTimeout => isTrue (fun _ _ _ he => nomatch he)

/-- `FreshRun` of a concrete run from a concrete state is decidable (used by the examples). -/
instance decFreshRun : (s : Sys F) → (evs : List Ev) → Decidable (FreshRun s evs)
  | _, [] => isTrue trivial
  | s, e :: es => @instDecidableAnd _ _ (decFreshHead s e) (decFreshRun (step s e).1 es)

theorem freshRun_of_noReload (s : Sys F) (evs : List Ev) (h : NoReload evs) : FreshRun s evs := by
  induction evs generalizing s with
  | nil => trivial
  | cons e es ih =>
    refine ⟨fun now addrs outs he => ?_, ih _ h.tail⟩
    have := h.head
    rw [he] at this; cases this

theorem ids_createConnections (now : Nat) (as : List Nat) (outs : List (Option Nat)) :
    (ids (createConnections now as outs : List (FLink F))).Sublist (outs.filterMap id) := by
  induction as generalizing outs with
  | nil => simp [createConnections, ids]
  | cons a rest ih =>
    unfold createConnections
    cases outs with
    | nil =>
      simp only [List.head?_nil, Option.join_none, List.tail_nil]
      exact ih []
    | cons o os =>
      cases o with
      | none =>
        simp only [List.head?_cons, Option.join_some, List.tail_cons]
        have := ih os
        simpa [List.filterMap_cons] using this
      | some i =>
        simp only [List.head?_cons, Option.join_some, List.tail_cons]
        have := ih os
        simp only [ids, List.map_cons, List.filterMap_cons, id_eq]
        exact this.cons_cons _

/-- **Distinct conn ids and queues below the batch size survive a reload**, if the drawn ids are new. -/
theorem Inv_step_reload (s : Sys F) (h : Inv s) (now : Nat) (addrs : List Nat) (outs : List (Option Nat))
    (hf : FreshOuts s.links outs) : Inv (step s (.reload now addrs outs)).1 := by
  constructor
  · rw [reload_links]
    unfold ids
    rw [List.map_append]
    have h1 : (List.map (fun (l : FLink F) => l.core.connId) (retained s.links addrs)).Sublist (ids s.links) :=
      (retained_sublist s.links addrs).map _
    have h2 := ids_createConnections (F := F) now (neededAddrs s.links addrs) outs
    refine List.nodup_append.2 ⟨h1.nodup h.nodup, h2.nodup hf.1, ?_⟩
    intro a ha b hb hab
    subst hab
    have hb' : a ∈ outs.filterMap id := h2.subset hb
    rw [List.mem_filterMap] at hb'
    obtain ⟨o, ho, hoa⟩ := hb'
    cases o with
    | none => cases hoa
    | some i =>
      have : i = a := by simpa using hoa
      subst this
      exact hf.2 i ho (h1.subset ha)
  · exact reload_all now addrs outs h.hold (fun _ _ => by show (0 : Nat) < 32; omega)

/-- **`Inv` survives EVERY event**, a reload under the freshness hypothesis of that one event. -/
theorem Inv_step_fresh (s : Sys F) (h : Inv s) (e : Ev)
    (hf : ∀ now addrs outs, e = .reload now addrs outs → FreshOuts s.links outs) : Inv (step s e).1 := by
  cases hnr : e.isReload with
  | false => exact h.step e hnr
  | true =>
    cases e with
    | reload now addrs outs => exact Inv_step_reload s h now addrs outs (hf now addrs outs rfl)
    | _ => cases hnr

theorem Inv_run_reload (s : Sys F) (h : Inv s) (evs : List Ev) (hf : FreshRun s evs) : Inv (run s evs).1 := by
  induction evs generalizing s with
  | nil => exact h
  | cons e es ih => exact ih (step s e).1 (Inv_step_fresh s h e hf.1) hf.2

-- non-vacuity of `Inv_step_reload` / `Inv_run_reload`: `exS` satisfies `Inv`, BOTH reloads of `exRun` satisfy the
-- freshness hypothesis in the state the run has reached (`FreshRun`, decided), the run is not reload-free, and the
-- final conn ids are distinct; a run that re-draws a present id violates `FreshRun`
example :
    Inv exS ∧ FreshOuts exS.links [some 7, none, some 8] ∧ FreshRun exS exRun ∧ ¬ NoReload exRun ∧
    ids (run exS exRun).1.links = [1, 3, 9] ∧
    ¬ FreshRun exS [exReload, .reload 20 [1, 2, 3] [some 7]] ∧ ¬ FreshOuts exS.links [some 7, some 7] :=
  ⟨exS_inv, by decide, by decide +kernel, by decide, by decide +kernel, by decide +kernel, by decide⟩

/-- The accounting invariant of every link (`LinkInv`: log / in-flight / window range / queue) along ANY run,
reloads included (`SysInv.step_all` covers the new event through `Closed.fresh`). -/
theorem LinkInv_run_reload (s : Sys F) (evs : List Ev) (h : SysInv.All SysInv.LinkInv s.links) :
    SysInv.All SysInv.LinkInv (run s evs).1.links := by
  induction evs generalizing s with
  | nil => exact h
  | cons e es ih =>
    exact ih _ (SysInv.step_all s e (fun arm _ => SysInv.linkInv_closed _ arm _) h)

-- non-vacuity of `LinkInv_run_reload`: the hypothesis holds of `exS` (two links with a logged in-flight packet, a
-- queued tracked datagram and a non-default window: `exS_linkInv`), the run contains two reloads, and at its end link 1
-- still carries its accounting (window 25000, its logged packet) next to the fresh links
example :
    SysInv.All SysInv.LinkInv exS.links ∧ ¬ NoReload exRun ∧
    (run exS exRun).1.links.map (fun l => (l.core.connId, l.addr, l.core.window, l.core.log.length)) =
      [(1, 1, 25000, 1), (3, 3, 20000, 0), (9, 2, 20000, 0)] :=
  ⟨exS_linkInv, by decide, by decide +kernel⟩

/-! ### The I/O map follows -/

/-- The key set of the shell-owned I/O map is exactly the set of conn ids of the links: every link has its I/O
half (what the arms of the loop assume when they look it up), and no half is left behind. -/
def IoOk (s : Sys F) : Prop := ∀ k, k ∈ s.io ↔ k ∈ ids s.links

omit [Scalar F] in
theorem mem_ioInsert (io : List Nat) (k x : Nat) : x ∈ ioInsert io k ↔ x ∈ io ∨ x = k := by
  unfold ioInsert
  split
  · rename_i hc
    constructor
    · exact fun h => .inl h
    · rintro (h | rfl)
      · exact h
      · simpa using hc
  · simp

omit [Scalar F] in
theorem mem_foldl_ioInsert (xs base : List Nat) (x : Nat) : x ∈ xs.foldl ioInsert base ↔ x ∈ base ∨ x ∈ xs := by
  induction xs generalizing base with
  | nil => simp
  | cons k ks ih =>
    rw [List.foldl_cons, ih, mem_ioInsert]
    simp only [List.mem_cons]
    constructor
    · rintro ((h | h) | h)
      · exact .inl h
      · exact .inr (.inl h)
      · exact .inr (.inr h)
    · rintro (h | h | h)
      · exact .inl (.inl h)
      · exact .inl (.inr h)
      · exact .inr h

/-- **The I/O map follows a reload**: the halves of the removed links are dropped, one half per created link is
inserted, nothing else changes — with distinct conn ids the key set is again exactly the links' conn ids. -/
theorem IoOk_step_reload (s : Sys F) (hnd : (ids s.links).Nodup) (h : IoOk s) (now : Nat) (addrs : List Nat)
    (outs : List (Option Nat)) : IoOk (step s (.reload now addrs outs)).1 := by
  intro k
  show k ∈ ((createConnections now (neededAddrs s.links addrs) outs : List (FLink F)).map (·.core.connId)).foldl ioInsert
      (if ((retained s.links addrs).length != s.links.length) = true
        then s.io.filter (fun k => !(removedIds s.links addrs).contains k) else s.io) ↔
    k ∈ ids (retained s.links addrs ++ createConnections now (neededAddrs s.links addrs) outs)
  rw [mem_foldl_ioInsert]
  have hsplit : k ∈ ids (retained s.links addrs ++ createConnections now (neededAddrs s.links addrs) outs) ↔
      k ∈ ids (retained s.links addrs) ∨
        k ∈ (createConnections now (neededAddrs s.links addrs) outs : List (FLink F)).map (·.core.connId) := by
    unfold ids; rw [List.map_append, List.mem_append]
  rw [hsplit]
  suffices hb : k ∈ (if ((retained s.links addrs).length != s.links.length) = true
      then s.io.filter (fun k => !(removedIds s.links addrs).contains k) else s.io) ↔
      k ∈ ids (retained s.links addrs) by rw [hb]
  by_cases hch : (retained s.links addrs).length = s.links.length
  · -- nothing removed
    have hret : retained s.links addrs = s.links := by
      unfold retained at hch ⊢
      exact List.filter_eq_self.2 (List.length_filter_eq_length_iff.1 hch)
    have : ((retained s.links addrs).length != s.links.length) = false := by simp [hch]
    rw [this, hret]
    simpa using h k
  · have : ((retained s.links addrs).length != s.links.length) = true := by simp [hch]
    rw [this, if_pos rfl, List.mem_filter]
    constructor
    · rintro ⟨hk, hnr⟩
      obtain ⟨l, hl, hid⟩ := List.mem_map.1 ((h k).1 hk)
      cases hc : addrs.contains l.addr with
      | true => exact List.mem_map.2 ⟨l, mem_retained.2 ⟨hl, hc⟩, hid⟩
      | false =>
        exfalso
        have : k ∈ removedIds s.links addrs := by
          unfold removedIds
          exact List.mem_map.2 ⟨l, List.mem_filter.2 ⟨hl, by rw [hc]; rfl⟩, hid⟩
        simp [this] at hnr
    · intro hk
      obtain ⟨l, hl, hid⟩ := List.mem_map.1 hk
      obtain ⟨hl1, hl2⟩ := mem_retained.1 hl
      refine ⟨(h k).2 (List.mem_map.2 ⟨l, hl1, hid⟩), ?_⟩
      have hnot : k ∉ removedIds s.links addrs := by
        intro hm
        unfold removedIds at hm
        obtain ⟨l2, hl2', hid2⟩ := List.mem_map.1 hm
        obtain ⟨hm1, hm2⟩ := List.mem_filter.1 hl2'
        have : l2 = l := eq_of_mem_of_connId hnd hm1 hl1 (hid2.trans hid.symm)
        subst this
        rw [hl2] at hm2; cases hm2
      simp [hnot]

-- non-vacuity: link 2 removed, address 4 added with the drawn id 7
example :
    (step ({ links := [FLink.newUplink 1 1 0, FLink.newUplink 2 2 0], reg := Reg.Reg.new [] [], io := [2, 1] } : Sys Int)
      (.reload 9 [1, 4] [some 7])).1.io = [1, 7] := by decide

/-- **The I/O map follows EVERY event.**  No event but `reload` touches the key set (`Sys.step_io`: the arms of
the loop look halves up; `reconnect_uplink` replaces a half under its existing key) or the conn ids
(`step_ids`); the reload case is `IoOk_step_reload`. -/
theorem IoOk_step (s : Sys F) (hnd : (ids s.links).Nodup) (h : IoOk s) (e : Ev) : IoOk (step s e).1 := by
  cases hnr : e.isReload with
  | false =>
    intro k
    rw [step_io s e hnr, step_ids s e hnd hnr]
    exact h k
  | true =>
    cases e with
    | reload now addrs outs => exact IoOk_step_reload s hnd h now addrs outs
    | _ => cases hnr

/-- **Along every run whose reloads draw new conn ids, every link has its I/O half and no half is left behind**:
what the modelling decision of `hkLinksGo` (no arm for "link without an I/O entry") and the lookups of the other
arms rest on.  `Inv` (distinct ids) is carried along the run by `Inv_step_fresh`. -/
theorem IoOk_run (s : Sys F) (hinv : Inv s) (h : IoOk s) (evs : List Ev) (hf : FreshRun s evs) :
    IoOk (run s evs).1 := by
  induction evs generalizing s with
  | nil => exact h
  | cons e es ih => exact ih (step s e).1 (Inv_step_fresh s hinv e hf.1) (IoOk_step s hinv.nodup h e) hf.2

theorem exS_ioOk : IoOk exS := fun k => by rw [show exS.io = ids exS.links by decide]

-- non-vacuity of `IoOk_step` / `IoOk_run`: `exS` has one half per link; after the example run (two reloads, uplink,
-- client and housekeeping events in between) the key set is again exactly the conn ids
example :
    IoOk exS ∧ Inv exS ∧ FreshRun exS exRun ∧ (step exS exReload).1.io = [1, 3, 7, 8] ∧
    (run exS exRun).1.io = [1, 3, 9] ∧ ids (run exS exRun).1.links = [1, 3, 9] :=
  ⟨exS_ioOk, exS_inv, by decide +kernel, by decide, by decide +kernel, by decide +kernel⟩

/-! ## 5. C01: the new discard cause; C04: no new eligible link; C09: the relay log -/

/-- Every link of the post-state carries a desired address. -/
theorem reload_addr_desired (s : Sys F) (now : Nat) (addrs : List Nat) (outs : List (Option Nat)) :
    ∀ l' ∈ (step s (.reload now addrs outs)).1.links, addrs.contains l'.addr = true := by
  intro l' hl'
  rcases mem_reload hl' with ⟨-, h2⟩ | ⟨id, a, ha, -, rfl⟩
  · exact h2
  · have : a ∈ addrs := ((mem_neededAddrs_iff s.links addrs a).1 ha).1
    show addrs.contains a = true
    simpa using this

/-- **C01 accounting at a reload.**  Nothing goes on any wire and nothing reaches the client.  Every link `l` of
the pre-state EITHER carries a desired address and is a link of the post-state with its whole record — so every
datagram it holds is still queued on it, in order —, OR its address is no longer desired and it is REMOVED: `l` is
not a link of the post-state, no link of the post-state carries its address, and — with distinct conn ids and newly
drawn ids (`reload_removed`) — none carries its conn id: the up to 31 datagrams queued on it are discarded WITH it
(the discard cause of this event: `addrs.contains l.addr = false`).  Every other link of the post-state is new and
holds nothing.  Last conjunct, the multiplicity form: the post-state's list is EXACTLY the `filter` of the old list
by "address desired" (each retained record as often as before, in the old order) followed by new records that hold
nothing, have nothing logged or in flight, and carry addresses no old link carried.

Scope.  This is the accounting of ONE event.  C01's exactly-once run theorems mirror the queues by link INDEX and
are proved per stretch of a run between two reloads; the ghost tags of the stretch before a reload are NOT related
here to the tags of the stretch after it (that a retained link's queued datagrams keep their tags across the
event follows from "whole record", but the single ghost run across a reload is not stated in this file). -/
theorem C01_reload_accounting (s : Sys F) (now : Nat) (addrs : List Nat) (outs : List (Option Nat)) :
    (step s (.reload now addrs outs)).2.wire = [] ∧ (step s (.reload now addrs outs)).2.client = [] ∧
    (∀ l ∈ s.links,
      (addrs.contains l.addr = true ∧ l ∈ (step s (.reload now addrs outs)).1.links) ∨
      (addrs.contains l.addr = false ∧ l ∉ (step s (.reload now addrs outs)).1.links ∧
        (∀ l' ∈ (step s (.reload now addrs outs)).1.links, l'.addr ≠ l.addr) ∧
        ((ids s.links).Nodup → (∀ id, some id ∈ outs → id ∉ ids s.links) →
          ∀ l' ∈ (step s (.reload now addrs outs)).1.links, l'.core.connId ≠ l.core.connId))) ∧
    (∀ l' ∈ (step s (.reload now addrs outs)).1.links, l' ∈ s.links ∨ l'.queue = []) ∧
    (∃ created : List (FLink F),
      (step s (.reload now addrs outs)).1.links = s.links.filter (fun l => addrs.contains l.addr) ++ created ∧
      ∀ l' ∈ created, l'.queue = [] ∧ l'.core.log = [] ∧ l'.core.inFlight = 0 ∧ ∀ l ∈ s.links, l'.addr ≠ l.addr) := by
  have hdes := reload_addr_desired s now addrs outs
  refine ⟨rfl, rfl, fun l hl => ?_, fun l' hl' => ?_, ?_⟩
  · cases hc : addrs.contains l.addr with
    | true => exact .inl ⟨rfl, (reload_frame s now addrs outs).1 l hl hc⟩
    | false =>
      refine .inr ⟨rfl, fun hin => ?_, fun l' hl' he => ?_, fun hnd hfresh => ?_⟩
      · rw [hdes l hin] at hc; cases hc
      · rw [← he, hdes l' hl'] at hc; cases hc
      · exact reload_removed s now addrs outs hnd hfresh l hl hc
  · rcases mem_reload hl' with ⟨h1, -⟩ | ⟨id, a, -, -, rfl⟩
    · exact .inl h1
    · exact .inr rfl
  · refine ⟨createConnections now (neededAddrs s.links addrs) outs, rfl, fun l' hl' => ?_⟩
    obtain ⟨id, a, ha, -, rfl⟩ := mem_createConnections hl'
    exact ⟨rfl, rfl, rfl, fun l hl he => ((mem_neededAddrs_iff s.links addrs a).1 ha).2 l hl he.symm⟩

-- non-vacuity of `C01_reload_accounting`: link 2 holds a queued datagram and is removed with it (two datagrams
-- queued before, one after, nothing on any wire, nothing relayed); link 1 keeps its datagram
example :
    exS.links.map (fun l => (l.core.connId, l.queue.map (·.2.1))) = [(1, [some 41]), (2, [some 41]), (3, [])] ∧
    (step exS exReload).1.links.map (fun l => (l.core.connId, l.queue.map (·.2.1))) =
      [(1, [some 41]), (3, []), (7, []), (8, [])] ∧
    (step exS exReload).2.wire = [] ∧ (step exS exReload).2.client = [] := by
  refine ⟨?_, ?_, ?_, ?_⟩ <;> decide

/-- **C04 at a reload**: a reload makes no link eligible FOR THE SELECTORS.  A link of the post-state that is
connected or in a registered phase was a link of the pre-state with the very same record; a new link is
`Registering` and not connected, so neither the selectors (which require `schedulable`) nor the pre-registration
path's REUSE branch (which requires `connected`) may pick it for stream data before its own REG3.

NOT excluded — and the real code does the same by design —: while NO link has ever completed a registration
(`reg.hasConnected = false`), `select_pre_registration_connection`'s fallback forwards client data on the first
link that is not timed out, and a registering link inside its start-up grace window (`now < graceDeadline`,
`STARTUP_GRACE_MS` after its creation) IS such a link — also a link a reload has just added (second example
below).  Once `hasConnected` is set (it is never cleared) only the selectors route client data, and the statement
above is the whole story. -/
theorem C04_reload_no_new_eligible (s : Sys F) (now : Nat) (addrs : List Nat) (outs : List (Option Nat))
    (l' : FLink F) (hl' : l' ∈ (step s (.reload now addrs outs)).1.links)
    (he : l'.core.connected = true ∨ l'.schedulable = true) : l' ∈ s.links := by
  rcases mem_reload hl' with ⟨h1, -⟩ | ⟨id, a, -, -, rfl⟩
  · exact h1
  · rcases he with he | he <;> cases he

-- non-vacuity of `C04_reload_no_new_eligible`: before the reload links 1 and 2 are eligible, after it link 1 is
-- (the same record) and neither new link is
example :
    (exS.links.filter fun l => l.core.connected || l.schedulable).map (·.core.connId) = [1, 2] ∧
    ((step exS exReload).1.links.filter fun l => l.core.connected || l.schedulable).map (·.core.connId) = [1] ∧
    (step exS exReload).1.links.map exView =
      [((1, 1, 1, 1), (25000, true, true)), ((3, 3, 0, 0), (20000, false, false)),
       ((7, 4, 0, 0), (20000, false, false)), ((8, 6, 0, 0), (20000, false, false))] := by
  refine ⟨?_, ?_, ?_⟩ <;> decide

-- the pre-establishment case the docstring names (NOT excluded by the theorem, same in the real code): no REG3 has
-- ever arrived (`hasConnected = false`); the reload at clock 5000 replaces the only link by the registering link 7@2;
-- the client datagram at clock 5001 — inside its grace window — is queued on it
example :
    let s0 : Sys Int := { links := [FLink.newUplink 1 1 0], reg := Reg.Reg.new [] [] }
    let s1 := (step s0 (.reload 5000 [2] [some 7])).1
    let s2 := (step s1 (.client 5001 exData)).1
    s1.reg.hasConnected = false ∧ s1.links.map exView = [((7, 2, 0, 0), (20000, false, false))] ∧
      s2.links.map exView = [((7, 2, 1, 0), (20000, false, false))] := by
  decide +kernel

/-- The relay log of a run, read off the STATES of the run: an uplink datagram is relayed iff a client is known
and its conn id is the id of a link PRESENT at that moment. -/
def relayLogS : Sys F → List Ev → List Sys.Bytes
  | _, [] => []
  | s, .uplink now cid data :: evs =>
    relayOf (ids s.links) s.clientKnown cid data ++ relayLogS (step s (.uplink now cid data)).1 evs
  | s, e :: evs => relayLogS (step s e).1 evs

/-- **C09 over runs with reloads**: the client-side log of ANY run is exactly the relayable uplink datagrams whose
conn id names a link present when they arrive, in order, byte for byte (an SRT ACK twice); a reload relays nothing.
No distinctness hypothesis is needed for THIS statement, because it only speaks about the conn ids present in the
states of the run.  It does NOT by itself say that a datagram for the conn id of a REMOVED link is dropped: with
two links carrying one conn id (excluded by `Inv`) or a re-drawn id (excluded by `FreshOuts`) the id is still
present after the removal (links `5@1, 5@2`, reload keeps address 1: id 5 is still present).  That reading is the
corollary `C09_removed_id_dropped`, under `Inv` and `FreshOuts`. -/
theorem C09_relay_run_reload (s : Sys F) (evs : List Ev) : clientLog (run s evs).2 = relayLogS s evs := by
  induction evs generalizing s with
  | nil => rfl
  | cons e es ih =>
    obtain ⟨h1, -⟩ := step_client s e
    have := ih (step s e).1
    simp only [run, clientLog, List.flatMap_cons] at this ⊢
    rw [this, h1]
    cases e <;> simp [relayLogS]

/-- **A datagram for a removed conn id is dropped.**  With distinct conn ids (`Inv`) and newly drawn ids
(`FreshOuts`): after a reload that removes the link `l`, no link carries `l`'s conn id, and an uplink datagram
carrying that conn id — whatever its bytes, at any clock — relays nothing, puts nothing on any wire and changes
NOTHING (the state after the event is the state before it).  It stays so until a later reload draws the id again
(no other event changes the set of conn ids: `step_ids`). -/
theorem C09_removed_id_dropped (s : Sys F) (hinv : Inv s) (now : Nat) (addrs : List Nat) (outs : List (Option Nat))
    (hf : FreshOuts s.links outs) (l : FLink F) (hl : l ∈ s.links) (hr : addrs.contains l.addr = false)
    (now' : Nat) (data : Sys.Bytes) :
    l.core.connId ∉ ids (step s (.reload now addrs outs)).1.links ∧
    step (step s (.reload now addrs outs)).1 (.uplink now' l.core.connId data) =
      ((step s (.reload now addrs outs)).1, {}) := by
  have hrem := reload_removed s now addrs outs hinv.nodup hf.2 l hl hr
  have hnot : l.core.connId ∉ ids (step s (.reload now addrs outs)).1.links := by
    intro h
    obtain ⟨l', hl', e⟩ := List.mem_map.1 h
    exact hrem l' hl' e
  refine ⟨hnot, ?_⟩
  show handleUplinkPacket _ _ _ _ = _
  apply Uplink.unknown_link
  rw [findIdx?_none_iff_not_known]
  simpa using hnot

-- non-vacuity of `C09_relay_run_reload` / `C09_removed_id_dropped`: a run with the reload, then the same relayable
-- datagram for the removed conn id 2 (dropped: nothing relayed, the links unchanged) and for the retained link 1
-- (relayed); before the reload the datagram for conn id 2 IS relayed; hypotheses `Inv exS`, `FreshOuts` hold
example :
    clientLog (run exS [exReload, .uplink 10 2 exData, .uplink 11 1 exData]).2 = [exData] ∧
    relayLogS exS [exReload, .uplink 10 2 exData, .uplink 11 1 exData] = [exData] ∧
    clientLog (run exS [.uplink 10 2 exData]).2 = [exData] ∧
    (step (step exS exReload).1 (.uplink 10 2 exData)).1.links.map exView = (step exS exReload).1.links.map exView ∧
    (step (step exS exReload).1 (.uplink 10 2 exData)).2.wire = [] ∧
    Inv exS ∧ FreshOuts exS.links [some 7, none, some 8] :=
  ⟨by decide +kernel, by decide +kernel, by decide +kernel, by decide +kernel, by decide +kernel, exS_inv, by decide⟩

-- why `C09_removed_id_dropped` needs `Inv`: two links with ONE conn id; the reload removes `5@2`, conn id 5 is still
-- present and a datagram carrying it is still relayed
example :
    let s : Sys Int := { links := [exBusy 5 1, exBusy 5 2], reg := Reg.Reg.new [] [], clientKnown := true }
    ids (step s (.reload 9 [1] [])).1.links = [5] ∧
      clientLog (run s [.reload 9 [1] [], .uplink 10 5 exData]).2 = [exData] := by
  decide +kernel

/-! ## 8. The two hand-written models of `apply_connection_changes` agree (round 8)

`Reload.applyChanges` (`Model/Reload.lean`, C19's model, tied to the code by component `reload`) and
`Sys.applyConnectionChanges` (the event `Ev.reload` of the shell model, tied to the code by component `sys`) are two
copies of one Rust function over different representations.  `Lemmas/ReloadProjection.lean` relates them: `Proj` maps
a shell state to a state of C19's model (links ↦ conn id, address text `ipOf addr`, label `mk (ipOf addr)`, an
arbitrary token `stOf l` of the whole record; same `last_selected_idx`; slot-wise the same tracker; the same I/O KEY
SET) and the reload step commutes with it.  The ONE side condition: label equality is address equality (`hinj`; true
of the production label: `C19_mkLabel_injective`).  No input on which the two models differ exists under it.

What the projection does NOT compare (audit 5, D2): the socket tokens of `Reload.io` (C19's clause "a survivor keeps
its socket" lives only in `Model/Reload.lean`; the shell model has no socket identity, so a shell reload that re-bound a
survivor is inexpressible there), the multiplicity / order of `io` (key SET only), `Sys.reg` (registration indices are
positional and are NOT remapped by `apply_connection_changes` - the open C07 observation), the `failNext` / `failBind`
injection lists, and the `Full` components (weak-link filter, CC controller: `Props/SysArm.lean`).
`r'.pending = r.pending` holds by `rfl`.
What it is NOT (audit 5, D3): a transfer principle.  No C19 theorem about `Sys.step (.reload ..)` is derived THROUGH
the projection (the shell has its own `reload_frame`, `reload_exact`, … above); the projection is a CONSISTENCY CHECK
between two hand-written models of one Rust function, not a C19 clause. -/

open Srtla.ReloadProj in
/-- **The projection commutes with the reload step.**  `s` a shell state, `r` a state of C19's model with
`Proj ipOf mk stOf s r`; any clock, any desired address list (duplicates, empty, permuted), any outcome list.  With
`s'` the shell state after `Ev.reload now addrs outs` and `r'` the state of C19's model after `applyChanges` on the
projected inputs (addresses through `ipOf`; attempt `k` with the same success / failure and drawn id, the state token
of a created link = the token of `FLink.newUplink id a now`: `projOuts`):
* the links of `r'` are the links of `s'` projected, in order (so: same survivors with the same token = whole record
  unchanged, same removed set, same created links at the same positions);
* `last_selected_idx` agrees; the trackers are slot-wise equal and answer EVERY query `get seq t` alike;
* the I/O maps have the same key set; `pending` of C19's model is untouched;
* hence `Proj ipOf mk stOf s' r'` again (the relation is an invariant of any sequence of reloads). -/
theorem C19_sys_reload_projects (ipOf : Nat → Reload.Ip) (mk : Reload.Ip → Reload.Label) (stOf : FLink F → Nat)
    (hinj : Function.Injective fun a => mk (ipOf a)) (sock : Nat → Nat) (s : Sys F) (r : Reload.Sys)
    (h : Proj ipOf mk stOf s r) (now : Nat) (addrs : List Nat) (outs : List (Option Nat)) :
    let s' := (step s (.reload now addrs outs)).1
    let r' := Reload.applyChanges mk r (addrs.map ipOf) (projOuts sock stOf now (neededAddrs s.links addrs) outs)
    r'.links = s'.links.map (projLink ipOf mk stOf) ∧ r'.lastSel = s'.lastSelected ∧
    TrkRel s'.trk r'.tracker ∧ (∀ seq t, r'.tracker.get seq t = s'.trk.get seq t) ∧
    (∀ k, k ∈ r'.io.keys ↔ k ∈ s'.io) ∧ r'.pending = r.pending ∧ Proj ipOf mk stOf s' r' := by
  intro s' r'
  have hp : Proj ipOf mk stOf s' r' := applyChanges_projects ipOf mk stOf hinj sock s r h now addrs outs
  exact ⟨hp.links, hp.lastSel, hp.trk, fun seq t => hp.trk.get seq t, hp.io, rfl, hp⟩

open Srtla.ReloadProj in
/-- The same between the two STEP functions: the shell's `Ev.reload` against C19's housekeeping tick when a SIGHUP
queued that list (`pending = some (addrs.map ipOf)`); C19's model then has `pending = none`. -/
theorem C19_sys_reload_projects_step (ipOf : Nat → Reload.Ip) (mk : Reload.Ip → Reload.Label) (stOf : FLink F → Nat)
    (hinj : Function.Injective fun a => mk (ipOf a)) (sock : Nat → Nat) (s : Sys F) (r : Reload.Sys)
    (h : Proj ipOf mk stOf s r) (now : Nat) (addrs : List Nat) (outs : List (Option Nat))
    (hp : r.pending = some (addrs.map ipOf)) :
    Proj ipOf mk stOf (step s (.reload now addrs outs)).1
      (Reload.step mk r (.tick (projOuts sock stOf now (neededAddrs s.links addrs) outs))) ∧
    (Reload.step mk r (.tick (projOuts sock stOf now (neededAddrs s.links addrs) outs))).pending = none :=
  step_projects ipOf mk stOf hinj sock s r h now addrs outs hp

section exProjection
open Srtla.ReloadProj

/-- Example address text: `a` times the letter `x` (injective by length). -/
def exIp (a : Nat) : Reload.Ip := String.ofList (List.replicate a 'x')
/-- Example label: the production format. -/
def exMk : Reload.Ip → Reload.Label := Reload.mkLabel "h" 5000
/-- Example state token: read off the record (not injective — nothing needs it to be). -/
def exTok (l : FLink Int) : Nat := l.queue.length + 10 * l.core.log.length + 100 * l.core.window.toNat

theorem exInj : Function.Injective fun a => exMk (exIp a) := by
  intro a b h
  have h1 : exIp a = exIp b := Reload.mkLabel_injective "h" 5000 h
  have := congrArg String.length h1
  simpa [exIp] using this

/-- C19's model state belonging to `exS`: three links, tracker entry for sequence number 41, the list of `exReload`
queued. -/
def exR : Reload.Sys :=
  projSys exIp exMk exTok exS (Reload.Tracker.insert [] 41 2 4950) (some ([3, 1, 4, 4, 5, 6].map exIp))

theorem exProj : Proj exIp exMk exTok exS exR :=
  proj_projSys exIp exMk exTok exS _ _ (TrkRel.empty.insert 41 2 4950)

-- non-vacuity of `C19_sys_reload_projects` / `_step`: the hypotheses hold of the non-pristine `exS`, its projection
-- `exR` and the injective production label; the reload `exReload` removes link 2 and adds 7@4, 8@6 on the shell side,
-- and by the theorem the same holds of C19's model (ids, tokens: the retained link 1 keeps the token of its WHOLE
-- record - queue 1, log 1, window 25000 -, the created links have the token of the constructor)
example :
    Function.Injective (fun a => exMk (exIp a)) ∧ Proj exIp exMk exTok exS exR ∧
    exR.pending = some ([3, 1, 4, 4, 5, 6].map exIp) ∧
    (step exS exReload).1.links.map (fun l => (l.core.connId, l.addr, exTok l)) =
      [(1, 1, 2500011), (3, 3, 2000000), (7, 4, 2000000), (8, 6, 2000000)] ∧
    (step exS exReload).1.lastSelected = none ∧ (step exS exReload).1.io = [1, 3, 7, 8] :=
  ⟨exInj, exProj, rfl, by decide +kernel, by decide +kernel, by decide +kernel⟩

example := C19_sys_reload_projects exIp exMk exTok exInj (fun _ => 0) exS exR exProj 9 [3, 1, 4, 4, 5, 6]
  [some 7, none, some 8]
example := C19_sys_reload_projects_step exIp exMk exTok exInj (fun _ => 0) exS exR exProj 9 [3, 1, 4, 4, 5, 6]
  [some 7, none, some 8] rfl

/-- What the theorem gives on the example, on the side of C19's model (through the projection, not by evaluating
strings): the conn ids and state tokens of its links after the reload, its anchor, its I/O key set. -/
example :
    let r' := Reload.applyChanges exMk exR ([3, 1, 4, 4, 5, 6].map exIp)
      (projOuts (fun _ => 0) exTok 9 (neededAddrs exS.links [3, 1, 4, 4, 5, 6]) [some 7, none, some 8])
    r'.links.map (fun l => (l.connId, l.state)) = [(1, 2500011), (3, 2000000), (7, 2000000), (8, 2000000)] ∧
    r'.lastSel = none ∧ (∀ k, k ∈ r'.io.keys ↔ k ∈ [1, 3, 7, 8]) := by
  intro r'
  obtain ⟨h1, h2, -, -, h5, -, -⟩ := C19_sys_reload_projects exIp exMk exTok exInj (fun _ => 0) exS exR exProj 9
    [3, 1, 4, 4, 5, 6] [some 7, none, some 8]
  refine ⟨?_, ?_, ?_⟩
  · show (Reload.applyChanges exMk exR _ _).links.map _ = _
    rw [h1, List.map_map]
    show (step exS exReload).1.links.map (fun l => (l.core.connId, exTok l)) = _
    decide +kernel
  · show (Reload.applyChanges exMk exR _ _).lastSel = _
    rw [h2]
    decide +kernel
  · intro k
    show k ∈ (Reload.applyChanges exMk exR _ _).io.keys ↔ _
    rw [h5 k]
    have : (step exS (.reload 9 [3, 1, 4, 4, 5, 6] [some 7, none, some 8])).1.io = [1, 3, 7, 8] := by decide +kernel
    rw [this]

end exProjection

end Srtla.Props.SysReload
