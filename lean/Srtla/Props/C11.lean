import Srtla.Lemmas.SelGate
import Srtla.Lemmas.Enhanced
import Srtla.Lemmas.EnhancedField
import Srtla.Lemmas.SelectFrame
import Srtla.Lemmas.SelShellIdem
/-!
# C11 — enhanced selection is stable, hysteretic and respects its gates

`selectIdx` / `enhancedSelect` / `enhScore` / `qualityMult` / `softCapMult` are the model of
`select_connection_idx`, `enhanced::select_connection`, its per-link score,
`calculate_quality_multiplier` and `cc_soft_cap_multiplier`; component `sel` runs them bit-for-bit
(at `Float`) against the real code.

Two kinds of statements:

* `C11_idempotent`, `C11_stable`, `C11_scores_reproducible`, and (round 2) the gate clauses
  `C11_selected_scored_generic`, `C11_cap_excluded_generic`, `C11_cap_excluded_select`,
  `C11_any_unconstrained_post` hold for EVERY `Scalar` instance — in
  particular for the `Float` instance the driver runs (comparisons are opaque Booleans there; no
  assumption on rounding or NaN is needed): the argument is purely about what the pass reads and
  writes / which links the loop skips.
* everything about score values (`C11_quality_range`, `C11_softcap_range`, `C11_rtt_bonus_range`,
  `C11_score_formula`, `C11_score_bounded`, `C11_leave_only_if`, `C11_cap_excluded`,
  `C11_weak_at_2_percent`, `C11_warming_at_80_percent`, `C11_pass_table_factors`) is about the scalar code interpreted in an
  arbitrary linearly ordered field `F` with floor (`fieldScalar F e ninf`: exact arithmetic,
  `e` = `exp` with `ExpLaw e : ∀ x ≤ 0, 0 < e x ≤ 1`).  "Finite" is proved as boundedness in exact
  arithmetic; IEEE finiteness and the ranges are additionally asserted on the real code by the
  monitors `quality-range`, `softcap-range`, `score-not-finite`.

Round 3 (section "Shell level"): `C11_idempotent_sys` / `C11_stable_sys` — the shell's scheduling step
`runSelect` (`select_connection_idx` on the live connection records + write-back, `Model/Sys.lean`) is
idempotent and stable on the FULL records, any scalar instance; `C11_factors_in_range_run` /
`_from_init` — along every `Sys.run` the cached quality multiplier, the value any pass would use at any
clock, the soft-cap factor for ANY CC target and bitrate, and the RTT bonus are in their documented ranges.
-/
namespace Srtla.Props.C11
open Srtla Srtla.Gen Srtla.Conn Srtla.Select Srtla.SelLemmas

/-! ## Idempotence and stability (any scalar instance, incl. `Float`) -/

section anyScalar
variable {F : Type} [Scalar F]

/-- **Idempotent.**  Re-running `select_connection_idx` on the state it left behind, with the same
`last` and the same `now > 0`, returns the same index and leaves the state unchanged — in either
mode, for any configuration, any links (no domain restriction), any scalar instance.
(`now = 0` is excluded because `0` is the "not latched" sentinel of `stall_latched_since_ms`.) -/
theorem C11_idempotent (ls : List (SLink F)) (last : Option Nat) (now : Nat) (cfg : Cfg) (h : 0 < now) :
    selectIdx (selectIdx ls last now cfg).1 last now cfg = selectIdx ls last now cfg :=
  selectIdx_idem ls last now cfg h

/-- **Stable.**  Feeding the decision back as `last` returns the decision (and the same state). -/
theorem C11_stable (ls : List (SLink F)) (last : Option Nat) (now : Nat) (cfg : Cfg) (r : Nat)
    (h : 0 < now) (hr : (selectIdx ls last now cfg).2 = some r) :
    selectIdx (selectIdx ls last now cfg).1 (some r) now cfg = ((selectIdx ls last now cfg).1, some r) :=
  selectIdx_stable ls last now cfg r h hr

/-- Index `i` of `ls` is scored with `s` by an enhanced pass at `now`: it is in range, not skipped,
and `s` is the score the loop computes for it. -/
def ScoredAt (ls : List (SLink F)) (now : Nat) (quality : Bool) (i : Nat) (s : F) : Prop :=
  ∃ c, ls[i]? = some c ∧ enhSkip c now (anyUnconstrained ls now) = false ∧
    (enhScore c now quality (anyUnconstrained ls now)).2 = s

theorem scoredAt_iff (ls : List (SLink F)) (now : Nat) (quality : Bool) (i : Nat) (s : F) :
    ScoredAt ls now quality i s ↔
      (ls.map (entry now quality (anyUnconstrained ls now)))[i]? = some (some s) :=
  (entry_getElem? ls now quality _ i s).symm

/-- What "skipped" means (`enhSkip`): timed out, still registering, stall-gated, disconnected, or
over the in-flight cap while an unconstrained link exists. -/
theorem C11_skip_iff (c : SLink F) (now : Nat) (anyUnc : Bool) :
    enhSkip c now anyUnc = true ↔
      (isTimedOut c now = true ∨ c.phase = .registering ∨ c.stallGated = true ∨ c.connected = false ∨
        (anyUnc = true ∧ capExceeded c = true)) := by
  unfold enhSkip schedulable
  simp only [Bool.or_eq_true, Bool.and_eq_true, Bool.not_eq_true', bne_eq_false_iff_eq]
  tauto

/-- **The score table can be recomputed from the post-state** (what the monitors do): the pass only
refreshes quality caches, and a refreshed cache (`now - now < 50`) returns the value the pass used. -/
theorem C11_scores_reproducible (ls : List (SLink F)) (last : Option Nat) (now : Nat) (quality : Bool)
    (i : Nat) (s : F) :
    ScoredAt (enhancedSelect ls last now quality).1 now quality i s ↔ ScoredAt ls now quality i s := by
  rw [scoredAt_iff, scoredAt_iff, SelLemmas.enhancedSelect_fst, anyUnconstrained_map_upd, List.map_map]
  have h2 : (entry now quality (anyUnconstrained ls now)) ∘ (upd now quality (anyUnconstrained ls now)) =
      entry (F := F) now quality (anyUnconstrained ls now) := by
    funext c; exact entry_upd _ _ _ _
  rw [h2]

end anyScalar

/-! ## Gate clauses that hold for every scalar instance (incl. `Float`) -/

section anyScalarGates
variable {F : Type} [Scalar F]

/-- **The selected link was scored — for EVERY scalar instance.**  Whatever `last` is, the index
returned by the enhanced pass (the running best, or `last` kept by the hysteresis) is in range, was
not skipped, and has an entry in the pass's score table.  No order on `F` is needed, so this is a
statement about the `Float` code the driver runs (NaN scores included). -/
theorem C11_selected_scored_generic (ls : List (SLink F)) (last : Option Nat) (now : Nat) (quality : Bool)
    (i : Nat) (h : (enhancedSelect ls last now quality).2 = some i) :
    ∃ s, ScoredAt ls now quality i s := by
  obtain ⟨s, hs⟩ := selected_scored_any ls last now quality i h
  exact ⟨s, (scoredAt_iff ls now quality i s).2 hs⟩

/-- **Cap exclusion, scalar-generic** (monitor `capped-selected`; same content as
`Srtla.Select.enhancedSelect_scored`): while an unconstrained link exists, the enhanced pass never
returns a link over its in-flight cap — for every scalar instance, `Float` included, whatever the
scores are. -/
theorem C11_cap_excluded_generic (ls : List (SLink F)) (last : Option Nat) (now : Nat) (quality : Bool)
    (i : Nat) (hu : anyUnconstrained ls now = true)
    (h : (enhancedSelect ls last now quality).2 = some i) :
    ∃ c, ls[i]? = some c ∧ capExceeded c = false := by
  obtain ⟨c, hc, hs⟩ := Select.enhancedSelect_scored ls last now quality i h
  refine ⟨c, hc, ?_⟩
  unfold enhSkip at hs
  simp only [Bool.or_eq_false_iff, Bool.and_eq_false_imp] at hs
  exact hs.2 hu

/-- In enhanced mode `any_unconstrained` can be evaluated on the state the call leaves behind (what
a monitor sees) instead of on the post-guard list the loop saw: the loop only refreshes quality
caches, which the predicate does not read. -/
theorem C11_any_unconstrained_post (ls : List (SLink F)) (last : Option Nat) (now : Nat) (cfg : Cfg)
    (hmode : cfg.classic = false) :
    anyUnconstrained (selectIdx ls last now cfg).1 now = anyUnconstrained (applyStallGate ls now cfg) now := by
  rw [selectIdx_enhanced ls last now cfg hmode, SelLemmas.enhancedSelect_fst, anyUnconstrained_map_upd]

/-- **Cap exclusion at `select_connection_idx` level** (enhanced mode, any scalar instance):
`any_unconstrained` is evaluated on the POST-GUARD list (a link the stall guard has just gated does
not count as unconstrained).  If it holds, the returned index `i` is not over its in-flight cap —
read on the caller's link `c`, on the post-guard link `cg`, or on the link `cp` the call leaves
behind (the guard and the cache refresh touch none of CC target, `rtt_min`, in-flight). -/
theorem C11_cap_excluded_select (ls : List (SLink F)) (last : Option Nat) (now : Nat) (cfg : Cfg) (i : Nat)
    (hmode : cfg.classic = false)
    (hu : anyUnconstrained (applyStallGate ls now cfg) now = true)
    (h : (selectIdx ls last now cfg).2 = some i) :
    ∃ c cg cp, ls[i]? = some c ∧ (applyStallGate ls now cfg)[i]? = some cg ∧
      (selectIdx ls last now cfg).1[i]? = some cp ∧
      capExceeded c = false ∧ capExceeded cg = false ∧ capExceeded cp = false := by
  rw [selectIdx_enhanced ls last now cfg hmode] at h ⊢
  obtain ⟨cg, hcg, hcap⟩ := C11_cap_excluded_generic _ last now cfg.quality i hu h
  obtain ⟨c, hc, hcore, -⟩ := gate_getElem?_core hcg
  refine ⟨c, cg, upd now cfg.quality (anyUnconstrained (applyStallGate ls now cfg) now) cg, hc, hcg, ?_, ?_,
    hcap, ?_⟩
  · rw [SelLemmas.enhancedSelect_fst, List.getElem?_map, hcg]; rfl
  · rw [← capExceeded_of_core hcore]; exact hcap
  · obtain ⟨q, t, hq⟩ := upd_QOnly now cfg.quality (anyUnconstrained (applyStallGate ls now cfg) now) cg
    rw [hq]; exact hcap

/-- Link 0: window 60000, but 500 packets in flight against a cap of
`⌊1 Mbit/s × 50 ms / 8 × 1.5 / 1316⌋ = 7` packets; link 1: small window, no CC target —
unconstrained.  (Fixed-point toy scalar `fixScalar`, values ×1000, so that `decide` can run the pass.) -/
def exCap : List (SLink Int) :=
  [ { connId := 1, window := 60000, inFlight := 500, lastReceived := some 4990, ccTarget := 1000000,
      srtt := 0, rttMin := 50000, bitrate := 0, qualMult := 1000 },
    { connId := 2, window := 1000, inFlight := 10, lastReceived := some 4990, srtt := 0, rttMin := 50000,
      bitrate := 0, qualMult := 1000 } ]

/-- Hypotheses of `C11_cap_excluded_generic` / `C11_cap_excluded_select` met; link 0 (score 119 even
with 500 in flight, against 90) is passed over, also when it was the previous pick. -/
example :
    @anyUnconstrained Int fixScalar exCap 5000 = true ∧
    @anyUnconstrained Int fixScalar (applyStallGate exCap 5000 {}) 5000 = true ∧
    (exCap.map (@capExceeded Int fixScalar)) = [true, false] ∧
    (@enhancedSelect Int fixScalar exCap (some 0) 5000 true).2 = some 1 ∧
    (@selectIdx Int fixScalar exCap (some 0) 5000 {}).2 = some 1 ∧
    -- without an unconstrained link the cap does not exclude: link 0 alone is returned
    (@selectIdx Int fixScalar (exCap.take 1) none 5000 {}).2 = some 0 := by
  decide +kernel

end anyScalarGates

/-! ## Score space (ordered field) -/

section field
variable {F : Type} [Field F] [LinearOrder F] [IsStrictOrderedRing F] [FloorRing F] (e : F → F) (ninf : F)

local notation "𝕊" => fieldScalar F e ninf

/-- The property's domain for one link (harness `in_domain`). -/
def InDomain (c : SLink F) : Prop :=
  1000 ≤ c.window ∧ c.window ≤ 60000 ∧ 0 ≤ c.inFlight ∧ 0 ≤ c.queued ∧
    0.35 ≤ c.qualMult ∧ c.qualMult ≤ 1.1 * 1.03

omit [FloorRing F] in
theorem InDomain.weak {c : SLink F} (h : InDomain c) : 0 ≤ c.window ∧ 0 < c.qualMult := by
  obtain ⟨h1, -, -, -, h5, -⟩ := h
  exact ⟨by omega, lt_of_lt_of_le (by norm_num) h5⟩

/-- **Quality multiplier range**: `calculate_quality_multiplier ∈ [0.35, 1.1 × 1.03]` for EVERY link
state and time (any NAK count / age / burst, any RTT, any connection age). -/
theorem C11_quality_range (he : ExpLaw e) (c : SLink F) (now : Nat) :
    0.35 ≤ @qualityMult F 𝕊 c now ∧ @qualityMult F 𝕊 c now ≤ 1.1 * 1.03 := by
  have h := qualityMult_range e ninf he c now
  constructor
  · exact le_trans (by norm_num) h.1
  · exact le_trans h.2 (by norm_num)

/-- The 50 ms cache keeps the range: the value the pass uses, and the value left in the cache, are
in `[0.35, 1.1 × 1.03]` whenever the cached value was. -/
theorem C11_cached_quality_range (he : ExpLaw e) (c : SLink F) (now : Nat)
    (hq : 0.35 ≤ c.qualMult ∧ c.qualMult ≤ 1.1 * 1.03) :
    (0.35 ≤ (@cachedQuality F 𝕊 c now).2 ∧ (@cachedQuality F 𝕊 c now).2 ≤ 1.1 * 1.03) ∧
    (0.35 ≤ (@cachedQuality F 𝕊 c now).1.qualMult ∧ (@cachedQuality F 𝕊 c now).1.qualMult ≤ 1.1 * 1.03) := by
  have h := C11_quality_range e ninf he c now
  unfold cachedQuality
  split
  · exact ⟨h, h⟩
  · exact ⟨hq, hq⟩

/-- **Soft-cap factor range**: `cc_soft_cap_multiplier ∈ [0.1, 1]` for EVERY link state (any
bitrate, positive, zero or negative; any CC target). -/
theorem C11_softcap_range (c : SLink F) :
    0.1 ≤ @softCapMult F 𝕊 c ∧ @softCapMult F 𝕊 c ≤ 1 := by
  have h := softCap_range e ninf c
  exact ⟨le_trans (by norm_num) h.1, h.2⟩

/-- **RTT bonus range**: `calculate_rtt_bonus ∈ [1, 1.03]`. -/
theorem C11_rtt_bonus_range (c : SLink F) :
    1 ≤ @rttBonus F 𝕊 c ∧ @rttBonus F 𝕊 c ≤ 1.03 := by
  have h := rttBonus_range e ninf c
  exact ⟨h.1, le_trans h.2 (by norm_num)⟩

/-- **Score formula.**  For a link the loop does not skip (so: connected and not registering) with
in-domain counters, the score is
`base × (0.8 if warming, else 1) × quality × softcap × (0.02 if anyUnc ∧ (weak ∨ loss-degraded), else 1)`
with `base = window / (in_flight + queued + 1)` (integer division) and `quality` the 50 ms-cached
multiplier (1 with quality scoring off). -/
theorem C11_score_formula (c : SLink F) (now : Nat) (quality anyUnc : Bool)
    (hs : @enhSkip F 𝕊 c now anyUnc = false)
    (hi : 0 ≤ c.inFlight) (hq : 0 ≤ c.queued) (hsat : c.inFlight + c.queued < 2147483647) :
    (@enhScore F 𝕊 c now quality anyUnc).2 =
      ((c.window / (c.inFlight + c.queued + 1) : Int) : F) *
      (match c.phase with | .warming _ _ => 0.8 | _ => 1) *
      (if quality then (if now - c.qualAt ≥ 50 then @qualityMult F 𝕊 c now else c.qualMult) else 1) *
      @softCapMult F 𝕊 c *
      (if anyUnc = true ∧ (c.weak = true ∨ c.lossDegraded = true) then 0.02 else 1) := by
  have hsk := hs
  unfold enhSkip schedulable at hsk
  simp only [Bool.or_eq_false_iff, Bool.not_eq_false', bne_iff_ne, ne_eq] at hsk
  obtain ⟨⟨⟨⟨-, hph⟩, -⟩, hconn⟩, -⟩ := hsk
  have hg : gateFactor (F := F) anyUnc c =
      (if anyUnc = true ∧ (c.weak = true ∨ c.lossDegraded = true) then 0.02 else 1) := by
    unfold gateFactor
    cases anyUnc <;> cases c.weak <;> cases c.lossDegraded <;> norm_num
  rw [enhScore_formula, score_eq c hconn hi hq hsat, phaseWeight_val, hg]
  unfold qualFactor
  cases hc : c.phase with
  | registering => exact absurd hc hph
  | warming a b => norm_num
  | live => norm_num
  | degraded => norm_num

/-- **Bounded ("finite")**: the score of a non-skipped in-domain link is in
`[0, window × 1.1 × 1.03] ⊆ [0, 67980]`. -/
theorem C11_score_bounded (he : ExpLaw e) (c : SLink F) (now : Nat) (quality anyUnc : Bool)
    (hd : InDomain c) (hs : @enhSkip F 𝕊 c now anyUnc = false) :
    0 ≤ (@enhScore F 𝕊 c now quality anyUnc).2 ∧
    (@enhScore F 𝕊 c now quality anyUnc).2 ≤ (c.window : F) * (1.1 * 1.03) ∧
    (c.window : F) * (1.1 * 1.03) ≤ 67980 := by
  have hsk := hs
  unfold enhSkip at hsk
  simp only [Bool.or_eq_false_iff, Bool.not_eq_false'] at hsk
  have hconn := hsk.1.2
  obtain ⟨h1, h2, -, -, h5, h6⟩ := hd
  have hw : 0 ≤ c.window := by omega
  have hq0 : 0 < c.qualMult := lt_of_lt_of_le (by norm_num) h5
  refine ⟨enhScore_nonneg e ninf he c now quality anyUnc hconn hw hq0, ?_, ?_⟩
  · have := enhScore_le e ninf he c now quality anyUnc hconn hw hq0 (le_trans h6 (by norm_num))
    exact le_trans this (le_of_eq (by norm_num))
  · have : (c.window : F) ≤ 60000 := by exact_mod_cast h2
    nlinarith

/-- **Weak / loss-degraded links compete at 2 %** while an unconstrained link exists: the score is
exactly `0.02 ×` the score the same link gets when no unconstrained link exists. -/
theorem C11_weak_at_2_percent (c : SLink F) (now : Nat) (quality : Bool)
    (h : c.weak = true ∨ c.lossDegraded = true) :
    (@enhScore F 𝕊 c now quality true).2 = 0.02 * (@enhScore F 𝕊 c now quality false).2 := by
  rw [enhScore_formula, enhScore_formula]
  have h1 : gateFactor (F := F) true c = 1 / 50 := by
    unfold gateFactor; rcases h with h | h <;> simp [h]
  have h2 : gateFactor (F := F) false c = 1 := by unfold gateFactor; simp
  rw [h1, h2]
  norm_num
  ring

/-- **Warming links compete at 80 %**: the score is exactly `0.8 ×` the score of the same link
once it is Live. -/
theorem C11_warming_at_80_percent (c : SLink F) (now : Nat) (quality anyUnc : Bool) (p t : Nat)
    (h : c.phase = .warming p t) :
    (@enhScore F 𝕊 c now quality anyUnc).2 =
      0.8 * (@enhScore F 𝕊 { c with phase := .live } now quality anyUnc).2 := by
  rw [enhScore_formula, enhScore_formula, phaseWeight_val, phaseWeight_val, h]
  have h1 : score ({ c with phase := .live } : SLink F) = score c := rfl
  have h2 : qualFactor e ninf ({ c with phase := .live } : SLink F) now quality = qualFactor e ninf c now quality := rfl
  have h3 : @softCapMult F 𝕊 ({ c with phase := .live } : SLink F) = @softCapMult F 𝕊 c := rfl
  have h4 : gateFactor (F := F) anyUnc ({ c with phase := .live } : SLink F) = gateFactor anyUnc c := rfl
  rw [h1, h2, h3, h4]
  norm_num
  ring

/-- **The per-link ratios, tied to the pass.**  Take the score table of one enhanced pass over `ls`
(`ScoredAt ls now quality`, the table `enhanced::select_connection` maximises over; for
`select_connection_idx` take `ls := applyStallGate … `, as in `C11_leave_only_if_select`).  For
every scored index `i` with link `c` and entry `s`:
* if the pass has an unconstrained link and `c` is weak or loss-degraded, `s` is exactly `0.02 ×`
  the entry the same link gets in a pass without an unconstrained link (its ungated entry);
* otherwise (no unconstrained link, or `c` neither weak nor loss-degraded) `s` IS the ungated entry;
* if `c` is Warming, `s` carries the factor `0.8`: it is `0.8 ×` the entry of the same link, in the
  same pass, once Live. -/
theorem C11_pass_table_factors (ls : List (SLink F)) (now : Nat) (quality : Bool) (i : Nat) (s : F)
    (c : SLink F) (hc : ls[i]? = some c) (h : @ScoredAt F 𝕊 ls now quality i s) :
    (@anyUnconstrained F 𝕊 ls now = true → (c.weak = true ∨ c.lossDegraded = true) →
        s = 0.02 * (@enhScore F 𝕊 c now quality false).2) ∧
    ((@anyUnconstrained F 𝕊 ls now = false ∨ (c.weak = false ∧ c.lossDegraded = false)) →
        s = (@enhScore F 𝕊 c now quality false).2) ∧
    (∀ p t, c.phase = .warming p t →
        s = 0.8 * (@enhScore F 𝕊 { c with phase := .live } now quality (@anyUnconstrained F 𝕊 ls now)).2) := by
  obtain ⟨c', hc', -, hs⟩ := h
  rw [hc] at hc'
  cases hc'
  subst hs
  refine ⟨?_, ?_, ?_⟩
  · intro hu hw
    rw [hu]
    exact C11_weak_at_2_percent e ninf c now quality hw
  · rintro (hu | ⟨hw, hl⟩)
    · rw [hu]
    · rw [enhScore_formula, enhScore_formula]
      have h1 : ∀ u, gateFactor (F := F) u c = 1 := by
        intro u; unfold gateFactor; simp [hw, hl]
      rw [h1, h1]
  · intro p t hp
    exact C11_warming_at_80_percent e ninf c now quality _ p t hp

/-- **The selected link was scored** (monitor `unscored-selected`): whatever `last` is, the index
returned by the enhanced pass is in range and was not skipped — in particular it is connected,
schedulable, not timed out and not stall-gated, also when it is returned by the hysteresis. -/
theorem C11_selected_scored (ls : List (SLink F)) (last : Option Nat) (now : Nat) (quality : Bool) (i : Nat)
    (h : (@enhancedSelect F 𝕊 ls last now quality).2 = some i) :
    ∃ s, @ScoredAt F 𝕊 ls now quality i s := by
  obtain ⟨s, hs⟩ := selected_scored e ninf ls last now quality i h
  exact ⟨s, (@scoredAt_iff F 𝕊 ls now quality i s).2 hs⟩

/-- **Cap exclusion** (monitor `capped-selected`): while an unconstrained link exists, a link over
its in-flight cap is never returned. -/
theorem C11_cap_excluded (ls : List (SLink F)) (last : Option Nat) (now : Nat) (quality : Bool) (i : Nat)
    (hu : @anyUnconstrained F 𝕊 ls now = true)
    (h : (@enhancedSelect F 𝕊 ls last now quality).2 = some i) :
    ∃ c, ls[i]? = some c ∧ @capExceeded F 𝕊 c = false := by
  obtain ⟨s, c, hc, hs, -⟩ := C11_selected_scored e ninf ls last now quality i h
  refine ⟨c, hc, ?_⟩
  unfold enhSkip at hs
  simp only [Bool.or_eq_false_iff, Bool.and_eq_false_imp] at hs
  exact hs.2 hu

/-- **Hysteresis** (monitor `left-without-10pct`).  With every link in the domain, if the enhanced
pass called with `last = some l` returns something else, then EITHER link `l` was not scored (out of
range or skipped, see `C11_skip_iff`) OR the pass returned a different index `j` that was scored,
whose score is the maximum of the table, and `score j ≥ 1.10 × score l`. -/
theorem C11_leave_only_if (he : ExpLaw e) (ls : List (SLink F)) (l : Nat) (now : Nat) (quality : Bool)
    (hdom : ∀ c ∈ ls, InDomain c)
    (h : (@enhancedSelect F 𝕊 ls (some l) now quality).2 ≠ some l) :
    (¬ ∃ s, @ScoredAt F 𝕊 ls now quality l s) ∨
    ∃ (j : Nat) (sj sl : F), j ≠ l ∧
      (@enhancedSelect F 𝕊 ls (some l) now quality).2 = some j ∧
      @ScoredAt F 𝕊 ls now quality j sj ∧ @ScoredAt F 𝕊 ls now quality l sl ∧
      1.10 * sl ≤ sj ∧
      ∀ (k : Nat) (s : F), @ScoredAt F 𝕊 ls now quality k s → s ≤ sj := by
  rcases leave_only_if e ninf he ls l now quality (fun c hc => (hdom c hc).weak) h with h1 | h2
  · left
    rintro ⟨s, hs⟩
    exact h1 s ((@scoredAt_iff F 𝕊 ls now quality l s).1 hs)
  · right
    obtain ⟨j, sj, sl, hjl, hres, hj, hl, hge, hmax⟩ := h2
    refine ⟨j, sj, sl, hjl, hres, (@scoredAt_iff F 𝕊 _ _ _ _ _).2 hj, (@scoredAt_iff F 𝕊 _ _ _ _ _).2 hl, ?_, ?_⟩
    · have : (1.10 : F) * sl = sl * (11 / 10) := by norm_num; ring
      rw [this]; exact hge
    · intro k s hk
      exact hmax k s ((@scoredAt_iff F 𝕊 _ _ _ _ _).1 hk)

/-- The same for `select_connection_idx` in enhanced mode: the table is the one of the pass over the
post-guard links. -/
theorem C11_leave_only_if_select (he : ExpLaw e) (ls : List (SLink F)) (l : Nat) (now : Nat) (cfg : Cfg)
    (hmode : cfg.classic = false) (hdom : ∀ c ∈ ls, InDomain c)
    (h : (@selectIdx F 𝕊 ls (some l) now cfg).2 ≠ some l) :
    (¬ ∃ s, @ScoredAt F 𝕊 (applyStallGate ls now cfg) now cfg.quality l s) ∨
    ∃ (j : Nat) (sj sl : F), j ≠ l ∧
      (@selectIdx F 𝕊 ls (some l) now cfg).2 = some j ∧
      @ScoredAt F 𝕊 (applyStallGate ls now cfg) now cfg.quality j sj ∧
      @ScoredAt F 𝕊 (applyStallGate ls now cfg) now cfg.quality l sl ∧
      1.10 * sl ≤ sj := by
  have hdom' : ∀ x ∈ applyStallGate ls now cfg, InDomain x := by
    intro x hx
    obtain ⟨c, hc, hcore, -⟩ := gate_mem_core hx
    have hd := hdom c hc
    have h1 := congrArg SLink.window hcore
    have h2 := congrArg SLink.inFlight hcore
    have h3 := congrArg SLink.queued hcore
    have h4 := congrArg SLink.qualMult hcore
    simp only [core] at h1 h2 h3 h4
    unfold InDomain at hd ⊢
    rw [h1, h2, h3, h4]; exact hd
  rw [@selectIdx_enhanced F 𝕊 ls (some l) now cfg hmode] at h ⊢
  rcases C11_leave_only_if e ninf he _ l now cfg.quality hdom' h with h1 | ⟨j, sj, sl, a, b, c, d, f, -⟩
  · exact Or.inl h1
  · exact Or.inr ⟨j, sj, sl, a, b, c, d, f⟩

end field

/-! ## Concrete states meeting the hypotheses (over `ℚ`, `exp x := 1/(1-x)`) -/

/-- `now = 100000`; link 0: Live, 10 packets in flight, NAK 1 s ago in a burst of 6, RTT 30 ms,
stale cache; link 1: Warming, weak, CC target 4 Mbit/s at 3.9 Mbit/s measured; link 2: Live, idle,
perfect, over nothing.  Link 2 is unconstrained. -/
def exLinks : List (SLink ℚ) :=
  [ { connId := 1, window := 20000, inFlight := 10, lastReceived := some 99990, established := 1000,
      nakCount := 7, lastNakMs := 99000, nakBurst := 6, srtt := 30, rttMin := 25, bitrate := 0,
      qualMult := 1, qualAt := 0 },
    { connId := 2, phase := .warming 1 99000, window := 15000, inFlight := 3, lastReceived := some 99995,
      established := 98000, weak := true, ccTarget := 4000000, srtt := 120, rttMin := 100,
      bitrate := 3900000, qualMult := 1.1, qualAt := 99990 },
    { connId := 3, window := 30000, lastReceived := some 99999, established := 1000, srtt := 60,
      rttMin := 50, bitrate := 0, qualMult := 1.1, qualAt := 99980 } ]

example : ∀ c ∈ exLinks, InDomain c := by
  intro c hc
  simp only [exLinks, List.mem_cons, List.not_mem_nil, or_false] at hc
  rcases hc with rfl | rfl | rfl <;> (unfold InDomain; norm_num)

/-- Hypotheses of `C11_score_formula` / `C11_weak_at_2_percent` / `C11_warming_at_80_percent`
for link 1 of the example (not skipped: connected, warming, heard 5 ms ago, not gated, no cap hit). -/
example : ∃ c ∈ exLinks, c.weak = true ∧ (∃ p t, c.phase = .warming p t) ∧ isTimedOut c 100000 = false ∧
    c.connected = true ∧ c.stallGated = false ∧ 0 ≤ c.inFlight ∧ 0 ≤ c.queued ∧
    c.inFlight + c.queued < 2147483647 :=
  ⟨_, List.mem_cons_of_mem _ List.mem_cons_self, rfl, ⟨1, 99000, rfl⟩, by decide⟩

/-- Hypotheses of `C11_pass_table_factors` met on the example: link 1 (weak, Warming) is scored by
the pass at `now = 100000` (connected, not registering, heard 5 ms ago, not gated, 3 packets in flight
against a cap of `⌊4 Mbit/s × 100 ms / 8 × 1.5 / 1316⌋ = 56`), and link 2 makes the pass
"unconstrained".  So its table entry is `0.02 ×` its ungated entry and carries the factor `0.8`. -/
example : ∃ s c, exLinks[1]? = some c ∧ @ScoredAt ℚ ratScalar exLinks 100000 true 1 s ∧
    (c.weak = true ∨ c.lossDegraded = true) ∧ (∃ p t, c.phase = .warming p t) ∧
    @anyUnconstrained ℚ ratScalar exLinks 100000 = true := by
  have hcap : @capExceeded ℚ ratScalar exLinks[1] = false := by
    simp only [exLinks, List.getElem_cons_succ, List.getElem_cons_zero, capExceeded, inFlightCap]
    norm_num [Scalar.isFinite, Scalar.gt, Scalar.lt, Scalar.lit, Scalar.ofNat, Scalar.div, Scalar.mul,
      Scalar.fmax, Scalar.fmin, Scalar.floor, Scalar.toNatSat, Enhanced.IN_FLIGHT_CAP_BDP_MULT_num,
      Enhanced.IN_FLIGHT_CAP_BDP_MULT_den, LinkCc.ASSUMED_SRT_PAYLOAD_BYTES]
  have hu : @anyUnconstrained ℚ ratScalar exLinks 100000 = true := by
    unfold anyUnconstrained
    refine List.any_eq_true.2 ⟨exLinks[2], by simp [exLinks], ?_⟩
    have h0 : @capExceeded ℚ ratScalar exLinks[2] = false := by
      simp [exLinks, capExceeded, inFlightCap]
    rw [h0]
    decide
  refine ⟨_, exLinks[1], rfl, ⟨exLinks[1], rfl, ?_, rfl⟩, Or.inl rfl, ⟨1, 99000, rfl⟩, hu⟩
  unfold enhSkip
  rw [hcap]
  decide

/-- `C11_idempotent` / `C11_stable` need only `0 < now`; they apply verbatim to the `Float`
instance the compiled driver (and hence the correspondence check) runs. -/
example (ls : List (SLink Float)) (last : Option Nat) (cfg : Cfg) :
    selectIdx (selectIdx ls last 100000 cfg).1 last 100000 cfg = selectIdx ls last 100000 cfg :=
  C11_idempotent ls last 100000 cfg (by decide)

/-- Instance of `C11_leave_only_if` on the example (all hypotheses discharged). -/
example (h : (@enhancedSelect ℚ ratScalar exLinks (some 0) 100000 true).2 ≠ some 0) :
    (¬ ∃ s, @ScoredAt ℚ ratScalar exLinks 100000 true 0 s) ∨
    ∃ (j : Nat) (sj sl : ℚ), j ≠ 0 ∧
      (@enhancedSelect ℚ ratScalar exLinks (some 0) 100000 true).2 = some j ∧
      @ScoredAt ℚ ratScalar exLinks 100000 true j sj ∧ @ScoredAt ℚ ratScalar exLinks 100000 true 0 sl ∧
      1.10 * sl ≤ sj ∧
      ∀ (k : Nat) (s : ℚ), @ScoredAt ℚ ratScalar exLinks 100000 true k s → s ≤ sj :=
  C11_leave_only_if _ _ expLaw_rat exLinks 0 100000 true
    (by
      intro c hc
      simp only [exLinks, List.mem_cons, List.not_mem_nil, or_false] at hc
      rcases hc with rfl | rfl | rfl <;> (unfold InDomain; norm_num))
    h

/-! ## Shell level (round 3): `runSelect` and `Sys.run` -/

section shellAnyScalar
variable {F : Type} [Scalar F]
open Srtla.Link Srtla.Sys

/-- **Idempotent, at shell level.**  `runSelect` is the shell's scheduling step: `select_connection_idx`
on the selection views of the live connection records, then the write-back of the guard fields and the
quality cache into the full records (`FLink.absorb`).  Re-running it on the state it returned, at the same
`now > 0` (the previous pick is not touched by the step), yields the same index AND the same state — the
whole shell state: every field of every connection record, registration manager, tracker, configuration.
Any scalar instance, `Float` included; no domain restriction. -/
theorem C11_idempotent_sys (s : Sys F) (now : Nat) (h : 0 < now) :
    runSelect (runSelect s now).1 now = runSelect s now :=
  SelShell.runSelect_idem s now h

/-- The two components separately: same decision, state unchanged. -/
theorem C11_idempotent_sys_components (s : Sys F) (now : Nat) (h : 0 < now) :
    (runSelect (runSelect s now).1 now).2 = (runSelect s now).2 ∧
    (runSelect (runSelect s now).1 now).1 = (runSelect s now).1 := by
  rw [C11_idempotent_sys s now h]
  exact ⟨rfl, rfl⟩

/-- **Stable, at shell level.**  After the decision `r` has been recorded as the previous pick (what
`forward_via_connection` does with it), the scheduling step returns `r` again and changes nothing. -/
theorem C11_stable_sys (s : Sys F) (now r : Nat) (h : 0 < now) (hr : (runSelect s now).2 = some r) :
    runSelect { (runSelect s now).1 with lastSelected := some r } now =
      ({ (runSelect s now).1 with lastSelected := some r }, some r) :=
  SelShell.runSelect_stable s now r h hr

/-- What the selection views of the returned state are: exactly the links `select_connection_idx`
returned (so every theorem about `(selectIdx …).1` is a theorem about the shell state after the step). -/
theorem C11_runSelect_view (s : Sys F) (now : Nat) :
    (runSelect s now).1.links.map FLink.toSLink =
      (selectIdx (s.links.map FLink.toSLink) s.lastSelected now s.cfg).1 ∧
    (runSelect s now).2 = (selectIdx (s.links.map FLink.toSLink) s.lastSelected now s.cfg).2 :=
  ⟨SelShell.runSelect_view s now, rfl⟩

/-- They apply verbatim to the `Float` instance the compiled driver runs, in any reached state. -/
example (s : Sys Float) (evs : List Ev) :
    runSelect (runSelect (Sys.run s evs).1 100000).1 100000 = runSelect (Sys.run s evs).1 100000 :=
  C11_idempotent_sys _ 100000 (by decide)

/-- A concrete shell state (two live links, registered session; toy scalar `fixScalar`): the step picks
link 1 (20000/1 against 20000/3), refreshes both quality caches (stale since 0) and stamps nothing else;
running it again returns `some 1` and the same caches. -/
def exShell : Sys Int :=
  { links :=
      [ { (@FLink.newRegistering Int fixScalar 1 0) with
          core := { connId := 1, connected := true, phase := .live, inFlight := 2,
                    log := [(5, 100), (7, 120)], highestAcked := 4, lastReceived := some 4990 },
          established := 1 },
        { (@FLink.newRegistering Int fixScalar 2 0) with
          core := { connId := 2, connected := true, phase := .live, lastReceived := some 4990 },
          established := 1 } ],
    reg := { (Srtla.Reg.Reg.new [] []) with hasConnected := true } }

example :
    (@runSelect Int fixScalar exShell 5000).2 = some 1 ∧
    ((@runSelect Int fixScalar exShell 5000).1.links.map fun l => (l.qualMult, l.qualAt)) =
      [(1100, 5000), (1100, 5000)] ∧
    (@runSelect Int fixScalar (@runSelect Int fixScalar exShell 5000).1 5000).2 = some 1 ∧
    ((@runSelect Int fixScalar (@runSelect Int fixScalar exShell 5000).1 5000).1.links.map fun l =>
      (l.qualMult, l.qualAt)) = [(1100, 5000), (1100, 5000)] := by
  decide +kernel

end shellAnyScalar

section shellField
variable {K : Type} [Field K] [LinearOrder K] [IsStrictOrderedRing K] [FloorRing K] (e : K → K) (ninf : K)
open Srtla.Link Srtla.Sys

local notation "𝕊" => fieldScalar K e ninf

/-- **All score factors stay within their documented ranges along every run of the shell.**  From any
state whose cached quality multipliers are in `[0.35, 1.1 × 1.03]` (fresh links carry `1.0`, see
`_from_init`), after EVERY list of events of the shell — arbitrary verdict stamps (`Ev.stamp`) between any
two other events included — (the same induction as `SysLevel.QualInv_run`, on
`Lemmas/SysInv.step_all` + `SysInvQual.qualRange_closed`), for every link `l` of the reached state:
* the cached quality multiplier is in `[0.35, 1.1 × 1.03]`;
* the value a selection pass at ANY clock `now` would use for the link — the cached one, or
  `calculate_quality_multiplier` if the 50 ms cache is stale — is in `[0.35, 1.1 × 1.03]`, and so is the
  value it would leave in the cache;
* the soft-cap factor is in `[0.1, 1]` for the link's own CC target / measured bitrate AND for any other
  values of them (`tgt`, `br` arbitrary; since round 4 the classifier / link-CC stamps are the shell event
  `Ev.stamp` with the verdicts as inputs, so runs already include arbitrary CC targets — the extra
  quantifier also covers bitrates the run does not produce);
* the RTT bonus is in `[1, 1.03]`.
Exact arithmetic under `ExpLaw e` (IEEE rounding / NaN are not part of this proof; the monitors
`quality-range`, `softcap-range` assert the same ranges on the real code). -/
theorem C11_factors_in_range_run (he : ExpLaw e) (s : Sys K) (evs : List Ev)
    (hq : ∀ l ∈ s.links, 0.35 ≤ l.qualMult ∧ l.qualMult ≤ 1.1 * 1.03) :
    ∀ l ∈ (@Sys.run K 𝕊 s evs).1.links,
      (0.35 ≤ l.qualMult ∧ l.qualMult ≤ 1.1 * 1.03) ∧
      (∀ now, (0.35 ≤ (@cachedQuality K 𝕊 (@FLink.toSLink K 𝕊 l) now).2 ∧
                (@cachedQuality K 𝕊 (@FLink.toSLink K 𝕊 l) now).2 ≤ 1.1 * 1.03) ∧
              (0.35 ≤ (@cachedQuality K 𝕊 (@FLink.toSLink K 𝕊 l) now).1.qualMult ∧
                (@cachedQuality K 𝕊 (@FLink.toSLink K 𝕊 l) now).1.qualMult ≤ 1.1 * 1.03)) ∧
      (∀ (tgt : Nat) (br : K),
        0.1 ≤ @softCapMult K 𝕊 { (@FLink.toSLink K 𝕊 l) with ccTarget := tgt, bitrate := br } ∧
        @softCapMult K 𝕊 { (@FLink.toSLink K 𝕊 l) with ccTarget := tgt, bitrate := br } ≤ 1) ∧
      (0.1 ≤ @softCapMult K 𝕊 (@FLink.toSLink K 𝕊 l) ∧ @softCapMult K 𝕊 (@FLink.toSLink K 𝕊 l) ≤ 1) ∧
      (1 ≤ @rttBonus K 𝕊 (@FLink.toSLink K 𝕊 l) ∧ @rttBonus K 𝕊 (@FLink.toSLink K 𝕊 l) ≤ 1.03) := by
  intro l hl
  have hr : 0.35 ≤ l.qualMult ∧ l.qualMult ≤ 1.1 * 1.03 :=
    SelShell.qualRange_run e ninf he s evs hq l hl
  refine ⟨hr, fun now => ?_, fun tgt br => C11_softcap_range e ninf _, C11_softcap_range e ninf _,
    C11_rtt_bonus_range e ninf _⟩
  exact C11_cached_quality_range e ninf he (@FLink.toSLink K 𝕊 l) now hr

/-- From the driver's initial state (`n` fresh links), for every event list. -/
theorem C11_factors_in_range_from_init (he : ExpLaw e) (n t0 : Nat) (reg : Reg.Reg) (evs : List Ev) :
    ∀ l ∈ (@Sys.run K 𝕊
        { links := (List.range n).map fun i => @FLink.newRegistering K 𝕊 (i + 1) t0, reg := reg } evs).1.links,
      (0.35 ≤ l.qualMult ∧ l.qualMult ≤ 1.1 * 1.03) ∧
      (∀ now, 0.35 ≤ (@cachedQuality K 𝕊 (@FLink.toSLink K 𝕊 l) now).2 ∧
              (@cachedQuality K 𝕊 (@FLink.toSLink K 𝕊 l) now).2 ≤ 1.1 * 1.03) ∧
      (∀ (tgt : Nat) (br : K),
        0.1 ≤ @softCapMult K 𝕊 { (@FLink.toSLink K 𝕊 l) with ccTarget := tgt, bitrate := br } ∧
        @softCapMult K 𝕊 { (@FLink.toSLink K 𝕊 l) with ccTarget := tgt, bitrate := br } ≤ 1) := by
  intro l hl
  have h := C11_factors_in_range_run e ninf he _ evs (by
    intro x hx
    obtain ⟨i, -, rfl⟩ := List.mem_map.1 hx
    exact SysInv.qualRange_new e ninf (i + 1) t0) l hl
  exact ⟨h.1, fun now => (h.2.1 now).1, h.2.2.1⟩

end shellField

/-- Instance over `ℚ` (`exp x := 1/(1-x)`): after ANY events from two fresh links, e.g. a CC target of
4 Mbit/s at 3.9 Mbit/s measured gives a soft-cap factor in `[0.1, 1]`. -/
example (evs : List Srtla.Sys.Ev) :
    ∀ l ∈ (@Srtla.Sys.run ℚ ratScalar
        { links := (List.range 2).map fun i => @Srtla.Link.FLink.newRegistering ℚ ratScalar (i + 1) 0,
          reg := Srtla.Reg.Reg.new [] [] } evs).1.links,
      0.1 ≤ @softCapMult ℚ ratScalar
        { (@Srtla.Link.FLink.toSLink ℚ ratScalar l) with ccTarget := 4000000, bitrate := 3900000 } :=
  fun l hl => ((C11_factors_in_range_from_init _ _ expLaw_rat 2 0 _ evs l hl).2.2 4000000 3900000).1

end Srtla.Props.C11
